import ColoVerif.Model.NetAsm
import ColoVerif.Proofs.NetAsmScale
import Mathlib.Tactic.Ring
/-
C17 helper lemmas: the documented quadratics `QModel`, `penQ` are linear in the net weights and
penalty strengths (each net's term carries its own weight as a factor).
-/
namespace ColoVerif.NetAsm

theorem sumIdx_mul (k : Rat) (f g : Nat → Pin → Rat) (h : ∀ i p, g i p = k * f i p) (ps : List Pin) :
    ∀ i, sumIdx g i ps = k * sumIdx f i ps := by
  induction ps with
  | nil => intro i; simp [sumIdx]
  | cons p ps ih => intro i; simp only [sumIdx, h, ih]; ring

theorem bipointQ_scale (k : Rat) (x : Nat → Rat) (w : Rat) (pins : List Pin) :
    bipointQ x (k * w) pins = k * bipointQ x w pins := by
  rcases pins with _ | ⟨p0, _ | ⟨p1, rest⟩⟩
  · simp [bipointQ]
  · simp [bipointQ]
  · simp only [bipointQ]; ring

theorem starQ_scale (k : Rat) (x : Nat → Rat) (w : Rat) (sv : Nat) (pins : List Pin) :
    starQ x (k * w) sv pins = k * starQ x w sv pins := by
  induction pins with
  | nil => simp [starQ]
  | cons p ps ih => simp only [starQ, ih]; ring

theorem netQ0_scale (k : Rat) (x : Nat → Rat) (sv : Nat) (n : Net) :
    netQ0 x sv (n.scale k) = k * netQ0 x sv n := by
  obtain ⟨w, pins⟩ := n
  show netQ0 x sv ⟨k * w, pins⟩ = k * netQ0 x sv ⟨w, pins⟩
  unfold netQ0
  dsimp only
  by_cases h : pins.length ≤ 2
  · rw [if_pos h, if_pos h]; exact bipointQ_scale ..
  · rw [if_neg h, if_neg h, mul_div_assoc]; exact starQ_scale ..

theorem bipTerm_scale (k : Rat) (pl : List Rat) (ε : Rat) (x : Nat → Rat) (n : Net) :
    bipTerm pl ε x (n.scale k) = k * bipTerm pl ε x n := by
  obtain ⟨w, pins⟩ := n
  show bipTerm pl ε x ⟨k * w, pins⟩ = k * bipTerm pl ε x ⟨w, pins⟩
  rcases pins with _ | ⟨p0, _ | ⟨p1, rest⟩⟩
  · simp [bipTerm]
  · simp [bipTerm]
  · simp only [bipTerm]
    rw [mul_div_assoc]; exact bipointQ_scale ..

theorem cliqueInnerQ_scale (k : Rat) (pl : List Rat) (ε w : Rat) (x : Nat → Rat) (pi : Pin) (ps : List Pin) :
    cliqueInnerQ pl ε (k * w) x pi ps = k * cliqueInnerQ pl ε w x pi ps := by
  induction ps with
  | nil => simp [cliqueInnerQ]
  | cons q qs ih => simp only [cliqueInnerQ, ih, mul_div_assoc]; ring

theorem cliqueGoQ_scale (k : Rat) (pl : List Rat) (ε w : Rat) (x : Nat → Rat) (ps : List Pin) :
    cliqueGoQ pl ε (k * w) x ps = k * cliqueGoQ pl ε w x ps := by
  induction ps with
  | nil => simp [cliqueGoQ]
  | cons q qs ih => simp only [cliqueGoQ, ih, cliqueInnerQ_scale]; ring

theorem cliqueQ_scale (k : Rat) (pl : List Rat) (ε : Rat) (x : Nat → Rat) (n : Net) :
    cliqueQ pl ε x (n.scale k) = k * cliqueQ pl ε x n := by
  unfold cliqueQ
  rw [cliqueW_scale, netScale_pins]
  exact cliqueGoQ_scale ..

theorem b2bTermQ_scale (k : Rat) (pl : List Rat) (ε w : Rat) (mn mx : Ext) (x : Nat → Rat) (i : Nat) (p : Pin) :
    b2bTermQ pl ε (k * w) mn mx x i p = k * b2bTermQ pl ε w mn mx x i p := by
  unfold b2bTermQ
  by_cases h1 : i = mn.i
  · simp [h1]
  · by_cases h2 : i = mx.i
    · rw [if_neg h1, if_neg h1, if_pos h2, if_pos h2, mul_div_assoc]; ring
    · rw [if_neg h1, if_neg h1, if_neg h2, if_neg h2, mul_div_assoc, mul_div_assoc]; ring

theorem b2bQ_scale (k : Rat) (pl : List Rat) (ε : Rat) (x : Nat → Rat) (n : Net) :
    b2bQ pl ε x (n.scale k) = k * b2bQ pl ε x n := by
  unfold b2bQ
  rw [b2bW_scale, netScale_pins]
  exact sumIdx_mul k _ _ (fun i p => b2bTermQ_scale ..) _ _

theorem starTermQ_scale (k : Rat) (pl : List Rat) (ε wt : Rat) (mn mx : Ext) (sc : Nat) (x : Nat → Rat)
    (i : Nat) (p : Pin) :
    starTermQ pl ε (k * wt) mn mx sc x i p = k * starTermQ pl ε wt mn mx sc x i p := by
  unfold starTermQ
  by_cases h : i = mn.i ∨ i = mx.i
  · simp only [h, if_true, mul_div_assoc]; ring
  · simp only [h, if_false, mul_div_assoc]; ring

theorem lightStarTermQ_scale (k : Rat) (pl : List Rat) (ε wt wb : Rat) (mn mx : Ext) (sc : Nat) (x : Nat → Rat)
    (i : Nat) (p : Pin) :
    lightStarTermQ pl ε (k * wt) (k * wb) mn mx sc x i p = k * lightStarTermQ pl ε wt wb mn mx sc x i p := by
  unfold lightStarTermQ
  by_cases h : i = mn.i ∨ i = mx.i
  · simp only [h, if_true, mul_div_assoc]; ring
  · simp only [h, if_false, mul_div_assoc]; ring

theorem starNetQ_scale (k : Rat) (pl : List Rat) (ε : Rat) (x : Nat → Rat) (sv : Nat) (n : Net) :
    starNetQ pl ε x sv (n.scale k) = k * starNetQ pl ε x sv n := by
  have hb := bipTerm_scale k pl ε x n
  obtain ⟨w, pins⟩ := n
  show starNetQ pl ε x sv ⟨k * w, pins⟩ = k * starNetQ pl ε x sv ⟨w, pins⟩
  unfold starNetQ
  dsimp only
  by_cases h : pins.length ≤ 2
  · rw [if_pos h, if_pos h]; exact hb
  · rw [if_neg h, if_neg h]
    exact sumIdx_mul k _ _ (fun i p => starTermQ_scale ..) _ _

theorem lightStarNetQ_scale (k : Rat) (pl : List Rat) (ε : Rat) (x : Nat → Rat) (sv : Nat) (n : Net) :
    lightStarNetQ pl ε x sv (n.scale k) = k * lightStarNetQ pl ε x sv n := by
  have hb := bipTerm_scale k pl ε x n
  have hw : b2bW (n.scale k) = k * b2bW n := b2bW_scale k n
  obtain ⟨w, pins⟩ := n
  change b2bW ⟨k * w, pins⟩ = k * b2bW ⟨w, pins⟩ at hw
  show lightStarNetQ pl ε x sv ⟨k * w, pins⟩ = k * lightStarNetQ pl ε x sv ⟨w, pins⟩
  unfold lightStarNetQ
  rw [hw]
  dsimp only
  by_cases h : pins.length ≤ 2
  · rw [if_pos h, if_pos h]; exact hb
  · rw [if_neg h, if_neg h]
    exact sumIdx_mul k _ _ (fun i p => lightStarTermQ_scale ..) _ _

theorem netQ_scale (k : Rat) (m : Mode) (pl : List Rat) (ε : Rat) (x : Nat → Rat) (sv : Nat) (n : Net) :
    netQ m pl ε x sv (n.scale k) = k * netQ m pl ε x sv n := by
  cases m with
  | star0 => exact netQ0_scale ..
  | b2b => exact b2bQ_scale ..
  | star => exact starNetQ_scale ..
  | clique => exact cliqueQ_scale ..
  | lightStar => exact lightStarNetQ_scale ..

theorem usesAux_scale (k : Rat) (m : Mode) (n : Net) : usesAux m (n.scale k) = usesAux m n := by
  cases m <;> rfl

theorem QModel_scale (k : Rat) (m : Mode) (pl : List Rat) (ε : Rat) (x : Nat → Rat) (nets : List Net) :
    ∀ sv, QModel m pl ε x sv (nets.map (Net.scale k)) = k * QModel m pl ε x sv nets := by
  induction nets with
  | nil => intro sv; simp [QModel]
  | cons n ns ih =>
    intro sv
    simp only [List.map_cons, QModel, netQ_scale, usesAux_scale, ih]
    ring

theorem penSum_scale (k : Rat) (pl : List Rat) (pen : Penalty) (x : Nat → Rat) (n : Nat) :
    penSum pl (pen.scale k) x n = k * penSum pl pen x n := by
  induction n with
  | zero => simp [penSum]
  | succ j ih =>
    simp only [penSum, ih]
    simp only [Penalty.scale, getD_scale, mul_div_assoc]
    ring

theorem penQ_scale (k : Rat) (pl : List Rat) (pen : Option Penalty) (nb : Nat) (x : Nat → Rat) :
    penQ pl (pen.map (Penalty.scale k)) nb x = k * penQ pl pen nb x := by
  cases pen with
  | none => simp [penQ]
  | some p => simp only [Option.map_some, penQ]; exact penSum_scale ..

end ColoVerif.NetAsm
