import ColoVerif.Model.NetsValue
/-
Helper lemmas for the value invariant of the net arrays (C10).  Core Lean only.
-/
namespace ColoVerif.NetsValue

theorem back_append_singleton (l : List Int) (x : Int) : back (l ++ [x]) = x := by
  simp [back]

theorem back_singleton (x : Int) : back [x] = x := by simp [back]

theorem head?_append_of_ne_nil {l : List Int} (h : l ≠ []) (x : Int) : (l ++ [x]).head? = l.head? := by
  cases l with
  | nil => exact absurd rfl h
  | cons a r => rfl

theorem sortedB_cons_cons (a b : Int) (r : List Int) : sortedB (a :: b :: r) = (decide (a ≤ b) && sortedB (b :: r)) := rfl

theorem back_cons_cons (a b : Int) (r : List Int) : back (a :: b :: r) = back (b :: r) := by
  simp [back, List.getLastD]

theorem sortedB_append_singleton : ∀ (l : List Int) (x : Int), l ≠ [] → sortedB l = true → back l ≤ x →
    sortedB (l ++ [x]) = true
  | [], _, h, _, _ => absurd rfl h
  | [a], x, _, _, hb => by
    simp [back] at hb
    simp [sortedB, hb]
  | a :: b :: r, x, _, hs, hb => by
    rw [sortedB_cons_cons] at hs
    rw [back_cons_cons] at hb
    have ih := sortedB_append_singleton (b :: r) x (by simp) (by simp_all) hb
    simp only [List.cons_append] at ih ⊢
    rw [sortedB_cons_cons]
    simp_all

theorem pinsInRange_append (n : Int) (a b : List Int) :
    pinsInRange n (a ++ b) = (pinsInRange n a && pinsInRange n b) := by
  simp [pinsInRange, List.all_append]

theorem pinsInRange_getD {n : Int} {l : List Int} (h : pinsInRange n l = true) {k : Nat} (hk : k < l.length) (d : Int) :
    0 ≤ l.getD k d ∧ l.getD k d < n := by
  have hm : l.getD k d ∈ l := by
    simp [List.getD, List.getElem?_eq_getElem hk]
  have := List.all_eq_true.mp h _ hm
  simpa using this

/-- adjacent elements of a sorted list -/
theorem sortedB_adjacent : ∀ (l : List Int) (i : Nat), sortedB l = true → i + 1 < l.length →
    l.getD i 0 ≤ l.getD (i + 1) 0
  | [], _, _, h => by simp at h
  | [_], _, _, h => by simp at h
  | a :: b :: r, 0, hs, _ => by
    rw [sortedB_cons_cons] at hs
    simp at hs
    simpa using hs.1
  | a :: b :: r, i + 1, hs, h => by
    rw [sortedB_cons_cons] at hs
    simp at hs
    have := sortedB_adjacent (b :: r) i hs.2 (by simpa using h)
    simpa using this

/-- a sorted list is non-decreasing along any two indices -/
theorem sortedB_mono (l : List Int) (hs : sortedB l = true) (i : Nat) : ∀ (d : Nat), i + d < l.length →
    l.getD i 0 ≤ l.getD (i + d) 0
  | 0, _ => by simp
  | d + 1, h => by
    have h1 := sortedB_mono l hs i d (by omega)
    have h2 := sortedB_adjacent l (i + d) hs (by omega)
    have : i + (d + 1) = i + d + 1 := by omega
    rw [this]
    omega

theorem back_eq_getD {l : List Int} (h : l ≠ []) : back l = l.getD (l.length - 1) 0 := by
  unfold back
  rw [List.getLastD_eq_getLast?, List.getLast?_eq_getElem?]
  simp [List.getD]

theorem head?_getD {l : List Int} {x : Int} (h : l.head? = some x) : l.getD 0 0 = x := by
  cases l with
  | nil => simp at h
  | cons a r => simpa using h

theorem wfB_iff (s : Nets) : wfB s = true ↔ Wf s := by
  constructor
  · intro h
    simp only [wfB, Bool.and_eq_true, Bool.not_eq_true', beq_iff_eq, List.isEmpty_eq_false_iff] at h
    obtain ⟨⟨⟨⟨⟨⟨⟨h1, h2⟩, h3⟩, h4⟩, h5⟩, h6⟩, h7⟩, h8⟩ := h
    exact ⟨h1, h2, h3, h4, h5, h6, h7, h8⟩
  · intro ⟨h1, h2, h3, h4, h5, h6, h7, h8⟩
    simp only [wfB, Bool.and_eq_true, Bool.not_eq_true', beq_iff_eq, List.isEmpty_eq_false_iff]
    exact ⟨⟨⟨⟨⟨⟨⟨h1, h2⟩, h3⟩, h4⟩, h5⟩, h6⟩, h7⟩, h8⟩

instance (s : Nets) : Decidable (Wf s) := decidable_of_iff _ (wfB_iff s)

theorem init_wf (n : Int) : Wf (init n) := by
  rw [← wfB_iff]; simp [wfB, init, sortedB, back, pinsInRange]

theorem addNet_wf {s s' : Nets} {cells : List Int} {nxo nyo : Nat} (h : Wf s) (hr : addNet s cells nxo nyo = some s') :
    Wf s' := by
  unfold addNet at hr
  split at hr
  · simp at hr
  rename_i hlen
  split at hr
  · simp at hr
  rename_i hrange
  split at hr
  · simp at hr; subst hr; exact h
  rename_i hne
  simp at hr; subst hr
  have hx : cells.length = nxo := by omega
  have hy : cells.length = nyo := by omega
  have hrange' : pinsInRange s.nbCells cells = true := by simpa using hrange
  refine ⟨by simp, ?_, ?_, ?_, ?_, ?_, ?_, ?_⟩
  · simpa [head?_append_of_ne_nil h.nonempty] using h.front
  · exact sortedB_append_singleton _ _ h.nonempty h.sorted (by omega)
  · simp only [back_append_singleton, List.length_append]; rw [h.backPins]; omega
  · simp only [pinsInRange_append, h.inRange, hrange', Bool.and_self]
  · simp only [List.length_append]; have := h.xLen; omega
  · simp only [List.length_append]; have := h.yLen; omega
  · simp only [List.length_append, List.length_singleton]; have := h.wLen; omega

theorem setNets_wf {s s' : Nets} {limits cells : List Int} {nxo nyo nwt : Nat}
    (hr : setNets s limits cells nxo nyo nwt = some s') : Wf s' := by
  unfold setNets at hr
  split at hr
  · simp at hr
  rename_i h1
  split at hr
  · simp at hr
  rename_i h2
  split at hr
  · simp at hr
  split at hr
  · simp at hr
  rename_i h4
  simp at hr; subst hr
  simp only [not_or, Decidable.not_not, List.isEmpty_iff, Bool.not_eq_false] at h1 h2
  obtain ⟨hne, hfront, hsorted⟩ := h1
  obtain ⟨hb1, hb2, hb3⟩ := h2
  have hlen : 0 < limits.length := List.length_pos_iff.mpr hne
  refine ⟨hne, hfront, hsorted, hb1, by simpa using h4, ?_, ?_, ?_⟩
  · show nxo = cells.length
    omega
  · show nyo = cells.length
    omega
  · show limits.length - 1 + 1 = limits.length
    omega

theorem setNetWeights_wf {s s' : Nets} {nwt : Nat} (h : Wf s) (hr : setNetWeights s nwt = some s') : Wf s' := by
  unfold setNetWeights at hr
  split at hr
  · simp at hr
  rename_i hn
  simp at hr; subst hr
  have hl := List.length_pos_iff.mpr h.nonempty
  exact ⟨h.nonempty, h.front, h.sorted, h.backPins, h.inRange, h.xLen, h.yLen, by show nwt + 1 = s.limits.length; omega⟩

theorem step_wf {s : Nets} (h : Wf s) (o : Op) : Wf (step s o) := by
  unfold step
  cases hr : apply? s o with
  | none => simpa using h
  | some s' =>
    simp only [Option.getD_some]
    cases o with
    | add c x y => exact addNet_wf h hr
    | set l c x y w => exact setNets_wf hr
    | weights w => exact setNetWeights_wf h hr

theorem run_wf {s : Nets} (h : Wf s) (ops : List Op) : Wf (run s ops) := by
  unfold run
  induction ops generalizing s with
  | nil => simpa
  | cons o r ih => exact ih (step_wf h o)

theorem step_nbCells (s : Nets) (o : Op) : (step s o).nbCells = s.nbCells := by
  unfold step
  cases hr : apply? s o with
  | none => rfl
  | some s' =>
    simp only [Option.getD_some]
    cases o with
    | add c x y =>
      simp only [apply?, addNet] at hr
      split at hr; · simp at hr
      split at hr; · simp at hr
      split at hr <;> (simp at hr; subst hr; rfl)
    | set l c x y w =>
      simp only [apply?, setNets] at hr
      split at hr; · simp at hr
      split at hr; · simp at hr
      split at hr; · simp at hr
      split at hr; · simp at hr
      simp at hr; subst hr; rfl
    | weights w =>
      simp only [apply?, setNetWeights] at hr
      split at hr; · simp at hr
      simp at hr; subst hr; rfl

theorem run_nbCells (s : Nets) (ops : List Op) : (run s ops).nbCells = s.nbCells := by
  unfold run
  induction ops generalizing s with
  | nil => rfl
  | cons o r ih => simp only [List.foldl_cons]; rw [ih, step_nbCells]

/-- In a well-formed state every index the inline getters compute is in range. -/
theorem getters_in_range {s : Nets} (h : Wf s) (net : Nat) (hn : (net : Int) < nbNets s) :
    0 ≤ nbPinsNet s net ∧
    ∀ i : Nat, (i : Int) < nbPinsNet s net →
      0 ≤ pinIndex s net i ∧ pinIndex s net i < s.pins.length ∧
      0 ≤ pinCell s net i ∧ pinCell s net i < s.nbCells := by
  have hlen : net + 1 < s.limits.length := by unfold nbNets at hn; omega
  have hadj := sortedB_adjacent s.limits net h.sorted hlen
  have h0 : s.limits.getD 0 0 = 0 := head?_getD h.front
  have hlow : 0 ≤ s.limits.getD net 0 := by
    have := sortedB_mono s.limits h.sorted 0 net (by omega)
    simp only [Nat.zero_add] at this
    omega
  have hup : s.limits.getD (net + 1) 0 ≤ s.pins.length := by
    have hb := back_eq_getD h.nonempty
    have := sortedB_mono s.limits h.sorted (net + 1) (s.limits.length - 1 - (net + 1)) (by omega)
    have e : net + 1 + (s.limits.length - 1 - (net + 1)) = s.limits.length - 1 := by omega
    rw [e, ← hb, h.backPins] at this
    exact this
  refine ⟨by unfold nbPinsNet; omega, ?_⟩
  intro i hi
  unfold nbPinsNet at hi
  have hi0 : 0 ≤ pinIndex s net i := by unfold pinIndex; omega
  have hi1 : pinIndex s net i < s.pins.length := by unfold pinIndex; omega
  refine ⟨hi0, hi1, ?_⟩
  unfold pinCell
  have hk : (pinIndex s net i).toNat < s.pins.length := by omega
  exact pinsInRange_getD h.inRange hk (-1)

theorem telescope (l : List Int) : ∀ k : Nat,
    ((List.range k).map (fun n => l.getD (n + 1) 0 - l.getD n 0)).sum = l.getD k 0 - l.getD 0 0
  | 0 => by simp
  | k + 1 => by
    rw [List.range_succ, List.map_append, List.sum_append, telescope l k]
    simp
    omega

theorem pins_partitioned {s : Nets} (h : Wf s) :
    ((List.range (nbNets s).toNat).map (nbPinsNet s)).sum = nbPins s := by
  have hl := List.length_pos_iff.mpr h.nonempty
  have h0 : s.limits.getD 0 0 = 0 := head?_getD h.front
  have hb := back_eq_getD h.nonempty
  have ht := telescope s.limits (s.limits.length - 1)
  have e : (nbNets s).toNat = s.limits.length - 1 := by unfold nbNets; omega
  have hf : nbPinsNet s = fun n => s.limits.getD (n + 1) 0 - s.limits.getD n 0 := by
    funext n; rfl
  rw [e, hf, ht, h0]
  unfold nbPins
  rw [hb]
  omega

end ColoVerif.NetsValue
