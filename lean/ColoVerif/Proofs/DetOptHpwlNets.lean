import ColoVerif.Model.DetIncr
import ColoVerif.Proofs.IncrNetRun
/-
C05 ← C09, part 1 (incremental-model side): the value of a good `IncrNetModel` is a function of its
net CSR (frozen when it is built) and of the current cell positions only; the position vector of the
full topology written as `posList n f`; what one `updateCellPos` does to it.
-/
namespace ColoVerif.DetPlace
open ColoVerif

/-- same net → pins CSR (the part of an `IncrNetModel` that `updateCellPos` never writes and that
determines the value together with `cellPos_`) -/
def NetsEq (m m' : IncrNet.Model) : Prop :=
  m.netLimits = m'.netLimits ∧ m.netCells = m'.netCells ∧ m.netPinOffsets = m'.netPinOffsets

theorem NetsEq.refl (m : IncrNet.Model) : NetsEq m m := ⟨rfl, rfl, rfl⟩
theorem NetsEq.symm {m m' : IncrNet.Model} (h : NetsEq m m') : NetsEq m' m := ⟨h.1.symm, h.2.1.symm, h.2.2.symm⟩
theorem NetsEq.trans {a b c : IncrNet.Model} (h : NetsEq a b) (h' : NetsEq b c) : NetsEq a c :=
  ⟨h.1.trans h'.1, h.2.1.trans h'.2.1, h.2.2.trans h'.2.2⟩

/-- the from-scratch 1-D wirelength of the nets of `m` at the positions `P` -/
def posValue (m : IncrNet.Model) (P : List Int) : Int := IncrNet.scratchValue { m with cellPos := P }

theorem posValue_self (m : IncrNet.Model) : posValue m m.cellPos = IncrNet.scratchValue m := rfl

theorem posValue_congr {m m' : IncrNet.Model} (h : NetsEq m m') (P : List Int) : posValue m P = posValue m' P := by
  obtain ⟨h1, h2, h3⟩ := h
  simp only [posValue, IncrNet.scratchValue, IncrNet.Model.nbNets, IncrNet.Model.netPinPositions, IncrNet.Model.netPins,
    IncrNet.Model.nbNetPins, IncrNet.Model.pinCell, IncrNet.Model.netPinOffset, h1, h2, h3]

/-- a good model's maintained value is `posValue` of its own positions -/
theorem good_posValue {m : IncrNet.Model} (h : IncrNet.Good m) : m.value = posValue m m.cellPos := by
  rw [posValue_self]; exact IncrNet.good_value m h

theorem update_good {m : IncrNet.Model} (h : IncrNet.Good m) (k : Nat) (v : Int) : IncrNet.Good (m.updateCellPos k v) :=
  IncrNet.run_good m [(k, v)] h

theorem update_netsEq (m : IncrNet.Model) (k : Nat) (v : Int) : NetsEq (m.updateCellPos k v) m := by
  obtain ⟨X, Y, h⟩ := IncrNet.update_frame m k v
  rw [h]; exact ⟨rfl, rfl, rfl⟩

theorem update_cellPos (m : IncrNet.Model) (k : Nat) (v : Int) : (m.updateCellPos k v).cellPos = m.cellPos.set k v := by
  obtain ⟨X, Y, h⟩ := IncrNet.update_frame m k v
  rw [h]

/-- two good models with the same net CSR, the same cell CSR and the same positions are equal: the
maintained bounds and value are determined by them (`IncrNetModel::check()`) -/
theorem good_ext {m m' : IncrNet.Model} (h : IncrNet.Good m) (h' : IncrNet.Good m') (hn : NetsEq m m')
    (hc : m.cellLimits = m'.cellLimits ∧ m.cellNets = m'.cellNets ∧ m.cellPinOffsets = m'.cellPinOffsets)
    (hp : m.cellPos = m'.cellPos) : m = m' := by
  have c1 := (IncrNet.inv_iff_consistent m).mp h.inv
  have c2 := (IncrNet.inv_iff_consistent m').mp h'.inv
  obtain ⟨h1, h2, h3⟩ := hn
  obtain ⟨h4, h5, h6⟩ := hc
  have e1 : m.netMinMaxPos = m'.netMinMaxPos := by
    rw [c1.1, c2.1]
    simp only [IncrNet.Model.computeAllMinMaxPos, IncrNet.Model.nbNets, h1]
    apply List.map_congr_left
    intro n _
    simp only [IncrNet.Model.computeNetMinMaxPos,
      IncrNet.Model.netPinPositions, IncrNet.Model.netPins, IncrNet.Model.nbNetPins, IncrNet.Model.pinCell,
      IncrNet.Model.netPinOffset, h1, h2, h3, hp]
  have e2 : m.value = m'.value := by
    rw [c1.2, c2.2]
    simp only [IncrNet.Model.computeValue, IncrNet.Model.nbNets, h1, e1]
  cases m; cases m'
  simp only [IncrNet.Model.mk.injEq]
  simp only at h1 h2 h3 h4 h5 h6 hp e1 e2
  exact ⟨hp, h1, h2, h3, h4, h5, h6, e1, e2⟩

/-- `updateCellPos` leaves the cell CSR alone -/
theorem update_cellCsr (m : IncrNet.Model) (k : Nat) (v : Int) :
    (m.updateCellPos k v).cellLimits = m.cellLimits ∧ (m.updateCellPos k v).cellNets = m.cellNets ∧
    (m.updateCellPos k v).cellPinOffsets = m.cellPinOffsets := by
  obtain ⟨X, Y, h⟩ := IncrNet.update_frame m k v
  rw [h]; exact ⟨rfl, rfl, rfl⟩

/-! ### the position vector of the full topology -/

/-- `cellPos_` of `x/yTopology(circuit)`: the `n` cells at `f`, then the extra fixed cell at 0 -/
def posList (n : Nat) (f : Int → Int) : List Int := (List.range n).map (fun (i : Nat) => f (i : Int)) ++ [0]

theorem posList_length (n : Nat) (f : Int → Int) : (posList n f).length = n + 1 := by simp [posList]

theorem posList_getElem? (n : Nat) (f : Int → Int) (i : Nat) :
    (posList n f)[i]? = if i < n then some (f i) else if i = n then some 0 else none := by
  unfold posList
  by_cases hi : i < n
  · rw [List.getElem?_append_left (by simpa using hi)]; simp [hi]
  · rw [List.getElem?_append_right (by simpa using hi)]
    by_cases hn : i = n
    · subst hn; simp
    · have : i - n ≠ 0 := by omega
      simp [hi, hn]; omega

theorem posList_congr (n : Nat) (f g : Int → Int) (h : ∀ i : Nat, i < n → f (i : Int) = g (i : Int)) :
    posList n f = posList n g := by
  unfold posList
  congr 1
  apply List.map_congr_left
  intro i hi
  exact h i (List.mem_range.mp hi)

/-- `cellPos_[k] = v` for a cell of the circuit -/
theorem posList_set (n : Nat) (f : Int → Int) (k v : Int) (h0 : 0 ≤ k) (hk : k < n) :
    (posList n f).set k.toNat v = posList n (upd f k v) := by
  apply List.ext_getElem?
  intro i
  rw [List.getElem?_set, posList_getElem?, posList_getElem?, posList_length]
  by_cases hik : k.toNat = i
  · have : (i : Int) = k := by omega
    have hin : i < n := by omega
    simp [hik, hin, upd, this]; omega
  · have : (i : Int) ≠ k := by omega
    simp [hik, upd, this]

end ColoVerif.DetPlace
