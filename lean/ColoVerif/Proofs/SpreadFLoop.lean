import ColoVerif.Proofs.SpreadF
import ColoVerif.Proofs.Spread
/-
C06 — the loop of the binary32 `spreadCellsF`: the running share never decreases (each addition of a
non-negative half share to a binary32 value rounds to at least that value), so every coordinate written
for a positive-demand cell is `coordAtF dem lo hi` for some `0 ≤ dem ≤ finalShareF`.
-/
namespace ColoVerif.SpreadF
open ColoVerif.F64 ColoVerif.Spread

theorem fl_idem (x : Rat) : fl (fl x) = fl x := f32'_idem x

/-- a coordinate of the form the loop writes, for a share in `[0, M]` -/
def Form (lo hi M v : Rat) : Prop := ∃ dem, 0 ≤ dem ∧ dem ≤ M ∧ v = coordAtF dem lo hi

theorem Form.mono {lo hi M M' v : Rat} (h : Form lo hi M v) (hM : M ≤ M') : Form lo hi M' v := by
  obtain ⟨d, a, b, c⟩ := h
  exact ⟨d, a, le_trans b hM, c⟩

/-- the state's share is a non-negative binary32 value -/
def ShareOk (st : Rat × List Rat) : Prop := 0 ≤ st.1 ∧ fl st.1 = st.1

theorem spreadLoopF_cons (demands : List Rat) (inv lo hi : Rat) (e : Rat × Nat) (l : List (Rat × Nat))
    (st : Rat × List Rat) :
    spreadLoopF demands inv lo hi (e :: l) st =
      spreadLoopF demands inv lo hi l (spreadStepF demands inv lo hi st e) := by
  simp [spreadLoopF]

theorem spreadStepF_length (demands : List Rat) (inv lo hi : Rat) (st : Rat × List Rat) (e : Rat × Nat) :
    (spreadStepF demands inv lo hi st e).2.length = st.2.length := by
  unfold spreadStepF; split <;> simp

/-- one iteration: the mid share and the new share are binary32 values above the old share -/
theorem spreadStepF_ok (demands : List Rat) (inv lo hi : Rat) (hinv : 0 ≤ inv)
    (st : Rat × List Rat) (e : Rat × Nat) (h : ShareOk st) :
    ShareOk (spreadStepF demands inv lo hi st e) ∧ st.1 ≤ (spreadStepF demands inv lo hi st e).1 ∧
    (¬ demands.getD e.2 0 ≤ 0 →
      0 ≤ fl (st.1 + halfShareF demands inv e.2) ∧
      fl (st.1 + halfShareF demands inv e.2) ≤ (spreadStepF demands inv lo hi st e).1) := by
  obtain ⟨h0, hf⟩ := h
  unfold spreadStepF
  split
  · rename_i hd
    exact ⟨⟨h0, hf⟩, le_refl _, fun hn => absurd hd hn⟩
  · rename_i hd
    have hh := halfShareF_nonneg demands inv hinv e.2 (le_of_lt (not_le.mp hd))
    have m1 : st.1 ≤ fl (st.1 + halfShareF demands inv e.2) := by
      have := fl_mono (show st.1 ≤ st.1 + halfShareF demands inv e.2 by linarith)
      rwa [hf] at this
    have m2 : fl (st.1 + halfShareF demands inv e.2) ≤
        fl (fl (st.1 + halfShareF demands inv e.2) + halfShareF demands inv e.2) := by
      have := fl_mono (show fl (st.1 + halfShareF demands inv e.2) ≤
        fl (st.1 + halfShareF demands inv e.2) + halfShareF demands inv e.2 by linarith)
      rwa [fl_idem] at this
    refine ⟨⟨by show 0 ≤ fl _; linarith, fl_idem _⟩, by show st.1 ≤ fl _; linarith, fun _ => ⟨by linarith, m2⟩⟩

theorem spreadLoopF_ok (demands : List Rat) (inv lo hi : Rat) (hinv : 0 ≤ inv) :
    ∀ (l : List (Rat × Nat)) (st : Rat × List Rat), ShareOk st →
      ShareOk (spreadLoopF demands inv lo hi l st) ∧ st.1 ≤ (spreadLoopF demands inv lo hi l st).1 ∧
      (spreadLoopF demands inv lo hi l st).2.length = st.2.length
  | [], st, h => ⟨h, le_refl _, rfl⟩
  | e :: l, st, h => by
    rw [spreadLoopF_cons]
    obtain ⟨a, b, _⟩ := spreadStepF_ok demands inv lo hi hinv st e h
    obtain ⟨c, d, f⟩ := spreadLoopF_ok demands inv lo hi hinv l _ a
    exact ⟨c, le_trans b d, by rw [f, spreadStepF_length]⟩

/-- a coordinate of the loop's form keeps that form (with the larger final share as bound) -/
theorem spreadLoopF_pres (demands : List Rat) (inv lo hi : Rat) (hinv : 0 ≤ inv) (j : Nat) :
    ∀ (l : List (Rat × Nat)) (st : Rat × List Rat), ShareOk st → Form lo hi st.1 (st.2.getD j 0) →
      Form lo hi (spreadLoopF demands inv lo hi l st).1 ((spreadLoopF demands inv lo hi l st).2.getD j 0)
  | [], _, _, hF => hF
  | e :: l, st, h, hF => by
    rw [spreadLoopF_cons]
    obtain ⟨a, b, m⟩ := spreadStepF_ok demands inv lo hi hinv st e h
    refine spreadLoopF_pres demands inv lo hi hinv j l _ a ?_
    by_cases hd : demands.getD e.2 0 ≤ 0
    · have hst : spreadStepF demands inv lo hi st e = st := by unfold spreadStepF; rw [if_pos hd]
      rw [hst]; exact hF
    · obtain ⟨m0, m1⟩ := m hd
      have hst : (spreadStepF demands inv lo hi st e).2 =
          st.2.set e.2 (coordAtF (fl (st.1 + halfShareF demands inv e.2)) lo hi) := by
        unfold spreadStepF; rw [if_neg hd]
      rw [hst]
      by_cases hj : e.2 = j
      · subst hj
        by_cases hlen : e.2 < st.2.length
        · rw [getD_set_self _ _ _ hlen]; exact ⟨_, m0, m1, rfl⟩
        · rw [List.set_eq_of_length_le (not_lt.mp hlen)]; exact hF.mono b
      · rw [getD_set_ne _ _ _ _ hj]; exact hF.mono b

/-- every positive-demand cell of the order list (index in range) ends with a coordinate of the loop's form -/
theorem spreadLoopF_written (demands : List Rat) (inv lo hi : Rat) (hinv : 0 ≤ inv) :
    ∀ (l : List (Rat × Nat)) (st : Rat × List Rat), ShareOk st →
      ∀ e ∈ l, 0 < demands.getD e.2 0 → e.2 < st.2.length →
        Form lo hi (spreadLoopF demands inv lo hi l st).1 ((spreadLoopF demands inv lo hi l st).2.getD e.2 0)
  | [], _, _, e, he, _, _ => by simp at he
  | e0 :: l, st, h, e, he, hpos, hlen => by
    rw [spreadLoopF_cons]
    obtain ⟨a, b, m⟩ := spreadStepF_ok demands inv lo hi hinv st e0 h
    rcases List.mem_cons.mp he with rfl | hmem
    · have hd : ¬ demands.getD e.2 0 ≤ 0 := not_le.mpr hpos
      obtain ⟨m0, m1⟩ := m hd
      refine spreadLoopF_pres demands inv lo hi hinv e.2 l _ a ?_
      have hst : (spreadStepF demands inv lo hi st e).2 =
          st.2.set e.2 (coordAtF (fl (st.1 + halfShareF demands inv e.2)) lo hi) := by
        unfold spreadStepF; rw [if_neg hd]
      rw [hst, getD_set_self _ _ _ hlen]
      exact ⟨_, m0, m1, rfl⟩
    · exact spreadLoopF_written demands inv lo hi hinv l _ a e hmem hpos (by rw [spreadStepF_length]; exact hlen)

/-- `spreadCellsF`: the coordinate of a positive-demand cell is `coordAtF dem lo hi` for a share
`0 ≤ dem ≤ finalShareF` -/
theorem spreadCellsF_form (targets demands : List Rat) (lo hi : Rat) (hnn : ∀ d ∈ demands, 0 ≤ d)
    (i : Nat) (hi' : i < targets.length) (hpos : 0 < demands.getD i 0) :
    Form lo hi (finalShareF targets demands lo hi) ((spreadCellsF targets demands lo hi).getD i 0) := by
  have hmem : (targets.getD i 0, i) ∈ sortedOrder targets := by
    have hperm : (sortedOrder targets).Perm (indexed targets 0) := List.mergeSort_perm _ _
    have := indexed_mem targets 0 i hi'
    rw [Nat.zero_add] at this
    exact hperm.mem_iff.mpr this
  have := spreadLoopF_written demands (invF demands) lo hi (invF_nonneg demands hnn) (sortedOrder targets)
    (0, List.replicate targets.length 0) ⟨le_refl _, fl_zero⟩ _ hmem hpos (by simpa using hi')
  exact this

theorem finalShareF_nonneg (targets demands : List Rat) (lo hi : Rat) (hnn : ∀ d ∈ demands, 0 ≤ d) :
    0 ≤ finalShareF targets demands lo hi :=
  (spreadLoopF_ok demands (invF demands) lo hi (invF_nonneg demands hnn) (sortedOrder targets)
    (0, List.replicate targets.length 0) ⟨le_refl _, fl_zero⟩).1.1

end ColoVerif.SpreadF
