import ColoVerif.Proofs.SpreadF
import ColoVerif.Proofs.Spread
/-
C06 — the loop of the binary32 `spreadCellsF`: every positive-demand cell of the order list is written, and
what is written is a clamped coordinate, hence in the closed bin.  No hypothesis on the demands or on the
running share.
-/
namespace ColoVerif.SpreadF
open ColoVerif.Spread

theorem spreadLoopF_cons (demands : List Rat) (inv lo hi : Rat) (e : Rat × Nat) (l : List (Rat × Nat))
    (st : Rat × List Rat) :
    spreadLoopF demands inv lo hi (e :: l) st =
      spreadLoopF demands inv lo hi l (spreadStepF demands inv lo hi st e) := by
  simp [spreadLoopF]

theorem spreadStepF_length (demands : List Rat) (inv lo hi : Rat) (st : Rat × List Rat) (e : Rat × Nat) :
    (spreadStepF demands inv lo hi st e).2.length = st.2.length := by
  unfold spreadStepF; split <;> simp

theorem spreadLoopF_length (demands : List Rat) (inv lo hi : Rat) :
    ∀ (l : List (Rat × Nat)) (st : Rat × List Rat), (spreadLoopF demands inv lo hi l st).2.length = st.2.length
  | [], _ => rfl
  | e :: l, st => by
    rw [spreadLoopF_cons, spreadLoopF_length demands inv lo hi l, spreadStepF_length]

theorem spreadCellsF_length (targets demands : List Rat) (lo hi : Rat) :
    (spreadCellsF targets demands lo hi).length = targets.length := by
  simp [spreadCellsF, spreadLoopF_length]

/-- a coordinate in the closed bin stays in the closed bin through the rest of the loop -/
theorem spreadLoopF_pres (demands : List Rat) (inv lo hi : Rat) (hlh : lo ≤ hi) (j : Nat) :
    ∀ (l : List (Rat × Nat)) (st : Rat × List Rat), (lo ≤ st.2.getD j 0 ∧ st.2.getD j 0 ≤ hi) →
      lo ≤ (spreadLoopF demands inv lo hi l st).2.getD j 0 ∧ (spreadLoopF demands inv lo hi l st).2.getD j 0 ≤ hi
  | [], _, hF => hF
  | e :: l, st, hF => by
    rw [spreadLoopF_cons]
    refine spreadLoopF_pres demands inv lo hi hlh j l _ ?_
    by_cases hd : demands.getD e.2 0 ≤ 0
    · have hst : spreadStepF demands inv lo hi st e = st := by unfold spreadStepF; rw [if_pos hd]
      rw [hst]; exact hF
    · have hst : (spreadStepF demands inv lo hi st e).2 =
          st.2.set e.2 (coordAtF (fl (st.1 + halfShareF demands inv e.2)) lo hi) := by
        unfold spreadStepF; rw [if_neg hd]
      rw [hst]
      by_cases hj : e.2 = j
      · subst hj
        by_cases hlen : e.2 < st.2.length
        · rw [getD_set_self _ _ _ hlen]; exact coordAtF_bounds _ lo hi hlh
        · rw [List.set_eq_of_length_le (not_lt.mp hlen)]; exact hF
      · rw [getD_set_ne _ _ _ _ hj]; exact hF

/-- every positive-demand cell of the order list (index in range) ends in the closed bin -/
theorem spreadLoopF_written (demands : List Rat) (inv lo hi : Rat) (hlh : lo ≤ hi) :
    ∀ (l : List (Rat × Nat)) (st : Rat × List Rat),
      ∀ e ∈ l, 0 < demands.getD e.2 0 → e.2 < st.2.length →
        lo ≤ (spreadLoopF demands inv lo hi l st).2.getD e.2 0 ∧
        (spreadLoopF demands inv lo hi l st).2.getD e.2 0 ≤ hi
  | [], _, e, he, _, _ => by simp at he
  | e0 :: l, st, e, he, hpos, hlen => by
    rw [spreadLoopF_cons]
    rcases List.mem_cons.mp he with rfl | hmem
    · have hd : ¬ demands.getD e.2 0 ≤ 0 := not_le.mpr hpos
      refine spreadLoopF_pres demands inv lo hi hlh e.2 l _ ?_
      have hst : (spreadStepF demands inv lo hi st e).2 =
          st.2.set e.2 (coordAtF (fl (st.1 + halfShareF demands inv e.2)) lo hi) := by
        unfold spreadStepF; rw [if_neg hd]
      rw [hst, getD_set_self _ _ _ hlen]
      exact coordAtF_bounds _ lo hi hlh
    · exact spreadLoopF_written demands inv lo hi hlh l _ e hmem hpos (by rw [spreadStepF_length]; exact hlen)

/-- `spreadCellsF`: the coordinate of a positive-demand cell is in the closed bin -/
theorem spreadCellsF_inside (targets demands : List Rat) (lo hi : Rat) (hlh : lo ≤ hi)
    (i : Nat) (hi' : i < targets.length) (hpos : 0 < demands.getD i 0) :
    lo ≤ (spreadCellsF targets demands lo hi).getD i 0 ∧ (spreadCellsF targets demands lo hi).getD i 0 ≤ hi := by
  have hmem : (targets.getD i 0, i) ∈ sortedOrder targets := by
    have hperm : (sortedOrder targets).Perm (indexed targets 0) := List.mergeSort_perm _ _
    have := indexed_mem targets 0 i hi'
    rw [Nat.zero_add] at this
    exact hperm.mem_iff.mpr this
  exact spreadLoopF_written demands (invF demands) lo hi hlh (sortedOrder targets)
    (0, List.replicate targets.length 0) _ hmem hpos (by simpa using hi')

end ColoVerif.SpreadF
