/-
C13: `solve` returns a plan (no failed assertion, no undefined behaviour, no loop out of fuel) whenever
the problem is well-formed, demand fits in capacity and `3·|cost| < INT_MAX`; the final state carries dual
potentials, hence the plan has minimum cost (weak duality).
-/
import ColoVerif.Proofs.TranspSsp2Main

namespace ColoVerif.Transp

/-! ### the loops over one source and over all sources -/

lemma sendSourceLoop_total (p : Problem) (hcb : CostBound p) (hcap : ∀ i, i < p.nbSinks → 0 < p.capacity i)
    (src : Nat) (hsrc : src < p.nbSources) :
    ∀ (fuel : Nat) (s : St) (rem : Int) (sent : Nat → Int),
      Good p s sent → 0 ≤ rem → rem ≤ fuel → rem ≤ sumTo p.nbSinks (fun i => s.remCapa.getD i 0) →
      ∃ s', sendSourceLoop p src fuel s rem = .ok s' ∧
        Good p s' (fun j => sent j + (if j = src then rem else 0)) ∧
        sumTo p.nbSinks (fun i => s'.remCapa.getD i 0) = sumTo p.nbSinks (fun i => s.remCapa.getD i 0) - rem := by
  intro fuel
  induction fuel with
  | zero =>
    intro s rem sent hg h0 hf _
    have : rem = 0 := by omega
    subst this
    refine ⟨s, by simp [sendSourceLoop], ?_, by omega⟩
    have e : (fun j => sent j + (if j = src then (0 : Int) else 0)) = sent := by funext j; simp
    rw [e]; exact hg
  | succ fuel ih =>
    intro s rem sent hg h0 hf hb
    unfold sendSourceLoop
    by_cases hpos : rem > 0
    · rw [if_pos hpos]
      have hfree : ∃ f, f < p.nbSinks ∧ s.remCapa.getD f 0 > 0 := by
        obtain ⟨f, hf, hp⟩ := sumTo_pos_exists p.nbSinks (fun i => s.remCapa.getD i 0) (by omega)
        exact ⟨f, hf, hp⟩
      obtain ⟨s1, m, hok, hg1, hm0, hmq, hbud⟩ := sendSource3_total p hcb hcap s sent src rem hg hsrc hpos hfree
      rw [hok]
      simp only []
      have hm' : m > 0 := hm0
      rw [if_pos hm']
      obtain ⟨s', hok', hg', hbud'⟩ := ih s1 (rem - m) _ hg1 (by omega) (by push_cast at hf ⊢; omega) (by omega)
      refine ⟨s', hok', ?_, by omega⟩
      have e : (fun j => sent j + (if j = src then m else 0) + (if j = src then rem - m else 0))
          = (fun j => sent j + (if j = src then rem else 0)) := by
        funext j; split <;> omega
      rw [← e]; exact hg'
    · rw [if_neg hpos]
      have : rem = 0 := by omega
      subst this
      refine ⟨s, rfl, ?_, by omega⟩
      have e : (fun j => sent j + (if j = src then (0 : Int) else 0)) = sent := by funext j; simp
      rw [e]; exact hg

lemma runSources_total (p : Problem) (hcb : CostBound p) (hcap : ∀ i, i < p.nbSinks → 0 < p.capacity i)
    (hdem : ∀ j, 0 ≤ p.demand j) :
    ∀ (L : List Nat) (s : St) (sent : Nat → Int),
      Good p s sent → (∀ j, j ∈ L → j < p.nbSources) →
      (L.map p.demand).sum ≤ sumTo p.nbSinks (fun i => s.remCapa.getD i 0) →
      ∃ s', runSources p L s = .ok s' ∧ Good p s' (fun j => sent j + (L.count j : Int) * p.demand j) := by
  intro L
  induction L with
  | nil =>
    intro s sent hg _ _
    refine ⟨s, rfl, ?_⟩
    have e : (fun j => sent j + (([] : List Nat).count j : Int) * p.demand j) = sent := by funext j; simp
    rw [e]; exact hg
  | cons a L ih =>
    intro s sent hg hL hb
    simp only [List.map_cons, List.sum_cons] at hb
    have hLnn : 0 ≤ (L.map p.demand).sum := by
      clear hb ih hL
      induction L with
      | nil => simp
      | cons b L ih => simp only [List.map_cons, List.sum_cons]; have := hdem b; omega
    obtain ⟨s1, hok1, hg1, hbud1⟩ := sendSourceLoop_total p hcb hcap a (hL a (by simp)) (p.demand a).toNat s
      (p.demand a) sent hg (hdem a) (by rw [Int.toNat_of_nonneg (hdem a)]) (by omega)
    obtain ⟨s', hok', hg'⟩ := ih s1 _ hg1 (fun j hj => hL j (by simp [hj])) (by omega)
    refine ⟨s', ?_, ?_⟩
    · unfold runSources sendSource
      rw [hok1]
      exact hok'
    · have e : (fun j => sent j + (if j = a then p.demand a else 0) + (L.count j : Int) * p.demand j)
          = (fun j => sent j + ((a :: L).count j : Int) * p.demand j) := by
        funext j
        rw [List.count_cons]
        by_cases e : j = a
        · subst e; simp; ring
        · have e' : ¬ a = j := fun hh => e hh.symm
          simp [e, e']
      rw [← e]; exact hg'

/-! ### the initial state -/

lemma zeroAlloc_row (p : Problem) (i : Nat) (hi : i < p.nbSinks) : (p.zeroAlloc.getD i []).length = p.nbSources := by
  unfold Problem.zeroAlloc
  simp [List.getD_eq_getElem?_getD, hi]

lemma initSt_good (p : Problem) (hcap : ∀ i, i < p.nbSinks → 0 < p.capacity i) (hc0 : ∀ i, 0 ≤ p.capacity i) :
    Good p (initSt p) (fun _ => 0) := by
  have hinv := initSt_inv p hc0
  have hz : ∀ i j, ¬ 0 < get2 (initSt p).alloc i j := by
    intro i j; simp [initSt, get2_zeroAlloc]
  have hpot : Pot p (initSt p).alloc (initSt p).remCapa (fun _ => 0) :=
    ⟨fun _ _ => le_refl _, fun _ _ _ => rfl, fun i j k _ _ _ hpos => absurd hpos (hz i j)⟩
  have hrep0 : ∀ i, (List.replicate p.nbSinks (0 : Int)).getD i 0 = 0 := by
    intro i
    simp only [List.getD_eq_getElem?_getD, List.getElem?_replicate]
    split <;> simp
  have hrepN : ∀ i, (List.replicate p.nbSinks (none : Option Nat)).getD i none = none := by
    intro i
    simp only [List.getD_eq_getElem?_getD, List.getElem?_replicate]
    split <;> simp
  refine ⟨⟨⟨fun i hi => zeroAlloc_row p i hi, by simp [initSt], rfl⟩,
      fun i j => by simp [initSt, get2_zeroAlloc], fun i hi hf => ?_, hinv.rem, hinv.row⟩,
    hinv.col, ⟨_, hpot⟩, fun _ => ⟨⟨fun i _ => ?_, fun i _ _ => ?_, fun i j k _ _ _ hpos => absurd hpos (hz i j)⟩,
      fun i _ => ?_, fun i hi _ => hcap i hi, fun i k _ hpar => ?_, fun i hi => ⟨0, by omega, ?_⟩⟩⟩
  · have := hcap i hi
    have e : (initSt p).remCapa.getD i 0 = p.capacity i := rfl
    omega
  · show 0 ≤ (List.replicate p.nbSinks (0 : Int)).getD i 0
    rw [hrep0]
  · show (List.replicate p.nbSinks (0 : Int)).getD i 0 = 0
    rw [hrep0]
  · show (List.replicate p.nbSinks (0 : Int)).getD i 0 ≤ Wmax
    rw [hrep0]; exact Wmax_nn
  · have : (List.replicate p.nbSinks (none : Option Nat)).getD i none = some k := hpar
    rw [hrepN] at this; exact absurd this (by simp)
  · show (List.replicate p.nbSinks (none : Option Nat)).getD i none = none
    rw [hrepN]

/-! ### sums -/

lemma sumTo_shift (n : Nat) (f : Nat → Int) : sumTo (n + 1) f = f 0 + sumTo n (fun i => f (i + 1)) := by
  induction n with
  | zero => simp
  | succ n ih => rw [sumTo_succ, ih, sumTo_succ]; ring

lemma sumTo_list (l : List Int) : sumTo l.length (fun i => l.getD i 0) = l.sum := by
  induction l with
  | nil => rfl
  | cons a l ih =>
    rw [List.length_cons, sumTo_shift]
    simp only [List.getD_cons_zero, List.getD_cons_succ, List.sum_cons, ih]

lemma sum_map_range (n : Nat) (f : Nat → Int) : ((List.range n).map f).sum = sumTo n f := by
  induction n with
  | zero => rfl
  | succ n ih => rw [List.range_succ, List.map_append, List.sum_append, ih]; simp

lemma perm_sum_map (f : Nat → Int) {l1 l2 : List Nat} (h : l1.Perm l2) : (l1.map f).sum = (l2.map f).sum := by
  induction h with
  | nil => rfl
  | cons x _ ih => simp [ih]
  | swap x y l => simp only [List.map_cons, List.sum_cons]; omega
  | trans _ _ ih1 ih2 => rw [ih1, ih2]

/-! ### well-formedness (`check()`) -/

lemma all_pos_getD (l : List Int) (h : l.all (fun d => decide (0 < d)) = true) (i : Nat) (hi : i < l.length) :
    0 < l.getD i 0 := by
  rw [List.all_eq_true] at h
  have := h (l[i]) (List.getElem_mem hi)
  simp only [decide_eq_true_eq] at this
  simpa [List.getD_eq_getElem?_getD, hi] using this

lemma check_facts (p : Problem) (h : p.check = true) :
    (∀ i, i < p.nbSinks → 0 < p.capacity i) ∧ (∀ j, j < p.nbSources → 0 < p.demand j) := by
  unfold Problem.check at h
  simp only [Bool.and_eq_true] at h
  obtain ⟨⟨⟨⟨⟨h1, h2⟩, _⟩, _⟩, _⟩, _⟩ := h
  exact ⟨fun i hi => all_pos_getD _ h2 i hi, fun j hj => all_pos_getD _ h1 j hj⟩

lemma getD_nonneg_of_pos (l : List Int) (h : ∀ i, i < l.length → 0 < l.getD i 0) (i : Nat) : 0 ≤ l.getD i 0 := by
  by_cases hi : i < l.length
  · exact le_of_lt (h i hi)
  · simp [List.getD_eq_getElem?_getD, Nat.not_lt.mp hi]

/-- **`solve` does not fail** and ends in a good state -/
lemma run_total (p : Problem) (hc : p.check = true) (hb : p.totalDemand ≤ p.totalCapacity) (hcb : CostBound p) :
    ∃ s, run p = .ok s ∧
      Good p s (fun j => if j < p.nbSources then p.demand j else 0) := by
  obtain ⟨hcap, hdem⟩ := check_facts p hc
  have hc0 : ∀ i, 0 ≤ p.capacity i := getD_nonneg_of_pos _ hcap
  have hd0 : ∀ j, 0 ≤ p.demand j := getD_nonneg_of_pos _ hdem
  have hperm : (sortedSourcesByDemand p).Perm (List.range p.nbSources) := List.mergeSort_perm _ _
  have hbud : ((sortedSourcesByDemand p).map p.demand).sum
      ≤ sumTo p.nbSinks (fun i => (initSt p).remCapa.getD i 0) := by
    rw [perm_sum_map p.demand hperm, sum_map_range]
    have e1 : sumTo p.nbSources p.demand = p.totalDemand := sumTo_list p.demands
    have e2 : sumTo p.nbSinks (fun i => (initSt p).remCapa.getD i 0) = p.totalCapacity := sumTo_list p.capacities
    rw [e1, e2]; exact hb
  obtain ⟨s, hok, hg⟩ := runSources_total p hcb hcap hd0 (sortedSourcesByDemand p) (initSt p) (fun _ => 0)
    (initSt_good p hcap hc0) (fun j hj => by simpa using (hperm.mem_iff.mp hj)) hbud
  refine ⟨s, hok, ?_⟩
  have e : (fun j => (0 : Int) + ((sortedSourcesByDemand p).count j : Int) * p.demand j)
      = (fun j => if j < p.nbSources then p.demand j else 0) := by
    funext j
    rw [count_sorted]
    split <;> simp
  rw [← e]; exact hg

/-! ### optimality from the potentials -/

/-- minimum of `f 0, …, f (n-1)` (0 for `n = 0`) -/
def minTo : Nat → (Nat → Int) → Int
  | 0, _ => 0
  | n + 1, f => if n = 0 then f 0 else min (minTo n f) (f n)

lemma minTo_le (f : Nat → Int) : ∀ n i, i < n → minTo n f ≤ f i := by
  intro n
  induction n with
  | zero => intro i hi; omega
  | succ n ih =>
    intro i hi
    unfold minTo
    split
    · rename_i h0; subst h0
      have : i = 0 := by omega
      rw [this]
    · rcases Nat.lt_succ_iff_lt_or_eq.mp hi with h | h
      · exact le_trans (min_le_left _ _) (ih i h)
      · rw [h]; exact min_le_right _ _

lemma minTo_attained (f : Nat → Int) : ∀ n, 0 < n → ∃ i, i < n ∧ minTo n f = f i := by
  intro n
  induction n with
  | zero => intro h; omega
  | succ n ih =>
    intro _
    unfold minTo
    split
    · exact ⟨0, by omega, rfl⟩
    · rename_i h0
      obtain ⟨i, hi, e⟩ := ih (by omega)
      by_cases hle : minTo n f ≤ f n
      · exact ⟨i, by omega, by rw [min_eq_left hle, e]⟩
      · exact ⟨n, by omega, by rw [min_eq_right (by omega)]⟩

lemma getD_map_range (n : Nat) (f : Nat → Int) (i : Nat) (hi : i < n) : ((List.range n).map f).getD i 0 = f i := by
  simp [List.getD_eq_getElem?_getD, hi]

/-- a feasible plan that admits dual potentials has a certificate accepted by `checkCert` -/
lemma pot_cert (p : Problem) (x : Mat) (rem : List Int) (d : Nat → Int) (hx : Feasible p x)
    (hp : Pot p x rem d) (hrow : ∀ i, rowSum x p.nbSources i + rem.getD i 0 = p.capacity i)
    (hrnn : ∀ i, 0 ≤ rem.getD i 0) :
    ∃ u v, checkCert p x u v = true := by
  have hu : ∀ j, j < p.nbSources →
      ((List.range p.nbSources).map (fun j => minTo p.nbSinks (fun k => p.cost k j + d k))).getD j 0
        = minTo p.nbSinks (fun k => p.cost k j + d k) := fun j hj => getD_map_range _ _ j hj
  have hv : ∀ i, i < p.nbSinks → ((List.range p.nbSinks).map d).getD i 0 = d i :=
    fun i hi => getD_map_range _ _ i hi
  have hd : dualOk p ((List.range p.nbSources).map (fun j => minTo p.nbSinks (fun k => p.cost k j + d k)))
      ((List.range p.nbSinks).map d) = true := by
    simp only [dualOk, Bool.and_eq_true, allTo_iff, decide_eq_true_eq]
    refine ⟨fun i hi => by rw [hv i hi]; exact hp.nn i hi, fun i hi j hj => ?_⟩
    rw [hu j hj, hv i hi]
    have := minTo_le (fun k => p.cost k j + d k) p.nbSinks i hi
    omega
  have hs : slackOk p x ((List.range p.nbSources).map (fun j => minTo p.nbSinks (fun k => p.cost k j + d k)))
      ((List.range p.nbSinks).map d) = true := by
    simp only [slackOk, Bool.and_eq_true, allTo_iff, decide_eq_true_eq]
    refine ⟨fun i hi j hj => ?_, fun i hi => ?_⟩
    · by_cases h0 : get2 x i j = 0
      · left; exact h0
      · right
        rw [hu j hj, hv i hi]
        have hpos : 0 < get2 x i j := by have := hx.nonneg i j hi hj; omega
        obtain ⟨k, hk, e⟩ := minTo_attained (fun k => p.cost k j + d k) p.nbSinks (by omega)
        have h1 := hp.red i j k hi hj hk hpos
        have h2 := minTo_le (fun k => p.cost k j + d k) p.nbSinks i hi
        omega
    · rw [hv i hi]
      by_cases hf : rem.getD i 0 > 0
      · left; exact hp.free i hi hf
      · right
        have := hrow i; have := hrnn i; omega
  refine ⟨(List.range p.nbSources).map (fun j => minTo p.nbSinks (fun k => p.cost k j + d k)),
    (List.range p.nbSinks).map d, ?_⟩
  simp only [checkCert, Bool.and_eq_true]
  exact ⟨⟨(primalOk_iff p x).mpr hx, hd⟩, hs⟩

lemma costBoundOk_iff (p : Problem) : costBoundOk p = true ↔ CostBound p := by
  simp only [costBoundOk, allTo_iff, Bool.and_eq_true, decide_eq_true_eq]
  constructor
  · intro h i j hi hj; exact h i hi j hj
  · intro h i hi j hj; exact h i j hi hj

/-- **the main result about `solve`**: it returns a plan, the plan is feasible, and the potentials left
in the final state are a certificate that `checkCert` accepts (hence minimum cost, by `cert_optimal`) -/
lemma solve_total (p : Problem) (hc : p.check = true) (hb : p.totalDemand ≤ p.totalCapacity) (hcb : CostBound p) :
    ∃ q, solve p = .ok q ∧ q.capacities = p.capacities ∧ q.demands = p.demands ∧ q.costs = p.costs ∧
      Feasible p q.allocations ∧ ∃ u v, checkCert p q.allocations u v = true := by
  obtain ⟨s, hok, hg⟩ := run_total p hc hb hcb
  obtain ⟨d, hpot⟩ := hg.pot
  have hfeas : Feasible p s.alloc := by
    refine ⟨fun i j _ _ => hg.mid.nn i j, fun j hj => ?_, fun i _ => ?_⟩
    · rw [hg.col j, if_pos hj]
    · have := hg.mid.row i; have := hg.mid.rnn i; omega
  refine ⟨{ p with allocations := s.alloc }, by unfold solve; rw [hok], rfl, rfl, rfl, hfeas, ?_⟩
  exact pot_cert p s.alloc s.remCapa d hfeas hpot hg.mid.row hg.mid.rnn

end ColoVerif.Transp
