import ColoVerif.Model.NetAsm
import Mathlib.Tactic.Ring
import Mathlib.Tactic.Linarith
/-
C17 helper lemmas: the assembled system of the initial star model (and of two-pin nets in the
re-weighted star models) is the normal-equation system of the documented quadratic
(`IsHalfGradient`), and its matrix is positive semidefinite for non-negative weights.
-/
namespace ColoVerif.NetAsm

/-! ### lists -/

theorem addAt_length (l : List Rat) (i : Nat) (v : Rat) : (addAt l i v).length = l.length := by
  induction l generalizing i with
  | nil => rfl
  | cons x xs ih => cases i <;> simp [addAt, ih]

theorem linFrom_addAt (k : Nat) (l : List Rat) (i : Nat) (v : Rat) (t : Nat → Rat) (h : i < l.length) :
    linFrom k (addAt l i v) t = linFrom k l t + v * t (k + i) := by
  induction l generalizing i k with
  | nil => simp at h
  | cons x xs ih =>
    cases i with
    | zero => simp [addAt, linFrom]; ring
    | succ j =>
      have hj : j < xs.length := by simpa using h
      simp only [addAt, linFrom, ih (k + 1) j hj]
      have : k + 1 + j = k + (j + 1) := by omega
      rw [this]; ring

theorem lin_addAt (l : List Rat) (i : Nat) (v : Rat) (t : Nat → Rat) (h : i < l.length) :
    lin (addAt l i v) t = lin l t + v * t i := by
  unfold lin; rw [linFrom_addAt 0 l i v t h]; simp

theorem linFrom_append_zero (k : Nat) (l : List Rat) (t : Nat → Rat) :
    linFrom k (l ++ [0]) t = linFrom k l t := by
  induction l generalizing k with
  | nil => simp [linFrom]
  | cons x xs ih => simp [linFrom, ih]

theorem linFrom_replicate_zero (k n : Nat) (t : Nat → Rat) : linFrom k (List.replicate n 0) t = 0 := by
  induction n generalizing k with
  | zero => simp [linFrom]
  | succ m ih => simp [List.replicate_succ, linFrom, ih]

/-! ### one contribution -/

/-- The invariant carried through the assembly: the system is the normal-equation system of `Q`,
`rhs_` has one entry per unknown, and `⟨A t, t⟩ ≥ 0`. -/
structure Inv (s : Sys) (Q : (Nat → Rat) → Rat) : Prop where
  grad : IsHalfGradient s Q
  len : s.rhs.length = s.matSize
  psd : ∀ t, 0 ≤ bilin s.mat t t
  rows : ∀ e ∈ s.mat, e.1 < s.matSize

theorem sq_nonneg' (a : Rat) : 0 ≤ sq a := by unfold sq; exact mul_self_nonneg a

theorem addFixedPin_inv (s : Sys) (Q : (Nat → Rat) → Rat) (c : Nat) (o pos w : Rat)
    (hc : c < s.matSize) (hw : 0 ≤ w) (h : Inv s Q) :
    Inv (addFixedPin s c o pos w) (fun x => Q x + w * sq (x c + o - pos)) := by
  have hc' : c < s.rhs.length := by rw [h.len]; exact hc
  refine ⟨?_, ?_, ?_, ?_⟩
  · intro x t
    have := h.grad x t
    simp only [addFixedPin, bilin, lin_addAt _ _ _ _ hc', this, sq]
    ring
  · simp [addFixedPin, addAt_length, Sys.matSize, h.len]
  · intro t
    have := h.psd t
    simp only [addFixedPin, bilin]
    have h2 : 0 ≤ w * (t c * t c) := mul_nonneg hw (mul_self_nonneg _)
    linarith
  · intro e he
    have he' : e = (c, c, w) ∨ e ∈ s.mat := by simpa [addFixedPin] using he
    rcases he' with rfl | he'
    · exact hc
    · exact h.rows e he'

theorem addMovingPin_inv (s : Sys) (Q : (Nat → Rat) → Rat) (c1 c2 : Nat) (o1 o2 w : Rat)
    (h1 : c1 < s.matSize) (h2 : c2 < s.matSize) (hw : 0 ≤ w) (h : Inv s Q) :
    Inv (addMovingPin s c1 c2 o1 o2 w) (fun x => Q x + w * sq ((x c1 + o1) - (x c2 + o2))) := by
  unfold addMovingPin
  by_cases hne : c1 = c2
  · subst hne
    simp only [if_true]
    refine ⟨?_, h.len, h.psd, h.rows⟩
    intro x t
    have := h.grad x t
    simp only [this, sq]; ring
  · simp only [hne, if_false]
    have h1' : c1 < s.rhs.length := by rw [h.len]; exact h1
    have h2' : c2 < (addAt s.rhs c1 (w * (o2 - o1))).length := by rw [addAt_length, h.len]; exact h2
    refine ⟨?_, ?_, ?_, ?_⟩
    · intro x t
      have := h.grad x t
      simp only [bilin, lin_addAt _ _ _ _ h2', lin_addAt _ _ _ _ h1', this, sq]
      ring
    · simp [addAt_length, Sys.matSize, h.len]
    · intro t
      have := h.psd t
      simp only [bilin]
      have h3 : 0 ≤ w * ((t c1 - t c2) * (t c1 - t c2)) := mul_nonneg hw (mul_self_nonneg _)
      nlinarith [h3]
    · intro e he
      have he' : e = (c2, c2, w) ∨ e = (c1, c1, w) ∨ e = (c2, c1, -w) ∨ e = (c1, c2, -w) ∨ e ∈ s.mat := by
        simpa using he
      rcases he' with rfl | rfl | rfl | rfl | he'
      · exact h2
      · exact h1
      · exact h2
      · exact h1
      · exact h.rows e he'

/-- A cell index that `addPin` may receive: `-1` or a valid unknown. -/
def CellOk (n : Nat) (c : Int) : Prop := c = -1 ∨ (0 ≤ c ∧ c < (n : Int))

theorem addPin_matSize (s : Sys) (c1 c2 : Int) (o1 o2 w : Rat) :
    (addPin s c1 c2 o1 o2 w).matSize = s.matSize := by
  unfold addPin addFixedPin addMovingPin Sys.matSize
  split
  · rfl
  · split
    · rfl
    · split
      · rfl
      · split <;> rfl

theorem addPin_nbCells (s : Sys) (c1 c2 : Int) (o1 o2 w : Rat) :
    (addPin s c1 c2 o1 o2 w).nbCells = s.nbCells := by
  unfold addPin addFixedPin addMovingPin
  split
  · rfl
  · split
    · rfl
    · split
      · rfl
      · split <;> rfl

theorem addPin_inv (s : Sys) (Q : (Nat → Rat) → Rat) (c1 c2 : Int) (o1 o2 w : Rat)
    (h1 : CellOk s.matSize c1) (h2 : CellOk s.matSize c2) (hw : 0 ≤ w) (h : Inv s Q) :
    Inv (addPin s c1 c2 o1 o2 w) (fun x => Q x + w * sq (pinVal x (c1, o1) - pinVal x (c2, o2))) := by
  unfold addPin
  by_cases e : c1 = c2
  · subst e
    simp only [if_true]
    refine ⟨?_, h.len, h.psd, h.rows⟩
    intro x t
    have := h.grad x t
    simp only [this, sq, pinVal]; ring
  · simp only [e, if_false]
    by_cases e1 : c1 = -1
    · subst e1
      have hc2 : c2 ≠ -1 := fun h => e h.symm
      rcases h2 with h2 | ⟨h2a, h2b⟩
      · exact absurd h2 hc2
      · have hlt : c2.toNat < s.matSize := by omega
        have := addFixedPin_inv s Q c2.toNat o2 o1 w hlt hw h
        simp only [if_true]
        refine ⟨?_, this.len, this.psd, this.rows⟩
        intro x t
        have g := this.grad x t
        simp only [pinVal, hc2, if_false, if_true] at g ⊢
        simp only [sq] at g ⊢
        linarith [g]
    · simp only [e1, if_false]
      rcases h1 with h1 | ⟨h1a, h1b⟩
      · exact absurd h1 e1
      · have hlt1 : c1.toNat < s.matSize := by omega
        by_cases e2 : c2 = -1
        · subst e2
          simp only [if_true]
          have := addFixedPin_inv s Q c1.toNat o1 o2 w hlt1 hw h
          refine ⟨?_, this.len, this.psd, this.rows⟩
          intro x t
          have g := this.grad x t
          simp only [pinVal, e1, if_false, if_true] at g ⊢
          simp only [sq] at g ⊢
          linarith [g]
        · simp only [e2, if_false]
          rcases h2 with h2 | ⟨h2a, h2b⟩
          · exact absurd h2 e2
          · have hlt2 : c2.toNat < s.matSize := by omega
            have := addMovingPin_inv s Q c1.toNat c2.toNat o1 o2 w hlt1 hlt2 hw h
            refine ⟨?_, this.len, this.psd, this.rows⟩
            intro x t
            have g := this.grad x t
            simp only [pinVal, e1, e2, if_false] at g ⊢
            exact g

theorem addCell_inv (s : Sys) (Q : (Nat → Rat) → Rat) (init : Rat) (h : Inv s Q) :
    Inv (addCell s init) Q := by
  refine ⟨?_, ?_, ?_, ?_⟩
  · intro x t
    have := h.grad x t
    simp only [addCell, lin, linFrom_append_zero] at this ⊢
    exact this
  · simp [addCell, Sys.matSize, h.len]; omega
  · exact h.psd
  · intro e he
    have := h.rows e he
    simp only [addCell, Sys.matSize] at this ⊢
    omega

theorem init_inv (n : Nat) : Inv (Sys.init n) (fun _ => 0) := by
  refine ⟨?_, ?_, ?_, ?_⟩
  · intro x t; simp [Sys.init, bilin, lin, linFrom_replicate_zero]
  · simp [Sys.init, Sys.matSize]
  · intro t; simp [Sys.init, bilin]
  · intro e he; simp [Sys.init] at he

/-! ### initial star model -/

theorem cellOk_mono {n m : Nat} (h : n ≤ m) {c : Int} (hc : CellOk n c) : CellOk m c := by
  rcases hc with hc | ⟨a, b⟩
  · exact Or.inl hc
  · exact Or.inr ⟨a, by omega⟩

theorem star0_loop_inv (sv : Nat) (w : Rat) (hw : 0 ≤ w) (pins : List Pin) :
    ∀ (s : Sys) (Q : (Nat → Rat) → Rat) (i : Nat), sv < s.matSize →
      (∀ p ∈ pins, CellOk s.matSize p.1) → Inv s Q →
      Inv (loopIdx (star0Body sv w) s i pins) (fun x => Q x + starQ x w sv pins)
        ∧ (loopIdx (star0Body sv w) s i pins).matSize = s.matSize
        ∧ (loopIdx (star0Body sv w) s i pins).nbCells = s.nbCells := by
  induction pins with
  | nil =>
    intro s Q i _ _ h
    refine ⟨?_, rfl, rfl⟩
    simpa [loopIdx, starQ] using h
  | cons p ps ih =>
    intro s Q i hsv hp h
    have hpc : CellOk s.matSize p.1 := hp p (List.mem_cons_self ..)
    have hsvc : CellOk s.matSize (sv : Int) := Or.inr ⟨by omega, by omega⟩
    have step := addPin_inv s Q p.1 (sv : Int) p.2 0 w hpc hsvc hw h
    have hms := addPin_matSize s p.1 (sv : Int) p.2 0 w
    have hnc := addPin_nbCells s p.1 (sv : Int) p.2 0 w
    have := ih (addPin s p.1 (sv : Int) p.2 0 w) _ (i + 1) (by rw [hms]; exact hsv)
      (by intro q hq; rw [hms]; exact hp q (List.mem_cons_of_mem _ hq)) step
    obtain ⟨a, b, c⟩ := this
    refine ⟨?_, by simp only [loopIdx, star0Body]; rw [b, hms], by simp only [loopIdx, star0Body]; rw [c, hnc]⟩
    simp only [loopIdx, star0Body]
    refine ⟨?_, a.len, a.psd, a.rows⟩
    intro x t
    have g := a.grad x t
    have hv : ∀ y : Nat → Rat, pinVal y ((sv : Int), (0 : Rat)) = y sv := by
      intro y
      have : ¬ ((sv : Int) = -1) := by omega
      simp [pinVal, this]
    simp only [starQ, hv] at g ⊢
    linarith [g]

theorem addBipoint0_inv (s : Sys) (Q : (Nat → Rat) → Rat) (n : Net) (hw : 0 ≤ n.weight)
    (hp : ∀ p ∈ n.pins, CellOk s.matSize p.1) (h : Inv s Q) :
    Inv (addBipoint0 s n) (fun x => Q x + bipointQ x n.weight n.pins)
      ∧ (addBipoint0 s n).matSize = s.matSize ∧ (addBipoint0 s n).nbCells = s.nbCells := by
  unfold addBipoint0
  rcases hpins : n.pins with _ | ⟨p0, _ | ⟨p1, rest⟩⟩
  · exact ⟨by simpa [bipointQ] using h, rfl, rfl⟩
  · exact ⟨by simpa [bipointQ] using h, rfl, rfl⟩
  · have h0 : CellOk s.matSize p0.1 := hp p0 (by simp [hpins])
    have h1 : CellOk s.matSize p1.1 := hp p1 (by simp [hpins])
    exact ⟨by simpa [bipointQ] using addPin_inv s Q p0.1 p1.1 p0.2 p1.2 n.weight h0 h1 hw h,
      addPin_matSize .., addPin_nbCells ..⟩

theorem addStar0_inv (s : Sys) (Q : (Nat → Rat) → Rat) (n : Net) (hw : 0 ≤ n.weight)
    (hp : ∀ p ∈ n.pins, CellOk s.matSize p.1) (h : Inv s Q) :
    Inv (addStar0 s n) (fun x => Q x + netQ0 x s.matSize n)
      ∧ (addStar0 s n).matSize = (if n.pins.length ≤ 2 then s.matSize else s.matSize + 1)
      ∧ (addStar0 s n).nbCells = s.nbCells := by
  unfold addStar0 netQ0
  by_cases hl : n.pins.length ≤ 2
  · simp only [hl, if_true]
    exact addBipoint0_inv s Q n hw hp h
  · simp only [hl, if_false]
    have hw' : 0 ≤ n.weight / (n.pins.length : Rat) := div_nonneg hw (by exact_mod_cast Nat.zero_le _)
    have hms : (addCell s 0).matSize = s.matSize + 1 := by simp [addCell, Sys.matSize]; omega
    have := star0_loop_inv s.matSize _ hw' n.pins (addCell s 0) Q 0 (by rw [hms]; omega)
      (by intro p hq; rw [hms]; exact cellOk_mono (by omega) (hp p hq)) (addCell_inv s Q 0 h)
    obtain ⟨a, b, c⟩ := this
    exact ⟨a, by rw [b, hms], by rw [c]; rfl⟩

theorem netOk_cellOk {nb m : Nat} (h : nb ≤ m) {n : Net} (hn : NetOk nb n) :
    ∀ p ∈ n.pins, CellOk m p.1 := fun p hp => cellOk_mono h (hn p hp)

theorem foldl_star0_inv (pl : List Rat) (ε : Rat) (nets : List Net) :
    ∀ (s : Sys) (Q : (Nat → Rat) → Rat), s.nbCells ≤ s.matSize →
      (∀ n ∈ nets, NetOk s.nbCells n ∧ 0 ≤ n.weight) → Inv s Q →
      Inv (nets.foldl (addNetModel .star0 pl ε) s) (fun x => Q x + Q0 x s.matSize nets) := by
  induction nets with
  | nil => intro s Q _ _ h; simpa [Q0] using h
  | cons n ns ih =>
    intro s Q hle hn h
    have hn0 := hn n (List.mem_cons_self ..)
    obtain ⟨a, b, c⟩ := addStar0_inv s Q n hn0.2 (netOk_cellOk hle hn0.1) h
    have hle' : (addStar0 s n).nbCells ≤ (addStar0 s n).matSize := by
      rw [b, c]; split <;> omega
    have := ih (addStar0 s n) _ hle'
      (by intro m hm; rw [c]; exact hn m (List.mem_cons_of_mem _ hm)) a
    simp only [List.foldl_cons, addNetModel]
    refine ⟨?_, this.len, this.psd, this.rows⟩
    intro x t
    have g := this.grad x t
    simp only [Q0, b] at g ⊢
    linarith [g]

theorem create_star0_inv (nb : Nat) (nets : List Net) (pl : List Rat) (ε : Rat)
    (hn : ∀ n ∈ nets, NetOk nb n ∧ 0 ≤ n.weight) :
    Inv (create .star0 nb nets pl ε) (fun x => Q0 x nb nets) := by
  have := foldl_star0_inv pl ε nets (Sys.init nb) (fun _ => 0) (by simp [Sys.init, Sys.matSize])
    (by simpa [Sys.init] using hn) (init_inv nb)
  unfold create
  refine ⟨?_, this.len, this.psd, this.rows⟩
  intro x t
  have g := this.grad x t
  simp only [Sys.init, Sys.matSize, Nat.add_zero, zero_add] at g ⊢
  exact g

/-! ### two-pin nets in the re-weighted star / light-star models -/

theorem rabs_nonneg (a : Rat) : 0 ≤ rabs a := by
  unfold rabs; split <;> linarith

theorem le_rmax_right (e a : Rat) : a ≤ rmax e a := by
  unfold rmax; split <;> linarith

theorem bipW_nonneg (w e d : Rat) (hw : 0 ≤ w) : 0 ≤ w / rmax e (rabs d) :=
  div_nonneg hw (le_trans (rabs_nonneg d) (le_rmax_right e _))

theorem addBipoint_inv (pl : List Rat) (ε : Rat) (s : Sys) (Q : (Nat → Rat) → Rat) (n : Net)
    (hw : 0 ≤ n.weight) (hp : ∀ p ∈ n.pins, CellOk s.matSize p.1) (h : Inv s Q) :
    Inv (addBipoint pl ε s n) (fun x => Q x + bipTerm pl ε x n)
      ∧ (addBipoint pl ε s n).matSize = s.matSize ∧ (addBipoint pl ε s n).nbCells = s.nbCells := by
  unfold addBipoint bipTerm
  rcases hpins : n.pins with _ | ⟨p0, _ | ⟨p1, rest⟩⟩
  · exact ⟨by simpa using h, rfl, rfl⟩
  · exact ⟨by simpa using h, rfl, rfl⟩
  · have h0 : CellOk s.matSize p0.1 := hp p0 (by simp [hpins])
    have h1 : CellOk s.matSize p1.1 := hp p1 (by simp [hpins])
    exact ⟨by simpa [bipointQ] using addPin_inv s Q p0.1 p1.1 p0.2 p1.2 _ h0 h1 (bipW_nonneg _ ε _ hw) h,
      addPin_matSize .., addPin_nbCells ..⟩

theorem QBip_cons (pl : List Rat) (ε : Rat) (x : Nat → Rat) (n : Net) (ns : List Net) :
    QBip pl ε x (n :: ns) = bipTerm pl ε x n + QBip pl ε x ns := by
  rfl

theorem foldl_twopin_inv (m : Mode) (hm : m = .star ∨ m = .lightStar) (pl : List Rat) (ε : Rat) (nets : List Net) :
    ∀ (s : Sys) (Q : (Nat → Rat) → Rat), s.nbCells ≤ s.matSize →
      (∀ n ∈ nets, NetOk s.nbCells n ∧ 0 ≤ n.weight ∧ n.pins.length ≤ 2) → Inv s Q →
      Inv (nets.foldl (addNetModel m pl ε) s) (fun x => Q x + QBip pl ε x nets) := by
  induction nets with
  | nil => intro s Q _ _ h; simpa [QBip] using h
  | cons n ns ih =>
    intro s Q hle hn h
    have hn0 := hn n (List.mem_cons_self ..)
    have hstep : addNetModel m pl ε s n = addBipoint pl ε s n := by
      rcases hm with rfl | rfl
      · simp [addNetModel, addStar, hn0.2.2]
      · simp [addNetModel, addLightStar, hn0.2.2]
    obtain ⟨a, b, c⟩ := addBipoint_inv pl ε s Q n hn0.2.1 (netOk_cellOk hle hn0.1) h
    have := ih (addBipoint pl ε s n) _ (by rw [b, c]; exact hle)
      (by intro k hk; rw [c]; exact hn k (List.mem_cons_of_mem _ hk)) a
    simp only [List.foldl_cons, hstep]
    refine ⟨?_, this.len, this.psd, this.rows⟩
    intro x t
    have g := this.grad x t
    simp only [QBip_cons] at g ⊢
    linarith [g]

theorem create_twopin_inv (m : Mode) (hm : m = .star ∨ m = .lightStar) (nb : Nat) (nets : List Net)
    (pl : List Rat) (ε : Rat) (hn : ∀ n ∈ nets, NetOk nb n ∧ 0 ≤ n.weight ∧ n.pins.length ≤ 2) :
    Inv (create m nb nets pl ε) (fun x => QBip pl ε x nets) := by
  have := foldl_twopin_inv m hm pl ε nets (Sys.init nb) (fun _ => 0) (by simp [Sys.init, Sys.matSize])
    (by simpa [Sys.init] using hn) (init_inv nb)
  unfold create
  refine ⟨?_, this.len, this.psd, this.rows⟩
  intro x t
  have g := this.grad x t
  simp only [zero_add] at g ⊢
  exact g

/-! ### consequences -/

/-- If `x` satisfies the normal equations in weak form, `x` minimises `Q`. -/
theorem inv_minimizes (s : Sys) (Q : (Nat → Rat) → Rat) (h : Inv s Q) (x : Nat → Rat)
    (hx : ∀ t, bilin s.mat x t = lin s.rhs t) (y : Nat → Rat) : Q x ≤ Q y := by
  have g := h.grad x (fun i => y i - x i)
  have p := h.psd (fun i => y i - x i)
  have e : (fun i => x i + (y i - x i)) = y := by funext i; ring
  rw [e, hx] at g
  linarith

/-! ### from `A x = b` row by row to the weak form -/

def sumTo (n : Nat) (f : Nat → Rat) : Rat :=
  match n with
  | 0 => 0
  | m + 1 => sumTo m f + f m

theorem sumTo_add (n : Nat) (f g : Nat → Rat) : sumTo n (fun i => f i + g i) = sumTo n f + sumTo n g := by
  induction n with
  | zero => simp [sumTo]
  | succ m ih => simp only [sumTo, ih]; ring

theorem sumTo_congr (n : Nat) (f g : Nat → Rat) (h : ∀ i, i < n → f i = g i) : sumTo n f = sumTo n g := by
  induction n with
  | zero => rfl
  | succ m ih =>
    simp only [sumTo]
    rw [ih (fun i hi => h i (by omega)), h m (by omega)]

theorem sumTo_zero (n : Nat) (f : Nat → Rat) (h : ∀ i, i < n → f i = 0) : sumTo n f = 0 := by
  induction n with
  | zero => rfl
  | succ m ih =>
    simp only [sumTo]
    rw [ih (fun i hi => h i (by omega)), h m (by omega)]; ring

theorem sumTo_single (n r : Nat) (a : Rat) (t : Nat → Rat) (h : r < n) :
    sumTo n (fun i => (if r = i then a else 0) * t i) = a * t r := by
  induction n with
  | zero => omega
  | succ m ih =>
    simp only [sumTo]
    by_cases e : r = m
    · subst e
      have hz : ∀ i, i < r → (if r = i then a else 0) * t i = 0 := by
        intro i hi
        have : ¬ r = i := by omega
        simp [this]
      rw [sumTo_zero r _ hz]
      simp
    · rw [ih (by omega)]
      simp [e]

theorem sumTo_shift (n : Nat) (f : Nat → Rat) : sumTo (n + 1) f = f 0 + sumTo n (fun i => f (i + 1)) := by
  induction n with
  | zero => simp [sumTo]
  | succ m ih =>
    have : sumTo (m + 1 + 1) f = sumTo (m + 1) f + f (m + 1) := rfl
    rw [this, ih]
    simp only [sumTo]; ring

theorem bilin_eq_sum (mat : List (Nat × Nat × Rat)) (N : Nat) (hrows : ∀ e ∈ mat, e.1 < N) (x t : Nat → Rat) :
    bilin mat x t = sumTo N (fun i => rowDot mat x i * t i) := by
  induction mat with
  | nil => simp only [bilin, rowDot]; rw [sumTo_zero N _ (fun i _ => by ring)]
  | cons e es ih =>
    have he : e.1 < N := hrows e (List.mem_cons_self ..)
    have hes : ∀ e' ∈ es, e'.1 < N := fun e' h' => hrows e' (List.mem_cons_of_mem _ h')
    simp only [bilin, rowDot]
    rw [ih hes]
    have : (fun i => ((if e.1 = i then e.2.2 * x e.2.1 else 0) + rowDot es x i) * t i)
        = (fun i => (if e.1 = i then e.2.2 * x e.2.1 else 0) * t i + rowDot es x i * t i) := by
      funext i; ring
    rw [this, sumTo_add, sumTo_single N e.1 _ t he]

theorem linFrom_eq_sum (k : Nat) (l : List Rat) (t : Nat → Rat) :
    linFrom k l t = sumTo l.length (fun i => l.getD i 0 * t (k + i)) := by
  induction l generalizing k with
  | nil => simp [linFrom, sumTo]
  | cons r rs ih =>
    simp only [linFrom, List.length_cons]
    rw [sumTo_shift, ih (k + 1)]
    simp only [List.getD_cons_zero, List.getD_cons_succ, Nat.add_zero]
    congr 1
    apply sumTo_congr
    intro i _
    have : k + 1 + i = k + (i + 1) := by omega
    rw [this]

/-- Row-by-row `A x = b` implies the weak form, when all rows are inside the vectors. -/
theorem solves_weak (s : Sys) (Q : (Nat → Rat) → Rat) (h : Inv s Q) (x : Nat → Rat) (hx : Solves s x) (t : Nat → Rat) :
    bilin s.mat x t = lin s.rhs t := by
  rw [bilin_eq_sum s.mat s.rhs.length (by rw [h.len]; exact h.rows) x t]
  unfold lin
  rw [linFrom_eq_sum]
  apply sumTo_congr
  intro i _
  simp only [Nat.zero_add]
  rw [hx i]

/-- If `x` solves `A x = b`, `x` minimises `Q`. -/
theorem inv_solution_minimizes (s : Sys) (Q : (Nat → Rat) → Rat) (h : Inv s Q) (x : Nat → Rat)
    (hx : Solves s x) (y : Nat → Rat) : Q x ≤ Q y :=
  inv_minimizes s Q h x (solves_weak s Q h x hx) y

end ColoVerif.NetAsm
