import ColoVerif.Model.IspdText
import ColoVerif.Proofs.Ispd
import Std.Data.String.ToNat
/-
Base lemmas for the text level of C20: characters, `strip`/`split`, `int()`/`float()` on the strings
that `operator<<` produces.  (Statements fixed; used by Proofs/IspdText.lean.)
Helper lemmas live in the sub-namespace `Base` (`open ColoVerif.Ispd.Text.Base` to use them).
-/
namespace ColoVerif.Ispd.Text
open ColoVerif ColoVerif.Ispd

/-- no character of `t` is a separator -/
def Free (p : Char → Bool) (t : Line) : Prop := ∀ c ∈ t, p c = false

/-! ### characters -/

theorem isDig_of_isDigit {c : Char} (h : c.isDigit = true) : isDig c = true := by
  simp only [Char.isDigit, Bool.and_eq_true, decide_eq_true_eq, ge_iff_le, UInt32.le_iff_toNat_le] at h
  simp only [isDig, Char.toNat, Bool.and_eq_true, decide_eq_true_eq]
  exact h

theorem isWs_of_isDig {c : Char} (h : isDig c = true) : isWs c = false := by
  unfold isDig at h
  unfold isWs
  generalize c.toNat = n at *
  simp only [Bool.and_eq_true, decide_eq_true_eq] at h
  simp only [Bool.or_eq_false_iff, Bool.and_eq_false_iff, beq_eq_false_iff_ne, decide_eq_false_iff_not]
  omega

theorem isWsC_of_isDig {c : Char} (h : isDig c = true) : isWsC c = false := by
  by_cases hc : c = ':'
  · subst hc; revert h; decide
  · simp [isWsC, isWs_of_isDig h, hc]

theorem isWsC_of_isWs {c : Char} (h : isWs c = true) : isWsC c = true := by
  simp [isWsC, h]

theorem Free.ws {t : Line} (h : Free isWsC t) : Free isWs t := by
  intro c hc
  have := h c hc
  simp only [isWsC, Bool.or_eq_false_iff] at this
  exact this.1

/-! ### numbers as printed by `operator<<` -/

theorem showNat_ne_nil (n : Nat) : showNat n ≠ [] := by
  intro h
  have := Nat.length_toDigits_pos (b := 10) (n := n)
  unfold showNat at h
  rw [h] at this
  simp at this

theorem showNat_isDig (n : Nat) : ∀ c ∈ showNat n, isDig c = true := by
  intro c hc
  exact isDig_of_isDigit (Nat.isDigit_of_mem_toDigits (by decide) (by decide) hc)

theorem showInt_ne_nil (i : Int) : showInt i ≠ [] := by
  unfold showInt
  split
  · simp
  · exact showNat_ne_nil _

theorem showInt_free (i : Int) : Free isWsC (showInt i) := by
  unfold showInt
  split
  · intro c hc
    rcases List.mem_cons.1 hc with rfl | hc
    · decide
    · exact isWsC_of_isDig (showNat_isDig _ c hc)
  · intro c hc
    exact isWsC_of_isDig (showNat_isDig _ c hc)

theorem Base.natGo_digits (ds : Line) : ∀ acc, (∀ c ∈ ds, isDig c = true) →
    natGo acc ds = some (ds.foldl (fun a c => a * 10 + digitVal c) acc) := by
  induction ds with
  | nil => intro acc _; rfl
  | cons c cs ih =>
    intro acc h
    have hc := h c (List.mem_cons_self)
    unfold natGo
    simp only [hc, if_true, List.foldl_cons]
    exact ih _ (fun d hd => h d (List.mem_cons_of_mem _ hd))

open Base

theorem Base.digitVal_digitChar {n : Nat} (h : n < 10) : digitVal (Nat.digitChar n) = n := by
  unfold digitVal
  exact Nat.toNat_digitChar_sub_48_of_lt_ten h

theorem Base.digitsNat_showNat (n : Nat) : digitsNat (showNat n) = n := by
  unfold digitsNat showNat
  induction n using Nat.strongRecOn with
  | _ n ih =>
    rw [Nat.toDigits_eq_if (by decide)]
    split
    · rename_i h
      simp [digitVal_digitChar h]
    · rename_i h
      rw [List.foldl_append, ih (n / 10) (by omega)]
      simp only [List.foldl_cons, List.foldl_nil]
      rw [digitVal_digitChar (Nat.mod_lt _ (by decide))]
      omega

theorem Base.pyNat_digits {ds : Line} (hne : ds ≠ []) (h : ∀ c ∈ ds, isDig c = true) :
    pyNat ds = some (digitsNat ds) := by
  cases ds with
  | nil => exact absurd rfl hne
  | cons c cs =>
    have hc := h c (List.mem_cons_self)
    simp only [pyNat, hc, if_true]
    rw [natGo_digits cs _ (fun d hd => h d (List.mem_cons_of_mem _ hd))]
    simp [digitsNat]

theorem pyNat_showNat (n : Nat) : pyNat (showNat n) = some n := by
  rw [pyNat_digits (showNat_ne_nil n) (showNat_isDig n), digitsNat_showNat]

theorem pyIntCore_showInt (i : Int) : pyIntCore (showInt i) = some i := by
  unfold showInt
  split
  · rename_i h
    simp only [pyIntCore, beq_self_eq_true, if_true, pyNat_showNat]
    simp only [Option.bind_eq_bind, Option.bind_some, Option.pure_def, Option.map_some, Option.some.injEq]
    omega
  · rename_i h
    have hne := showNat_ne_nil i.toNat
    have hd := showNat_isDig i.toNat
    have hp := pyNat_showNat i.toNat
    generalize showNat i.toNat = s at *
    cases s with
    | nil => exact absurd rfl hne
    | cons c cs =>
      have hc := hd c (List.mem_cons_self)
      have h1 : (c == '-') = false := by
        by_cases e : c = '-'
        · subst e; revert hc; decide
        · simp [e]
      have h2 : (c == '+') = false := by
        by_cases e : c = '+'
        · subst e; revert hc; decide
        · simp [e]
      simp only [pyIntCore, h1, h2, hp]
      simp only [Bool.false_eq_true, ↓reduceIte, Option.pure_def, Option.bind_eq_bind, Option.bind_some,
        Int.ofNat_toNat, Option.map_some, Option.some.injEq]
      omega

theorem Base.free_append {p : Char → Bool} {a b : Line} (ha : Free p a) (hb : Free p b) : Free p (a ++ b) := by
  intro c hc
  rcases List.mem_append.1 hc with h | h
  · exact ha c h
  · exact hb c h

theorem Base.free_cons {p : Char → Bool} {c : Char} {b : Line} (hc : p c = false) (hb : Free p b) : Free p (c :: b) := by
  intro d hd
  rcases List.mem_cons.1 hd with rfl | h
  · exact hc
  · exact hb d h

theorem Base.free_nil {p : Char → Bool} : Free p [] := by
  intro c hc; cases hc

theorem Base.free_mono {p : Char → Bool} {a b : Line} (hb : Free p b) (h : ∀ c ∈ a, c ∈ b) : Free p a :=
  fun c hc => hb c (h c hc)

theorem lstrip_ws {w : Char} (hw : isWs w = true) (l : Line) : lstrip (w :: l) = lstrip l := by
  simp [lstrip, hw]

theorem lstrip_nonws {c : Char} (hc : isWs c = false) (l : Line) : lstrip (c :: l) = c :: l := by
  simp [lstrip, hc]

theorem Base.rstrip_cons_of_ne {c : Char} {l : Line} (h : rstrip l ≠ []) : rstrip (c :: l) = c :: rstrip l := by
  rw [rstrip]
  cases hr : rstrip l with
  | nil => exact absurd hr h
  | cons d ds => simp

theorem Base.rstrip_cons_nonws {c : Char} (l : Line) (h : isWs c = false) : rstrip (c :: l) = c :: rstrip l := by
  rw [rstrip]
  simp [h]

theorem Base.rstrip_of_free {t : Line} (hf : Free isWs t) : rstrip t = t := by
  induction t with
  | nil => rfl
  | cons c cs ih =>
    rw [rstrip_cons_nonws _ (hf c List.mem_cons_self), ih (fun d hd => hf d (List.mem_cons_of_mem _ hd))]

theorem Base.rstrip_append_free (a : Line) {t : Line} (hne : t ≠ []) (hf : Free isWs t) : rstrip (a ++ t) = a ++ t := by
  induction a with
  | nil => exact rstrip_of_free hf
  | cons c a ih =>
    rw [List.cons_append, rstrip_cons_of_ne (by rw [ih]; simp [hne]), ih]

theorem Base.lstrip_of_free {t : Line} (hf : Free isWs t) : lstrip t = t := by
  cases t with
  | nil => rfl
  | cons c cs => exact lstrip_nonws (hf c List.mem_cons_self) cs

/-- `strip` leaves a token alone -/
theorem strip_of_free {t : Line} (hf : Free isWs t) : strip t = t := by
  unfold strip
  rw [lstrip_of_free hf, rstrip_of_free hf]

theorem pyInt_showInt (i : Int) : pyInt (showInt i) = .ok i := by
  unfold pyInt
  rw [strip_of_free (showInt_free i).ws, pyIntCore_showInt]
  rfl

theorem fmtG6_ne_nil (k : Int) : fmtG6 k ≠ [] := by
  unfold fmtG6
  intro h
  have hb := (List.append_eq_nil_iff.1 h).2
  split at hb
  · exact showNat_ne_nil _ (List.append_eq_nil_iff.1 hb).1
  · simp only at hb
    split at hb
    · exact showNat_ne_nil _ hb
    · simp at hb

theorem Base.mem_stripZeros {c : Char} {l : Line} (h : c ∈ stripZeros l) : c ∈ l := by
  unfold stripZeros at h
  rw [List.mem_reverse] at h
  have := (List.dropWhile_sublist (fun x => x == '0') (l := l.reverse)).subset h
  exact List.mem_reverse.1 this

theorem Base.free_showNat (n : Nat) : Free isWsC (showNat n) :=
  fun c hc => isWsC_of_isDig (showNat_isDig n c hc)

theorem Base.free_twoDigits (n : Nat) : Free isWsC (twoDigits n) := by
  unfold twoDigits
  split
  · exact free_cons (by decide) (free_showNat _)
  · exact free_showNat _

theorem fmtG6_free (k : Int) : Free isWsC (fmtG6 k) := by
  unfold fmtG6
  apply free_append
  · split
    · exact free_cons (by decide) free_nil
    · exact free_nil
  · split
    · apply free_append (free_showNat _)
      split
      · exact free_cons (by decide) (free_cons (by decide) free_nil)
      · exact free_nil
    · simp only
      split
      · exact free_showNat _
      · apply free_append
        · apply free_append
          · apply free_append
            · exact free_mono (free_showNat (round6 k.natAbs)) (fun c hc => List.mem_of_mem_take hc)
            · split
              · exact free_nil
              · apply free_cons (by decide)
                exact free_mono (free_showNat (round6 k.natAbs))
                  (fun c hc => List.mem_of_mem_drop (List.mem_of_mem_take (mem_stripZeros hc)))
          · exact free_cons (by decide) (free_cons (by decide) free_nil)
        · exact free_twoDigits _

theorem Base.takeWhile_isDig_append {ds rest : Line} (hd : ∀ c ∈ ds, isDig c = true)
    (hr : ∀ c r, rest = c :: r → isDig c = false) : (ds ++ rest).takeWhile isDig = ds := by
  induction ds with
  | nil =>
    cases rest with
    | nil => rfl
    | cons c r => simp [hr c r rfl]
  | cons d ds ih =>
    simp only [List.cons_append, List.takeWhile_cons, hd d List.mem_cons_self, if_true]
    rw [ih (fun c hc => hd c (List.mem_cons_of_mem _ hc))]

theorem Base.dropWhile_isDig_append {ds rest : Line} (hd : ∀ c ∈ ds, isDig c = true)
    (hr : ∀ c r, rest = c :: r → isDig c = false) : (ds ++ rest).dropWhile isDig = rest := by
  induction ds with
  | nil =>
    cases rest with
    | nil => rfl
    | cons c r => simp [hr c r rfl]
  | cons d ds ih =>
    simp only [List.cons_append, List.dropWhile_cons, hd d List.mem_cons_self, if_true]
    rw [ih (fun c hc => hd c (List.mem_cons_of_mem _ hc))]

theorem Base.pyFloatAbs_int {ds : Line} (hne : ds ≠ []) (hd : ∀ c ∈ ds, isDig c = true) :
    pyFloatAbs ds = some (digitsNat ds : Rat) := by
  have ht : ds.takeWhile isDig = ds := by
    simpa using takeWhile_isDig_append (rest := []) hd (by intro c r h; cases h)
  have hdr : ds.dropWhile isDig = [] := by
    simpa using dropWhile_isDig_append (rest := []) hd (by intro c r h; cases h)
  unfold pyFloatAbs
  rw [ht, hdr]
  cases ds with
  | nil => exact absurd rfl hne
  | cons c cs =>
    simp only [List.isEmpty_cons, fracPart, List.isEmpty_nil, Bool.and_true, Bool.false_eq_true, if_false,
      List.append_nil, List.length_nil, Nat.pow_zero, Rat.natCast_ofNat, Option.some.injEq]
    grind

theorem Base.pyFloatAbs_half {ds : Line} (hne : ds ≠ []) (hd : ∀ c ∈ ds, isDig c = true) :
    pyFloatAbs (ds ++ ['.', '5']) = some ((digitsNat ds * 10 + 5 : Nat) / 10 : Rat) := by
  have hr : ∀ c r, ['.', '5'] = c :: r → isDig c = false := by
    intro c r h; cases h; decide
  have ht := takeWhile_isDig_append hd hr
  have hdr := dropWhile_isDig_append hd hr
  have hf : fracPart ['.', '5'] = (['5'], []) := by decide
  have hdn : digitsNat (ds ++ ['5']) = digitsNat ds * 10 + 5 := by
    unfold digitsNat
    rw [List.foldl_append]
    rfl
  unfold pyFloatAbs
  rw [ht, hdr, hf]
  cases ds with
  | nil => exact absurd rfl hne
  | cons c cs =>
    simp only [List.isEmpty_cons, Bool.false_and, Bool.false_eq_true, if_false, hdn]
    simp

/-- on the six-digit domain the printed half-integer is read back exactly (`fmt6 k = k/2` there) -/
theorem pyFloat_fmtG6 (k : Int) (h : k.natAbs < 200000) : pyFloat (fmtG6 k) = .ok (fmt6 k) := by
  unfold pyFloat
  rw [strip_of_free (fmtG6_free k).ws]
  have hfmt : fmt6 k = (k : Rat) / 2 := by unfold fmt6; rw [if_pos h]
  rw [hfmt]
  have hne := showNat_ne_nil (k.natAbs / 2)
  have hd := showNat_isDig (k.natAbs / 2)
  have hv := digitsNat_showNat (k.natAbs / 2)
  have habs : pyFloatAbs (showNat (k.natAbs / 2) ++ (if k.natAbs % 2 = 1 then ['.', '5'] else []))
      = some ((k.natAbs : Rat) / 2) := by
    split
    · rename_i h1
      rw [pyFloatAbs_half hne hd, hv]
      congr 1
      have : k.natAbs = 2 * (k.natAbs / 2) + 1 := by omega
      generalize k.natAbs / 2 = m at *
      rw [this]
      simp only [Rat.natCast_add, Rat.natCast_mul, Rat.natCast_ofNat]
      grind
    · rename_i h1
      rw [List.append_nil, pyFloatAbs_int hne hd, hv]
      congr 1
      have : k.natAbs = 2 * (k.natAbs / 2) := by omega
      generalize k.natAbs / 2 = m at *
      rw [this]
      simp only [Rat.natCast_mul, Rat.natCast_ofNat]
      grind
  have hfm : fmtG6 k = (if k < 0 then ['-'] else []) ++
      (showNat (k.natAbs / 2) ++ (if k.natAbs % 2 = 1 then ['.', '5'] else [])) := by
    unfold fmtG6; rw [if_pos h]
  rw [hfm]
  by_cases hk : k < 0
  · rw [if_pos hk]
    simp only [List.cons_append, List.nil_append, pyFloatCore, beq_self_eq_true, if_true, habs, Option.map_some]
    have : (k : Rat) = -((k.natAbs : Nat) : Rat) := by
      have : k = -(k.natAbs : Int) := by omega
      conv => lhs; rw [this]
      rw [Rat.intCast_neg, Rat.intCast_natCast]
    rw [this]
    show Except.ok _ = Except.ok _
    congr 1
    grind
  · rw [if_neg hk, List.nil_append]
    have hk' : (k : Rat) = ((k.natAbs : Nat) : Rat) := by
      have : k = (k.natAbs : Int) := by omega
      conv => lhs; rw [this]
      rw [Rat.intCast_natCast]
    generalize hs : showNat (k.natAbs / 2) = s at *
    cases s with
    | nil => exact absurd rfl hne
    | cons c cs =>
      have hc := hd c List.mem_cons_self
      have h1 : (c == '-') = false := by
        by_cases e : c = '-'
        · subst e; revert hc; decide
        · simp [e]
      have h2 : (c == '+') = false := by
        by_cases e : c = '+'
        · subst e; revert hc; decide
        · simp [e]
      rw [List.cons_append] at habs ⊢
      simp only [pyFloatCore, h1, h2, habs, hk']
      rfl

/-! ### `split` -/

theorem splitBy_nil (p : Char → Bool) : splitBy p [] = [] := rfl

theorem Base.splitGo_nil (p : Char → Bool) (acc : Line) :
    splitGo p acc [] = if acc.isEmpty then [] else [acc.reverse] := by
  rw [splitGo]

theorem Base.splitGo_sep (p : Char → Bool) {w : Char} (hw : p w = true) (acc rest : Line) :
    splitGo p acc (w :: rest) =
      if acc.isEmpty then splitGo p [] rest else acc.reverse :: splitGo p [] rest := by
  rw [splitGo, if_pos hw]

theorem Base.splitGo_nonsep (p : Char → Bool) {c : Char} (hc : p c = false) (acc rest : Line) :
    splitGo p acc (c :: rest) = splitGo p (c :: acc) rest := by
  rw [splitGo]; simp [hc]

theorem Base.splitGo_free (p : Char → Bool) {t : Line} (hf : Free p t) (rest : Line) :
    ∀ acc, splitGo p acc (t ++ rest) = splitGo p (t.reverse ++ acc) rest := by
  induction t with
  | nil => intro acc; rfl
  | cons c cs ih =>
    intro acc
    rw [List.cons_append, splitGo_nonsep p (hf c List.mem_cons_self),
      ih (fun d hd => hf d (List.mem_cons_of_mem _ hd))]
    simp

theorem splitBy_sep (p : Char → Bool) {w : Char} (hw : p w = true) (rest : Line) :
    splitBy p (w :: rest) = splitBy p rest := by
  unfold splitBy
  rw [splitGo_sep p hw]; rfl

theorem splitBy_tok (p : Char → Bool) {t : Line} (hne : t ≠ []) (hf : Free p t) {w : Char} (hw : p w = true)
    (rest : Line) : splitBy p (t ++ w :: rest) = t :: splitBy p rest := by
  unfold splitBy
  rw [splitGo_free p hf, splitGo_sep p hw, List.append_nil]
  cases t with
  | nil => exact absurd rfl hne
  | cons c cs => simp

theorem splitBy_tok_end (p : Char → Bool) {t : Line} (hne : t ≠ []) (hf : Free p t) : splitBy p t = [t] := by
  unfold splitBy
  have := splitGo_free p hf [] []
  rw [List.append_nil, List.append_nil] at this
  rw [this, splitGo_nil]
  cases t with
  | nil => exact absurd rfl hne
  | cons c cs => simp

theorem Base.splitGo_lstrip (p : Char → Bool) (hp : ∀ c, isWs c = true → p c = true) (l : Line) :
    splitGo p [] (lstrip l) = splitGo p [] l := by
  induction l with
  | nil => rfl
  | cons c cs ih =>
    by_cases hc : isWs c = true
    · rw [lstrip_ws hc, ih, splitGo_sep p (hp c hc)]; rfl
    · rw [lstrip_nonws (by simpa using hc)]

theorem Base.splitGo_rstrip (p : Char → Bool) (hp : ∀ c, isWs c = true → p c = true) (l : Line) :
    ∀ acc, splitGo p acc (rstrip l) = splitGo p acc l := by
  induction l with
  | nil => intro acc; rfl
  | cons c cs ih =>
    intro acc
    rw [rstrip]
    split
    · rename_i h
      simp only [Bool.and_eq_true, List.isEmpty_iff] at h
      have ih' : ∀ acc, splitGo p acc cs = splitGo p acc [] := by
        intro acc; rw [← ih acc, h.1]
      rw [splitGo_sep p (hp c h.2), ih', splitGo_nil, splitGo_nil]
      rfl
    · by_cases hc : p c = true
      · rw [splitGo_sep p hc, splitGo_sep p hc, ih]
      · have hc' : p c = false := by simpa using hc
        rw [splitGo_nonsep p hc', splitGo_nonsep p hc', ih]

/-- leading and trailing white space does not change the tokens -/
theorem splitBy_strip (p : Char → Bool) (hp : ∀ c, isWs c = true → p c = true) (l : Line) :
    splitBy p (strip l) = splitBy p l := by
  unfold splitBy strip
  rw [splitGo_rstrip p hp, splitGo_lstrip p hp]

theorem Base.splitGo_replaceColon (l : Line) : ∀ acc, splitGo isWs acc (replaceColon l) = splitGo isWsC acc l := by
  induction l with
  | nil => intro acc; rfl
  | cons c cs ih =>
    intro acc
    have hm : replaceColon (c :: cs) = (if c == ':' then ' ' else c) :: replaceColon cs := rfl
    rw [hm]
    by_cases hc : c = ':'
    · subst hc
      rw [if_pos (by decide), splitGo_sep isWs (by decide), splitGo_sep isWsC (by decide), ih]
    · have hb : (c == ':') = false := by simp [hc]
      rw [hb]
      simp only [Bool.false_eq_true, if_false]
      by_cases hw : isWs c = true
      · rw [splitGo_sep isWs hw, splitGo_sep isWsC (isWsC_of_isWs hw), ih]
      · have hw' : isWs c = false := by simpa using hw
        have hwc : isWsC c = false := by simp [isWsC, hw', hb]
        rw [splitGo_nonsep isWs hw', splitGo_nonsep isWsC hwc, ih]

/-- `line.replace(":", " ").split()` = split at white space and colons -/
theorem split_replaceColon (l : Line) : split (replaceColon l) = splitBy isWsC l :=
  splitGo_replaceColon l []

/-! ### what the readers look at in a stripped line -/

theorem Base.lstrip_cases (l : Line) : lstrip l = [] ∨ ∃ c r, lstrip l = c :: r ∧ isWs c = false := by
  induction l with
  | nil => exact Or.inl rfl
  | cons c cs ih =>
    by_cases hc : isWs c = true
    · rw [lstrip_ws hc]; exact ih
    · have hc' : isWs c = false := by simpa using hc
      rw [lstrip_nonws hc']; exact Or.inr ⟨c, cs, rfl, hc'⟩

theorem strip_isEmpty (l : Line) : (strip l).isEmpty = (lstrip l).isEmpty := by
  unfold strip
  rcases lstrip_cases l with h | ⟨c, r, h, hc⟩
  · rw [h]; rfl
  · rw [h, rstrip_cons_nonws _ hc]; rfl

theorem Base.isPrefixOf_rstrip (Q : Line) (hQ : Free isWs Q) (x : Line) :
    Q.isPrefixOf (rstrip x) = Q.isPrefixOf x := by
  induction x generalizing Q with
  | nil => rfl
  | cons c cs ih =>
    cases Q with
    | nil => simp
    | cons q qs =>
      have hq := hQ q List.mem_cons_self
      rw [rstrip]
      split
      · rename_i h
        simp only [Bool.and_eq_true] at h
        have : (q == c) = false := by
          by_cases e : q = c
          · subst e; rw [hq] at h; exact absurd h.2 (by decide)
          · simp [e]
        simp [List.isPrefixOf, this]
      · simp only [List.isPrefixOf_cons_cons]
        rw [ih qs (fun d hd => hQ d (List.mem_cons_of_mem _ hd))]

theorem startsWith_strip (P : String) (hP : Free isWs P.toList) (l : Line) :
    startsWith P (strip l) = startsWith P (lstrip l) := by
  unfold startsWith strip
  exact isPrefixOf_rstrip _ hP _

theorem Base.isPrefixOf_replaceColon (Q : Line) (hQ : ∀ c ∈ Q, c ≠ ':' ∧ c ≠ ' ') (l : Line) :
    Q.isPrefixOf (replaceColon l) = Q.isPrefixOf l := by
  induction l generalizing Q with
  | nil => rfl
  | cons c cs ih =>
    cases Q with
    | nil => simp
    | cons q qs =>
      have hq := hQ q List.mem_cons_self
      have hm : replaceColon (c :: cs) = (if c == ':' then ' ' else c) :: replaceColon cs := rfl
      rw [hm]
      simp only [List.isPrefixOf_cons_cons]
      rw [ih qs (fun d hd => hQ d (List.mem_cons_of_mem _ hd))]
      by_cases hc : c = ':'
      · subst hc
        have e1 : (q == ' ') = false := by simp [hq.2]
        have e2 : (q == ':') = false := by simp [hq.1]
        simp [e1, e2]
      · simp [hc]

theorem startsWith_replaceColon (P : String) (hP : ∀ c ∈ P.toList, c ≠ ':' ∧ c ≠ ' ') (l : Line) :
    startsWith P (replaceColon l) = startsWith P l := by
  unfold startsWith
  exact isPrefixOf_replaceColon _ hP _

theorem Base.isPrefixOf_append_of_le (Q a b : Line) (h : Q.length ≤ a.length) :
    Q.isPrefixOf (a ++ b) = Q.isPrefixOf a := by
  induction Q generalizing a with
  | nil => simp
  | cons q qs ih =>
    cases a with
    | nil => simp at h
    | cons c cs =>
      simp only [List.cons_append, List.isPrefixOf_cons_cons]
      rw [ih cs (by simpa using h)]

theorem startsWith_append_of_le (P : String) (a b : Line) (h : P.toList.length ≤ a.length) :
    startsWith P (a ++ b) = startsWith P a := by
  unfold startsWith
  exact isPrefixOf_append_of_le _ _ _ h

theorem Base.dropWhile_ne_colon (K0 rest : Line) (h1 : ∀ c ∈ K0, c ≠ ':') :
    (K0 ++ ':' :: rest).dropWhile (· != ':') = ':' :: rest := by
  induction K0 with
  | nil => simp
  | cons c cs ih =>
    have hc := h1 c List.mem_cons_self
    rw [List.cons_append, List.dropWhile_cons]
    simp only [bne_iff_ne, ne_eq, hc, not_false_eq_true, if_true]
    exact ih (fun d hd => h1 d (List.mem_cons_of_mem _ hd))

/-- a header line `Key : <int>` as written by export.cpp (`K0` is the key with its trailing blanks) -/
theorem parseNumLine_key (K0 : Line) (n : Int) (h1 : ∀ c ∈ K0, c ≠ ':')
    (h2 : ∃ c r, K0 = c :: r ∧ isWs c = false) :
    parseNumLine (strip (K0 ++ ':' :: ' ' :: showInt n)) = .ok n := by
  obtain ⟨c, r, rfl, hc⟩ := h2
  have hs : strip ((c :: r) ++ ':' :: ' ' :: showInt n) = (c :: r) ++ ':' :: ' ' :: showInt n := by
    unfold strip
    rw [List.cons_append, lstrip_nonws hc]
    have := rstrip_append_free (c :: (r ++ [':', ' '])) (showInt_ne_nil n) (showInt_free n).ws
    simpa using this
  rw [hs]
  unfold parseNumLine
  rw [dropWhile_ne_colon _ _ h1]
  have hcont : (' ' :: showInt n).contains ':' = false := by
    rw [List.contains_eq_mem]
    apply decide_eq_false
    intro hm
    rcases List.mem_cons.1 hm with e | hm
    · exact absurd e (by decide)
    · have := showInt_free n _ hm
      exact absurd this (by decide)
  simp only [hcont, Bool.false_eq_true, if_false]
  unfold pyInt
  have : strip (' ' :: showInt n) = showInt n := by
    unfold strip
    rw [lstrip_ws (by decide), lstrip_of_free (showInt_free n).ws, rstrip_of_free (showInt_free n).ws]
  rw [this, pyIntCore_showInt]
  rfl

/-! ### names -/

theorem cellName_toList (i : Nat) : (cellName i).toList = cellTok i := by
  simp [cellName, cellTok, showNat, String.toList_append, Nat.repr]

theorem ofList_cellTok (i : Nat) : String.ofList (cellTok i) = cellName i := by
  rw [← cellName_toList, String.ofList_toList]

theorem cellTok_ne_nil (i : Nat) : cellTok i ≠ [] := by
  simp [cellTok]

theorem cellTok_free (i : Nat) : Free isWsC (cellTok i) :=
  free_cons (by decide) (free_showNat i)

theorem netTok_ne_nil (i : Nat) : netTok i ≠ [] := by
  simp [netTok]

theorem netTok_free (i : Nat) : Free isWsC (netTok i) :=
  free_cons (by decide) (free_showNat i)

theorem orient_ne_nil (o : Orient) : (orientToString o).toList ≠ [] := by
  cases o <;> decide

theorem orient_free (o : Orient) : Free isWsC (orientToString o).toList := by
  cases o <;> (unfold Free; decide)
end ColoVerif.Ispd.Text
