/-
C13, `updateTree` (part A): pointwise views of a `Tree`, specifications of the selection loop
`pickVisit` and of the relaxation pass `relax`.
-/
import ColoVerif.Proofs.TranspSsp2Defs
import Mathlib.Tactic.Linarith

namespace ColoVerif.Transp

/-! ### pointwise views -/

/-- `sendingCost_[i]` -/
def lab (t : Tree) (i : Nat) : Int := t.sendCost.getD i 0
/-- `sinkParent_[i]` -/
def par (t : Tree) (i : Nat) : Option Nat := t.parent.getD i none
/-- `toVisit[i]` -/
def vis (t : Tree) (i : Nat) : Bool := t.toVisit.getD i false

/-- the three vectors have length `n` -/
structure TWF (n : Nat) (t : Tree) : Prop where
  lc : t.sendCost.length = n
  lp : t.parent.length = n
  lv : t.toVisit.length = n

lemma getD_set_gen {α : Type} (d : α) (l : List α) (i k : Nat) (v : α) :
    (l.set i v).getD k d = if k = i ∧ i < l.length then v else l.getD k d := by
  simp only [List.getD_eq_getElem?_getD, List.getElem?_set]
  by_cases e : i = k
  · subst e
    by_cases h : i < l.length
    · simp [h]
    · simp [h]
  · have e' : ¬ k = i := fun hh => e hh.symm
    simp [e, e']

lemma getD_map_gen {α β : Type} (f : α → β) (da : α) (db : β) (l : List α) (k : Nat) (h : k < l.length) :
    (l.map f).getD k db = f (l.getD k da) := by
  simp only [List.getD_eq_getElem?_getD, List.getElem?_map]
  rw [List.getElem?_eq_getElem h]
  rfl

/-! ### `pickVisit` -/

lemma pickVisit_some (t : Tree) : ∀ (k i : Nat) (best : Option Nat) (bc : Int) (bv : Nat),
    pickVisit t k i best bc = some bv →
    best = some bv ∨ (i ≤ bv ∧ bv < i + k ∧ vis t bv = true ∧ lab t bv < bc) := by
  intro k
  induction k with
  | zero =>
    intro i best bc bv h
    left
    simpa [pickVisit] using h
  | succ k ih =>
    intro i best bc bv h
    unfold pickVisit at h
    by_cases c1 : t.toVisit.getD i false = true
    · by_cases c2 : t.sendCost.getD i 0 < bc
      · have hc : (t.toVisit.getD i false && decide (t.sendCost.getD i 0 < bc)) = true := by
          rw [c1, decide_eq_true c2]; rfl
        rw [if_pos hc] at h
        rcases ih _ _ _ _ h with e | ⟨h1, h2, h3, h4⟩
        · right
          have e' : i = bv := Option.some.inj e
          subst e'
          exact ⟨Nat.le_refl _, by omega, c1, c2⟩
        · right
          refine ⟨by omega, by omega, h3, ?_⟩
          have : lab t bv < t.sendCost.getD i 0 := h4
          omega
      · have hc : ¬ (t.toVisit.getD i false && decide (t.sendCost.getD i 0 < bc)) = true := by
          rw [c1, decide_eq_false c2]; simp
        rw [if_neg hc] at h
        rcases ih _ _ _ _ h with e | ⟨h1, h2, h3, h4⟩
        · left; exact e
        · right; exact ⟨by omega, by omega, h3, h4⟩
    · have hc : ¬ (t.toVisit.getD i false && decide (t.sendCost.getD i 0 < bc)) = true := by
        rw [Bool.not_eq_true] at c1
        rw [c1]; simp
      rw [if_neg hc] at h
      rcases ih _ _ _ _ h with e | ⟨h1, h2, h3, h4⟩
      · left; exact e
      · right; exact ⟨by omega, by omega, h3, h4⟩

lemma pickVisit_none (t : Tree) : ∀ (k i : Nat) (best : Option Nat) (bc : Int),
    pickVisit t k i best bc = none →
    best = none ∧ ∀ j, i ≤ j → j < i + k → ¬ (vis t j = true ∧ lab t j < bc) := by
  intro k
  induction k with
  | zero =>
    intro i best bc h
    refine ⟨by simpa [pickVisit] using h, ?_⟩
    intro j h1 h2
    omega
  | succ k ih =>
    intro i best bc h
    unfold pickVisit at h
    by_cases hc : (t.toVisit.getD i false && decide (t.sendCost.getD i 0 < bc)) = true
    · rw [if_pos hc] at h
      have := (ih _ _ _ h).1
      exact absurd this (by simp)
    · rw [if_neg hc] at h
      obtain ⟨h1, h2⟩ := ih _ _ _ h
      refine ⟨h1, ?_⟩
      intro j hj1 hj2
      by_cases e : j = i
      · subst e
        intro ⟨a, b⟩
        apply hc
        have a' : t.toVisit.getD j false = true := a
        have b' : t.sendCost.getD j 0 < bc := b
        rw [a', decide_eq_true b']; rfl
      · exact h2 j (by omega) (by omega)

/-! ### `relax` -/

/-- relation between the tree before (`t`) and after (`t'`) the relaxation pass through `bv`
over the index range `[lo, hi)` -/
structure RelaxRel (remCapa : List Int) (w : Nat → Nat → Int) (bv lo hi : Nat) (t t' : Tree) : Prop where
  step : ∀ j, (lab t' j = lab t j ∧ par t' j = par t j ∧ vis t' j = vis t j) ∨
    (lo ≤ j ∧ j < hi ∧ remCapa.getD j 0 ≤ 0 ∧ w j bv + lab t bv < lab t j ∧
      lab t' j = w j bv + lab t bv ∧ par t' j = some bv ∧ vis t' j = true)
  scanned : ∀ j, lo ≤ j → j < hi → remCapa.getD j 0 ≤ 0 → lab t' j ≤ w j bv + lab t bv

lemma RelaxRel.le {remCapa : List Int} {w : Nat → Nat → Int} {bv lo hi : Nat} {t t' : Tree}
    (r : RelaxRel remCapa w bv lo hi t t') (j : Nat) : lab t' j ≤ lab t j := by
  rcases r.step j with ⟨h, _, _⟩ | ⟨_, _, _, h1, h2, _, _⟩
  · omega
  · omega

lemma relax_spec (n : Nat) (qs : Queues) (remCapa : List Int) (w : Nat → Nat → Int) (bv : Nat) (hbv : bv < n)
    (hw0 : w bv bv = 0 ∨ remCapa.getD bv 0 > 0)
    (mc : ∀ i, i < n → remCapa.getD i 0 ≤ 0 → movingCostQ qs i bv = .ok (w i bv)) :
    ∀ (k i : Nat) (t : Tree), i + k = n → TWF n t →
      ∃ t', relax qs remCapa bv k i t = .ok t' ∧ TWF n t' ∧ RelaxRel remCapa w bv i n t t' := by
  intro k
  induction k with
  | zero =>
    intro i t hik wf
    refine ⟨t, rfl, wf, ⟨fun j => Or.inl ⟨rfl, rfl, rfl⟩, ?_⟩⟩
    intro j h1 h2
    omega
  | succ k ih =>
    intro i t hik wf
    unfold relax
    by_cases hfree : remCapa.getD i 0 > 0
    · rw [if_pos hfree]
      obtain ⟨t', e, wf', r⟩ := ih (i + 1) t (by omega) wf
      refine ⟨t', e, wf', ⟨?_, ?_⟩⟩
      · intro j
        rcases r.step j with h | ⟨h1, h2⟩
        · exact Or.inl h
        · exact Or.inr ⟨by omega, h2⟩
      · intro j h1 h2 h3
        by_cases e : j = i
        · subst e; omega
        · exact r.scanned j (by omega) h2 h3
    · rw [if_neg hfree]
      have hfull : remCapa.getD i 0 ≤ 0 := by omega
      rw [mc i (by omega) hfull]
      simp only
      by_cases hc : w i bv + t.sendCost.getD bv 0 < t.sendCost.getD i 0
      · rw [if_pos hc]
        have hne : i ≠ bv := by
          intro e
          subst e
          rcases hw0 with h0 | h0
          · rw [h0] at hc; omega
          · omega
        have hil : i < n := by omega
        let t1 : Tree := { sendCost := t.sendCost.set i (w i bv + t.sendCost.getD bv 0),
                           parent := t.parent.set i (some bv),
                           toVisit := t.toVisit.set i true }
        have wf1 : TWF n t1 := ⟨by simp [t1, wf.lc], by simp [t1, wf.lp], by simp [t1, wf.lv]⟩
        have l1 : ∀ j, lab t1 j = if j = i then w i bv + lab t bv else lab t j := by
          intro j
          show (t.sendCost.set i (w i bv + t.sendCost.getD bv 0)).getD j 0 = _
          rw [getD_set_gen, wf.lc]
          by_cases e : j = i
          · simp only [e, hil, and_self, if_true]; rfl
          · simp only [e, false_and, if_false]; rfl
        have p1 : ∀ j, par t1 j = if j = i then some bv else par t j := by
          intro j
          show (t.parent.set i (some bv)).getD j none = _
          rw [getD_set_gen, wf.lp]
          by_cases e : j = i
          · simp only [e, hil, and_self, if_true]
          · simp only [e, false_and, if_false]; rfl
        have v1 : ∀ j, vis t1 j = if j = i then true else vis t j := by
          intro j
          show (t.toVisit.set i true).getD j false = _
          rw [getD_set_gen, wf.lv]
          by_cases e : j = i
          · simp only [e, hil, and_self, if_true]
          · simp only [e, false_and, if_false]; rfl
        have lbv : lab t1 bv = lab t bv := by
          rw [l1]; simp only [Ne.symm hne, if_false]
        obtain ⟨t', e, wf', r⟩ := ih (i + 1) t1 (by omega) wf1
        refine ⟨t', e, wf', ⟨?_, ?_⟩⟩
        · intro j
          by_cases ej : j = i
          · right
            subst ej
            have hc' : w j bv + lab t bv < lab t j := hc
            rcases r.step j with ⟨h1, h2, h3⟩ | ⟨h1, _⟩
            · rw [l1] at h1; rw [p1] at h2; rw [v1] at h3
              simp only [if_true] at h1 h2 h3
              exact ⟨Nat.le_refl _, hil, hfull, hc', h1, h2, h3⟩
            · omega
          · rcases r.step j with ⟨h1, h2, h3⟩ | ⟨h1, h2, h3, h4, h5, h6, h7⟩
            · left
              rw [l1] at h1; rw [p1] at h2; rw [v1] at h3
              simp only [ej, if_false] at h1 h2 h3
              exact ⟨h1, h2, h3⟩
            · right
              rw [lbv] at h4 h5
              rw [l1] at h4
              simp only [ej, if_false] at h4
              exact ⟨by omega, h2, h3, h4, h5, h6, h7⟩
        · intro j h1 h2 h3
          by_cases ej : j = i
          · subst ej
            have := r.le j
            rw [l1] at this
            simp only [if_true] at this
            exact this
          · have := r.scanned j (by omega) h2 h3
            rw [lbv] at this
            exact this
      · rw [if_neg hc]
        obtain ⟨t', e, wf', r⟩ := ih (i + 1) t (by omega) wf
        refine ⟨t', e, wf', ⟨?_, ?_⟩⟩
        · intro j
          rcases r.step j with h | ⟨h1, h2⟩
          · exact Or.inl h
          · exact Or.inr ⟨by omega, h2⟩
        · intro j h1 h2 h3
          by_cases ej : j = i
          · subst ej
            have := r.le j
            have hc' : ¬ (w j bv + lab t bv < lab t j) := hc
            omega
          · exact r.scanned j (by omega) h2 h3

end ColoVerif.Transp
