import ColoVerif.Proofs.DetReorderPerm
/-
`RowReordering`, part 4: the enumeration over two stores that simulate each other runs in lock step —
same orders, same leaves with the same values, same best-so-far fields, same ghost flags — and the two
stores stay related.  Instantiated in Proofs/DetReorderPlacer.lean with the coordinate vectors
(`pureStore (circuitValue c)`) and the two incremental net models (`modelStore`).
-/
namespace ColoVerif.DetPlace

variable {σ1 σ2 : Type}

/-- `R` relates two stores; both `updateCellPos` (on cells satisfying `ok`) keep them related and related
stores have the same value -/
structure StoreSim (S1 : Store σ1) (S2 : Store σ2) (R : σ1 → σ2 → Prop) (ok : Int → Prop) : Prop where
  setX : ∀ a b c v, R a b → ok c → R (S1.setX a c v) (S2.setX b c v)
  setY : ∀ a b c v, R a b → ok c → R (S1.setY a c v) (S2.setY b c v)
  value : ∀ a b, R a b → S1.value a = S2.value b

/-- everything but the store -/
def RowReord.core {σ : Type} (rr : RowReord σ) : RowReord Unit :=
  ⟨rr.regions, rr.cells, rr.order, rr.positions, rr.bestVal, rr.bestOrder, rr.bestPositions, rr.improvement, (),
   rr.leaves, rr.fuelOut, rr.assertFail⟩

structure Sim (R : σ1 → σ2 → Prop) (ok : Int → Prop) (a : RowReord σ1) (b : RowReord σ2) : Prop where
  core : a.core = b.core
  store : R a.store b.store
  okOrder : ∀ l ∈ a.order, ∀ c ∈ l, ok c
  okCells : ∀ c ∈ a.cells, ok c

theorem core_fields {σ τ : Type} {a : RowReord σ} {b : RowReord τ} (h : a.core = b.core) :
    a.regions = b.regions ∧ a.cells = b.cells ∧ a.order = b.order ∧ a.positions = b.positions ∧
    a.bestVal = b.bestVal ∧ a.bestOrder = b.bestOrder ∧ a.bestPositions = b.bestPositions ∧
    a.improvement = b.improvement ∧ a.leaves = b.leaves ∧ a.fuelOut = b.fuelOut ∧ a.assertFail = b.assertFail := by
  unfold RowReord.core at h
  injection h with h1 h2 h3 h4 h5 h6 h7 h8 _ h10 h11 h12
  exact ⟨h1, h2, h3, h4, h5, h6, h7, h8, h10, h11, h12⟩

theorem core_of_fields {σ τ : Type} {a : RowReord σ} {b : RowReord τ}
    (h : a.regions = b.regions ∧ a.cells = b.cells ∧ a.order = b.order ∧ a.positions = b.positions ∧
    a.bestVal = b.bestVal ∧ a.bestOrder = b.bestOrder ∧ a.bestPositions = b.bestPositions ∧
    a.improvement = b.improvement ∧ a.leaves = b.leaves ∧ a.fuelOut = b.fuelOut ∧ a.assertFail = b.assertFail) :
    a.core = b.core := by
  obtain ⟨h1, h2, h3, h4, h5, h6, h7, h8, h10, h11, h12⟩ := h
  unfold RowReord.core
  rw [h1, h2, h3, h4, h5, h6, h7, h8, h10, h11, h12]

variable {S1 : Store σ1} {S2 : Store σ2} {R : σ1 → σ2 → Prop} {ok : Int → Prop}

theorem packStore_sim (hS : StoreSim S1 S2 R ok) (s : State) : ∀ (l : List Int) (pos : Int) (a : σ1) (b : σ2),
    R a b → (∀ c ∈ l, ok c) → R (packStore S1 s pos l a) (packStore S2 s pos l b)
  | [], _, _, _, h, _ => h
  | c :: cs, pos, a, b, h, hok =>
    packStore_sim hS s cs _ _ _ (hS.setX a b c pos h (hok c (List.mem_cons_self ..)))
      (fun d hd => hok d (List.mem_cons_of_mem _ hd))

theorem evalLeaf_sim (hS : StoreSim S1 S2 R ok) {a : RowReord σ1} {b : RowReord σ2} (h : Sim R ok a b) :
    Sim R ok (evalLeaf S1 a) (evalLeaf S2 b) := by
  have hcore := core_fields h.core
  have hst := h.store
  have hoo := h.okOrder
  have hcc := h.okCells
  obtain ⟨ar, ac, ao, ap, abv, abo, abp, ai, ast, al, af, aa⟩ := a
  obtain ⟨br, bc, bo, bp, bbv, bbo, bbp, bi, bst, bl, bf, ba⟩ := b
  simp only at hcore hst hoo hcc
  obtain ⟨h1, h2, h3, h4, h5, h6, h7, h8, h10, h11, h12⟩ := hcore
  subst h1 h2 h3 h4 h5 h6 h7 h8 h10 h11 h12
  have hv := hS.value _ _ hst
  unfold evalLeaf
  simp only [hv]
  split
  · exact ⟨rfl, hst, hoo, hcc⟩
  · exact ⟨rfl, hst, hoo, hcc⟩

theorem setupRow_sim (hS : StoreSim S1 S2 R ok) (s : State) (j : Nat) (o : List Int) {a : RowReord σ1} {b : RowReord σ2}
    (h : Sim R ok a b) (ho : ∀ c ∈ o, ok c) : Sim R ok (setupRow S1 s j o a) (setupRow S2 s j o b) := by
  have hcore := core_fields h.core
  have hst := h.store
  have hoo := h.okOrder
  have hcc := h.okCells
  obtain ⟨ar, ac, ao, ap, abv, abo, abp, ai, ast, al, af, aa⟩ := a
  obtain ⟨br, bc, bo, bp, bbv, bbo, bbp, bi, bst, bl, bf, ba⟩ := b
  simp only at hcore hst hoo hcc
  obtain ⟨h1, h2, h3, h4, h5, h6, h7, h8, h10, h11, h12⟩ := hcore
  subst h1 h2 h3 h4 h5 h6 h7 h8 h10 h11 h12
  refine ⟨rfl, packStore_sim hS s o _ _ _ hst ho, ?_, hcc⟩
  intro l hl c hc
  have hl' : l ∈ ao.set j o := hl
  rcases List.mem_or_eq_of_mem_set hl' with hl' | rfl
  · exact hoo l hl' c hc
  · exact ho c hc

theorem order_mem_ok {a : RowReord σ1} {b : RowReord σ2} (h : Sim R ok a b) (j : Nat) :
    ∀ c ∈ (nextPerm (a.order.getD j [])).2, ok c := by
  intro c hc
  have hc' : c ∈ a.order.getD j [] := nextPerm_mem.1 hc
  by_cases hj : j < a.order.length
  · have : a.order.getD j [] = a.order[j] := by simp [List.getD_eq_getElem?_getD, hj]
    rw [this] at hc'
    exact h.okOrder _ (List.getElem_mem hj) c hc'
  · have : a.order.getD j [] = [] := by simp [List.getD_eq_getElem?_getD, Nat.le_of_not_lt hj]
    rw [this] at hc'; simp at hc'

theorem permLoop_exit_sim (j : Nat) {a : RowReord σ1} {b : RowReord σ2} (h : Sim R ok a b) :
    Sim R ok { a with order := a.order.set j (nextPerm (a.order.getD j [])).2 }
             { b with order := b.order.set j (nextPerm (b.order.getD j [])).2 } := by
  have hmem := order_mem_ok h j
  have hcore := core_fields h.core
  have hst := h.store
  have hoo := h.okOrder
  have hcc := h.okCells
  obtain ⟨ar, ac, ao, ap, abv, abo, abp, ai, ast, al, af, aa⟩ := a
  obtain ⟨br, bc, bo, bp, bbv, bbo, bbp, bi, bst, bl, bf, ba⟩ := b
  simp only at hcore hst hoo hcc
  obtain ⟨h1, h2, h3, h4, h5, h6, h7, h8, h10, h11, h12⟩ := hcore
  subst h1 h2 h3 h4 h5 h6 h7 h8 h10 h11 h12
  refine ⟨rfl, hst, ?_, hcc⟩
  intro l hl c hc
  have hl' : l ∈ ao.set j (nextPerm (ao.getD j [])).2 := hl
  rcases List.mem_or_eq_of_mem_set hl' with hl' | rfl
  · exact hoo l hl' c hc
  · exact hmem c hc

theorem permLoop_fuel_sim {a : RowReord σ1} {b : RowReord σ2} (h : Sim R ok a b) :
    Sim R ok { a with fuelOut := true } { b with fuelOut := true } := by
  have hcore := core_fields h.core
  have hst := h.store
  have hoo := h.okOrder
  have hcc := h.okCells
  obtain ⟨ar, ac, ao, ap, abv, abo, abp, ai, ast, al, af, aa⟩ := a
  obtain ⟨br, bc, bo, bp, bbv, bbo, bbp, bi, bst, bl, bf, ba⟩ := b
  simp only at hcore hst hoo hcc
  obtain ⟨h1, h2, h3, h4, h5, h6, h7, h8, h10, h11, h12⟩ := hcore
  subst h1 h2 h3 h4 h5 h6 h7 h8 h10 h11 h12
  exact ⟨rfl, hst, hoo, hcc⟩

theorem permLoop_sim (hS : StoreSim S1 S2 R ok) (s : State) (rec1 : RowReord σ1 → RowReord σ1)
    (rec2 : RowReord σ2 → RowReord σ2) (hrec : ∀ a b, Sim R ok a b → Sim R ok (rec1 a) (rec2 b)) (j : Nat) :
    ∀ (fuel : Nat) (a : RowReord σ1) (b : RowReord σ2), Sim R ok a b →
      Sim R ok (permLoop S1 s rec1 j fuel a) (permLoop S2 s rec2 j fuel b)
  | 0, a, b, h => by
    unfold permLoop
    exact permLoop_fuel_sim h
  | fuel + 1, a, b, h => by
    have hord : b.order = a.order := (core_fields h.core).2.2.1.symm
    unfold permLoop
    rw [hord]
    split
    · exact permLoop_sim hS s rec1 rec2 hrec j fuel _ _ (hrec _ _ (setupRow_sim hS s j _ h (order_mem_ok h j)))
    · have := permLoop_exit_sim j h
      rw [hord] at this
      exact this

theorem runOrdering_sim (hS : StoreSim S1 S2 R ok) (s : State) : ∀ (j : Nat) (a : RowReord σ1) (b : RowReord σ2),
    Sim R ok a b → Sim R ok (runOrdering S1 s j a) (runOrdering S2 s j b)
  | 0, a, b, h => by unfold runOrdering; exact evalLeaf_sim hS h
  | j + 1, a, b, h => by
    unfold runOrdering
    rw [(core_fields h.core).2.2.1]
    exact permLoop_sim hS s _ _ (fun x y hxy => runOrdering_sim hS s j x y hxy) j _ a b h

theorem modify_mem_ok {L : List (List Int)} {i : Nat} {f : List Int → List Int} (hL : ∀ l ∈ L, ∀ d ∈ l, ok d)
    (hf : ∀ l, (∀ d ∈ l, ok d) → ∀ d ∈ f l, ok d) : ∀ l ∈ L.modify i f, ∀ d ∈ l, ok d := by
  intro l hl d hd
  obtain ⟨n, hn⟩ := List.getElem?_of_mem hl
  rw [List.getElem?_modify] at hn
  cases hx : L[n]? with
  | none => rw [hx] at hn; simp at hn
  | some x =>
    rw [hx] at hn
    have hxm : x ∈ L := List.mem_of_getElem? hx
    by_cases hin : i = n
    · simp [hin] at hn; subst hn
      exact hf x (hL x hxm) d hd
    · simp [hin] at hn; subst hn; exact hL x hxm d hd

theorem popBack_sim (i : Nat) (c : Int) {a : RowReord σ1} {b : RowReord σ2} (h : Sim R ok a b) :
    Sim R ok (popBack i c a) (popBack i c b) := by
  have hcore := core_fields h.core
  have hst := h.store
  have hoo := h.okOrder
  have hcc := h.okCells
  obtain ⟨ar, ac, ao, ap, abv, abo, abp, ai, ast, al, af, aa⟩ := a
  obtain ⟨br, bc, bo, bp, bbv, bbo, bbp, bi, bst, bl, bf, ba⟩ := b
  simp only at hcore hst hoo hcc
  obtain ⟨h1, h2, h3, h4, h5, h6, h7, h8, h10, h11, h12⟩ := hcore
  subst h1 h2 h3 h4 h5 h6 h7 h8 h10 h11 h12
  refine ⟨rfl, hst, ?_, hcc⟩
  exact modify_mem_ok hoo (fun l hl d hd => hl d (List.dropLast_subset l hd))

theorem pushBack_sim (i : Nat) (c : Int) (hc : ok c) {a : RowReord σ1} {b : RowReord σ2} (h : Sim R ok a b) :
    Sim R ok (pushBack i c a) (pushBack i c b) := by
  have hcore := core_fields h.core
  have hst := h.store
  have hoo := h.okOrder
  have hcc := h.okCells
  obtain ⟨ar, ac, ao, ap, abv, abo, abp, ai, ast, al, af, aa⟩ := a
  obtain ⟨br, bc, bo, bp, bbv, bbo, bbp, bi, bst, bl, bf, ba⟩ := b
  simp only at hcore hst hoo hcc
  obtain ⟨h1, h2, h3, h4, h5, h6, h7, h8, h10, h11, h12⟩ := hcore
  subst h1 h2 h3 h4 h5 h6 h7 h8 h10 h11 h12
  refine ⟨rfl, hst, ?_, hcc⟩
  apply modify_mem_ok hoo
  intro l hl d hd
  rcases List.mem_append.1 hd with hd | hd
  · exact hl d hd
  · simp at hd; subst hd; exact hc

theorem tellY_sim (hS : StoreSim S1 S2 R ok) (c y : Int) (hc : ok c) {a : RowReord σ1} {b : RowReord σ2} (h : Sim R ok a b) :
    Sim R ok (tellY S1 c y a) (tellY S2 c y b) := by
  have hcore := core_fields h.core
  have hst := h.store
  have hoo := h.okOrder
  have hcc := h.okCells
  obtain ⟨ar, ac, ao, ap, abv, abo, abp, ai, ast, al, af, aa⟩ := a
  obtain ⟨br, bc, bo, bp, bbv, bbo, bbp, bi, bst, bl, bf, ba⟩ := b
  simp only at hcore hst hoo hcc
  obtain ⟨h1, h2, h3, h4, h5, h6, h7, h8, h10, h11, h12⟩ := hcore
  subst h1 h2 h3 h4 h5 h6 h7 h8 h10 h11 h12
  exact ⟨rfl, hS.setY _ _ c y hst hc, hoo, hcc⟩

theorem regionStep_sim (hS : StoreSim S1 S2 R ok) (s : State) (rec1 : RowReord σ1 → RowReord σ1)
    (rec2 : RowReord σ2 → RowReord σ2) (c : Int) (hc : ok c)
    (i : Nat) {a : RowReord σ1} {b : RowReord σ2} (h : Sim R ok a b)
    (hrec : ∀ x y, Sim R ok x y → x.cells = a.cells → Sim R ok (rec1 x) (rec2 y)) :
    Sim R ok (regionStep S1 s rec1 c a i) (regionStep S2 s rec2 c b i) := by
  have ho : b.order = a.order := (core_fields h.core).2.2.1.symm
  have hr : b.regions = a.regions := (core_fields h.core).1.symm
  unfold regionStep
  rw [ho, hr]
  apply popBack_sim
  split
  · exact hrec _ _ (tellY_sim hS c _ hc (pushBack_sim i c hc h)) rfl
  · exact pushBack_sim i c hc h

theorem regionStep_cells (S : Store σ1) (s : State) (rec : RowReord σ1 → RowReord σ1)
    (hrec : ∀ a, (rec a).cells = a.cells) (c : Int) (a : RowReord σ1) (i : Nat) :
    (regionStep S s rec c a i).cells = a.cells := by
  unfold regionStep
  split
  · exact hrec _
  · rfl

theorem permLoop_cells (S : Store σ1) (s : State) (rec : RowReord σ1 → RowReord σ1)
    (hrec : ∀ a, (rec a).cells = a.cells) (j : Nat) : ∀ (fuel : Nat) (a : RowReord σ1),
    (permLoop S s rec j fuel a).cells = a.cells
  | 0, _ => rfl
  | fuel + 1, a => by
    unfold permLoop
    split
    · rw [permLoop_cells S s rec hrec j fuel, hrec]; rfl
    · rfl

theorem runOrdering_cells (S : Store σ1) (s : State) : ∀ (j : Nat) (a : RowReord σ1), (runOrdering S s j a).cells = a.cells
  | 0, a => by unfold runOrdering evalLeaf; split <;> rfl
  | j + 1, a => by
    unfold runOrdering
    exact permLoop_cells S s _ (runOrdering_cells S s j) j _ a

theorem foldl_regionStep_cells (S : Store σ1) (s : State) (rec : RowReord σ1 → RowReord σ1)
    (hrec : ∀ a, (rec a).cells = a.cells) (c : Int) : ∀ (is : List Nat) (a : RowReord σ1),
    (is.foldl (regionStep S s rec c) a).cells = a.cells
  | [], _ => rfl
  | i :: is, a => by
    simp only [List.foldl_cons]
    rw [foldl_regionStep_cells S s rec hrec c is, regionStep_cells S s rec hrec]

theorem runRegionChoice_cells (S : Store σ1) (s : State) : ∀ (k : Nat) (a : RowReord σ1),
    (runRegionChoice S s k a).cells = a.cells
  | 0, a => by unfold runRegionChoice; exact runOrdering_cells S s _ a
  | k + 1, a => by
    unfold runRegionChoice
    exact foldl_regionStep_cells S s _ (runRegionChoice_cells S s k) _ _ a

theorem runRegionChoice_sim (hS : StoreSim S1 S2 R ok) (s : State) : ∀ (k : Nat) (a : RowReord σ1) (b : RowReord σ2),
    k ≤ a.cells.length → Sim R ok a b → Sim R ok (runRegionChoice S1 s k a) (runRegionChoice S2 s k b)
  | 0, a, b, _, h => by
    unfold runRegionChoice
    rw [(core_fields h.core).1]
    exact runOrdering_sim hS s _ a b h
  | k + 1, a, b, hk, h => by
    unfold runRegionChoice
    obtain ⟨h1, h2, _⟩ := core_fields h.core
    rw [← h1, ← h2]
    have hc : ok (a.cells.getD k 0) := by
      have hlt : k < a.cells.length := by omega
      have : a.cells.getD k 0 = a.cells[k] := by simp [List.getD_eq_getElem?_getD, hlt]
      rw [this]; exact h.okCells _ (List.getElem_mem hlt)
    have loop : ∀ (is : List Nat) (x : RowReord σ1) (y : RowReord σ2), Sim R ok x y → k ≤ x.cells.length →
        Sim R ok (is.foldl (regionStep S1 s (runRegionChoice S1 s k) (a.cells.getD k 0)) x)
                 (is.foldl (regionStep S2 s (runRegionChoice S2 s k) (a.cells.getD k 0)) y) := by
      intro is
      induction is with
      | nil => intro x y hxy _; exact hxy
      | cons i is ih =>
        intro x y hxy hkx
        simp only [List.foldl_cons]
        apply ih
        · exact regionStep_sim hS s _ _ _ hc i hxy (fun p q hpq hcells =>
            runRegionChoice_sim hS s k p q (by rw [hcells]; exact hkx) hpq)
        · rw [regionStep_cells S1 s _ (runRegionChoice_cells S1 s k)]; exact hkx
    exact loop _ a b h (by omega)

end ColoVerif.DetPlace
