import ColoVerif.Proofs.DetPlaceInitOk
import ColoVerif.Proofs.DetPlaceFrame
/-
Legality read off the invariant (helper lemmas for Properties/C02 `inv_legal`).

Part A (core reasoning on `Inv` only): the neighbour-wise order of `LinkOk` is transitive along the
links — any two cells of a row are apart, and every cell of a row lies between the row's ends.
Every placed cell is reached from its row's first cell by `next` links (induction on the number of
cells of the row that lie to its left).

Part B: the exported circuit is legal in C01's sense.
-/
namespace ColoVerif.DetPlace
open State

/-! ### Part A: order along the links -/

/-- `d` is reached from `c` by following `next` links through real cells -/
inductive Reach (s : State) (c : Int) : Int → Prop
  | refl : Reach s c c
  | tail {d : Int} : Reach s c d → s.next d ≠ -1 → Reach s c (s.next d)

theorem Reach.order {s : State} (h : Inv s) {c d : Int} (hc : s.validCell c) (hp : s.row c ≠ -1)
    (r : Reach s c d) : s.validCell d ∧ s.row d = s.row c ∧ (d = c ∨ s.x c + s.width c ≤ s.x d) := by
  induction r with
  | refl => exact ⟨hc, rfl, Or.inl rfl⟩
  | tail r hn ih =>
    rename_i d
    obtain ⟨vd, rd, od⟩ := ih
    have L := h.link vd
    unfold LinkOk at L
    have hpd : s.row d ≠ -1 := by rw [rd]; exact hp
    obtain ⟨vn, rn, xn, _⟩ := (L.2.2 hpd).2.2.1 hn
    have wd := h.placed_width vd hpd
    refine ⟨vn, rn.trans rd, Or.inr ?_⟩
    rcases od with e | od
    · rw [← e]; exact xn
    · omega

theorem Reach.head_cases {s : State} {c d : Int} (r : Reach s c d) :
    d = c ∨ (s.next c ≠ -1 ∧ Reach s (s.next c) d) := by
  induction r with
  | refl => exact Or.inl rfl
  | tail r hn ih =>
    rcases ih with e | ⟨h1, h2⟩
    · right
      rw [e] at hn ⊢
      exact ⟨hn, Reach.refl⟩
    · exact Or.inr ⟨h1, Reach.tail h2 hn⟩

theorem Reach.total {s : State} {a c d : Int} (r1 : Reach s a c) (r2 : Reach s a d) :
    Reach s c d ∨ Reach s d c := by
  induction r1 with
  | refl => exact Or.inl r2
  | tail r1 hn ih =>
    rcases ih with h | h
    · rcases h.head_cases with e | ⟨_, h2⟩
      · right
        rw [e]
        exact Reach.tail Reach.refl hn
      · exact Or.inl h2
    · exact Or.inr (Reach.tail h hn)

theorem countP_lt {α : Type} {p q : α → Bool} : ∀ {l : List α}, (∀ a ∈ l, p a = true → q a = true) →
    ∀ a ∈ l, q a = true → p a = false → l.countP p < l.countP q
  | [], _, a, ha, _, _ => by simp at ha
  | b :: l, hpq, a, ha, hq, hp => by
    rw [List.countP_cons, List.countP_cons]
    have hmono : l.countP p ≤ l.countP q := List.countP_mono_left (fun x hx => hpq x (List.mem_cons_of_mem _ hx))
    rcases List.mem_cons.mp ha with e | ha'
    · rw [← e]
      simp only [hp, hq, if_true, Bool.false_eq_true, if_false]
      omega
    · have := countP_lt (fun x hx => hpq x (List.mem_cons_of_mem _ hx)) a ha' hq hp
      have hb := hpq b (by simp)
      cases hpb : p b <;> cases hqb : q b <;> simp [hpb, hqb] at hb ⊢ <;> omega

/-- number of cells of row `r` strictly left of abscissa `v` -/
def rank (s : State) (r v : Int) : Nat :=
  (List.range s.nCells).countP (fun d : Nat => decide (s.row (d : Int) = r ∧ s.x (d : Int) < v))

theorem rank_lt {s : State} {p c : Int} (vp : s.validCell p) (hr : s.row p = s.row c) (hx : s.x p < s.x c) :
    rank s (s.row p) (s.x p) < rank s (s.row c) (s.x c) := by
  unfold rank
  unfold validCell at vp
  apply countP_lt (a := p.toNat)
  · intro a _ ha
    simp only [decide_eq_true_eq] at ha ⊢
    omega
  · rw [List.mem_range]; omega
  · have e : ((p.toNat : Nat) : Int) = p := by omega
    simp only [decide_eq_true_eq, e]
    exact ⟨hr, hx⟩
  · have e : ((p.toNat : Nat) : Int) = p := by omega
    simp only [decide_eq_false_iff_not, e]
    omega

theorem reach_first_aux {s : State} (h : Inv s) : ∀ (n : Nat) (c : Int), rank s (s.row c) (s.x c) < n →
    s.validCell c → s.row c ≠ -1 →
    s.validCell (s.rowFirst (s.row c)) ∧ Reach s (s.rowFirst (s.row c)) c
  | 0, _, hn, _, _ => by omega
  | n + 1, c, hn, vc, hp => by
    have L := h.link vc
    unfold LinkOk at L
    by_cases hpr : s.pred c = -1
    · have := ((L.2.2 hp).2.1 hpr).1
      rw [this]
      exact ⟨vc, Reach.refl⟩
    · obtain ⟨vp, rp, xp, np⟩ := (L.2.2 hp).1 hpr
      have hpp : s.row (s.pred c) ≠ -1 := by rw [rp]; exact hp
      have wp := h.placed_width vp hpp
      have hlt := rank_lt (s := s) vp rp (by omega)
      obtain ⟨vf, rf⟩ := reach_first_aux h n (s.pred c) (by omega) vp hpp
      rw [rp] at vf rf
      have hne : s.next (s.pred c) ≠ -1 := by rw [np]; unfold validCell at vc; omega
      have := Reach.tail rf hne
      rw [np] at this
      exact ⟨vf, this⟩

/-- every placed cell is reached from the first cell of its row -/
theorem reach_first {s : State} (h : Inv s) {c : Int} (vc : s.validCell c) (hp : s.row c ≠ -1) :
    s.validCell (s.rowFirst (s.row c)) ∧ Reach s (s.rowFirst (s.row c)) c :=
  reach_first_aux h _ c (Nat.lt_succ_self _) vc hp

/-- **any two cells of a row are apart** (transitivity of the neighbour order along the links) -/
theorem row_order {s : State} (h : Inv s) {c d : Int} (vc : s.validCell c) (vd : s.validCell d)
    (hp : s.row c ≠ -1) (hr : s.row d = s.row c) (hne : c ≠ d) :
    s.x c + s.width c ≤ s.x d ∨ s.x d + s.width d ≤ s.x c := by
  have r1 := (reach_first h vc hp).2
  have r2 := (reach_first h vd (by rw [hr]; exact hp)).2
  rw [hr] at r2
  rcases r1.total r2 with r | r
  · rcases (r.order h vc hp).2.2 with e | e
    · exact absurd e.symm hne
    · exact Or.inl e
  · rcases (r.order h vd (by rw [hr]; exact hp)).2.2 with e | e
    · exact absurd e hne
    · exact Or.inr e

/-- **every cell of a row lies between the row's ends** -/
theorem row_bounds {s : State} (h : Inv s) {c : Int} (vc : s.validCell c) (hp : s.row c ≠ -1) :
    s.rowMinX (s.row c) ≤ s.x c ∧ s.x c + s.width c ≤ s.rowMaxX (s.row c) := by
  obtain ⟨vf, rf⟩ := reach_first h vc hp
  have vr := h.placed_row vc hp
  have R := h.rowok vr
  unfold RowOk at R
  have hf : s.rowFirst (s.row c) ≠ -1 := by unfold validCell at vf; omega
  obtain ⟨_, vl, rowf, predf, rowl, nextl⟩ := R.2 hf
  have wc := h.placed_width vc hp
  constructor
  · have Lf := h.link vf
    unfold LinkOk at Lf
    have hpf : s.row (s.rowFirst (s.row c)) ≠ -1 := by rw [rowf]; exact hp
    have b := ((Lf.2.2 hpf).2.1 predf).2
    rw [rowf] at b
    have wf := h.placed_width vf hpf
    rcases (rf.order h vf hpf).2.2 with e | e
    · have := congrArg s.x e; omega
    · omega
  · have hpl : s.row (s.rowLast (s.row c)) ≠ -1 := by rw [rowl]; exact hp
    have Ll := h.link vl
    unfold LinkOk at Ll
    have b := ((Ll.2.2 hpl).2.2.2 nextl).2
    rw [rowl] at b
    have wl := h.placed_width vl hpl
    have rl := (reach_first h vl hpl).2
    rw [rowl] at rl
    rcases rf.total rl with r | r
    · rcases (r.order h vc hp).2.2 with e | e
      · have := congrArg s.x e; have := congrArg s.width e; omega
      · omega
    · rcases r.head_cases with e | ⟨e, _⟩
      · have := congrArg s.x e; have := congrArg s.width e; omega
      · exact absurd nextl e

/-! ### Part A': the linked representation and the list view `rowCells` agree -/

/-- `Reach` with the number of links followed -/
inductive ReachN (s : State) (c : Int) : Nat → Int → Prop
  | zero : ReachN s c 0 c
  | succ {k : Nat} {d : Int} : ReachN s c k d → s.next d ≠ -1 → ReachN s c (k + 1) (s.next d)

theorem ReachN.reach {s : State} {c d : Int} {k : Nat} (r : ReachN s c k d) : Reach s c d := by
  induction r with
  | zero => exact Reach.refl
  | succ _ hn ih => exact Reach.tail ih hn

theorem Reach.reachN {s : State} {c d : Int} (r : Reach s c d) : ∃ k, ReachN s c k d := by
  induction r with
  | refl => exact ⟨0, ReachN.zero⟩
  | tail _ hn ih => obtain ⟨k, hk⟩ := ih; exact ⟨k + 1, ReachN.succ hk hn⟩

theorem ReachN.head_cases {s : State} {c d : Int} {k : Nat} (r : ReachN s c k d) :
    (k = 0 ∧ d = c) ∨ (∃ k', k = k' + 1 ∧ s.next c ≠ -1 ∧ ReachN s (s.next c) k' d) := by
  induction r with
  | zero => exact Or.inl ⟨rfl, rfl⟩
  | succ r hn ih =>
    rename_i k d
    right
    rcases ih with ⟨e1, e2⟩ | ⟨k', e1, h1, h2⟩
    · subst e1
      rw [e2] at hn ⊢
      exact ⟨0, rfl, hn, ReachN.zero⟩
    · exact ⟨k' + 1, by omega, h1, ReachN.succ h2 hn⟩

/-- every link followed passes at least one more cell of the row on the left -/
theorem ReachN.rank_le {s : State} (h : Inv s) {c d : Int} {k : Nat} (hc : s.validCell c) (hp : s.row c ≠ -1)
    (r : ReachN s c k d) : rank s (s.row c) (s.x c) + k ≤ rank s (s.row d) (s.x d) := by
  induction r with
  | zero => omega
  | succ r hn ih =>
    rename_i k d
    obtain ⟨vd, rd, _⟩ := r.reach.order h hc hp
    have L := h.link vd
    unfold LinkOk at L
    have hpd : s.row d ≠ -1 := by rw [rd]; exact hp
    obtain ⟨_, rn, xn, _⟩ := (L.2.2 hpd).2.2.1 hn
    have wd := h.placed_width vd hpd
    have := rank_lt (s := s) (p := d) (c := s.next d) vd rn.symm (by omega)
    omega

theorem rank_lt_nCells {s : State} {d : Int} (vd : s.validCell d) : rank s (s.row d) (s.x d) < s.nCells := by
  unfold rank
  unfold validCell at vd
  have h1 : (List.range s.nCells).countP (fun e : Nat => decide (s.row (e : Int) = s.row d ∧ s.x (e : Int) < s.x d))
      < (List.range s.nCells).countP (fun _ => true) := by
    apply countP_lt (a := d.toNat)
    · intro _ _ _; rfl
    · rw [List.mem_range]; omega
    · rfl
    · have e : ((d.toNat : Nat) : Int) = d := by omega
      simp only [decide_eq_false_iff_not, e]
      omega
  have h2 : (List.range s.nCells).countP (fun _ => true) ≤ (List.range s.nCells).length := List.countP_le_length
  simpa using Nat.lt_of_lt_of_le h1 h2

theorem mem_chain {s : State} : ∀ (fuel : Nat) (c d : Int) (k : Nat), ReachN s c k d → k < fuel → c ≠ -1 →
    d ∈ s.chain fuel c
  | 0, _, _, _, _, hk, _ => by omega
  | fuel + 1, c, d, k, r, hk, hc => by
    simp only [State.chain, hc, if_false]
    rcases r.head_cases with ⟨_, e⟩ | ⟨k', e, hn, r'⟩
    · rw [e]; exact List.mem_cons_self
    · exact List.mem_cons_of_mem _ (mem_chain fuel (s.next c) d k' r' (by omega) hn)

theorem chain_sound {s : State} (h : Inv s) : ∀ (fuel : Nat) (c : Int), s.validCell c → s.row c ≠ -1 →
    (∀ d ∈ s.chain fuel c, Reach s c d) ∧ (s.chain fuel c).Pairwise (fun a b => s.x a + s.width a ≤ s.x b)
  | 0, _, _, _ => by simp [State.chain]
  | fuel + 1, c, vc, hp => by
    have hc : c ≠ -1 := by unfold validCell at vc; omega
    simp only [State.chain, hc, if_false]
    by_cases hn : s.next c = -1
    · rw [hn, chain_neg]
      exact ⟨fun d hd => by simp at hd; rw [hd]; exact Reach.refl, by simp⟩
    · have L := h.link vc
      unfold LinkOk at L
      obtain ⟨vn, rn, xn, _⟩ := (L.2.2 hp).2.2.1 hn
      have hpn : s.row (s.next c) ≠ -1 := by rw [rn]; exact hp
      have wc := h.placed_width vc hp
      obtain ⟨ih1, ih2⟩ := chain_sound h fuel (s.next c) vn hpn
      have step : ∀ d, Reach s (s.next c) d → Reach s c d := by
        intro d r
        induction r with
        | refl => exact Reach.tail Reach.refl hn
        | tail _ hn' ih => exact Reach.tail ih hn'
      constructor
      · intro d hd
        rcases List.mem_cons.mp hd with e | hd
        · rw [e]; exact Reach.refl
        · exact step d (ih1 d hd)
      · refine List.pairwise_cons.mpr ⟨?_, ih2⟩
        intro d hd
        rcases ((ih1 d hd).order h vn hpn).2.2 with e | e
        · rw [e]; exact xn
        · have wn := h.placed_width vn hpn
          omega

/-- **`links_wf`: the list view of a row is exactly the linked cells of that row**, in increasing x
without overlap: `rowCells r` (what `DetailedPlacement::rowCells` returns by following the `next`
links from `rowFirstCell_[r]`) contains precisely the valid cells whose `cellRow_` is `r` -/
theorem rowCells_spec {s : State} (h : Inv s) {r : Int} (hr : s.validRow r) :
    (∀ c, c ∈ s.rowCells r ↔ (s.validCell c ∧ s.row c = r)) ∧
    (s.rowCells r).Pairwise (fun a b => s.x a + s.width a ≤ s.x b) := by
  have R := h.rowok hr
  unfold RowOk at R
  unfold rowCells
  have hr1 : r ≠ -1 := by unfold validRow at hr; omega
  by_cases hf : s.rowFirst r = -1
  · rw [hf, chain_neg]
    refine ⟨fun c => ⟨fun hc => by simp at hc, fun ⟨vc, rc⟩ => ?_⟩, by simp⟩
    have := (reach_first h vc (by rw [rc]; exact hr1)).1
    rw [rc, hf] at this
    unfold validCell at this; omega
  · obtain ⟨vf, _, rowf, _, _, _⟩ := R.2 hf
    have hpf : s.row (s.rowFirst r) ≠ -1 := by rw [rowf]; exact hr1
    obtain ⟨snd, pw⟩ := chain_sound h (s.nCells + 1) (s.rowFirst r) vf hpf
    refine ⟨fun c => ⟨fun hc => ?_, fun ⟨vc, rc⟩ => ?_⟩, pw⟩
    · obtain ⟨v, rr, _⟩ := (snd c hc).order h vf hpf
      exact ⟨v, rr.trans rowf⟩
    · have rf := (reach_first h vc (by rw [rc]; exact hr1)).2
      rw [rc] at rf
      obtain ⟨k, rk⟩ := rf.reachN
      have h1 := rk.rank_le h vf hpf
      have h2 := rank_lt_nCells (s := s) vc
      exact mem_chain _ _ _ k rk (by omega) hf

/-! ### Part B.1: what no move changes (rows, sizes, polarities, turn status) -/

-- (sub-namespace: Proofs/OrientDetailed.lean has a different `Keep` for C04 in `ColoVerif.DetPlace`)
namespace Lg

/-- `t` has the rows, the number of cells and the polarities of `s`; an orientation is either kept or
is the (known) orientation a row of `s` demands for the cell's polarity -/
def Keep (s t : State) : Prop :=
  t.rows = s.rows ∧ t.nCells = s.nCells ∧ t.pol = s.pol ∧
  ∀ d, t.orient d = s.orient d ∨
    ∃ r : Int, t.orient d = cellOrientationInRow (s.pol d) (s.rowOrient r) ∧ t.orient d ≠ Orient.UNKNOWN

theorem Keep.refl (s : State) : Keep s s := ⟨rfl, rfl, rfl, fun _ => Or.inl rfl⟩

theorem rowOrient_congr {s t : State} (h : t.rows = s.rows) (r : Int) : t.rowOrient r = s.rowOrient r := by
  unfold rowOrient rowAt; rw [h]

theorem Keep.trans {s t u : State} (a : Keep s t) (b : Keep t u) : Keep s u := by
  obtain ⟨a1, a2, a3, a4⟩ := a
  obtain ⟨b1, b2, b3, b4⟩ := b
  refine ⟨b1.trans a1, b2.trans a2, b3.trans a3, fun d => ?_⟩
  rcases b4 d with e | ⟨r, e1, e2⟩
  · rw [e]; exact a4 d
  · right
    refine ⟨r, ?_, e2⟩
    rw [e1, a3, rowOrient_congr a1]

theorem unplace_keep (s : State) (c : Int) : Keep s (s.unplace c) := ⟨rfl, rfl, rfl, fun _ => Or.inl rfl⟩

theorem place_keep {s t : State} {c r p x : Int} (e : s.place c r p x = .ok t) : Keep s t := by
  obtain ⟨rfl, -⟩ := place_ok e
  refine ⟨rfl, rfl, rfl, fun d => ?_⟩
  by_cases hd : d = c
  · subst hd
    by_cases hu : cellOrientationInRow (s.pol d) (s.rowOrient r) = Orient.UNKNOWN
    · left; simp [placeRaw, placedOrient, hu]
    · right
      refine ⟨r, ?_, ?_⟩
      · simp [placeRaw, placedOrient, hu]
      · simp [placeRaw, placedOrient, hu]
  · left; simp [placeRaw, upd, hd]

theorem insert_keep {s t : State} {c r p : Int} (e : s.insert c r p = .ok t) : Keep s t := by
  unfold State.insert at e
  split at e
  · cases e
  · cases e
  · exact (unplace_keep s c).trans (place_keep e)

theorem place2_keep {s t : State} {a b ra pa xa rb pb xb : Int}
    (e : (s.place a ra pa xa).bind (fun u => u.place b rb pb xb) = .ok t) : Keep s t := by
  obtain ⟨u, e1, e2⟩ := bind_ok e
  exact (place_keep e1).trans (place_keep e2)

theorem swap_keep {s t : State} {c1 c2 : Int} (e : s.swap c1 c2 = .ok t) : Keep s t := by
  have f0 : Keep s ((s.unplace c1).unplace c2) := (unplace_keep s c1).trans (unplace_keep _ c2)
  unfold State.swap at e
  split at e
  · cases e
  · cases e
  · split at e
    · exact f0.trans (place2_keep e)
    · split at e
      · exact f0.trans (place2_keep e)
      · exact f0.trans (place2_keep e)

theorem shift_keep {s t : State} {mv : List (Int × Int)} (e : s.shift mv = .ok t) : Keep s t := by
  unfold shift at e
  split at e
  · injection e with e
    obtain ⟨f, ef, _⟩ := setXs_eq s mv
    rw [ef] at e; subst e
    exact ⟨rfl, rfl, rfl, fun _ => Or.inl rfl⟩
  · cases e

theorem unplaceAll_keep {s t : State} {cs : List Int} (e : s.unplaceAll cs = .ok t) : Keep s t := by
  induction cs generalizing s with
  | nil => simp [unplaceAll] at e; exact e ▸ Keep.refl s
  | cons c cs ih =>
    unfold unplaceAll at e
    split at e
    · exact (unplace_keep s c).trans (ih e)
    · cases e

theorem placeChain_keep {s t : State} {r p : Int} {l : List (Int × Int)}
    (e : s.placeChain r p l = .ok t) : Keep s t := by
  induction l generalizing s p with
  | nil => simp [placeChain] at e; exact e ▸ Keep.refl s
  | cons m rest ih =>
    obtain ⟨c, v⟩ := m
    unfold placeChain at e
    split at e
    · split at e
      · cases e
      · rename_i u eu
        exact (place_keep eu).trans (ih e)
    · cases e

theorem placeRegions_keep {s t : State} {gs : List Region} (e : s.placeRegions gs = .ok t) : Keep s t := by
  induction gs generalizing s with
  | nil => simp [placeRegions] at e; exact e ▸ Keep.refl s
  | cons g gs ih =>
    unfold placeRegions at e
    split at e
    · cases e
    · rename_i u eu
      exact (placeChain_keep eu).trans (ih e)

theorem reorder_keep {s t : State} {cells : List Int} {regions : List Region}
    (e : s.reorderWriteback cells regions = .ok t) : Keep s t := by
  unfold reorderWriteback at e
  split at e
  · cases e
  · rename_i u eu
    split at e
    · cases e
    · rename_i v ev
      split at e
      · injection e with e; exact e ▸ (unplaceAll_keep eu).trans (placeRegions_keep ev)
      · cases e

theorem step_keep {s t : State} {op : Op} (e : s.step op = .ok t) : Keep s t := by
  cases op with
  | swap c1 c2 =>
    simp only [step] at e
    split at e
    · exact swap_keep e
    · cases e
  | insert c r p =>
    simp only [step] at e
    split at e
    · exact insert_keep e
    · cases e
  | shift mv => exact shift_keep e
  | reorder cells regions => exact reorder_keep e

theorem run_keep {s t : State} {ops : List Op} (e : s.run ops = .ok t) : Keep s t := by
  induction ops generalizing s with
  | nil => simp [run] at e; exact e ▸ Keep.refl s
  | cons op ops ih =>
    unfold run at e
    split at e
    · cases e
    · rename_i u eu
      exact (step_keep eu).trans (ih e)

theorem coir_unturned (p : Polarity) (ro : Orient) (h : ro.isTurn = false) :
    (cellOrientationInRow p ro).isTurn = false := by
  cases p <;> cases ro <;> simp_all [cellOrientationInRow, Orient.isTurn, Orient.opposite]

/-- turn status is kept along moves when the rows are unturned and polarised cells start unturned -/
theorem Keep.turn {s t : State} (k : Keep s t) (hrows : ∀ r ∈ s.rows, r.orient.isTurn = false)
    (d : Int) (hpol : s.pol d ≠ Polarity.ANY → (s.orient d).isTurn = false) :
    (t.orient d).isTurn = (s.orient d).isTurn := by
  rcases k.2.2.2 d with e | ⟨r, e1, e2⟩
  · rw [e]
  · have hro : (s.rowOrient r).isTurn = false := by
      unfold rowOrient rowAt
      split
      · rfl
      · rw [List.getD_eq_getElem?_getD]
        cases hg : s.rows[r.toNat]? with
        | none => rfl
        | some q => exact hrows q (List.mem_of_getElem? hg)
    have hp : s.pol d ≠ Polarity.ANY := by
      intro hp
      rw [hp] at e1
      exact e2 (by rw [e1]; rfl)
    rw [hpol hp, e1]
    exact coir_unturned _ _ hro

end Lg

/-! ### Part B.2: the state of a circuit, the exported circuit -/

/-- `s` is a state of the detailed placement of circuit `c` (row height `H`): rows and widths are
the constructor's, the cells that are not optimised sit where the circuit has them, and every cell has
the turn status it has in the circuit -/
structure StateOf (c : Circuit) (H : Int) (s : State) : Prop where
  rows : s.rows = sortRows (c.computeRows (ispdObstacles c H))
  nCells : s.nCells = c.cells.length
  width : ∀ (i : Nat) (cl : Cell), c.cells[i]? = some cl → s.width (i : Int) = ispdWidth H cl
  ign : ∀ (i : Nat) (cl : Cell), c.cells[i]? = some cl → ispdWidth H cl = -1 →
    s.x i = cl.x ∧ s.y i = cl.y ∧ s.orient i = cl.orient
  turn : ∀ (i : Nat) (cl : Cell), c.cells[i]? = some cl → (s.orient i).isTurn = cl.orient.isTurn

theorem ofList_map_nat {α β : Type} (d : β) (f : α → β) (l : List α) (i : Nat) (a : α)
    (h : l[i]? = some a) : ofList d (l.map f) (i : Int) = f a :=
  ofList_map_get d f l i a (by omega) (by simpa using h)

/-- every state reached from the constructor's by any history is a state of the circuit -/
theorem stateOf_of_run {c : Circuit} (hd : Legalize.DomL c) {s0 s : State} (e0 : fromIspdCircuit c = .ok s0)
    {ops : List Op} (e : s0.run ops = .ok s) :
    ∃ H, Circuit.rowHeight c = some H ∧ StateOf c H s := by
  obtain ⟨H, lists, hrh, B⟩ := fromIspdCircuit_built e0
  have hH0 : (Circuit.rowHeight c).getD 0 = H := by rw [hrh]; rfl
  obtain ⟨fw, fi⟩ := run_frame e
  have k := Lg.run_keep e
  refine ⟨H, hrh, ?_, ?_, ?_, ?_, ?_⟩
  · rw [k.1, B.rows]
  · rw [k.2.1, B.nCells]
  · intro i cl hg
    rw [fw, B.width, ofList_map_nat 0 _ c.cells i cl hg]
  · intro i cl hg hw
    have hw0 : s0.width i = -1 := by rw [B.width, ofList_map_nat 0 _ c.cells i cl hg]; exact hw
    obtain ⟨a1, a2, a3⟩ := fi i hw0
    rw [a1, a2, a3, B.x, B.y, B.orient, ofList_map_nat 0 (·.x) c.cells i cl hg, ofList_map_nat 0 (·.y) c.cells i cl hg,
      ofList_map_nat default (·.orient) c.cells i cl hg]
    exact ⟨rfl, rfl, rfl⟩
  · intro i cl hg
    have ho : s0.orient i = cl.orient := by rw [B.orient, ofList_map_nat default (·.orient) c.cells i cl hg]
    have hp : s0.pol i = cl.pol := by rw [B.pol, ofList_map_nat default (·.pol) c.cells i cl hg]
    by_cases hw : ispdWidth H cl = -1
    · have hw0 : s0.width i = -1 := by rw [B.width, ofList_map_nat 0 _ c.cells i cl hg]; exact hw
      rw [(fi i hw0).2.2, ho]
    · rw [← ho]
      apply k.turn
      · intro r hr
        rw [B.rows, mem_sortRows] at hr
        have := rowsOK_computeRows c hd (ispdObstacles c H)
        exact this.unturned r hr
      · intro hpol
        rw [ho]
        rw [hp] at hpol
        obtain ⟨hf, _, _⟩ := ispdWidth_live hw
        exact (hd.2.1 cl (List.mem_of_getElem? hg) hf).2.2.2 hpol

/-- the cell `exportPlacement` writes at index `i` -/
def newCell (s : State) (i : Nat) (cl : Cell) : Cell :=
  if cl.fixed then cl else { cl with x := s.x (i : Int), y := s.y (i : Int), orient := s.orient (i : Int) }

theorem export_get (s : State) (c : Circuit) (i : Nat) :
    (exportPlacement s c).cells[i]? = (c.cells[i]?).map (newCell s i) := by
  simp only [exportPlacement, List.getElem?_map, List.getElem?_zipIdx, Nat.zero_add]
  cases c.cells[i]? with
  | none => rfl
  | some cl => rfl

theorem newCell_fixed (s : State) (i : Nat) (cl : Cell) : (newCell s i cl).fixed = cl.fixed := by
  unfold newCell; split <;> rfl

theorem export_computeRows' (s : State) (c : Circuit) (extra : List Rect) :
    (exportPlacement s c).computeRows extra = c.computeRows extra := by
  have hlen : c.cells.length = (exportPlacement s c).cells.length := by simp [exportPlacement]
  have h := Circuit.obstacles_congr c (exportPlacement s c) (SameUpToIgnored.of_pointwise _ _ hlen (by
    intro i hi
    rw [List.getD_eq_getElem?_getD, List.getD_eq_getElem?_getD, export_get, List.getElem?_eq_getElem hi]
    simp only [Option.map_some, Option.getD_some]
    by_cases hf : (c.cells[i]).fixed = true
    · left; simp [newCell, hf]
    · right
      have hf' : (c.cells[i]).fixed = false := by simpa using hf
      simp [Cell.ignored, newCell_fixed, hf']))
  simp only [Circuit.computeRows, ← h]
  rfl

/-- a free segment w.r.t. more obstacles lies inside a free segment of `computeRows()` -/
theorem computeRows_coarsen (c : Circuit) (extra : List Rect) (seg : Row) (h : seg ∈ c.computeRows extra) :
    ∃ r ∈ c.computeRows, Legalize.SubRow seg r := by
  unfold Circuit.computeRows at h ⊢
  obtain ⟨R, hR, hs⟩ := List.mem_flatMap.mp h
  obtain ⟨iv', hiv', rfl⟩ := (Row.mem_freespace R _ seg).mp hs
  obtain ⟨iv, hiv, a1, a2⟩ := freeIntervals_coarsen R.rect extra c.obstacles iv' hiv'
  refine ⟨⟨⟨iv.1, iv.2, R.rect.minY, R.rect.maxY⟩, R.orient⟩, ?_, ⟨a1, a2, rfl, rfl, rfl⟩⟩
  exact List.mem_flatMap.mpr ⟨R, hR, (Row.mem_freespace R _ _).mpr ⟨iv, by simpa using hiv, rfl⟩⟩

/-! ### Part B.3: the exported circuit is legal -/

theorem ispdWidth_opt {H : Int} {cl : Cell} (hf : cl.fixed = false) (hh : cl.placedHeight = H) :
    ispdWidth H cl = cl.placedWidth := by
  unfold ispdWidth; simp [hf, hh]

theorem ispdWidth_multi {H : Int} {cl : Cell} (hh : cl.placedHeight ≠ H) : ispdWidth H cl = -1 := by
  unfold ispdWidth; split <;> simp [hh]

/-- an optimised cell of an invariant state with every optimised cell placed: it sits in one of the
sorted free segments, at the segment's y, inside its x-range -/
theorem opt_cell {c : Circuit} (hd : Legalize.DomL c) {H : Int} {s : State} (S : StateOf c H s) (hI : Inv s)
    (hap : s.allPlaced = true) (i : Nat) (cl : Cell) (hg : c.cells[i]? = some cl) (hf : cl.fixed = false)
    (hh : cl.placedHeight = H) :
    ∃ (k : Nat) (seg : Row), (sortRows (c.computeRows (ispdObstacles c H)))[k]? = some seg ∧ s.row i = k ∧
      s.y i = seg.rect.minY ∧ seg.rect.minX ≤ s.x i ∧ s.x i + cl.placedWidth ≤ seg.rect.maxX := by
  have hi : i < c.cells.length := (List.getElem?_eq_some_iff.mp hg).1
  have hw : s.width i = cl.placedWidth := by rw [S.width i cl hg, ispdWidth_opt hf hh]
  have hpw := (hd.2.1 cl (List.mem_of_getElem? hg) hf).1
  have vc : s.validCell i := by unfold validCell; rw [S.nCells]; omega
  have hp : s.row i ≠ -1 := by
    unfold allPlaced at hap
    rw [List.all_eq_true] at hap
    have := hap (i : Int) (by rw [mem_intsUpTo]; exact vc)
    simp only [Bool.or_eq_true, isIgnored, isPlaced, beq_iff_eq, bne_iff_ne, ne_eq] at this
    rcases this with h | h
    · omega
    · exact h
  have vr := hI.placed_row vc hp
  unfold validRow nRows at vr
  rw [S.rows] at vr
  have hk : (s.row i).toNat < (sortRows (c.computeRows (ispdObstacles c H))).length := by omega
  have hrow : s.rowAt (s.row i) = (sortRows (c.computeRows (ispdObstacles c H)))[(s.row i).toNat] := by
    unfold rowAt
    have : ¬ s.row i < 0 := by omega
    rw [if_neg this, S.rows, List.getD_eq_getElem?_getD, List.getElem?_eq_getElem hk]
    rfl
  have C := hI.cell vc
  unfold CellOk at C
  have hy := (C.2 hp).2.2.2
  obtain ⟨b1, b2⟩ := row_bounds hI vc hp
  unfold rowY at hy
  unfold rowMinX at b1
  unfold rowMaxX at b2
  rw [hrow] at hy b1 b2
  rw [hw] at b2
  exact ⟨(s.row i).toNat, _, List.getElem?_eq_getElem hk, by omega, hy, b1, b2⟩

/-- **Legality of every exposed state.**  For a circuit of C01's domain that is legal in C01's sense:
if `s` is a state of the circuit (`StateOf`: the constructor's rows and widths, unoptimised cells where
the circuit has them, turn status kept) that satisfies `Inv` and has every optimised cell placed, the
circuit written by `exportPlacement` is legal in C01's sense. -/
theorem export_legal {c : Circuit} (hd : Legalize.DomL c) (hl : Legalize.LegalL c) {H : Int}
    (hrh : Circuit.rowHeight c = some H) {s : State} (S : StateOf c H s) (hI : Inv s) (hap : s.allPlaced = true) :
    Legalize.LegalL (exportPlacement s c) := by
  have hH0 : (Circuit.rowHeight c).getD 0 = H := by rw [hrh]; rfl
  have hH : 0 < H := by rw [← hH0]; exact hd.1
  have hok : Legalize.RowsOK H (c.computeRows (ispdObstacles c H)) := by rw [← hH0]; exact rowsOK_computeRows c hd _
  have hoks := rowsOK_sort hok
  have hRr : Legalize.RowsOK H c.rows := by rw [← hH0]; exact rowsOK_rows c hd
  have hrh' : Circuit.rowHeight (exportPlacement s c) = some H := hrh
  -- the new cell at index i
  have sizes : ∀ (i : Nat) (cl : Cell), c.cells[i]? = some cl →
      (newCell s i cl).placedWidth = cl.placedWidth ∧ (newCell s i cl).placedHeight = cl.placedHeight := by
    intro i cl hg
    unfold newCell
    split
    · exact ⟨rfl, rfl⟩
    · have := S.turn i cl hg
      simp only [Cell.placedWidth, Cell.placedHeight, this]
      exact ⟨trivial, trivial⟩
  have multi : ∀ (i : Nat) (cl : Cell), c.cells[i]? = some cl → cl.fixed = false → cl.placedHeight ≠ H →
      newCell s i cl = cl := by
    intro i cl hg hf hh
    obtain ⟨a1, a2, a3⟩ := S.ign i cl hg (ispdWidth_multi hh)
    unfold newCell
    rw [a1, a2, a3, if_neg (by simp [hf])]
  have optPl : ∀ (i : Nat) (cl : Cell), c.cells[i]? = some cl → cl.fixed = false → cl.placedHeight = H →
      (newCell s i cl).placement = ⟨s.x i, s.x i + cl.placedWidth, s.y i, s.y i + H⟩ := by
    intro i cl hg hf hh
    obtain ⟨w1, w2⟩ := sizes i cl hg
    have e1 : (newCell s i cl).x = s.x i := by unfold newCell; simp [hf]
    have e2 : (newCell s i cl).y = s.y i := by unfold newCell; simp [hf]
    simp only [Cell.placement, w1, w2, e1, e2, hh]
  constructor
  · -- every strip inside a free segment
    intro H' hH' cl' hcl' hfix k hk0 hlt
    rw [hrh'] at hH'
    injection hH' with hH'
    subst hH'
    rw [export_computeRows' s c []]
    obtain ⟨i, hi⟩ := List.mem_iff_getElem?.mp hcl'
    rw [export_get] at hi
    cases hg : c.cells[i]? with
    | none => rw [hg] at hi; simp at hi
    | some cl =>
      rw [hg] at hi
      simp only [Option.map_some, Option.some.injEq] at hi
      subst hi
      have hf : cl.fixed = false := by rw [← newCell_fixed s i cl]; exact hfix
      obtain ⟨w1, w2⟩ := sizes i cl hg
      by_cases hh : cl.placedHeight = H
      · -- optimised: one strip
        obtain ⟨kk, seg, hseg, _, hy, b1, b2⟩ := opt_cell hd S hI hap i cl hg hf hh
        have hk : k = 0 := by
          rw [w2, hh] at hlt
          have : k * H < 1 * H := by omega
          have := Int.lt_of_mul_lt_mul_right this (by omega)
          omega
        subst hk
        have hsegm : seg ∈ c.computeRows (ispdObstacles c H) :=
          (mem_sortRows seg _).mp (List.mem_of_getElem? hseg)
        obtain ⟨r, hr, s1, s2, s3, _, _⟩ := computeRows_coarsen c _ seg hsegm
        have e1 : (newCell s i cl).x = s.x i := by unfold newCell; simp [hf]
        have e2 : (newCell s i cl).y = s.y i := by unfold newCell; simp [hf]
        refine ⟨r, hr, ?_, ?_, ?_⟩
        · rw [e2]; omega
        · rw [e1]; omega
        · rw [e1, w1]; omega
      · -- not optimised: where the circuit has it
        rw [multi i cl hg hf hh] at hlt ⊢
        exact hl.1 H hrh cl (List.mem_of_getElem? hg) hf k hk0 hlt
  · -- no two movable cells intersect
    rw [List.pairwise_filter, List.pairwise_iff_getElem]
    intro i j hi hj hij fi fj
    have gi := List.getElem?_eq_getElem hi
    have gj := List.getElem?_eq_getElem hj
    rw [export_get] at gi gj
    cases hgi : c.cells[i]? with
    | none => rw [hgi] at gi; simp at gi
    | some a =>
      cases hgj : c.cells[j]? with
      | none => rw [hgj] at gj; simp at gj
      | some b =>
        rw [hgi] at gi
        rw [hgj] at gj
        simp only [Option.map_some, Option.some.injEq] at gi gj
        rw [← gi] at fi ⊢
        rw [← gj] at fj ⊢
        have fa : a.fixed = false := by rw [← newCell_fixed s i a]; simpa using fi
        have fb : b.fixed = false := by rw [← newCell_fixed s j b]; simpa using fj
        have da := hd.2.1 a (List.mem_of_getElem? hgi) fa
        have db := hd.2.1 b (List.mem_of_getElem? hgj) fb
        -- an optimised cell misses a cell that is not optimised
        have mixed : ∀ (i j : Nat) (a b : Cell), c.cells[i]? = some a → c.cells[j]? = some b → a.fixed = false →
            b.fixed = false → a.placedHeight = H → b.placedHeight ≠ H →
            (newCell s i a).placement.intersects (newCell s j b).placement = false := by
          intro i j a b hgi hgj fa fb ha hb
          have da := hd.2.1 a (List.mem_of_getElem? hgi) fa
          have db := hd.2.1 b (List.mem_of_getElem? hgj) fb
          rw [optPl i a hgi fa ha, multi j b hgj fb hb]
          obtain ⟨kk, seg, hseg, _, hy, b1, b2⟩ := opt_cell hd S hI hap i a hgi fa ha
          have hsegm : seg ∈ c.computeRows (ispdObstacles c H) :=
            (mem_sortRows seg _).mp (List.mem_of_getElem? hseg)
          have hmiss := (Legalize.flatMap_freespace_seg hRr _ seg hsegm).2
            b.placement (List.mem_append_left _ (by
              unfold ispdObstacles
              exact List.mem_map.mpr ⟨b, by simp [List.mem_of_getElem? hgj, fb, hb], rfl⟩))
            (by simp only [Cell.placement]; omega) (by simp only [Cell.placement]; omega)
          have hsh := hok.height seg hsegm
          rw [Legalize.intersects_false_iff] at hmiss ⊢
          simp only [Cell.placement] at hmiss ⊢
          omega
        by_cases ha : a.placedHeight = H
        · by_cases hb : b.placedHeight = H
          · -- both optimised
            rw [optPl i a hgi fa ha, optPl j b hgj fb hb]
            obtain ⟨ka, sa, hsa, ra, ya, a1, a2⟩ := opt_cell hd S hI hap i a hgi fa ha
            obtain ⟨kb, sb, hsb, rb, yb, b1, b2⟩ := opt_cell hd S hI hap j b hgj fb hb
            rw [Legalize.intersects_false_iff]
            simp only
            by_cases hk : ka = kb
            · -- one row: the order along the links
              have hj' : j < c.cells.length := (List.getElem?_eq_some_iff.mp hgj).1
              have vj : s.validCell j := by unfold validCell; rw [S.nCells]; omega
              have hi' : i < c.cells.length := (List.getElem?_eq_some_iff.mp hgi).1
              have vi : s.validCell i := by unfold validCell; rw [S.nCells]; omega
              have := row_order hI vi vj (by rw [ra]; omega) (by rw [ra, rb, hk]) (by omega)
              rw [S.width i a hgi, S.width j b hgj, ispdWidth_opt fa ha, ispdWidth_opt fb hb] at this
              omega
            · -- two rows: the segments are disjoint
              have hdis := hoks.disj_idx ka kb sa sb hsa hsb hk
              rw [Legalize.intersects_false_iff] at hdis
              have h1 := hoks.height sa (List.mem_of_getElem? hsa)
              have h2 := hoks.height sb (List.mem_of_getElem? hsb)
              omega
          · exact mixed i j a b hgi hgj fa fb ha hb
        · by_cases hb : b.placedHeight = H
          · rw [Legalize.intersects_comm]
            exact mixed j i b a hgj hgi fb fa hb ha
          · rw [multi i a hgi fa ha, multi j b hgj fb hb]
            exact legal_disjoint c hl i j a b (by omega) hgi hgj fa fb

/-! ### Part B.4: every optimised cell stays placed along every history -/

namespace Lg

/-- every optimised cell is placed (`allPlaced` as a proposition) -/
def AllPlaced (s : State) : Prop := ∀ d, s.validCell d → s.width d ≠ -1 → s.row d ≠ -1

theorem allPlaced_iff (s : State) : s.allPlaced = true ↔ AllPlaced s := by
  unfold allPlaced AllPlaced
  rw [List.all_eq_true]
  constructor
  · intro h d vd hw
    have := h d (by rw [mem_intsUpTo]; exact vd)
    simp only [Bool.or_eq_true, isIgnored, isPlaced, beq_iff_eq, bne_iff_ne, ne_eq] at this
    rcases this with h' | h'
    · exact absurd h' hw
    · exact h'
  · intro h d hd
    rw [mem_intsUpTo] at hd
    by_cases hw : s.width d = -1
    · simp [isIgnored, hw]
    · have := h d hd hw
      simp [isPlaced, this]

theorem place_row {s t : State} {c r p x : Int} (e : s.place c r p x = .ok t) (d : Int) :
    t.row d = if d = c then r else s.row d := by
  obtain ⟨rfl, -⟩ := place_ok e
  exact placeRaw_row s c r p x d

theorem place2_row {s t : State} {a b ra pa xa rb pb xb : Int}
    (e : (s.place a ra pa xa).bind (fun u => u.place b rb pb xb) = .ok t) (d : Int) :
    t.row d = if d = b then rb else if d = a then ra else s.row d := by
  obtain ⟨u, e1, e2⟩ := bind_ok e
  rw [place_row e2, place_row e1]

theorem insert_rows {s t : State} {c r p : Int} (e : s.insert c r p = .ok t) (d : Int) :
    t.row d = if d = c then r else s.row d := by
  unfold State.insert at e
  split at e
  · cases e
  · cases e
  · rw [place_row e, unplace_row]
    split <;> rfl

theorem swap_rows {s t : State} {c1 c2 : Int} (e : s.swap c1 c2 = .ok t) :
    s.row c1 ≠ -1 ∧ s.row c2 ≠ -1 ∧ c1 ≠ c2 ∧
    ∀ d, t.row d = if d = c1 then s.row c2 else if d = c2 then s.row c1 else s.row d := by
  unfold State.swap canSwap at e
  by_cases hp1 : s.isPlaced c1 = true
  · by_cases hp2 : s.isPlaced c2 = true
    · by_cases h12 : c1 = c2
      · simp [hp1, hp2, h12] at e
      · refine ⟨(isPlaced_iff s c1).1 hp1, (isPlaced_iff s c2).1 hp2, h12, fun d => ?_⟩
        have hu : ∀ d, ((s.unplace c1).unplace c2).row d = if d = c2 then -1 else if d = c1 then -1 else s.row d := by
          intro d; rw [unplace_row, unplace_row]
        split at e
        · cases e
        · cases e
        · split at e
          · rw [place2_row e, hu]
            by_cases hd1 : d = c1
            · subst hd1; simp [h12]
            · by_cases hd2 : d = c2
              · subst hd2; simp [hd1]
              · simp [hd1, hd2]
          · split at e
            · rw [place2_row e, hu]
              by_cases hd1 : d = c1
              · subst hd1; simp
              · by_cases hd2 : d = c2
                · subst hd2; simp [hd1]
                · simp [hd1, hd2]
            · rw [place2_row e, hu]
              by_cases hd1 : d = c1
              · subst hd1; simp [h12]
              · by_cases hd2 : d = c2
                · subst hd2; simp [hd1]
                · simp [hd1, hd2]
    · simp [hp1, hp2] at e
  · simp [hp1] at e

theorem unplaceAll_rows {s t : State} {cs : List Int} (e : s.unplaceAll cs = .ok t) :
    ∀ d, d ∉ cs → t.row d = s.row d := by
  induction cs generalizing s with
  | nil => simp [unplaceAll] at e; subst e; exact fun _ _ => rfl
  | cons c cs ih =>
    unfold unplaceAll at e
    split at e
    · intro d hd
      simp only [List.mem_cons, not_or] at hd
      rw [ih e d hd.2, unplace_row]
      simp [hd.1]
    · cases e

theorem placeChain_mono {s t : State} {r p : Int} {l : List (Int × Int)} (e : s.placeChain r p l = .ok t) :
    ∀ d, s.row d ≠ -1 → t.row d ≠ -1 := by
  induction l generalizing s p with
  | nil => simp [placeChain] at e; subst e; exact fun _ h => h
  | cons m rest ih =>
    obtain ⟨c, v⟩ := m
    unfold placeChain at e
    split at e
    · rename_i hg
      simp only [Bool.and_eq_true] at hg
      have hs := ((siteOk_iff s r p).1 hg.2).1
      split at e
      · cases e
      · rename_i u eu
        intro d hd
        apply ih e
        rw [place_row eu]
        split
        · unfold validRow at hs; omega
        · exact hd
    · cases e

theorem placeRegions_mono {s t : State} {gs : List Region} (e : s.placeRegions gs = .ok t) :
    ∀ d, s.row d ≠ -1 → t.row d ≠ -1 := by
  induction gs generalizing s with
  | nil => simp [placeRegions] at e; subst e; exact fun _ h => h
  | cons g gs ih =>
    unfold placeRegions at e
    split at e
    · cases e
    · rename_i u eu
      exact fun d hd => ih e d (placeChain_mono eu d hd)

theorem step_allPlaced {s t : State} (h : AllPlaced s) {op : Op} (e : s.step op = .ok t) : AllPlaced t := by
  have fw := (step_frame e).1
  have kn := (step_keep e).2.1
  intro d vd hw
  have vd' : s.validCell d := by unfold validCell at vd ⊢; rw [← kn]; exact vd
  have hs := h d vd' (by rw [← fw]; exact hw)
  cases op with
  | swap c1 c2 =>
    simp only [step] at e
    split at e
    · obtain ⟨r1, r2, _, hr⟩ := swap_rows e
      rw [hr]
      split
      · exact r2
      · split
        · exact r1
        · exact hs
    · cases e
  | insert c r p =>
    simp only [step] at e
    split at e
    · rename_i hg
      simp only [Bool.and_eq_true] at hg
      have hv := ((siteOk_iff s r p).1 hg.2).1
      rw [insert_rows e]
      split
      · unfold validRow at hv; omega
      · exact hs
    · cases e
  | shift mv =>
    simp only [step] at e
    unfold shift at e
    split at e
    · injection e with e
      obtain ⟨f, ef, _⟩ := setXs_eq s mv
      rw [ef] at e; subst e
      exact hs
    · cases e
  | reorder cells regions =>
    simp only [step] at e
    unfold reorderWriteback at e
    split at e
    · cases e
    · rename_i u eu
      split at e
      · cases e
      · rename_i v ev
        split at e
        · rename_i hall
          injection e with e
          subst e
          by_cases hd : d ∈ cells
          · rw [List.all_eq_true] at hall
            exact (isPlaced_iff v d).1 (hall d hd)
          · apply placeRegions_mono ev
            rw [unplaceAll_rows eu d hd]
            exact hs
        · cases e

theorem run_allPlaced {s t : State} (h : AllPlaced s) {ops : List Op} (e : s.run ops = .ok t) : AllPlaced t := by
  induction ops generalizing s with
  | nil => simp [run] at e; exact e ▸ h
  | cons op ops ih =>
    unfold run at e
    split at e
    · cases e
    · rename_i u eu
      exact ih (step_allPlaced h eu) e

end Lg

end ColoVerif.DetPlace
