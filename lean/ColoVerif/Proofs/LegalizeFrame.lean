import ColoVerif.Model.Legalize
/-
Helper lemmas for C01: what `exportPlacement` may change, the structure of a successful
`legalize`, and what `AbacusLegalizer::check` establishes.
-/
namespace ColoVerif.Legalize
open ColoVerif

/-- own pointwise relation on lists (`List.Forall₂` is not in core) -/
inductive Pointwise {α β : Type} (R : α → β → Prop) : List α → List β → Prop
  | nil : Pointwise R [] []
  | cons {a b as bs} : R a b → Pointwise R as bs → Pointwise R (a :: as) (b :: bs)

/-- everything but position and orientation is kept; fixed cells are kept entirely -/
def SameFrame (a b : Cell) : Prop :=
  a.w = b.w ∧ a.h = b.h ∧ a.fixed = b.fixed ∧ a.obstruction = b.obstruction ∧ a.pol = b.pol ∧
    (a.fixed = true → a = b)

theorem sameFrame_refl (a : Cell) : SameFrame a a := ⟨rfl, rfl, rfl, rfl, rfl, fun _ => rfl⟩

theorem exportCells_frame : ∀ (cells : List Cell) (ps : List Pos), Pointwise SameFrame cells (exportCells cells ps)
  | [], _ => by simp [exportCells]; exact Pointwise.nil
  | cl :: cls, ps => by
    unfold exportCells
    by_cases hf : cl.fixed = true
    · rw [if_pos hf]
      exact Pointwise.cons (sameFrame_refl cl) (exportCells_frame cls ps)
    · rw [if_neg hf]
      cases ps with
      | nil => exact Pointwise.cons (sameFrame_refl cl) (exportCells_frame cls [])
      | cons p ps' =>
        refine Pointwise.cons ?_ (exportCells_frame cls ps')
        by_cases hp : p.placed = true
        · rw [if_pos hp]
          exact ⟨rfl, rfl, rfl, rfl, rfl, fun h => absurd h hf⟩
        · rw [if_neg hp]
          exact sameFrame_refl cl

/-- structure of a successful run -/
theorem legalizeWith_ok (rnd : Rat → Rat) (p : Params) (c c' : Circuit) (h : legalizeWith rnd p c = .ok c') :
    p.check = true ∧
    ∃ b1 b2, runTetris (fromCircuit c) (computeCellOrder rnd p.ow p.oy p.oh (fromCircuit c).cells) = .ok b1 ∧
      runAbacus b1 (computeCellOrder rnd p.ow p.oy p.oh (fromCircuit c).cells) = .ok b2 ∧
      b2.pos.all (·.placed) = true ∧ c' = exportPlacement b2 c := by
  unfold legalizeWith at h
  by_cases hc : p.check = true
  · refine ⟨hc, ?_⟩
    rw [hc] at h
    simp only [Bool.not_true, Bool.false_eq_true, if_false] at h
    unfold run at h
    cases h1 : runTetris (fromCircuit c) (computeCellOrder rnd p.ow p.oy p.oh (fromCircuit c).cells) with
    | error e => rw [h1] at h; simp at h
    | ok b1 =>
      rw [h1] at h
      simp only at h
      cases h2 : runAbacus b1 (computeCellOrder rnd p.ow p.oy p.oh (fromCircuit c).cells) with
      | error e => rw [h2] at h; simp at h
      | ok b2 =>
        rw [h2] at h
        simp only at h
        by_cases ha : b2.pos.all (·.placed) = true
        · refine ⟨b1, b2, rfl, h2, ha, ?_⟩
          simp only [checkAllPlaced, ha, if_true] at h
          injection h with h
          exact h.symm
        · simp [checkAllPlaced, ha] at h
  · simp [hc] at h

/-- a run whose two passes succeed but leave a cell unplaced fails loudly -/
theorem legalizeWith_unplaced (rnd : Rat → Rat) (p : Params) (c : Circuit) (b1 b2 : Base) (hc : p.check = true)
    (h1 : runTetris (fromCircuit c) (computeCellOrder rnd p.ow p.oy p.oh (fromCircuit c).cells) = .ok b1)
    (h2 : runAbacus b1 (computeCellOrder rnd p.ow p.oy p.oh (fromCircuit c).cells) = .ok b2)
    (hu : b2.pos.all (·.placed) = false) : legalizeWith rnd p c = .error .notAllPlaced := by
  simp [legalizeWith, hc, run, h1, h2, checkAllPlaced, hu]

/-! ### what `AbacusLegalizer::check` establishes -/

theorem zipAll_get {α β : Type} (p : α → β → Bool) : ∀ (as : List α) (bs : List β), zipAll p as bs = true →
    ∀ (k : Nat) (a : α) (b : β), as[k]? = some a → bs[k]? = some b → p a b = true
  | [], _, _, k, a, b, ha, _ => by simp at ha
  | _ :: _, [], _, k, a, b, _, hb => by simp at hb
  | x :: xs, y :: ys, h, k, a, b, ha, hb => by
    simp only [zipAll, Bool.and_eq_true] at h
    cases k with
    | zero => simp at ha hb; rw [← ha, ← hb]; exact h.1
    | succ k => simp at ha hb; exact zipAll_get p xs ys h.2 k a b ha hb

theorem rowOrderOk_head (cells : List LCell) (pos : List Pos) :
    ∀ (c : Nat) (cs : List Nat), (∀ d ∈ c :: cs, 0 < (cellAt cells d).w) → rowOrderOk cells pos (c :: cs) = true →
      ∀ d ∈ cs, (posAt pos c).x + (cellAt cells c).w ≤ (posAt pos d).x
  | c, [], _, _, d, hd => by simp at hd
  | c, c2 :: cs, hw, h, d, hd => by
    simp only [rowOrderOk, Bool.and_eq_true, Bool.not_eq_true', decide_eq_false_iff_not, Int.not_lt] at h
    rcases List.mem_cons.mp hd with rfl | hd
    · omega
    · have := rowOrderOk_head cells pos c2 cs (fun e he => hw e (by simp [List.mem_cons.mp he |>.elim (fun h => Or.inr (Or.inl h)) (fun h => Or.inr (Or.inr h))])) h.2 d hd
      have hw2 := hw c2 (by simp)
      omega

theorem rowOrderOk_pairwise (cells : List LCell) (pos : List Pos) :
    ∀ (rc : List Nat), (∀ d ∈ rc, 0 < (cellAt cells d).w) → rowOrderOk cells pos rc = true →
      rc.Pairwise fun c1 c2 => (posAt pos c1).x + (cellAt cells c1).w ≤ (posAt pos c2).x
  | [], _, _ => List.Pairwise.nil
  | c :: cs, hw, h => by
    refine List.Pairwise.cons (rowOrderOk_head cells pos c cs hw h) ?_
    apply rowOrderOk_pairwise cells pos cs (fun d hd => hw d (by simp [hd]))
    cases cs with
    | nil => simp [rowOrderOk]
    | cons c2 cs => simp only [rowOrderOk, Bool.and_eq_true] at h; exact h.2

/-- `abacusPlace` keeps the rows and only ever adds the current index to a row's cell list -/
theorem abacusPlace_rows (a : Abacus) (i : Nat) (c : LCell) : (abacusPlace a i c).1.rows = a.rows := by
  unfold abacusPlace; split <;> rfl

theorem abacusPlace_mem (a : Abacus) (i : Nat) (c : LCell) :
    ∀ rc ∈ (abacusPlace a i c).1.rowCells, ∀ d ∈ rc, d = i ∨ ∃ rc0 ∈ a.rowCells, d ∈ rc0 := by
  intro rc hrc d hd
  unfold abacusPlace at hrc
  split at hrc
  · exact Or.inr ⟨rc, hrc, hd⟩
  · rename_i legs b _
    simp only at hrc
    rcases List.mem_or_eq_of_mem_set hrc with h | h
    · exact Or.inr ⟨rc, h, hd⟩
    · rw [h, List.mem_append] at hd
      rcases hd with hd | hd
      · by_cases hk : b.row < a.rowCells.length
        · refine Or.inr ⟨a.rowCells.getD b.row [], ?_, hd⟩
          simp [List.getD_eq_getElem?_getD, List.getElem?_eq_getElem hk]
        · simp [List.getD_eq_getElem?_getD, List.getElem?_eq_none (Nat.le_of_not_lt hk)] at hd
      · left; simpa using hd

theorem abacusLoop_rows : ∀ (cs : List LCell) (a : Abacus) (i : Nat), (abacusLoop a i cs).1.rows = a.rows
  | [], a, i => rfl
  | c :: cs, a, i => by
    simp only [abacusLoop]
    rw [abacusLoop_rows cs, abacusPlace_rows]

theorem abacusLoop_mem : ∀ (cs : List LCell) (a : Abacus) (i : Nat),
    ∀ rc ∈ (abacusLoop a i cs).1.rowCells, ∀ d ∈ rc, (i ≤ d ∧ d < i + cs.length) ∨ ∃ rc0 ∈ a.rowCells, d ∈ rc0
  | [], a, i, rc, hrc, d, hd => Or.inr ⟨rc, hrc, hd⟩
  | c :: cs, a, i, rc, hrc, d, hd => by
    simp only [abacusLoop] at hrc
    rcases abacusLoop_mem cs _ (i + 1) rc hrc d hd with h | ⟨rc1, hrc1, hd1⟩
    · left; simp only [List.length_cons]; omega
    · rcases abacusPlace_mem a i c rc1 hrc1 d hd1 with h | h
      · left; simp only [List.length_cons]; omega
      · right; exact h

end ColoVerif.Legalize
