import ColoVerif.Proofs.SpreadFLoop
import ColoVerif.Proofs.SpreadCoord
/-
C06 — the `(i, j)` loop of the binary32 `spreadCoordX/Y` (`spreadCoordF`): every positive-demand cell of every
bin ends in the closed interval `[(float) lo, (float) hi]` of its bin; a cell in no bin keeps its clamped target.
Mirrors `Proofs/SpreadCoord.lean` (`scatter_forall`, `scatter_other` are reused: `scatter` is shared).
-/
namespace ColoVerif.SpreadF
open ColoVerif.Spread

/-- what C06 needs of one cell's binary32 coordinate in bin `b` -/
def InBinF (demand : List Int) (b : Bin) (c : Nat) (v : Rat) : Prop :=
  0 < demand.getD c 0 → fl (b.lo : Rat) ≤ v ∧ v ≤ fl (b.hi : Rat)

theorem binStepF_inside (target : List Rat) (demand : List Int)
    (ret : List Rat) (b : Bin) (hlh : b.lo ≤ b.hi) (hnd : b.cells.Nodup)
    (hr : ∀ c ∈ b.cells, c < ret.length) :
    ∀ c ∈ b.cells, InBinF demand b c ((binStepF target demand ret b).getD c 0) := by
  unfold binStepF
  apply scatter_forall (InBinF demand b) ret b.cells (binCoordsF target demand b)
  · simp [binCoordsF, spreadCellsF_length]
  · exact hnd
  · exact hr
  · intro k hk hpos
    have hlh' : fl (b.lo : Rat) ≤ fl (b.hi : Rat) := fl_mono (by exact_mod_cast hlh)
    have hk' : k < (b.cells.map fun c => target.getD c 0).length := by simpa using hk
    have hdk : (b.cells.map fun c => fl (demand.getD c 0 : Rat)).getD k 0 = fl (demand.getD (b.cells.getD k 0) 0 : Rat) := by
      simp [List.getD_eq_getElem?_getD, List.getElem?_map]
      cases h : b.cells[k]? with
      | none =>
        have := List.getElem?_eq_none_iff.mp h
        omega
      | some x => simp
    apply spreadCellsF_inside _ _ _ _ hlh' k hk'
    rw [hdk]; exact fl_pos_of_int _ hpos

theorem binStepF_length (target : List Rat) (demand : List Int) (ret : List Rat) (b : Bin) :
    (binStepF target demand ret b).length = ret.length := scatter_length _ _ _

theorem binStepF_other (target : List Rat) (demand : List Int) (ret : List Rat) (b : Bin) (j : Nat)
    (hj : j ∉ b.cells) : (binStepF target demand ret b).getD j 0 = ret.getD j 0 :=
  scatter_other _ _ _ _ hj

/-- Invariant of the `(i, j)` loop: every cell of every bin ends up in its closed bin. -/
theorem binLoopF_inside (target : List Rat) (demand : List Int)
    (n : Nat) (bins : List Bin) (ret : List Rat) (hlen : ret.length = n)
    (hlh : ∀ b ∈ bins, b.lo ≤ b.hi)
    (hnd : (bins.flatMap fun b => b.cells).Nodup) (hr : ∀ b ∈ bins, ∀ c ∈ b.cells, c < n) :
    (bins.foldl (binStepF target demand) ret).length = n ∧
    (∀ b ∈ bins, ∀ c ∈ b.cells, InBinF demand b c ((bins.foldl (binStepF target demand) ret).getD c 0)) ∧
    (∀ j, (∀ b ∈ bins, j ∉ b.cells) → (bins.foldl (binStepF target demand) ret).getD j 0 = ret.getD j 0) := by
  induction bins generalizing ret with
  | nil => simp [hlen]
  | cons b bs ih =>
    rw [List.flatMap_cons, List.nodup_append] at hnd
    obtain ⟨hndb, hndbs, hdisj⟩ := hnd
    have hlen' : (binStepF target demand ret b).length = n := by rw [binStepF_length, hlen]
    obtain ⟨a1, a2, a3⟩ := ih (binStepF target demand ret b) hlen'
      (fun b' hb' => hlh b' (List.mem_cons_of_mem _ hb')) hndbs
      (fun b' hb' => hr b' (List.mem_cons_of_mem _ hb'))
    simp only [List.foldl_cons]
    refine ⟨a1, ?_, ?_⟩
    · intro b' hb' c hc
      rcases List.mem_cons.mp hb' with rfl | hmem
      · have hnot : ∀ b'' ∈ bs, c ∉ b''.cells := by
          intro b'' hb'' hc''
          exact hdisj c hc c (List.mem_flatMap.mpr ⟨b'', hb'', hc''⟩) rfl
        rw [a3 c hnot]
        exact binStepF_inside target demand ret b' (hlh b' (by simp)) hndb
          (fun c hc => by rw [hlen]; exact hr b' (by simp) c hc) c hc
      · exact a2 b' hmem c hc
    · intro j hj
      rw [a3 j (fun b' hb' => hj b' (List.mem_cons_of_mem _ hb'))]
      exact binStepF_other target demand ret b j (hj b (by simp))

/-! ### cells that are in no bin -/

theorem clampF_bounds (lo hi : Int) (h : lo ≤ hi) (t : Rat) :
    fl (lo : Rat) ≤ clampF lo hi t ∧ clampF lo hi t ≤ fl (hi : Rat) := by
  have h' : fl (lo : Rat) ≤ fl (hi : Rat) := fl_mono (by exact_mod_cast h)
  unfold clampF
  split <;> split <;> constructor <;> linarith

theorem initCoordsF_length (n : Nat) (lo hi : Int) (target : List Rat) :
    (initCoordsF n lo hi target).length = n := by
  simp [initCoordsF]

theorem initCoordsF_getD (n : Nat) (lo hi : Int) (target : List Rat) (c : Nat) (hc : c < n) :
    (initCoordsF n lo hi target).getD c 0 = clampF lo hi (target.getD c 0) := by
  simp [initCoordsF, List.getD_eq_getElem?_getD, List.getElem?_map, List.getElem?_range hc]

end ColoVerif.SpreadF
