import ColoVerif.Proofs.GridAllocTab
/-
C16, allocation invariant — construction, `refineX/Y`, `coarsenX/Y`.
-/
namespace ColoVerif.Grid

theorem HierOk.nbBins_eq {h : Hier} {n : Nat} (hok : HierOk h n) (lvl : Nat) (hl : lvl < h.nbLevels) :
    h.nbBins lvl = (h.par lvl).length := by
  have := hok.sizes lvl hl
  unfold Hier.nbBins
  omega

theorem mem_flatMap_ite (n : Nat) (P : Nat → Prop) [DecidablePred P] (g : Nat → List Nat) (c : Nat) :
    c ∈ (List.range n).flatMap (fun i => if P i then g i else []) ↔ ∃ i, i < n ∧ P i ∧ c ∈ g i := by
  simp only [List.mem_flatMap, List.mem_range]
  constructor
  · rintro ⟨i, hi, hc⟩
    by_cases hp : P i
    · simp only [hp, if_true] at hc; exact ⟨i, hi, hp, hc⟩
    · simp [hp] at hc
  · rintro ⟨i, hi, hp, hc⟩
    exact ⟨i, hi, by simp only [hp, if_true]; exact hc⟩

theorem nodup_flatMap_ite (n : Nat) (P : Nat → Prop) [DecidablePred P] (g : Nat → List Nat)
    (hnd : ∀ i, (g i).Nodup) (hdis : ∀ i i' c, c ∈ g i → c ∈ g i' → i = i') :
    ((List.range n).flatMap (fun i => if P i then g i else [])).Nodup := by
  rw [List.nodup_flatMap]
  refine ⟨?_, ?_⟩
  · intro i _
    by_cases hp : P i
    · simp only [hp, if_true]; exact hnd i
    · simp [hp]
  · refine List.Pairwise.imp ?_ (List.pairwise_lt_range (n := n))
    intro i i' hlt
    simp only [Function.onFun]
    intro c hc hc'
    by_cases hp : P i
    · by_cases hp' : P i'
      · simp only [hp, hp', if_true] at hc hc'
        have := hdis i i' c hc hc'
        omega
      · simp [hp'] at hc'
    · simp [hp] at hc

/-! ### construction -/

theorem allocInv_init (g : DGrid) (demand : List Int)
    (hx : HierOk (setupHierarchy g.nbX) g.nbX) (hy : HierOk (setupHierarchy g.nbY) g.nbY) :
    AllocInv (HState.init g demand) := by
  unfold HState.init
  have hnx : (setupHierarchy g.nbX).nbBins ((setupHierarchy g.nbX).nbLevels - 1) = 1 := by
    unfold Hier.nbBins; rw [hx.top]; rfl
  have hny : (setupHierarchy g.nbY).nbBins ((setupHierarchy g.nbY).nbLevels - 1) = 1 := by
    unfold Hier.nbBins; rw [hy.top]; rfl
  apply allocInv_updateCellToBin _ (fun _ _ => HState.activeCells demand)
  · show [[HState.activeCells demand]] = tab _ _ _
    show _ = tab ((setupHierarchy g.nbX).nbBins ((setupHierarchy g.nbX).nbLevels - 1))
      ((setupHierarchy g.nbY).nbBins ((setupHierarchy g.nbY).nbLevels - 1)) _
    rw [hnx, hny]; rfl
  · show (setupHierarchy g.nbX).nbLevels - 1 < (setupHierarchy g.nbX).nbLevels
    have := hx.pos; unfold Hier.nbLevels; omega
  · show (setupHierarchy g.nbY).nbLevels - 1 < (setupHierarchy g.nbY).nbLevels
    have := hy.pos; unfold Hier.nbLevels; omega
  · intro i j _ _
    exact List.Nodup.filter _ List.nodup_range
  · intro i j i' j' c hi hj hi' hj' _ _
    have e1 : i < 1 := by
      have : i < (setupHierarchy g.nbX).nbBins ((setupHierarchy g.nbX).nbLevels - 1) := hi
      omega
    have e2 : i' < 1 := by
      have : i' < (setupHierarchy g.nbX).nbBins ((setupHierarchy g.nbX).nbLevels - 1) := hi'
      omega
    have e3 : j < 1 := by
      have : j < (setupHierarchy g.nbY).nbBins ((setupHierarchy g.nbY).nbLevels - 1) := hj
      omega
    have e4 : j' < 1 := by
      have : j' < (setupHierarchy g.nbY).nbBins ((setupHierarchy g.nbY).nbLevels - 1) := hj'
      omega
    omega
  · intro c
    show (c < demand.length ∧ demand.getD c 0 > 0) ↔ _
    constructor
    · intro hc
      refine ⟨0, 0, ?_, ?_, ?_⟩
      · show 0 < (setupHierarchy g.nbX).nbBins ((setupHierarchy g.nbX).nbLevels - 1); omega
      · show 0 < (setupHierarchy g.nbY).nbBins ((setupHierarchy g.nbY).nbLevels - 1); omega
      · unfold HState.activeCells
        simp only [List.mem_filter, List.mem_range, decide_eq_true_eq]
        exact hc
    · rintro ⟨_, _, _, _, hc⟩
      unfold HState.activeCells at hc
      simp only [List.mem_filter, List.mem_range, decide_eq_true_eq] at hc
      exact hc

/-! ### refinement -/

theorem allocInv_refineX (s : HState) (n : Nat) (hok : HierOk s.hx n) (h : AllocInv s) :
    AllocInv s.refineX := by
  unfold HState.refineX
  by_cases hl0 : s.levelX = 0
  · simp only [hl0, if_true]; exact h
  · simp only [hl0, if_false]
    have hlvl := h.lvlX
    have e : s.levelX - 1 + 1 = s.levelX := by omega
    have hpk : ParOk (s.hx.par (s.levelX - 1)) s.nbX := by
      have := hok.parOk (s.levelX - 1) (by rw [e]; exact hlvl)
      rw [e] at this; exact this
    have hlen : s.hx.nbBins (s.levelX - 1) = (s.hx.par (s.levelX - 1)).length :=
      hok.nbBins_eq _ (by omega)
    apply allocInv_updateCellToBin _
      (fun i j => if HState.firstChild (s.hx.par (s.levelX - 1)) i
        then cellsAt s.bins ((s.hx.par (s.levelX - 1)).getD i 0) j else [])
    · rfl
    · show s.levelX - 1 < s.hx.nbLevels; omega
    · exact h.lvlY
    · intro i j _ _
      by_cases hf : HState.firstChild (s.hx.par (s.levelX - 1)) i = true
      · simp only [hf, if_true]; exact h.nodup _ _
      · simp [hf]
    · intro i j i' j' c hi _ hi' _ hc hc'
      have hi2 : i < (s.hx.par (s.levelX - 1)).length := by rw [← hlen]; exact hi
      have hi2' : i' < (s.hx.par (s.levelX - 1)).length := by rw [← hlen]; exact hi'
      by_cases hf : HState.firstChild (s.hx.par (s.levelX - 1)) i = true
      · by_cases hf' : HState.firstChild (s.hx.par (s.levelX - 1)) i' = true
        · simp only [hf, hf', if_true] at hc hc'
          have := h.disjoint _ _ _ _ c hc hc'
          exact ⟨hpk.first_unique i i' hi2 hi2' hf hf' this.1, this.2⟩
        · simp [hf'] at hc'
      · simp [hf] at hc
    · intro c
      show (c < s.nbCells ∧ s.cellDemand c > 0) ↔ _
      rw [h.covers c]
      constructor
      · rintro ⟨p, j, hc⟩
        have hr := h.in_range hc
        obtain ⟨i, hi, hf, hv⟩ := hpk.first_exists p hr.1
        refine ⟨i, j, ?_, hr.2, ?_⟩
        · show i < s.hx.nbBins (s.levelX - 1); rw [hlen]; exact hi
        · simp only [hf, if_true, hv]; exact hc
      · rintro ⟨i, j, _, _, hc⟩
        by_cases hf : HState.firstChild (s.hx.par (s.levelX - 1)) i = true
        · simp only [hf, if_true] at hc; exact ⟨_, _, hc⟩
        · simp [hf] at hc

theorem allocInv_refineY (s : HState) (n : Nat) (hok : HierOk s.hy n) (h : AllocInv s) :
    AllocInv s.refineY := by
  unfold HState.refineY
  by_cases hl0 : s.levelY = 0
  · simp only [hl0, if_true]; exact h
  · simp only [hl0, if_false]
    have hlvl := h.lvlY
    have e : s.levelY - 1 + 1 = s.levelY := by omega
    have hpk : ParOk (s.hy.par (s.levelY - 1)) s.nbY := by
      have := hok.parOk (s.levelY - 1) (by rw [e]; exact hlvl)
      rw [e] at this; exact this
    have hlen : s.hy.nbBins (s.levelY - 1) = (s.hy.par (s.levelY - 1)).length :=
      hok.nbBins_eq _ (by omega)
    apply allocInv_updateCellToBin _
      (fun i j => if HState.firstChild (s.hy.par (s.levelY - 1)) j
        then cellsAt s.bins i ((s.hy.par (s.levelY - 1)).getD j 0) else [])
    · rfl
    · exact h.lvlX
    · show s.levelY - 1 < s.hy.nbLevels; omega
    · intro i j _ _
      by_cases hf : HState.firstChild (s.hy.par (s.levelY - 1)) j = true
      · simp only [hf, if_true]; exact h.nodup _ _
      · simp [hf]
    · intro i j i' j' c _ hj _ hj' hc hc'
      have hj2 : j < (s.hy.par (s.levelY - 1)).length := by rw [← hlen]; exact hj
      have hj2' : j' < (s.hy.par (s.levelY - 1)).length := by rw [← hlen]; exact hj'
      by_cases hf : HState.firstChild (s.hy.par (s.levelY - 1)) j = true
      · by_cases hf' : HState.firstChild (s.hy.par (s.levelY - 1)) j' = true
        · simp only [hf, hf', if_true] at hc hc'
          have := h.disjoint _ _ _ _ c hc hc'
          exact ⟨this.1, hpk.first_unique j j' hj2 hj2' hf hf' this.2⟩
        · simp [hf'] at hc'
      · simp [hf] at hc
    · intro c
      show (c < s.nbCells ∧ s.cellDemand c > 0) ↔ _
      rw [h.covers c]
      constructor
      · rintro ⟨i, p, hc⟩
        have hr := h.in_range hc
        obtain ⟨j, hj, hf, hv⟩ := hpk.first_exists p hr.2
        refine ⟨i, j, hr.1, ?_, ?_⟩
        · show j < s.hy.nbBins (s.levelY - 1); rw [hlen]; exact hj
        · simp only [hf, if_true, hv]; exact hc
      · rintro ⟨i, j, _, _, hc⟩
        by_cases hf : HState.firstChild (s.hy.par (s.levelY - 1)) j = true
        · simp only [hf, if_true] at hc; exact ⟨_, _, hc⟩
        · simp [hf] at hc

/-! ### coarsening -/

theorem allocInv_coarsenX (s : HState) (n : Nat) (hok : HierOk s.hx n) (h : AllocInv s) :
    AllocInv s.coarsenX := by
  unfold HState.coarsenX
  by_cases hl : s.levelX + 1 < s.hx.nbLevels
  · simp only [hl, if_true]
    have hpk : ParOk (s.hx.par s.levelX) (s.hx.nbBins (s.levelX + 1)) := hok.parOk _ hl
    have hlen : s.nbX = (s.hx.par s.levelX).length := hok.nbBins_eq _ h.lvlX
    have hmem : ∀ p j c, c ∈ ((List.range s.nbX).flatMap fun i =>
        if (s.hx.par s.levelX).getD i 0 = p then cellsAt s.bins i j else []) ↔
        ∃ i, i < s.nbX ∧ (s.hx.par s.levelX).getD i 0 = p ∧ c ∈ s.cells i j := by
      intro p j c
      exact mem_flatMap_ite s.nbX (fun i => (s.hx.par s.levelX).getD i 0 = p) (fun i => cellsAt s.bins i j) c
    apply allocInv_updateCellToBin _
      (fun p j => (List.range s.nbX).flatMap fun i =>
        if (s.hx.par s.levelX).getD i 0 = p then cellsAt s.bins i j else [])
    · rfl
    · exact hl
    · exact h.lvlY
    · intro p j _ _
      exact nodup_flatMap_ite s.nbX (fun i => (s.hx.par s.levelX).getD i 0 = p) (fun i => cellsAt s.bins i j)
        (fun i => h.nodup i j) (fun i i' c hc hc' => (h.disjoint i j i' j c hc hc').1)
    · intro p j p' j' c _ _ _ _ hc hc'
      obtain ⟨i, _, hp, hci⟩ := (hmem p j c).mp hc
      obtain ⟨i', _, hp', hci'⟩ := (hmem p' j' c).mp hc'
      have := h.disjoint _ _ _ _ c hci hci'
      refine ⟨?_, this.2⟩
      rw [← hp, ← hp', this.1]
    · intro c
      show (c < s.nbCells ∧ s.cellDemand c > 0) ↔ _
      rw [h.covers c]
      constructor
      · rintro ⟨i, j, hc⟩
        have hr := h.in_range hc
        refine ⟨(s.hx.par s.levelX).getD i 0, j, ?_, hr.2, ?_⟩
        · show _ < s.hx.nbBins (s.levelX + 1)
          exact hpk.lt i (by rw [← hlen]; exact hr.1)
        · exact (hmem _ j c).mpr ⟨i, hr.1, rfl, hc⟩
      · rintro ⟨p, j, _, _, hc⟩
        obtain ⟨i, _, _, hci⟩ := (hmem p j c).mp hc
        exact ⟨i, j, hci⟩
  · simp only [hl, if_false]; exact h

theorem allocInv_coarsenY (s : HState) (n : Nat) (hok : HierOk s.hy n) (h : AllocInv s) :
    AllocInv s.coarsenY := by
  unfold HState.coarsenY
  by_cases hl : s.levelY + 1 < s.hy.nbLevels
  · simp only [hl, if_true]
    have hpk : ParOk (s.hy.par s.levelY) (s.hy.nbBins (s.levelY + 1)) := hok.parOk _ hl
    have hlen : s.nbY = (s.hy.par s.levelY).length := hok.nbBins_eq _ h.lvlY
    have hmem : ∀ i p c, c ∈ ((List.range s.nbY).flatMap fun j =>
        if (s.hy.par s.levelY).getD j 0 = p then cellsAt s.bins i j else []) ↔
        ∃ j, j < s.nbY ∧ (s.hy.par s.levelY).getD j 0 = p ∧ c ∈ s.cells i j := by
      intro i p c
      exact mem_flatMap_ite s.nbY (fun j => (s.hy.par s.levelY).getD j 0 = p) (fun j => cellsAt s.bins i j) c
    apply allocInv_updateCellToBin _
      (fun i p => (List.range s.nbY).flatMap fun j =>
        if (s.hy.par s.levelY).getD j 0 = p then cellsAt s.bins i j else [])
    · rfl
    · exact h.lvlX
    · exact hl
    · intro i p _ _
      exact nodup_flatMap_ite s.nbY (fun j => (s.hy.par s.levelY).getD j 0 = p) (fun j => cellsAt s.bins i j)
        (fun j => h.nodup i j) (fun j j' c hc hc' => (h.disjoint i j i j' c hc hc').2)
    · intro i p i' p' c _ _ _ _ hc hc'
      obtain ⟨j, _, hp, hcj⟩ := (hmem i p c).mp hc
      obtain ⟨j', _, hp', hcj'⟩ := (hmem i' p' c).mp hc'
      have := h.disjoint _ _ _ _ c hcj hcj'
      refine ⟨this.1, ?_⟩
      rw [← hp, ← hp', this.2]
    · intro c
      show (c < s.nbCells ∧ s.cellDemand c > 0) ↔ _
      rw [h.covers c]
      constructor
      · rintro ⟨i, j, hc⟩
        have hr := h.in_range hc
        refine ⟨i, (s.hy.par s.levelY).getD j 0, hr.1, ?_, ?_⟩
        · show _ < s.hy.nbBins (s.levelY + 1)
          exact hpk.lt j (by rw [← hlen]; exact hr.2)
        · exact (hmem i _ c).mpr ⟨j, hr.2, rfl, hc⟩
      · rintro ⟨i, p, _, _, hc⟩
        obtain ⟨j, _, _, hcj⟩ := (hmem i p c).mp hc
        exact ⟨i, j, hcj⟩
  · simp only [hl, if_false]; exact h

end ColoVerif.Grid
