import ColoVerif.Proofs.ExpandF
/-
Quantitative rounding bounds for the binary64-exact `expandCellsToDensity` (`Model/ExpandF.lean`):

* `f64_sub_int_exact`: subtracting an integer from a larger double below `2^53` is exact — so `fracW - newW`
  and every `missingArea -= h` of the carry loop are exact;
* `f64_le_gen`: `f64 x ≤ x·(1+2^-53) + 2^-1075` for every `x ≥ 0` (subnormals included);
* `carryLoop_spec`, `step_bound`: one iteration of the expansion loop loses at most `2^-51·H` of area;
* `loop_bound`: the whole loop; `fracArea_le`: what the loop aims at; `factor_le`: the rounded factor.
-/
namespace ColoVerif
namespace ExpandF
open Expand (truncRat cellArea movableArea maxRowWidth active NonnegSizes)
open F64

/-! ### two facts about `f64` -/

theorem f64_fix_repr {x : Rat} (hx : 0 < x) (hfix : f64 x = x) :
    ∃ M E : Int, 0 ≤ M ∧ (M : Rat) ≤ (2 : Rat) ^ (53 : Int) ∧ -1074 ≤ E ∧ x = (M : Rat) * (2 : Rat) ^ E := by
  obtain ⟨M, hM0, hM, hr⟩ := fround_repr (prec := 53) (emin := -1074) (by norm_num) hx
  obtain ⟨s1, _, _⟩ := fexp_spec 53 (-1074) x hx
  exact ⟨M, fexp 53 (-1074) x, hM0, hM, s1, hfix.symm.trans hr⟩

/-- subtracting an integer `0 ≤ n ≤ x` from a double `x ≤ 2^53` is exact -/
theorem f64_sub_int_exact {x : Rat} (hfix : f64 x = x) (n : Int) (hn : 0 ≤ n) (hle : (n : Rat) ≤ x)
    (hx : x ≤ 2 ^ 53) : f64 (x - n) = x - n := by
  have hnq : (0 : Rat) ≤ n := by exact_mod_cast hn
  rcases eq_or_lt_of_le (le_trans hnq hle) with h0 | h0
  · have hn0 : (n : Rat) = 0 := by linarith
    rw [← h0, hn0]; simp [f64_zero]
  · obtain ⟨M, E, hM0, hM, hE, hxe⟩ := f64_fix_repr h0 hfix
    have hM53 : M ≤ 2 ^ 53 := by
      have e : (2 : Rat) ^ (53 : Int) = (((2 : Int) ^ 53 : Int) : Rat) := by norm_num
      rw [e] at hM
      exact_mod_cast hM
    by_cases hE0 : 0 ≤ E
    · have hK : x = ((M * 2 ^ E.toNat : Int) : Rat) := by
        rw [hxe, z2_int hE0]; push_cast; ring
      have hd : x - n = ((M * 2 ^ E.toNat - n : Int) : Rat) := by rw [hK]; push_cast; ring
      have h1 : (0 : Rat) ≤ ((M * 2 ^ E.toNat - n : Int) : Rat) := by rw [← hd]; linarith
      have h2 : ((M * 2 ^ E.toNat - n : Int) : Rat) ≤ ((2 ^ 53 : Int) : Rat) := by
        rw [← hd]; push_cast; linarith
      rw [hd]
      apply f64_exact_int
      have h1' : (0 : Int) ≤ M * 2 ^ E.toNat - n := by exact_mod_cast h1
      have h2' : M * 2 ^ E.toNat - n ≤ 2 ^ 53 := by exact_mod_cast h2
      rw [abs_le]; constructor <;> omega
    · have hEn : E < 0 := not_le.mp hE0
      have hp : (2 : Rat) ^ E * (((2 : Int) ^ (-E).toNat : Int) : Rat) = 1 := by
        rw [← z2_nat, ← z2_add]
        have : E + ((-E).toNat : Int) = 0 := by omega
        rw [this]; norm_num
      have hm : ((M - n * 2 ^ (-E).toNat : Int) : Rat) =
          (M : Rat) - (n : Rat) * (((2 : Int) ^ (-E).toNat : Int) : Rat) := by push_cast; ring
      have hd : x - n = ((M - n * 2 ^ (-E).toNat : Int) : Rat) * (2 : Rat) ^ E := by
        have hn1 : (n : Rat) * (((2 : Int) ^ (-E).toNat : Int) : Rat) * (2 : Rat) ^ E = (n : Rat) := by
          rw [mul_assoc, mul_comm _ ((2 : Rat) ^ E), hp, mul_one]
        rw [hm, hxe, sub_mul, hn1]
      have hpos := z2_pos E
      have h1 : (0 : Rat) ≤ ((M - n * 2 ^ (-E).toNat : Int) : Rat) := by
        by_contra hc
        have hc' := not_le.mp hc
        have : ((M - n * 2 ^ (-E).toNat : Int) : Rat) * (2 : Rat) ^ E < 0 := mul_neg_of_neg_of_pos hc' hpos
        linarith
      have h1' : (0 : Int) ≤ M - n * 2 ^ (-E).toNat := by exact_mod_cast h1
      have h2' : M - n * 2 ^ (-E).toNat ≤ M := by
        have : (0 : Int) ≤ n * 2 ^ (-E).toNat := mul_nonneg hn (by positivity)
        omega
      rw [hd]
      apply f64_exact_dyadic _ _ _ hE
      rw [abs_le]; constructor <;> omega

/-- `f64 x ≤ x·(1+2^-53) + 2^-1075` for every `x ≥ 0` -/
theorem f64_le_gen {x : Rat} (hx : 0 ≤ x) :
    f64 x ≤ x * (1 + (2 : Rat) ^ (-53 : Int)) + (2 : Rat) ^ (-1075 : Int) := by
  have hη := z2_pos (-1075)
  have hu := z2_pos (-53)
  rcases le_or_gt ((2 : Rat) ^ (-1022 : Int)) x with h | h
  · have := f64_rel_le h; linarith
  · rcases eq_or_lt_of_le hx with h0 | h0
    · rw [← h0, f64_zero]; linarith
    · have h1 := fround_le_add_half_ulp (prec := 53) (emin := -1074) h0
      obtain ⟨s1, s2, s3⟩ := fexp_spec 53 (-1074) x h0
      have hE : fexp 53 (-1074) x = -1074 := by
        rcases s3 with e | e
        · exact e
        · have := z2_lt_imp (lt_of_le_of_lt e h); omega
      rw [hE] at h1
      have e2 : (2 : Rat) ^ (-1074 : Int) / 2 = (2 : Rat) ^ (-1075 : Int) := by
        rw [← z2_pred]; norm_num
      rw [e2] at h1
      have hxu : 0 ≤ x * (2 : Rat) ^ (-53 : Int) := mul_nonneg hx (le_of_lt hu)
      show fround 53 (-1074) x ≤ _
      linarith

/-! ### the carry loop -/

/-- the carry loop from a representable `0 ≤ m < 2^53` with an integer height `h > 0`: every subtraction is
exact, so `h·newW + missingArea` is preserved; the carried area stays non-negative and representable -/
theorem carryLoop_spec (h : Int) (hh : 0 < h) : ∀ (fuel : Nat) (w : Int) (m : Rat),
    f64 m = m → 0 ≤ m → m ≤ 2 ^ 53 →
    ((h : Rat) * ((carryLoop (h : Rat) fuel w m).1 : Rat) + (carryLoop (h : Rat) fuel w m).2 = (h : Rat) * (w : Rat) + m) ∧
    0 ≤ (carryLoop (h : Rat) fuel w m).2
  | 0, w, m, _, h0, _ => by simp [carryLoop, h0]
  | fuel + 1, w, m, hfix, h0, h53 => by
    simp only [carryLoop]
    split
    · rename_i hge
      have hex := f64_sub_int_exact hfix h (le_of_lt hh) hge h53
      have hhq : (0 : Rat) < (h : Rat) := by exact_mod_cast hh
      have ih := carryLoop_spec h hh fuel (w + 1) (f64 (m - h)) (by rw [f64_idem]) (by rw [hex]; linarith)
        (by rw [hex]; linarith)
      refine ⟨?_, ih.2⟩
      rw [ih.1, hex]; push_cast; ring
    · exact ⟨rfl, h0⟩

/-! ### one iteration of the expansion loop -/

theorem inI32_lt {q : Rat} (h : inI32 q = true) : q < 2 ^ 31 := by
  unfold inI32 at h
  rw [Bool.and_eq_true] at h
  have h2 := of_decide_eq_true h.2
  have e : two 31 = (2 : Rat) ^ 31 := by norm_num [two]
  rwa [e] at h2

theorem fracW_fix (f cap : Rat) (cl : Cell) (hcap : f64 cap = cap) : f64 (fracW f cap cl) = fracW f cap cl := by
  unfold fracW capTo
  split
  · exact hcap
  · unfold scaledW; exact f64_idem _

theorem scaledW_nonneg (f : Rat) (cl : Cell) (hf : 0 ≤ f) (hw : 0 ≤ cl.w) : 0 ≤ scaledW f cl := by
  unfold scaledW
  exact f64_nonneg (mul_nonneg (d_nonneg hw) hf)

theorem fracW_nonneg (f cap : Rat) (cl : Cell) (hf : 0 ≤ f) (hcap : 0 ≤ cap) (hw : 0 ≤ cl.w) :
    0 ≤ fracW f cap cl := by
  unfold fracW capTo
  split
  · exact hcap
  · exact scaledW_nonneg f cl hf hw

theorem fracW_le_scaled (f cap : Rat) (cl : Cell) : fracW f cap cl ≤ scaledW f cl := by
  unfold fracW capTo
  split
  · rename_i h; exact le_of_lt h
  · exact le_refl _

/-- slack of one iteration: `2^-51·H` -/
def stepSlack (H : Int) : Rat := (2 : Rat) ^ (-51 : Int) * (H : Rat)

theorem stepSlack_eq (H : Int) : stepSlack H = 4 * (2 : Rat) ^ (-53 : Int) * (H : Rat) := by
  unfold stepSlack
  have : (2 : Rat) ^ (-51 : Int) = 4 * (2 : Rat) ^ (-53 : Int) := by
    rw [show (-51 : Int) = 2 + (-53) by norm_num, z2_add]; norm_num
  rw [this]

/-- `h * (fracW - newW)` for a representable `0 ≤ fw < 2^31`: the inner difference is exact -/
theorem missingTermOf_bounds (h : Int) (fw : Rat) (hh : 0 < h) (hsh : |h| ≤ 2 ^ 31) (hfw0 : 0 ≤ fw)
    (hfwfix : f64 fw = fw) (hfw31 : fw < 2 ^ 31) :
    0 ≤ missingTermOf h fw ∧ missingTermOf h fw ≤ (h : Rat) ∧
    missingTermOf h fw ≤ (h : Rat) * (fw - (truncRat fw : Rat)) * (1 + (2 : Rat) ^ (-53 : Int)) +
      (2 : Rat) ^ (-1075 : Int) := by
  have hdh : d h = (h : Rat) := d_exact _ (abs53_of_abs31 hsh)
  have hhq : (0 : Rat) < (h : Rat) := by exact_mod_cast hh
  have hn0 := Expand.truncRat_nonneg fw hfw0
  have hnle := Expand.truncRat_le fw hfw0
  have hnlt := Expand.lt_truncRat_add_one fw hfw0
  have hn53 : |truncRat fw| ≤ 2 ^ 53 := by
    have h1 : ((truncRat fw : Int) : Rat) < ((2 ^ 31 : Int) : Rat) := by push_cast; linarith
    have h2 : truncRat fw < 2 ^ 31 := by exact_mod_cast h1
    rw [abs_le]; constructor <;> omega
  have hdn : d (truncRat fw) = (truncRat fw : Rat) := d_exact _ hn53
  have hfr : f64 (fw - d (truncRat fw)) = fw - (truncRat fw : Rat) := by
    rw [hdn]; exact f64_sub_int_exact hfwfix _ hn0 hnle (by linarith)
  have hprod0 : 0 ≤ (h : Rat) * (fw - (truncRat fw : Rat)) := mul_nonneg (le_of_lt hhq) (by linarith)
  have hprodh : (h : Rat) * (fw - (truncRat fw : Rat)) ≤ (h : Rat) := by nlinarith
  have ht_def : missingTermOf h fw = f64 ((h : Rat) * (fw - (truncRat fw : Rat))) := by
    unfold missingTermOf; rw [hfr, hdh]
  rw [ht_def]
  refine ⟨f64_nonneg hprod0, ?_, f64_le_gen hprod0⟩
  have := f64_mono hprodh
  rwa [f64_exact_int _ (abs53_of_abs31 hsh)] at this

/-- One active cell, on values: from a carried area `0 ≤ m ≤ H` the new area plus the carried area exceeds
`m + h·fw` by at most `2^-51·H`; the carried area stays non-negative. -/
theorem carryOf_bound (h : Int) (fw m : Rat) (H : Int) (hh : 0 < h) (hsh : |h| ≤ 2 ^ 31) (hH : h ≤ H)
    (hfw0 : 0 ≤ fw) (hfwfix : f64 fw = fw) (hfw31 : fw < 2 ^ 31) (hm0 : 0 ≤ m) (hmH : m ≤ (H : Rat))
    (h53 : f64 (m + missingTermOf h fw) ≤ 2 ^ 53) :
    (h : Rat) * ((carryOf h fw m).1 : Rat) + (carryOf h fw m).2 ≤ m + (h : Rat) * fw + stepSlack H ∧
    0 ≤ (carryOf h fw m).2 := by
  have hdh : d h = (h : Rat) := d_exact _ (abs53_of_abs31 hsh)
  have hhq : (0 : Rat) < (h : Rat) := by exact_mod_cast hh
  have hHq : (h : Rat) ≤ (H : Rat) := by exact_mod_cast hH
  obtain ⟨ht0, hth, htle⟩ := missingTermOf_bounds h fw hh hsh hfw0 hfwfix hfw31
  have hnle := Expand.truncRat_le fw hfw0
  have hnlt := Expand.lt_truncRat_add_one fw hfw0
  have hu := z2_pos (-53)
  have hη := z2_pos (-1075)
  have hma0 : 0 ≤ f64 (m + missingTermOf h fw) := f64_nonneg (by linarith)
  have hmale := f64_le_gen (show 0 ≤ m + missingTermOf h fw by linarith)
  unfold carryOf carryFrom
  rw [hdh]
  generalize carryFuel (h : Rat) (f64 (m + missingTermOf h fw)) = fuel
  have hspec := carryLoop_spec h hh fuel (truncRat fw) (f64 (m + missingTermOf h fw)) (f64_idem _) hma0 h53
  refine ⟨?_, hspec.2⟩
  rw [hspec.1, stepSlack_eq]
  have hηu : 2 * (2 : Rat) ^ (-1075 : Int) ≤ (2 : Rat) ^ (-53 : Int) := by
    have h1 : 2 * (2 : Rat) ^ (-1075 : Int) = (2 : Rat) ^ (-1074 : Int) := by
      rw [show (-1074 : Int) = 1 + (-1075) by norm_num, z2_add]; norm_num
    rw [h1]; exact z2_le (by norm_num)
  have hH1 : (1 : Rat) ≤ (H : Rat) := by linarith [show (1 : Rat) ≤ (h : Rat) by exact_mod_cast hh]
  generalize missingTermOf h fw = t at *
  generalize f64 (m + t) = ma at *
  generalize (2 : Rat) ^ (-53 : Int) = u at *
  generalize (2 : Rat) ^ (-1075 : Int) = η at *
  generalize ((truncRat fw : Int) : Rat) = n at *
  generalize (h : Rat) = hq at *
  generalize (H : Rat) = Hq at *
  -- ma ≤ (m+t)(1+u)+η,  t ≤ hq (fw-n) (1+u) + η,  t ≤ hq ≤ Hq,  m ≤ Hq,  η ≤ u ≤ u Hq
  have e1 : (m + t) * u ≤ 2 * Hq * u := mul_le_mul_of_nonneg_right (by linarith) (le_of_lt hu)
  have e2 : hq * (fw - n) * u ≤ Hq * u := by
    have : hq * (fw - n) ≤ Hq := by nlinarith
    exact mul_le_mul_of_nonneg_right this (le_of_lt hu)
  have e3 : 2 * η ≤ u * Hq := by nlinarith
  have e4 : t ≤ hq * (fw - n) + hq * (fw - n) * u + η := by linarith
  have e5 : ma ≤ m + t + (m + t) * u + η := by linarith
  have e6 : hq * (fw - n) = hq * fw - hq * n := by ring
  linarith

/-- One active cell of the model: area accounting with slack `2^-51·H`; the carried area stays in `[0, h)`. -/
theorem step_bound (f cap m : Rat) (cl : Cell) (H : Int) (hf : 0 ≤ f) (hcap0 : 0 ≤ cap) (hcapfix : f64 cap = cap)
    (ha : active cl = true) (hsh : |cl.h| ≤ 2 ^ 31) (hH : cl.h ≤ H) (hm0 : 0 ≤ m) (hmH : m ≤ (H : Rat))
    (hg : cellGuard f cap m cl = true) :
    (cl.h : Rat) * ((carry f cap m cl).1 : Rat) + (carry f cap m cl).2 ≤
      m + (cl.h : Rat) * fracW f cap cl + stepSlack H ∧
    0 ≤ (carry f cap m cl).2 ∧ (carry f cap m cl).2 < (cl.h : Rat) := by
  obtain ⟨_, hh, hw⟩ := (Expand.active_iff cl).mp ha
  have hdh : d cl.h = (cl.h : Rat) := d_exact _ (abs53_of_abs31 hsh)
  unfold cellGuard carryGuard at hg
  rw [ha] at hg
  simp only [Bool.not_true, Bool.false_or, Bool.and_eq_true, decide_eq_true_eq] at hg
  obtain ⟨_, ⟨hgI, hg53⟩, hglt, _⟩ := hg
  have e53 : (two 53 : Rat) = 2 ^ 53 := by norm_num [two]
  rw [e53] at hg53
  rw [hdh] at hglt
  have hb := carryOf_bound cl.h (fracW f cap cl) m H hh hsh hH (fracW_nonneg f cap cl hf hcap0 (le_of_lt hw))
    (fracW_fix f cap cl hcapfix) (inI32_lt hgI) hm0 hmH (le_of_lt hg53)
  exact ⟨hb.1, hb.2, hglt⟩

/-! ### the whole loop -/

/-- what the loop aims at: `h * fracW` for active cells, the old area for the other movable cells -/
def fracArea (f cap : Rat) : List Cell → Rat
  | [] => 0
  | cl :: l => (if cl.fixed then 0 else if active cl then (cl.h : Rat) * fracW f cap cl
                else ((cl.w * cl.h : Int) : Rat)) + fracArea f cap l

theorem cellsGuard_cons (f cap m : Rat) (cl : Cell) (rest : List Cell) :
    cellsGuard f cap m (cl :: rest) = true ↔
      cellGuard f cap m cl = true ∧ cellsGuard f cap (stepMissing f cap m cl) rest = true := by
  simp [cellsGuard]

/-- the expansion loop with rounding: new movable area + final carried area ≤ initial carried area +
target areas + `2^-51·H` per active cell; the carried area stays non-negative -/
theorem loop_bound (f cap : Rat) (H : Int) (hf : 0 ≤ f) (hcap0 : 0 ≤ cap) (hcapfix : f64 cap = cap) :
    ∀ (l : List Cell) (m : Rat), 0 ≤ m → m ≤ (H : Rat) → cellsGuard f cap m l = true →
      (∀ cl ∈ l, |cl.h| ≤ 2 ^ 31) → (∀ cl ∈ l, active cl = true → cl.h ≤ H) →
      (movableArea (expandCells f cap m l) : Rat) + finalMissing f cap m l ≤
        m + fracArea f cap l + ((l.filter active).length : Rat) * stepSlack H ∧
      0 ≤ finalMissing f cap m l
  | [], m, h0, _, _, _, _ => by
    simp [expandCells, finalMissing, fracArea, Expand.movableArea_nil, h0]
  | cl :: rest, m, h0, hH, hg, hs, hHs => by
    obtain ⟨hg1, hg2⟩ := (cellsGuard_cons f cap m cl rest).mp hg
    have hs' : ∀ c ∈ rest, |c.h| ≤ 2 ^ 31 := fun c hc => hs c (by simp [hc])
    have hHs' : ∀ c ∈ rest, active c = true → c.h ≤ H := fun c hc => hHs c (by simp [hc])
    by_cases ha : active cl = true
    · obtain ⟨hfx, hh, _⟩ := (Expand.active_iff cl).mp ha
      obtain ⟨sb1, sb2, sb3⟩ := step_bound f cap m cl H hf hcap0 hcapfix ha (hs cl (by simp))
        (hHs cl (by simp) ha) h0 hH hg1
      have hmiss : stepMissing f cap m cl = (carry f cap m cl).2 := by unfold stepMissing; rw [if_pos ha]
      have hcell : stepCell f cap m cl = { cl with w := (carry f cap m cl).1 } := by
        unfold stepCell; rw [if_pos ha]
      have hle : (carry f cap m cl).2 ≤ (H : Rat) := by
        have : (cl.h : Rat) ≤ (H : Rat) := by exact_mod_cast hHs cl (by simp) ha
        linarith
      rw [hmiss] at hg2
      obtain ⟨ih1, ih2⟩ := loop_bound f cap H hf hcap0 hcapfix rest _ sb2 hle hg2 hs' hHs'
      simp only [expandCells, finalMissing, fracArea, Expand.movableArea_cons, hmiss, hcell, hfx,
        Bool.false_eq_true, if_false, ha, if_true, List.filter_cons, List.length_cons]
      refine ⟨?_, ih2⟩
      push_cast
      linarith
    · have ha' : active cl = false := by simpa using ha
      have hmiss : stepMissing f cap m cl = m := by unfold stepMissing; rw [if_neg ha]
      have hcell : stepCell f cap m cl = cl := by unfold stepCell; rw [if_neg ha]
      rw [hmiss] at hg2
      obtain ⟨ih1, ih2⟩ := loop_bound f cap H hf hcap0 hcapfix rest m h0 hH hg2 hs' hHs'
      simp only [expandCells, finalMissing, fracArea, Expand.movableArea_cons, hmiss, hcell, ha',
        Bool.false_eq_true, if_false, List.filter_cons]
      refine ⟨?_, ih2⟩
      by_cases hfx : cl.fixed = true
      · simp only [hfx, if_true]; push_cast; linarith
      · simp only [hfx, Bool.false_eq_true, if_false]; push_cast; linarith

/-- what the loop aims at is at most `factor·(1+2^-53)` times the movable area -/
theorem fracArea_le (f cap : Rat) (hf : 1 ≤ f) : ∀ (l : List Cell), NonnegSizes l → (∀ cl ∈ l, |cl.w| ≤ 2 ^ 31) →
    fracArea f cap l ≤ f * (1 + (2 : Rat) ^ (-53 : Int)) * (movableArea l : Rat)
  | [], _, _ => by simp [fracArea, Expand.movableArea_nil]
  | cl :: rest, hn, hs => by
    have ih := fracArea_le f cap hf rest (fun c hc => hn c (by simp [hc])) (fun c hc => hs c (by simp [hc]))
    simp only [fracArea, Expand.movableArea_cons]
    by_cases hfx : cl.fixed = true
    · simp only [hfx, if_true]; push_cast; linarith
    · have hfx' : cl.fixed = false := by simpa using hfx
      obtain ⟨hw, hh⟩ := hn cl (by simp) hfx'
      simp only [hfx', Bool.false_eq_true, if_false]
      by_cases ha : active cl = true
      · obtain ⟨_, hhpos, hwpos⟩ := (Expand.active_iff cl).mp ha
        simp only [ha, if_true]
        have hw1 : (1 : Rat) ≤ (cl.w : Rat) := by exact_mod_cast (show (1 : Int) ≤ cl.w by omega)
        have hhq : (0 : Rat) ≤ (cl.h : Rat) := by exact_mod_cast hh
        have hnorm : (2 : Rat) ^ (-1022 : Int) ≤ (cl.w : Rat) * f := by
          have h1 : (2 : Rat) ^ (-1022 : Int) ≤ (2 : Rat) ^ (0 : Int) := z2_le (by norm_num)
          have h2 : (1 : Rat) ≤ (cl.w : Rat) * f := by nlinarith
          simp only [zpow_zero] at h1
          linarith
        have hsc : scaledW f cl ≤ (cl.w : Rat) * f * (1 + (2 : Rat) ^ (-53 : Int)) := by
          unfold scaledW
          rw [d_exact _ (abs53_of_abs31 (hs cl (by simp)))]
          exact f64_rel_le hnorm
        have hfr := fracW_le_scaled f cap cl
        have h1 : (cl.h : Rat) * fracW f cap cl ≤ (cl.h : Rat) * ((cl.w : Rat) * f * (1 + (2 : Rat) ^ (-53 : Int))) :=
          mul_le_mul_of_nonneg_left (le_trans hfr hsc) hhq
        push_cast
        linarith
      · have ha' : active cl = false := by simpa using ha
        have hz := Expand.inactive_area_zero cl hfx' hw hh ha'
        simp only [ha', Bool.false_eq_true, if_false, hz]
        push_cast
        linarith

theorem isI64_abs {n : Int} (h : isI64 n = true) : |n| ≤ 2 ^ 63 := by
  simp only [isI64, Bool.and_eq_true, decide_eq_true_eq] at h
  rw [abs_le]; constructor <;> omega

/-- the rounded factor: `factor · A · (1−u)² ≤ (1+u)² · target · R` for `u = 2^-53` -/
theorem factor_le (A R : Int) (t : Rat) (hA : 0 < A) (hR : 0 < R) (hR63 : |R| ≤ 2 ^ 63)
    (hd : densityOf A R ≠ 0) (hn : ¬ noopOf A R t) :
    factorOf A R t * (A : Rat) * (1 - (2 : Rat) ^ (-53 : Int)) ^ 2 ≤
      (1 + (2 : Rat) ^ (-53 : Int)) ^ 2 * t * (R : Rat) := by
  have hu := z2_pos (-53)
  have hu1 : (2 : Rat) ^ (-53 : Int) < 1 := by rw [two_zpow_neg53]; norm_num
  have hAq : (1 : Rat) ≤ (A : Rat) := by exact_mod_cast (show (1 : Int) ≤ A by omega)
  have hRq : (1 : Rat) ≤ (R : Rat) := by exact_mod_cast (show (1 : Int) ≤ R by omega)
  have one_norm : (2 : Rat) ^ (-1022 : Int) ≤ 1 := by
    have h1 : (2 : Rat) ^ (-1022 : Int) ≤ (2 : Rat) ^ (0 : Int) := z2_le (by norm_num)
    simpa using h1
  -- (1) the two conversions
  have hdA : (A : Rat) * (1 - (2 : Rat) ^ (-53 : Int)) ≤ d A := f64_rel_ge (le_trans one_norm hAq)
  have hdR : d R ≤ (R : Rat) * (1 + (2 : Rat) ^ (-53 : Int)) := f64_rel_le (le_trans one_norm hRq)
  have hdA1 : 1 ≤ d A := d_ge_one hA
  have hdR1 : 1 ≤ d R := d_ge_one hR
  have hdR63 : d R ≤ (2 : Rat) ^ (63 : Int) := by
    have h1 : (R : Rat) ≤ (2 : Rat) ^ (63 : Int) := by
      have : R ≤ 2 ^ 63 := (abs_le.mp hR63).2
      have e : (2 : Rat) ^ (63 : Int) = (((2 : Int) ^ 63 : Int) : Rat) := by norm_num
      rw [e]; exact_mod_cast this
    have := f64_mono h1
    rwa [f64_pow2 (by norm_num)] at this
  -- (2) the density
  have hq_norm : (2 : Rat) ^ (-1022 : Int) ≤ d A / d R := by
    have h1 : (2 : Rat) ^ (-1022 : Int) ≤ (2 : Rat) ^ (-63 : Int) := z2_le (by norm_num)
    have h2 : (2 : Rat) ^ (-63 : Int) ≤ d A / d R := by
      rw [le_div_iff₀ (by linarith)]
      have h3 : (2 : Rat) ^ (-63 : Int) * (2 : Rat) ^ (63 : Int) = 1 := by rw [← z2_add]; norm_num
      have h4 : (2 : Rat) ^ (-63 : Int) * d R ≤ (2 : Rat) ^ (-63 : Int) * (2 : Rat) ^ (63 : Int) :=
        mul_le_mul_of_nonneg_left hdR63 (le_of_lt (z2_pos _))
      linarith
    exact le_trans h1 h2
  have hdn : d A / d R * (1 - (2 : Rat) ^ (-53 : Int)) ≤ densityOf A R := f64_rel_ge hq_norm
  have hdnpos := densityOf_pos (le_of_lt hA) (le_of_lt hR) hd
  have hdn' : d A * (1 - (2 : Rat) ^ (-53 : Int)) ≤ densityOf A R * d R := by
    have hpos : (0 : Rat) < d R := by linarith
    have := mul_le_mul_of_nonneg_right hdn (le_of_lt hpos)
    rwa [mul_right_comm, div_mul_cancel₀ _ (ne_of_gt hpos)] at this
  -- (3) the factor
  have hlt : densityOf A R < t := by
    unfold noopOf at hn
    exact not_le.mp (fun h => hn (Or.inr (Or.inr h)))
  have ht1 : 1 ≤ t / densityOf A R := (le_div_iff₀ hdnpos).mpr (by linarith)
  have hF : factorOf A R t ≤ t / densityOf A R * (1 + (2 : Rat) ^ (-53 : Int)) := f64_rel_le (le_trans one_norm ht1)
  have hF0 : 0 ≤ factorOf A R t := by
    have := factorOf_ge_one A R t hdnpos hn; linarith
  have hF' : factorOf A R t * densityOf A R ≤ t * (1 + (2 : Rat) ^ (-53 : Int)) := by
    have := mul_le_mul_of_nonneg_right hF (le_of_lt hdnpos)
    rwa [mul_right_comm, div_mul_cancel₀ _ (ne_of_gt hdnpos)] at this
  -- chain
  generalize (2 : Rat) ^ (-53 : Int) = u at *
  generalize factorOf A R t = F at *
  generalize densityOf A R = dn at *
  generalize d A = dA at *
  generalize d R = dR at *
  have ht0 : 0 < t := by linarith
  have c1 : F * (A : Rat) * (1 - u) ^ 2 ≤ F * dA * (1 - u) := by
    have : F * ((A : Rat) * (1 - u)) * (1 - u) ≤ F * dA * (1 - u) :=
      mul_le_mul_of_nonneg_right (mul_le_mul_of_nonneg_left hdA hF0) (by linarith)
    nlinarith
  have c2 : F * dA * (1 - u) ≤ F * (dn * dR) := by
    have := mul_le_mul_of_nonneg_left hdn' hF0
    linarith
  have c3 : F * (dn * dR) ≤ t * (1 + u) * dR := by
    have := mul_le_mul_of_nonneg_right hF' (show (0 : Rat) ≤ dR by linarith)
    linarith
  have c4 : t * (1 + u) * dR ≤ t * (1 + u) * ((R : Rat) * (1 + u)) :=
    mul_le_mul_of_nonneg_left hdR (by nlinarith)
  nlinarith

/-- `(1+u)³ ≤ (1+8u)(1−u)²` for `u = 2^-53` -/
theorem slack_numeric : (1 + (2 : Rat) ^ (-53 : Int)) ^ 3 ≤
    (1 + (2 : Rat) ^ (-50 : Int)) * (1 - (2 : Rat) ^ (-53 : Int)) ^ 2 := by
  have e50 : (2 : Rat) ^ (-50 : Int) = 1 / 1125899906842624 := by norm_num
  rw [two_zpow_neg53, e50]
  norm_num

/-! ### the float path of `expandCellsByFactor` -/

/-- `cellWidth_[i] *= expansion[i]` for a width `0 ≤ w ≤ 2^24` and a factor `e ≥ 1/2`: the new width is at
most `w·e·(1+2^-24)` -/
theorem scaledF_le (w : Int) (e : Rat) (hw0 : 0 ≤ w) (hw : w ≤ 2 ^ 24) (he : 1 / 2 ≤ e) :
    (truncRat (scaledF w e) : Rat) ≤ (w : Rat) * e * (1 + (2 : Rat) ^ (-24 : Int)) := by
  have hwq : (0 : Rat) ≤ (w : Rat) := by exact_mod_cast hw0
  have habs : |w| ≤ 2 ^ 24 := by rw [abs_le]; constructor <;> omega
  have hs0 : 0 ≤ scaledF w e := by
    unfold scaledF
    exact f32'_nonneg (mul_nonneg (f32'_nonneg hwq) (by linarith))
  refine le_trans (Expand.truncRat_le _ hs0) ?_
  unfold scaledF
  rw [f32'_exact_int w habs]
  rcases eq_or_lt_of_le hw0 with h0 | h0
  · rw [← h0]; simp [f32'_zero]
  · have hw1 : (1 : Rat) ≤ (w : Rat) := by exact_mod_cast (show (1 : Int) ≤ w by omega)
    have hnorm : (2 : Rat) ^ (-126 : Int) ≤ (w : Rat) * e := by
      have h1 : (2 : Rat) ^ (-126 : Int) ≤ (2 : Rat) ^ (-1 : Int) := z2_le (by norm_num)
      have h2 : (2 : Rat) ^ (-1 : Int) = 1 / 2 := by norm_num
      have h3 : (1 : Rat) / 2 ≤ (w : Rat) * e := by nlinarith
      rw [h2] at h1
      exact le_trans h1 h3
    exact f32'_rel_le hnorm

theorem applyFactors_area_le : ∀ (l : List Cell) (es : List Rat), NonnegSizes l → (∀ e ∈ es, 1 / 2 ≤ e) →
    (∀ cl ∈ l, cl.fixed = false → cl.w ≤ 2 ^ 24) → l.length = es.length →
    (movableArea (applyFactors l es) : Rat) ≤ (1 + (2 : Rat) ^ (-24 : Int)) * Expand.expandedArea l es
  | [], [], _, _, _, _ => by simp [applyFactors, Expand.expandedArea, Expand.movableArea_nil]
  | [], _ :: _, _, _, _, h => by simp at h
  | _ :: _, [], _, _, _, h => by simp at h
  | cl :: rest, e :: es, hn, he, hw, hlen => by
    have ih := applyFactors_area_le rest es (fun c h => hn c (by simp [h])) (fun x h => he x (by simp [h]))
      (fun c h => hw c (by simp [h])) (by simpa using hlen)
    simp only [applyFactors, Expand.expandedArea, Expand.movableArea_cons]
    by_cases hfx : cl.fixed = true
    · simp only [hfx, if_true]; push_cast; linarith
    · have hfx' : cl.fixed = false := by simpa using hfx
      obtain ⟨hw0, hh0⟩ := hn cl (by simp) hfx'
      have hsc := scaledF_le cl.w e hw0 (hw cl (by simp) hfx') (he e (by simp))
      rw [← applyOne_eq_of_small cl.w e hw0 (by rw [abs_le]; constructor <;> [skip; exact hw cl (by simp) hfx'] <;> omega)] at hsc
      have hhq : (0 : Rat) ≤ (cl.h : Rat) := by exact_mod_cast hh0
      have h1 := mul_le_mul_of_nonneg_right hsc hhq
      simp only [hfx', Bool.false_eq_true, if_false, cellArea]
      push_cast
      linarith

/-- the repaired width update for ANY width `w ≥ 0` and a factor `e ≥ 1/2`: at most `w·e·(1+2^-24)²`
(one rounding for `(float)w`, one for the product; the `std::max` with `w` costs nothing since `w ≤ w·e`) -/
theorem applyOne_le (w : Int) (e : Rat) (hw0 : 0 ≤ w) (he : 1 / 2 ≤ e) :
    (applyOne w e : Rat) ≤ (w : Rat) * e * (1 + (2 : Rat) ^ (-24 : Int)) ^ 2 := by
  have hε := z2_pos (-24)
  have hwq : (0 : Rat) ≤ (w : Rat) := by exact_mod_cast hw0
  have hhalf : (2 : Rat) ^ (-126 : Int) ≤ 1 / 2 := by
    have h1 : (2 : Rat) ^ (-126 : Int) ≤ (2 : Rat) ^ (-1 : Int) := z2_le (by norm_num)
    have h2 : (2 : Rat) ^ (-1 : Int) = 1 / 2 := by norm_num
    rwa [h2] at h1
  have htr : (truncRat (scaledF w e) : Rat) ≤ (w : Rat) * e * (1 + (2 : Rat) ^ (-24 : Int)) ^ 2 := by
    have hs0 : 0 ≤ scaledF w e := by
      unfold scaledF
      exact f32'_nonneg (mul_nonneg (f32'_nonneg hwq) (by linarith))
    refine le_trans (Expand.truncRat_le _ hs0) ?_
    unfold scaledF
    rcases eq_or_lt_of_le hw0 with h0 | h0
    · rw [← h0]; simp [f32'_zero]
    · have hw1 : (1 : Rat) ≤ (w : Rat) := by exact_mod_cast (show (1 : Int) ≤ w by omega)
      have hf1 : 1 ≤ f32' (w : Rat) := f32'_ge_one hw1
      have hfw : f32' (w : Rat) ≤ (w : Rat) * (1 + (2 : Rat) ^ (-24 : Int)) :=
        f32'_rel_le (le_trans hhalf (by linarith))
      have hp : (1 : Rat) / 2 ≤ f32' (w : Rat) * e := by nlinarith
      have h2 := f32'_rel_le (le_trans hhalf hp)
      have h3 : f32' (w : Rat) * e * (1 + (2 : Rat) ^ (-24 : Int)) ≤
          (w : Rat) * (1 + (2 : Rat) ^ (-24 : Int)) * e * (1 + (2 : Rat) ^ (-24 : Int)) :=
        mul_le_mul_of_nonneg_right (mul_le_mul_of_nonneg_right hfw (by linarith)) (by linarith)
      have e4 : (w : Rat) * (1 + (2 : Rat) ^ (-24 : Int)) * e * (1 + (2 : Rat) ^ (-24 : Int)) =
          (w : Rat) * e * (1 + (2 : Rat) ^ (-24 : Int)) ^ 2 := by ring
      linarith
  unfold applyOne
  split
  · rename_i he1
    rw [Int.cast_max]
    refine max_le htr ?_
    have h1 : (w : Rat) ≤ (w : Rat) * e := by nlinarith
    have h2 : (1 : Rat) ≤ (1 + (2 : Rat) ^ (-24 : Int)) ^ 2 := by nlinarith
    have h3 : 0 ≤ (w : Rat) * e := mul_nonneg hwq (by linarith)
    nlinarith
  · exact htr

theorem applyFactors_area_le_any : ∀ (l : List Cell) (es : List Rat), NonnegSizes l → (∀ e ∈ es, 1 / 2 ≤ e) →
    l.length = es.length →
    (movableArea (applyFactors l es) : Rat) ≤ (1 + (2 : Rat) ^ (-24 : Int)) ^ 2 * Expand.expandedArea l es
  | [], [], _, _, _ => by simp [applyFactors, Expand.expandedArea, Expand.movableArea_nil]
  | [], _ :: _, _, _, h => by simp at h
  | _ :: _, [], _, _, h => by simp at h
  | cl :: rest, e :: es, hn, he, hlen => by
    have ih := applyFactors_area_le_any rest es (fun c h => hn c (by simp [h])) (fun x h => he x (by simp [h]))
      (by simpa using hlen)
    simp only [applyFactors, Expand.expandedArea, Expand.movableArea_cons]
    by_cases hfx : cl.fixed = true
    · simp only [hfx, if_true]; push_cast; linarith
    · have hfx' : cl.fixed = false := by simpa using hfx
      obtain ⟨hw0, hh0⟩ := hn cl (by simp) hfx'
      have hsc := applyOne_le cl.w e hw0 (he e (by simp))
      have hhq : (0 : Rat) ≤ (cl.h : Rat) := by exact_mod_cast hh0
      have h1 := mul_le_mul_of_nonneg_right hsc hhq
      simp only [hfx', Bool.false_eq_true, if_false, cellArea]
      push_cast
      linarith

end ExpandF
end ColoVerif
