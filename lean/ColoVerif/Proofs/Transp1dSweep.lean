import ColoVerif.Proofs.Transp1dBasic
/-
The sweep of `Transportation1dSolver` never indexes out of range: every function is total on
states satisfying `lastOccupiedSink < nbSinks`, `optimalSink < nbSinks`, except for the fuel of
the `while` loop in `push`.
-/
namespace ColoVerif.Transp1d

/-- the only way to fail is the model's fuel -/
def Safe {α : Type} (P : α → Prop) : M α → Prop
  | .ok a => P a
  | .error e => e = Err.outOfFuel

theorem Safe.bind {α β : Type} {P : α → Prop} {Q : β → Prop} {x : M α} {f : α → M β}
    (hx : Safe P x) (hf : ∀ a, P a → Safe Q (f a)) : Safe Q (x >>= f) := by
  cases x with
  | ok a => exact hf a hx
  | error e => exact hx

theorem Safe.ok {α : Type} {P : α → Prop} {a : α} (h : P a) : Safe P (Except.ok a : M α) := h

theorem Safe.mono {α : Type} {P Q : α → Prop} {x : M α} (hx : Safe P x) (h : ∀ a, P a → Q a) :
    Safe Q x := by
  cases x with
  | ok a => exact h a hx
  | error e => exact hx

structure Solver.WF (sv : Solver) : Prop where
  hs : sv.s.length = sv.u.length
  hd : sv.d.length = sv.v.length
  hS : sv.S.length = sv.u.length + 1
  hD : sv.D.length = sv.v.length + 1

theorem cost_ok (sv : Solver) (i j : Nat) (hi : i < sv.u.length) (hj : j < sv.v.length) :
    cost sv i j = .ok (iabs (sv.u.getD i 0 - sv.v.getD j 0)) := by
  simp [cost, get_ok' _ _ hi, get_ok' _ _ hj, bind, Except.bind, pure, Except.pure]

theorem delta_ok (sv : Solver) (i j : Nat) (hi : i + 1 < sv.u.length) (hj : j + 1 < sv.v.length) :
    ∃ x, delta sv i j = .ok x := by
  simp [delta, cost_ok sv i (j + 1) (by omega) hj, cost_ok sv (i + 1) j hi (by omega),
    cost_ok sv (i + 1) (j + 1) hi hj, cost_ok sv i j (by omega) (by omega),
    bind, Except.bind, pure, Except.pure]

theorem updOpt_ok (sv : Solver) (i : Nat) (hi : i < sv.u.length) (k j : Nat)
    (hj : j < sv.v.length) : ∃ o, updOpt sv i k j = .ok o ∧ o < sv.v.length := by
  induction k generalizing j with
  | zero => exact ⟨j, rfl, hj⟩
  | succ k ih =>
    unfold updOpt
    by_cases h : j + 1 < sv.nbSinks
    · have h' : j + 1 < sv.v.length := h
      simp only [h, if_true, cost_ok sv i j hi hj, cost_ok sv i (j + 1) hi h', bind, Except.bind]
      split
      · exact ih (j + 1) h'
      · exact ⟨j, rfl, hj⟩
    · simp only [h, if_false]
      exact ⟨j, rfl, hj⟩

theorem srcEvLoop_ok (sv : Solver) (wf : sv.WF) (i : Nat) (hi0 : 0 < i) (hi : i < sv.u.length)
    (cnt j : Nat) (ev : List Event) (h : cnt = 0 ∨ j + cnt < sv.v.length) :
    ∃ ev', srcEvLoop sv i cnt j ev = .ok ev' := by
  induction cnt generalizing j ev with
  | zero => exact ⟨ev, rfl⟩
  | succ cnt ih =>
    have hj : j + (cnt + 1) < sv.v.length := by omega
    obtain ⟨x, hx⟩ := delta_ok sv (i - 1) j (by omega) (by omega)
    unfold srcEvLoop
    simp only [get_ok' sv.D (j + 1) (by have := wf.hD; omega), get_ok' sv.S i (by have := wf.hS; omega),
      hx, bind, Except.bind]
    exact ih (j + 1) _ (by omega)

theorem snkEvLoop_ok (sv : Solver) (wf : sv.WF) (i : Nat) (hi : i < sv.u.length) (lp : Int)
    (cnt l : Nat) (ev : List Event) (h : l + cnt < sv.v.length) :
    ∃ ev', snkEvLoop sv i lp cnt l ev = .ok ev' := by
  induction cnt generalizing l ev with
  | zero => exact ⟨ev, rfl⟩
  | succ cnt ih =>
    unfold snkEvLoop
    simp only [get_ok' sv.D (l + 1) (by have := wf.hD; omega), get_ok' sv.S i (by have := wf.hS; omega),
      cost_ok sv i l hi (by omega), cost_ok sv i (l + 1) hi (by omega), bind, Except.bind]
    exact ih (l + 1) _ (by omega)

/-- what the event-only steps preserve -/
structure Keeps (sv : Solver) (st st' : St) : Prop where
  pRev : st'.pRev = st.pRev
  occ : st'.lastOcc < sv.v.length
  opt : st'.optSink = st.optSink
  pos : 0 ≤ st'.lastPosition

theorem pushNewSourceEvents_ok (sv : Solver) (wf : sv.WF) (i : Nat) (hi : i < sv.u.length) (st : St)
    (hocc : st.lastOcc < sv.v.length) :
    ∃ st', pushNewSourceEvents sv i st = .ok st' ∧ st'.pRev = st.pRev ∧ st'.lastOcc = st.lastOcc ∧
      st'.optSink = st.optSink ∧ st'.lastPosition = st.lastPosition := by
  unfold pushNewSourceEvents
  by_cases h0 : i = 0
  · simp only [h0, if_true]; exact ⟨st, rfl, rfl, rfl, rfl, rfl⟩
  · simp only [h0, if_false, get_ok' sv.u (i - 1) (by omega), get_ok' sv.u i hi, bind, Except.bind]
    obtain ⟨ev', h⟩ := srcEvLoop_ok sv wf i (by omega) hi
      (min (lowerBound sv.v (sv.u.getD i 0)) st.lastOcc - (upperBound sv.v (sv.u.getD (i - 1) 0) - 1))
      (upperBound sv.v (sv.u.getD (i - 1) 0) - 1) st.events (by omega)
    simp only [h]
    exact ⟨_, rfl, rfl, rfl, rfl, rfl⟩

theorem pushNewSinkEvents_ok (sv : Solver) (wf : sv.WF) (i j : Nat) (hi : i < sv.u.length)
    (hj : j < sv.v.length) (st : St) (hocc : st.lastOcc < sv.v.length) (hpos : 0 ≤ st.lastPosition) :
    ∃ st', pushNewSinkEvents sv i j st = .ok st' ∧ Keeps sv st st' ∧
      st'.lastPosition = st.lastPosition := by
  unfold pushNewSinkEvents
  by_cases h0 : j ≤ st.lastOcc
  · simp only [h0, if_true]; exact ⟨st, rfl, ⟨rfl, hocc, rfl, hpos⟩, rfl⟩
  · obtain ⟨ev', h⟩ := snkEvLoop_ok sv wf i hi st.lastPosition (j - st.lastOcc) st.lastOcc st.events
      (by omega)
    simp only [h0, if_false, h, bind, Except.bind]
    exact ⟨_, rfl, ⟨rfl, hj, rfl, hpos⟩, rfl⟩

theorem pushToLastSink_ok (sv : Solver) (wf : sv.WF) (i : Nat) (hi : i < sv.u.length) (st : St)
    (hocc : st.lastOcc < sv.v.length) :
    ∃ st', pushToLastSink sv i st = .ok st' ∧ Keeps sv st st' := by
  unfold pushToLastSink
  simp only [get_ok' sv.D (st.lastOcc + 1) (by have := wf.hD; omega),
    get_ok' sv.S (i + 1) (by have := wf.hS; omega), bind, Except.bind, pure, Except.pure]
  refine ⟨_, rfl, ⟨rfl, hocc, rfl, ?_⟩⟩
  simp only
  unfold topOr
  split
  · exact Int.le_max_right _ _
  · exact Int.le_trans (Int.le_max_right _ _) (Int.le_max_left _ _)

theorem pushOnce_ok (sv : Solver) (wf : sv.WF) (i : Nat) (hi : i < sv.u.length) (st : St)
    (hocc : st.lastOcc < sv.v.length) (hpos : 0 ≤ st.lastPosition) :
    ∃ st', pushOnce sv i st = .ok st' ∧ Keeps sv st st' := by
  unfold pushOnce
  by_cases h1 : st.lastOcc + 1 = sv.nbSinks
  · simp only [h1, if_true]; exact pushToLastSink_ok sv wf i hi st hocc
  · have h1' : st.lastOcc + 1 < sv.v.length := by
      have : ¬ st.lastOcc + 1 = sv.v.length := h1
      omega
    simp only [h1, if_false]
    by_cases h2 : st.lastPosition = 0
    · simp only [h2, if_true, pushToNewSink]
      obtain ⟨st', e, k, _⟩ := pushNewSinkEvents_ok sv wf i (st.lastOcc + 1) hi h1' st hocc hpos
      exact ⟨st', e, k⟩
    · simp only [h2, if_false, cost_ok sv i (st.lastOcc + 1) hi h1', cost_ok sv i st.lastOcc hi hocc,
        bind, Except.bind]
      have kp : Keeps sv st (getSlopeKeep st).2 := ⟨rfl, hocc, rfl, hpos⟩
      split
      · obtain ⟨st', e, k, _⟩ := pushNewSinkEvents_ok sv wf i ((getSlopeKeep st).2.lastOcc + 1) hi h1'
          (getSlopeKeep st).2 hocc hpos
        exact ⟨st', e, ⟨k.pRev, k.occ, k.opt, k.pos⟩⟩
      · obtain ⟨st', e, k⟩ := pushToLastSink_ok sv wf i hi (getSlopeKeep st).2 hocc
        exact ⟨st', e, ⟨k.pRev, k.occ, k.opt, k.pos⟩⟩

theorem pushLoop_safe (sv : Solver) (wf : sv.WF) (i : Nat) (hi : i < sv.u.length) (fuel : Nat)
    (st : St) (hocc : st.lastOcc < sv.v.length) (hpos : 0 ≤ st.lastPosition) :
    Safe (fun st' => Keeps sv st st') (pushLoop sv i fuel st) := by
  induction fuel generalizing st with
  | zero => exact rfl
  | succ fuel ih =>
    unfold pushLoop
    simp only [get_ok' sv.D (st.lastOcc + 1) (by have := wf.hD; omega),
      get_ok' sv.S (i + 1) (by have := wf.hS; omega), bind, Except.bind]
    split
    · obtain ⟨st1, e, k⟩ := pushOnce_ok sv wf i hi st hocc hpos
      simp only [e]
      exact (ih st1 k.occ k.pos).mono
        (fun a ka => ⟨ka.pRev.trans k.pRev, ka.occ, ka.opt.trans k.opt, ka.pos⟩)
    · exact ⟨rfl, hocc, rfl, hpos⟩

/-- invariant of the sweep between two `push`es -/
structure Inv (sv : Solver) (st : St) : Prop where
  occ : st.lastOcc < sv.v.length
  opt : st.optSink < sv.v.length
  pos : 0 ≤ st.lastPosition
  pnn : ∀ x ∈ st.pRev, 0 ≤ x

theorem push_safe (sv : Solver) (wf : sv.WF) (i : Nat) (hi : i < sv.u.length) (st : St)
    (inv : Inv sv st) :
    Safe (fun st' => Inv sv st' ∧ st'.pRev.length = st.pRev.length + 1) (push sv i st) := by
  unfold push
  obtain ⟨o, e1, ho⟩ := updOpt_ok sv i hi sv.nbSinks st.optSink inv.opt
  obtain ⟨st1, e2, k1, k2, k3, k4⟩ :=
    pushNewSourceEvents_ok sv wf i hi { st with optSink := o } inv.occ
  have hpos1 : 0 ≤ max st1.lastPosition (sv.D.getD o 0 - sv.S.getD i 0) := by
    have : 0 ≤ st1.lastPosition := by rw [k4]; exact inv.pos
    exact Int.le_trans this (Int.le_max_left _ _)
  obtain ⟨st2, e3, k5, _⟩ := pushNewSinkEvents_ok sv wf i o hi ho
    { st1 with lastPosition := max st1.lastPosition (sv.D.getD o 0 - sv.S.getD i 0) }
    (by simpa [k2] using inv.occ) hpos1
  simp only [e1, e2, get_ok' sv.D o (by have := wf.hD; omega), get_ok' sv.S i (by have := wf.hS; omega),
    e3, bind, Except.bind]
  refine (pushLoop_safe sv wf i hi _ st2 k5.occ k5.pos).bind ?_
  intro st3 k6
  refine Safe.ok ⟨⟨k6.occ, ?_, k6.pos, ?_⟩, ?_⟩
  · have : st3.optSink = o := by rw [k6.opt, k5.opt]; simp [k3]
    simp [this, ho]
  · have hp : st3.pRev = st.pRev := by rw [k6.pRev, k5.pRev]; simp [k1]
    intro x hx
    simp only [List.mem_cons] at hx
    rcases hx with h | h
    · rw [h]; exact k6.pos
    · exact inv.pnn x (hp ▸ h)
  · have hp : st3.pRev = st.pRev := by rw [k6.pRev, k5.pRev]; simp [k1]
    simp [hp]

theorem pushAll_safe (sv : Solver) (wf : sv.WF) (cnt i : Nat) (h : i + cnt ≤ sv.u.length)
    (st : St) (inv : Inv sv st) :
    Safe (fun st' => Inv sv st' ∧ st'.pRev.length = st.pRev.length + cnt)
      (pushAll sv cnt i st) := by
  induction cnt generalizing i st with
  | zero => exact ⟨inv, rfl⟩
  | succ cnt ih =>
    unfold pushAll
    refine (push_safe sv wf i (by omega) st inv).bind ?_
    intro st1 ⟨inv1, hl⟩
    exact (ih (i + 1) (by omega) st1 inv1).mono (fun a ⟨ia, la⟩ => ⟨ia, by omega⟩)

end ColoVerif.Transp1d
