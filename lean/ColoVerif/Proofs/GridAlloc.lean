import ColoVerif.Proofs.GridAllocRedist
import ColoVerif.Proofs.GridHier
/-
C16, allocation invariant — every operation, every list of operations.
-/
namespace ColoVerif.Grid

/-- invariant carried through an operation list: allocation + the (static) hierarchies are well formed -/
structure Inv (nX nY : Nat) (s : HState) : Prop where
  alloc : AllocInv s
  hxOk : HierOk s.hx nX
  hyOk : HierOk s.hy nY

theorem updateCellToBin_static (s : HState) :
    s.updateCellToBin.hx = s.hx ∧ s.updateCellToBin.hy = s.hy := ⟨rfl, rfl⟩

theorem refineX_static (s : HState) : s.refineX.hx = s.hx ∧ s.refineX.hy = s.hy := by
  unfold HState.refineX; split <;> exact ⟨rfl, rfl⟩
theorem refineY_static (s : HState) : s.refineY.hx = s.hx ∧ s.refineY.hy = s.hy := by
  unfold HState.refineY; split <;> exact ⟨rfl, rfl⟩
theorem coarsenX_static (s : HState) : s.coarsenX.hx = s.hx ∧ s.coarsenX.hy = s.hy := by
  unfold HState.coarsenX; split <;> exact ⟨rfl, rfl⟩
theorem coarsenY_static (s : HState) : s.coarsenY.hx = s.hx ∧ s.coarsenY.hy = s.hy := by
  unfold HState.coarsenY; split <;> exact ⟨rfl, rfl⟩

theorem inv_redistribute {nX nY : Nat} (s : HState) (h : Inv nX nY s) (G : List (Nat × Nat))
    (contents : List (List Nat)) : Inv nX nY (s.redistribute G contents) := by
  obtain ⟨e1, e2, _, _⟩ := redistribute_static s G contents
  exact ⟨allocInv_redistribute s h.alloc G contents, by rw [e1]; exact h.hxOk, by rw [e2]; exact h.hyOk⟩

theorem inv_rebisectSk {nX nY : Nat} (s : HState) (h : Inv nX nY s) (x1 y1 x2 y2 : Nat) (order : List Nat)
    (split : Nat) : Inv nX nY (s.rebisectSk x1 y1 x2 y2 order split) := by
  unfold HState.rebisectSk
  split
  · exact h
  · exact inv_redistribute s h _ _

theorem inv_reoptimizeSk {nX nY : Nat} (s : HState) (h : Inv nX nY s) (cands : List (Nat × Nat))
    (order : List Nat) (split : Nat) (assign : List Nat) :
    Inv nX nY (s.reoptimizeSk cands order split assign) := by
  unfold HState.reoptimizeSk
  split
  · exact inv_rebisectSk s h _ _ _ _ _ _
  · simp only
    split
    · exact h
    · exact inv_redistribute s h _ _

theorem inv_foldl {nX nY : Nat} {α : Type} (f : HState → α → HState)
    (hf : ∀ s a, Inv nX nY s → Inv nX nY (f s a)) (l : List α) :
    ∀ s, Inv nX nY s → Inv nX nY (l.foldl f s) := by
  induction l with
  | nil => intro s h; exact h
  | cons a rest ih => intro s h; exact ih _ (hf s a h)

theorem inv_xTransport {nX nY : Nat} (s : HState) (h : Inv nX nY s) (assigns : List (List Nat)) :
    Inv nX nY (s.improveXTransportSk assigns) := by
  unfold HState.improveXTransportSk
  exact inv_foldl _ (fun st j hst => by unfold HState.xTransportRow; exact inv_redistribute st hst _ _) _ s h

theorem inv_yTransport {nX nY : Nat} (s : HState) (h : Inv nX nY s) (assigns : List (List Nat)) :
    Inv nX nY (s.improveYTransportSk assigns) := by
  unfold HState.improveYTransportSk
  exact inv_foldl _ (fun st j hst => by unfold HState.yTransportCol; exact inv_redistribute st hst _ _) _ s h

theorem inv_apply {nX nY : Nat} (s : HState) (h : Inv nX nY s) (op : Op) : Inv nX nY (s.apply op) := by
  cases op with
  | refineX =>
    obtain ⟨e1, e2⟩ := refineX_static s
    exact ⟨allocInv_refineX s nX h.hxOk h.alloc, by show HierOk s.refineX.hx nX; rw [e1]; exact h.hxOk,
      by show HierOk s.refineX.hy nY; rw [e2]; exact h.hyOk⟩
  | refineY =>
    obtain ⟨e1, e2⟩ := refineY_static s
    exact ⟨allocInv_refineY s nY h.hyOk h.alloc, by show HierOk s.refineY.hx nX; rw [e1]; exact h.hxOk,
      by show HierOk s.refineY.hy nY; rw [e2]; exact h.hyOk⟩
  | coarsenX =>
    obtain ⟨e1, e2⟩ := coarsenX_static s
    exact ⟨allocInv_coarsenX s nX h.hxOk h.alloc, by show HierOk s.coarsenX.hx nX; rw [e1]; exact h.hxOk,
      by show HierOk s.coarsenX.hy nY; rw [e2]; exact h.hyOk⟩
  | coarsenY =>
    obtain ⟨e1, e2⟩ := coarsenY_static s
    exact ⟨allocInv_coarsenY s nY h.hyOk h.alloc, by show HierOk s.coarsenY.hx nX; rw [e1]; exact h.hxOk,
      by show HierOk s.coarsenY.hy nY; rw [e2]; exact h.hyOk⟩
  | rebisect x1 y1 x2 y2 o k => exact inv_rebisectSk s h _ _ _ _ _ _
  | reoptimize c o k a => exact inv_reoptimizeSk s h _ _ _ _
  | xTransport a => exact inv_xTransport s h a
  | yTransport a => exact inv_yTransport s h a
  | redistribute G c => exact inv_redistribute s h G c

theorem inv_init (g : DGrid) (demand : List Int) (hx : 1 ≤ g.nbX) (hy : 1 ≤ g.nbY) :
    Inv g.nbX g.nbY (HState.init g demand) := by
  have h1 := hierarchy_wf_lem g.nbX hx
  have h2 := hierarchy_wf_lem g.nbY hy
  exact ⟨allocInv_init g demand h1 h2, h1, h2⟩

theorem inv_run {nX nY : Nat} (ops : List Op) : ∀ s, Inv nX nY s → Inv nX nY (s.run ops) := by
  unfold HState.run
  exact inv_foldl HState.apply (fun s a h => inv_apply s h a) ops

end ColoVerif.Grid
