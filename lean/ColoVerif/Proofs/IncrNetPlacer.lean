import ColoVerif.Proofs.IncrNetRun
/-
The two models of `DetailedPlacer` (`PlacerModels`, Model/IncrNet.lean): a history of
`updateCellPos(cell, (x, y))` is a history of updates on each model.
-/
namespace ColoVerif.IncrNet
open ColoVerif

theorem placer_run_x : ∀ (ops : List (Nat × Int × Int)) (p : PlacerModels),
    (p.run ops).x = run p.x (ops.map fun o => (o.1, o.2.1))
  | [], _ => rfl
  | o :: ops, p => by
    show ((p.updateCellPos o.1 o.2.1 o.2.2).run ops).x = _
    rw [placer_run_x ops]
    rfl

theorem placer_run_y : ∀ (ops : List (Nat × Int × Int)) (p : PlacerModels),
    (p.run ops).y = run p.y (ops.map fun o => (o.1, o.2.2))
  | [], _ => rfl
  | o :: ops, p => by
    show ((p.updateCellPos o.1 o.2.1 o.2.2).run ops).y = _
    rw [placer_run_y ops]
    rfl

theorem cells_map_range (c : Circuit) (f : Cell → Int) :
    (List.range c.cells.length).map (fun i => f (c.cell i)) = c.cells.map f := by
  apply List.ext_getElem
  · simp
  · intro i h1 h2
    simp only [List.length_map, List.length_range] at h1
    simp [Circuit.cell, List.getD_eq_getElem?_getD, h1]

end ColoVerif.IncrNet
