import ColoVerif.Proofs.DetPlaceRows
/-
The constructor of `DetailedPlacement` does not throw on a legal placement (helper lemmas for
Properties/C02 `fromCircuit_ok_of_legal`): every optimised cell is found in a row (`locate`), the
sorted row lists have no overlap (`linkRow`), and the final `check()` passes.
-/
namespace ColoVerif.DetPlace
open ColoVerif State

theorem assignCells_ok {H : Int} (hH : 0 < H) {rows : List Row} (hok : Legalize.RowsOK H rows)
    (hs : rows.Pairwise (fun a b => rowLe a b = true)) (width xs ys : Int → Int) :
    ∀ cells : List Int,
      (∀ c ∈ cells, width c ≠ -1 → 0 < width c ∧
        ∃ r ∈ rows, r.rect.minY = ys c ∧ r.rect.minX ≤ xs c ∧ xs c + width c ≤ r.rect.maxX) →
      ∃ lists, assignCells rows width xs ys cells = .ok lists
  | [], _ => ⟨_, rfl⟩
  | c :: cells, h => by
    obtain ⟨acc, hacc⟩ := assignCells_ok hH hok hs width xs ys cells (fun d hd => h d (List.mem_cons_of_mem _ hd))
    simp only [assignCells, hacc]
    by_cases hw : width c = -1
    · simp [hw]
    · obtain ⟨hpos, r, hr, h1, h2, h3⟩ := h c (by simp) hw
      obtain ⟨k, hk⟩ := locate_of_mem hH hok hs (xs c) (ys c) (width c) hpos r hr h1 h2 h3
      simp [hw, hk]

theorem linkRow_geom (r : Int) : ∀ (cs : List Int) (s t : State), linkRow s r cs = .ok t →
    t.x = s.x ∧ t.width = s.width
  | [], s, t, e => by simp only [linkRow, Except.ok.injEq] at e; subst e; exact ⟨rfl, rfl⟩
  | [c], s, t, e => by simp only [linkRow, Except.ok.injEq] at e; subst e; exact ⟨rfl, rfl⟩
  | c1 :: c2 :: rest, s, t, e => by
    simp only [linkRow] at e
    split at e
    · cases e
    · have := linkRow_geom r (c2 :: rest) _ t e
      exact this

theorem linkRow_ok (r : Int) : ∀ (cs : List Int) (s : State),
    cs.Pairwise (fun a b => s.x a + s.width a ≤ s.x b) → ∃ t, linkRow s r cs = .ok t
  | [], s, _ => ⟨s, rfl⟩
  | [c], s, _ => ⟨_, rfl⟩
  | c1 :: c2 :: rest, s, h => by
    have h' := List.pairwise_cons.mp h
    have : ¬ (s.x c1 + s.width c1 > s.x c2) := by have := h'.1 c2 (by simp); omega
    simp only [linkRow, this, if_false]
    exact linkRow_ok r (c2 :: rest) _ h'.2

theorem linkRows_ok : ∀ (css : List (List Int)) (s : State) (r0 : Nat),
    (∀ cs ∈ css, cs.Pairwise (fun a b => s.x a + s.width a ≤ s.x b)) → ∃ t, linkRows s r0 css = .ok t
  | [], s, _, _ => ⟨s, rfl⟩
  | cs :: css, s, r0, h => by
    have hcs := h cs (by simp)
    cases cs with
    | nil =>
      obtain ⟨t, e⟩ := linkRows_ok css s (r0 + 1) (fun ds hds => h ds (List.mem_cons_of_mem _ hds))
      exact ⟨t, by simp only [linkRows, linkRow, e]⟩
    | cons c rest =>
      obtain ⟨t1, e1⟩ := linkRow_ok r0 (c :: rest) { s with rowFirst := upd s.rowFirst r0 c } hcs
      have g := linkRow_geom r0 _ _ t1 e1
      have gx : t1.x = s.x := g.1
      have gw : t1.width = s.width := g.2
      obtain ⟨t, e⟩ := linkRows_ok css t1 (r0 + 1)
        (fun ds hds => by rw [gx, gw]; exact h ds (List.mem_cons_of_mem _ hds))
      exact ⟨t, by simp only [linkRows, e1, e]⟩

/-- The constructor succeeds when: the rows are disjoint pieces of one height; every optimised cell
has a positive width and lies in a row; two optimised cells at the same y do not overlap; and the
orientation of every optimised cell is the one its row demands. -/
theorem construct_ok {H : Int} (hH : 0 < H) {rows0 : List Row} (hok : Legalize.RowsOK H rows0)
    (n : Nat) (width xs ys : Int → Int) (orient : Int → Orient) (pol : Int → Polarity) (index : Int → Int)
    (hcell : ∀ c : Int, 0 ≤ c → c < n → width c ≠ -1 → 0 < width c ∧
      ∃ r ∈ rows0, r.rect.minY = ys c ∧ r.rect.minX ≤ xs c ∧ xs c + width c ≤ r.rect.maxX)
    (hdis : ∀ a b : Int, 0 ≤ a → a < n → 0 ≤ b → b < n → a ≠ b → width a ≠ -1 → width b ≠ -1 →
      ys a = ys b → xs a ≤ xs b → xs a + width a ≤ xs b)
    (hor : ∀ c : Int, 0 ≤ c → c < n → width c ≠ -1 → ∀ r ∈ rows0, r.rect.minY = ys c → r.rect.minX ≤ xs c →
      xs c + width c ≤ r.rect.maxX →
      cellOrientationInRow (pol c) r.orient ≠ Orient.INVALID ∧
      (cellOrientationInRow (pol c) r.orient ≠ Orient.UNKNOWN → orient c = cellOrientationInRow (pol c) r.orient)) :
    ∃ s, construct rows0 n width xs ys orient pol index = .ok s := by
  have hok' := rowsOK_sort hok
  have hsorted := sorted_sortRows rows0
  obtain ⟨lists, hl⟩ := assignCells_ok hH hok' hsorted width xs ys (intsUpTo n) (by
    intro c hc hw
    rw [mem_intsUpTo] at hc
    obtain ⟨hp, r, hr, hh⟩ := hcell c hc.1 hc.2 hw
    exact ⟨hp, r, (mem_sortRows r rows0).mpr hr, hh⟩)
  obtain ⟨hlen, hin, _, hsx, hnd⟩ := assignCells_spec _ _ _ _ _ _ hl
  obtain ⟨n1, _⟩ := hnd (nodup_intsUpTo n)
  have hnoov : ∀ cs ∈ lists, cs.Pairwise (fun a b => xs a + width a ≤ xs b) := by
    intro cs hcs
    obtain ⟨i, hi⟩ := List.mem_iff_getElem?.mp hcs
    have hp := (hsx i cs hi).and (n1 i cs hi)
    refine hp.imp_of_mem ?_
    intro a b ha hb hab
    obtain ⟨ma, wa, _, ya, _, _⟩ := hin i cs hi a ha
    obtain ⟨mb, wb, _, yb, _, _⟩ := hin i cs hi b hb
    rw [mem_intsUpTo] at ma mb
    exact hdis a b ma.1 ma.2 mb.1 mb.2 hab.2 wa wb (ya.symm.trans yb) hab.1
  obtain ⟨t, ht⟩ := linkRows_ok lists
    { rows := sortRows rows0, nCells := n, rowFirst := fun _ => -1, rowLast := fun _ => -1,
      width := width, pred := fun _ => -1, next := fun _ => -1, row := fun _ => -1,
      x := xs, y := ys, orient := orient, pol := pol, index := index } 0 hnoov
  have P := linkRows_prebuilt hl ht
  have F := prebuilt_facts P
  have hchk : t.check = true := by
    apply facts_check F
    intro i cs hi c hc
    obtain ⟨mc, wc, hil, yc, x1, x2⟩ := hin i cs hi c hc
    rw [mem_intsUpTo] at mc
    have hget : (sortRows rows0)[i]? = some ((sortRows rows0).getD i default) := by
      rw [List.getD_eq_getElem?_getD, List.getElem?_eq_getElem hil]; rfl
    have hmem : (sortRows rows0).getD i default ∈ rows0 :=
      (mem_sortRows _ rows0).mp (List.mem_of_getElem? hget)
    have := hor c mc.1 mc.2 wc _ hmem yc x1 x2
    unfold checkOrient rowOrient
    rw [rowAt_nat, P.rows, P.pol, P.orient]
    simp only [Bool.and_eq_true, Bool.or_eq_true, bne_iff_ne, ne_eq, beq_iff_eq]
    refine ⟨this.1, ?_⟩
    by_cases hu : cellOrientationInRow (pol c) ((sortRows rows0).getD i default).orient = Orient.UNKNOWN
    · exact Or.inl hu
    · exact Or.inr (this.2 hu)
  refine ⟨t, ?_⟩
  unfold construct
  simp only [hl, ht, hchk, if_true]

/-! ### from the circuit -/

theorem ofList_map_get {α β : Type} (d : β) (f : α → β) (l : List α) (i : Int) (a : α) (h0 : 0 ≤ i)
    (h : l[i.toNat]? = some a) : ofList d (l.map f) i = f a := by
  obtain ⟨hi, rfl⟩ := List.getElem?_eq_some_iff.mp h
  obtain ⟨a', _, h', e⟩ := ofList_map d f l i h0 (by omega)
  rw [h] at h'
  injection h' with h'
  rw [e, ← h']

/-- C04's side of legality, as far as the constructor's `check()` looks at it: a movable one-row cell
that lies in a row has the orientation this row demands for its polarity (and the row is allowed) -/
def OrientLegal (c : Circuit) : Prop :=
  ∀ cl ∈ c.cells, cl.fixed = false → cl.placedHeight = (Circuit.rowHeight c).getD 0 →
    ∀ R ∈ c.rows, R.rect.minY = cl.y → R.rect.minX ≤ cl.x → cl.x + cl.placedWidth ≤ R.rect.maxX →
      cellOrientationInRow cl.pol R.orient ≠ Orient.INVALID ∧
      (cellOrientationInRow cl.pol R.orient ≠ Orient.UNKNOWN → cl.orient = cellOrientationInRow cl.pol R.orient)

instance (c : Circuit) : Decidable (OrientLegal c) := by unfold OrientLegal; infer_instance

theorem ispdWidth_live {H : Int} {cl : Cell} (h : ispdWidth H cl ≠ -1) :
    cl.fixed = false ∧ cl.placedHeight = H ∧ ispdWidth H cl = cl.placedWidth := by
  unfold ispdWidth at h ⊢
  by_cases hf : cl.fixed = true
  · simp [hf] at h
  · by_cases hh : cl.placedHeight ≠ H
    · simp [hf, hh] at h
    · simp only [hf, hh, if_false, Bool.false_eq_true]
      exact ⟨by simp, by simpa using hh, trivial⟩

theorem rowsOK_rows (c : Circuit) (hd : Legalize.DomL c) : Legalize.RowsOK ((Circuit.rowHeight c).getD 0) c.rows :=
  ⟨Legalize.rowHeight_rows c _ (Legalize.dom_rowHeight c hd), fun r hr => (hd.2.2.2 r hr).1,
   fun r hr => (hd.2.2.2 r hr).2, hd.2.2.1⟩

theorem rowsOK_computeRows (c : Circuit) (hd : Legalize.DomL c) (extra : List Rect) :
    Legalize.RowsOK ((Circuit.rowHeight c).getD 0) (c.computeRows extra) :=
  (rowsOK_rows c hd).freespace _

/-- two movable cells at different indices do not intersect in a legal circuit -/
theorem legal_disjoint (c : Circuit) (hl : Legalize.LegalL c) (i j : Nat) (a b : Cell) (hij : i ≠ j)
    (ha : c.cells[i]? = some a) (hb : c.cells[j]? = some b) (fa : a.fixed = false) (fb : b.fixed = false) :
    a.placement.intersects b.placement = false := by
  have hp := hl.2
  rw [List.pairwise_filter] at hp
  have hp' := List.pairwise_iff_getElem.mp hp
  obtain ⟨hi, rfl⟩ := List.getElem?_eq_some_iff.mp ha
  obtain ⟨hj, rfl⟩ := List.getElem?_eq_some_iff.mp hb
  rcases Nat.lt_or_gt_of_ne hij with h | h
  · exact hp' i j hi hj h (by simp [fa]) (by simp [fb])
  · rw [Legalize.intersects_comm]
    exact hp' j i hj hi h (by simp [fb]) (by simp [fa])

/-- **The constructor does not fail on a legal placement.**  For a circuit of C01's domain whose
placement is legal in C01's sense and whose one-row cells have the orientation their rows demand,
`DetailedPlacement::fromIspdCircuit` returns normally. -/
theorem fromIspdCircuit_ok (c : Circuit) (hd : Legalize.DomL c) (hl : Legalize.LegalL c) (ho : OrientLegal c) :
    ∃ s, fromIspdCircuit c = .ok s := by
  generalize hH0 : (Circuit.rowHeight c).getD 0 = H
  have hH : 0 < H := by rw [← hH0]; exact hd.1
  have hrh : Circuit.rowHeight c = some H := by rw [← hH0]; exact Legalize.dom_rowHeight c hd
  have hR : Legalize.RowsOK H c.rows := by rw [← hH0]; exact rowsOK_rows c hd
  have hok : Legalize.RowsOK H (c.computeRows (ispdObstacles c H)) := by rw [← hH0]; exact rowsOK_computeRows c hd _
  have hrows := Legalize.rowHeight_rows c H hrh
  unfold fromIspdCircuit
  rw [hrh]
  simp only
  have hfun : (fun cl : Cell => if cl.fixed then -1 else if cl.placedHeight ≠ H then -1 else cl.placedWidth)
      = ispdWidth H := rfl
  have hobs : (c.cells.filter fun cl => !cl.fixed && cl.placedHeight ≠ H).map Cell.placement = ispdObstacles c H := rfl
  rw [hfun, hobs]
  -- the cell behind an index
  have cellOf : ∀ i : Int, 0 ≤ i → i < c.cells.length → ∃ cl, c.cells[i.toNat]? = some cl ∧ cl ∈ c.cells := by
    intro i h0 h1
    have hi : i.toNat < c.cells.length := by omega
    exact ⟨c.cells[i.toNat], List.getElem?_eq_getElem hi, List.getElem_mem hi⟩
  apply construct_ok hH hok
  · -- every optimised cell lies in a row
    intro i h0 h1 hw
    obtain ⟨cl, hget, hcl⟩ := cellOf i h0 h1
    rw [ofList_map_get 0 (ispdWidth H) c.cells i cl h0 hget] at hw ⊢
    rw [ofList_map_get 0 (·.x) c.cells i cl h0 hget, ofList_map_get 0 (·.y) c.cells i cl h0 hget]
    obtain ⟨hfix, hph, hwe⟩ := ispdWidth_live hw
    rw [hwe]
    have hdom := hd.2.1 cl hcl hfix
    refine ⟨hdom.1, ?_⟩
    obtain ⟨r, hr, r1, r2, r3⟩ := hl.1 H hrh cl hcl hfix 0 (Int.le_refl _) (by rw [hph]; omega)
    simp only [Int.zero_mul, Int.add_zero] at r1
    unfold Circuit.computeRows at hr
    obtain ⟨R, hRm, hrR⟩ := List.mem_flatMap.mp hr
    obtain ⟨iv, hiv, rfl⟩ := (Row.mem_freespace R _ r).mp hrR
    simp only [List.nil_append] at hiv
    simp only at r1 r2 r3
    obtain ⟨iv', hiv', a1, a2⟩ := freeIntervals_refine R.rect (ispdObstacles c H) c.obstacles iv hiv cl.x
      (cl.x + cl.placedWidth) r2 (by omega) r3 (by
        intro o ho x hx1 hx2 hob
        unfold ispdObstacles at ho
        obtain ⟨cl2, hcl2, rfl⟩ := List.mem_map.mp ho
        simp only [List.mem_filter, Bool.and_eq_true, Bool.not_eq_true', decide_eq_true_eq] at hcl2
        obtain ⟨hm2, hf2, hh2⟩ := hcl2
        have hdom2 := hd.2.1 cl2 hm2 hf2
        have hne : cl ≠ cl2 := fun e => hh2 (e ▸ hph)
        have hdis := pairwise_mem_ne (fun a b hab => by rw [Legalize.intersects_comm]; exact hab) hl.2 cl
          (by simp [hcl, hfix]) cl2 (by simp [hm2, hf2]) hne
        rw [Legalize.intersects_false_iff] at hdis
        have hRy := hrows R hRm
        simp only [Freespace.Obstructs, Cell.placement] at hob hdis
        omega)
    refine ⟨⟨⟨iv'.1, iv'.2, R.rect.minY, R.rect.maxY⟩, R.orient⟩, ?_, r1, a1, a2⟩
    unfold Circuit.computeRows
    exact List.mem_flatMap.mpr ⟨R, hRm, (Row.mem_freespace R _ _).mpr ⟨iv', hiv', rfl⟩⟩
  · -- two optimised cells at one y do not overlap
    intro a b a0 a1 b0 b1 hab hwa hwb hy hx
    obtain ⟨cla, hga, hma⟩ := cellOf a a0 a1
    obtain ⟨clb, hgb, hmb⟩ := cellOf b b0 b1
    rw [ofList_map_get 0 (ispdWidth H) c.cells a cla a0 hga] at hwa ⊢
    rw [ofList_map_get 0 (ispdWidth H) c.cells b clb b0 hgb] at hwb
    rw [ofList_map_get 0 (·.x) c.cells a cla a0 hga, ofList_map_get 0 (·.x) c.cells b clb b0 hgb] at hx ⊢
    rw [ofList_map_get 0 (·.y) c.cells a cla a0 hga, ofList_map_get 0 (·.y) c.cells b clb b0 hgb] at hy
    obtain ⟨fa, pa, wa⟩ := ispdWidth_live hwa
    obtain ⟨fb, pb, wb⟩ := ispdWidth_live hwb
    rw [wa]
    have hdis := legal_disjoint c hl a.toNat b.toNat cla clb (by omega) hga hgb fa fb
    rw [Legalize.intersects_false_iff] at hdis
    have da := hd.2.1 cla hma fa
    have db := hd.2.1 clb hmb fb
    simp only [Cell.placement] at hdis
    omega
  · -- orientations
    intro i h0 h1 hw r hr r1 r2 r3
    obtain ⟨cl, hget, hcl⟩ := cellOf i h0 h1
    rw [ofList_map_get 0 (ispdWidth H) c.cells i cl h0 hget] at hw r3
    rw [ofList_map_get 0 (·.x) c.cells i cl h0 hget] at r2 r3
    rw [ofList_map_get 0 (·.y) c.cells i cl h0 hget] at r1
    rw [ofList_map_get default (·.orient) c.cells i cl h0 hget, ofList_map_get default (·.pol) c.cells i cl h0 hget]
    obtain ⟨hfix, hph, hwe⟩ := ispdWidth_live hw
    rw [hwe] at r3
    unfold Circuit.computeRows at hr
    obtain ⟨⟨R, hRm, hsub⟩, _⟩ := Legalize.flatMap_freespace_seg hR _ r hr
    obtain ⟨s1, s2, s3, _, s5⟩ := hsub
    rw [s5]
    exact ho cl hcl hfix (by rw [hH0]; exact hph) R hRm (by omega) (by omega) (by omega)

end ColoVerif.DetPlace
