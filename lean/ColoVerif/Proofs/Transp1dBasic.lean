import ColoVerif.Model.Transp1d
/-
Basic facts about the bounds-checked primitives of the Transp1d model and `balanceDemand`.
-/
namespace ColoVerif.Transp1d

theorem get_ok {α : Type} [Inhabited α] (l : List α) (i : Nat) (h : i < l.length) :
    get l i = .ok (l.getD i default) := by
  simp [get, List.getD, List.getElem?_eq_getElem h]
  rfl

theorem get_ok' (l : List Int) (i : Nat) (h : i < l.length) :
    get l i = .ok (l.getD i 0) := by
  simp [get, List.getD, List.getElem?_eq_getElem h]
  rfl

theorem get_okN (l : List Nat) (i : Nat) (h : i < l.length) :
    get l i = .ok (l.getD i 0) := by
  simp [get, List.getD, List.getElem?_eq_getElem h]
  rfl

theorem sumFirst_eq (l : List Int) : sumFirst l.length l = .ok l.sum := by
  induction l with
  | nil => rfl
  | cons x xs ih => simp [sumFirst, ih, bind, Except.bind, pure, Except.pure]

theorem incrFirst_ok (k : Nat) (x : Int) (l : List Int) (h : k ≤ l.length) :
    ∃ l', incrFirst k x l = .ok l' ∧ l'.length = l.length ∧ l'.sum = l.sum + k * x ∧
      (0 ≤ x → ∀ j, l.getD j 0 ≤ l'.getD j 0) := by
  induction k generalizing l with
  | zero => exact ⟨l, rfl, rfl, by simp, fun _ _ => Int.le_refl _⟩
  | succ k ih =>
    cases l with
    | nil => simp at h
    | cons y ys =>
      obtain ⟨r, h1, h2, h3, h4⟩ := ih ys (by simpa using h)
      refine ⟨(y + x) :: r, ?_, by simp [h2], ?_, ?_⟩
      · simp [incrFirst, h1, bind, Except.bind, pure, Except.pure]
      · simp only [List.sum_cons, h3]
        have : ((k + 1 : Nat) : Int) * x = k * x + x := by
          rw [Int.natCast_succ, Int.add_mul, Int.one_mul]
        omega
      · intro hx j
        cases j with
        | zero => simp; omega
        | succ j => simpa using h4 hx j

theorem balanceDemand_spec' (pb : Problem) (hs : pb.s.length = pb.u.length)
    (hd : pb.d.length = pb.v.length) (hm : 0 < pb.v.length ∨ pb.s.sum ≤ pb.d.sum) :
    ∃ pb', balanceDemand pb = .ok pb' ∧ pb'.u = pb.u ∧ pb'.v = pb.v ∧ pb'.s = pb.s ∧
      pb'.d.length = pb.d.length ∧ pb'.s.sum ≤ pb'.d.sum ∧
      (∀ j, pb.d.getD j 0 ≤ pb'.d.getD j 0) ∧ (pb.s.sum ≤ pb.d.sum → pb' = pb) ∧
      (pb.d.sum ≤ pb.s.sum → pb'.s.sum = pb'.d.sum) := by
  have e1 : totalSupply pb = .ok pb.s.sum := by
    unfold totalSupply Problem.nbSources; rw [← hs]; exact sumFirst_eq _
  have e2 : totalDemand pb = .ok pb.d.sum := by
    unfold totalDemand Problem.nbSinks; rw [← hd]; exact sumFirst_eq _
  by_cases hle : pb.s.sum - pb.d.sum ≤ 0
  · refine ⟨pb, ?_, rfl, rfl, rfl, rfl, by omega, fun _ => Int.le_refl _, fun _ => rfl, fun _ => by omega⟩
    simp [balanceDemand, e1, e2, bind, Except.bind, hle, pure, Except.pure]
  · have hmpos : 0 < pb.v.length := by
      rcases hm with h | h
      · exact h
      · omega
    have hne : ¬ pb.nbSinks = 0 := by unfold Problem.nbSinks; omega
    have hmi : (0 : Int) < (pb.v.length : Int) := by exact_mod_cast hmpos
    have hmis : 0 ≤ pb.s.sum - pb.d.sum := by omega
    have hadd : Int.tdiv (pb.s.sum - pb.d.sum) pb.v.length = (pb.s.sum - pb.d.sum) / (pb.v.length : Int) :=
      Int.tdiv_eq_ediv_of_nonneg hmis
    have hq0 : 0 ≤ (pb.s.sum - pb.d.sum) / (pb.v.length : Int) := Int.ediv_nonneg hmis (Int.le_of_lt hmi)
    have hdm := Int.mul_ediv_add_emod (pb.s.sum - pb.d.sum) (pb.v.length : Int)
    have hr0 := Int.emod_nonneg (pb.s.sum - pb.d.sum) (Int.ne_of_gt hmi)
    have hr1 := Int.emod_lt_of_pos (pb.s.sum - pb.d.sum) hmi
    have hcomm : (pb.s.sum - pb.d.sum) / (pb.v.length : Int) * (pb.v.length : Int)
        = (pb.v.length : Int) * ((pb.s.sum - pb.d.sum) / (pb.v.length : Int)) := Int.mul_comm _ _
    generalize hq : (pb.s.sum - pb.d.sum) / (pb.v.length : Int) = q at *
    generalize hr : (pb.s.sum - pb.d.sum) % (pb.v.length : Int) = r at *
    generalize ht : (pb.v.length : Int) * q = t at *
    obtain ⟨d1, k1, k2, k3, k4⟩ := incrFirst_ok pb.v.length q pb.d (by omega)
    have hrest : (pb.s.sum - pb.d.sum) - q * (pb.v.length : Int) = r := by omega
    have hrn : r.toNat ≤ d1.length := by omega
    obtain ⟨d2, l1, l2, l3, l4⟩ := incrFirst_ok r.toNat 1 d1 hrn
    refine ⟨{ pb with d := d2 }, ?_, rfl, rfl, rfl, by simp; omega, ?_, ?_, fun h => by omega, ?_⟩
    · have hnil : ¬ pb.v = [] := fun h => by simp [h] at hmpos
      simp [balanceDemand, e1, e2, bind, Except.bind, hle, pure, Except.pure, hadd,
        Problem.nbSinks, k1, hrest, l1, hnil]
    · simp only [l3, k3]
      have : ((r.toNat : Nat) : Int) = r := Int.toNat_of_nonneg hr0
      omega
    · intro j
      exact Int.le_trans (k4 hq0 j) (l4 (by omega) j)
    · intro _
      simp only [l3, k3]
      have : ((r.toNat : Nat) : Int) = r := Int.toNat_of_nonneg hr0
      omega

theorem balanceDemand_spec (pb : Problem) (hs : pb.s.length = pb.u.length)
    (hd : pb.d.length = pb.v.length) (hm : 0 < pb.v.length ∨ pb.s.sum ≤ pb.d.sum) :
    ∃ pb', balanceDemand pb = .ok pb' ∧ pb'.u = pb.u ∧ pb'.v = pb.v ∧ pb'.s = pb.s ∧
      pb'.d.length = pb.d.length ∧ pb'.s.sum ≤ pb'.d.sum ∧
      (∀ j, pb.d.getD j 0 ≤ pb'.d.getD j 0) ∧ (pb.s.sum ≤ pb.d.sum → pb' = pb) := by
  obtain ⟨pb', h1, h2, h3, h4, h5, h6, h7, h8, _⟩ := balanceDemand_spec' pb hs hd hm
  exact ⟨pb', h1, h2, h3, h4, h5, h6, h7, h8⟩

end ColoVerif.Transp1d
