import ColoVerif.Model.HpwlChecked
import ColoVerif.Proofs.CheckedArith
import ColoVerif.Proofs.IncrNetTopology
/-
`Circuit::hpwl()` evaluates without signed overflow on the domain `HpwlDom` and returns the
unbounded model's `Circuit.hpwl` there (the checked twin is `Model/HpwlChecked.lean`).
-/
namespace ColoVerif.Checked
open ColoVerif

/-- a pin whose coordinates stay clear of the `int` limits: cell origin within ±8·10^8, cell size and
pin offsets within ±10^8 (so every pin location is within ±10^9 and every net extent at most
2·10^9 < 2^31) -/
def PinOk (c : Circuit) (p : Pin) : Prop :=
  -800000000 ≤ (c.cell p.cell).x ∧ (c.cell p.cell).x ≤ 800000000 ∧
  -800000000 ≤ (c.cell p.cell).y ∧ (c.cell p.cell).y ≤ 800000000 ∧
  -100000000 ≤ (c.cell p.cell).w ∧ (c.cell p.cell).w ≤ 100000000 ∧
  -100000000 ≤ (c.cell p.cell).h ∧ (c.cell p.cell).h ≤ 100000000 ∧
  -100000000 ≤ p.xo ∧ p.xo ≤ 100000000 ∧ -100000000 ≤ p.yo ∧ p.yo ≤ 100000000

instance (c : Circuit) (p : Pin) : Decidable (PinOk c p) := by unfold PinOk; exact inferInstance

/-- the domain of `hpwl_no_fault`: every pin is `PinOk` and there are at most 2^30 nets -/
def HpwlDom (c : Circuit) : Prop :=
  c.nets.length ≤ 1073741824 ∧ ∀ n ∈ c.nets, ∀ p ∈ n.pins, PinOk c p

instance (c : Circuit) : Decidable (HpwlDom c) := by unfold HpwlDom; exact inferInstance

theorem pinXOffsetC_ok (c : Circuit) (p : Pin) (h : PinOk c p) :
    pinXOffsetC (c.cell p.cell) p = .ok (Circuit.pinXOffset (c.cell p.cell) p) ∧
    -200000000 ≤ Circuit.pinXOffset (c.cell p.cell) p ∧ Circuit.pinXOffset (c.cell p.cell) p ≤ 200000000 := by
  obtain ⟨_, _, _, _, hw1, hw2, hh1, hh2, hx1, hx2, hy1, hy2⟩ := h
  unfold pinXOffsetC Circuit.pinXOffset Cell.placedWidth subI32
  cases Circuit.xFlipped (c.cell p.cell).orient <;> cases (c.cell p.cell).orient.isTurn <;>
    simp only [if_true, if_false, Bool.false_eq_true] <;>
    first
    | (refine ⟨chk32_ok' ?_ ?_, ?_, ?_⟩ <;> omega)
    | (refine ⟨trivial, ?_, ?_⟩ <;> omega)
    | (refine ⟨rfl, ?_, ?_⟩ <;> omega)

theorem pinYOffsetC_ok (c : Circuit) (p : Pin) (h : PinOk c p) :
    pinYOffsetC (c.cell p.cell) p = .ok (Circuit.pinYOffset (c.cell p.cell) p) ∧
    -200000000 ≤ Circuit.pinYOffset (c.cell p.cell) p ∧ Circuit.pinYOffset (c.cell p.cell) p ≤ 200000000 := by
  obtain ⟨_, _, _, _, hw1, hw2, hh1, hh2, hx1, hx2, hy1, hy2⟩ := h
  unfold pinYOffsetC Circuit.pinYOffset Cell.placedHeight subI32
  cases Circuit.yFlipped (c.cell p.cell).orient <;> cases (c.cell p.cell).orient.isTurn <;>
    simp only [if_true, if_false, Bool.false_eq_true] <;>
    first
    | (refine ⟨chk32_ok' ?_ ?_, ?_, ?_⟩ <;> omega)
    | (refine ⟨trivial, ?_, ?_⟩ <;> omega)
    | (refine ⟨rfl, ?_, ?_⟩ <;> omega)

theorem pinXC_ok (c : Circuit) (p : Pin) (h : PinOk c p) :
    pinXC c p = .ok (c.pinX p) ∧ -1000000000 ≤ c.pinX p ∧ c.pinX p ≤ 1000000000 := by
  obtain ⟨e, l, u⟩ := pinXOffsetC_ok c p h
  obtain ⟨hx1, hx2, _⟩ := h
  unfold pinXC Circuit.pinX
  rw [e]
  simp only [andThen, addI32]
  refine ⟨chk32_ok' ?_ ?_, ?_, ?_⟩ <;> omega

theorem pinYC_ok (c : Circuit) (p : Pin) (h : PinOk c p) :
    pinYC c p = .ok (c.pinY p) ∧ -1000000000 ≤ c.pinY p ∧ c.pinY p ≤ 1000000000 := by
  obtain ⟨e, l, u⟩ := pinYOffsetC_ok c p h
  obtain ⟨_, _, hy1, hy2, _⟩ := h
  unfold pinYC Circuit.pinY
  rw [e]
  simp only [andThen, addI32]
  refine ⟨chk32_ok' ?_ ?_, ?_, ?_⟩ <;> omega

theorem mapPinsC_ok (f : Pin → Except Fault Int) (g : Pin → Int) :
    ∀ ps : List Pin, (∀ p ∈ ps, f p = .ok (g p)) → mapPinsC f ps = .ok (ps.map g)
  | [], _ => rfl
  | p :: ps, h => by
    have hp := h p (by simp)
    have ih := mapPinsC_ok f g ps (fun q hq => h q (by simp [hq]))
    simp only [mapPinsC, hp, ih, andThen, List.map_cons]

/-- extent of a non-empty list of values within ±M -/
theorem extent_bound (l : List Int) (M : Int) (hne : l ≠ []) (h : ∀ x ∈ l, -M ≤ x ∧ x ≤ M) :
    0 ≤ Circuit.lmax 0 l - Circuit.lmin 0 l ∧ Circuit.lmax 0 l - Circuit.lmin 0 l ≤ 2 * M := by
  obtain ⟨hmn, hmn'⟩ := IncrNet.lmin_mem 0 l hne
  obtain ⟨hmx, hmx'⟩ := IncrNet.lmax_mem 0 l hne
  have a := h _ hmn
  have b := h _ hmx
  have c := hmn' _ hmx
  omega

theorem netHpwlC_ok (c : Circuit) (acc : Int) (n : Net) (h : ∀ p ∈ n.pins, PinOk c p)
    (ha0 : 0 ≤ acc) (ha : acc ≤ 4600000000000000000) :
    netHpwlC c acc n = .ok (acc + c.netHpwl n) ∧ 0 ≤ c.netHpwl n ∧ c.netHpwl n ≤ 4000000000 := by
  unfold netHpwlC Circuit.netHpwl
  cases hp : n.pins with
  | nil => simp [Circuit.lmax, Circuit.lmin]
  | cons p ps =>
    rw [hp] at h
    have ex := mapPinsC_ok (pinXC c) c.pinX (p :: ps) (fun q hq => (pinXC_ok c q (h q hq)).1)
    have ey := mapPinsC_ok (pinYC c) c.pinY (p :: ps) (fun q hq => (pinYC_ok c q (h q hq)).1)
    have bx := extent_bound ((p :: ps).map c.pinX) 1000000000 (by simp) (by
      intro x hx
      obtain ⟨q, hq, rfl⟩ := List.mem_map.mp hx
      exact (pinXC_ok c q (h q hq)).2)
    have by' := extent_bound ((p :: ps).map c.pinY) 1000000000 (by simp) (by
      intro x hx
      obtain ⟨q, hq, rfl⟩ := List.mem_map.mp hx
      exact (pinYC_ok c q (h q hq)).2)
    simp only [ex, ey, andThen]
    have e1 : subI32 "hpwl: maxX - minX" (Circuit.lmax 0 ((p :: ps).map c.pinX)) (Circuit.lmin 0 ((p :: ps).map c.pinX))
        = .ok (Circuit.lmax 0 ((p :: ps).map c.pinX) - Circuit.lmin 0 ((p :: ps).map c.pinX)) :=
      chk32_ok' (by omega) (by omega)
    have e2 : subI32 "hpwl: maxY - minY" (Circuit.lmax 0 ((p :: ps).map c.pinY)) (Circuit.lmin 0 ((p :: ps).map c.pinY))
        = .ok (Circuit.lmax 0 ((p :: ps).map c.pinY) - Circuit.lmin 0 ((p :: ps).map c.pinY)) :=
      chk32_ok' (by omega) (by omega)
    simp only [e1, e2]
    have e3 : addI64 "hpwl: ret += (maxX - minX)" acc
        (Circuit.lmax 0 ((p :: ps).map c.pinX) - Circuit.lmin 0 ((p :: ps).map c.pinX))
        = .ok (acc + (Circuit.lmax 0 ((p :: ps).map c.pinX) - Circuit.lmin 0 ((p :: ps).map c.pinX))) :=
      chk64_ok' (by omega) (by omega)
    simp only [e3]
    refine ⟨?_, by omega, by omega⟩
    have e4 : addI64 "hpwl: ret += (maxY - minY)"
        (acc + (Circuit.lmax 0 ((p :: ps).map c.pinX) - Circuit.lmin 0 ((p :: ps).map c.pinX)))
        (Circuit.lmax 0 ((p :: ps).map c.pinY) - Circuit.lmin 0 ((p :: ps).map c.pinY))
        = .ok (acc + (Circuit.lmax 0 ((p :: ps).map c.pinX) - Circuit.lmin 0 ((p :: ps).map c.pinX))
            + (Circuit.lmax 0 ((p :: ps).map c.pinY) - Circuit.lmin 0 ((p :: ps).map c.pinY))) :=
      chk64_ok' (by omega) (by omega)
    rw [e4]
    congr 1
    omega

theorem hpwlLoopC_ok (c : Circuit) : ∀ (ns : List Net) (acc : Int),
    (∀ n ∈ ns, ∀ p ∈ n.pins, PinOk c p) → 0 ≤ acc →
    acc + 4000000000 * (ns.length : Int) ≤ 4600000000000000000 →
    hpwlLoopC c acc ns = .ok (acc + (ns.map c.netHpwl).sum)
  | [], acc, _, _, _ => by simp [hpwlLoopC]
  | n :: ns, acc, h, h0, hb => by
    simp only [List.length_cons, Int.natCast_add, Int.natCast_one] at hb
    obtain ⟨e, l, u⟩ := netHpwlC_ok c acc n (h n (by simp)) h0 (by omega)
    have ih := hpwlLoopC_ok c ns (acc + c.netHpwl n) (fun m hm => h m (by simp [hm])) (by omega) (by omega)
    simp only [hpwlLoopC, e, andThen, ih, List.map_cons, List.sum_cons]
    congr 1
    omega

/-- `Circuit::hpwl()` on `HpwlDom`: no `int`/`long long` operation overflows and the result is the
unbounded model's -/
theorem hpwlC_ok (c : Circuit) (h : HpwlDom c) : hpwlC c = .ok c.hpwl := by
  obtain ⟨hl, hp⟩ := h
  have := hpwlLoopC_ok c c.nets 0 hp (by omega) (by omega)
  simpa [hpwlC, Circuit.hpwl] using this

/-! ### why the two extents are added separately -/

/-- two cells at (±6·10^8, ±6·10^8): the net is 1.2·10^9 wide and high (each fits an `int`),
their sum 2.4·10^9 does not -/
def diagonalWitness : Circuit :=
  { cells := [{ w := 10, h := 10, x := -600000000, y := -600000000, orient := .N, fixed := false, obstruction := false, pol := .ANY },
              { w := 10, h := 10, x := 600000000, y := 600000000, orient := .N, fixed := false, obstruction := false, pol := .ANY }],
    nets := [{ wMant := 1, wExp := 0, pins := [⟨0, 0, 0⟩, ⟨1, 0, 0⟩] }],
    rows := [] }

theorem diagonalWitness_in_dom : HpwlDom diagonalWitness := by decide

/-- the code (extents added separately, in 64 bits) is exact on the witness … -/
theorem diagonalWitness_hpwl : hpwlC diagonalWitness = .ok 2400000000 := by decide

/-- … whereas summing the two extents in `int` first overflows on it -/
theorem hpwl_sum32_can_fault :
    netHpwlSum32C diagonalWitness 0 (diagonalWitness.nets.getD 0 default)
      = .error (.intOverflow "width() + height()") := by decide

end ColoVerif.Checked
