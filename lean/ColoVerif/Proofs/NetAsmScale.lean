import ColoVerif.Model.NetAsm
import Mathlib.Tactic.Ring
/-
C17 helper lemmas: every step of the assembly commutes with scaling the weights
(`Sys.scale`, `Net.scale`, `RawNet.scale`, `Penalty.scale`).
-/
namespace ColoVerif.NetAsm

/-- The translated storage conversion keeps the weight.  This is the place where the proofs use
the generated fact: with `std::vector<int> netWeight_` the generated `store` truncates and this
`rfl` (hence everything below that mentions `build`/`assemble`) no longer type-checks. -/
theorem store_exact (w : Rat) : Gen.NetWeightType.store w = w := rfl

@[simp] theorem scale_nbCells (k : Rat) (s : Sys) : (s.scale k).nbCells = s.nbCells := rfl
@[simp] theorem scale_nbSupps (k : Rat) (s : Sys) : (s.scale k).nbSupps = s.nbSupps := rfl
@[simp] theorem scale_initial (k : Rat) (s : Sys) : (s.scale k).initial = s.initial := rfl
@[simp] theorem scale_nz (k : Rat) (s : Sys) : (s.scale k).nz = s.nz := rfl
@[simp] theorem scale_matSize (k : Rat) (s : Sys) : (s.scale k).matSize = s.matSize := rfl
@[simp] theorem scale_mat (k : Rat) (s : Sys) :
    (s.scale k).mat = s.mat.map (fun t => (t.1, t.2.1, k * t.2.2)) := rfl
@[simp] theorem scale_rhs (k : Rat) (s : Sys) : (s.scale k).rhs = s.rhs.map (fun v => k * v) := rfl
@[simp] theorem netScale_pins (k : Rat) (n : Net) : (n.scale k).pins = n.pins := rfl
@[simp] theorem netScale_weight (k : Rat) (n : Net) : (n.scale k).weight = k * n.weight := rfl

theorem Sys.ext' {a b : Sys} (h1 : a.nbCells = b.nbCells) (h2 : a.nbSupps = b.nbSupps)
    (h3 : a.mat = b.mat) (h4 : a.rhs = b.rhs) (h5 : a.initial = b.initial) (h6 : a.nz = b.nz) : a = b := by
  cases a; cases b; simp_all

theorem addAt_scale (k : Rat) (l : List Rat) (i : Nat) (v : Rat) :
    addAt (l.map (fun x => k * x)) i (k * v) = (addAt l i v).map (fun x => k * x) := by
  induction l generalizing i with
  | nil => simp [addAt]
  | cons x xs ih =>
    cases i with
    | zero => simp [addAt]; ring
    | succ j => simp [addAt, ih]

theorem getD_scale (k : Rat) (l : List Rat) (i : Nat) :
    (l.map (fun v => k * v)).getD i 0 = k * l.getD i 0 := by
  induction l generalizing i with
  | nil => simp
  | cons x xs ih =>
    cases i with
    | zero => simp
    | succ j => simpa using ih j

theorem addFixedPin_scale (k : Rat) (s : Sys) (c : Nat) (o pos w : Rat) :
    addFixedPin (s.scale k) c o pos (k * w) = (addFixedPin s c o pos w).scale k := by
  apply Sys.ext' <;> simp [addFixedPin, Sys.scale]
  rw [mul_assoc, addAt_scale]

theorem addMovingPin_scale (k : Rat) (s : Sys) (c1 c2 : Nat) (o1 o2 w : Rat) :
    addMovingPin (s.scale k) c1 c2 o1 o2 (k * w) = (addMovingPin s c1 c2 o1 o2 w).scale k := by
  unfold addMovingPin
  by_cases h : c1 = c2
  · simp [h]
  · simp only [h, if_false]
    apply Sys.ext' <;> simp [Sys.scale]
    rw [mul_assoc, mul_assoc, addAt_scale, addAt_scale]

theorem addPin_scale (k : Rat) (s : Sys) (c1 c2 : Int) (o1 o2 w : Rat) :
    addPin (s.scale k) c1 c2 o1 o2 (k * w) = (addPin s c1 c2 o1 o2 w).scale k := by
  unfold addPin
  split
  · rfl
  · split
    · exact addFixedPin_scale ..
    · split
      · exact addFixedPin_scale ..
      · exact addMovingPin_scale ..

theorem addCell_scale (k : Rat) (s : Sys) (init : Rat) :
    addCell (s.scale k) init = (addCell s init).scale k := by
  apply Sys.ext' <;> simp [addCell, Sys.scale]

theorem loopIdx_scale (k : Rat) (f g : Sys → Nat → Pin → Sys)
    (h : ∀ s i p, g (s.scale k) i p = (f s i p).scale k) (s : Sys) (i : Nat) (ps : List Pin) :
    loopIdx g (s.scale k) i ps = (loopIdx f s i ps).scale k := by
  induction ps generalizing s i with
  | nil => rfl
  | cons p ps ih => simp only [loopIdx]; rw [h, ih]

theorem init_scale (k : Rat) (n : Nat) : (Sys.init n).scale k = Sys.init n := by
  apply Sys.ext' <;> simp [Sys.init, Sys.scale]

/-! ### the net models -/

theorem addBipoint0_scale (k : Rat) (s : Sys) (n : Net) :
    addBipoint0 (s.scale k) (n.scale k) = (addBipoint0 s n).scale k := by
  unfold addBipoint0
  simp only [netScale_pins, netScale_weight]
  split
  · exact addPin_scale ..
  · rfl

theorem star0Body_scale (k : Rat) (c : Nat) (w : Rat) (s : Sys) (i : Nat) (p : Pin) :
    star0Body c (k * w) (s.scale k) i p = (star0Body c w s i p).scale k := by
  unfold star0Body; exact addPin_scale ..

theorem addStar0_scale (k : Rat) (s : Sys) (n : Net) :
    addStar0 (s.scale k) (n.scale k) = (addStar0 s n).scale k := by
  obtain ⟨w, pins⟩ := n
  show addStar0 (Sys.scale k s) ⟨k * w, pins⟩ = Sys.scale k (addStar0 s ⟨w, pins⟩)
  unfold addStar0
  dsimp only
  simp only [scale_matSize]
  by_cases h : pins.length ≤ 2
  · rw [if_pos h, if_pos h]; exact addBipoint0_scale k s ⟨w, pins⟩
  · rw [if_neg h, if_neg h, addCell_scale, mul_div_assoc]
    exact loopIdx_scale k _ _ (fun s i p => star0Body_scale ..) _ _ _

theorem cliqueW_scale (k : Rat) (n : Net) : cliqueW (n.scale k) = k * cliqueW n := by
  simp only [cliqueW, netScale_pins, netScale_weight]; ring

theorem b2bW_scale (k : Rat) (n : Net) : b2bW (n.scale k) = k * b2bW n := by
  simp only [b2bW, netScale_pins, netScale_weight]; ring

theorem clique0Go_scale (k w : Rat) (s : Sys) (ps : List Pin) :
    clique0Go (k * w) (s.scale k) ps = (clique0Go w s ps).scale k := by
  induction ps generalizing s with
  | nil => rfl
  | cons p ps ih =>
    simp only [clique0Go]
    rw [loopIdx_scale k (clique0Inner w p) (clique0Inner (k * w) p) (fun s i q => addPin_scale ..), ih]

theorem addClique0_scale (k : Rat) (s : Sys) (n : Net) :
    addClique0 (s.scale k) (n.scale k) = (addClique0 s n).scale k := by
  unfold addClique0
  rw [cliqueW_scale]
  exact clique0Go_scale ..

theorem addBipoint_scale (k : Rat) (pl : List Rat) (ε : Rat) (s : Sys) (n : Net) :
    addBipoint pl ε (s.scale k) (n.scale k) = (addBipoint pl ε s n).scale k := by
  unfold addBipoint
  simp only [netScale_pins, netScale_weight]
  split
  · rw [mul_div_assoc]; exact addPin_scale ..
  · rfl

theorem cliqueInner_scale (k : Rat) (pl : List Rat) (ε w : Rat) (p : Pin) (s : Sys) (i : Nat) (q : Pin) :
    cliqueInner pl ε (k * w) p (s.scale k) i q = (cliqueInner pl ε w p s i q).scale k := by
  unfold cliqueInner
  rw [mul_div_assoc]; exact addPin_scale ..

theorem cliqueGo_scale (k : Rat) (pl : List Rat) (ε w : Rat) (s : Sys) (ps : List Pin) :
    cliqueGo pl ε (k * w) (s.scale k) ps = (cliqueGo pl ε w s ps).scale k := by
  induction ps generalizing s with
  | nil => rfl
  | cons p ps ih =>
    simp only [cliqueGo]
    rw [loopIdx_scale k (cliqueInner pl ε w p) (cliqueInner pl ε (k * w) p)
      (fun s i q => cliqueInner_scale ..), ih]

theorem addClique_scale (k : Rat) (pl : List Rat) (ε : Rat) (s : Sys) (n : Net) :
    addClique pl ε (s.scale k) (n.scale k) = (addClique pl ε s n).scale k := by
  unfold addClique
  rw [cliqueW_scale]
  exact cliqueGo_scale ..

theorem starBody_scale (k : Rat) (pl : List Rat) (ε wt : Rat) (mn mx : Ext) (sc : Nat) (s : Sys) (i : Nat) (p : Pin) :
    starBody pl ε (k * wt) mn mx sc (s.scale k) i p = (starBody pl ε wt mn mx sc s i p).scale k := by
  unfold starBody
  split
  · rw [mul_div_assoc]; exact addPin_scale ..
  · rw [mul_div_assoc]; exact addPin_scale ..

theorem addStar_scale (k : Rat) (pl : List Rat) (ε : Rat) (s : Sys) (n : Net) :
    addStar pl ε (s.scale k) (n.scale k) = (addStar pl ε s n).scale k := by
  obtain ⟨w, pins⟩ := n
  show addStar pl ε (Sys.scale k s) ⟨k * w, pins⟩ = Sys.scale k (addStar pl ε s ⟨w, pins⟩)
  unfold addStar
  dsimp only
  simp only [scale_matSize]
  by_cases h : pins.length ≤ 2
  · rw [if_pos h, if_pos h]; exact addBipoint_scale k pl ε s ⟨w, pins⟩
  · rw [if_neg h, if_neg h, addCell_scale]
    exact loopIdx_scale k _ _ (fun s i p => starBody_scale ..) _ _ _

theorem lightStarBody_scale (k : Rat) (pl : List Rat) (ε wt wb : Rat) (mn mx : Ext) (sc : Nat) (s : Sys) (i : Nat) (p : Pin) :
    lightStarBody pl ε (k * wt) (k * wb) mn mx sc (s.scale k) i p
      = (lightStarBody pl ε wt wb mn mx sc s i p).scale k := by
  unfold lightStarBody
  split
  · rw [mul_div_assoc]; exact addPin_scale ..
  · rw [mul_div_assoc, mul_div_assoc, ← mul_add]; exact addPin_scale ..

theorem addLightStar_scale (k : Rat) (pl : List Rat) (ε : Rat) (s : Sys) (n : Net) :
    addLightStar pl ε (s.scale k) (n.scale k) = (addLightStar pl ε s n).scale k := by
  obtain ⟨w, pins⟩ := n
  have hb : b2bW ⟨k * w, pins⟩ = k * b2bW ⟨w, pins⟩ := b2bW_scale k ⟨w, pins⟩
  show addLightStar pl ε (Sys.scale k s) ⟨k * w, pins⟩ = Sys.scale k (addLightStar pl ε s ⟨w, pins⟩)
  unfold addLightStar
  rw [hb]
  dsimp only
  simp only [scale_matSize]
  by_cases h : pins.length ≤ 2
  · rw [if_pos h, if_pos h]; exact addBipoint_scale k pl ε s ⟨w, pins⟩
  · rw [if_neg h, if_neg h, addCell_scale]
    exact loopIdx_scale k _ _ (fun s i p => lightStarBody_scale ..) _ _ _

theorem b2bMax_scale (k : Rat) (pl : List Rat) (ε w : Rat) (mx : Ext) (s : Sys) (i : Nat) (p : Pin) :
    b2bMax pl ε (k * w) mx (s.scale k) i p = (b2bMax pl ε w mx s i p).scale k := by
  unfold b2bMax
  split
  · rfl
  · rw [mul_div_assoc]; exact addPin_scale ..

theorem b2bBody_scale (k : Rat) (pl : List Rat) (ε w : Rat) (mn mx : Ext) (s : Sys) (i : Nat) (p : Pin) :
    b2bBody pl ε (k * w) mn mx (s.scale k) i p = (b2bBody pl ε w mn mx s i p).scale k := by
  unfold b2bBody
  split
  · rfl
  · rw [mul_div_assoc, addPin_scale]; exact b2bMax_scale ..

theorem addB2B_scale (k : Rat) (pl : List Rat) (ε : Rat) (s : Sys) (n : Net) :
    addB2B pl ε (s.scale k) (n.scale k) = (addB2B pl ε s n).scale k := by
  unfold addB2B
  rw [b2bW_scale]
  simp only [netScale_pins]
  exact loopIdx_scale k _ _ (fun s i p => b2bBody_scale ..) _ _ _

theorem addNetModel_scale (k : Rat) (m : Mode) (pl : List Rat) (ε : Rat) (s : Sys) (n : Net) :
    addNetModel m pl ε (s.scale k) (n.scale k) = (addNetModel m pl ε s n).scale k := by
  cases m
  · exact addStar0_scale ..
  · exact addB2B_scale ..
  · exact addStar_scale ..
  · exact addClique_scale ..
  · exact addLightStar_scale ..

theorem foldl_nets_scale (k : Rat) (m : Mode) (pl : List Rat) (ε : Rat) (nets : List Net) (s : Sys) :
    (nets.map (Net.scale k)).foldl (addNetModel m pl ε) (s.scale k)
      = (nets.foldl (addNetModel m pl ε) s).scale k := by
  induction nets generalizing s with
  | nil => rfl
  | cons n ns ih => simp only [List.map_cons, List.foldl_cons]; rw [addNetModel_scale, ih]

theorem create_scale (k : Rat) (m : Mode) (nb : Nat) (nets : List Net) (pl : List Rat) (ε : Rat) :
    create m nb (nets.map (Net.scale k)) pl ε = (create m nb nets pl ε).scale k := by
  unfold create
  rw [← foldl_nets_scale, init_scale]

/-! ### penalty -/

theorem penaltyBody_scale (k : Rat) (pl : List Rat) (pen : Penalty) (s : Sys) (i : Nat) :
    penaltyBody pl (pen.scale k) (s.scale k) i = (penaltyBody pl pen s i).scale k := by
  unfold penaltyBody
  simp only [Penalty.scale, getD_scale]
  rw [mul_div_assoc]; exact addFixedPin_scale ..

theorem foldl_penalty_scale (k : Rat) (pl : List Rat) (pen : Penalty) (is : List Nat) (s : Sys) :
    is.foldl (penaltyBody pl (pen.scale k)) (s.scale k) = (is.foldl (penaltyBody pl pen) s).scale k := by
  induction is generalizing s with
  | nil => rfl
  | cons i is ih => simp only [List.foldl_cons]; rw [penaltyBody_scale, ih]

theorem addPenaltyOpt_scale (k : Rat) (pl : List Rat) (pen : Option Penalty) (s : Sys) :
    addPenaltyOpt pl (pen.map (Penalty.scale k)) (s.scale k) = (addPenaltyOpt pl pen s).scale k := by
  cases pen with
  | none => rfl
  | some p => simp only [Option.map_some, addPenaltyOpt, addPenalty, scale_nbCells]; exact foldl_penalty_scale ..

theorem assembleNets_scale (k : Rat) (m : Mode) (nb : Nat) (nets : List Net) (pl : List Rat) (ε : Rat)
    (pen : Option Penalty) :
    assembleNets m nb (nets.map (Net.scale k)) pl ε (pen.map (Penalty.scale k))
      = (assembleNets m nb nets pl ε pen).scale k := by
  unfold assembleNets
  rw [create_scale, addPenaltyOpt_scale]

/-! ### storing the weights -/

theorem addNetWith_scale (k : Rat) (store : Rat → Rat) (hs : ∀ w, store w = w) (nm : List Net) (r : RawNet) :
    addNetWith store (nm.map (Net.scale k)) (r.scale k) = (addNetWith store nm r).map (Net.scale k) := by
  unfold addNetWith addNet3With
  simp only [RawNet.scale, hs]
  split
  · rfl
  · split
    · rfl
    · simp [Net.scale]

theorem buildWith_scale (k : Rat) (store : Rat → Rat) (hs : ∀ w, store w = w) (raws : List RawNet) :
    buildWith store (raws.map (RawNet.scale k)) = (buildWith store raws).map (Net.scale k) := by
  unfold buildWith
  have h : ∀ (nm : List Net), (raws.map (RawNet.scale k)).foldl (addNetWith store) (nm.map (Net.scale k))
      = (raws.foldl (addNetWith store) nm).map (Net.scale k) := by
    induction raws with
    | nil => intro nm; rfl
    | cons r rs ih => intro nm; simp only [List.map_cons, List.foldl_cons]; rw [addNetWith_scale k store hs, ih]
  simpa using h []

theorem assemble_scale (k : Rat) (m : Mode) (nb : Nat) (raws : List RawNet) (pl : List Rat) (ε : Rat)
    (pen : Option Penalty) :
    assemble m nb (raws.map (RawNet.scale k)) pl ε (pen.map (Penalty.scale k))
      = (assemble m nb raws pl ε pen).scale k := by
  unfold assemble assembleWith
  rw [buildWith_scale k _ store_exact, assembleNets_scale]

/-! ### solution sets -/

theorem rowDot_scale (k : Rat) (mat : List (Nat × Nat × Rat)) (x : Nat → Rat) (i : Nat) :
    rowDot (mat.map (fun t => (t.1, t.2.1, k * t.2.2))) x i = k * rowDot mat x i := by
  induction mat with
  | nil => simp [rowDot]
  | cons t ts ih =>
    simp only [List.map_cons, rowDot, ih]
    split <;> ring

theorem solves_scale (k : Rat) (hk : k ≠ 0) (s : Sys) (x : Nat → Rat) :
    Solves (s.scale k) x ↔ Solves s x := by
  unfold Solves
  simp only [scale_mat, scale_rhs, rowDot_scale, getD_scale]
  constructor
  · intro h i; exact mul_left_cancel₀ hk (h i)
  · intro h i; rw [h i]

end ColoVerif.NetAsm
