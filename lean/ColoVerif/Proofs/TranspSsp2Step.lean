/-
C13: one round of the second walk of `sendSource(src, sink, quantity)` (`sendStep`) — it does not
fail, keeps the queue invariant of the sink it passes through, and (second part) keeps the reduced
costs non-negative.
-/
import ColoVerif.Proofs.TranspSsp2Queue

namespace ColoVerif.Transp

lemma movingCostQ_ok (qs : Queues) (a b : Nat) (hne : a ≠ b) (hs : 0 < (qget qs a b).size) :
    movingCostQ qs a b = .ok (hget (qget qs a b) 0).cost := by
  unfold movingCostQ qtop
  have h1 : (a == b) = false := beq_eq_false_iff_ne.mpr hne
  have h2 : ((qget qs a b).size == 0) = false := beq_eq_false_iff_ne.mpr (by omega)
  simp [h1, h2, Except.map]

lemma sentSourceQ_ok (qs : Queues) (a b : Nat) (hs : 0 < (qget qs a b).size) :
    sentSourceQ qs a b = .ok (hget (qget qs a b) 0).elt := by
  unfold sentSourceQ qtop
  have h2 : ((qget qs a b).size == 0) = false := beq_eq_false_iff_ne.mpr (by omega)
  simp [h2, Except.map]

lemma qtop_ok (qs : Queues) (a b : Nat) (hs : 0 < (qget qs a b).size) :
    qtop qs a b = .ok (hget (qget qs a b) 0) := by
  unfold qtop
  have h2 : ((qget qs a b).size == 0) = false := beq_eq_false_iff_ne.mpr (by omega)
  simp [h2]

lemma add2?_ok (n m : Nat) (a : Mat) (i j : Nat) (d : Int) (hi : i < n) (hj : j < m)
    (hl : j < (a.getD i []).length) : add2? n m a i j d = some (add2 a i j d) := by
  unfold add2?; rw [if_pos ⟨hi, hj, hl⟩]

/-- a full row with a positive sum has non-empty queues -/
lemma QRow.nonempty {p : Problem} {alloc : Mat} {qs : Queues} {i : Nat} (h : QRow p alloc qs i)
    (hsum : 0 < rowSum alloc p.nbSources i) : ∀ d, d < p.nbSinks → d ≠ i → 0 < (qget qs i d).size := by
  obtain ⟨j, hj, hpos⟩ := sumTo_pos_exists _ _ hsum
  intro d hd hd'
  exact (h.2 d hd hd').toQPre.nonempty j hj (by omega)

/-- **`sendStep` does not fail** and keeps the queue invariant of `snk1` -/
lemma sendStep_total (p : Problem) (m : Int) (alloc : Mat) (qs : Queues) (snk1 snk2 sentSrc : Nat)
    (h1 : snk1 < p.nbSinks) (h2 : snk2 < p.nbSinks) (hne : snk1 ≠ snk2) (hs : sentSrc < p.nbSources)
    (hlen : (alloc.getD snk1 []).length = p.nbSources) (hqs : snk1 < qs.size)
    (hrow : QRow p alloc qs snk1) (hnn : ∀ j, 0 ≤ get2 alloc snk1 j)
    (hsum : 0 < rowSum alloc p.nbSources snk1) (hm : 0 < m)
    (hmle : m ≤ get2 alloc snk1 (hget (qget qs snk1 snk2) 0).elt) :
    ∃ st, sendStep p m alloc qs snk1 snk2 sentSrc = .ok st ∧
      st.queues.size = qs.size ∧ QRow p st.alloc st.queues snk1 ∧ st.newSrc < p.nbSources ∧
      (st.newSrc = sentSrc ∨ st.newSrc = (hget (qget qs snk1 snk2) 0).elt) ∧
      p.movingCost st.newSrc snk1 snk2 ≤ (hget (qget qs snk1 snk2) 0).cost ∧
      0 < (qget st.queues snk1 snk2).size ∧
      st.costUp = decide ((hget (qget st.queues snk1 snk2) 0).cost > (hget (qget qs snk1 snk2) 0).cost) ∧
      (∀ j, 0 ≤ get2 st.alloc snk1 j) ∧
      (st.alloc.getD snk1 []).length = p.nbSources := by
  have hne0 := hrow.nonempty hsum
  have hne' : snk2 ≠ snk1 := fun e => hne e.symm
  obtain ⟨qs1, hq1, hsz1, hrow1, htop1⟩ := pushStage p m alloc qs snk1 sentSrc hs hlen hqs hrow hnn hm hne0
  obtain ⟨hpos1, hor1, hle1⟩ := htop1 snk2 h2 hne'
  have hcost1 := (hrow1.2 snk2 h2 hne').cost _ (hget_mem _ 0 hpos1)
  have hl1 : sentSrc < (alloc.getD snk1 []).length := by omega
  have hlen1 : ((add2 alloc snk1 sentSrc m).getD snk1 []).length = p.nbSources := by
    rw [add2_row_len]; exact hlen
  have hl2 : (hget (qget qs1 snk1 snk2) 0).elt < ((add2 alloc snk1 sentSrc m).getD snk1 []).length := by
    rw [hlen1]; exact hcost1.1
  have hnz1 := (hrow1.2 snk2 h2 hne').top hpos1
  obtain ⟨hsz2, hrow2⟩ := popStage p m (add2 alloc snk1 sentSrc m) qs1 snk1 (hget (qget qs1 snk1 snk2) 0).elt
    hl2 (by omega) hrow1 hnz1
  have hsum2 : 0 < rowSum (add2 (add2 alloc snk1 sentSrc m) snk1 (hget (qget qs1 snk1 snk2) 0).elt (-m))
      p.nbSources snk1 := by
    have e1 := (add2?_sums p.nbSinks p.nbSources _ _ _ _ _
      (add2?_ok p.nbSinks p.nbSources alloc snk1 sentSrc m h1 hs hl1)).2 snk1
    have e2 := (add2?_sums p.nbSinks p.nbSources _ _ _ _ _
      (add2?_ok p.nbSinks p.nbSources _ snk1 _ (-m) h1 hcost1.1 hl2)).2 snk1
    rw [e2, e1]; simp only [if_true]; omega
  have hpos2 := hrow2.nonempty hsum2 snk2 h2 hne'
  refine ⟨{ alloc := add2 (add2 alloc snk1 sentSrc m) snk1 (hget (qget qs1 snk1 snk2) 0).elt (-m),
            queues := updateSinkQueues p
              (add2 (add2 alloc snk1 sentSrc m) snk1 (hget (qget qs1 snk1 snk2) 0).elt (-m)) qs1 snk1
              (hget (qget qs1 snk1 snk2) 0).elt,
            newSrc := (hget (qget qs1 snk1 snk2) 0).elt,
            costUp := decide ((hget (qget (updateSinkQueues p
              (add2 (add2 alloc snk1 sentSrc m) snk1 (hget (qget qs1 snk1 snk2) 0).elt (-m)) qs1 snk1
              (hget (qget qs1 snk1 snk2) 0).elt) snk1 snk2) 0).cost > (hget (qget qs snk1 snk2) 0).cost) },
    ?_, ?_, hrow2, hcost1.1, ?_, ?_, hpos2, rfl, ?_, ?_⟩
  · simp only [sendStep, movingCostQ_ok qs snk1 snk2 hne (hne0 snk2 h2 hne'), hq1,
      sentSourceQ_ok qs1 snk1 snk2 hpos1,
      add2?_ok p.nbSinks p.nbSources alloc snk1 sentSrc m h1 hs hl1,
      add2?_ok p.nbSinks p.nbSources _ snk1 _ (-m) h1 hcost1.1 hl2,
      movingCostQ_ok _ snk1 snk2 hne hpos2]
  · simp only []; rw [hsz2, hsz1]
  · simp only []
    rcases hor1 with e | e
    · left; exact e
    · right; rw [e]
  · simp only []
    rw [← hcost1.2]; exact hle1
  · intro j
    simp only []
    rw [get2_add2_row _ _ _ _ hl2, get2_add2_row _ _ _ _ hl1]
    have := hnn j
    rcases hor1 with e | e
    · rw [e]; split <;> omega
    · rw [e]
      by_cases ej : j = (hget (qget qs snk1 snk2) 0).elt
      · rw [ej] at this ⊢; simp only [if_true]; split <;> omega
      · rw [if_neg ej]; split <;> omega
  · simp only []
    rw [add2_row_len, add2_row_len]; exact hlen

/-- **reduced costs along one round.**  `d` are the sink potentials (`sendingCost_`).  If every source
present in `snk1`, and the arriving source, is "tight" at `snk1` (cheapest there w.r.t. `d`), and the
tree edge `snk1 → snk2` is tight, then the same holds after the round for `snk1`, the source that
leaves is tight at `snk2`, and the edge cost did not go down (it is still tight unless `costUp`). -/
lemma sendStep_potentials (p : Problem) (m : Int) (alloc : Mat) (qs : Queues) (snk1 snk2 sentSrc : Nat)
    (d : Nat → Int) (st : Step) (h2 : snk2 < p.nbSinks) (hne : snk1 ≠ snk2)
    (hm : 0 < m) (hmle : m ≤ get2 alloc snk1 (hget (qget qs snk1 snk2) 0).elt)
    (hst : sendStep p m alloc qs snk1 snk2 sentSrc = .ok st)
    (hrow' : QRow p st.alloc st.queues snk1)
    (hns : st.newSrc = sentSrc ∨ st.newSrc = (hget (qget qs snk1 snk2) 0).elt)
    (hmc : p.movingCost st.newSrc snk1 snk2 ≤ (hget (qget qs snk1 snk2) 0).cost)
    (hpos' : 0 < (qget st.queues snk1 snk2).size)
    (hnn' : ∀ j, 0 ≤ get2 st.alloc snk1 j)
    (P1 : ∀ j, j < p.nbSources → 0 < get2 alloc snk1 j →
      ∀ k, k < p.nbSinks → p.cost snk1 j + d snk1 ≤ p.cost k j + d k)
    (P2 : ∀ k, k < p.nbSinks → p.cost snk1 sentSrc + d snk1 ≤ p.cost k sentSrc + d k)
    (P3 : d snk1 = (hget (qget qs snk1 snk2) 0).cost + d snk2)
    (hsn : st.newSrc < p.nbSources) :
    (∀ j, j < p.nbSources → 0 < get2 st.alloc snk1 j →
      ∀ k, k < p.nbSinks → p.cost snk1 j + d snk1 ≤ p.cost k j + d k) ∧
    (∀ k, k < p.nbSinks → p.cost snk2 st.newSrc + d snk2 ≤ p.cost k st.newSrc + d k) ∧
    (hget (qget qs snk1 snk2) 0).cost ≤ (hget (qget st.queues snk1 snk2) 0).cost := by
  obtain ⟨ha, _, _, _⟩ := sendStep_alloc p m alloc qs snk1 snk2 sentSrc st hst
  have I2' : ∀ j, j < p.nbSources → 0 < get2 st.alloc snk1 j →
      ∀ k, k < p.nbSinks → p.cost snk1 j + d snk1 ≤ p.cost k j + d k := by
    intro j hj hpos k hk
    rw [ha snk1 j] at hpos
    by_cases ej : j = sentSrc
    · rw [ej]; exact P2 k hk
    · have : ¬ (snk1 = snk1 ∧ j = sentSrc) := fun hh => ej hh.2
      rw [if_neg this] at hpos
      refine P1 j hj ?_ k hk
      split at hpos <;> omega
  have tight1 : ∀ k, k < p.nbSinks → p.cost snk1 st.newSrc + d snk1 ≤ p.cost k st.newSrc + d k := by
    rcases hns with e | e
    · rw [e]; exact P2
    · rw [e] at hsn ⊢; exact P1 _ hsn (by omega)
  refine ⟨I2', fun k hk => ?_, ?_⟩
  · have t1 := tight1 snk2 h2
    have t2 := tight1 k hk
    unfold Problem.movingCost at hmc
    omega
  · have hq := hrow'.2 snk2 h2 (fun e => hne e.symm)
    obtain ⟨hlt, hc⟩ := hq.cost _ (hget_mem _ 0 hpos')
    have hnz := hq.top hpos'
    have := I2' _ hlt (by have := hnn' (hget (qget st.queues snk1 snk2) 0).elt; omega) snk2 h2
    rw [hc]; unfold Problem.movingCost; omega

end ColoVerif.Transp
