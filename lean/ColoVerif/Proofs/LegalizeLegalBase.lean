import ColoVerif.Proofs.LegalizeLegalAbacus
/-
Helper lemmas for C01 (`legalize_legal`), part 4: `Legalizer::run` on the `LegalizerBase` level.

`importLegalization` copies the status of the sub-legalizer's placed cells into the main one; the
Tetris pass works on the free space of the rows (`remainingRows` with nothing placed), the Abacus
pass on the free space minus the macros the Tetris pass placed.  Result (`run_legal`): every
placed cell has every row-high strip inside one of the rows, keeps its turn status, and two
different placed cells do not overlap.
-/
namespace ColoVerif.Legalize
open ColoVerif

/-! ### small facts -/

theorem posAt_of_getElem? (P : List Pos) (i : Nat) (p : Pos) (h : P[i]? = some p) : posAt P i = p := by
  simp [posAt, List.getD_eq_getElem?_getD, h]

theorem cellAt_of_getElem? (L : List LCell) (i : Nat) (c : LCell) (h : L[i]? = some c) : cellAt L i = c := by
  simp [cellAt, List.getD_eq_getElem?_getD, h]

/-- an index whose cell has a non-zero height is a valid index -/
theorem cellAt_valid (L : List LCell) (m : Nat) (h : (cellAt L m).h ≠ 0) : m < L.length ∧ cellAt L m ∈ L := by
  by_cases hm : m < L.length
  · refine ⟨hm, ?_⟩
    simp [cellAt, List.getD_eq_getElem?_getD, List.getElem?_eq_getElem hm]
  · exfalso
    apply h
    simp [cellAt, List.getD_eq_getElem?_getD, List.getElem?_eq_none (Nat.le_of_not_lt hm)]
    rfl

theorem getOrientation_turn (rows : List Row) (hun : ∀ r ∈ rows, r.orient.isTurn = false) (c : LCell)
    (hpol : c.pol ≠ Polarity.ANY → c.torient.isTurn = false) (row : Nat) :
    (getOrientation rows c row).isTurn = c.torient.isTurn := by
  have hr : (rowAt rows row).orient.isTurn = false := by
    by_cases hm : row < rows.length
    · apply hun
      simp [rowAt, List.getD_eq_getElem?_getD, List.getElem?_eq_getElem hm]
    · simp [rowAt, List.getD_eq_getElem?_getD, List.getElem?_eq_none (Nat.le_of_not_lt hm)]
      rfl
  unfold getOrientation
  generalize (rowAt rows row).orient = o at hr
  obtain ⟨w, h, pol, tx, ty, tor⟩ := c
  simp only at hpol ⊢
  cases pol
  · simp [cellOrientationInRow]
  all_goals
    have ht := hpol (by simp)
    cases o <;> simp_all [cellOrientationInRow, Orient.opposite, Orient.isTurn]

theorem rowHeight?_eq {H : Int} {rows : List Row} (hok : RowsOK H rows) (h : Int) (hr : rowHeight? rows = some h) :
    h = H := by
  unfold rowHeight? at hr
  cases rows with
  | nil => simp at hr
  | cons r rs =>
    simp only [List.head?_cons, Option.map_some, Option.some.injEq] at hr
    have := hok.height r (by simp)
    simp only [Rect.height] at hr
    omega

theorem tetrisInit_rowH {H : Int} {rows : List Row} (hok : RowsOK H rows) :
    (Tetris.init rows).rows ≠ [] → (Tetris.init rows).rowH = H := by
  intro hne
  simp only [Tetris.init] at hne ⊢
  have hs := hok.sort
  cases hq : sortRows rows with
  | nil => exact absurd hq hne
  | cons r rs =>
    rw [hq] at hs
    have := hs.height r (by simp)
    simp only [List.head?_cons, Option.map_some, Option.getD_some, Rect.height]
    omega

/-! ### `importLegalization` -/

theorem importPos_length : ∀ (sel : List Nat) (ps P : List Pos), (importPos sel ps P).length = P.length
  | [], _, P => by simp [importPos]
  | _ :: _, [], P => by simp [importPos]
  | c :: cs, p :: ps, P => by
    simp only [importPos]
    rw [importPos_length cs ps]
    split <;> simp

theorem importPos_spec : ∀ (sel : List Nat) (ps P : List Pos) (m : Nat),
    posAt (importPos sel ps P) m = posAt P m ∨
      ∃ (i : Nat) (p : Pos), sel[i]? = some m ∧ ps[i]? = some p ∧ p.placed = true ∧ posAt (importPos sel ps P) m = p
  | [], _, P, m => by simp [importPos]
  | _ :: _, [], P, m => by simp [importPos]
  | c :: cs, p :: ps, P, m => by
    simp only [importPos]
    rcases importPos_spec cs ps (if p.placed then P.set c p else P) m with h | ⟨i, q, h1, h2, h3, h4⟩
    · by_cases hp : p.placed = true
      · rw [if_pos hp] at h
        rw [posAt_set] at h
        by_cases hc : c = m ∧ c < P.length
        · rw [if_pos hc] at h
          right
          refine ⟨0, p, by simp [hc.1], by simp, hp, ?_⟩
          rw [if_pos hp]
          exact h
        · rw [if_neg hc] at h
          left
          rw [if_pos hp]
          exact h
      · rw [if_neg hp] at h ⊢
        exact Or.inl h
    · right
      exact ⟨i + 1, q, by simpa using h1, by simpa using h2, h3, h4⟩

/-- rectangle of cell `m` at its status -/
def cellRect (L : List LCell) (P : List Pos) (m : Nat) : Rect :=
  ⟨(posAt P m).x, (posAt P m).x + (cellAt L m).w, (posAt P m).y, (posAt P m).y + (cellAt L m).h⟩

theorem placedRects_mem : ∀ (L : List LCell) (P : List Pos) (m : Nat) (c : LCell) (p : Pos),
    L[m]? = some c → P[m]? = some p → p.placed = true →
    (⟨p.x, p.x + c.w, p.y, p.y + c.h⟩ : Rect) ∈ placedRects L P
  | [], _, m, c, p, h, _, _ => by simp at h
  | _ :: _, [], m, c, p, _, h, _ => by simp at h
  | c0 :: cs, p0 :: ps, m, c, p, h1, h2, h3 => by
    simp only [placedRects]
    cases m with
    | zero =>
      simp only [List.getElem?_cons_zero, Option.some.injEq] at h1 h2
      subst h1 h2
      rw [if_pos h3]
      simp
    | succ m =>
      simp only [List.getElem?_cons_succ] at h1 h2
      have := placedRects_mem cs ps m c p h1 h2 h3
      split
      · simp [this]
      · exact this

/-- what is required of the cells: positive width, height a positive number of rows, polarised
cells unturned -/
def CellsOK (H : Int) (L : List LCell) : Prop :=
  ∀ c ∈ L, 0 < c.w ∧ (∃ k : Nat, 1 ≤ k ∧ c.h = hk H k) ∧ (c.pol ≠ Polarity.ANY → c.torient.isTurn = false)

/-- a legally placed cell: valid index, turn status kept, every strip inside a row -/
def CellLegal (H : Int) (R : List Row) (L : List LCell) (P : List Pos) (m : Nat) : Prop :=
  m < L.length ∧ (posAt P m).orient.isTurn = (cellAt L m).torient.isTurn ∧
  ∀ k : Nat, (cellAt L m).h = hk H k → 1 ≤ k → ∀ yj ∈ levels H k (posAt P m).y,
    ∃ r ∈ R, r.rect.minY = yj ∧ r.rect.minX ≤ (posAt P m).x ∧ (posAt P m).x + (cellAt L m).w ≤ r.rect.maxX

theorem mem_subrow_of_remaining {H : Int} {R : List Row} (hok : RowsOK H R) (obs : List Rect) (r : Row)
    (hr : r ∈ sortRows ((sortRows R).flatMap fun r => r.freespace obs)) : ∃ r' ∈ R, SubRow r r' := by
  rw [mem_sortRows] at hr
  obtain ⟨⟨r', hr', hsub⟩, _⟩ := flatMap_freespace_seg hok.sort obs r hr
  exact ⟨r', (mem_sortRows r' R).mp hr', hsub⟩

/-- rectangles `k1`, `k2 ≥ 1` rows high whose strips are pairwise disjoint are disjoint -/
theorem rects_disjoint_of_strips (H : Int) (hH : 0 < H) (x1 w1 y1 x2 w2 y2 : Int) (k1 k2 : Nat)
    (h1 : 1 ≤ k1) (h2 : 1 ≤ k2)
    (hs : ∀ yj1 ∈ levels H k1 y1, ∀ yj2 ∈ levels H k2 y2,
      (strip H x1 w1 yj1).intersects (strip H x2 w2 yj2) = false) :
    (⟨x1, x1 + w1, y1, y1 + hk H k1⟩ : Rect).intersects ⟨x2, x2 + w2, y2, y2 + hk H k2⟩ = false := by
  obtain ⟨k1', rfl⟩ : ∃ k', k1 = k' + 1 := ⟨k1 - 1, by omega⟩
  obtain ⟨k2', rfl⟩ : ∃ k', k2 = k' + 1 := ⟨k2 - 1, by omega⟩
  cases hint : (⟨x1, x1 + w1, y1, y1 + hk H (k1' + 1)⟩ : Rect).intersects ⟨x2, x2 + w2, y2, y2 + hk H (k2' + 1)⟩ with
  | false => rfl
  | true =>
    exfalso
    have hp2 := hk_pos H hH (k2' + 1) (by omega)
    obtain ⟨yj1, hyj1, hi1⟩ := rect_strip H hH x1 (x1 + w1) ⟨x2, x2 + w2, y2, y2 + hk H (k2' + 1)⟩
      (by simp only; omega) k1' y1 hint
    rw [intersects_comm] at hi1
    obtain ⟨yj2, hyj2, hi2⟩ := rect_strip H hH x2 (x2 + w2) ⟨x1, x1 + w1, yj1, yj1 + H⟩
      (by simp only; omega) k2' y2 hi1
    have := hs yj1 hyj1 yj2 hyj2
    rw [intersects_comm] at this
    simp only [strip] at this
    rw [this] at hi2
    simp at hi2

/-! ### `runTetris` -/

theorem runTetris_spec (H : Int) (hH : 0 < H) (R : List Row) (hok : RowsOK H R) (L : List LCell)
    (hL : CellsOK H L) (order : List Nat) (b0 b1 : Base) (hrows : b0.rows = sortRows R) (hcells : b0.cells = L)
    (hpos : b0.pos = L.map initPos) (h : runTetris b0 order = .ok b1) :
    b1.rows = sortRows R ∧ b1.cells = L ∧ b1.pos.length = L.length ∧
    (∀ m, (posAt b1.pos m).placed = true → CellLegal H R L b1.pos m) ∧
    (∀ m1 m2, m1 ≠ m2 → (posAt b1.pos m1).placed = true → (posAt b1.pos m2).placed = true →
      (cellRect L b1.pos m1).intersects (cellRect L b1.pos m2) = false) := by
  unfold runTetris at h
  split at h
  · -- no row: nothing placed
    split at h
    · injection h with h
      subst h
      refine ⟨hrows, hcells, by simp [hpos], ?_, ?_⟩
      · intro m hm
        rw [hpos, posAt_init] at hm; simp at hm
      · intro m1 m2 _ hm
        rw [hpos, posAt_init] at hm; simp at hm
    · simp at h
  · rename_i rowH hrh
    rw [hrows] at hrh
    have hrowH : rowH = H := rowHeight?_eq hok.sort rowH hrh
    subst hrowH
    injection h with h
    subst h
    simp only
    generalize hsel : tetrisSel b0 rowH order = sel
    have hselm : ∀ m ∈ sel, m < L.length ∧ cellAt L m ∈ L := by
      intro m hm
      rw [← hsel] at hm
      simp only [tetrisSel, List.mem_filter, Bool.and_eq_true, Bool.not_eq_true', decide_eq_false_iff_not] at hm
      have hgt : ¬ ((cellAt L m).h ≤ rowH) := by rw [← hcells]; exact hm.2.2
      exact cellAt_valid L m (by omega)
    have hrem : b0.remainingRows = (sortRows R).flatMap fun r => r.freespace (placedRects L (L.map initPos)) := by
      simp only [Base.remainingRows, hrows, hcells, hpos]
    rw [hrem, hcells, hpos]
    generalize hobs : placedRects L (L.map initPos) = obs
    have hrok : RowsOK rowH ((sortRows R).flatMap fun r => r.freespace obs) := hok.sort.freespace obs
    have htok : RowsOK rowH (Tetris.init ((sortRows R).flatMap fun r => r.freespace obs)).rows := hrok.sort
    have hcT : ∀ c ∈ sel.map (cellAt L), 0 < c.w ∧ ∃ k : Nat, 1 ≤ k ∧ c.h = hk rowH k := by
      intro c hc
      obtain ⟨m, hm, rfl⟩ := List.mem_map.mp hc
      obtain ⟨a1, a2, _⟩ := hL _ (hselm m hm).2
      exact ⟨a1, a2⟩
    have hT := tetrisRun_ok rowH hH (sel.map (cellAt L)) (Tetris.init ((sortRows R).flatMap fun r => r.freespace obs))
      (fun _ => False) htok (tetrisInit_rowH hrok)
      (by
        simp only [Tetris.init]
        refine pointwise_map _ _ ?_
        intro r _
        exact ⟨Int.le_refl _, fun q hq => absurd hq id⟩) hcT
    generalize hps : tetrisRun (Tetris.init ((sortRows R).flatMap fun r => r.freespace obs)) (sel.map (cellAt L)) = psT at hT
    -- every placed cell comes from a placed sub-cell
    have key : ∀ m, (posAt (importPos sel psT (L.map initPos)) m).placed = true →
        ∃ i : Nat, sel[i]? = some m ∧ psT[i]? = some (posAt (importPos sel psT (L.map initPos)) m) ∧
          (sel.map (cellAt L))[i]? = some (cellAt L m) := by
      intro m hm
      rcases importPos_spec sel psT (L.map initPos) m with h | ⟨i, p, h1, h2, h3, h4⟩
      · rw [h, posAt_init] at hm; simp at hm
      · refine ⟨i, h1, by rw [h4]; exact h2, ?_⟩
        simp [List.getElem?_map, h1]
    refine ⟨hrows, rfl, by rw [importPos_length]; simp, ?_, ?_⟩
    · intro m hm
      obtain ⟨i, h1, h2, h3⟩ := key m hm
      have hmv := hselm m (List.mem_of_getElem? h1)
      obtain ⟨_, _, hpol⟩ := hL _ hmv.2
      refine ⟨hmv.1, ?_, ?_⟩
      · obtain ⟨k, hk1, hhk⟩ := (hL _ hmv.2).2.1
        obtain ⟨⟨row, hor⟩, _⟩ := hT.2 i _ _ k h3 h2 hm hhk hk1
        rw [hor]
        exact getOrientation_turn _ htok.unturned _ hpol row
      · intro k hhk hk1 yj hyj
        obtain ⟨_, hin, _⟩ := hT.2 i _ _ k h3 h2 hm hhk hk1
        obtain ⟨r, hr, a1, a2, a3⟩ := hin yj hyj
        obtain ⟨r', hr', hsub⟩ := mem_subrow_of_remaining hok obs r hr
        obtain ⟨s1, s2, s3, _, _⟩ := hsub
        exact ⟨r', hr', by omega, by omega, by omega⟩
    · intro m1 m2 hne hm1 hm2
      obtain ⟨i1, a1, a2, a3⟩ := key m1 hm1
      obtain ⟨i2, b1, b2, b3⟩ := key m2 hm2
      have hv1 := hselm m1 (List.mem_of_getElem? a1)
      have hv2 := hselm m2 (List.mem_of_getElem? b1)
      obtain ⟨k1, hk1, hh1⟩ := (hL _ hv1.2).2.1
      obtain ⟨k2, hk2, hh2⟩ := (hL _ hv2.2).2.1
      have hi : i1 ≠ i2 := by
        intro he
        subst he
        rw [a1] at b1
        injection b1 with b1
        exact hne b1
      simp only [cellRect]
      rw [hh1, hh2]
      apply rects_disjoint_of_strips rowH hH _ _ _ _ _ _ k1 k2 hk1 hk2
      intro yj1 hyj1 yj2 hyj2
      rcases Nat.lt_or_gt_of_ne hi with hlt | hgt
      · obtain ⟨_, _, _, hprev⟩ := hT.2 i2 _ _ k2 b3 b2 hm2 hh2 hk2
        exact hprev i1 _ _ k1 hlt a3 a2 hm1 hh1 hk1 yj1 hyj1 yj2 hyj2
      · obtain ⟨_, _, _, hprev⟩ := hT.2 i1 _ _ k1 a3 a2 hm1 hh1 hk1
        rw [intersects_comm]
        exact hprev i2 _ _ k2 hgt b3 b2 hm2 hh2 hk2 yj2 hyj2 yj1 hyj1

/-! ### `runAbacus` -/

theorem runAbacus_spec (H : Int) (hH : 0 < H) (R : List Row) (hok : RowsOK H R) (L : List LCell)
    (hL : CellsOK H L) (order : List Nat) (b1 b2 : Base) (hrows : b1.rows = sortRows R) (hcells : b1.cells = L)
    (hlen : b1.pos.length = L.length) (h : runAbacus b1 order = .ok b2) :
    b2.pos.length = L.length ∧
    (∀ m, posAt b2.pos m ≠ posAt b1.pos m →
      (posAt b2.pos m).placed = true ∧ CellLegal H R L b2.pos m ∧
      ∀ m', m' ≠ m → (posAt b1.pos m').placed = true → m' < L.length → 0 < (cellAt L m').w → 0 < (cellAt L m').h →
        posAt b2.pos m' = posAt b1.pos m' →
        (cellRect L b2.pos m).intersects (cellRect L b2.pos m') = false) ∧
    (∀ m1 m2, m1 ≠ m2 → posAt b2.pos m1 ≠ posAt b1.pos m1 → posAt b2.pos m2 ≠ posAt b1.pos m2 →
      (cellRect L b2.pos m1).intersects (cellRect L b2.pos m2) = false) := by
  unfold runAbacus at h
  split at h
  · split at h
    · injection h with h
      subst h
      exact ⟨hlen, fun m hm => absurd rfl hm, fun m1 m2 _ hm => absurd rfl hm⟩
    · simp at h
  · rename_i rowH hrh
    rw [hrows] at hrh
    have hrowH : rowH = H := rowHeight?_eq hok.sort rowH hrh
    subst hrowH
    split at h
    · simp at h
    · rename_i psA hA
      injection h with h
      subst h
      simp only
      generalize hsel : abacusSel b1 rowH order = sel at hA ⊢
      have hselm : ∀ m ∈ sel, m < L.length ∧ cellAt L m ∈ L ∧ (cellAt L m).h = rowH := by
        intro m hm
        rw [← hsel] at hm
        simp only [abacusSel, List.mem_filter, Bool.and_eq_true, Bool.not_eq_true', decide_eq_false_iff_not,
          Decidable.not_not] at hm
        have he : (cellAt L m).h = rowH := by rw [← hcells]; exact hm.2.2
        have := cellAt_valid L m (by omega)
        exact ⟨this.1, this.2, he⟩
      have hrem : b1.remainingRows = (sortRows R).flatMap fun r => r.freespace (placedRects L b1.pos) := by
        simp only [Base.remainingRows, hrows, hcells]
      rw [hrem, hcells] at hA
      have hrok : RowsOK rowH ((sortRows R).flatMap fun r => r.freespace (placedRects L b1.pos)) :=
        hok.sort.freespace _
      have hwA : ∀ c ∈ sel.map (cellAt L), 0 < c.w := by
        intro c hc
        obtain ⟨m, hm, rfl⟩ := List.mem_map.mp hc
        exact (hL _ (hselm m hm).2.1).1
      obtain ⟨hA1, hA2⟩ := abacusRun_ok rowH _ hrok _ hwA psA hA
      -- every changed cell comes from a placed sub-cell
      have key : ∀ m, posAt (importPos sel psA b1.pos) m ≠ posAt b1.pos m →
          ∃ i : Nat, sel[i]? = some m ∧ posAt psA i = posAt (importPos sel psA b1.pos) m ∧
            (posAt (importPos sel psA b1.pos) m).placed = true ∧ cellAt (sel.map (cellAt L)) i = cellAt L m := by
        intro m hm
        rcases importPos_spec sel psA b1.pos m with h | ⟨i, p, h1, h2, h3, h4⟩
        · exact absurd h hm
        · refine ⟨i, h1, by rw [h4]; exact posAt_of_getElem? _ _ _ h2, by rw [h4]; exact h3, ?_⟩
          apply cellAt_of_getElem?
          simp [List.getElem?_map, h1]
      -- geometry of a changed cell
      have geo : ∀ m, posAt (importPos sel psA b1.pos) m ≠ posAt b1.pos m →
          m < L.length ∧ (cellAt L m).h = rowH ∧
          ∃ r ∈ (sortRows R).flatMap (fun r => r.freespace (placedRects L b1.pos)),
            (posAt (importPos sel psA b1.pos) m).y = r.rect.minY ∧
            r.rect.minX ≤ (posAt (importPos sel psA b1.pos) m).x ∧
            (posAt (importPos sel psA b1.pos) m).x + (cellAt L m).w ≤ r.rect.maxX := by
        intro m hm
        obtain ⟨i, h1, h2, h3, h4⟩ := key m hm
        have hv := hselm m (List.mem_of_getElem? h1)
        obtain ⟨r, hr, a1, a2, a3, _⟩ := hA1 i (by rw [h2]; exact h3)
        rw [h2] at a1 a2 a3
        rw [h4] at a3
        exact ⟨hv.1, hv.2.2, r, hr, a1, a2, a3⟩
      refine ⟨by rw [importPos_length]; exact hlen, ?_, ?_⟩
      · intro m hm
        obtain ⟨i, h1, h2, h3, h4⟩ := key m hm
        have hv := hselm m (List.mem_of_getElem? h1)
        obtain ⟨hmL, hmh, r, hr, a1, a2, a3⟩ := geo m hm
        obtain ⟨⟨r', hr', hsub⟩, hmiss⟩ := flatMap_freespace_seg hok.sort (placedRects L b1.pos) r hr
        have hr'R := (mem_sortRows r' R).mp hr'
        obtain ⟨s1, s2, s3, s4, _⟩ := hsub
        refine ⟨h3, ⟨hmL, ?_, ?_⟩, ?_⟩
        · obtain ⟨_, _, _, _, _, row, hor⟩ := hA1 i (by rw [h2]; exact h3)
          rw [h2, h4] at hor
          rw [hor]
          exact getOrientation_turn _ hrok.sort.unturned _ (hL _ hv.2.1).2.2 row
        · intro k hhk hk1 yj hyj
          have : k = 1 := hk_inj rowH hH k 1 (by rw [← hhk, hmh]; simp [hk])
          subst this
          simp only [levels, List.mem_singleton] at hyj
          subst hyj
          exact ⟨r', hr'R, by omega, by omega, by omega⟩
        · intro m' hne' hpl' hm'L hw' hh' hsame
          have hmem : (⟨(posAt b1.pos m').x, (posAt b1.pos m').x + (cellAt L m').w, (posAt b1.pos m').y,
              (posAt b1.pos m').y + (cellAt L m').h⟩ : Rect) ∈ placedRects L b1.pos := by
            have hm'P : m' < b1.pos.length := by omega
            have e1 : L[m']? = some (cellAt L m') := by
              simp [cellAt, List.getD_eq_getElem?_getD, List.getElem?_eq_getElem hm'L]
            have e2 : b1.pos[m']? = some (posAt b1.pos m') := by
              simp [posAt, List.getD_eq_getElem?_getD, List.getElem?_eq_getElem hm'P]
            exact placedRects_mem L b1.pos m' _ _ e1 e2 hpl'
          have hd := hmiss _ hmem (by simp only; omega) (by simp only; omega)
          have hrh := hrok.height r hr
          simp only [cellRect, hsame]
          rw [intersects_false_iff] at hd ⊢
          simp only at hd ⊢
          omega
      · intro m1 m2 hne hm1 hm2
        obtain ⟨i1, a1, a2, a3, a4⟩ := key m1 hm1
        obtain ⟨i2, b1', b2', b3, b4⟩ := key m2 hm2
        have hv1 := hselm m1 (List.mem_of_getElem? a1)
        have hv2 := hselm m2 (List.mem_of_getElem? b1')
        have hi : i1 ≠ i2 := by
          intro he
          subst he
          rw [a1] at b1'
          injection b1' with b1'
          exact hne b1'
        have := hA2 i1 i2 hi (by rw [a2]; exact a3) (by rw [b2']; exact b3)
        rw [a2, a4, b2', b4] at this
        simp only [cellRect, hv1.2.2, hv2.2.2]
        simpa [strip] using this

/-! ### `Legalizer::run` -/

/-- **`Legalizer::run` is legal on the `LegalizerBase` level.**  If both passes return, every
placed cell is legally placed in the rows `R` and no two placed cells overlap. -/
theorem run_legal (H : Int) (hH : 0 < H) (R : List Row) (hok : RowsOK H R) (L : List LCell) (hL : CellsOK H L)
    (order : List Nat) (b1 b2 : Base) (h1 : runTetris (Base.mk' R L) order = .ok b1)
    (h2 : runAbacus b1 order = .ok b2) :
    b2.pos.length = L.length ∧
    (∀ m, (posAt b2.pos m).placed = true → CellLegal H R L b2.pos m) ∧
    (∀ m1 m2, m1 ≠ m2 → (posAt b2.pos m1).placed = true → (posAt b2.pos m2).placed = true →
      (cellRect L b2.pos m1).intersects (cellRect L b2.pos m2) = false) := by
  obtain ⟨t1, t2, t3, t4, t5⟩ := runTetris_spec H hH R hok L hL order _ b1 rfl rfl rfl h1
  obtain ⟨a1, a2, a3⟩ := runAbacus_spec H hH R hok L hL order b1 b2 t1 t2 t3 h2
  -- an unchanged placed cell keeps its Tetris facts
  have same : ∀ m, posAt b2.pos m = posAt b1.pos m → (posAt b2.pos m).placed = true →
      CellLegal H R L b2.pos m ∧ cellRect L b2.pos m = cellRect L b1.pos m := by
    intro m hs hp
    rw [hs] at hp
    have := t4 m hp
    simp only [CellLegal, cellRect, hs] at this ⊢
    exact ⟨this, trivial⟩
  have pos : ∀ m, (posAt b1.pos m).placed = true → m < L.length ∧ 0 < (cellAt L m).w ∧ 0 < (cellAt L m).h := by
    intro m hp
    obtain ⟨hm, _, _⟩ := t4 m hp
    have hmem : cellAt L m ∈ L := by
      simp [cellAt, List.getD_eq_getElem?_getD, List.getElem?_eq_getElem hm]
    obtain ⟨hw, ⟨k, hk1, hhk⟩, _⟩ := hL _ hmem
    have := hk_pos H hH k hk1
    exact ⟨hm, hw, by omega⟩
  refine ⟨a1, ?_, ?_⟩
  · intro m hp
    by_cases hc : posAt b2.pos m = posAt b1.pos m
    · exact (same m hc hp).1
    · exact (a2 m hc).2.1
  · intro m1 m2 hne hp1 hp2
    by_cases hc1 : posAt b2.pos m1 = posAt b1.pos m1
    · by_cases hc2 : posAt b2.pos m2 = posAt b1.pos m2
      · rw [(same m1 hc1 hp1).2, (same m2 hc2 hp2).2]
        exact t5 m1 m2 hne (by rw [← hc1]; exact hp1) (by rw [← hc2]; exact hp2)
      · have hp1' : (posAt b1.pos m1).placed = true := by rw [← hc1]; exact hp1
        obtain ⟨q1, q2, q3⟩ := pos m1 hp1'
        rw [intersects_comm]
        exact (a2 m2 hc2).2.2 m1 hne hp1' q1 q2 q3 hc1
    · by_cases hc2 : posAt b2.pos m2 = posAt b1.pos m2
      · have hp2' : (posAt b1.pos m2).placed = true := by rw [← hc2]; exact hp2
        obtain ⟨q1, q2, q3⟩ := pos m2 hp2'
        exact (a2 m1 hc1).2.2 m2 (fun h => hne h.symm) hp2' q1 q2 q3 hc2
      · exact a3 m1 m2 hne hc1 hc2

end ColoVerif.Legalize
