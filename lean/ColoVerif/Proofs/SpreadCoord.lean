import ColoVerif.Proofs.Spread
/-
C06 helper lemmas, second part: `spreadCells` as a whole, `scatter`, the bin loop.
-/
namespace ColoVerif.Spread

/-- `spreadCells` puts every positive-demand cell strictly between `lo` and `hi`. -/
theorem spreadCells_inside (targets demands : List Rat) (lo hi : Rat)
    (hlen : demands.length = targets.length) (hnn : ∀ d ∈ demands, 0 ≤ d) (hlh : lo < hi)
    (i : Nat) (hi' : i < targets.length) (hpos : 0 < demands.getD i 0) :
    lo < (spreadCells targets demands lo hi).getD i 0 ∧
    (spreadCells targets demands lo hi).getD i 0 < hi := by
  have hnn' : ∀ c, 0 ≤ demands.getD c 0 := getD_nonneg demands hnn
  have hS : 0 < demands.sum := lt_of_lt_of_le hpos (getD_le_sum demands hnn i)
  have hinv : 0 < 1 / sumRat demands := by rw [sumRat_eq]; exact one_div_pos.mpr hS
  have hperm : (sortedOrder targets).Perm (indexed targets 0) := List.mergeSort_perm _ _
  have hnd : ((sortedOrder targets).map Prod.snd).Nodup := by
    rw [(hperm.map Prod.snd).nodup_iff, indexed_snd]
    exact List.nodup_range'
  have hsum : ordSum demands (sortedOrder targets) = demands.sum := by
    rw [ordSum_perm demands hperm]
    exact ordSum_indexed demands [] demands targets 0 (by simp) (by simp) hlen.symm
  have h1 : (0 : Rat) + ordSum demands (sortedOrder targets) * (1 / sumRat demands) ≤ 1 := by
    rw [hsum, sumRat_eq]
    have : demands.sum * (1 / demands.sum) = 1 := by field_simp
    linarith
  obtain ⟨_, b, _⟩ := spreadLoop_inv demands (1 / sumRat demands) lo hi hnn' hinv hlh
    (sortedOrder targets) (0, List.replicate targets.length 0) (le_refl _) h1 hnd
  have hmem : (targets.getD i 0, i) ∈ sortedOrder targets := by
    rw [hperm.mem_iff]
    have := indexed_mem targets 0 i hi'
    simpa using this
  have := b (targets.getD i 0, i) hmem hpos (by simpa using hi')
  simpa [spreadCells] using this

/-! ### scatter -/

theorem scatter_length (ret : List Rat) (cells : List Nat) (vals : List Rat) :
    (scatter ret cells vals).length = ret.length := by
  induction cells generalizing ret vals with
  | nil => simp [scatter]
  | cons c cs ih =>
    cases vals with
    | nil => simp [scatter]
    | cons v vs => simp [scatter, ih]

theorem scatter_other (ret : List Rat) (cells : List Nat) (vals : List Rat) (j : Nat) (hj : j ∉ cells) :
    (scatter ret cells vals).getD j 0 = ret.getD j 0 := by
  induction cells generalizing ret vals with
  | nil => simp [scatter]
  | cons c cs ih =>
    cases vals with
    | nil => simp [scatter]
    | cons v vs =>
      have h1 : j ∉ cs := fun h => hj (List.mem_cons_of_mem _ h)
      have h2 : c ≠ j := fun h => hj (by simp [h])
      simp only [scatter]
      rw [ih _ _ h1, getD_set_ne _ _ _ _ h2]

/-- what `scatter` writes: the `k`-th cell receives the `k`-th value -/
theorem scatter_forall (P : Nat → Rat → Prop) (ret : List Rat) (cells : List Nat) (vals : List Rat)
    (hlen : cells.length = vals.length) (hnd : cells.Nodup) (hr : ∀ c ∈ cells, c < ret.length)
    (hP : ∀ k, k < cells.length → P (cells.getD k 0) (vals.getD k 0)) :
    ∀ c ∈ cells, P c ((scatter ret cells vals).getD c 0) := by
  induction cells generalizing ret vals with
  | nil => intro c hc; simp at hc
  | cons c cs ih =>
    cases vals with
    | nil => simp at hlen
    | cons v vs =>
      have hlen' : cs.length = vs.length := by simpa using hlen
      obtain ⟨hc, hnd'⟩ := List.nodup_cons.mp hnd
      intro c' hc'
      simp only [scatter]
      rcases List.mem_cons.mp hc' with rfl | hmem
      · rw [scatter_other _ _ _ _ hc, getD_set_self _ _ _ (hr c' (by simp))]
        have := hP 0 (by simp)
        simpa using this
      · apply ih (ret.set c v) vs hlen' hnd'
        · intro x hx
          rw [List.length_set]
          exact hr x (List.mem_cons_of_mem _ hx)
        · intro k hk
          have := hP (k + 1) (by simpa using hk)
          simpa using this
        · exact hmem

/-! ### the bin loop of spreadCoordX/Y -/

/-- what C06 needs of one cell's coordinate in bin `b` -/
def InBin (demand : List Int) (b : Bin) (c : Nat) (v : Rat) : Prop :=
  0 < demand.getD c 0 → (b.lo : Rat) < v ∧ v < (b.hi : Rat)

theorem binStep_inside (target : List Rat) (demand : List Int) (hdem : ∀ c, 0 ≤ demand.getD c 0)
    (ret : List Rat) (b : Bin) (hlh : b.lo < b.hi) (hnd : b.cells.Nodup)
    (hr : ∀ c ∈ b.cells, c < ret.length) :
    ∀ c ∈ b.cells, InBin demand b c ((binStep target demand ret b).getD c 0) := by
  unfold binStep
  apply scatter_forall (InBin demand b) ret b.cells (binCoords target demand b)
  · simp [binCoords, spreadCells_length]
  · exact hnd
  · exact hr
  · intro k hk hpos
    have hlh' : (b.lo : Rat) < (b.hi : Rat) := by exact_mod_cast hlh
    have hk' : k < (b.cells.map fun c => target.getD c 0).length := by simpa using hk
    have hdk : (b.cells.map fun c => (demand.getD c 0 : Rat)).getD k 0 = (demand.getD (b.cells.getD k 0) 0 : Rat) := by
      simp [List.getD_eq_getElem?_getD, List.getElem?_map]
      cases h : b.cells[k]? with
      | none =>
        have := List.getElem?_eq_none_iff.mp h
        omega
      | some x => simp
    apply spreadCells_inside _ _ _ _ (by simp) _ hlh' k hk'
    · rw [hdk]; exact_mod_cast hpos
    · intro d hd
      obtain ⟨c, _, rfl⟩ := List.mem_map.mp hd
      exact_mod_cast hdem c

theorem binStep_length (target : List Rat) (demand : List Int) (ret : List Rat) (b : Bin) :
    (binStep target demand ret b).length = ret.length := scatter_length _ _ _

theorem binStep_other (target : List Rat) (demand : List Int) (ret : List Rat) (b : Bin) (j : Nat)
    (hj : j ∉ b.cells) : (binStep target demand ret b).getD j 0 = ret.getD j 0 :=
  scatter_other _ _ _ _ hj

/-- Invariant of the `(i, j)` loop: every cell of every bin ends up inside its bin. -/
theorem binLoop_inside (target : List Rat) (demand : List Int) (hdem : ∀ c, 0 ≤ demand.getD c 0)
    (n : Nat) (bins : List Bin) (ret : List Rat) (hlen : ret.length = n)
    (hlh : ∀ b ∈ bins, b.lo < b.hi)
    (hnd : (bins.flatMap fun b => b.cells).Nodup) (hr : ∀ b ∈ bins, ∀ c ∈ b.cells, c < n) :
    (bins.foldl (binStep target demand) ret).length = n ∧
    (∀ b ∈ bins, ∀ c ∈ b.cells, InBin demand b c ((bins.foldl (binStep target demand) ret).getD c 0)) ∧
    (∀ j, (∀ b ∈ bins, j ∉ b.cells) → (bins.foldl (binStep target demand) ret).getD j 0 = ret.getD j 0) := by
  induction bins generalizing ret with
  | nil => simp [hlen]
  | cons b bs ih =>
    rw [List.flatMap_cons, List.nodup_append] at hnd
    obtain ⟨hndb, hndbs, hdisj⟩ := hnd
    have hlen' : (binStep target demand ret b).length = n := by rw [binStep_length, hlen]
    obtain ⟨a1, a2, a3⟩ := ih (binStep target demand ret b) hlen'
      (fun b' hb' => hlh b' (List.mem_cons_of_mem _ hb')) hndbs
      (fun b' hb' => hr b' (List.mem_cons_of_mem _ hb'))
    simp only [List.foldl_cons]
    refine ⟨a1, ?_, ?_⟩
    · intro b' hb' c hc
      rcases List.mem_cons.mp hb' with rfl | hmem
      · have hnot : ∀ b'' ∈ bs, c ∉ b''.cells := by
          intro b'' hb'' hc''
          exact hdisj c hc c (List.mem_flatMap.mpr ⟨b'', hb'', hc''⟩) rfl
        rw [a3 c hnot]
        exact binStep_inside target demand hdem ret b' (hlh b' (by simp)) hndb
          (fun c hc => by rw [hlen]; exact hr b' (by simp) c hc) c hc
      · exact a2 b' hmem c hc
    · intro j hj
      rw [a3 j (fun b' hb' => hj b' (List.mem_cons_of_mem _ hb'))]
      exact binStep_other target demand ret b j (hj b (by simp))

/-! ### cells that are in no bin -/

theorem clampTo_bounds (lo hi : Int) (h : lo ≤ hi) (t : Rat) :
    (lo : Rat) ≤ clampTo lo hi t ∧ clampTo lo hi t ≤ (hi : Rat) := by
  have h' : (lo : Rat) ≤ (hi : Rat) := by exact_mod_cast h
  unfold clampTo
  split <;> split <;> constructor <;> linarith

theorem initCoords_length (n : Nat) (lo hi : Int) (target : List Rat) :
    (initCoords n lo hi target).length = n := by
  simp [initCoords]

theorem initCoords_getD (n : Nat) (lo hi : Int) (target : List Rat) (c : Nat) (hc : c < n) :
    (initCoords n lo hi target).getD c 0 = clampTo lo hi (target.getD c 0) := by
  simp [initCoords, List.getD_eq_getElem?_getD, List.getElem?_map, List.getElem?_range hc]

end ColoVerif.Spread
