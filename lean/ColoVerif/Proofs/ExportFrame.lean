import ColoVerif.Model.Export
/-
Helper lemmas for C03: the frame relation is a preorder, a guarded single-cell update
respects it, and so do the three export loops.
-/
namespace ColoVerif.Export

theorem CellFrame.refl (o : Bool) (a : Cell) : CellFrame o a a :=
  ⟨rfl, rfl, rfl, rfl, rfl, fun _ => rfl, fun _ => rfl⟩

theorem CellFrame.trans {o : Bool} {a b c : Cell} (h1 : CellFrame o a b) (h2 : CellFrame o b c) :
    CellFrame o a c := by
  obtain ⟨w1, hh1, f1, ob1, p1, fx1, or1⟩ := h1
  obtain ⟨w2, hh2, f2, ob2, p2, fx2, or2⟩ := h2
  refine ⟨w2.trans w1, hh2.trans hh1, f2.trans f1, ob2.trans ob1, p2.trans p1, ?_, ?_⟩
  · intro hf
    have hb : b = a := fx1 hf
    have hfb : b.fixed = true := by rw [hb]; exact hf
    rw [fx2 hfb, hb]
  · intro ho
    rw [or2 ho, or1 ho]

/-- a weaker frame (orientation free) follows from the stronger one -/
theorem CellFrame.weaken {a b : Cell} (h : CellFrame false a b) : CellFrame true a b := by
  obtain ⟨w, hh, f, ob, p, fx, _⟩ := h
  exact ⟨w, hh, f, ob, p, fx, fun h => by cases h⟩

theorem Frame.refl (o : Bool) (c : Circuit) : Frame o c c :=
  ⟨rfl, rfl, rfl, fun _ => CellFrame.refl o _⟩

theorem Frame.trans {o : Bool} {a b c : Circuit} (h1 : Frame o a b) (h2 : Frame o b c) : Frame o a c :=
  ⟨h2.1.trans h1.1, h2.2.1.trans h1.2.1, h2.2.2.1.trans h1.2.2.1,
   fun i => CellFrame.trans (h1.2.2.2 i) (h2.2.2.2 i)⟩

theorem Frame.weaken {a b : Circuit} (h : Frame false a b) : Frame true a b :=
  ⟨h.1, h.2.1, h.2.2.1, fun i => CellFrame.weaken (h.2.2.2 i)⟩

theorem writeXY_frame (o : Bool) (x y : Int) (a : Cell) (hf : a.fixed = false) :
    CellFrame o a (writeXY x y a) :=
  ⟨rfl, rfl, rfl, rfl, rfl, fun h => (by rw [hf] at h; cases h), fun _ => rfl⟩

theorem writeXYO_frame (x y : Int) (or : Orient) (a : Cell) (hf : a.fixed = false) :
    CellFrame true a (writeXYO x y or a) :=
  ⟨rfl, rfl, rfl, rfl, rfl, fun h => (by rw [hf] at h; cases h), fun h => (by cases h)⟩

theorem cell_updCell (c : Circuit) (i j : Nat) (f : Cell → Cell) :
    (updCell c i f).cell j = if i = j ∧ j < c.cells.length then f (c.cell j) else c.cell j := by
  simp only [Circuit.cell, updCell, List.getD_eq_getElem?_getD, List.getElem?_modify]
  by_cases hj : j < c.cells.length
  · by_cases hij : i = j <;> simp [hij, hj]
  · have : c.cells[j]? = none := by simp at hj; simp [hj]
    simp [this]
    intro _ h; exact absurd h hj

/-- updating a non-fixed cell by a function that respects the cell frame respects the frame -/
theorem updCell_frame (o : Bool) (c : Circuit) (i : Nat) (f : Cell → Cell)
    (hf : CellFrame o (c.cell i) (f (c.cell i))) : Frame o c (updCell c i f) := by
  refine ⟨rfl, rfl, by simp [updCell], fun j => ?_⟩
  rw [cell_updCell]
  by_cases h : i = j ∧ j < c.cells.length
  · rw [if_pos h]; obtain ⟨rfl, _⟩ := h; exact hf
  · rw [if_neg h]; exact CellFrame.refl o _

/-- a loop whose every iteration respects the frame respects the frame -/
theorem foldl_frame {α : Type} (o : Bool) (step : Circuit → α → Circuit)
    (h : ∀ c a, Frame o c (step c a)) (l : List α) (c : Circuit) : Frame o c (l.foldl step c) := by
  induction l generalizing c with
  | nil => exact Frame.refl o c
  | cons a l ih => exact Frame.trans (h c a) (ih (step c a))

theorem globalStep_frame (xs ys : List Rat) (c : Circuit) (i : Nat) : Frame false c (globalStep xs ys c i) := by
  unfold globalStep
  by_cases hf : (c.cell i).fixed = true
  · rw [if_pos hf]; exact Frame.refl _ _
  · rw [if_neg hf]
    exact updCell_frame _ _ _ _ (writeXY_frame _ _ _ _ (by simpa using hf))

theorem exportGlobal_frame (c : Circuit) (xs ys : List Rat) : Frame false c (exportGlobal c xs ys) :=
  foldl_frame false _ (globalStep_frame xs ys) _ c

theorem legalStep_frame (L : LegVectors) (s : LegLoop) (i : Nat) : Frame true s.c (legalStep L s i).c := by
  unfold legalStep
  by_cases ht : s.thrown = true
  · rw [if_pos ht]; exact Frame.refl _ _
  · rw [if_neg ht]
    by_cases hf : (s.c.cell i).fixed = true
    · rw [if_pos hf]; exact Frame.refl _ _
    · rw [if_neg hf]
      by_cases hn : L.n ≤ s.j
      · rw [if_pos hn]; exact Frame.refl _ _
      · rw [if_neg hn]
        by_cases hp : L.placed.getD s.j false = true
        · rw [if_pos hp]
          exact updCell_frame _ _ _ _ (writeXYO_frame _ _ _ _ (by simpa using hf))
        · rw [if_neg hp]; exact Frame.refl _ _

theorem legalFold_frame (L : LegVectors) (l : List Nat) (s : LegLoop) :
    Frame true s.c (l.foldl (legalStep L) s).c := by
  induction l generalizing s with
  | nil => exact Frame.refl _ _
  | cons a l ih => exact Frame.trans (legalStep_frame L s a) (ih (legalStep L s a))

theorem exportLegal_frame (c : Circuit) (L : LegVectors) : Frame true c (exportLegal c L).2 :=
  legalFold_frame L _ ⟨c, 0, false⟩

theorem detailedStep_frame (D : DetVectors) (c : Circuit) (i : Nat) : Frame true c (detailedStep D c i) := by
  unfold detailedStep
  by_cases hn : D.cellIndex.getD i (-1) < 0
  · rw [if_pos hn]; exact Frame.refl _ _
  · rw [if_neg hn]
    by_cases hf : (c.cell (D.cellIndex.getD i (-1)).toNat).fixed = true
    · rw [if_pos hf]; exact Frame.refl _ _
    · rw [if_neg hf]
      exact updCell_frame _ _ _ _ (writeXYO_frame _ _ _ _ (by simpa using hf))

theorem exportDetailed_frame (c : Circuit) (D : DetVectors) : Frame true c (exportDetailed c D) :=
  foldl_frame true _ (detailedStep_frame D) _ c

theorem exportGlobalBlend_frame (c : Circuit) (G : GlobalVectors) : Frame false c (exportGlobalBlend c G) :=
  exportGlobal_frame c _ _

theorem globalCallback_frame (b : Bool) (c : Circuit) (xs ys : List Rat) : Frame false c (globalCallback b c xs ys) := by
  unfold globalCallback
  cases b
  · exact Frame.refl _ _
  · exact exportGlobal_frame c xs ys

theorem detailedCallback_frame (b : Bool) (c : Circuit) (D : DetVectors) : Frame true c (detailedCallback b c D) := by
  unfold detailedCallback
  cases b
  · exact Frame.refl _ _
  · exact exportDetailed_frame c D

theorem Write.apply_frame (w : Write) (c : Circuit) : Frame true c (w.apply c) := by
  cases w with
  | global xs ys => exact (exportGlobal_frame c xs ys).weaken
  | globalBlend G => exact (exportGlobalBlend_frame c G).weaken
  | legal L => exact exportLegal_frame c L
  | detailed D => exact exportDetailed_frame c D

theorem Write.apply_frame_global (w : Write) (hw : w.isGlobal = true) (c : Circuit) : Frame false c (w.apply c) := by
  cases w with
  | global xs ys => exact exportGlobal_frame c xs ys
  | globalBlend G => exact exportGlobalBlend_frame c G
  | legal L => cases hw
  | detailed D => cases hw

theorem runWrites_frame (ws : List Write) (c : Circuit) : Frame true c (runWrites ws c) := by
  unfold runWrites
  induction ws generalizing c with
  | nil => exact Frame.refl _ _
  | cons w ws ih => exact Frame.trans (w.apply_frame c) (ih (w.apply c))

theorem runWrites_frame_global (ws : List Write) (h : ∀ w ∈ ws, w.isGlobal = true) (c : Circuit) :
    Frame false c (runWrites ws c) := by
  unfold runWrites
  induction ws generalizing c with
  | nil => exact Frame.refl _ _
  | cons w ws ih =>
    exact Frame.trans (w.apply_frame_global (h w (by simp)) c) (ih (fun w' hw' => h w' (by simp [hw'])) (w.apply c))

/-- the writes `GlobalPlacer::place` performs, as a `Write` list -/
def placeGlobalWrites (hasCallback : Bool) (exposed : List (List Rat × List Rat)) (G : GlobalVectors) : List Write :=
  (if hasCallback then exposed.map (fun p => Write.global p.1 p.2) else []) ++ [Write.globalBlend G]

theorem foldl_globalCallback_false (exposed : List (List Rat × List Rat)) (c : Circuit) :
    exposed.foldl (fun c p => globalCallback false c p.1 p.2) c = c := by
  induction exposed generalizing c with
  | nil => rfl
  | cons p ps ih => exact ih c

theorem foldl_globalCallback_true (exposed : List (List Rat × List Rat)) (c : Circuit) :
    exposed.foldl (fun c p => globalCallback true c p.1 p.2) c
      = (exposed.map (fun p => Write.global p.1 p.2)).foldl (fun c w => w.apply c) c := by
  induction exposed generalizing c with
  | nil => rfl
  | cons p ps ih => exact ih _

theorem placeGlobalBody_eq_writes (b : Bool) (exposed : List (List Rat × List Rat)) (G : GlobalVectors) (c : Circuit) :
    placeGlobalBody b exposed G c = runWrites (placeGlobalWrites b exposed G) c := by
  unfold placeGlobalBody placeGlobalWrites runWrites
  cases b
  · simp [foldl_globalCallback_false, Write.apply]
  · simp [foldl_globalCallback_true, List.foldl_append, Write.apply]

theorem placeGlobalWrites_isGlobal (b : Bool) (exposed : List (List Rat × List Rat)) (G : GlobalVectors) :
    ∀ w ∈ placeGlobalWrites b exposed G, w.isGlobal = true := by
  intro w hw
  unfold placeGlobalWrites at hw
  rcases List.mem_append.mp hw with h | h
  · cases b
    · simp at h
    · simp only [if_true] at h
      obtain ⟨p, _, rfl⟩ := List.mem_map.mp h
      rfl
  · simp at h; subst h; rfl

/-- the writes `DetailedPlacer::place` performs -/
def placeDetailedWrites (hasCallback : Bool) (L : LegVectors) (exposed : List DetVectors) (D : DetVectors) : List Write :=
  [Write.legal L] ++ (if hasCallback then exposed.map Write.detailed else []) ++ [Write.detailed D]

theorem foldl_detailedCallback_false (exposed : List DetVectors) (c : Circuit) :
    exposed.foldl (detailedCallback false) c = c := by
  induction exposed generalizing c with
  | nil => rfl
  | cons p ps ih => exact ih c

theorem foldl_detailedCallback_true (exposed : List DetVectors) (c : Circuit) :
    exposed.foldl (detailedCallback true) c = (exposed.map Write.detailed).foldl (fun c w => w.apply c) c := by
  induction exposed generalizing c with
  | nil => rfl
  | cons p ps ih => exact ih _

theorem placeDetailedBody_eq_writes (b : Bool) (L : LegVectors) (exposed : List DetVectors) (D : DetVectors) (c : Circuit) :
    placeDetailedBody b L exposed D c = runWrites (placeDetailedWrites b L exposed D) c := by
  unfold placeDetailedBody placeDetailedWrites runWrites
  cases b
  · simp [foldl_detailedCallback_false, Write.apply]
  · simp [foldl_detailedCallback_true, List.foldl_append, Write.apply]

end ColoVerif.Export
