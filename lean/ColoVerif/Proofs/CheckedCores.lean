import ColoVerif.Proofs.CheckedRowLeg
import ColoVerif.Model.CoresChecked
/-
No-fault lemmas for `computeSubdivisions`, the Abacus cost arithmetic and the obstacle
rectangles of `Row::freespace` (C07).
-/
namespace ColoVerif.Checked
open ColoVerif.RowLeg

local notation "M22" => (4194304 : Int)

/-! ### computeSubdivisions -/

theorem tdiv_bounds {a n e : Int} (ha : 0 ≤ a) (hn : 0 < n) (hae : a ≤ e * n) :
    0 ≤ Int.tdiv a n ∧ Int.tdiv a n ≤ e := by
  rw [Int.tdiv_eq_ediv_of_nonneg ha]
  exact ⟨Int.ediv_nonneg ha (by omega), Int.ediv_le_of_le_mul hn hae⟩

theorem subdivAtC_ok {mn mx number i : Int} (h1 : -M22 ≤ mn) (h2 : mx ≤ M22) (hle : mn ≤ mx)
    (hn1 : 1 ≤ number) (hn2 : number ≤ 2147483646) (hi0 : 0 ≤ i) (hi : i ≤ number) :
    subdivAtC mn mx number i = .ok (subdivAt mn mx number i) := by
  have hp := mul_bound_nonneg (a := i) (c := mx - mn) (A := 2147483646) (C := 2 * M22) hi0 (by omega) (by omega) (by omega)
  have hle2 : i * (mx - mn) ≤ (mx - mn) * number := by
    have := Int.mul_le_mul_of_nonneg_right hi (show 0 ≤ mx - mn by omega)
    rw [Int.mul_comm (mx - mn) number]; exact this
  have hq := tdiv_bounds (a := i * (mx - mn)) (n := number) (e := mx - mn) hp.1 (by omega) hle2
  have e1 : subI32 "computeSubdivisions: max - min" mx mn = .ok (mx - mn) := chk32_ok' (by omega) (by omega)
  have e2 : mulI64 "computeSubdivisions: (long long)i * (max - min)" i (mx - mn) = .ok (i * (mx - mn)) :=
    chk64_ok' (by omega) (by omega)
  have e3 : divI64 "computeSubdivisions: … / number" (i * (mx - mn)) number = .ok (Int.tdiv (i * (mx - mn)) number) := by
    have hne : ¬ number = 0 := by omega
    simp only [divI64, hne, if_false]
    exact chk64_ok' (by omega) (by omega)
  have e4 : narrowI32 "computeSubdivisions: static_cast<int>" (Int.tdiv (i * (mx - mn)) number) =
      .ok (Int.tdiv (i * (mx - mn)) number) := chk32_ok' (by omega) (by omega)
  have e5 : addI32 "computeSubdivisions: min + …" mn (Int.tdiv (i * (mx - mn)) number) =
      .ok (mn + Int.tdiv (i * (mx - mn)) number) := chk32_ok' (by omega) (by omega)
  simp only [subdivAtC, e1, e2, e3, e4, e5, bind, Except.bind, subdivAt]

theorem subdivLoopC_ok {mn mx number : Int} (h1 : -M22 ≤ mn) (h2 : mx ≤ M22) (hle : mn ≤ mx)
    (hn1 : 1 ≤ number) (hn2 : number ≤ 2147483646) :
    ∀ (k : Nat) (i : Int), 0 ≤ i → i + k ≤ number + 1 →
      subdivLoopC mn mx number k i = .ok (subdivLoop mn mx number k i) := by
  intro k
  induction k with
  | zero => intro i _ _; rfl
  | succ k ih =>
    intro i hi0 hik
    have hstep := subdivAtC_ok (i := i) h1 h2 hle hn1 hn2 hi0 (by omega)
    have hrest := ih (i + 1) (by omega) (by omega)
    simp only [subdivLoopC, hstep, hrest, subdivLoop]

theorem subdivLoop_head (mn mx number : Int) (k : Nat) (i d : Int) :
    (subdivLoop mn mx number (k + 1) i).headD d = subdivAt mn mx number i := rfl

theorem subdivLoop_last (mn mx number : Int) :
    ∀ (k : Nat) (i d : Int), (subdivLoop mn mx number (k + 1) i).getLastD d = subdivAt mn mx number (i + k) := by
  intro k
  induction k with
  | zero => intro i d; simp [subdivLoop]
  | succ k ih =>
    intro i d
    have h := ih (i + 1) (subdivAt mn mx number i)
    rw [subdivLoop, List.getLastD_cons, h]
    congr 1
    omega

theorem subdivisionsC_ok (asr : Bool) {mn mx number : Int} (h1 : -M22 ≤ mn) (h2 : mx ≤ M22) (hle : mn ≤ mx)
    (hn1 : 1 ≤ number) (hn2 : number ≤ 2147483646) :
    subdivisionsC asr mn mx number = .ok (subdivisions mn mx number) := by
  obtain ⟨k, hk⟩ : ∃ k : Nat, (number + 1).toNat = k + 1 ∧ (k : Int) = number := by
    refine ⟨number.toNat, ?_, ?_⟩ <;> omega
  have a1 : assertC asr "computeSubdivisions: number >= 1" (decide (number ≥ 1)) = .ok () :=
    assertC_true _ _ (by simpa using hn1)
  have a2 : assertC asr "computeSubdivisions: max >= min" (decide (mx ≥ mn)) = .ok () :=
    assertC_true _ _ (by simpa using hle)
  have e1 : addI32 "computeSubdivisions: number + 1" number 1 = .ok (number + 1) := chk32_ok' (by omega) (by omega)
  have e2 := subdivLoopC_ok h1 h2 hle hn1 hn2 (number + 1).toNat 0 (by omega) (by omega)
  have hfront : (subdivLoop mn mx number (number + 1).toNat 0).headD mn = mn := by
    rw [hk.1, subdivLoop_head]; simp [subdivAt]
  have hback : (subdivLoop mn mx number (number + 1).toNat 0).getLastD mx = mx := by
    rw [hk.1, subdivLoop_last, hk.2]
    simp only [subdivAt, Int.zero_add]
    rw [Int.mul_tdiv_cancel_left _ (by omega : number ≠ 0)]
    omega
  have a3 : assertC asr "computeSubdivisions: ret.front() == min"
      (decide ((subdivLoop mn mx number (number + 1).toNat 0).headD mn = mn)) = .ok () :=
    assertC_true _ _ (by simpa using hfront)
  have a4 : assertC asr "computeSubdivisions: ret.back() == max"
      (decide ((subdivLoop mn mx number (number + 1).toNat 0).getLastD mx = mx)) = .ok () :=
    assertC_true _ _ (by simpa using hback)
  simp only [subdivisionsC, a1, a2, e1, e2, a3, a4, bind, Except.bind, pure, Except.pure, subdivisions]

/-! ### Abacus -/

theorem remainingC_ok {s : State} (hd : Dom s) : remainingC s = .ok s.remaining := by
  have hu := hd.used_nonneg
  have hb := hd.hb
  have he := hd.he
  have hf := hd.fit
  have e1 : subI32 "remainingSpace: end_ - begin_" s.e s.b = .ok (s.e - s.b) := chk32_ok' (by omega) (by omega)
  have e2 : subI32 "remainingSpace: … - usedSpace()" (s.e - s.b) s.used = .ok (s.e - s.b - s.used) :=
    chk32_ok' (by omega) (by omega)
  simp only [remainingC, e1, e2, bind, Except.bind, State.remaining]

theorem evalPlacementC_ok (asr : Bool) {s : State} (hd : Dom s) {w t : Int} (hw : 0 < w)
    (ht1 : -M22 ≤ t) (ht2 : t ≤ M22) : evalPlacementC asr s w t = .ok (evalPlacement s w t) := by
  by_cases h : s.remaining < w
  · simp only [evalPlacementC, remainingC_ok hd, h, if_true, bind, Except.bind, pure, Except.pure, evalPlacement]
  · have hc := getCostC_eq asr hd hw (by omega) ht1 ht2
    simp only [evalPlacementC, remainingC_ok hd, h, if_false, hc, bind, Except.bind, pure, Except.pure, evalPlacement]

theorem placeCostC_ok {w rowMinY targetY xDist : Int} (hw0 : 0 ≤ w) (hw : w ≤ 2 * M22)
    (hr1 : -M22 ≤ rowMinY) (hr2 : rowMinY ≤ M22) (ht1 : -M22 ≤ targetY) (ht2 : targetY ≤ M22)
    (hx1 : -4611897124659920896 ≤ xDist) (hx2 : xDist ≤ 4611897124659920896) :
    placeCostC w rowMinY targetY xDist = .ok (placeCost w rowMinY targetY xDist) := by
  have hq := mul_bound_nonneg (a := w) (c := ((rowMinY - targetY).natAbs : Int)) (A := 2 * M22) (C := 2 * M22)
    hw0 hw (by omega) (by omega)
  have e1 : subI32 "placeCell: rows_[row].minY - targetY" rowMinY targetY = .ok (rowMinY - targetY) :=
    chk32_ok' (by omega) (by omega)
  have e2 : addI64 "computeNorm<long long>: abs(x) + abs(y)" 0 ((rowMinY - targetY).natAbs : Int) =
      .ok ((rowMinY - targetY).natAbs : Int) := by
    have := chk64_ok' (s := "computeNorm<long long>: abs(x) + abs(y)") (v := 0 + ((rowMinY - targetY).natAbs : Int))
      (by omega) (by omega)
    simpa [addI64] using this
  have e3 : mulI64 "placeCell: cellWidth_[cell] * norm(…)" w ((rowMinY - targetY).natAbs : Int) =
      .ok (w * ((rowMinY - targetY).natAbs : Int)) := chk64_ok' (by omega) (by omega)
  have e4 : addI64 "placeCell: xDist + yDist" xDist (w * ((rowMinY - targetY).natAbs : Int)) =
      .ok (xDist + w * ((rowMinY - targetY).natAbs : Int)) := chk64_ok' (by omega) (by omega)
  simp only [placeCostC, e1, e2, e3, e4, bind, Except.bind, placeCost]

/-- the cost `getCost` reports on the domain is within the accumulator bound used above -/
theorem getCost_bound {s : State} (hd : Dom s) {w t : Int} (hw : 0 < w) (hfit : w ≤ s.remaining)
    (ht1 : -M22 ≤ t) (ht2 : t ≤ M22) :
    -4611897124659920896 ≤ (getCost s w t).1 ∧ (getCost s w t).1 ≤ 4611897124659920896 := by
  obtain ⟨popped, hf⟩ := core_facts (t := t) hd hw hfit
  have hu := hd.used_nonneg
  have hfit' : w ≤ s.e - s.b - s.used := hfit
  have hb := hd.hb
  have he := hd.he
  have hfl := hf.finLo
  have hfh := hf.finHi
  have hc1l := hf.c1Lo
  have hc1h := hf.c1Hi
  have hq := mul_bound_nonneg (a := w) (c := ((finOf s w t - (t - s.used)).natAbs : Int)) (A := 2 * M22) (C := 4 * M22)
    (by omega) (by omega) (by omega) (by omega)
  show _ ≤ (displacement s w t).cost ∧ (displacement s w t).cost ≤ _
  rw [displacement_eq]
  simp only
  omega

/-! ### obstacle rectangles -/

/-- a cell of the C07 domain: position within ±2^22, sizes between 0 and 2^22 -/
def CellOk (c : Cell) : Prop :=
  -M22 ≤ c.x ∧ c.x ≤ M22 ∧ -M22 ≤ c.y ∧ c.y ≤ M22 ∧ 0 ≤ c.w ∧ c.w ≤ M22 ∧ 0 ≤ c.h ∧ c.h ≤ M22

theorem placementC_ok {c : Cell} (h : CellOk c) : placementC c = .ok c.placement := by
  obtain ⟨h1, h2, h3, h4, h5, h6, h7, h8⟩ := h
  have hpw : 0 ≤ c.placedWidth ∧ c.placedWidth ≤ M22 := by unfold Cell.placedWidth; split <;> omega
  have hph : 0 ≤ c.placedHeight ∧ c.placedHeight ≤ M22 := by unfold Cell.placedHeight; split <;> omega
  have e1 : addI32 "Circuit::placement: x + placedWidth" c.x c.placedWidth = .ok (c.x + c.placedWidth) :=
    chk32_ok' (by omega) (by omega)
  have e2 : addI32 "Circuit::placement: y + placedHeight" c.y c.placedHeight = .ok (c.y + c.placedHeight) :=
    chk32_ok' (by omega) (by omega)
  simp only [placementC, e1, e2, bind, Except.bind, pure, Except.pure, Cell.placement]

theorem placementsC_ok : ∀ (l : List Cell), (∀ c ∈ l, CellOk c) → placementsC l = .ok (l.map Cell.placement) := by
  intro l
  induction l with
  | nil => intro _; rfl
  | cons c cs ih =>
    intro h
    have h1 := placementC_ok (h c (by simp))
    have h2 := ih (fun x hx => h x (by simp [hx]))
    simp only [placementsC, h1, h2, List.map_cons]

theorem computeRowsC_ok (c : Circuit) (h : ∀ cl ∈ c.cells, CellOk cl) : computeRowsC c = .ok c.computeRows := by
  have h1 := placementsC_ok (c.cells.filter fun cl => cl.fixed && cl.obstruction)
    (fun x hx => h x ((List.mem_filter.mp hx).1))
  simp only [computeRowsC, h1, bind, Except.bind, pure, Except.pure, Circuit.computeRows, Circuit.obstacles,
    List.nil_append]

end ColoVerif.Checked
