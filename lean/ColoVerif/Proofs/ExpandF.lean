import ColoVerif.Model.ExpandF
import ColoVerif.Proofs.Expand
import ColoVerif.Proofs.F64
/-
Helper lemmas for the binary64/binary32-exact model of the cell expansion (`Model/ExpandF.lean`):
rounding of 1 and of `int` values, the frame of the two loops, the carry loop (monotone, exact
subtractions), "not narrower" by monotonicity of rounding, the factors that `expandCellsByFactor` applies,
order-independence of the maximum over the expansion map (`regionMax_perm`), the region factor.
The quantitative rounding bounds are in `Proofs/ExpandFBound.lean`.
-/
namespace ColoVerif
namespace ExpandF
open Expand (truncRat cellArea movableArea maxRowWidth active regionMax FrameCell)
open F64

/-! ### rounding of small integers -/

theorem f64_one : f64 1 = 1 := by
  have := f64_exact_int 1 (by norm_num)
  simpa using this

theorem f32'_one : f32' 1 = 1 := by
  have := f32'_exact_int 1 (by norm_num)
  simpa using this

theorem f64_ge_one {x : Rat} (h : 1 ≤ x) : 1 ≤ f64 x := by
  have := f64_mono h; rwa [f64_one] at this

theorem f64_le_one {x : Rat} (h : x ≤ 1) : f64 x ≤ 1 := by
  have := f64_mono h; rwa [f64_one] at this

theorem f32'_ge_one {x : Rat} (h : 1 ≤ x) : 1 ≤ f32' x := by
  have := f32'_mono h; rwa [f32'_one] at this

theorem f32'_le_one {x : Rat} (h : x ≤ 1) : f32' x ≤ 1 := by
  have := f32'_mono h; rwa [f32'_one] at this

theorem isI32_abs {n : Int} (h : isI32 n = true) : |n| ≤ 2 ^ 31 := by
  simp only [isI32, Bool.and_eq_true, decide_eq_true_eq] at h
  rw [abs_le]; constructor <;> omega

theorem abs53_of_abs31 {n : Int} (h : |n| ≤ 2 ^ 31) : |n| ≤ 2 ^ 53 := le_trans h (by norm_num)

/-- `(double) n` is exact for an `int` (more generally below `2^53`) -/
theorem d_exact (n : Int) (h : |n| ≤ 2 ^ 53) : d n = (n : Rat) := f64_exact_int n h

theorem d_nonneg {n : Int} (h : 0 ≤ n) : 0 ≤ d n := f64_nonneg (by exact_mod_cast h)

theorem d_ge_one {n : Int} (h : 0 < n) : 1 ≤ d n := f64_ge_one (by exact_mod_cast (show (1 : Int) ≤ n by omega))

/-! ### frame -/

theorem frame_stepCell (f cap m : Rat) (cl : Cell) : FrameCell cl (stepCell f cap m cl) := by
  unfold stepCell
  split
  · rename_i ha
    refine ⟨rfl, ?_⟩
    intro hf
    simp [active, hf] at ha
  · exact FrameCell.refl cl

theorem expandCells_length (f cap : Rat) : ∀ (l : List Cell) (m : Rat), (expandCells f cap m l).length = l.length
  | [], _ => rfl
  | cl :: rest, m => by simp [expandCells, expandCells_length f cap rest]

theorem frame_expandCells (f cap : Rat) : ∀ (l : List Cell) (m : Rat) (i : Nat),
    FrameCell (l.getD i default) ((expandCells f cap m l).getD i default)
  | [], _, i => by simp [expandCells]; exact FrameCell.refl _
  | cl :: rest, m, 0 => by simp [expandCells]; exact frame_stepCell f cap m cl
  | cl :: rest, m, i + 1 => by
    simp only [expandCells, List.getD_cons_succ]
    exact frame_expandCells f cap rest _ i

theorem applyFactors_length : ∀ (l : List Cell) (es : List Rat), (applyFactors l es).length = l.length
  | [], _ => by simp [applyFactors]
  | _ :: _, [] => by simp [applyFactors]
  | cl :: rest, e :: es => by simp [applyFactors, applyFactors_length rest es]

theorem frame_applyFactors : ∀ (l : List Cell) (es : List Rat) (i : Nat),
    FrameCell (l.getD i default) ((applyFactors l es).getD i default)
  | [], _, i => by simp [applyFactors]; exact FrameCell.refl _
  | _ :: _, [], i => by simp only [applyFactors]; exact FrameCell.refl _
  | cl :: rest, e :: es, 0 => by
    simp only [applyFactors, List.getD_cons_zero]
    split
    · exact FrameCell.refl cl
    · rename_i hf
      exact ⟨rfl, fun h => absurd h hf⟩
  | cl :: rest, e :: es, i + 1 => by
    simp only [applyFactors, List.getD_cons_succ]
    exact frame_applyFactors rest es i

/-! ### the carry loop only adds columns -/

theorem carryLoop_fst_ge (h : Rat) : ∀ (fuel : Nat) (w : Int) (m : Rat), w ≤ (carryLoop h fuel w m).1
  | 0, w, m => by simp [carryLoop]
  | fuel + 1, w, m => by
    simp only [carryLoop]
    split
    · have := carryLoop_fst_ge h fuel (w + 1) (f64 (m - h)); omega
    · exact le_refl _

theorem carry_fst_ge (f cap m : Rat) (cl : Cell) : truncRat (fracW f cap cl) ≤ (carry f cap m cl).1 := by
  unfold carry carryOf carryFrom
  exact carryLoop_fst_ge _ _ _ _

/-! ### `expandCellsToDensity` never makes a cell below the cap narrower -/

theorem scaledW_ge (f : Rat) (cl : Cell) (hf : 1 ≤ f) (hw0 : 0 ≤ cl.w) (hw : |cl.w| ≤ 2 ^ 53) :
    (cl.w : Rat) ≤ scaledW f cl := by
  unfold scaledW
  rw [d_exact _ hw]
  have hq : (0 : Rat) ≤ (cl.w : Rat) := by exact_mod_cast hw0
  have h1 : (cl.w : Rat) ≤ (cl.w : Rat) * f := by nlinarith
  have := f64_mono h1
  rwa [f64_exact_int _ hw] at this

theorem fracW_ge (f cap : Rat) (cl : Cell) (hf : 1 ≤ f) (hw0 : 0 ≤ cl.w) (hw : |cl.w| ≤ 2 ^ 53)
    (hcap : (cl.w : Rat) ≤ cap) : (cl.w : Rat) ≤ fracW f cap cl := by
  unfold fracW capTo
  split
  · exact hcap
  · exact scaledW_ge f cl hf hw0 hw

theorem stepCell_not_narrower (f cap m : Rat) (cl : Cell) (hf : 1 ≤ f) (hw : |cl.w| ≤ 2 ^ 53)
    (hcap : (cl.w : Rat) ≤ cap) : cl.w ≤ (stepCell f cap m cl).w := by
  unfold stepCell
  split
  · rename_i ha
    obtain ⟨_, _, hwpos⟩ := (Expand.active_iff cl).mp ha
    have hfr := fracW_ge f cap cl hf (le_of_lt hwpos) hw hcap
    have hq : (0 : Rat) ≤ (cl.w : Rat) := by exact_mod_cast (le_of_lt hwpos)
    have ht := Expand.le_truncRat cl.w (fracW f cap cl) (le_trans hq hfr) hfr
    have hc := carry_fst_ge f cap m cl
    show cl.w ≤ (carry f cap m cl).1
    omega
  · exact le_refl _

theorem expandCells_not_narrower (f cap : Rat) (hf : 1 ≤ f) :
    ∀ (l : List Cell) (m : Rat) (i : Nat), |(l.getD i default).w| ≤ 2 ^ 53 →
      ((l.getD i default).w : Rat) ≤ cap →
      (l.getD i default).w ≤ ((expandCells f cap m l).getD i default).w
  | [], _, i, _, _ => by simp [expandCells]
  | cl :: rest, m, 0, hs, hw => by
    simp only [expandCells, List.getD_cons_zero] at hs hw ⊢
    exact stepCell_not_narrower f cap m cl hf hs hw
  | cl :: rest, m, i + 1, hs, hw => by
    simp only [expandCells, List.getD_cons_succ] at hs hw ⊢
    exact expandCells_not_narrower f cap hf rest _ i hs hw

theorem densityOf_nonneg {A R : Int} (hA : 0 ≤ A) (hR : 0 ≤ R) : 0 ≤ densityOf A R := by
  unfold densityOf
  exact f64_nonneg (div_nonneg (d_nonneg hA) (d_nonneg hR))

theorem densityOf_pos {A R : Int} (hA : 0 ≤ A) (hR : 0 ≤ R) (hne : densityOf A R ≠ 0) : 0 < densityOf A R :=
  lt_of_le_of_ne (densityOf_nonneg hA hR) (Ne.symm hne)

theorem factorOf_ge_one (A R : Int) (t : Rat) (hd : 0 < densityOf A R) (hn : ¬ noopOf A R t) :
    1 ≤ factorOf A R t := by
  have hlt : densityOf A R < t := by
    unfold noopOf at hn
    exact not_le.mp (fun h => hn (Or.inr (Or.inr h)))
  unfold factorOf
  exact f64_ge_one ((le_div_iff₀ hd).mpr (by linarith))

/-! ### `expandCellsByFactor`: the applied factors and widths -/

theorem scaledF_mono (w : Int) {e e' : Rat} (hw : 0 ≤ w) (he : e ≤ e') : scaledF w e ≤ scaledF w e' := by
  unfold scaledF
  have h0 : 0 ≤ f32' (w : Rat) := f32'_nonneg (by exact_mod_cast hw)
  exact f32'_mono (mul_le_mul_of_nonneg_left he h0)

/-- with a factor at least 1 and a width that converts to `float` exactly, the float product is at least
the width -/
theorem scaledF_ge (w : Int) (e : Rat) (hw0 : 0 ≤ w) (hw : |w| ≤ 2 ^ 24) (he : 1 ≤ e) :
    (w : Rat) ≤ scaledF w e := by
  unfold scaledF
  rw [f32'_exact_int w hw]
  have hq : (0 : Rat) ≤ (w : Rat) := by exact_mod_cast hw0
  have h1 : (w : Rat) ≤ (w : Rat) * e := by nlinarith
  have := f32'_mono h1
  rwa [f32'_exact_int w hw] at this

theorem truncRat_mono {a b : Rat} (ha : 0 ≤ a) (hab : a ≤ b) : truncRat a ≤ truncRat b := by
  rw [Expand.truncRat_eq_floor a ha, Expand.truncRat_eq_floor b (le_trans ha hab)]
  exact Rat.le_floor_iff.mpr (le_trans (Rat.floor_le a) hab)

/-- `e = 1.0 + (e - 1.0) * ratio` keeps a factor at least 1 at least 1 (for `ratio ≥ 0`) -/
theorem adjust_ge_one (ρ e : Rat) (hρ : 0 ≤ ρ) (he : 1 ≤ e) : 1 ≤ adjust ρ e := by
  unfold adjust
  have h1 : 0 ≤ f64 (f64 e - 1) := f64_nonneg (by have := f64_ge_one he; linarith)
  have h2 : 0 ≤ f64 (f64 (f64 e - 1) * ρ) := f64_nonneg (mul_nonneg h1 hρ)
  exact f32'_ge_one (f64_ge_one (by linarith))

theorem minFactor_facts : f64 minFactor = minFactor ∧ f64 (minFactor - 1) = minFactor - 1 ∧
    f64 (1 + (minFactor - 1)) = minFactor ∧ f32' minFactor = minFactor ∧ minFactor ≤ 1 := by
  decide +kernel

/-- `e = 1.0 + (e - 1.0) * ratio` with `0 ≤ ratio ≤ 1` never goes below the acceptance threshold `0.999f` -/
theorem adjust_ge_min (ρ e : Rat) (hρ0 : 0 ≤ ρ) (hρ1 : ρ ≤ 1) (he : minFactor ≤ e) : minFactor ≤ adjust ρ e := by
  obtain ⟨m1, m2, m3, m4, m5⟩ := minFactor_facts
  unfold adjust
  have h0 : minFactor ≤ f64 e := by have := f64_mono he; rwa [m1] at this
  have h1 : minFactor - 1 ≤ f64 (f64 e - 1) := by
    have := f64_mono (show minFactor - 1 ≤ f64 e - 1 by linarith); rwa [m2] at this
  -- (x)·ρ ≥ min(x, 0) ≥ minFactor - 1
  have h2 : minFactor - 1 ≤ f64 (f64 e - 1) * ρ := by
    rcases le_total 0 (f64 (f64 e - 1)) with hx | hx
    · have := mul_nonneg hx hρ0; linarith
    · have : f64 (f64 e - 1) ≤ f64 (f64 e - 1) * ρ := by nlinarith
      linarith
  have h3 : minFactor - 1 ≤ f64 (f64 (f64 e - 1) * ρ) := by
    have := f64_mono h2; rwa [m2] at this
  have h4 : minFactor ≤ f64 (1 + f64 (f64 (f64 e - 1) * ρ)) := by
    have := f64_mono (show 1 + (minFactor - 1) ≤ 1 + f64 (f64 (f64 e - 1) * ρ) by linarith)
    rwa [m3] at this
  have := f32'_mono h4
  rwa [m4] at this

/-- the ratio of `expandCellsByFactor` is in `[0, 1]` whenever it is used -/
theorem ratioOf_bounds (maxD dn ed : Rat) (h1 : dn < maxD) (h2 : maxD < ed) :
    0 ≤ ratioOf maxD dn ed ∧ ratioOf maxD dn ed ≤ 1 := by
  unfold ratioOf
  have hn : 0 ≤ f64 (maxD - dn) := f64_nonneg (by linarith)
  have hd : 0 ≤ f64 (ed - dn) := f64_nonneg (by linarith)
  have hle : f64 (maxD - dn) ≤ f64 (ed - dn) := f64_mono (by linarith)
  refine ⟨f64_nonneg (div_nonneg hn hd), f64_le_one ?_⟩
  rcases eq_or_lt_of_le hd with h0 | h0
  · rw [← h0, div_zero]; norm_num
  · exact (div_le_iff₀ h0).mpr (by linarith)

theorem effectiveOf_mem_ge_min (efs : List Rat) (maxD dn ed : Rat) (hd : dn < maxD)
    (he : ∀ e ∈ efs, minFactor ≤ e) : ∀ e ∈ effectiveOf efs maxD dn ed, minFactor ≤ e := by
  unfold effectiveOf
  split
  · rename_i hadj
    obtain ⟨r0, r1⟩ := ratioOf_bounds maxD dn ed hd hadj
    intro e' he'
    obtain ⟨e, hem, rfl⟩ := List.mem_map.mp he'
    exact adjust_ge_min _ e r0 r1 (he e hem)
  · exact he

theorem effectiveOf_mem_ge_one (efs : List Rat) (maxD dn ed : Rat) (hd : dn < maxD)
    (he : ∀ e ∈ efs, 1 ≤ e) : ∀ e ∈ effectiveOf efs maxD dn ed, 1 ≤ e := by
  unfold effectiveOf
  split
  · rename_i hadj
    obtain ⟨r0, _⟩ := ratioOf_bounds maxD dn ed hd hadj
    intro e' he'
    obtain ⟨e, hem, rfl⟩ := List.mem_map.mp he'
    exact adjust_ge_one _ e r0 (he e hem)
  · exact he

theorem le_applyOne (w : Int) (e : Rat) : truncRat (scaledF w e) ≤ applyOne w e := by
  unfold applyOne; split
  · exact le_max_left _ _
  · exact le_refl _

/-- the repaired step: a factor at least 1 never narrows -/
theorem applyOne_ge (w : Int) (e : Rat) (he : 1 ≤ e) : w ≤ applyOne w e := by
  unfold applyOne; rw [if_pos he]; exact le_max_right _ _

/-- for a width that converts to `float` exactly the repair changes nothing -/
theorem applyOne_eq_of_small (w : Int) (e : Rat) (hw0 : 0 ≤ w) (hw : |w| ≤ 2 ^ 24) :
    applyOne w e = truncRat (scaledF w e) := by
  unfold applyOne; split
  · rename_i he
    have h2 := scaledF_ge w e hw0 hw he
    have hq : (0 : Rat) ≤ (w : Rat) := by exact_mod_cast hw0
    exact max_eq_left (Expand.le_truncRat w _ (le_trans hq h2) h2)
  · rfl

/-- pointwise lower bound for the widths after `applyFactors` when every factor is at least `μ ≥ 0` -/
theorem applyFactors_ge (μ : Rat) (hμ : 0 ≤ μ) : ∀ (l : List Cell) (es : List Rat) (i : Nat), (∀ e ∈ es, μ ≤ e) →
    0 ≤ (l.getD i default).w → i < es.length → (l.getD i default).fixed = false →
    truncRat (scaledF (l.getD i default).w μ) ≤ ((applyFactors l es).getD i default).w
  | [], _, i, _, _, _, _ => by
    simp only [applyFactors, List.getD_nil]
    have : scaledF (default : Cell).w μ = 0 := by
      show f32' (f32' ((0 : Int) : Rat) * μ) = 0
      simp [f32'_zero]
    rw [this]; decide
  | _ :: _, [], i, _, _, hi, _ => by simp at hi
  | cl :: rest, e :: es, 0, he, hw, _, hfx => by
    simp only [applyFactors, List.getD_cons_zero] at hw hfx ⊢
    rw [if_neg (by simp [hfx])]
    have hs := scaledF_mono cl.w hw (he e (by simp))
    have h0 : 0 ≤ scaledF cl.w μ := by
      unfold scaledF
      exact f32'_nonneg (mul_nonneg (f32'_nonneg (by exact_mod_cast hw)) hμ)
    exact le_trans (truncRat_mono h0 hs) (le_applyOne cl.w e)
  | cl :: rest, e :: es, i + 1, he, hw, hi, hfx => by
    simp only [applyFactors, List.getD_cons_succ] at hw hfx ⊢
    exact applyFactors_ge μ hμ rest es i (fun x h => he x (by simp [h])) hw (by simpa using hi) hfx

/-- after the repair: with factors at least 1 no movable cell becomes narrower, whatever its width -/
theorem applyFactors_not_narrower : ∀ (l : List Cell) (es : List Rat) (i : Nat), (∀ e ∈ es, 1 ≤ e) →
    (l.getD i default).w ≤ ((applyFactors l es).getD i default).w
  | [], _, i, _ => by simp [applyFactors]
  | _ :: _, [], i, _ => by simp only [applyFactors]; exact le_refl _
  | cl :: rest, e :: es, 0, he => by
    simp only [applyFactors, List.getD_cons_zero]
    split
    · exact le_refl _
    · exact applyOne_ge cl.w e (he e (by simp))
  | cl :: rest, e :: es, i + 1, he => by
    simp only [applyFactors, List.getD_cons_succ]
    exact applyFactors_not_narrower rest es i (fun x h => he x (by simp [h]))

/-! ### `computeCellExpansion`: the maximum does not depend on the order of the map -/

theorem rat_max_right_comm (a b c : Rat) : max (max a b) c = max (max a c) b := by
  simp only [Rat.max_def]
  split_ifs <;> first | rfl | linarith

theorem regionMax_perm (place : Rect) {l₁ l₂ : List (Rect × Rat)} (h : l₁.Perm l₂) :
    ∀ acc : Rat, regionMax place acc l₁ = regionMax place acc l₂ := by
  induction h with
  | nil => intro acc; rfl
  | cons x _ ih =>
    intro acc
    obtain ⟨r, e⟩ := x
    simp only [regionMax]
    exact ih _
  | swap x y l =>
    intro acc
    obtain ⟨r, e⟩ := x
    obtain ⟨r', e'⟩ := y
    simp only [regionMax]
    by_cases h1 : r.intersects place = true <;> by_cases h2 : r'.intersects place = true <;>
      simp only [h1, h2, if_true, if_false, Bool.false_eq_true]
    all_goals first | rfl | rw [rat_max_right_comm]
  | trans _ _ ih1 ih2 => intro acc; rw [ih1, ih2]

theorem sortedMap_perm (cmap : List (Rect × Rat)) (fp pf : Rat) :
    (sortedMap cmap fp pf).Perm (expansionMap cmap fp pf) := by
  unfold sortedMap
  exact List.mergeSort_perm _ _

theorem mem_expansionMap (cmap : List (Rect × Rat)) (fp pf : Rat) (r : Rect) (e : Rat) :
    (r, e) ∈ expansionMap cmap fp pf ↔ ∃ cg, (r, cg) ∈ cmap ∧ cg > 1 ∧ e = regionFactor fp pf cg := by
  simp only [expansionMap, List.mem_map, List.mem_filter, decide_eq_true_eq]
  constructor
  · rintro ⟨⟨r', cg⟩, ⟨hm, hc⟩, heq⟩
    obtain ⟨rfl, rfl⟩ := Prod.mk.inj heq
    exact ⟨cg, hm, hc, rfl⟩
  · rintro ⟨cg, hm, hc, rfl⟩
    exact ⟨(r, cg), ⟨hm, hc⟩, rfl⟩

theorem mem_sortedMap (cmap : List (Rect × Rat)) (fp pf : Rat) (r : Rect) (e : Rat) :
    (r, e) ∈ sortedMap cmap fp pf ↔ ∃ cg, (r, cg) ∈ cmap ∧ cg > 1 ∧ e = regionFactor fp pf cg := by
  rw [(sortedMap_perm cmap fp pf).mem_iff]
  exact mem_expansionMap cmap fp pf r e

/-- the factor of a congested region is at least 1 -/
theorem regionFactor_ge_one (fp pf cg : Rat) (hfp : 0 ≤ fp) (hpf : 0 ≤ pf) (hc : 1 ≤ cg) :
    1 ≤ regionFactor fp pf cg := by
  unfold regionFactor
  have h1 : 0 ≤ f32' (cg - 1) := f32'_nonneg (by linarith)
  have h2 : 0 ≤ f32' (f32' (cg - 1) * pf) := f32'_nonneg (mul_nonneg h1 hpf)
  have h3 : 0 ≤ f32' (f32' (f32' (cg - 1) * pf) + fp) := f32'_nonneg (by linarith)
  exact f32'_ge_one (f64_ge_one (by linarith))

/-- the factor is monotone in the congestion: rounding is monotone at every stage -/
theorem regionFactor_mono (fp pf : Rat) (hpf : 0 ≤ pf) {c₁ c₂ : Rat} (h : c₁ ≤ c₂) :
    regionFactor fp pf c₁ ≤ regionFactor fp pf c₂ := by
  unfold regionFactor
  have h1 : f32' (c₁ - 1) ≤ f32' (c₂ - 1) := f32'_mono (by linarith)
  have h2 : f32' (f32' (c₁ - 1) * pf) ≤ f32' (f32' (c₂ - 1) * pf) :=
    f32'_mono (mul_le_mul_of_nonneg_right h1 hpf)
  have h3 : f32' (f32' (f32' (c₁ - 1) * pf) + fp) ≤ f32' (f32' (f32' (c₂ - 1) * pf) + fp) :=
    f32'_mono (by linarith)
  exact f32'_mono (f64_mono (by linarith))

end ExpandF
end ColoVerif
