import ColoVerif.Proofs.DetReorderChoice
import ColoVerif.Proofs.DetReorderSim
import ColoVerif.Proofs.DetOptHpwlDirty
/-
`RowReordering`, part 5: the window level.
* `State.reorderWindow V` (coordinate vectors, any position-only objective): the pass is the keep-best
  decision of Model/DetOpt.lean over the leaves the enumeration evaluated, all of them faithful
  (`reorderWindow_decision`), hence never worse (`reorderWindow_not_worse`);
* `Placer.reorderWindow` (the two incremental net models): in lock step with the former for the real
  objective `circuitValue c` (`reorderWindow_placer`).
-/
namespace ColoVerif.DetPlace
open State

/-! ### `addCells` does not look at the store -/

def RowReord.mapStore {σ τ : Type} (f : σ → τ) (rr : RowReord σ) : RowReord τ :=
  ⟨rr.regions, rr.cells, rr.order, rr.positions, rr.bestVal, rr.bestOrder, rr.bestPositions, rr.improvement,
   f rr.store, rr.leaves, rr.fuelOut, rr.assertFail⟩

def mapOk {σ τ : Type} (f : σ → τ) : Except Err (RowReord σ) → Except Err (RowReord τ)
  | .ok x => .ok (x.mapStore f)
  | .error e => .error e

theorem addRow_mapStore {σ τ : Type} (f : σ → τ) (s : State) (rr : RowReord σ) (r cp cn : Int) :
    addRow s (rr.mapStore f) r cp cn = mapOk f (addRow s rr r cp cn) := by
  unfold addRow
  cases s.cellsBetween r cp cn <;> rfl

theorem addCellsLoop_mapStore {σ τ : Type} (f : σ → τ) (s : State) (w : List Int) : ∀ (todo : List Int) (rr : RowReord σ),
    addCellsLoop s w todo (rr.mapStore f) = mapOk f (addCellsLoop s w todo rr)
  | [], _ => rfl
  | c :: rest, rr => by
    unfold addCellsLoop
    split
    · exact addCellsLoop_mapStore f s w rest rr
    · cases runEnd s w (s.nCells + 1) c with
      | error e => rfl
      | ok cn =>
        simp only []
        rw [addRow_mapStore]
        cases addRow s rr (s.row c) (s.pred c) cn with
        | error e => rfl
        | ok rr' => exact addCellsLoop_mapStore f s w rest rr'

/-- the same window registered with two different stores: same regions, cells, … — and each keeps its store -/
theorem addCells_two {σ τ : Type} (s : State) (w : List Int) (st1 : σ) (st2 : τ) (a : RowReord σ)
    (e : addCells s (RowReord.new st1) w = .ok a) :
    addCells s (RowReord.new st2) w = .ok (a.mapStore fun _ => st2) ∧ a.store = st1 := by
  unfold addCells at e ⊢
  constructor
  · have := addCellsLoop_mapStore (fun _ : σ => st2) s w w (RowReord.new st1)
    rw [e] at this
    exact this
  · have := addCellsLoop_mapStore (fun _ : σ => st1) s w w (RowReord.new st1)
    rw [e] at this
    have h2 : addCellsLoop s w w ((RowReord.new st1).mapStore fun _ => st1) = .ok a := e
    rw [h2] at this
    have : a = a.mapStore fun _ => st1 := by injection this
    rw [this]; rfl

theorem addRow_fresh {σ : Type} (s : State) (rr rr' : RowReord σ) (r cp cn : Int) (h : Fresh rr)
    (e : addRow s rr r cp cn = .ok rr') : Fresh rr' ∧ rr'.fuelOut = rr.fuelOut := by
  unfold addRow at e
  split at e
  · cases e
  · injection e with e; subst e
    refine ⟨⟨h.leaves, h.improvement, by simp [h.olen], by simp [h.plen], ?_⟩, rfl⟩
    intro i l hl
    have hl' : (rr.order ++ [[]])[i]? = some l := hl
    rw [List.getElem?_append] at hl'
    split at hl'
    · exact h.empty i l hl'
    · cases hi : i - rr.order.length with
      | zero => rw [hi] at hl'; simp at hl'; exact hl'
      | succ n => rw [hi] at hl'; simp at hl'

theorem addCellsLoop_fresh {σ : Type} (s : State) (w : List Int) : ∀ (todo : List Int) (rr rr' : RowReord σ), Fresh rr →
    addCellsLoop s w todo rr = .ok rr' → Fresh rr' ∧ rr'.fuelOut = rr.fuelOut
  | [], rr, rr', h, e => by
    simp only [addCellsLoop] at e
    injection e with e; subst e; exact ⟨h, rfl⟩
  | c :: rest, rr, rr', h, e => by
    unfold addCellsLoop at e
    split at e
    · exact addCellsLoop_fresh s w rest rr rr' h e
    · split at e
      · cases e
      · split at e
        · cases e
        · rename_i rr1 e1
          obtain ⟨h1, f1⟩ := addRow_fresh s rr rr1 _ _ _ h e1
          obtain ⟨h2, f2⟩ := addCellsLoop_fresh s w rest rr1 rr' h1 e
          exact ⟨h2, f2.trans f1⟩

theorem addCells_fresh {σ : Type} (s : State) (w : List Int) (st : σ) (rr : RowReord σ)
    (e : addCells s (RowReord.new st) w = .ok rr) : Fresh rr ∧ rr.fuelOut = false :=
  addCellsLoop_fresh s w w _ rr ⟨rfl, rfl, rfl, rfl, fun i l h => by simp [RowReord.new] at h⟩ e

/-! ### a successful write-back: the registered cells are distinct optimised cells -/

theorem unplaceAll_live {s t : State} : ∀ {cs : List Int}, s.unplaceAll cs = .ok t →
    cs.Nodup ∧ ∀ c ∈ cs, s.validCell c ∧ s.row c ≠ -1
  | [], _ => ⟨List.nodup_nil, by simp⟩
  | c :: cs, e => by
    unfold unplaceAll at e
    split at e
    · rename_i hg
      simp only [Bool.and_eq_true] at hg
      obtain ⟨ih1, ih2⟩ := unplaceAll_live (s := s.unplace c) e
      have hrow : ∀ d ∈ cs, d ≠ c ∧ s.row d ≠ -1 := by
        intro d hd
        have := (ih2 d hd).2
        rw [unplace_row] at this
        by_cases hdc : d = c
        · simp [hdc] at this
        · simp only [hdc, if_false] at this; exact ⟨hdc, this⟩
      refine ⟨List.nodup_cons.2 ⟨fun hc => (hrow c hc).1 rfl, ih1⟩, ?_⟩
      intro d hd
      rcases List.mem_cons.1 hd with rfl | hd
      · exact ⟨((liveCell_iff _ _).1 hg.1).1, (isPlaced_iff _ _).1 hg.2⟩
      · exact ⟨(ih2 d hd).1, (hrow d hd).2⟩
    · cases e

theorem reorderWriteback_live {s t : State} {cells : List Int} {regions : List Region}
    (e : s.reorderWriteback cells regions = .ok t) : cells.Nodup ∧ ∀ c ∈ cells, s.validCell c := by
  unfold reorderWriteback at e
  split at e
  · cases e
  · rename_i u eu
    obtain ⟨h1, h2⟩ := unplaceAll_live eu
    exact ⟨h1, fun c hc => (h2 c hc).1⟩

/-! ### the pass on the coordinate vectors -/

/-- the leaves the enumeration of a window evaluates, in evaluation order -/
def windowLeaves (V : Value) (s : State) (rr0 : RowReord PS) : List Leaf := (rr0.run (pureStore V) s).leaves.reverse

/-- **The pass is the keep-best decision over the evaluated leaves.**  When the registered cells are
distinct and non-negative, `reorderWindow` is `reorderDecision` (Model/DetOpt.lean) over the list of
leaves the enumeration evaluated, and each of them carries the objective of its own write-back. -/
theorem reorderWindow_decision (V : Value) (s : State) (w : List Int) (rr0 : RowReord PS)
    (e0 : addCells s (RowReord.new (s.x, s.y)) w = .ok rr0) (hn : rr0.cells.Nodup) (hnn : ∀ c ∈ rr0.cells, 0 ≤ c) :
    s.reorderWindow V w = s.reorderDecision V (sortDesc rr0.cells) (windowLeaves V s rr0) ∧
    (∀ leaf ∈ windowLeaves V s rr0, leaf.value = s.leafValue V leaf.regions) ∧
    (rr0.run (pureStore V) s).fuelOut = false ∧ (rr0.run (pureStore V) s).assertFail = rr0.assertFail := by
  obtain ⟨hf, hfo⟩ := addCells_fresh s w _ rr0 e0
  have hst : rr0.store = (s.x, s.y) := (addCells_two s w (s.x, s.y) () rr0 e0).2
  obtain ⟨h1, h2, h3, h4, hb, _⟩ := run_spec V s rr0 hf hn hnn hst
  refine ⟨?_, fun leaf hl => hb.faithful leaf (List.mem_reverse.1 hl), h1.trans hfo, h2⟩
  unfold State.reorderWindow State.reorderDecision windowLeaves
  rw [e0]
  simp only []
  have hkb := hb.kb
  show (if (rr0.run (pureStore V) s).improvement = true then _ else _) = _
  rw [show s.value V = V s.x s.y from rfl, hkb]
  cases hi : (rr0.run (pureStore V) s).improvement with
  | false => simp
  | true => simp [h3]

/-- **Never worse.**  Whatever the window: if the pass returns normally, the placement is untouched (state
equality) or the objective strictly decreased.  No hypothesis on the leaves: a write-back that succeeds
forces the registered cells to be distinct valid cells, which makes every evaluated leaf faithful. -/
theorem reorderWindow_not_worse (V : Value) (s t : State) (w : List Int) (e : s.reorderWindow V w = .ok t) :
    t = s ∨ (t.value V < s.value V ∧ ∃ cells regions, s.step (.reorder cells regions) = .ok t) := by
  unfold State.reorderWindow at e
  split at e
  · cases e
  · rename_i rr0 e0
    split at e
    · rename_i himp
      right
      obtain ⟨hn', hv⟩ := reorderWriteback_live e
      have hperm := sortDesc_perm rr0.cells
      obtain ⟨hf, _⟩ := addCells_fresh s w _ rr0 e0
      have hst : rr0.store = (s.x, s.y) := (addCells_two s w (s.x, s.y) () rr0 e0).2
      have hn : rr0.cells.Nodup := by
        have h3 := (run_spec_cells V s rr0)
        rw [h3] at hn'
        exact hperm.nodup hn'
      have hnn : ∀ c ∈ rr0.cells, 0 ≤ c := by
        intro c hc
        have h3 := (run_spec_cells V s rr0)
        exact (hv c (by rw [h3]; exact hperm.mem_iff.2 hc)).1
      obtain ⟨_, _, _, _, hb, _⟩ := run_spec V s rr0 hf hn hnn hst
      have hkb := hb.kb
      rw [himp] at hkb
      simp only [if_true] at hkb
      have spec := keepBest_spec (V s.x s.y) (rr0.run (pureStore V) s).leaves.reverse none (V s.x s.y) (Int.le_refl _)
        (by intro l hl; cases hl)
      rw [hkb] at spec
      have hlt := (spec.2 _ rfl).2
      -- the best leaf is one of the evaluated ones
      have hmem := keepBest_mem (V s.x s.y) (rr0.run (pureStore V) s).leaves.reverse none _ (by rw [hkb]) rfl
      have hfaith := hb.faithful _ (List.mem_reverse.1 hmem)
      refine ⟨?_, _, _, e⟩
      rw [reorderWriteback_value V e]
      show s.leafValue V (rr0.run (pureStore V) s).bestRegions < V s.x s.y
      have : (rr0.run (pureStore V) s).bestVal = s.leafValue V (rr0.run (pureStore V) s).bestRegions := hfaith
      rw [← this]
      exact hlt
    · injection e with e
      exact Or.inl e.symm
where
  run_spec_cells (V : Value) (s : State) (rr0 : RowReord PS) : (rr0.run (pureStore V) s).cells = sortDesc rr0.cells := by
    unfold RowReord.run
    rw [runRegionChoice_cells]
  keepBest_mem (init : Int) : ∀ (ls : List Leaf) (l0 : Option Leaf) (l : Leaf),
      (keepBest init ls l0).2 = some l → l0 = none → l ∈ ls := by
    intro ls l0 l h h0
    have mem : ∀ (ls : List Leaf) (b : Int) (l0 : Option Leaf) (all : List Leaf), (∀ l, l0 = some l → l ∈ all) →
        (∀ l ∈ ls, l ∈ all) → ∀ l, (keepBest b ls l0).2 = some l → l ∈ all := by
      intro ls
      induction ls with
      | nil => intro b l0 all h0 _ l hl; exact h0 l hl
      | cons x xs ih =>
        intro b l0 all h0 hs l hl
        unfold keepBest at hl
        split at hl
        · exact ih _ _ all (by intro l' hl'; injection hl' with hl'; exact hl' ▸ hs x (List.mem_cons_self ..))
            (fun l' hl' => hs l' (List.mem_cons_of_mem _ hl')) l hl
        · exact ih _ _ all h0 (fun l' hl' => hs l' (List.mem_cons_of_mem _ hl')) l hl
    exact mem ls init l0 ls (by intro l' hl'; rw [h0] at hl'; cases hl') (fun l hl => hl) l h

/-! ### the pass on the two incremental net models -/

/-- the two models are in sync with the two vectors -/
def SyncR (c : Circuit) : PS → IncrNet.Model × IncrNet.Model → Prop := fun f m =>
  Sync1 (IncrNet.xTopologyAll c) c.cells.length m.1 f.1 ∧ Sync1 (IncrNet.yTopologyAll c) c.cells.length m.2 f.2

theorem storeSim (c : Circuit) :
    StoreSim (pureStore (circuitValue c)) modelStore (SyncR c) (fun k => 0 ≤ k ∧ k < (c.cells.length : Int)) :=
  ⟨fun _ _ k v h hk => ⟨h.1.update k v hk.1 hk.2, h.2⟩, fun _ _ k v h hk => ⟨h.1, h.2.update k v hk.1 hk.2⟩,
   fun a b h => by
    show circuitValue c a.1 a.2 = b.1.value + b.2.value
    unfold circuitValue; rw [h.1.value, h.2.value]⟩

theorem run_sim {σ1 σ2 : Type} {S1 : Store σ1} {S2 : Store σ2} {R : σ1 → σ2 → Prop} {ok : Int → Prop}
    (hS : StoreSim S1 S2 R ok) (s : State) {a : RowReord σ1} {b : RowReord σ2} (h : Sim R ok a b) :
    Sim R ok (a.run S1 s) (b.run S2 s) := by
  unfold RowReord.run
  obtain ⟨h1, h2, h3, h4, h5, h6, h7, h8, h10, h11, h12⟩ := core_fields h.core
  rw [← h2]
  apply runRegionChoice_sim hS s
  · show a.cells.length ≤ (sortDesc a.cells).length
    rw [(sortDesc_perm a.cells).length_eq]; exact Nat.le_refl _
  · refine ⟨core_of_fields ⟨h1, ?_, h3, h4, hS.value _ _ h.store, h6, h7, h8, h10, h11, h12⟩, h.store, h.okOrder, ?_⟩
    · rfl
    · intro c hc
      exact h.okCells c ((sortDesc_perm a.cells).mem_iff.1 hc)

/-- the `updateCellPos` calls of `Placer.dirty`, on the vectors -/
theorem dirty_sync1 (c : Circuit) : ∀ (dirt : List (Int × Int × Int)) (p : Placer) (fx fy : Int → Int),
    Sync1 (IncrNet.xTopologyAll c) c.cells.length p.xt fx → Sync1 (IncrNet.yTopologyAll c) c.cells.length p.yt fy →
    (∀ m ∈ dirt, 0 ≤ m.1 ∧ m.1 < (c.cells.length : Int)) →
    Sync1 (IncrNet.xTopologyAll c) c.cells.length (p.dirty dirt).xt (dirt.foldl (fun f m => upd f m.1 m.2.1) fx) ∧
    Sync1 (IncrNet.yTopologyAll c) c.cells.length (p.dirty dirt).yt (dirt.foldl (fun f m => upd f m.1 m.2.2) fy) ∧
    (p.dirty dirt).pl = p.pl
  | [], _, _, _, hx, hy, _ => ⟨hx, hy, rfl⟩
  | (k, vx, vy) :: rest, p, fx, fy, hx, hy, hv => by
    have hk := hv (k, vx, vy) (List.mem_cons_self ..)
    have := dirty_sync1 c rest (p.updateCellTo k vx vy) (upd fx k vx) (upd fy k vy)
      (hx.update k vx hk.1 hk.2) (hy.update k vy hk.1 hk.2) (fun m hm => hv m (List.mem_cons_of_mem _ hm))
    exact this

/-- models in sync with vectors that differ from the placement's only on `cells` are those of a
`Placer.dirty` -/
theorem eq_dirty (c : Circuit) (p : Placer) (hs : Sync c p) (cells : List Int) (hv : ∀ k ∈ cells, p.pl.validCell k)
    (f : PS) (m : IncrNet.Model × IncrNet.Model) (hR : SyncR c f m)
    (hfr : ∀ d, d ∉ cells → f.1 d = p.pl.x d ∧ f.2 d = p.pl.y d) :
    ({ p with xt := m.1, yt := m.2 } : Placer) = p.dirty (cells.map fun k => (k, f.1 k, f.2 k)) := by
  have hd := dirty_sync1 c (cells.map fun k => (k, f.1 k, f.2 k)) p p.pl.x p.pl.y hs.x hs.y (by
    intro m hm
    obtain ⟨k, hk, rfl⟩ := List.mem_map.1 hm
    exact hs.valid (hv k hk))
  obtain ⟨hx, hy, hpl⟩ := hd
  have keys : (cells.map fun k => (k, f.1 k, f.2 k)).map (fun m => m.1) = cells := by
    simp [List.map_map, Function.comp_def]
  have ex : ∀ d, (cells.map fun k => (k, f.1 k, f.2 k)).foldl (fun g m => upd g m.1 m.2.1) p.pl.x d = f.1 d := by
    intro d
    have key := foldl_upd_agree (fun m : Int × Int × Int => m.2.1) (fun m => m.1) f.1
      (cells.map fun k => (k, f.1 k, f.2 k)) p.pl.x (by
        intro m hm; obtain ⟨k, _, rfl⟩ := List.mem_map.1 hm; rfl) d
    rw [keys] at key
    by_cases hdc : d ∈ cells
    · exact key.1 hdc
    · rw [key.2 hdc, (hfr d hdc).1]
  have ey : ∀ d, (cells.map fun k => (k, f.1 k, f.2 k)).foldl (fun g m => upd g m.1 m.2.2) p.pl.y d = f.2 d := by
    intro d
    have key := foldl_upd_agree (fun m : Int × Int × Int => m.2.2) (fun m => m.1) f.2
      (cells.map fun k => (k, f.1 k, f.2 k)) p.pl.y (by
        intro m hm; obtain ⟨k, _, rfl⟩ := List.mem_map.1 hm; rfl) d
    rw [keys] at key
    by_cases hdc : d ∈ cells
    · exact key.1 hdc
    · rw [key.2 hdc, (hfr d hdc).2]
  refine placer_ext hpl.symm ?_ ?_
  · exact hR.1.unique (hx.congr ex)
  · exact hR.2.unique (hy.congr ey)

theorem core_mapStore {σ τ : Type} (f : σ → τ) (rr : RowReord σ) : (rr.mapStore f).core = rr.core := rfl

/-- **`runReorderingOnCells` on the real object.**  `p` is in sync (the object reached by any history from
its construction on `c`: `run_sync`); the registered cells are distinct valid cells.  Then the pass on the
two incremental net models returns what the pass on the coordinate vectors returns for the real objective
`circuitValue c`; the object is in sync again; the logged write-back replays to it; and when no leaf was
better the object is *equal* to the one before the pass. -/
theorem reorderWindow_placer (c : Circuit) (p q : Placer) (w : List Int) (ops : List Op) (info : WindowInfo)
    (hs : Sync c p) (e : p.reorderWindow w = .ok (q, ops, info))
    (hreg : info.cells.Nodup ∧ ∀ k ∈ info.cells, p.pl.validCell k) :
    p.pl.reorderWindow (circuitValue c) w = .ok q.pl ∧ Sync c q ∧ p.run ops = .ok q ∧
    (info.improvement = false → q = p ∧ ops = []) ∧ info.fuelOut = false ∧ info.valueAfter = q.value ∧
    ∃ rr0 : RowReord PS, addCells p.pl (RowReord.new (p.pl.x, p.pl.y)) w = .ok rr0 ∧
      info.nbLeaves = (windowLeaves (circuitValue c) p.pl rr0).length ∧
      info.bestVal = (rr0.run (pureStore (circuitValue c)) p.pl).bestVal ∧
      info.improvement = (rr0.run (pureStore (circuitValue c)) p.pl).improvement ∧
      ∀ leaf ∈ windowLeaves (circuitValue c) p.pl rr0, leaf.value = p.pl.leafValue (circuitValue c) leaf.regions := by
  unfold Placer.reorderWindow at e
  split at e
  · cases e
  · rename_i rrm0 em
    -- the same window registered with the coordinate vectors
    obtain ⟨ep, hstm⟩ := addCells_two p.pl w (p.xt, p.yt) (p.pl.x, p.pl.y) rrm0 em
    obtain ⟨hfm, hfom⟩ := addCells_fresh p.pl w _ rrm0 em
    generalize hrrp : rrm0.mapStore (fun _ => (p.pl.x, p.pl.y)) = rrp0 at ep
    have hcore0 : rrp0.core = rrm0.core := by rw [← hrrp]; rfl
    have hstp : rrp0.store = (p.pl.x, p.pl.y) := by rw [← hrrp]; rfl
    have hcells0 : rrp0.cells = rrm0.cells := (core_fields hcore0).2.1
    split at e
    · cases e
    · rename_i q' eq'
      injection e with e
      have eq1 : q' = q := congrArg (·.1) e
      have eq2 := congrArg (·.2.1) e
      have eq3 := congrArg (·.2.2) e
      simp only [] at eq2 eq3
      subst eq1
      -- registered cells: those of the report, up to the sort
      have hinfoc : info.cells = sortDesc rrm0.cells := by
        rw [← eq3]
        show (rrm0.run modelStore p.pl).cells = _
        unfold RowReord.run; rw [runRegionChoice_cells]
      have hperm := sortDesc_perm rrm0.cells
      have hn : rrp0.cells.Nodup := by rw [hcells0]; exact hperm.nodup (hinfoc ▸ hreg.1)
      have hvalid : ∀ k ∈ rrm0.cells, p.pl.validCell k := fun k hk => hreg.2 k (by rw [hinfoc]; exact hperm.mem_iff.2 hk)
      have hnn : ∀ k ∈ rrp0.cells, 0 ≤ k := fun k hk => (hs.valid (hvalid k (hcells0 ▸ hk))).1
      -- lock step
      have hsim0 : Sim (SyncR c) (fun k => 0 ≤ k ∧ k < (c.cells.length : Int)) rrp0 rrm0 :=
        ⟨hcore0, by rw [hstp, hstm]; exact ⟨hs.x, hs.y⟩,
         fun l hl d hd => by
          obtain ⟨n, hn'⟩ := List.getElem?_of_mem hl
          have : (core_fields hcore0).2.2.1 ▸ hn' = hn' := rfl
          have hl0 : l = [] := hfm.empty n l (by rw [← (core_fields hcore0).2.2.1]; exact hn')
          rw [hl0] at hd; simp at hd,
         fun k hk => hs.valid (hvalid k (hcells0 ▸ hk))⟩
      have hsim := run_sim (storeSim c) p.pl hsim0
      obtain ⟨g1, g2, g3, g4, g5, g6, g7, g8, g10, g11, g12⟩ := core_fields hsim.core
      obtain ⟨hf, _⟩ := addCells_fresh p.pl w _ rrp0 ep
      obtain ⟨r1, r2, r3, r4, hb, hframe⟩ := run_spec (circuitValue c) p.pl rrp0 hf hn hnn hstp
      have hdec := reorderWindow_decision (circuitValue c) p.pl w rrp0 ep hn hnn
      have hbr : (rrp0.run (pureStore (circuitValue c)) p.pl).bestRegions = (rrm0.run modelStore p.pl).bestRegions := by
        unfold RowReord.bestRegions; rw [g1, g6, g7]
      have hcells : (rrm0.run modelStore p.pl).cells = sortDesc rrm0.cells := by rw [← g2, r3, hcells0]
      have hvs : ∀ k ∈ (rrm0.run modelStore p.pl).cells, p.pl.validCell k := by
        intro k hk; rw [hcells] at hk; exact hvalid k (hperm.mem_iff.1 hk)
      -- the object the enumeration leaves is a `dirty` one
      have hdirty := eq_dirty c p hs (rrm0.run modelStore p.pl).cells hvs _ _ hsim.store (by
        intro d hd
        apply hframe d
        intro hd'
        exact hd (by rw [hcells]; exact hperm.mem_iff.2 (hcells0 ▸ hd')))
      have hmemd : ∀ m ∈ ((rrm0.run modelStore p.pl).cells.map fun k =>
          (k, (rrp0.run (pureStore (circuitValue c)) p.pl).store.1 k, (rrp0.run (pureStore (circuitValue c)) p.pl).store.2 k)),
          m.1 ∈ (rrm0.run modelStore p.pl).cells := by
        intro m hm; obtain ⟨k, hk, rfl⟩ := List.mem_map.1 hm; exact hk
      have hinfo : info = (rrm0.run modelStore p.pl).info q'.value := eq3.symm
      have hleaves : info.nbLeaves = (windowLeaves (circuitValue c) p.pl rrp0).length := by
        rw [hinfo]; show (rrm0.run modelStore p.pl).leaves.length = _
        unfold windowLeaves; rw [List.length_reverse, g10]
      have hfuel : info.fuelOut = false := by
        rw [hinfo]; show (rrm0.run modelStore p.pl).fuelOut = false
        rw [← g11]; exact hdec.2.2.1
      unfold Placer.writeback at eq'
      by_cases himp : (rrm0.run modelStore p.pl).improvement = true
      · rw [if_pos himp, hdirty] at eq'
        obtain ⟨e1, hsq⟩ := dirty_writeback_eq hs _ _ _ hmemd hvs eq'
        have e2 := (reorderWriteback_sync hs e1).2
        refine ⟨?_, hsq, ?_, ?_, hfuel, by rw [hinfo]; rfl, rrp0, ep, hleaves, by rw [hinfo]; exact g5.symm,
          by rw [hinfo]; exact g8.symm, hdec.2.1⟩
        · unfold State.reorderWindow
          rw [ep]
          simp only []
          rw [g8, if_pos himp, g2, hbr]
          exact e2
        · rw [← eq2, if_pos himp]
          simp only [Placer.run, Placer.step, e1]
        · intro h; rw [hinfo] at h
          have : (rrm0.run modelStore p.pl).improvement = false := h
          rw [himp] at this; cases this
      · rw [if_neg himp, hdirty] at eq'
        rw [dirty_restore_eq hs _ _ hmemd hvs] at eq'
        injection eq' with eq'
        subst eq'
        refine ⟨?_, hs, ?_, ?_, hfuel, by rw [hinfo]; rfl, rrp0, ep, hleaves, by rw [hinfo]; exact g5.symm,
          by rw [hinfo]; exact g8.symm, hdec.2.1⟩
        · unfold State.reorderWindow
          rw [ep]
          simp only []
          rw [g8, if_neg himp]
        · rw [← eq2, if_neg himp]; rfl
        · intro _; exact ⟨rfl, by rw [← eq2, if_neg himp]⟩

end ColoVerif.DetPlace
