import ColoVerif.Proofs.LegalizeOrder
import ColoVerif.Proofs.LegalizeRowLeg
/-
Helper lemmas for C11: cells of one segment listed left to right have strictly increasing keys.
-/
namespace ColoVerif.Legalize
open ColoVerif.RowLeg

theorem inOrder_lo (e : Int) : ∀ (cs : List (Int × Int)) (lo : Int), InOrder e lo cs → ∀ c ∈ cs, lo ≤ c.2
  | [], _, _, c, hc => by simp at hc
  | d :: ds, lo, h, c, hc => by
    obtain ⟨hw, hlo, _, hr⟩ := h
    rcases List.mem_cons.mp hc with rfl | hc
    · exact hlo
    · have := inOrder_lo e ds _ hr c hc; omega

theorem inOrder_pos (e : Int) : ∀ (cs : List (Int × Int)) (lo : Int), InOrder e lo cs → ∀ c ∈ cs, 0 < c.1
  | [], _, _, c, hc => by simp at hc
  | d :: ds, lo, h, c, hc => by
    obtain ⟨hw, _, _, hr⟩ := h
    rcases List.mem_cons.mp hc with rfl | hc
    · exact hw
    · exact inOrder_pos e ds _ hr c hc

theorem inOrder_pairwise (e : Int) (ww wy wh : Rat) (h0 : 0 ≤ ww) (h1 : ww ≤ 1) (ty hh : Int) :
    ∀ (cs : List LCell) (lo : Int), (∀ c ∈ cs, c.ty = ty ∧ c.h = hh) →
      InOrder e lo (cs.map fun c => (c.w, c.tx)) →
      cs.Pairwise fun c1 c2 => orderKey id ww wy wh c1 < orderKey id ww wy wh c2
  | [], _, _, _ => List.Pairwise.nil
  | c :: cs, lo, hs, h => by
    obtain ⟨hw, _, _, hr⟩ := h
    refine List.Pairwise.cons ?_ (inOrder_pairwise e ww wy wh h0 h1 ty hh cs _ (fun d hd => hs d (by simp [hd])) hr)
    intro d hd
    have hm : (d.w, d.tx) ∈ cs.map fun c => (c.w, c.tx) := List.mem_map.mpr ⟨d, hd, rfl⟩
    have hlo := inOrder_lo e _ _ hr _ hm
    have hpos := inOrder_pos e _ _ hr _ hm
    exact orderKey_lt_exact ww wy wh h0 h1 c d (by rw [(hs c (by simp)).1, (hs d (by simp [hd])).1])
      (by rw [(hs c (by simp)).2, (hs d (by simp [hd])).2]) hw hpos hlo

end ColoVerif.Legalize
