import ColoVerif.Proofs.IncrNetTopology
/-
Sequences of `updateCellPos` on a well-formed model: frame, positions, value.
-/
namespace ColoVerif.IncrNet
open ColoVerif Model ColoVerif.C09

/-- the positions after a sequence of updates -/
def applyOps (pos : List Int) (ops : List (Nat × Int)) : List Int := ops.foldl (fun P o => P.set o.1 o.2) pos

theorem run_frame : ∀ (ops : List (Nat × Int)) (m : Model),
    ∃ X Y, run m ops = { m with cellPos := applyOps m.cellPos ops, netMinMaxPos := X, value := Y }
  | [], m => ⟨m.netMinMaxPos, m.value, rfl⟩
  | o :: ops, m => by
    obtain ⟨X1, Y1, h1⟩ := update_frame m o.1 o.2
    obtain ⟨X, Y, h⟩ := run_frame ops (m.updateCellPos o.1 o.2)
    refine ⟨X, Y, ?_⟩
    show run (m.updateCellPos o.1 o.2) ops = _
    rw [h, h1]
    rfl

/-- a model is *good* when its cell CSR is the transpose of its net CSR, the maintained bounds
and value are consistent, and no net is empty -/
structure Good (m : Model) : Prop where
  wf : WF m
  inv : Inv m
  nonempty : ∀ n, n < m.nbNets → m.netPins n ≠ []

theorem run_good (m : Model) (ops : List (Nat × Int)) (h : Good m) : Good (run m ops) := by
  obtain ⟨hi, hw⟩ := run_inv ops m h.wf h.inv
  refine ⟨hw, hi, ?_⟩
  obtain ⟨X, Y, hxy⟩ := run_frame ops m
  rw [hxy]
  exact h.nonempty

theorem good_value (m : Model) (h : Good m) : m.value = scratchValue m := inv_value m h.inv h.nonempty

theorem topology_Good (off : Cell → Pin → Int) (pos : Cell → Int) (c : Circuit) (cells : List Nat) :
    Good (topology off pos c cells) := by
  obtain ⟨hwf, hinv, hrepr, _⟩ := topology_good off pos c cells
  refine ⟨hwf, hinv, ?_⟩
  intro n hn
  rw [hrepr.nbNets] at hn
  rw [hrepr.netPins n hn]
  have hmem : (kept (reducedNets off pos c cells)).getD n [] ∈ kept (reducedNets off pos c cells) := by
    simp [List.getD_eq_getElem?_getD, hn]
  have := (List.mem_filter.mp hmem).2
  intro h; rw [h] at this; simp at this

/-- models produced by `IncrNetModelBuilder` from any nets whose cells are in range -/
theorem builder_Good (K : Nat) (Ls : List (List Pin1)) (pos : List Int) (hK : pos.length = K)
    (hrange : ∀ l ∈ Ls, ∀ p ∈ l, p.1 < K) : Good ((Ls.foldl Builder.addNet (Builder.new K)).build pos) := by
  have hb : BRepr (Builder.new K) [] := ⟨rfl, rfl, rfl⟩
  have hr := foldl_addNet_repr Ls _ _ hb
  simp only [List.nil_append] at hr
  have hg := build_good _ _ pos hr (fun l hl p hp => by rw [hK]; exact hrange l (List.mem_filter.mp hl).1 p hp)
  have hrepr := build_repr _ _ pos hr
  refine ⟨hg.1, hg.2, ?_⟩
  intro n hn
  rw [hrepr.nbNets] at hn
  rw [hrepr.netPins n hn]
  have hmem : (kept Ls).getD n [] ∈ kept Ls := by simp [List.getD_eq_getElem?_getD, hn]
  have := (List.mem_filter.mp hmem).2
  intro h; rw [h] at this; simp at this

end ColoVerif.IncrNet
