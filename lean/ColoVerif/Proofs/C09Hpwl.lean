import ColoVerif.Model.Circuit
import ColoVerif.Model.OrientSpec
import ColoVerif.Gen.OrientTables
/-
Helper definitions and lemmas for C09 (half-perimeter as a bounding box).
-/
namespace ColoVerif.C09
open ColoVerif ColoVerif.OrientSpec

/-- specification-level maximum (structural, independent of the model's `foldl` loops) -/
def maxOf : List Int → Option Int
  | [] => none
  | x :: xs => some (match maxOf xs with | none => x | some m => max x m)

def minOf : List Int → Option Int
  | [] => none
  | x :: xs => some (match minOf xs with | none => x | some m => min x m)

/-- extent of a list of coordinates: `max − min`, `0` for the empty list -/
def span (l : List Int) : Int :=
  match maxOf l, minOf l with
  | some hi, some lo => hi - lo
  | _, _ => 0

/-- `v` is the length of the smallest interval containing `l` (0 if `l` is empty) -/
def IsSpan (l : List Int) (v : Int) : Prop :=
  (l = [] ∧ v = 0) ∨
  ∃ lo hi, lo ∈ l ∧ hi ∈ l ∧ (∀ x ∈ l, lo ≤ x ∧ x ≤ hi) ∧ v = hi - lo

theorem maxOf_spec : ∀ (l : List Int) (hi : Int), maxOf l = some hi → hi ∈ l ∧ ∀ x ∈ l, x ≤ hi
  | [], _, h => by simp [maxOf] at h
  | x :: xs, hi, h => by
    cases hm : maxOf xs with
    | none =>
      cases xs with
      | nil => simp [maxOf] at h; subst h; simp
      | cons y ys => simp [maxOf] at hm
    | some m =>
      have ih := maxOf_spec xs m hm
      simp [maxOf, hm] at h
      subst h
      refine ⟨?_, ?_⟩
      · by_cases hxm : m ≤ x
        · simp [Int.max_eq_left hxm]
        · have : max x m = m := Int.max_eq_right (by omega)
          simp [this, ih.1]
      · intro y hy
        rcases List.mem_cons.mp hy with rfl | hy
        · exact Int.le_max_left _ _
        · exact Int.le_trans (ih.2 y hy) (Int.le_max_right _ _)

theorem minOf_spec : ∀ (l : List Int) (lo : Int), minOf l = some lo → lo ∈ l ∧ ∀ x ∈ l, lo ≤ x
  | [], _, h => by simp [minOf] at h
  | x :: xs, lo, h => by
    cases hm : minOf xs with
    | none =>
      cases xs with
      | nil => simp [minOf] at h; subst h; simp
      | cons y ys => simp [minOf] at hm
    | some m =>
      have ih := minOf_spec xs m hm
      simp [minOf, hm] at h
      subst h
      refine ⟨?_, ?_⟩
      · by_cases hxm : x ≤ m
        · simp [Int.min_eq_left hxm]
        · have : min x m = m := Int.min_eq_right (by omega)
          simp [this, ih.1]
      · intro y hy
        rcases List.mem_cons.mp hy with rfl | hy
        · exact Int.min_le_left _ _
        · exact Int.le_trans (Int.min_le_right _ _) (ih.2 y hy)

theorem maxOf_isSome : ∀ l : List Int, l ≠ [] → ∃ hi, maxOf l = some hi
  | [], h => absurd rfl h
  | _ :: _, _ => ⟨_, rfl⟩

theorem minOf_isSome : ∀ l : List Int, l ≠ [] → ∃ lo, minOf l = some lo
  | [], h => absurd rfl h
  | _ :: _, _ => ⟨_, rfl⟩

/-- `span` satisfies its specification -/
theorem span_isSpan (l : List Int) : IsSpan l (span l) := by
  by_cases hl : l = []
  · subst hl; left; simp [span, maxOf]
  · right
    obtain ⟨hi, hhi⟩ := maxOf_isSome l hl
    obtain ⟨lo, hlo⟩ := minOf_isSome l hl
    have h1 := maxOf_spec l hi hhi
    have h2 := minOf_spec l lo hlo
    exact ⟨lo, hi, h2.1, h1.1, fun x hx => ⟨h2.2 x hx, h1.2 x hx⟩, by simp [span, hhi, hlo]⟩

/-- … and the specification determines the value -/
theorem isSpan_unique (l : List Int) (v v' : Int) (h : IsSpan l v) (h' : IsSpan l v') : v = v' := by
  rcases h with ⟨hl, hv⟩ | ⟨lo, hi, hlo, hhi, hb, hv⟩
  · rcases h' with ⟨_, hv'⟩ | ⟨lo', _, hlo', _⟩
    · omega
    · subst hl; simp at hlo'
  · rcases h' with ⟨hl, _⟩ | ⟨lo', hi', hlo', hhi', hb', hv'⟩
    · subst hl; simp at hlo
    · have a1 := hb lo' hlo'; have a2 := hb hi' hhi'
      have b1 := hb' lo hlo; have b2 := hb' hi hhi
      omega

/-- the model's `foldl max` loop against the structural maximum -/
theorem foldl_max_eq : ∀ (xs : List Int) (a : Int),
    xs.foldl max a = (match maxOf xs with | none => a | some m => max a m)
  | [], a => by simp [maxOf]
  | x :: xs, a => by
    rw [List.foldl_cons, foldl_max_eq xs (max a x)]
    cases hm : maxOf xs with
    | none => simp [maxOf, hm]
    | some m => simp [maxOf, hm]

theorem foldl_min_eq : ∀ (xs : List Int) (a : Int),
    xs.foldl min a = (match minOf xs with | none => a | some m => min a m)
  | [], a => by simp [minOf]
  | x :: xs, a => by
    rw [List.foldl_cons, foldl_min_eq xs (min a x)]
    cases hm : minOf xs with
    | none => simp [minOf, hm]
    | some m => simp [minOf, hm]

theorem lmax_eq (d : Int) (l : List Int) : Circuit.lmax d l = (maxOf l).getD d := by
  cases l with
  | nil => rfl
  | cons x xs => simp [Circuit.lmax, foldl_max_eq, maxOf]

theorem lmin_eq (d : Int) (l : List Int) : Circuit.lmin d l = (minOf l).getD d := by
  cases l with
  | nil => rfl
  | cons x xs => simp [Circuit.lmin, foldl_min_eq, minOf]

/-- for a non-empty list the default of `lmin`/`lmax` is irrelevant -/
theorem lmax_lmin_span (d d' : Int) (l : List Int) (h : l ≠ []) :
    Circuit.lmax d l - Circuit.lmin d' l = span l := by
  obtain ⟨hi, hhi⟩ := maxOf_isSome l h
  obtain ⟨lo, hlo⟩ := minOf_isSome l h
  simp [lmax_eq, lmin_eq, span, hhi, hlo]

theorem lmax_lmin_span0 (l : List Int) : Circuit.lmax 0 l - Circuit.lmin 0 l = span l := by
  cases l with
  | nil => rfl
  | cons x xs => exact lmax_lmin_span 0 0 _ (by simp)

/-- location of a pin according to the orientation *specification* -/
def specPin (c : Circuit) (p : Pin) : Int × Int :=
  ((c.cell p.cell).x + (spec (c.cell p.cell).orient (c.cell p.cell).w (c.cell p.cell).h p.xo p.yo).pinX,
   (c.cell p.cell).y + (spec (c.cell p.cell).orient (c.cell p.cell).w (c.cell p.cell).h p.xo p.yo).pinY)

/-- half-perimeter of the bounding box of a list of points (0 for no point) -/
def bboxHalfPerimeter (pts : List (Int × Int)) : Int := span (pts.map (·.1)) + span (pts.map (·.2))

/-- every cell has one of the eight orientations and a non-negative size -/
def CellsOk (c : Circuit) : Prop := ∀ cl ∈ c.cells, cl.orient ∈ Orient.eight ∧ 0 ≤ cl.w ∧ 0 ≤ cl.h

instance (c : Circuit) : Decidable (CellsOk c) := by unfold CellsOk; infer_instance

theorem cell_ok (c : Circuit) (h : CellsOk c) (i : Nat) :
    (c.cell i).orient ∈ Orient.eight ∧ 0 ≤ (c.cell i).w ∧ 0 ≤ (c.cell i).h := by
  unfold Circuit.cell
  by_cases hi : i < c.cells.length
  · have : c.cells.getD i default = c.cells[i] := by simp [List.getD, hi]
    rw [this]; exact h _ (List.getElem_mem hi)
  · have : c.cells.getD i default = default := by simp [List.getD, List.getElem?_eq_none (Nat.le_of_not_lt hi)]
    rw [this]; decide

end ColoVerif.C09
