/-
Helper lemmas for C13 about `toAssignment` (argmax scan) and `increaseCapacity`.
-/
import ColoVerif.Model.Transp
import Mathlib.Tactic.Linarith
import Mathlib.Tactic.Ring

namespace ColoVerif.Transp
open Problem

/-! ### `toAssignment` -/

/-- loop invariant of the scan in `toAssignment` -/
def ArgInv (alloc : Mat) (src i best : Nat) (ba : Int) : Prop :=
  (ba = -1 ∧ best = 0 ∧ i = 0) ∨
  (best < i ∧ ba = get2 alloc best src ∧ (∀ i', i' < i → get2 alloc i' src ≤ ba) ∧
    ∀ i', i' < best → get2 alloc i' src < ba)

lemma argmaxFrom_inv (alloc : Mat) (src : Nat) :
    ∀ (k i best : Nat) (ba : Int), ArgInv alloc src i best ba →
      (∀ i', i ≤ i' → i' < i + k → 0 ≤ get2 alloc i' src) →
      ∃ ba', ArgInv alloc src (i + k) (argmaxFrom alloc src k i best ba) ba' := by
  intro k
  induction k with
  | zero => intro i best ba h _; exact ⟨ba, by simpa [argmaxFrom] using h⟩
  | succ k ih =>
    intro i best ba h hn
    have h0 : 0 ≤ get2 alloc i src := hn i (Nat.le_refl _) (by omega)
    have hn' : ∀ i', i + 1 ≤ i' → i' < i + 1 + k → 0 ≤ get2 alloc i' src :=
      fun i' a b => hn i' (by omega) (by omega)
    unfold argmaxFrom
    split
    · rename_i hgt
      have hinv : ArgInv alloc src (i + 1) i (get2 alloc i src) := by
        right
        refine ⟨Nat.lt_succ_self i, rfl, ?_, ?_⟩
        · intro i' hi'
          rcases h with ⟨_, _, hz⟩ | ⟨_, _, hle, _⟩
          · have : i' = i := by omega
            rw [this]
          · rcases Nat.lt_succ_iff_lt_or_eq.mp hi' with hlt | heq
            · have := hle i' hlt; omega
            · rw [heq]
        · intro i' hi'
          rcases h with ⟨_, _, hz⟩ | ⟨_, _, hle, _⟩
          · omega
          · have := hle i' hi'; omega
      have := ih (i + 1) i (get2 alloc i src) hinv hn'
      have e : i + 1 + k = i + (k + 1) := by omega
      rw [e] at this; exact this
    · rename_i hgt
      have hinv : ArgInv alloc src (i + 1) best ba := by
        rcases h with ⟨hb, _, _⟩ | ⟨hlt, heq, hle, hfirst⟩
        · omega
        · right
          refine ⟨by omega, heq, ?_, hfirst⟩
          intro i' hi'
          rcases Nat.lt_succ_iff_lt_or_eq.mp hi' with hlt' | heq'
          · exact hle i' hlt'
          · rw [heq']; omega
      have := ih (i + 1) best ba hinv hn'
      have e : i + 1 + k = i + (k + 1) := by omega
      rw [e] at this; exact this

lemma argmaxFrom_spec (alloc : Mat) (src n : Nat) (hn : 0 < n)
    (h0 : ∀ i, i < n → 0 ≤ get2 alloc i src) :
    argmaxFrom alloc src n 0 0 (-1) < n ∧
    (∀ i, i < n → get2 alloc i src ≤ get2 alloc (argmaxFrom alloc src n 0 0 (-1)) src) ∧
    (∀ i, i < argmaxFrom alloc src n 0 0 (-1) →
      get2 alloc i src < get2 alloc (argmaxFrom alloc src n 0 0 (-1)) src) := by
  obtain ⟨ba, h⟩ := argmaxFrom_inv alloc src n 0 0 (-1) (Or.inl ⟨rfl, rfl, rfl⟩)
    (fun i' _ hi => h0 i' (by omega))
  rw [Nat.zero_add] at h
  rcases h with ⟨_, _, hz⟩ | ⟨hlt, heq, hle, hfirst⟩
  · omega
  · exact ⟨hlt, fun i hi => heq ▸ hle i hi, fun i hi => heq ▸ hfirst i hi⟩

lemma toAssignmentOf_getD (alloc : Mat) (n m src : Nat) (hs : src < m) :
    (toAssignmentOf alloc n m).getD src 0 = argmaxFrom alloc src n 0 0 (-1) := by
  simp [toAssignmentOf, List.getD_eq_getElem?_getD, hs]

/-! ### `increaseCapacity` -/

lemma incCaps_length (a r : Int) : ∀ (cs : List Int) (i : Nat), (incCaps a r i cs).length = cs.length := by
  intro cs
  induction cs with
  | nil => intro i; rfl
  | cons c cs ih => intro i; simp [incCaps, ih]

lemma incCaps_sum (a r : Int) : ∀ (cs : List Int) (i : Nat),
    (incCaps a r i cs).sum = cs.sum + a * (cs.length : Int) + min (max (r - i) 0) (cs.length : Int) := by
  intro cs
  induction cs with
  | nil => intro i; simp [incCaps]
  | cons c cs ih =>
    intro i
    simp only [incCaps, List.sum_cons, List.length_cons, ih (i + 1)]
    have e : a * ((cs.length + 1 : Nat) : Int) = a * (cs.length : Int) + a := by push_cast; ring
    rw [e]
    split <;> (push_cast; omega)

lemma incCaps_getD (a r : Int) (ha : 0 ≤ a) : ∀ (cs : List Int) (i k : Nat),
    cs.getD k 0 ≤ (incCaps a r i cs).getD k 0 := by
  intro cs
  induction cs with
  | nil => intro i k; simp [incCaps]
  | cons c cs ih =>
    intro i k
    cases k with
    | zero =>
      simp only [incCaps, List.getD_cons_zero]
      split <;> omega
    | succ k =>
      simp only [incCaps, List.getD_cons_succ]
      exact ih (i + 1) k

/-- facts about C++ `missing / n` and the remainder for `missing > 0`, `n > 0` -/
lemma tdiv_facts (mis : Int) (n : Nat) (hm : 0 < mis) (hn : 0 < n) :
    0 ≤ Int.tdiv mis n ∧ 0 ≤ mis - Int.tdiv mis n * n ∧ mis - Int.tdiv mis n * n < n := by
  rw [Int.tdiv_eq_ediv_of_nonneg (le_of_lt hm)]
  have hn' : (0 : Int) < n := by exact_mod_cast hn
  have h1 := Int.mul_ediv_add_emod mis n
  have h2 := Int.emod_nonneg mis (ne_of_gt hn')
  have h3 := Int.emod_lt_of_pos mis hn'
  have h4 : 0 ≤ mis / (n : Int) := Int.ediv_nonneg (le_of_lt hm) (le_of_lt hn')
  refine ⟨h4, ?_, ?_⟩ <;> nlinarith

end ColoVerif.Transp
