import ColoVerif.Proofs.DetOptHpwlSync
import ColoVerif.Properties.C09
/-
C05 ← C09, part 3 (circuit side): the freshly constructed `DetailedPlacer` is in sync; the two
topologies of the *exported* circuit have the net CSR of the ones built at construction as long as
the export has the orientations of the circuit the models were built from; hence the optimiser's
position-only objective is `Circuit::hpwl()` of the export (C09: `incr_init`, `detailed_value_is_hpwl`).
-/
namespace ColoVerif.DetPlace
open ColoVerif State

/-- what the constructor's linking loops never write -/
def SameCoords (s t : State) : Prop :=
  t.x = s.x ∧ t.y = s.y ∧ t.orient = s.orient ∧ t.nCells = s.nCells ∧ t.width = s.width

theorem linkRow_coords : ∀ (l : List Int) (s t : State) (r : Int), linkRow s r l = .ok t → SameCoords s t
  | [], s, t, r, e => by
    simp only [linkRow] at e; injection e with e; subst e; exact ⟨rfl, rfl, rfl, rfl, rfl⟩
  | [c], s, t, r, e => by
    simp only [linkRow] at e; injection e with e; subst e; exact ⟨rfl, rfl, rfl, rfl, rfl⟩
  | c1 :: c2 :: rest, s, t, r, e => by
    simp only [linkRow] at e
    split at e
    · cases e
    · have := linkRow_coords (c2 :: rest) _ t r e
      exact this

theorem linkRows_coords : ∀ (ls : List (List Int)) (s t : State) (r : Nat), linkRows s r ls = .ok t → SameCoords s t
  | [], s, t, r, e => by
    simp only [linkRows] at e; injection e with e; subst e; exact ⟨rfl, rfl, rfl, rfl, rfl⟩
  | cs :: css, s, t, r, e => by
    simp only [linkRows] at e
    split at e
    · cases e
    · rename_i u eu
      have h2 := linkRows_coords css u t (r + 1) e
      have h1 : SameCoords s u := by
        cases cs with
        | nil => have := linkRow_coords _ _ _ _ eu; exact this
        | cons k ks => have := linkRow_coords _ _ _ _ eu; exact this
      exact ⟨h2.1.trans h1.1, h2.2.1.trans h1.2.1, h2.2.2.1.trans h1.2.2.1, h2.2.2.2.1.trans h1.2.2.2.1,
        h2.2.2.2.2.trans h1.2.2.2.2⟩

theorem fromIspd_coords {c : Circuit} {s : State} (e : fromIspdCircuit c = .ok s) :
    s.x = ofList 0 (c.cells.map (·.x)) ∧ s.y = ofList 0 (c.cells.map (·.y)) ∧
    s.orient = ofList default (c.cells.map (·.orient)) ∧ s.nCells = c.cells.length ∧
    ∀ i : Nat, (c.cell i).fixed = true → i < c.cells.length → s.width i = -1 := by
  unfold fromIspdCircuit at e
  split at e
  · cases e
  · rename_i h hh
    simp only [construct] at e
    split at e
    · cases e
    · rename_i lists el
      split at e
      · cases e
      · rename_i u eu
        split at e
        · injection e with e; subst e
          obtain ⟨h1, h2, h3, h4, h5⟩ := linkRows_coords _ _ _ _ eu
          refine ⟨h1, h2, h3, h4, ?_⟩
          intro i hf hi
          rw [h5]
          simp only [ofList]
          have : ¬ ((i : Int) < 0) := by omega
          simp only [this, if_false, Int.toNat_natCast]
          simp [List.getD_eq_getElem?_getD, hi]
          intro hnf
          have : c.cell i = c.cells[i] := by simp [Circuit.cell, List.getD_eq_getElem?_getD, hi]
          rw [this] at hf; simp [hf] at hnf
        · cases e

theorem ofList_nat {α : Type} (d : α) (l : List α) (i : Nat) : ofList d l (i : Int) = l.getD i d := by
  have : ¬ ((i : Int) < 0) := by omega
  simp only [ofList, this, if_false, Int.toNat_natCast]

theorem cell_map_getD {α : Type} (c : Circuit) (f : Cell → α) (d : α) (i : Nat) (hi : i < c.cells.length) :
    (c.cells.map f).getD i d = f (c.cell i) := by
  simp [Circuit.cell, List.getD_eq_getElem?_getD, hi]

/-- the freshly constructed `DetailedPlacer` is in sync -/
theorem init_sync {c : Circuit} {p : Placer} (e : Placer.init c = .ok p) : Sync c p ∧ fromIspdCircuit c = .ok p.pl := by
  unfold Placer.init at e
  split at e
  · cases e
  · rename_i s es
    injection e with e; subst e
    obtain ⟨hx, hy, -, hn, -⟩ := fromIspd_coords es
    obtain ⟨-, -, gx, gy, px, py⟩ := C09.incr_init c (List.range c.cells.length)
    refine ⟨⟨⟨gx, NetsEq.refl _, ⟨rfl, rfl, rfl⟩, ?_⟩, ⟨gy, NetsEq.refl _, ⟨rfl, rfl, rfl⟩, ?_⟩, hn⟩, es⟩
    · show (IncrNet.xTopology c (List.range c.cells.length)).cellPos = _
      rw [px, hx]
      unfold posList
      congr 1
      apply List.map_congr_left
      intro i hi
      rw [ofList_nat, cell_map_getD c _ _ i (List.mem_range.mp hi)]
    · show (IncrNet.yTopology c (List.range c.cells.length)).cellPos = _
      rw [py, hy]
      unfold posList
      congr 1
      apply List.map_congr_left
      intro i hi
      rw [ofList_nat, cell_map_getD c _ _ i (List.mem_range.mp hi)]

/-- the cells of the exported circuit -/
theorem export_cell (t : State) (c : Circuit) (i : Nat) :
    (exportPlacement t c).cell i =
      if i < c.cells.length then
        (if (c.cell i).fixed then c.cell i else { c.cell i with x := t.x i, y := t.y i, orient := t.orient i })
      else default := by
  unfold exportPlacement Circuit.cell
  simp only [List.getD_eq_getElem?_getD, List.getElem?_map, List.getElem?_zipIdx]
  by_cases hi : i < c.cells.length
  · simp [hi]
  · simp [hi]

theorem export_length (t : State) (c : Circuit) : (exportPlacement t c).cells.length = c.cells.length := by
  simp [exportPlacement]


/-! ### the topologies of the exported circuit -/

theorem cellIndexFrom_none (cell : Nat) : ∀ (cs : List Nat) (i : Nat) (best : Option Nat),
    IncrNet.cellIndexFrom cell cs i best = none → best = none ∧ cell ∉ cs
  | [], _, best, h => ⟨h, by simp⟩
  | k :: cs, i, best, h => by
    unfold IncrNet.cellIndexFrom at h
    obtain ⟨h1, h2⟩ := cellIndexFrom_none cell cs (i + 1) _ h
    by_cases hk : k = cell
    · simp [hk] at h1
    · simp only [hk, if_false] at h1
      exact ⟨h1, by simp [h2, Ne.symm hk]⟩

theorem cellIndex_range_none (n i : Nat) (h : IncrNet.cellIndex (List.range n) i = none) : n ≤ i := by
  have := (cellIndexFrom_none i (List.range n) 0 none h).2
  simpa using this

theorem filterMap_congr' {α β : Type} {f g : α → Option β} : ∀ (l : List α), (∀ a ∈ l, f a = g a) →
    l.filterMap f = l.filterMap g
  | [], _ => rfl
  | a :: l, h => by
    have ih := filterMap_congr' l (fun b hb => h b (List.mem_cons_of_mem _ hb))
    simp only [List.filterMap_cons, h a (List.mem_cons_self ..), ih]

theorem topology_netsEq (off : Cell → Pin → Int) (pos : Cell → Int) (c c' : Circuit) (cells : List Nat)
    (h : IncrNet.reducedNets off pos c' cells = IncrNet.reducedNets off pos c cells) :
    NetsEq (IncrNet.topology off pos c' cells) (IncrNet.topology off pos c cells) := by
  rw [IncrNet.topology_eq, IncrNet.topology_eq, h]; exact ⟨rfl, rfl, rfl⟩

theorem reducedNets_congr (off : Cell → Pin → Int) (pos : Cell → Int) (c c' : Circuit) (cells : List Nat)
    (hn : c'.nets = c.nets) (hoff : ∀ i p, off (c'.cell i) p = off (c.cell i) p)
    (hfix : ∀ i, IncrNet.cellIndex cells i = none → pos (c'.cell i) = pos (c.cell i)) :
    IncrNet.reducedNets off pos c' cells = IncrNet.reducedNets off pos c cells := by
  unfold IncrNet.reducedNets
  rw [hn]
  apply List.map_congr_left
  intro n _
  have e1 : IncrNet.selectedPins off c' cells n = IncrNet.selectedPins off c cells n := by
    unfold IncrNet.selectedPins
    apply filterMap_congr'
    intro p _
    rw [hoff]
  have e2 : IncrNet.fixedPositions off pos c' cells n = IncrNet.fixedPositions off pos c cells n := by
    unfold IncrNet.fixedPositions
    apply filterMap_congr'
    intro p _
    split
    · rfl
    · rename_i hnone
      rw [hfix _ hnone, hoff]
  unfold IncrNet.reducedNet
  rw [e1, e2]

theorem pinXOffset_congr (cl cl' : Cell) (p : Pin) (hw : cl'.w = cl.w) (hh : cl'.h = cl.h) (ho : cl'.orient = cl.orient) :
    Circuit.pinXOffset cl' p = Circuit.pinXOffset cl p := by
  simp only [Circuit.pinXOffset, Cell.placedWidth, hw, hh, ho]

theorem pinYOffset_congr (cl cl' : Cell) (p : Pin) (hw : cl'.w = cl.w) (hh : cl'.h = cl.h) (ho : cl'.orient = cl.orient) :
    Circuit.pinYOffset cl' p = Circuit.pinYOffset cl p := by
  simp only [Circuit.pinYOffset, Cell.placedHeight, hw, hh, ho]

theorem export_cell_size (t : State) (c : Circuit) (i : Nat) :
    ((exportPlacement t c).cell i).w = (c.cell i).w ∧ ((exportPlacement t c).cell i).h = (c.cell i).h := by
  rw [export_cell]
  by_cases hi : i < c.cells.length
  · simp only [hi, if_true]
    split <;> exact ⟨rfl, rfl⟩
  · have : c.cell i = default := by simp [Circuit.cell, List.getD_eq_getElem?_getD, hi]
    simp [hi, this]

theorem export_cell_out (t : State) (c : Circuit) (i : Nat) (hi : c.cells.length ≤ i) :
    (exportPlacement t c).cell i = c.cell i := by
  rw [export_cell]
  have h : ¬ i < c.cells.length := by omega
  have : c.cell i = default := by simp [Circuit.cell, List.getD_eq_getElem?_getD, h]
  simp [h, this]

/-- **value = HPWL.**  For any placement state `t` over the cells of `c` whose export has the
orientations of `c` (the ones the two models were built with) and whose fixed cells sit where `c` has
them, the optimiser's objective at `t`'s positions is `Circuit::hpwl()` of the exported circuit. -/
theorem circuitValue_eq_hpwl (c : Circuit) (t : State)
    (hor : ∀ i, ((exportPlacement t c).cell i).orient = (c.cell i).orient)
    (hfx : ∀ i : Nat, i < c.cells.length → (c.cell i).fixed = true → t.x i = (c.cell i).x ∧ t.y i = (c.cell i).y) :
    t.value (circuitValue c) = (exportPlacement t c).hpwl := by
  have hpos : ∀ i : Nat, i < c.cells.length → ((exportPlacement t c).cell i).x = t.x i ∧ ((exportPlacement t c).cell i).y = t.y i := by
    intro i hi
    rw [export_cell]
    simp only [hi, if_true]
    split
    · rename_i hf
      have := hfx i hi hf
      exact ⟨this.1.symm, this.2.symm⟩
    · exact ⟨rfl, rfl⟩
  rw [← C09.detailed_value_is_hpwl (exportPlacement t c) (List.range c.cells.length)]
  obtain ⟨-, -, gx, gy, px, py⟩ := C09.incr_init (exportPlacement t c) (List.range c.cells.length)
  unfold State.value circuitValue
  congr 1
  · rw [good_posValue gx, px]
    have hn : NetsEq (IncrNet.xTopology (exportPlacement t c) (List.range c.cells.length)) (IncrNet.xTopologyAll c) := by
      apply topology_netsEq
      refine reducedNets_congr _ _ c (exportPlacement t c) _ rfl ?_ ?_
      · intro i p
        exact pinXOffset_congr _ _ p (export_cell_size t c i).1 (export_cell_size t c i).2 (hor i)
      · intro i hi
        rw [export_cell_out t c i (cellIndex_range_none _ _ hi)]
    rw [posValue_congr hn]
    congr 1
    unfold posList
    congr 1
    apply List.map_congr_left
    intro i hi
    exact ((hpos i (List.mem_range.mp hi)).1).symm
  · rw [good_posValue gy, py]
    have hn : NetsEq (IncrNet.yTopology (exportPlacement t c) (List.range c.cells.length)) (IncrNet.yTopologyAll c) := by
      apply topology_netsEq
      refine reducedNets_congr _ _ c (exportPlacement t c) _ rfl ?_ ?_
      · intro i p
        exact pinYOffset_congr _ _ p (export_cell_size t c i).1 (export_cell_size t c i).2 (hor i)
      · intro i hi
        rw [export_cell_out t c i (cellIndex_range_none _ _ hi)]
    rw [posValue_congr hn]
    congr 1
    unfold posList
    congr 1
    apply List.map_congr_left
    intro i hi
    exact ((hpos i (List.mem_range.mp hi)).2).symm

end ColoVerif.DetPlace
