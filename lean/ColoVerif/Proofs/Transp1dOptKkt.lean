import ColoVerif.Proofs.Transp1dOptDefs
/-
Optimality conditions, in position space, for the positions of the sources on the
cumulative-demand axis (C14, slack case).

`tL sv k x` / `tR sv k x` are the (negated) left and the right derivative of the cost
`f_k(x) = ∫_{S k + x}^{S (k+1) + x} |u k - v(sink(t))| dt` of source `k` placed at position `x`:
  `-f_k'(x-) = c k (sink of its start) - c k (sink of its end)` with the sinks taken left of the
  points, `f_k'(x+)` the same with the sinks taken right of the points.
`Kkt sv q`: for every maximal run of touching sources (equal positions) the marginal cost of
pushing any prefix of the run to the left, and any suffix of the run to the right, is non-negative
(whenever there is room), and the first/last source of the run does not prefer an earlier/later
sink to the one its start/end lies in.
-/
namespace ColoVerif.Transp1d

/-- number of sink ends `D (t+1)`, `t < m`, strictly below `y` -/
def cntLt (D : List Int) (y : Int) : Nat → Nat
  | 0 => 0
  | t + 1 => cntLt D y t + (if D.getD (t + 1) 0 < y then 1 else 0)

/-- number of sink ends `D (t+1)`, `t < m`, at or below `y` -/
def cntLe (D : List Int) (y : Int) : Nat → Nat
  | 0 => 0
  | t + 1 => cntLe D y t + (if D.getD (t + 1) 0 ≤ y then 1 else 0)

/-- the sink `t` with `D t < y ≤ D (t+1)` (for `0 < y ≤ D m`) -/
def sigL (sv : Solver) (y : Int) : Nat := cntLt sv.D y sv.v.length
/-- the sink `t` with `D t ≤ y < D (t+1)` (for `0 ≤ y < D m`) -/
def sigR (sv : Solver) (y : Int) : Nat := cntLe sv.D y sv.v.length

/-- marginal cost of moving source `k`, placed at `x`, to the left -/
def tL (sv : Solver) (k : Nat) (x : Int) : Int :=
  cs sv k (sigL sv (sv.S.getD k 0 + x)) - cs sv k (sigL sv (sv.S.getD (k + 1) 0 + x))

/-- marginal cost of moving source `k`, placed at `x`, to the right -/
def tR (sv : Solver) (k : Nat) (x : Int) : Int :=
  cs sv k (sigR sv (sv.S.getD (k + 1) 0 + x)) - cs sv k (sigR sv (sv.S.getD k 0 + x))

/-- `Σ_{a ≤ k' ≤ k} f k'` -/
def sumIcc (f : Nat → Int) (a k : Nat) : Int := sumTo (k + 1) f - sumTo a f

structure Kkt (sv : Solver) (q : List Int) : Prop where
  /-- pushing a prefix `a..k` of a run (started by `a`, not at the left wall) to the left -/
  s1 : ∀ a k, a ≤ k → k < sv.u.length → (a = 0 ∨ q.getD (a - 1) 0 < q.getD a 0) →
    (∀ k', a ≤ k' → k' ≤ k → q.getD k' 0 = q.getD a 0) → 0 < q.getD a 0 →
    0 ≤ sumIcc (fun k' => tL sv k' (q.getD a 0)) a k
  /-- the first source of a run (not at the left wall) prefers the sink of its start to earlier sinks -/
  s2 : ∀ a, a < sv.u.length → (a = 0 ∨ q.getD (a - 1) 0 < q.getD a 0) → 0 < q.getD a 0 →
    ∀ t, t < sigL sv (sv.S.getD a 0 + q.getD a 0) →
      cs sv a (sigL sv (sv.S.getD a 0 + q.getD a 0)) ≤ cs sv a t
  /-- pushing a suffix `k..b` of a run (ended by `b`, with room on its right) to the right -/
  s3 : ∀ k b, k ≤ b → b < sv.u.length →
    (b + 1 = sv.u.length ∨ q.getD b 0 < q.getD (b + 1) 0) →
    (∀ k', k ≤ k' → k' ≤ b → q.getD k' 0 = q.getD b 0) →
    sv.S.getD (b + 1) 0 + q.getD b 0 < sv.D.getD sv.v.length 0 →
    0 ≤ sumIcc (fun k' => tR sv k' (q.getD b 0)) k b
  /-- the last source of a run (with room on its right) prefers the sink of its end to later sinks -/
  s4 : ∀ b, b < sv.u.length → (b + 1 = sv.u.length ∨ q.getD b 0 < q.getD (b + 1) 0) →
    sv.S.getD (b + 1) 0 + q.getD b 0 < sv.D.getD sv.v.length 0 →
    ∀ t, sigR sv (sv.S.getD (b + 1) 0 + q.getD b 0) < t → t < sv.v.length →
      cs sv b (sigR sv (sv.S.getD (b + 1) 0 + q.getD b 0)) ≤ cs sv b t

/-- what the optimality proof needs from the instance and the positions -/
structure PosDom (sv : Solver) (q : List Int) : Prop where
  si : SortedInst sv
  spos : ∀ w ∈ sv.s, 0 < w
  dpos : ∀ w ∈ sv.d, 0 < w
  len : q.length = sv.u.length
  mono : ∀ i, i + 1 < sv.u.length → q.getD i 0 ≤ q.getD (i + 1) 0
  nn : ∀ i, i < sv.u.length → 0 ≤ q.getD i 0
  le : ∀ i, i < sv.u.length → sv.S.getD (i + 1) 0 + q.getD i 0 ≤ sv.D.getD sv.v.length 0
  slack : sv.S.getD sv.u.length 0 < sv.D.getD sv.v.length 0

end ColoVerif.Transp1d
