import ColoVerif.Proofs.IspdTextBase
/-
C20, file level: the `.aux` file written by `exportIspdAux` selects the four data files again, and
`read_ispd` on the exported file system is `readText` on the exported texts.
-/
namespace ColoVerif.Ispd.Text
open ColoVerif ColoVerif.Ispd
open ColoVerif.Ispd.Text.Base

namespace Aux

theorem isPrefixOf_append_false (Q A B : Line) (h : (Q.take A.length).isPrefixOf A = false) :
    Q.isPrefixOf (A ++ B) = false := by
  induction A generalizing Q with
  | nil => simp at h
  | cons a A ih =>
    cases Q with
    | nil => simp at h
    | cons q Q =>
      simp only [List.length_cons, List.take_succ_cons, List.isPrefixOf_cons_cons, Bool.and_eq_false_iff] at h
      simp only [List.cons_append, List.isPrefixOf_cons_cons, Bool.and_eq_false_iff]
      rcases h with h | h
      · exact Or.inl h
      · exact Or.inr (ih Q h)

theorem endsWith_append_false (s : String) (pre K : Line)
    (h : (s.toList.reverse.take K.length).isPrefixOf K.reverse = false) : endsWith s (pre ++ K) = false := by
  unfold endsWith
  rw [List.reverse_append]
  exact isPrefixOf_append_false _ _ _ (by simpa using h)

theorem endsWith_append_true (s : String) (pre K : Line) (h : endsWith s K = true) :
    endsWith s (pre ++ K) = true := by
  unfold endsWith at *
  rw [List.reverse_append]
  have hp := List.isPrefixOf_iff_prefix.1 h
  exact List.isPrefixOf_iff_prefix.2 (hp.trans (List.prefix_append _ _))

theorem goodPrefix_spec {pre : Line} (h : goodPrefix pre = true) :
    pre ≠ [] ∧ Free isWs pre ∧ (startsWith "/" pre = true ∨ '/' ∉ pre) := by
  simp only [goodPrefix, Bool.and_eq_true, Bool.or_eq_true, Bool.not_eq_true', List.all_eq_true,
    List.isEmpty_eq_false_iff, List.contains_eq_mem, decide_eq_false_iff_not] at h
  exact ⟨h.1.1, h.1.2, h.2⟩

theorem split_auxLine (pre : Line) (hne : pre ≠ []) (hf : Free isWs pre) :
    split ("RowBasedPlacement : ".toList ++ (pre ++ (".nodes ".toList ++ (pre ++ (".nets ".toList ++
      (pre ++ (".pl ".toList ++ (pre ++ ".scl".toList)))))))) =
    ["RowBasedPlacement".toList, [':'], pre ++ ".nodes".toList, pre ++ ".nets".toList, pre ++ ".pl".toList,
      pre ++ ".scl".toList] := by
  have e0 : ∀ r, "RowBasedPlacement : ".toList ++ r = "RowBasedPlacement".toList ++ ' ' :: ([':'] ++ ' ' :: r) :=
    fun r => rfl
  have e1 : ∀ r, pre ++ (".nodes ".toList ++ r) = (pre ++ ".nodes".toList) ++ ' ' :: r :=
    fun r => by rw [List.append_assoc]; rfl
  have e2 : ∀ r, pre ++ (".nets ".toList ++ r) = (pre ++ ".nets".toList) ++ ' ' :: r :=
    fun r => by rw [List.append_assoc]; rfl
  have e3 : ∀ r, pre ++ (".pl ".toList ++ r) = (pre ++ ".pl".toList) ++ ' ' :: r :=
    fun r => by rw [List.append_assoc]; rfl
  have hw : isWs ' ' = true := by decide
  have ne : ∀ K : Line, pre ++ K ≠ [] := fun K => by simp [hne]
  rw [e0, e1, e2, e3]
  unfold split
  rw [splitBy_tok isWs (by decide) (by unfold Free; decide) hw,
    splitBy_tok isWs (by decide) (by unfold Free; decide) hw,
    splitBy_tok isWs (ne _) (free_append hf (by unfold Free; decide)) hw,
    splitBy_tok isWs (ne _) (free_append hf (by unfold Free; decide)) hw,
    splitBy_tok isWs (ne _) (free_append hf (by unfold Free; decide)) hw,
    splitBy_tok_end isWs (ne _) (free_append hf (by unfold Free; decide))]

theorem startsWith_slash_append {pre : Line} (h : startsWith "/" pre = true) (K : Line) :
    startsWith "/" (pre ++ K) = true := by
  cases pre with
  | nil => exact absurd h (by decide)
  | cons c r => rw [startsWith_append_of_le _ _ _ (by simp)]; exact h

theorem pathJoin_abs {b : Line} (h : startsWith "/" b = true) (a : Line) : pathJoin a b = b := by
  unfold pathJoin; rw [if_pos h]

theorem pathJoin_nil (b : Line) : pathJoin [] b = b := by
  unfold pathJoin; split <;> simp

theorem dropWhile_all (p : Char → Bool) (l : Line) (h : ∀ x ∈ l, p x = true) : l.dropWhile p = [] := by
  induction l with
  | nil => rfl
  | cons c cs ih =>
    rw [List.dropWhile_cons, if_pos (h c List.mem_cons_self)]
    exact ih (fun x hx => h x (List.mem_cons_of_mem _ hx))

theorem dirname_noslash {p : Line} (h : '/' ∉ p) : dirname p = [] := by
  have : p.reverse.dropWhile (· != '/') = [] := by
    apply dropWhile_all
    intro x hx
    have : x ≠ '/' := fun e => h (e ▸ List.mem_reverse.1 hx)
    simpa using this
  unfold dirname
  rw [this]
  rfl

theorem pathJoin_dirname {pre : Line} (hs : startsWith "/" pre = true ∨ '/' ∉ pre) (K K' : Line)
    (hK : '/' ∉ K) : pathJoin (dirname (pre ++ K)) (pre ++ K') = pre ++ K' := by
  rcases hs with hs | hs
  · exact pathJoin_abs (startsWith_slash_append hs K') _
  · rw [dirname_noslash (by simp [hs, hK]), pathJoin_nil]

end Aux
open Aux

/-- the `.aux` text names exactly the four files (for a good prefix) -/
theorem auxSelect_auxText (pre : Line) (h : goodPrefix pre = true) :
    auxSelect (pre ++ ".aux".toList) (auxText pre) =
      .ok (pre ++ ".nodes".toList, pre ++ ".nets".toList, pre ++ ".pl".toList, pre ++ ".scl".toList) := by
  obtain ⟨hne, hf, hs⟩ := goodPrefix_spec h
  have hK : '/' ∉ ".aux".toList := by decide
  have hpj := fun K' => pathJoin_dirname hs ".aux".toList K' hK
  have f1 : List.filter (endsWith ".nodes") ["RowBasedPlacement".toList, [':'], pre ++ ".nodes".toList,
      pre ++ ".nets".toList, pre ++ ".pl".toList, pre ++ ".scl".toList] = [pre ++ ".nodes".toList] := by
    simp only [List.filter_cons, List.filter_nil,
      show endsWith ".nodes" "RowBasedPlacement".toList = false by decide,
      show endsWith ".nodes" [':'] = false by decide,
      endsWith_append_true ".nodes" pre ".nodes".toList (by decide),
      endsWith_append_false ".nodes" pre ".nets".toList (by decide),
      endsWith_append_false ".nodes" pre ".pl".toList (by decide),
      endsWith_append_false ".nodes" pre ".scl".toList (by decide), if_true, Bool.false_eq_true, if_false]
  have f2 : List.filter (endsWith ".nets") ["RowBasedPlacement".toList, [':'], pre ++ ".nodes".toList,
      pre ++ ".nets".toList, pre ++ ".pl".toList, pre ++ ".scl".toList] = [pre ++ ".nets".toList] := by
    simp only [List.filter_cons, List.filter_nil,
      show endsWith ".nets" "RowBasedPlacement".toList = false by decide,
      show endsWith ".nets" [':'] = false by decide,
      endsWith_append_true ".nets" pre ".nets".toList (by decide),
      endsWith_append_false ".nets" pre ".nodes".toList (by decide),
      endsWith_append_false ".nets" pre ".pl".toList (by decide),
      endsWith_append_false ".nets" pre ".scl".toList (by decide), if_true, Bool.false_eq_true, if_false]
  have f3 : List.filter (endsWith ".pl") ["RowBasedPlacement".toList, [':'], pre ++ ".nodes".toList,
      pre ++ ".nets".toList, pre ++ ".pl".toList, pre ++ ".scl".toList] = [pre ++ ".pl".toList] := by
    simp only [List.filter_cons, List.filter_nil,
      show endsWith ".pl" "RowBasedPlacement".toList = false by decide,
      show endsWith ".pl" [':'] = false by decide,
      endsWith_append_true ".pl" pre ".pl".toList (by decide),
      endsWith_append_false ".pl" pre ".nodes".toList (by decide),
      endsWith_append_false ".pl" pre ".nets".toList (by decide),
      endsWith_append_false ".pl" pre ".scl".toList (by decide), if_true, Bool.false_eq_true, if_false]
  have f4 : List.filter (endsWith ".scl") ["RowBasedPlacement".toList, [':'], pre ++ ".nodes".toList,
      pre ++ ".nets".toList, pre ++ ".pl".toList, pre ++ ".scl".toList] = [pre ++ ".scl".toList] := by
    simp only [List.filter_cons, List.filter_nil,
      show endsWith ".scl" "RowBasedPlacement".toList = false by decide,
      show endsWith ".scl" [':'] = false by decide,
      endsWith_append_true ".scl" pre ".scl".toList (by decide),
      endsWith_append_false ".scl" pre ".nodes".toList (by decide),
      endsWith_append_false ".scl" pre ".nets".toList (by decide),
      endsWith_append_false ".scl" pre ".pl".toList (by decide), if_true, Bool.false_eq_true, if_false]
  unfold auxSelect auxText
  simp only [List.map_cons, List.map_nil, List.flatten_cons, List.flatten_nil, List.append_nil]
  rw [split_auxLine pre hne hf]
  simp only [f1, f2, f3, f4, exactlyOne, hpj]

namespace Aux

theorem openFile_exportFS (pre : Line) (c : Circuit) (K : Line) (t : List Line)
    (h1 : ((".gz".toList.reverse.take K.length).isPrefixOf K.reverse) = false)
    (h2 : ((".xz".toList.reverse.take K.length).isPrefixOf K.reverse) = false)
    (h3 : ((".lzma".toList.reverse.take K.length).isPrefixOf K.reverse) = false)
    (ht : exportFS pre c (pre ++ K) = some t) :
    openFile (exportFS pre c) (pre ++ K) = .ok t := by
  unfold openFile
  rw [endsWith_append_false _ _ _ h1, endsWith_append_false _ _ _ h2, endsWith_append_false _ _ _ h3, ht]
  rfl

theorem exportFS_aux (pre : Line) (c : Circuit) : exportFS pre c (pre ++ ".aux".toList) = some (auxText pre) := by
  unfold exportFS; rw [if_pos rfl]

theorem exportFS_nodes (pre : Line) (c : Circuit) : exportFS pre c (pre ++ ".nodes".toList) = some (nodesText c) := by
  unfold exportFS
  rw [if_neg (by rw [List.append_right_inj]; decide), if_pos rfl]

theorem exportFS_pl (pre : Line) (c : Circuit) : exportFS pre c (pre ++ ".pl".toList) = some (plText c) := by
  unfold exportFS
  rw [if_neg (by rw [List.append_right_inj]; decide), if_neg (by rw [List.append_right_inj]; decide), if_pos rfl]

theorem exportFS_nets (pre : Line) (c : Circuit) : exportFS pre c (pre ++ ".nets".toList) = some (netsText c) := by
  unfold exportFS
  rw [if_neg (by rw [List.append_right_inj]; decide), if_neg (by rw [List.append_right_inj]; decide),
    if_neg (by rw [List.append_right_inj]; decide), if_pos rfl]

theorem exportFS_scl (pre : Line) (c : Circuit) : exportFS pre c (pre ++ ".scl".toList) = some (sclText c) := by
  unfold exportFS
  rw [if_neg (by rw [List.append_right_inj]; decide), if_neg (by rw [List.append_right_inj]; decide),
    if_neg (by rw [List.append_right_inj]; decide), if_neg (by rw [List.append_right_inj]; decide), if_pos rfl]

theorem readIspd_of_auxPath (pre : Line) (c : Circuit) (h : goodPrefix pre = true) (kind : PathKind) (f : Line)
    (hk : auxPath kind f = .ok (pre ++ ".aux".toList)) :
    readIspd (exportFS pre c) kind f = readText (writeText c) := by
  unfold readIspd
  rw [hk, ok_bind, exportFS_aux]
  simp only [pure_eq_ok, ok_bind, auxSelect_auxText pre h]
  rw [openFile_exportFS pre c _ _ (by decide) (by decide) (by decide) (exportFS_nodes pre c),
    openFile_exportFS pre c _ _ (by decide) (by decide) (by decide) (exportFS_nets pre c),
    openFile_exportFS pre c _ _ (by decide) (by decide) (by decide) (exportFS_pl pre c),
    openFile_exportFS pre c _ _ (by decide) (by decide) (by decide) (exportFS_scl pre c)]
  rfl

end Aux

/-- `read_ispd("<pre>.aux")` on what `exportIspd("<pre>")` wrote -/
theorem readIspd_exportFS (pre : Line) (c : Circuit) (h : goodPrefix pre = true) :
    readIspd (exportFS pre c) .exists_ (pre ++ ".aux".toList) = readText (writeText c) :=
  readIspd_of_auxPath pre c h _ _ rfl

/-- `read_ispd("<pre>")` (no such file: `.aux` is appended) -/
theorem readIspd_exportFS_missing (pre : Line) (c : Circuit) (h : goodPrefix pre = true) :
    readIspd (exportFS pre c) .missing pre = readText (writeText c) :=
  readIspd_of_auxPath pre c h _ _ rfl

end ColoVerif.Ispd.Text
