import ColoVerif.Proofs.IspdTextBase
/-
C20, file level: the `.aux` file written by `exportIspdAux` selects the four data files again, and
`read_ispd` on the exported file system is `readText` on the exported texts.
-/
namespace ColoVerif.Ispd.Text
open ColoVerif ColoVerif.Ispd
open ColoVerif.Ispd.Text.Base

namespace Aux

theorem isPrefixOf_append_false (Q A B : Line) (h : (Q.take A.length).isPrefixOf A = false) :
    Q.isPrefixOf (A ++ B) = false := by
  induction A generalizing Q with
  | nil => simp at h
  | cons a A ih =>
    cases Q with
    | nil => simp at h
    | cons q Q =>
      simp only [List.length_cons, List.take_succ_cons, List.isPrefixOf_cons_cons, Bool.and_eq_false_iff] at h
      simp only [List.cons_append, List.isPrefixOf_cons_cons, Bool.and_eq_false_iff]
      rcases h with h | h
      · exact Or.inl h
      · exact Or.inr (ih Q h)

theorem endsWith_append_false (s : String) (pre K : Line)
    (h : (s.toList.reverse.take K.length).isPrefixOf K.reverse = false) : endsWith s (pre ++ K) = false := by
  unfold endsWith
  rw [List.reverse_append]
  exact isPrefixOf_append_false _ _ _ (by simpa using h)

theorem endsWith_append_true (s : String) (pre K : Line) (h : endsWith s K = true) :
    endsWith s (pre ++ K) = true := by
  unfold endsWith at *
  rw [List.reverse_append]
  have hp := List.isPrefixOf_iff_prefix.1 h
  exact List.isPrefixOf_iff_prefix.2 (hp.trans (List.prefix_append _ _))

theorem goodPrefix_spec {pre : Line} (h : goodPrefix pre = true) :
    Free isWs (basename pre) ∧ goodDir (pre.reverse.dropWhile (· != '/')) = true := by
  simp only [goodPrefix, Bool.and_eq_true, List.all_eq_true, Bool.not_eq_true'] at h
  exact ⟨h.1, h.2⟩

theorem split_auxLine (pre : Line) (hf : Free isWs pre) :
    split ("RowBasedPlacement : ".toList ++ (pre ++ (".nodes ".toList ++ (pre ++ (".nets ".toList ++
      (pre ++ (".pl ".toList ++ (pre ++ ".scl".toList)))))))) =
    ["RowBasedPlacement".toList, [':'], pre ++ ".nodes".toList, pre ++ ".nets".toList, pre ++ ".pl".toList,
      pre ++ ".scl".toList] := by
  have e0 : ∀ r, "RowBasedPlacement : ".toList ++ r = "RowBasedPlacement".toList ++ ' ' :: ([':'] ++ ' ' :: r) :=
    fun r => rfl
  have e1 : ∀ r, pre ++ (".nodes ".toList ++ r) = (pre ++ ".nodes".toList) ++ ' ' :: r :=
    fun r => by rw [List.append_assoc]; rfl
  have e2 : ∀ r, pre ++ (".nets ".toList ++ r) = (pre ++ ".nets".toList) ++ ' ' :: r :=
    fun r => by rw [List.append_assoc]; rfl
  have e3 : ∀ r, pre ++ (".pl ".toList ++ r) = (pre ++ ".pl".toList) ++ ' ' :: r :=
    fun r => by rw [List.append_assoc]; rfl
  have hw : isWs ' ' = true := by decide
  have ne : ∀ K : Line, K ≠ [] → pre ++ K ≠ [] := fun K hK => by simp [hK]
  rw [e0, e1, e2, e3]
  unfold split
  rw [splitBy_tok isWs (by decide) (by unfold Free; decide) hw,
    splitBy_tok isWs (by decide) (by unfold Free; decide) hw,
    splitBy_tok isWs (ne _ (by decide)) (free_append hf (by unfold Free; decide)) hw,
    splitBy_tok isWs (ne _ (by decide)) (free_append hf (by unfold Free; decide)) hw,
    splitBy_tok isWs (ne _ (by decide)) (free_append hf (by unfold Free; decide)) hw,
    splitBy_tok_end isWs (ne _ (by decide)) (free_append hf (by unfold Free; decide))]

theorem startsWith_slash_append {pre : Line} (h : startsWith "/" pre = true) (K : Line) :
    startsWith "/" (pre ++ K) = true := by
  cases pre with
  | nil => exact absurd h (by decide)
  | cons c r => rw [startsWith_append_of_le _ _ _ (by simp)]; exact h

theorem pathJoin_abs {b : Line} (h : startsWith "/" b = true) (a : Line) : pathJoin a b = b := by
  unfold pathJoin; rw [if_pos h]

theorem pathJoin_nil (b : Line) : pathJoin [] b = b := by
  unfold pathJoin; split <;> simp

theorem dropWhile_all (p : Char → Bool) (l : Line) (h : ∀ x ∈ l, p x = true) : l.dropWhile p = [] := by
  induction l with
  | nil => rfl
  | cons c cs ih =>
    rw [List.dropWhile_cons, if_pos (h c List.mem_cons_self)]
    exact ih (fun x hx => h x (List.mem_cons_of_mem _ hx))

theorem dirname_noslash {p : Line} (h : '/' ∉ p) : dirname p = [] := by
  have : p.reverse.dropWhile (· != '/') = [] := by
    apply dropWhile_all
    intro x hx
    have : x ≠ '/' := fun e => h (e ▸ List.mem_reverse.1 hx)
    simpa using this
  unfold dirname
  rw [this]
  rfl

theorem dropWhile_head (p : Char → Bool) : ∀ (l : Line) (x : Char) (r : Line), l.dropWhile p = x :: r → p x = false := by
  intro l
  induction l with
  | nil => intro x r h; simp at h
  | cons c cs ih =>
    intro x r h
    rw [List.dropWhile_cons] at h
    split at h
    · exact ih x r h
    · rename_i hc
      simp only [List.cons.injEq] at h
      rw [← h.1]; simpa using hc

theorem mem_takeWhile (p : Char → Bool) : ∀ (l : Line) (x : Char), x ∈ l.takeWhile p → p x = true := by
  intro l
  induction l with
  | nil => intro x h; simp at h
  | cons c cs ih =>
    intro x h
    rw [List.takeWhile_cons] at h
    split at h
    · rename_i hc
      rcases List.mem_cons.1 h with e | e
      · rw [e]; exact hc
      · exact ih x e
    · simp at h

theorem basename_noslash (p : Line) : '/' ∉ basename p := by
  unfold basename
  intro h
  have := mem_takeWhile _ _ _ (List.mem_reverse.1 h)
  simp at this

theorem slash_prefix_false (c : Char) (r : Line) (hc : c ≠ '/') : ['/'].isPrefixOf (c :: r) = false := by
  rw [List.isPrefixOf_cons_cons]
  have : ('/' == c) = false := beq_eq_false_iff_ne.2 (Ne.symm hc)
  rw [this]; rfl

/-- the directory part (up to the last `/`) followed by the base name is the path -/
theorem dir_append_base (p : Line) : (p.reverse.dropWhile (· != '/')).reverse ++ basename p = p := by
  unfold basename
  rw [← List.reverse_append, List.takeWhile_append_dropWhile, List.reverse_reverse]

theorem dropWhile_append_noslash (p K : Line) (hK : '/' ∉ K) :
    (p ++ K).reverse.dropWhile (· != '/') = p.reverse.dropWhile (· != '/') := by
  rw [List.reverse_append, List.dropWhile_append]
  have : K.reverse.dropWhile (· != '/') = [] := by
    apply dropWhile_all
    intro x hx
    have : x ≠ '/' := fun e => hK (e ▸ List.mem_reverse.1 hx)
    simpa using this
  simp [this]

theorem startsWith_slash_false (b : Line) (h : '/' ∉ b) : startsWith "/" b = false := by
  cases b with
  | nil => rfl
  | cons c r =>
    have hc : c ≠ '/' := fun e => h (e ▸ List.mem_cons_self)
    exact slash_prefix_false c r hc

/-- `os.path.join(os.path.dirname(<pre>.aux), <base><K'>)` is `<pre><K'>` -/
theorem pathJoin_dirname {pre : Line} (hg : goodDir (pre.reverse.dropWhile (· != '/')) = true) (K K' : Line)
    (hK : '/' ∉ K) (hK' : '/' ∉ K') : pathJoin (dirname (pre ++ K)) (basename pre ++ K') = pre ++ K' := by
  have hb : startsWith "/" (basename pre ++ K') = false :=
    startsWith_slash_false _ (by simp [basename_noslash pre, hK'])
  have hpre : pre ++ K' = (pre.reverse.dropWhile (· != '/')).reverse ++ (basename pre ++ K') := by
    rw [← List.append_assoc, dir_append_base]
  unfold dirname pathJoin
  simp only [dropWhile_append_noslash pre K hK, hb, Bool.false_eq_true, if_false]
  rw [hpre]
  generalize hR : pre.reverse.dropWhile (· != '/') = R at hg
  match R, hg, hR with
  | [], _, _ => simp
  | [x], _, hR =>
    have hx : x = '/' := by simpa using dropWhile_head _ _ _ _ hR
    subst hx
    simp [endsWith]
  | x :: c :: r, hg, hR =>
    have hx : x = '/' := by simpa using dropWhile_head _ _ _ _ hR
    subst hx
    have hc : c ≠ '/' := by simpa [goodDir] using hg
    have h1 : (('/' :: c :: r).reverse.all (· == '/')) = false := by
      simp only [List.all_reverse, List.all_cons, Bool.and_eq_false_iff]
      exact Or.inr (Or.inl (by simpa using hc))
    have h2 : dropTrailingSlashes ('/' :: c :: r).reverse = (c :: r).reverse := by
      unfold dropTrailingSlashes
      rw [List.reverse_reverse, List.dropWhile_cons, if_pos (by decide), List.dropWhile_cons, if_neg (by simpa using hc)]
    have h3 : endsWith "/" (c :: r).reverse = false := by
      unfold endsWith
      rw [List.reverse_reverse]
      exact slash_prefix_false c r hc
    simp only [h1, Bool.false_eq_true, if_false, h2, h3, Bool.or_false]
    simp

end Aux
open Aux

/-- the `.aux` text names exactly the four files (for a good prefix) -/
theorem auxSelect_auxText (pre : Line) (h : goodPrefix pre = true) :
    auxSelect (pre ++ ".aux".toList) (auxText pre) =
      .ok (pre ++ ".nodes".toList, pre ++ ".nets".toList, pre ++ ".pl".toList, pre ++ ".scl".toList) := by
  obtain ⟨hf, hs⟩ := goodPrefix_spec h
  have hK : '/' ∉ ".aux".toList := by decide
  have hp1 := pathJoin_dirname hs ".aux".toList ".nodes".toList hK (by decide)
  have hp2 := pathJoin_dirname hs ".aux".toList ".nets".toList hK (by decide)
  have hp3 := pathJoin_dirname hs ".aux".toList ".pl".toList hK (by decide)
  have hp4 := pathJoin_dirname hs ".aux".toList ".scl".toList hK (by decide)
  generalize hbase : basename pre = base at hf hp1 hp2 hp3 hp4
  have f1 : List.filter (endsWith ".nodes") ["RowBasedPlacement".toList, [':'], base ++ ".nodes".toList,
      base ++ ".nets".toList, base ++ ".pl".toList, base ++ ".scl".toList] = [base ++ ".nodes".toList] := by
    simp only [List.filter_cons, List.filter_nil,
      show endsWith ".nodes" "RowBasedPlacement".toList = false by decide,
      show endsWith ".nodes" [':'] = false by decide,
      endsWith_append_true ".nodes" base ".nodes".toList (by decide),
      endsWith_append_false ".nodes" base ".nets".toList (by decide),
      endsWith_append_false ".nodes" base ".pl".toList (by decide),
      endsWith_append_false ".nodes" base ".scl".toList (by decide), if_true, Bool.false_eq_true, if_false]
  have f2 : List.filter (endsWith ".nets") ["RowBasedPlacement".toList, [':'], base ++ ".nodes".toList,
      base ++ ".nets".toList, base ++ ".pl".toList, base ++ ".scl".toList] = [base ++ ".nets".toList] := by
    simp only [List.filter_cons, List.filter_nil,
      show endsWith ".nets" "RowBasedPlacement".toList = false by decide,
      show endsWith ".nets" [':'] = false by decide,
      endsWith_append_true ".nets" base ".nets".toList (by decide),
      endsWith_append_false ".nets" base ".nodes".toList (by decide),
      endsWith_append_false ".nets" base ".pl".toList (by decide),
      endsWith_append_false ".nets" base ".scl".toList (by decide), if_true, Bool.false_eq_true, if_false]
  have f3 : List.filter (endsWith ".pl") ["RowBasedPlacement".toList, [':'], base ++ ".nodes".toList,
      base ++ ".nets".toList, base ++ ".pl".toList, base ++ ".scl".toList] = [base ++ ".pl".toList] := by
    simp only [List.filter_cons, List.filter_nil,
      show endsWith ".pl" "RowBasedPlacement".toList = false by decide,
      show endsWith ".pl" [':'] = false by decide,
      endsWith_append_true ".pl" base ".pl".toList (by decide),
      endsWith_append_false ".pl" base ".nodes".toList (by decide),
      endsWith_append_false ".pl" base ".nets".toList (by decide),
      endsWith_append_false ".pl" base ".scl".toList (by decide), if_true, Bool.false_eq_true, if_false]
  have f4 : List.filter (endsWith ".scl") ["RowBasedPlacement".toList, [':'], base ++ ".nodes".toList,
      base ++ ".nets".toList, base ++ ".pl".toList, base ++ ".scl".toList] = [base ++ ".scl".toList] := by
    simp only [List.filter_cons, List.filter_nil,
      show endsWith ".scl" "RowBasedPlacement".toList = false by decide,
      show endsWith ".scl" [':'] = false by decide,
      endsWith_append_true ".scl" base ".scl".toList (by decide),
      endsWith_append_false ".scl" base ".nodes".toList (by decide),
      endsWith_append_false ".scl" base ".nets".toList (by decide),
      endsWith_append_false ".scl" base ".pl".toList (by decide), if_true, Bool.false_eq_true, if_false]
  unfold auxSelect auxText
  simp only [List.map_cons, List.map_nil, List.flatten_cons, List.flatten_nil, List.append_nil]
  rw [hbase, split_auxLine base hf]
  simp only [f1, f2, f3, f4, exactlyOne, hp1, hp2, hp3, hp4]

namespace Aux

theorem openFile_exportFS (pre : Line) (c : Circuit) (K : Line) (t : List Line)
    (h1 : ((".gz".toList.reverse.take K.length).isPrefixOf K.reverse) = false)
    (h2 : ((".xz".toList.reverse.take K.length).isPrefixOf K.reverse) = false)
    (h3 : ((".lzma".toList.reverse.take K.length).isPrefixOf K.reverse) = false)
    (ht : exportFS pre c (pre ++ K) = some t) :
    openFile (exportFS pre c) (pre ++ K) = .ok t := by
  unfold openFile
  rw [endsWith_append_false _ _ _ h1, endsWith_append_false _ _ _ h2, endsWith_append_false _ _ _ h3, ht]
  rfl

theorem exportFS_aux (pre : Line) (c : Circuit) : exportFS pre c (pre ++ ".aux".toList) = some (auxText pre) := by
  unfold exportFS; rw [if_pos rfl]

theorem exportFS_nodes (pre : Line) (c : Circuit) : exportFS pre c (pre ++ ".nodes".toList) = some (nodesText c) := by
  unfold exportFS
  rw [if_neg (by rw [List.append_right_inj]; decide), if_pos rfl]

theorem exportFS_pl (pre : Line) (c : Circuit) : exportFS pre c (pre ++ ".pl".toList) = some (plText c) := by
  unfold exportFS
  rw [if_neg (by rw [List.append_right_inj]; decide), if_neg (by rw [List.append_right_inj]; decide), if_pos rfl]

theorem exportFS_nets (pre : Line) (c : Circuit) : exportFS pre c (pre ++ ".nets".toList) = some (netsText c) := by
  unfold exportFS
  rw [if_neg (by rw [List.append_right_inj]; decide), if_neg (by rw [List.append_right_inj]; decide),
    if_neg (by rw [List.append_right_inj]; decide), if_pos rfl]

theorem exportFS_scl (pre : Line) (c : Circuit) : exportFS pre c (pre ++ ".scl".toList) = some (sclText c) := by
  unfold exportFS
  rw [if_neg (by rw [List.append_right_inj]; decide), if_neg (by rw [List.append_right_inj]; decide),
    if_neg (by rw [List.append_right_inj]; decide), if_neg (by rw [List.append_right_inj]; decide), if_pos rfl]

theorem readIspd_of_auxPath (pre : Line) (c : Circuit) (h : goodPrefix pre = true) (kind : PathKind) (f : Line)
    (hk : auxPath kind f = .ok (pre ++ ".aux".toList)) :
    readIspd (exportFS pre c) kind f = readText (writeText c) := by
  unfold readIspd
  rw [hk, ok_bind, exportFS_aux]
  simp only [pure_eq_ok, ok_bind, auxSelect_auxText pre h]
  rw [openFile_exportFS pre c _ _ (by decide) (by decide) (by decide) (exportFS_nodes pre c),
    openFile_exportFS pre c _ _ (by decide) (by decide) (by decide) (exportFS_nets pre c),
    openFile_exportFS pre c _ _ (by decide) (by decide) (by decide) (exportFS_pl pre c),
    openFile_exportFS pre c _ _ (by decide) (by decide) (by decide) (exportFS_scl pre c)]
  rfl

end Aux

/-- `read_ispd("<pre>.aux")` on what `exportIspd("<pre>")` wrote -/
theorem readIspd_exportFS (pre : Line) (c : Circuit) (h : goodPrefix pre = true) :
    readIspd (exportFS pre c) .exists_ (pre ++ ".aux".toList) = readText (writeText c) :=
  readIspd_of_auxPath pre c h _ _ rfl

/-- `read_ispd("<pre>")` (no such file: `.aux` is appended) -/
theorem readIspd_exportFS_missing (pre : Line) (c : Circuit) (h : goodPrefix pre = true) :
    readIspd (exportFS pre c) .missing pre = readText (writeText c) :=
  readIspd_of_auxPath pre c h _ _ rfl

end ColoVerif.Ispd.Text
