import ColoVerif.Proofs.IspdTextBase
/-
C20, file level: the `.aux` file written by `exportIspdAux` selects the four data files again, and
`read_ispd` on the exported file system is `readText` on the exported texts.
-/
namespace ColoVerif.Ispd.Text
open ColoVerif ColoVerif.Ispd

/-- the `.aux` text names exactly the four files (for a good prefix) -/
theorem auxSelect_auxText (pre : Line) (h : goodPrefix pre = true) :
    auxSelect (pre ++ ".aux".toList) (auxText pre) =
      .ok (pre ++ ".nodes".toList, pre ++ ".nets".toList, pre ++ ".pl".toList, pre ++ ".scl".toList) := by
  sorry

/-- `read_ispd("<pre>.aux")` on what `exportIspd("<pre>")` wrote -/
theorem readIspd_exportFS (pre : Line) (c : Circuit) (h : goodPrefix pre = true) :
    readIspd (exportFS pre c) .exists_ (pre ++ ".aux".toList) = readText (writeText c) := by
  sorry

/-- `read_ispd("<pre>")` (no such file: `.aux` is appended) -/
theorem readIspd_exportFS_missing (pre : Line) (c : Circuit) (h : goodPrefix pre = true) :
    readIspd (exportFS pre c) .missing pre = readText (writeText c) := by
  sorry

end ColoVerif.Ispd.Text
