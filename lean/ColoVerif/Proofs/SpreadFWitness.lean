import ColoVerif.Model.LegacySpreadF
import ColoVerif.Proofs.SpreadF
/-
C06 — kernel-evaluated witnesses for the PRE-FIX binary32 `LegacySpreadF.spreadCellsF` (targets already in
increasing order, so `std::sort` leaves the order unchanged: `List.mergeSort_of_pairwise`), and the same inputs
through the current (clamped) `SpreadF.spreadCellsF`.
-/
namespace ColoVerif.LegacySpreadF
open ColoVerif.Spread

theorem sortedOrder_of_sorted (targets : List Rat)
    (h : (indexed targets 0).Pairwise (fun a b => pairLe a b = true)) :
    sortedOrder targets = indexed targets 0 := by
  unfold sortedOrder
  exact List.mergeSort_of_pairwise h

/-- upper side, 3 cells: demands 2, 8222228, 1 in the bin [0, 2]: the last cell gets 2 + 2^-22 -/
theorem witness_up : (spreadCellsF [0, 1, 2] [2, 8222228, 1] 0 2).getD 2 0 = 8388609 / 4194304 := by
  unfold spreadCellsF
  rw [sortedOrder_of_sorted _ (by decide +kernel)]
  decide +kernel

/-- lower side, 2 cells: demands 4, 2858381 in the bin [3946, 3970]: the first cell gets 3946 − 2^-12 -/
theorem witness_low : (spreadCellsF [0, 1] [4, 2858381] 3946 3970).getD 0 0 = 16162815 / 4096 := by
  unfold spreadCellsF
  rw [sortedOrder_of_sorted _ (by decide +kernel)]
  decide +kernel

/-- the drift family, 10 cells in the bin [0, 4000000]: the running share ends at 1 + 3·2^-22 and the last
cell gets 4000002.5 -/
theorem witness_drift :
    (spreadCellsF [0, 1, 2, 3, 4, 5, 6, 7, 8, 9] [16776988, 1, 1, 1, 1, 1, 1, 2, 2, 2] 0 4000000).getD 9 0 = 8000005 / 2 ∧
    finalShareF [0, 1, 2, 3, 4, 5, 6, 7, 8, 9] [16776988, 1, 1, 1, 1, 1, 1, 2, 2, 2] 0 4000000 = 4194307 / 4194304 := by
  unfold spreadCellsF finalShareF
  rw [sortedOrder_of_sorted _ (by decide +kernel)]
  decide +kernel

/-- the current function on the drift witness: the last cell is placed on the bin edge -/
theorem witness_drift_fixed :
    (ColoVerif.SpreadF.spreadCellsF [0, 1, 2, 3, 4, 5, 6, 7, 8, 9] [16776988, 1, 1, 1, 1, 1, 1, 2, 2, 2] 0 4000000).getD 9 0
      = 4000000 := by
  unfold ColoVerif.SpreadF.spreadCellsF
  rw [sortedOrder_of_sorted _ (by decide +kernel)]
  decide +kernel

end ColoVerif.LegacySpreadF
