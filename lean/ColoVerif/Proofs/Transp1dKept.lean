import ColoVerif.Proofs.Transp1dValid
/-
A source that the plan returned by `solve` does not split is assigned, by `assign`, the sink the
plan sends it to: "single plan entry ⇒ interval containment" (cell sums of the merge) +
`computeAssignment_unsplit` + the sorter's index maps (`convertSolutionBack`,
`convertAssignmentBack`).
-/
namespace ColoVerif.Transp1d

theorem rowSum_eq_cellSum (plan : Plan) (k l : Nat) (h : ∀ e ∈ plan, e.1 = k → e.2.1 = l) :
    rowSum plan k = cellSum plan k l := by
  induction plan with
  | nil => rfl
  | cons e es ih =>
    obtain ⟨i, j, a⟩ := e
    have h1 := h (i, j, a) (List.mem_cons_self ..)
    have ih' := ih (fun e he => h e (List.mem_cons_of_mem _ he))
    simp only [rowSum, cellSum, ih']
    by_cases hk : i = k
    · have : j = l := h1 hk
      simp [hk, this]
    · simp [hk]

theorem getD_set_eq (l : List Nat) (i v : Nat) (h : i < l.length) : (l.set i v).getD i 0 = v := by
  simp [List.getD_eq_getElem?_getD, h]

theorem getD_set_ne (l : List Nat) (i k v : Nat) (h : i ≠ k) : (l.set i v).getD k 0 = l.getD k 0 := by
  simp [List.getD_eq_getElem?_getD, h]

theorem backLoop_get (so : Sorter) (hnd : so.srcOrder.Nodup) (as : List Nat) (i : Nat)
    (ret r : List Nat) (n : Nat) (hi : i + as.length ≤ so.srcOrder.length)
    (ha : ∀ k ∈ as, k < so.snkOrder.length) (hsrc : ∀ k ∈ so.srcOrder, k < n) (hr : ret.length = n)
    (e : backLoop so as i ret = .ok r) :
    (∀ t, t < as.length →
      r.getD (so.srcOrder.getD (i + t) 0) 0 = so.snkOrder.getD (as.getD t 0) 0) ∧
    (∀ k, (∀ t, t < as.length → so.srcOrder.getD (i + t) 0 ≠ k) → r.getD k 0 = ret.getD k 0) := by
  induction as generalizing i ret with
  | nil =>
    have : ret = r := Except.ok.inj e
    subst this
    exact ⟨fun t ht => by simp at ht, fun k _ => rfl⟩
  | cons ai as ih =>
    have hi1 : i < so.srcOrder.length := by simp at hi; omega
    have hai : ai < so.snkOrder.length := ha ai (List.mem_cons_self ..)
    have hk : so.srcOrder.getD i 0 < ret.length := by
      rw [hr]; exact hsrc _ (getD_mem_of_ltN _ _ hi1)
    unfold backLoop at e
    simp only [get_okN so.srcOrder i hi1, get_okN so.snkOrder ai hai, setAt, hk, if_true,
      bind, Except.bind, pure, Except.pure] at e
    obtain ⟨A, B⟩ := ih (i + 1) (ret.set (so.srcOrder.getD i 0) (so.snkOrder.getD ai 0))
      (by simp at hi ⊢; omega) (fun k hk => ha k (List.mem_cons_of_mem _ hk)) (by simp [hr]) e
    constructor
    · intro t ht
      cases t with
      | zero =>
        simp only [Nat.add_zero, List.getD_cons_zero]
        rw [B (so.srcOrder.getD i 0) (fun t ht' heq => by
          have := nodup_getD_inj _ hnd (i + 1 + t) i (by simp at hi; omega) hi1 heq
          omega)]
        exact getD_set_eq ret _ _ hk
      | succ t =>
        simp only [List.getD_cons_succ]
        have := A t (by simpa using ht)
        rw [show i + (t + 1) = i + 1 + t by omega]
        exact this
    · intro k hk'
      rw [B k (fun t ht => by
        have := hk' (t + 1) (by simp; omega)
        rw [show i + (t + 1) = i + 1 + t by omega] at this
        exact this)]
      exact getD_set_ne ret _ k _ (by have := hk' 0 (by simp); simpa using this)

/-- the unsplit clause of C14, in its strong form: the source is assigned exactly the plan's sink -/
theorem solve_assign_unsplit (pb : Problem) (hv : checkOk pb = true) (plan' : Plan) (a : List Nat)
    (hsol : solve pb = .ok plan') (hasg : assign pb = .ok a) (i j : Nat) (hi : i < pb.u.length)
    (hpos : 0 < pb.s.getD i 0) (hsingle : ∀ e ∈ plan', e.1 = i → e.2.1 = j) :
    a.getD i 0 = j := by
  obtain ⟨hs, hd, hsn, hdn, hle⟩ := (checkOk_iff pb).mp hv
  obtain ⟨p, plan, erun, hp, ecs, post, es⟩ := solve_eq pb hv
  have wf := sortedSolver_wf pb
  have hm := sortedSolver_sinks pb hv
  have hsrcLen : (ord pb.u pb.s).length = (sortedSolver pb).u.length := by simp [sortedSolver, mkSolver]
  have hsnkLen : (ord pb.v pb.d).length = (sortedSolver pb).v.length := by simp [sortedSolver, mkSolver]
  have es_s : (sortedSolver pb).s = (ord pb.u pb.s).map fun i => pb.s.getD i 0 := rfl
  have hplan' : plan' = plan.map (ren (fun i => (ord pb.u pb.s).getD i 0)
      (fun j => (ord pb.v pb.d).getD j 0)) := by
    rw [hsol] at es; exact Except.ok.inj es
  -- the sorted index of source `i`
  obtain ⟨a0, ha0, ea0⟩ := mem_getD _ i ((mem_ord pb.u pb.s i).mpr ⟨hi, hpos⟩)
  have ha0' : a0 < (sortedSolver pb).u.length := by omega
  have hrow : rowSum plan a0 = pb.s.getD i 0 := by
    rw [post.row a0 ha0', es_s, getD_map_int _ _ a0 ha0, ea0]
  -- some entry ships from `a0`
  have hex : ∃ e0 ∈ plan, e0.1 = a0 := by
    apply Classical.byContradiction
    intro hno
    have := rowSum_zero plan a0 (fun e he heq => hno ⟨e, he, heq⟩)
    omega
  obtain ⟨e0, he0, he0a⟩ := hex
  have hj0 : (ord pb.v pb.d).getD e0.2.1 0 = j := by
    have hmem : ren (fun i => (ord pb.u pb.s).getD i 0) (fun j => (ord pb.v pb.d).getD j 0) e0 ∈ plan' := by
      rw [hplan']; exact List.mem_map.mpr ⟨e0, he0, rfl⟩
    have := hsingle _ hmem (by simp only [ren, he0a, ea0])
    simpa [ren] using this
  have hj0lt : e0.2.1 < (sortedSolver pb).v.length := (post.ent e0 he0).2.1
  have hall : ∀ e ∈ plan, e.1 = a0 → e.2.1 = e0.2.1 := by
    intro e he hea
    have hmem : ren (fun i => (ord pb.u pb.s).getD i 0) (fun j => (ord pb.v pb.d).getD j 0) e ∈ plan' := by
      rw [hplan']; exact List.mem_map.mpr ⟨e, he, rfl⟩
    have h1 := hsingle _ hmem (by simp only [ren, hea, ea0])
    have h2 : (ord pb.v pb.d).getD e.2.1 0 = (ord pb.v pb.d).getD e0.2.1 0 := by
      rw [hj0]; simpa [ren] using h1
    exact nodup_getD_inj _ (ord_nodup pb.v pb.d) _ _ (by have := (post.ent e he).2.1; omega)
      (by omega) h2
  -- containment of the source's interval in the sink's interval
  have hcell := post.cell a0 e0.2.1 ha0' hj0lt
  rw [← rowSum_eq_cellSum plan a0 e0.2.1 hall, hrow] at hcell
  have ha0s : a0 < (sortedSolver pb).s.length := by rw [wf.hs]; exact ha0'
  have hS1 : (sortedSolver pb).S.getD (a0 + 1) 0
      = (sortedSolver pb).S.getD a0 0 + (sortedSolver pb).s.getD a0 0 :=
    prefixFrom_succ 0 _ a0 ha0s
  have hsa0 : (sortedSolver pb).s.getD a0 0 = pb.s.getD i 0 := by
    rw [es_s, getD_map_int _ _ a0 ha0, ea0]
  unfold ov lo Transp1d.hi at hcell
  -- the assignment of the sorted instance
  obtain ⟨asg, easg, l1, l2⟩ := computeAssignment_ok (sortedSolver pb) wf (sortedSolver_spos pb) rfl p hp hm
  have hasg0 : asg.getD a0 0 = e0.2.1 :=
    computeAssignment_unsplit pb hv p asg erun easg a0 e0.2.1 ha0' hj0lt (by omega) (by omega)
  -- mapping back
  unfold assign at hasg
  simp only [check, hv, if_true, mkSorter_ok pb hs hd, convert_ok pb hs hd, erun, easg, bind,
    Except.bind, pure, Except.pure] at hasg
  unfold convertAssignmentBack at hasg
  obtain ⟨A, _⟩ := backLoop_get ⟨ord pb.u pb.s, ord pb.v pb.d⟩ (ord_nodup pb.u pb.s) asg 0 _ a
    pb.u.length (by simp [l1, hsrcLen]) (fun k hk => by simp only [hsnkLen]; exact l2 k hk)
    (fun k hk => ((mem_ord _ _ k).mp hk).1) (by simp [Problem.nbSources]) hasg
  have := A a0 (by omega)
  simp only [Nat.zero_add, ea0, hasg0, hj0] at this
  exact this

end ColoVerif.Transp1d
