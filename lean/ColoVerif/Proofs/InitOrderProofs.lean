import ColoVerif.Model.InitOrder
/-
Soundness of the definite-initialisation walk of `Model/InitOrder.lean` with respect to a trace semantics of the
events: if the walk over an event list ends without an early read and without getting stuck, then in EVERY
execution of the list (any choice at every `alt`, any number of - possibly interrupted - runs of every `opaque`
block, calls expanded) every read of a member is preceded by a write of that member.
-/
namespace ColoVerif.InitOrder

/-- what an execution does to the members of the object -/
inductive Act where
  | r (m : Nat)
  | w (m : Nat)
deriving Repr, DecidableEq

/-- how the execution of a block ends: at its end, by `return`, or by throw / break / continue -/
inductive Out where
  | norm | retd | stopd
deriving Repr, DecidableEq

/-- `Exec fns evs t o`: the block `evs` can perform the trace `t` and end in the way `o`.
`opaque` blocks run zero or more times; a run that ends by `stop` (break / continue / a caught throw) or normally
may be followed by another run or by the rest of the enclosing block (this over-approximates loops, and a throw
that really propagates further produces a prefix of one of these traces). -/
inductive Exec (fns : List Fn) : List Ev → List Act → Out → Prop where
  | nil : Exec fns [] [] .norm
  | read {m rest t o} : Exec fns rest t o → Exec fns (.read m :: rest) (.r m :: t) o
  | write {m rest t o} : Exec fns rest t o → Exec fns (.write m :: rest) (.w m :: t) o
  | ret {rest} : Exec fns (.ret :: rest) [] .retd
  | stop {rest} : Exec fns (.stop :: rest) [] .stopd
  | callDone {f fn rest t1 o1 t2 o} : nth fns f = some fn → Exec fns fn.events t1 o1 → o1 ≠ .stopd →
      Exec fns rest t2 o → Exec fns (.call f :: rest) (t1 ++ t2) o
  | callStop {f fn rest t1} : nth fns f = some fn → Exec fns fn.events t1 .stopd →
      Exec fns (.call f :: rest) t1 .stopd
  | altL {a b rest t1 t2 o} : Exec fns a t1 .norm → Exec fns rest t2 o → Exec fns (.alt a b :: rest) (t1 ++ t2) o
  | altLExit {a b rest t1 o1} : Exec fns a t1 o1 → o1 ≠ .norm → Exec fns (.alt a b :: rest) t1 o1
  | altR {a b rest t1 t2 o} : Exec fns b t1 .norm → Exec fns rest t2 o → Exec fns (.alt a b :: rest) (t1 ++ t2) o
  | altRExit {a b rest t1 o1} : Exec fns b t1 o1 → o1 ≠ .norm → Exec fns (.alt a b :: rest) t1 o1
  | opaqueDone {body rest t o} : Exec fns rest t o → Exec fns (.opaque body :: rest) t o
  | opaqueIter {body rest t1 o1 t2 o} : Exec fns body t1 o1 → o1 ≠ .retd →
      Exec fns (.opaque body :: rest) t2 o → Exec fns (.opaque body :: rest) (t1 ++ t2) o
  | opaqueRet {body rest t1} : Exec fns body t1 .retd → Exec fns (.opaque body :: rest) t1 .retd

/-- members written so far, after the trace `t` -/
def after : List Nat → List Act → List Nat
  | W, [] => W
  | W, .r _ :: t => after W t
  | W, .w m :: t => after (m :: W) t

/-- every read in `t` is of a member written before (in `W` or earlier in `t`) -/
def good : List Nat → List Act → Prop
  | _, [] => True
  | W, .r m :: t => m ∈ W ∧ good W t
  | W, .w m :: t => good (m :: W) t

theorem after_append (t1 t2 : List Act) : ∀ W, after W (t1 ++ t2) = after (after W t1) t2 := by
  induction t1 with
  | nil => intro W; rfl
  | cons a t ih => intro W; cases a <;> simp [after, ih]

theorem good_append (t1 t2 : List Act) : ∀ W, good W (t1 ++ t2) ↔ good W t1 ∧ good (after W t1) t2 := by
  induction t1 with
  | nil => intro W; simp [good, after]
  | cons a t ih =>
    intro W
    cases a with
    | r m => simp [good, after, ih, and_assoc]
    | w m => simp [good, after, ih]

theorem sub_after (t : List Act) : ∀ W m, m ∈ W → m ∈ after W t := by
  induction t with
  | nil => intro W m h; exact h
  | cons a t ih =>
    intro W m h
    cases a with
    | r k => exact ih W m h
    | w k => exact ih (k :: W) m (List.mem_cons_of_mem _ h)

/-- the set `d` of the walk is covered by what has really been written -/
def Cov (d W : List Nat) : Prop := ∀ m, mem m d = true → m ∈ W

theorem Cov.after {d W} (h : Cov d W) (t : List Act) : Cov d (after W t) :=
  fun m hm => sub_after t W m (h m hm)

theorem mem_cons_iff (m x : Nat) (xs : List Nat) : mem m (x :: xs) = true ↔ x = m ∨ mem m xs = true := by
  simp [mem]

theorem mem_inter {m : Nat} : ∀ {a b : List Nat}, mem m (inter a b) = true → mem m a = true ∧ mem m b = true := by
  intro a
  induction a with
  | nil => intro b h; simp [inter, mem] at h
  | cons x xs ih =>
    intro b h
    unfold inter at h
    rw [List.filter_cons] at h
    by_cases hx : mem x b = true
    · rw [if_pos hx] at h
      rcases (mem_cons_iff m x _).mp h with h1 | h1
      · subst h1; exact ⟨by simp [mem], hx⟩
      · have := ih (b := b) (by unfold inter; exact h1)
        exact ⟨by simp [mem, this.1], this.2⟩
    · rw [if_neg hx] at h
      have := ih (b := b) (by unfold inter; exact h)
      exact ⟨by simp [mem, this.1], this.2⟩

theorem meet_left (a : List Nat) (b : DSet) : ∃ x, meet (some a) b = some x ∧ ∀ m, mem m x = true → mem m a = true := by
  cases b with
  | none => exact ⟨a, rfl, fun _ h => h⟩
  | some b => exact ⟨inter a b, rfl, fun _ h => (mem_inter h).1⟩

theorem meet_right (a : DSet) (b : List Nat) : ∃ x, meet a (some b) = some x ∧ ∀ m, mem m x = true → mem m b = true := by
  cases a with
  | none => exact ⟨b, rfl, fun _ h => h⟩
  | some a => exact ⟨inter a b, rfl, fun _ h => (mem_inter h).2⟩

/-- no early read recorded and not stuck -/
def St.ok (s : St) : Prop := s.stuck = false ∧ s.bad = []

theorem step1_ok {s : St} {d : List Nat} {e : Ev} (h : (step1 s d e).ok) : s.ok := by
  cases e with
  | read m =>
    simp only [step1] at h
    by_cases hm : mem m d = true
    · rw [if_pos hm] at h; exact h
    · rw [if_neg hm] at h
      exact absurd h.2 (by simp)
  | write m => exact h
  | ret => exact h
  | stop => exact h
  | call f => exact h
  | alt a b => exact h
  | «opaque» b => exact h

/-- the walk never forgets an early read or that it got stuck -/
theorem run_ok (fns : List Fn) : ∀ fuel evs s, (run fns fuel evs s).ok → s.ok := by
  intro fuel
  induction fuel with
  | zero =>
    intro evs s h
    cases evs with
    | nil => simpa [run] using h
    | cons e rest => simp [run, St.ok] at h
  | succ fuel ih =>
    intro evs s h
    cases evs with
    | nil => simpa [run] using h
    | cons e rest =>
      cases hc : s.cur with
      | none => simpa [run, hc] using h
      | some d =>
        cases e with
        | call f =>
          simp only [run, hc] at h
          cases hf : nth fns f with
          | none => simp [hf, St.ok] at h
          | some fn =>
            simp only [hf] at h
            have h1 := ih _ _ h
            have h2 := ih fn.events _ (show (run fns fuel fn.events _).ok from ⟨h1.1, h1.2⟩)
            exact h2
        | alt a b =>
          simp only [run, hc] at h
          have h1 := ih _ _ h
          have h2 := ih b _ (show (run fns fuel b _).ok from ⟨h1.1, h1.2⟩)
          have h3 := ih a _ (show (run fns fuel a _).ok from ⟨h2.1, h2.2⟩)
          exact h3
        | «opaque» body =>
          simp only [run, hc] at h
          have h1 := ih _ _ h
          have h2 := ih body _ (show (run fns fuel body _).ok from ⟨h1.1, h1.2⟩)
          exact h2
        | read m => simp only [run, hc] at h; exact step1_ok (ih _ _ h)
        | write m => simp only [run, hc] at h; exact step1_ok (ih _ _ h)
        | ret => simp only [run, hc] at h; exact step1_ok (ih _ _ h)
        | stop => simp only [run, hc] at h; exact step1_ok (ih _ _ h)

def Sub (a b : List Nat) : Prop := ∀ m, mem m a = true → mem m b = true

theorem Sub.refl (a : List Nat) : Sub a a := fun _ h => h
theorem Sub.trans {a b c : List Nat} (h1 : Sub a b) (h2 : Sub b c) : Sub a c := fun m h => h2 m (h1 m h)

theorem step1_exits {s : St} {d e0 : List Nat} {e : Ev} (h : s.exits = some e0) :
    ∃ e', (step1 s d e).exits = some e' ∧ Sub e' e0 := by
  cases e with
  | read m =>
    simp only [step1]
    by_cases hm : mem m d = true
    · rw [if_pos hm]; exact ⟨e0, h, Sub.refl _⟩
    · rw [if_neg hm]; exact ⟨e0, h, Sub.refl _⟩
  | write m => exact ⟨e0, h, Sub.refl _⟩
  | ret =>
    simp only [step1, h]
    exact meet_left e0 (some d)
  | stop => exact ⟨e0, h, Sub.refl _⟩
  | call f => exact ⟨e0, h, Sub.refl _⟩
  | alt a b => exact ⟨e0, h, Sub.refl _⟩
  | «opaque» b => exact ⟨e0, h, Sub.refl _⟩

/-- once a `ret` has contributed to `exits`, the set only shrinks -/
theorem run_exits (fns : List Fn) : ∀ fuel evs s e0, s.exits = some e0 →
    ∃ e', (run fns fuel evs s).exits = some e' ∧ Sub e' e0 := by
  intro fuel
  induction fuel with
  | zero =>
    intro evs s e0 h
    cases evs with
    | nil => exact ⟨e0, by simpa [run] using h, Sub.refl _⟩
    | cons e rest => exact ⟨e0, by simpa [run] using h, Sub.refl _⟩
  | succ fuel ih =>
    intro evs s e0 h
    have H : ∀ (rest : List Ev) (S1 : St), (∃ x, S1.exits = some x ∧ Sub x e0) →
        ∃ e', (run fns fuel rest S1).exits = some e' ∧ Sub e' e0 := by
      intro rest S1 ⟨x, hx, hsub⟩
      obtain ⟨e', he', hs'⟩ := ih rest S1 x hx
      exact ⟨e', he', hs'.trans hsub⟩
    cases evs with
    | nil => exact ⟨e0, by simpa [run] using h, Sub.refl _⟩
    | cons e rest =>
      cases hc : s.cur with
      | none => exact ⟨e0, by simpa [run, hc] using h, Sub.refl _⟩
      | some d =>
        cases e with
        | call f =>
          simp only [run, hc]
          cases hf : nth fns f with
          | none => exact ⟨e0, by simpa using h, Sub.refl _⟩
          | some fn => exact ih _ _ e0 (by simpa using h)
        | alt a b =>
          simp only [run, hc]
          exact H _ _ (by rw [h]; exact meet_left e0 _)
        | «opaque» body =>
          simp only [run, hc]
          exact H _ _ (by rw [h]; exact meet_left e0 _)
        | read m => simp only [run, hc]; exact H _ _ (step1_exits h)
        | write m => simp only [run, hc]; exact H _ _ (step1_exits h)
        | ret => simp only [run, hc]; exact H _ _ (step1_exits h)
        | stop => simp only [run, hc]; exact H _ _ (step1_exits h)

theorem run_nil (fns : List Fn) (fuel : Nat) (s : St) : run fns fuel [] s = s := by
  cases fuel <;> rfl

theorem run_none_exits (fns : List Fn) (fuel : Nat) (evs : List Ev) (s : St) (h : s.cur = none) :
    (run fns fuel evs s).exits = s.exits := by
  cases fuel with
  | zero => cases evs <;> simp [run]
  | succ n => cases evs <;> simp [run, h]

theorem Cov.sub {a b W : List Nat} (h : Cov b W) (hs : Sub a b) : Cov a W := fun m hm => h m (hs m hm)

theorem Cov.write {d W : List Nat} (h : Cov d W) (m : Nat) : Cov (if mem m d then d else m :: d) (m :: W) := by
  intro k hk
  by_cases hm : mem m d = true
  · rw [if_pos hm] at hk; exact List.mem_cons_of_mem _ (h k hk)
  · rw [if_neg hm] at hk
    rcases (mem_cons_iff k m d).mp hk with h1 | h1
    · subst h1; exact List.mem_cons_self
    · exact List.mem_cons_of_mem _ (h k h1)

theorem meet_cov_left {e W : List Nat} {B : DSet} (h : Cov e W) : ∃ x, meet (some e) B = some x ∧ Cov x W := by
  obtain ⟨x, hx, hs⟩ := meet_left e B
  exact ⟨x, hx, h.sub hs⟩

theorem meet_cov_right {e W : List Nat} {A : DSet} (h : Cov e W) : ∃ x, meet A (some e) = some x ∧ Cov x W := by
  obtain ⟨x, hx, hs⟩ := meet_right A e
  exact ⟨x, hx, h.sub hs⟩

theorem meet_cov_right' {W : List Nat} {A B : DSet} (h : ∃ y, B = some y ∧ Cov y W) : ∃ x, meet A B = some x ∧ Cov x W := by
  obtain ⟨y, hy, hc⟩ := h
  rw [hy]; exact meet_cov_right hc

theorem run_exits_cov (fns : List Fn) (fuel : Nat) (rest : List Ev) (S1 : St) (W : List Nat)
    (h : ∃ z, S1.exits = some z ∧ Cov z W) : ∃ e', (run fns fuel rest S1).exits = some e' ∧ Cov e' W := by
  obtain ⟨z, hz, hc⟩ := h
  obtain ⟨e', he', hs⟩ := run_exits fns fuel rest S1 z hz
  exact ⟨e', he', hc.sub hs⟩

/-- the three things the walk guarantees about one execution -/
def Concl (W : List Nat) (t : List Act) (o : Out) (s' : St) : Prop :=
  good W t ∧
  (o = .norm → ∃ d', s'.cur = some d' ∧ Cov d' (after W t)) ∧
  (o = .retd → ∃ e', s'.exits = some e' ∧ Cov e' (after W t))

theorem Concl.append {W t1 t2 o s'} (h1 : good W t1) (h2 : Concl (after W t1) t2 o s') : Concl W (t1 ++ t2) o s' := by
  refine ⟨(good_append t1 t2 W).mpr ⟨h1, h2.1⟩, ?_, ?_⟩
  · intro ho; rw [after_append]; exact h2.2.1 ho
  · intro ho; rw [after_append]; exact h2.2.2 ho

/-- **Soundness of the walk.**  If the walk over `evs` from a state whose set `d` is covered by the members really
written so far (`W`) ends without early read and without getting stuck, then for every execution of `evs`:
every read is of a member written before; if the execution reaches the end of the block, the walk's final set
is covered by what has been written; if it ends in `return`, the walk's `exits` set is. -/
theorem exec_sound (fns : List Fn) {evs : List Ev} {t : List Act} {o : Out} (h : Exec fns evs t o) :
    ∀ (fuel : Nat) (s : St) (d W : List Nat), s.cur = some d → Cov d W → (run fns fuel evs s).ok →
      Concl W t o (run fns fuel evs s) := by
  induction h with
  | nil =>
    intro fuel s d W hc hcov _
    rw [run_nil]
    exact ⟨trivial, fun _ => ⟨d, hc, hcov⟩, (fun ho => by cases ho)⟩
  | @read m rest t o _ ih =>
    intro fuel s d W hc hcov hok
    cases fuel with
    | zero => simp [run, St.ok] at hok
    | succ fuel =>
      simp only [run, hc] at hok ⊢
      have h1 := run_ok _ _ _ _ hok
      have hm : mem m d = true := by
        by_cases hm : mem m d = true
        · exact hm
        · simp only [step1, if_neg hm] at h1
          exact absurd h1.2 (by simp)
      simp only [step1, if_pos hm] at hok ⊢
      have := ih fuel s d W hc hcov hok
      exact ⟨⟨hcov m hm, this.1⟩, this.2.1, this.2.2⟩
  | @write m rest t o _ ih =>
    intro fuel s d W hc hcov hok
    cases fuel with
    | zero => simp [run, St.ok] at hok
    | succ fuel =>
      simp only [run, hc] at hok ⊢
      have := ih fuel (step1 s d (.write m)) _ (m :: W) rfl (hcov.write m) hok
      exact ⟨this.1, this.2.1, this.2.2⟩
  | @ret rest =>
    intro fuel s d W hc hcov hok
    cases fuel with
    | zero => simp [run, St.ok] at hok
    | succ fuel =>
      simp only [run, hc]
      refine ⟨trivial, (fun ho => by cases ho), fun _ => ?_⟩
      rw [run_none_exits _ _ _ _ (by rfl)]
      exact meet_cov_right hcov
  | @stop rest =>
    intro fuel s d W _ _ _
    exact ⟨trivial, (fun ho => by cases ho), (fun ho => by cases ho)⟩
  | @callDone f fn rest t1 o1 t2 o hf _ hne _ ih1 ih2 =>
    intro fuel s d W hc hcov hok
    cases fuel with
    | zero => simp [run, St.ok] at hok
    | succ fuel =>
      simp only [run, hc, hf] at hok ⊢
      have hS1 := run_ok _ _ _ _ hok
      have c1 := ih1 fuel _ d W rfl hcov ⟨hS1.1, hS1.2⟩
      have H2 : ∀ S1 : St, (∃ x, S1.cur = some x ∧ Cov x (after W t1)) → (run fns fuel rest S1).ok →
          Concl (after W t1) t2 o (run fns fuel rest S1) :=
        fun S1 ⟨x, hx, hcx⟩ hk => ih2 fuel S1 x _ hx hcx hk
      cases o1 with
      | norm =>
        obtain ⟨d', hd', hc'⟩ := c1.2.1 rfl
        exact Concl.append c1.1 (H2 _ (by rw [hd']; exact meet_cov_left hc') hok)
      | retd =>
        obtain ⟨e', he', hc'⟩ := c1.2.2 rfl
        exact Concl.append c1.1 (H2 _ (by rw [he']; exact meet_cov_right hc') hok)
      | stopd => exact absurd rfl hne
  | @callStop f fn rest t1 hf _ ih1 =>
    intro fuel s d W hc hcov hok
    cases fuel with
    | zero => simp [run, St.ok] at hok
    | succ fuel =>
      simp only [run, hc, hf] at hok
      have hS1 := run_ok _ _ _ _ hok
      have c1 := ih1 fuel _ d W rfl hcov ⟨hS1.1, hS1.2⟩
      exact ⟨c1.1, (fun ho => by cases ho), (fun ho => by cases ho)⟩
  | @altL a b rest t1 t2 o _ _ ih1 ih2 =>
    intro fuel s d W hc hcov hok
    cases fuel with
    | zero => simp [run, St.ok] at hok
    | succ fuel =>
      simp only [run, hc] at hok ⊢
      have hS1 := run_ok _ _ _ _ hok
      have hrb := run_ok fns fuel b _ (show (run fns fuel b _).ok from ⟨hS1.1, hS1.2⟩)
      have c1 := ih1 fuel _ d W rfl hcov ⟨hrb.1, hrb.2⟩
      obtain ⟨d', hd', hc'⟩ := c1.2.1 rfl
      have H2 : ∀ S1 : St, (∃ x, S1.cur = some x ∧ Cov x (after W t1)) → (run fns fuel rest S1).ok →
          Concl (after W t1) t2 o (run fns fuel rest S1) :=
        fun S1 ⟨x, hx, hcx⟩ hk => ih2 fuel S1 x _ hx hcx hk
      exact Concl.append c1.1 (H2 _ (by rw [hd']; exact meet_cov_left hc') hok)
  | @altLExit a b rest t1 o1 _ hne ih1 =>
    intro fuel s d W hc hcov hok
    cases fuel with
    | zero => simp [run, St.ok] at hok
    | succ fuel =>
      simp only [run, hc] at hok ⊢
      have hS1 := run_ok _ _ _ _ hok
      have hrb := run_ok fns fuel b _ (show (run fns fuel b _).ok from ⟨hS1.1, hS1.2⟩)
      have c1 := ih1 fuel _ d W rfl hcov ⟨hrb.1, hrb.2⟩
      refine ⟨c1.1, fun ho => absurd ho hne, fun ho => ?_⟩
      obtain ⟨e', he', hc'⟩ := c1.2.2 ho
      exact run_exits_cov fns fuel rest _ _ (by rw [he']; exact meet_cov_right' (meet_cov_left hc'))
  | @altR a b rest t1 t2 o _ _ ih1 ih2 =>
    intro fuel s d W hc hcov hok
    cases fuel with
    | zero => simp [run, St.ok] at hok
    | succ fuel =>
      simp only [run, hc] at hok ⊢
      have hS1 := run_ok _ _ _ _ hok
      have c1 := ih1 fuel _ d W rfl hcov ⟨hS1.1, hS1.2⟩
      obtain ⟨d', hd', hc'⟩ := c1.2.1 rfl
      have H2 : ∀ S1 : St, (∃ x, S1.cur = some x ∧ Cov x (after W t1)) → (run fns fuel rest S1).ok →
          Concl (after W t1) t2 o (run fns fuel rest S1) :=
        fun S1 ⟨x, hx, hcx⟩ hk => ih2 fuel S1 x _ hx hcx hk
      exact Concl.append c1.1 (H2 _ (by rw [hd']; exact meet_cov_right hc') hok)
  | @altRExit a b rest t1 o1 _ hne ih1 =>
    intro fuel s d W hc hcov hok
    cases fuel with
    | zero => simp [run, St.ok] at hok
    | succ fuel =>
      simp only [run, hc] at hok ⊢
      have hS1 := run_ok _ _ _ _ hok
      have c1 := ih1 fuel _ d W rfl hcov ⟨hS1.1, hS1.2⟩
      refine ⟨c1.1, fun ho => absurd ho hne, fun ho => ?_⟩
      obtain ⟨e', he', hc'⟩ := c1.2.2 ho
      exact run_exits_cov fns fuel rest _ _ (by rw [he']; exact meet_cov_right' (meet_cov_right hc'))
  | @opaqueDone body rest t o _ ih =>
    intro fuel s d W hc hcov hok
    cases fuel with
    | zero => simp [run, St.ok] at hok
    | succ fuel =>
      simp only [run, hc] at hok ⊢
      exact ih fuel _ d W rfl hcov hok
  | @opaqueIter body rest t1 o1 t2 o _ _ _ ih1 ih2 =>
    intro fuel s d W hc hcov hok
    cases fuel with
    | zero => simp [run, St.ok] at hok
    | succ fuel =>
      have hok' := hok
      simp only [run, hc] at hok'
      have hS1 := run_ok _ _ _ _ hok'
      have c1 := ih1 fuel _ d W rfl hcov ⟨hS1.1, hS1.2⟩
      exact Concl.append c1.1 (ih2 (fuel + 1) s d (after W t1) hc (hcov.after t1) hok)
  | @opaqueRet body rest t1 _ ih1 =>
    intro fuel s d W hc hcov hok
    cases fuel with
    | zero => simp [run, St.ok] at hok
    | succ fuel =>
      simp only [run, hc] at hok ⊢
      have hS1 := run_ok _ _ _ _ hok
      have c1 := ih1 fuel _ d W rfl hcov ⟨hS1.1, hS1.2⟩
      refine ⟨c1.1, (fun ho => by cases ho), fun _ => ?_⟩
      obtain ⟨e', he', hc'⟩ := c1.2.2 rfl
      exact run_exits_cov fns fuel rest _ _ (by rw [he']; exact meet_cov_right hc')

/-- the form used by the property theorem: a clean walk from the empty set means every execution is good -/
theorem walk_sound (t : Table) (evs : List Ev) (h : clean (walk t evs) = true) :
    ∀ tr o, Exec t.fns evs tr o → good [] tr := by
  intro tr o hex
  have hok : (run t.fns fuel0 evs start).ok := by
    simp only [clean, Bool.and_eq_true, List.isEmpty_iff, Bool.not_eq_true', walk] at h
    exact ⟨h.2, h.1⟩
  exact (exec_sound t.fns hex fuel0 start [] [] rfl (fun _ hm => by simp [mem] at hm) hok).1

/-- a member the walk reports as definitely written by function `f` is written in every execution of `f` that
returns (normally or by `return`), and `f` reads no member of the object before writing it -/
theorem definitelyWrites_sound (t : Table) (f m : Nat) (h : definitelyWrites t f m = true) :
    ∀ tr, Exec t.fns [.call f] tr .norm → m ∈ after [] tr ∧ good [] tr := by
  intro tr hex
  simp only [definitelyWrites, afterFn, Bool.and_eq_true] at h
  have hcl := h.1
  have hok : (run t.fns fuel0 [.call f] start).ok := by
    simp only [clean, Bool.and_eq_true, List.isEmpty_iff, Bool.not_eq_true', walk] at hcl
    exact ⟨hcl.2, hcl.1⟩
  have c := exec_sound t.fns hex fuel0 start [] [] rfl (fun _ hm => by simp [mem] at hm) hok
  obtain ⟨d', hd', hcov⟩ := c.2.1 rfl
  have h2 := h.2
  simp only [walk] at h2
  rw [hd'] at h2
  exact ⟨hcov m h2, c.1⟩

end ColoVerif.InitOrder
