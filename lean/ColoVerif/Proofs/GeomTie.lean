import ColoVerif.Model.Circuit
import ColoVerif.Model.Expand
import ColoVerif.Gen.GeomFns
/-
The tie between the shared hand-written geometry layer (`Model/Geom.lean`, `Model/Circuit.lean`,
`Expand.cellArea`) and the C++ function bodies: `Gen/GeomFns.lean` is regenerated from the clang AST of
/repo's working tree on every run (tools/gen/GeomFns.py), and every generated definition is proved
*equal as a function* to the hand-written one the models, drivers and theorems of all properties use.
A change of one of these C++ bodies that changes its meaning makes the corresponding `gen_*_eq_model`
fail to compile, and with it `Properties/C09.lean` and `Properties/C15.lean`
(`geometry_layer_translated`).

C++ `int` / `long long` are `Int` on both sides (the framework-wide convention): the equalities say
nothing about overflow.  The loop functions (`hpwl`, `computePlacementArea`) start from INT_MAX / INT_MIN
sentinels and equal the models under an explicit, decidable int-range hypothesis (`PinsInInt`, `RowsInInt`).
-/
namespace ColoVerif.GeomTie
open ColoVerif

/-! ### `struct Rectangle` -/

theorem gen_Rectangle_ctor_eq_model : Gen.Geom.Rectangle_ctor = Rect.mk := rfl

/-- `Rectangle()` is the all-zero rectangle, the model's `default` (what `Circuit.placementArea`
returns for a circuit without rows is written `⟨0, 0, 0, 0⟩` there). -/
theorem gen_Rectangle_ctor0_eq_model : Gen.Geom.Rectangle_ctor0 = (default : Rect) ∧
    Gen.Geom.Rectangle_ctor0 = ⟨0, 0, 0, 0⟩ := ⟨rfl, rfl⟩

theorem gen_Rectangle_width_eq_model : Gen.Geom.Rectangle_width = Rect.width := rfl

theorem gen_Rectangle_height_eq_model : Gen.Geom.Rectangle_height = Rect.height := rfl

theorem gen_Rectangle_area_eq_model : Gen.Geom.Rectangle_area = Rect.area := rfl

theorem gen_Rectangle_intersects_eq_model : Gen.Geom.Rectangle_intersects = Rect.intersects := rfl

theorem gen_Rectangle_contains_eq_model : Gen.Geom.Rectangle_contains = Rect.contains := rfl

theorem gen_Rectangle_intersection_eq_model : Gen.Geom.Rectangle_intersection = Rect.intersection := rfl

/-! ### orientation predicate used by the placed size -/

theorem gen_isTurn_eq_model : Gen.Geom.isTurn = Orient.isTurn := by
  funext o; cases o <;> rfl

/-! ### per-cell members of `Circuit` (the cell's record `cl` stands for the index `cell`) -/

theorem gen_Circuit_x_eq_model : Gen.Geom.Circuit_x = Cell.x := rfl
theorem gen_Circuit_y_eq_model : Gen.Geom.Circuit_y = Cell.y := rfl
theorem gen_Circuit_orientation_eq_model : Gen.Geom.Circuit_orientation = Cell.orient := rfl
theorem gen_Circuit_isFixed_eq_model : Gen.Geom.Circuit_isFixed = Cell.fixed := rfl
theorem gen_Circuit_isObstruction_eq_model : Gen.Geom.Circuit_isObstruction = Cell.obstruction := rfl

/-- `Circuit::area(cell)` is `Expand.cellArea` (the only hand-written copy of it) -/
theorem gen_Circuit_area_eq_model : Gen.Geom.Circuit_area = Expand.cellArea := rfl

theorem gen_Circuit_placedWidth_eq_model : Gen.Geom.Circuit_placedWidth = Cell.placedWidth := by
  funext cl
  simp only [Gen.Geom.Circuit_placedWidth, Cell.placedWidth, Gen.Geom.Circuit_orientation, gen_isTurn_eq_model]

theorem gen_Circuit_placedHeight_eq_model : Gen.Geom.Circuit_placedHeight = Cell.placedHeight := by
  funext cl
  simp only [Gen.Geom.Circuit_placedHeight, Cell.placedHeight, Gen.Geom.Circuit_orientation, gen_isTurn_eq_model]

theorem gen_Circuit_placement_eq_model : Gen.Geom.Circuit_placement = Cell.placement := by
  funext cl
  simp only [Gen.Geom.Circuit_placement, Cell.placement, gen_Circuit_placedWidth_eq_model,
    gen_Circuit_placedHeight_eq_model, gen_Circuit_x_eq_model, gen_Circuit_y_eq_model, gen_Rectangle_ctor_eq_model]

/-! ### per-pin members (the records `cl`, `p` stand for `pinCell(net, i)` and the pin `(net, i)`) -/

theorem gen_Circuit_pinXOffset_eq_model : Gen.Geom.Circuit_pinXOffset = Circuit.pinXOffset := by
  funext cl p
  obtain ⟨w, h, x, y, orient, fixed, obstruction, pol⟩ := cl
  simp only [Gen.Geom.Circuit_pinXOffset, Circuit.pinXOffset, gen_Circuit_placedWidth_eq_model,
    gen_Circuit_orientation_eq_model, gen_isTurn_eq_model]
  cases orient <;> rfl

theorem gen_Circuit_pinYOffset_eq_model : Gen.Geom.Circuit_pinYOffset = Circuit.pinYOffset := by
  funext cl p
  obtain ⟨w, h, x, y, orient, fixed, obstruction, pol⟩ := cl
  simp only [Gen.Geom.Circuit_pinYOffset, Circuit.pinYOffset, gen_Circuit_placedHeight_eq_model,
    gen_Circuit_orientation_eq_model, gen_isTurn_eq_model]
  cases orient <;> rfl

/-! ### loops: `Circuit::hpwl`, `Circuit::computePlacementArea`, `Circuit::rowHeight`

The generated definitions are `List.foldl`s of named step functions starting from the C++ sentinels
`std::numeric_limits<int>::max()/min()`; the hand-written models use `lmin`/`lmax` (fold from the first
element).  The two agree exactly when the first folded value lies between the sentinels, i.e. when the
coordinates are C++ `int`s — which is what `PinsInInt` / `RowsInInt` say (decidable; the examples at the end
show that the hypothesis cannot be dropped: with unbounded `Int` a coordinate beyond INT_MAX is clipped by
the sentinel).  `rowHeight` has no sentinel and is equal unconditionally; `none` = throws. -/

theorem foldl_min_map {α : Type} (f : α → Int) (l : List α) (a : Int) :
    l.foldl (fun m e => min (f e) m) a = (l.map f).foldl min a := by
  induction l generalizing a with
  | nil => rfl
  | cons x xs ih => rw [List.foldl_cons, List.map_cons, List.foldl_cons, Int.min_comm]; exact ih _

theorem foldl_step4 {α : Type} (f1 f2 f3 f4 : α → Int) (l : List α) (a b c d : Int) :
    l.foldl (fun (s : Int × Int × Int × Int) e =>
        (min (f1 e) s.1, max (f2 e) s.2.1, min (f3 e) s.2.2.1, max (f4 e) s.2.2.2)) (a, b, c, d)
      = ((l.map f1).foldl min a, (l.map f2).foldl max b, (l.map f3).foldl min c, (l.map f4).foldl max d) := by
  induction l generalizing a b c d with
  | nil => rfl
  | cons x xs ih =>
    rw [List.foldl_cons, List.map_cons, List.map_cons, List.map_cons, List.map_cons, List.foldl_cons, List.foldl_cons,
      List.foldl_cons, List.foldl_cons, Int.min_comm a, Int.max_comm b, Int.min_comm c, Int.max_comm d]
    exact ih _ _ _ _

theorem foldl_min_sentinel (x : Int) (xs : List Int) (M : Int) (h : x ≤ M) :
    (x :: xs).foldl min M = Circuit.lmin 0 (x :: xs) := by
  have : min M x = x := by omega
  simp only [List.foldl_cons, Circuit.lmin, this]

theorem foldl_max_sentinel (x : Int) (xs : List Int) (M : Int) (h : M ≤ x) :
    (x :: xs).foldl max M = Circuit.lmax 0 (x :: xs) := by
  have : max M x = x := by omega
  simp only [List.foldl_cons, Circuit.lmax, this]

theorem foldl_add_sum {α : Type} (step : Int → α → Int) (g : α → Int) (l : List α)
    (h : ∀ e ∈ l, ∀ a, step a e = a + g e) (a0 : Int) : l.foldl step a0 = a0 + (l.map g).sum := by
  induction l generalizing a0 with
  | nil => simp
  | cons x xs ih =>
    rw [List.foldl_cons, h x (by simp), ih (fun e he => h e (by simp [he]))]
    simp only [List.map_cons, List.sum_cons]; omega

/-- every pin position is a C++ `int` -/
def PinsInInt (c : Circuit) : Prop :=
  ∀ n ∈ c.nets, ∀ p ∈ n.pins, -2147483648 ≤ c.pinX p ∧ c.pinX p ≤ 2147483647 ∧
    -2147483648 ≤ c.pinY p ∧ c.pinY p ≤ 2147483647

instance (c : Circuit) : Decidable (PinsInInt c) := by unfold PinsInInt; exact inferInstance

theorem hpwl_step2_eq (c : Circuit) : Gen.Geom.Circuit_hpwl_step2 c =
    fun s p => (min (c.pinX p) s.1, max (c.pinX p) s.2.1, min (c.pinY p) s.2.2.1, max (c.pinY p) s.2.2.2) := by
  funext s p
  simp only [Gen.Geom.Circuit_hpwl_step2, Circuit.pinX, Circuit.pinY, gen_Circuit_pinXOffset_eq_model,
    gen_Circuit_pinYOffset_eq_model, gen_Circuit_x_eq_model, gen_Circuit_y_eq_model]

theorem hpwl_step1_eq (c : Circuit) (n : Net)
    (h : ∀ p ∈ n.pins, -2147483648 ≤ c.pinX p ∧ c.pinX p ≤ 2147483647 ∧ -2147483648 ≤ c.pinY p ∧ c.pinY p ≤ 2147483647)
    (a : Int) : Gen.Geom.Circuit_hpwl_step1 c a n = a + c.netHpwl n := by
  obtain ⟨wm, we, pins⟩ := n
  cases pins with
  | nil => simp [Gen.Geom.Circuit_hpwl_step1, Circuit.netHpwl, Circuit.lmin, Circuit.lmax]
  | cons p ps =>
    obtain ⟨h1, h2, h3, h4⟩ := h p (by simp)
    have hg : ((((p :: ps).length : Nat) : Int) == (0 : Int)) = false := by
      simp only [List.length_cons, beq_eq_false_iff_ne, ne_eq]; omega
    simp only [Gen.Geom.Circuit_hpwl_step1, hg, Bool.false_eq_true, if_false, Gen.Geom.Circuit_hpwl_loop2,
      hpwl_step2_eq, foldl_step4, Circuit.netHpwl, List.map_cons]
    have hM : (Gen.Geom.numeric_limits_int_max : Int) = 2147483647 := rfl
    have hm : (Gen.Geom.numeric_limits_int_min : Int) = -2147483648 := by decide
    rw [foldl_min_sentinel (c.pinX p) _ _ (by omega), foldl_max_sentinel (c.pinX p) _ _ (by omega),
      foldl_min_sentinel (c.pinY p) _ _ (by omega), foldl_max_sentinel (c.pinY p) _ _ (by omega)]
    exact Int.add_assoc _ _ _

theorem gen_Circuit_hpwl_eq_model (c : Circuit) (h : PinsInInt c) : Gen.Geom.Circuit_hpwl c = c.hpwl := by
  simp only [Gen.Geom.Circuit_hpwl, Gen.Geom.Circuit_hpwl_loop1, Circuit.hpwl]
  rw [foldl_add_sum (Gen.Geom.Circuit_hpwl_step1 c) c.netHpwl c.nets (fun n hn a => hpwl_step1_eq c n (h n hn) a)]
  omega

/-- every row coordinate is a C++ `int` -/
def RowsInInt (c : Circuit) : Prop :=
  ∀ r ∈ c.rows, -2147483648 ≤ r.rect.minX ∧ r.rect.minX ≤ 2147483647 ∧ -2147483648 ≤ r.rect.maxX ∧ r.rect.maxX ≤ 2147483647 ∧
    -2147483648 ≤ r.rect.minY ∧ r.rect.minY ≤ 2147483647 ∧ -2147483648 ≤ r.rect.maxY ∧ r.rect.maxY ≤ 2147483647

instance (c : Circuit) : Decidable (RowsInInt c) := by unfold RowsInInt; exact inferInstance

theorem gen_Circuit_computePlacementArea_eq_model (c : Circuit) (h : RowsInInt c) :
    Gen.Geom.Circuit_computePlacementArea c = c.placementArea := by
  obtain ⟨cells, nets, rows⟩ := c
  cases rows with
  | nil => rfl
  | cons r rs =>
    obtain ⟨h1, h2, h3, h4, h5, h6, h7, h8⟩ := h r (by simp)
    have hM : (Gen.Geom.numeric_limits_int_max : Int) = 2147483647 := rfl
    have hm : (Gen.Geom.numeric_limits_int_min : Int) = -2147483648 := by decide
    have hs : Gen.Geom.Circuit_computePlacementArea_step1 = fun s (row : Row) =>
        (min row.rect.minX s.1, max row.rect.maxX s.2.1, min row.rect.minY s.2.2.1, max row.rect.maxY s.2.2.2) := rfl
    simp only [Gen.Geom.Circuit_computePlacementArea, Gen.Geom.Circuit_computePlacementArea_loop1, hs, foldl_step4,
      List.isEmpty_cons, Bool.false_eq_true, if_false, Circuit.placementArea, List.map_cons, gen_Rectangle_ctor_eq_model]
    rw [foldl_min_sentinel r.rect.minX _ _ (by omega), foldl_max_sentinel r.rect.maxX _ _ (by omega),
      foldl_min_sentinel r.rect.minY _ _ (by omega), foldl_max_sentinel r.rect.maxY _ _ (by omega)]

theorem rowHeight_loop_none (c : Circuit) (l : List Row) : l.foldl (Gen.Geom.Circuit_rowHeight_step1 c) none = none := by
  induction l with
  | nil => rfl
  | cons x xs ih => rw [List.foldl_cons]; exact ih

theorem rowHeight_loop_some (c : Circuit) (l : List Row) :
    l.foldl (Gen.Geom.Circuit_rowHeight_step1 c) (some ()) =
      if l.all (fun r' => r'.rect.height == (c.rows.getD 0 default).rect.height) then some () else none := by
  induction l with
  | nil => rfl
  | cons x xs ih =>
    have hstep : Gen.Geom.Circuit_rowHeight_step1 c (some ()) x =
        if (x.rect.height != (c.rows.getD 0 default).rect.height) = true then none else some () := rfl
    rw [List.foldl_cons, List.all_cons, hstep]
    by_cases hx : x.rect.height = (c.rows.getD 0 default).rect.height
    · rw [if_neg (by rw [hx]; simp only [bne_self_eq_false, Bool.false_eq_true, not_false_eq_true]), ih]
      simp only [hx, beq_self_eq_true, Bool.true_and]
    · rw [if_pos (by simp only [bne_iff_ne, ne_eq, hx, not_false_eq_true]), rowHeight_loop_none]
      simp only [beq_eq_false_iff_ne.mpr hx, Bool.false_and, Bool.false_eq_true, if_false]

/-- `Circuit::rowHeight` — no sentinel, no hypothesis: `none` (throws) for no rows or rows of different heights -/
theorem gen_Circuit_rowHeight_eq_model : Gen.Geom.Circuit_rowHeight = Circuit.rowHeight := by
  funext c
  obtain ⟨cells, nets, rows⟩ := c
  cases rows with
  | nil => rfl
  | cons r rs =>
    have hg : ((((r :: rs).length : Nat) : Int) == (0 : Int)) = false := by
      simp only [List.length_cons, beq_eq_false_iff_ne, ne_eq]; omega
    simp only [Gen.Geom.Circuit_rowHeight, hg, Bool.false_eq_true, if_false, Gen.Geom.Circuit_rowHeight_loop1,
      rowHeight_loop_some, Circuit.rowHeight, List.getD_cons_zero, List.all_cons, beq_self_eq_true, Bool.true_and,
      gen_Rectangle_height_eq_model]
    by_cases ha : (rs.all fun r' => r'.rect.height == r.rect.height) = true
    · simp only [ha, if_true]
    · simp only [ha, Bool.false_eq_true, if_false]


/-- the four facts about an empty row list: the C++ returns `Rectangle(0, 0, 0, 0)` / throws, like the model -/
theorem gen_no_rows (c : Circuit) (h : c.rows = []) :
    Gen.Geom.Circuit_computePlacementArea c = ⟨0, 0, 0, 0⟩ ∧ c.placementArea = ⟨0, 0, 0, 0⟩ ∧
    Gen.Geom.Circuit_rowHeight c = none ∧ c.rowHeight = none := by
  obtain ⟨cells, nets, rows⟩ := c
  subst h
  exact ⟨rfl, rfl, rfl, rfl⟩

/-! non-vacuity of the hypotheses, and their necessity -/

example : PinsInInt ⟨[⟨4, 2, 0, 0, .N, false, false, .ANY⟩, ⟨3, 2, 10, 5, .W, false, false, .ANY⟩],
    [⟨1, 0, [⟨0, 1, 1⟩, ⟨1, 0, 2⟩]⟩, ⟨1, 0, []⟩], []⟩ := by decide
example : Gen.Geom.Circuit_hpwl ⟨[⟨4, 2, 0, 0, .N, false, false, .ANY⟩, ⟨3, 2, 10, 5, .W, false, false, .ANY⟩],
    [⟨1, 0, [⟨0, 1, 1⟩, ⟨1, 0, 2⟩]⟩, ⟨1, 0, []⟩], []⟩ = 9 + 4 := by decide
/-- beyond the `int` range the sentinel clips: a single pin at x = 3·10^9 has extent 0 in the model but
`3·10^9 − INT_MAX` in the (unbounded-`Int` reading of the) C++ loop -/
example : Gen.Geom.Circuit_hpwl ⟨[⟨1, 1, 3000000000, 0, .N, false, false, .ANY⟩], [⟨1, 0, [⟨0, 0, 0⟩]⟩], []⟩ = 852516353 ∧
    Circuit.hpwl ⟨[⟨1, 1, 3000000000, 0, .N, false, false, .ANY⟩], [⟨1, 0, [⟨0, 0, 0⟩]⟩], []⟩ = 0 := by decide
example : RowsInInt ⟨[], [], [⟨⟨0, 10, 0, 4⟩, .N⟩, ⟨⟨-5, 8, 4, 8⟩, .FS⟩]⟩ := by decide
example : Gen.Geom.Circuit_computePlacementArea ⟨[], [], [⟨⟨0, 10, 0, 4⟩, .N⟩, ⟨⟨-5, 8, 4, 8⟩, .FS⟩]⟩ = ⟨-5, 10, 0, 8⟩ ∧
    Gen.Geom.Circuit_rowHeight ⟨[], [], [⟨⟨0, 10, 0, 4⟩, .N⟩, ⟨⟨-5, 8, 4, 8⟩, .FS⟩]⟩ = some 4 ∧
    Gen.Geom.Circuit_rowHeight ⟨[], [], [⟨⟨0, 10, 0, 4⟩, .N⟩, ⟨⟨-5, 8, 4, 9⟩, .FS⟩]⟩ = none := by decide

end ColoVerif.GeomTie
