import ColoVerif.Model.Circuit
import ColoVerif.Model.Expand
import ColoVerif.Gen.GeomFns
/-
The tie between the shared hand-written geometry layer (`Model/Geom.lean`, `Model/Circuit.lean`,
`Expand.cellArea`) and the C++ function bodies: `Gen/GeomFns.lean` is regenerated from the clang AST of
/repo's working tree on every run (tools/gen/GeomFns.py), and every generated definition is proved
*equal as a function* to the hand-written one the models, drivers and theorems of all properties use.
A change of one of these C++ bodies that changes its meaning makes the corresponding `gen_*_eq_model`
fail to compile, and with it `Properties/C09.lean` and `Properties/C15.lean`
(`geometry_layer_translated`).

C++ `int` / `long long` are `Int` on both sides (the framework-wide convention): the equalities say
nothing about overflow.
-/
namespace ColoVerif.GeomTie
open ColoVerif

/-! ### `struct Rectangle` -/

theorem gen_Rectangle_ctor_eq_model : Gen.Geom.Rectangle_ctor = Rect.mk := rfl

/-- `Rectangle()` is the all-zero rectangle, the model's `default` (what `Circuit.placementArea`
returns for a circuit without rows is written `⟨0, 0, 0, 0⟩` there). -/
theorem gen_Rectangle_ctor0_eq_model : Gen.Geom.Rectangle_ctor0 = (default : Rect) ∧
    Gen.Geom.Rectangle_ctor0 = ⟨0, 0, 0, 0⟩ := ⟨rfl, rfl⟩

theorem gen_Rectangle_width_eq_model : Gen.Geom.Rectangle_width = Rect.width := rfl

theorem gen_Rectangle_height_eq_model : Gen.Geom.Rectangle_height = Rect.height := rfl

theorem gen_Rectangle_area_eq_model : Gen.Geom.Rectangle_area = Rect.area := rfl

theorem gen_Rectangle_intersects_eq_model : Gen.Geom.Rectangle_intersects = Rect.intersects := rfl

theorem gen_Rectangle_contains_eq_model : Gen.Geom.Rectangle_contains = Rect.contains := rfl

theorem gen_Rectangle_intersection_eq_model : Gen.Geom.Rectangle_intersection = Rect.intersection := rfl

/-! ### orientation predicate used by the placed size -/

theorem gen_isTurn_eq_model : Gen.Geom.isTurn = Orient.isTurn := by
  funext o; cases o <;> rfl

/-! ### per-cell members of `Circuit` (the cell's record `cl` stands for the index `cell`) -/

theorem gen_Circuit_x_eq_model : Gen.Geom.Circuit_x = Cell.x := rfl
theorem gen_Circuit_y_eq_model : Gen.Geom.Circuit_y = Cell.y := rfl
theorem gen_Circuit_orientation_eq_model : Gen.Geom.Circuit_orientation = Cell.orient := rfl
theorem gen_Circuit_isFixed_eq_model : Gen.Geom.Circuit_isFixed = Cell.fixed := rfl
theorem gen_Circuit_isObstruction_eq_model : Gen.Geom.Circuit_isObstruction = Cell.obstruction := rfl

/-- `Circuit::area(cell)` is `Expand.cellArea` (the only hand-written copy of it) -/
theorem gen_Circuit_area_eq_model : Gen.Geom.Circuit_area = Expand.cellArea := rfl

theorem gen_Circuit_placedWidth_eq_model : Gen.Geom.Circuit_placedWidth = Cell.placedWidth := by
  funext cl
  simp only [Gen.Geom.Circuit_placedWidth, Cell.placedWidth, Gen.Geom.Circuit_orientation, gen_isTurn_eq_model]

theorem gen_Circuit_placedHeight_eq_model : Gen.Geom.Circuit_placedHeight = Cell.placedHeight := by
  funext cl
  simp only [Gen.Geom.Circuit_placedHeight, Cell.placedHeight, Gen.Geom.Circuit_orientation, gen_isTurn_eq_model]

theorem gen_Circuit_placement_eq_model : Gen.Geom.Circuit_placement = Cell.placement := by
  funext cl
  simp only [Gen.Geom.Circuit_placement, Cell.placement, gen_Circuit_placedWidth_eq_model,
    gen_Circuit_placedHeight_eq_model, gen_Circuit_x_eq_model, gen_Circuit_y_eq_model, gen_Rectangle_ctor_eq_model]

/-! ### per-pin members (the records `cl`, `p` stand for `pinCell(net, i)` and the pin `(net, i)`) -/

theorem gen_Circuit_pinXOffset_eq_model : Gen.Geom.Circuit_pinXOffset = Circuit.pinXOffset := by
  funext cl p
  obtain ⟨w, h, x, y, orient, fixed, obstruction, pol⟩ := cl
  simp only [Gen.Geom.Circuit_pinXOffset, Circuit.pinXOffset, gen_Circuit_placedWidth_eq_model,
    gen_Circuit_orientation_eq_model, gen_isTurn_eq_model]
  cases orient <;> rfl

theorem gen_Circuit_pinYOffset_eq_model : Gen.Geom.Circuit_pinYOffset = Circuit.pinYOffset := by
  funext cl p
  obtain ⟨w, h, x, y, orient, fixed, obstruction, pol⟩ := cl
  simp only [Gen.Geom.Circuit_pinYOffset, Circuit.pinYOffset, gen_Circuit_placedHeight_eq_model,
    gen_Circuit_orientation_eq_model, gen_isTurn_eq_model]
  cases orient <;> rfl

end ColoVerif.GeomTie
