import ColoVerif.Proofs.GridDefs
/-
C16, hierarchy part: the hierarchy built by `setupHierarchy` (`setupHierarchyHelper` of
src/place_global/density_grid.cpp) is well formed (`hierarchy_wf_lem`), group capacity is additive
(`groupCapacity_split_x/y`), every level sums to the whole grid (`level_total_x/y`) and the capacity of a
coarse bin is the sum of the capacities of its children (`group_capacity_children_x/y`).  Core Lean only.
-/
namespace ColoVerif.Grid

/-! ### adjacent-increasing lists -/

/-- consecutive elements strictly increase -/
def Adj : List Nat → Prop
  | a :: b :: rest => a < b ∧ Adj (b :: rest)
  | _ => True

@[simp] theorem adj_nil : Adj [] = True := by simp [Adj]
@[simp] theorem adj_single (a : Nat) : Adj [a] = True := by simp [Adj]
@[simp] theorem adj_cons_cons (a b : Nat) (rest : List Nat) :
    Adj (a :: b :: rest) = (a < b ∧ Adj (b :: rest)) := by simp [Adj]

theorem adj_lb : ∀ (rest : List Nat) (b : Nat), Adj (b :: rest) → ∀ x ∈ rest, b < x := by
  intro rest
  induction rest with
  | nil => intro b _ x hx; cases hx
  | cons e rest ih =>
    intro b h x hx
    simp only [adj_cons_cons] at h
    rcases List.mem_cons.1 hx with rfl | hx
    · exact h.1
    · exact Nat.lt_trans h.1 (ih e h.2 x hx)

theorem adj_pairwise : ∀ (l : List Nat), Adj l → l.Pairwise (· < ·) := by
  intro l
  induction l with
  | nil => intro _; exact List.Pairwise.nil
  | cons b rest ih =>
    intro h
    refine List.pairwise_cons.2 ⟨adj_lb rest b h, ih ?_⟩
    cases rest with
    | nil => simp
    | cons e rest => simp only [adj_cons_cons] at h; exact h.2

theorem pairwise_adj : ∀ (l : List Nat), l.Pairwise (· < ·) → Adj l := by
  intro l
  induction l with
  | nil => intro _; simp
  | cons b rest ih =>
    intro h
    have h' := List.pairwise_cons.1 h
    cases rest with
    | nil => simp
    | cons e rest =>
      simp only [adj_cons_cons]
      exact ⟨h'.1 e (by simp), ih h'.2⟩

/-- pointwise form -/
theorem adj_getD : ∀ (l : List Nat), Adj l → ∀ k, k + 1 < l.length → l.getD k 0 < l.getD (k + 1) 0 := by
  intro l
  induction l with
  | nil => intro _ k hk; simp at hk
  | cons b rest ih =>
    intro h k hk
    cases rest with
    | nil => simp at hk
    | cons e rest =>
      simp only [adj_cons_cons] at h
      cases k with
      | zero => simpa using h.1
      | succ k =>
        have := ih h.2 k (by simpa using hk)
        simpa [List.getD_cons_succ] using this

/-! ### one refinement step -/

@[simp] theorem refineLimitsTail_single (b : Nat) : refineLimitsTail [b] = [] := by
  simp [refineLimitsTail]
@[simp] theorem refineLimitsTail_nil : refineLimitsTail [] = [] := by
  simp [refineLimitsTail]
theorem refineLimitsTail_cons (b e : Nat) (rest : List Nat) :
    refineLimitsTail (b :: e :: rest) =
      if e - b ≥ 2 then (e + b) / 2 :: e :: refineLimitsTail (e :: rest)
      else e :: refineLimitsTail (e :: rest) := by
  simp [refineLimitsTail]
@[simp] theorem refineParents_single (i b : Nat) : refineParents i [b] = [] := by
  simp [refineParents]
@[simp] theorem refineParents_nil (i : Nat) : refineParents i [] = [] := by
  simp [refineParents]
theorem refineParents_cons (i b e : Nat) (rest : List Nat) :
    refineParents i (b :: e :: rest) =
      if e - b ≥ 2 then i :: i :: refineParents (i + 1) (e :: rest)
      else i :: refineParents (i + 1) (e :: rest) := by
  simp [refineParents]

/-- the refined limits stay strictly increasing -/
theorem adj_refine : ∀ (rest : List Nat) (b : Nat), Adj (b :: rest) →
    Adj (b :: refineLimitsTail (b :: rest)) := by
  intro rest
  induction rest with
  | nil => intro b _; simp
  | cons e rest ih =>
    intro b h
    simp only [adj_cons_cons] at h
    have := ih e h.2
    rw [refineLimitsTail_cons]
    split
    · simp only [adj_cons_cons]; refine ⟨by omega, by omega, this⟩
    · simp only [adj_cons_cons]; exact ⟨h.1, this⟩

theorem getLast_refine : ∀ (rest : List Nat) (b : Nat),
    (b :: refineLimitsTail (b :: rest)).getLast? = (b :: rest).getLast? := by
  intro rest
  induction rest with
  | nil => intro b; simp
  | cons e rest ih =>
    intro b
    rw [refineLimitsTail_cons]
    split
    · rw [List.getLast?_cons_cons, List.getLast?_cons_cons, List.getLast?_cons_cons]; exact ih e
    · rw [List.getLast?_cons_cons, List.getLast?_cons_cons]; exact ih e

theorem sizes_refine : ∀ (rest : List Nat) (b i : Nat),
    (refineParents i (b :: rest)).length + 1 = (b :: refineLimitsTail (b :: rest)).length := by
  intro rest
  induction rest with
  | nil => intro b i; simp
  | cons e rest ih =>
    intro b i
    have := ih e (i + 1)
    rw [refineLimitsTail_cons, refineParents_cons]
    split <;> simp at this ⊢ <;> omega

/-- all gaps at most `g` -/
def MaxGap (g : Nat) : List Nat → Prop
  | a :: b :: rest => b - a ≤ g ∧ MaxGap g (b :: rest)
  | _ => True

@[simp] theorem maxGap_single (g a : Nat) : MaxGap g [a] = True := by simp [MaxGap]
@[simp] theorem maxGap_cons_cons (g a b : Nat) (rest : List Nat) :
    MaxGap g (a :: b :: rest) = (b - a ≤ g ∧ MaxGap g (b :: rest)) := by simp [MaxGap]

theorem maxGap_refine (g : Nat) : ∀ (rest : List Nat) (b : Nat), Adj (b :: rest) → MaxGap g (b :: rest) →
    MaxGap ((g + 1) / 2) (b :: refineLimitsTail (b :: rest)) := by
  intro rest
  induction rest with
  | nil => intro b _ _; simp
  | cons e rest ih =>
    intro b h hg
    simp only [adj_cons_cons] at h
    simp only [maxGap_cons_cons] at hg
    have := ih e h.2 hg.2
    rw [refineLimitsTail_cons]
    split
    · simp only [maxGap_cons_cons]; refine ⟨by omega, by omega, this⟩
    · simp only [maxGap_cons_cons]; refine ⟨by omega, this⟩

theorem canRefine_cons (b e : Nat) (rest : List Nat) :
    canRefine (b :: e :: rest) = (decide (e - b > 1) || canRefine (e :: rest)) := by
  simp [canRefine]
@[simp] theorem canRefine_single (b : Nat) : canRefine [b] = false := by simp [canRefine]

theorem canRefine_false_of_gap : ∀ (rest : List Nat) (b : Nat), MaxGap 1 (b :: rest) →
    canRefine (b :: rest) = false := by
  intro rest
  induction rest with
  | nil => intro b _; simp
  | cons e rest ih =>
    intro b hg
    simp only [maxGap_cons_cons] at hg
    rw [canRefine_cons, ih e hg.2]
    simp; omega

theorem eq_range'_of_not_canRefine : ∀ (rest : List Nat) (b : Nat), Adj (b :: rest) →
    canRefine (b :: rest) = false → b :: rest = List.range' b (rest.length + 1) := by
  intro rest
  induction rest with
  | nil => intro b _ _; simp
  | cons e rest ih =>
    intro b h hc
    simp only [adj_cons_cons] at h
    rw [canRefine_cons] at hc
    simp only [Bool.or_eq_false_iff, decide_eq_false_iff_not] at hc
    have he : e = b + 1 := by omega
    have := ih e h.2 hc.2
    rw [List.range'_succ, ← he, List.length_cons, ← this]

theorem par_head (rest : List Nat) (b i : Nat) (h : 0 < (refineParents i (b :: rest)).length) :
    (refineParents i (b :: rest)).getD 0 0 = i := by
  cases rest with
  | nil => simp at h
  | cons e rest => rw [refineParents_cons]; split <;> simp

theorem par_step : ∀ (rest : List Nat) (b i x : Nat), x + 1 < (refineParents i (b :: rest)).length →
    (refineParents i (b :: rest)).getD (x + 1) 0 = (refineParents i (b :: rest)).getD x 0 ∨
    (refineParents i (b :: rest)).getD (x + 1) 0 = (refineParents i (b :: rest)).getD x 0 + 1 := by
  intro rest
  induction rest with
  | nil => intro b i x hx; simp at hx
  | cons e rest ih =>
    intro b i x
    have hh := par_head rest e (i + 1)
    have ih' := ih e (i + 1)
    rw [refineParents_cons]
    split
    · intro hx
      match x with
      | 0 => left; simp
      | 1 =>
        right
        simp only [List.length_cons] at hx
        simp only [List.getD_cons_succ, List.getD_cons_zero]
        exact hh (by omega)
      | x + 2 =>
        simp only [List.length_cons] at hx
        simp only [List.getD_cons_succ]
        exact ih' x (by omega)
    · intro hx
      match x with
      | 0 =>
        right
        simp only [List.length_cons] at hx
        simp only [List.getD_cons_succ, List.getD_cons_zero]
        exact hh (by omega)
      | x + 1 =>
        simp only [List.length_cons] at hx
        simp only [List.getD_cons_succ]
        exact ih' x (by omega)

theorem par_last : ∀ (rest : List Nat) (b e i : Nat),
    (refineParents i (b :: e :: rest)).getLast? = some (i + rest.length) := by
  intro rest
  induction rest with
  | nil => intro b e i; rw [refineParents_cons]; split <;> simp
  | cons e' rest ih =>
    intro b e i
    have := ih e e' (i + 1)
    rw [refineParents_cons]
    split
    · rw [List.getLast?_cons, List.getLast?_cons, this]; simp; omega
    · rw [List.getLast?_cons, this]; simp; omega

theorem nested_refine (c : Nat → Nat) : ∀ (rest : List Nat) (b i : Nat), Adj (b :: rest) →
    (∀ k, (b :: rest).getD k 0 = c (i + k)) →
    ∀ x, x < (refineParents i (b :: rest)).length →
      c ((refineParents i (b :: rest)).getD x 0) ≤ (b :: refineLimitsTail (b :: rest)).getD x 0 ∧
      (b :: refineLimitsTail (b :: rest)).getD (x + 1) 0 ≤ c ((refineParents i (b :: rest)).getD x 0 + 1) := by
  intro rest
  induction rest with
  | nil => intro b i _ _ x hx; simp at hx
  | cons e rest ih =>
    intro b i h hc x
    simp only [adj_cons_cons] at h
    have hb : c i = b := by simpa using (hc 0).symm
    have he : c (i + 1) = e := by simpa using (hc 1).symm
    have hc' : ∀ k, (e :: rest).getD k 0 = c (i + 1 + k) := by
      intro k
      have := hc (k + 1)
      rw [List.getD_cons_succ] at this
      rw [this]; congr 1; omega
    have ih' := ih e (i + 1) h.2 hc'
    rw [refineParents_cons, refineLimitsTail_cons]
    split
    · intro hx
      match x with
      | 0 => simp only [List.getD_cons_succ, List.getD_cons_zero, hb, he]; omega
      | 1 => simp only [List.getD_cons_succ, List.getD_cons_zero, hb, he]; omega
      | x + 2 =>
        simp only [List.length_cons] at hx
        simp only [List.getD_cons_succ]
        exact ih' x (by omega)
    · intro hx
      match x with
      | 0 => simp only [List.getD_cons_succ, List.getD_cons_zero, hb, he]; omega
      | x + 1 =>
        simp only [List.length_cons] at hx
        simp only [List.getD_cons_succ]
        exact ih' x (by omega)

theorem boundary_refine (c : Nat → Nat) : ∀ (rest : List Nat) (b i : Nat),
    (∀ k, (b :: rest).getD k 0 = c (i + k)) →
    ∀ x, x + 1 < (refineParents i (b :: rest)).length →
      (refineParents i (b :: rest)).getD (x + 1) 0 ≠ (refineParents i (b :: rest)).getD x 0 →
      (b :: refineLimitsTail (b :: rest)).getD (x + 1) 0 = c ((refineParents i (b :: rest)).getD x 0 + 1) := by
  intro rest
  induction rest with
  | nil => intro b i _ x hx; simp at hx
  | cons e rest ih =>
    intro b i hc x
    have he : c (i + 1) = e := by simpa using (hc 1).symm
    have hc' : ∀ k, (e :: rest).getD k 0 = c (i + 1 + k) := by
      intro k
      have := hc (k + 1)
      rw [List.getD_cons_succ] at this
      rw [this]; congr 1; omega
    have ih' := ih e (i + 1) hc'
    rw [refineParents_cons, refineLimitsTail_cons]
    split
    · intro hx hne
      match x with
      | 0 => simp at hne
      | 1 => simp only [List.getD_cons_succ, List.getD_cons_zero, he]
      | x + 2 =>
        simp only [List.length_cons] at hx
        simp only [List.getD_cons_succ] at hne ⊢
        exact ih' x (by omega) hne
    · intro hx hne
      match x with
      | 0 => simp only [List.getD_cons_succ, List.getD_cons_zero, he]
      | x + 1 =>
        simp only [List.length_cons] at hx
        simp only [List.getD_cons_succ] at hne ⊢
        exact ih' x (by omega) hne

/-- what one `refine` call establishes between the old (coarse) limits, the new limits and the parents -/
structure RefStep (coarse fine par : List Nat) : Prop where
  sizes : par.length + 1 = fine.length
  parOk : ParOk par (coarse.length - 1)
  nested : ∀ x, x < par.length →
    coarse.getD (par.getD x 0) 0 ≤ fine.getD x 0 ∧ fine.getD (x + 1) 0 ≤ coarse.getD (par.getD x 0 + 1) 0
  boundary : ∀ x, x + 1 < par.length → par.getD (x + 1) 0 ≠ par.getD x 0 →
    fine.getD (x + 1) 0 = coarse.getD (par.getD x 0 + 1) 0

theorem refStep (rest : List Nat) (b e : Nat) (h : Adj (b :: e :: rest)) :
    RefStep (b :: e :: rest) (b :: refineLimitsTail (b :: e :: rest)) (refineParents 0 (b :: e :: rest)) := by
  have hpos : 0 < (refineParents 0 (b :: e :: rest)).length := by
    rw [refineParents_cons]; split <;> simp
  refine ⟨sizes_refine _ _ _, ⟨hpos, par_head _ _ _ hpos, ?_, fun x hx => par_step _ _ _ x hx⟩, ?_, ?_⟩
  · have := par_last rest b e 0
    rw [List.getLast?_eq_getElem?] at this
    rw [List.getD_eq_getElem?_getD, this]; simp
  · exact nested_refine (fun k => (b :: e :: rest).getD k 0) _ _ _ h (by intro k; simp)
  · exact boundary_refine (fun k => (b :: e :: rest).getD k 0) _ _ _ (by intro k; simp)

/-! ### the chain of levels -/

theorem maxGap_mono {g g' : Nat} (hg : g ≤ g') : ∀ (l : List Nat), MaxGap g l → MaxGap g' l := by
  intro l
  induction l with
  | nil => intro _; simp [MaxGap]
  | cons b rest ih =>
    intro h
    cases rest with
    | nil => simp
    | cons e rest =>
      simp only [maxGap_cons_cons] at h ⊢
      exact ⟨by omega, ih h.2⟩

theorem head?_getD {l : List Nat} {a : Nat} (h : l.head? = some a) : l.getD 0 0 = a := by
  cases l with
  | nil => simp at h
  | cons b rest => simpa using h

theorem getLast?_getD {l : List Nat} {a : Nat} (h : l.getLast? = some a) : l.getD (l.length - 1) 0 = a := by
  rw [List.getLast?_eq_getElem?] at h
  rw [List.getD_eq_getElem?_getD, h]; rfl

/-- per-level facts -/
structure Good (n : Nat) (q : List Nat × List Nat) : Prop where
  head : q.1.head? = some 0
  last : q.1.getLast? = some n
  adj : Adj q.1
  sizes : q.2.length + 1 = q.1.length

theorem good_shape {n : Nat} (hn : 1 ≤ n) {q : List Nat × List Nat} (h : Good n q) :
    ∃ e rest, q.1 = 0 :: e :: rest := by
  obtain ⟨l, p⟩ := q
  have h1 := h.head
  have h2 := h.last
  simp only at h1 h2
  cases l with
  | nil => simp at h1
  | cons b rest =>
    simp at h1
    subst h1
    cases rest with
    | nil => simp at h2; omega
    | cons e rest => exact ⟨e, rest, rfl⟩

theorem good_refine {n : Nat} (hn : 1 ≤ n) {q : List Nat × List Nat} (h : Good n q) :
    Good n (refineLimits q.1, refineParents 0 q.1) := by
  obtain ⟨e, rest, hq⟩ := good_shape hn h
  have h2 := h.last
  have h3 := h.adj
  rw [hq] at h2 h3 ⊢
  exact ⟨rfl, by rw [refineLimits, getLast_refine]; exact h2, adj_refine _ _ h3, sizes_refine _ _ _⟩

theorem chain_zero (l p : List Nat) : chain 0 l p = [(l, p)] := by simp [chain]
theorem chain_succ (f : Nat) (l p : List Nat) :
    chain (f + 1) l p =
      if canRefine l then (l, p) :: chain f (refineLimits l) (refineParents 0 l) else [(l, p)] := by
  simp [chain]

theorem chain_head (f : Nat) (l p : List Nat) (d : List Nat × List Nat) : (chain f l p).getD 0 d = (l, p) := by
  cases f with
  | zero => simp [chain_zero]
  | succ f => rw [chain_succ]; split <;> simp

theorem chain_length_pos (f : Nat) (l p : List Nat) : 0 < (chain f l p).length := by
  cases f with
  | zero => simp [chain_zero]
  | succ f => rw [chain_succ]; split <;> simp

theorem chain_mem {n : Nat} (hn : 1 ≤ n) : ∀ (f : Nat) (l p : List Nat), Good n (l, p) →
    ∀ q ∈ chain f l p, Good n q := by
  intro f
  induction f with
  | zero => intro l p h q hq; simp [chain_zero] at hq; subst hq; exact h
  | succ f ih =>
    intro l p h q hq
    rw [chain_succ] at hq
    split at hq
    · rcases List.mem_cons.1 hq with rfl | hq
      · exact h
      · exact ih _ _ (good_refine hn h) q hq
    · simp at hq; subst hq; exact h

theorem chain_adj (d : List Nat × List Nat) : ∀ (f : Nat) (l p : List Nat) (k : Nat),
    k + 1 < (chain f l p).length →
    (chain f l p).getD (k + 1) d =
      (refineLimits ((chain f l p).getD k d).1, refineParents 0 ((chain f l p).getD k d).1) := by
  intro f
  induction f with
  | zero => intro l p k hk; simp [chain_zero] at hk
  | succ f ih =>
    intro l p k
    rw [chain_succ]
    split
    · intro hk
      cases k with
      | zero => simp only [List.getD_cons_succ, List.getD_cons_zero]; rw [chain_head]
      | succ k =>
        simp only [List.length_cons] at hk
        simp only [List.getD_cons_succ]
        exact ih _ _ k (by omega)
    · intro hk; simp at hk

theorem chain_last {n : Nat} (hn : 1 ≤ n) : ∀ (f : Nat) (l p : List Nat), Good n (l, p) → MaxGap (f + 1) l →
    ∃ q, (chain f l p).getLast? = some q ∧ canRefine q.1 = false := by
  intro f
  induction f with
  | zero =>
    intro l p h hg
    refine ⟨(l, p), by simp [chain_zero], ?_⟩
    obtain ⟨e, rest, hq⟩ := good_shape hn h
    simp only at hq ⊢
    rw [hq] at hg ⊢
    exact canRefine_false_of_gap _ _ hg
  | succ f ih =>
    intro l p h hg
    rw [chain_succ]
    split
    · have hgood := good_refine hn h
      obtain ⟨e, rest, hq⟩ := good_shape hn h
      simp only at hq hgood
      have hg' : MaxGap (f + 1) (refineLimits l) := by
        have h3 := h.adj
        simp only at h3
        rw [hq] at hg h3 ⊢
        exact maxGap_mono (by omega) _ (maxGap_refine _ _ _ h3 hg)
      obtain ⟨q, hq1, hq2⟩ := ih _ (refineParents 0 l) hgood hg'
      exact ⟨q, by rw [List.getLast?_cons, hq1]; rfl, hq2⟩
    · rename_i hc
      exact ⟨(l, p), by simp, by simpa using hc⟩

theorem good_finest {n : Nat} {q : List Nat × List Nat} (h : Good n q) (hc : canRefine q.1 = false) :
    q.1 = List.range (n + 1) := by
  obtain ⟨l, p⟩ := q
  have h1 := h.head
  have h2 := h.last
  have h3 := h.adj
  simp only at h1 h2 h3 hc ⊢
  cases l with
  | nil => simp at h1
  | cons b rest =>
    simp at h1
    subst h1
    have := eq_range'_of_not_canRefine rest 0 h3 hc
    rw [this, List.getLast?_range'] at h2
    simp at h2
    rw [this, List.range_eq_range', h2]

/-! ### assembling `HierOk` -/

theorem rev_fst_getD (C : List (List Nat × List Nat)) (lvl : Nat) (h : lvl < C.length) :
    (C.reverse.map Prod.fst).getD lvl [] = (C.getD (C.length - 1 - lvl) ([], [])).1 := by
  have h' : C.length - 1 - lvl < C.length := by omega
  rw [List.getD_eq_getElem?_getD, List.getElem?_map, List.getElem?_reverse h, List.getD_eq_getElem?_getD,
    List.getElem?_eq_getElem h']
  rfl

theorem rev_snd_getD (C : List (List Nat × List Nat)) (lvl : Nat) (h : lvl < C.length) :
    (C.reverse.map Prod.snd).getD lvl [] = (C.getD (C.length - 1 - lvl) ([], [])).2 := by
  have h' : C.length - 1 - lvl < C.length := by omega
  rw [List.getD_eq_getElem?_getD, List.getElem?_map, List.getElem?_reverse h, List.getD_eq_getElem?_getD,
    List.getElem?_eq_getElem h']
  rfl

theorem getD_mem {α : Type} (C : List α) (k : Nat) (d : α) (h : k < C.length) : C.getD k d ∈ C := by
  rw [List.getD_eq_getElem?_getD, List.getElem?_eq_getElem h]
  exact List.getElem_mem h

theorem setup_nbLevels (n : Nat) : (setupHierarchy n).nbLevels = (chain n [0, n] [0]).length := by
  simp [setupHierarchy, Hier.nbLevels]

theorem setup_lim (n lvl : Nat) (h : lvl < (chain n [0, n] [0]).length) :
    (setupHierarchy n).lim lvl =
      ((chain n [0, n] [0]).getD ((chain n [0, n] [0]).length - 1 - lvl) ([], [])).1 := by
  simp only [setupHierarchy, Hier.lim]
  exact rev_fst_getD _ _ h

theorem setup_par (n lvl : Nat) (h : lvl < (chain n [0, n] [0]).length) :
    (setupHierarchy n).par lvl =
      ((chain n [0, n] [0]).getD ((chain n [0, n] [0]).length - 1 - lvl) ([], [])).2 := by
  simp only [setupHierarchy, Hier.par]
  exact rev_snd_getD _ _ h

theorem good_start (n : Nat) (hn : 1 ≤ n) : Good n ([0, n], [0]) :=
  ⟨rfl, rfl, by simp; omega, rfl⟩

theorem setup_good (n : Nat) (hn : 1 ≤ n) (lvl : Nat) (h : lvl < (setupHierarchy n).nbLevels) :
    Good n ((setupHierarchy n).lim lvl, (setupHierarchy n).par lvl) := by
  rw [setup_nbLevels] at h
  rw [setup_lim n lvl h, setup_par n lvl h]
  exact chain_mem hn n _ _ (good_start n hn) _ (getD_mem _ _ _ (by omega))

theorem setup_step (n : Nat) (hn : 1 ≤ n) (lvl : Nat) (h : lvl + 1 < (setupHierarchy n).nbLevels) :
    RefStep ((setupHierarchy n).lim (lvl + 1)) ((setupHierarchy n).lim lvl) ((setupHierarchy n).par lvl) := by
  have hg := setup_good n hn (lvl + 1) h
  rw [setup_nbLevels] at h
  rw [setup_lim n lvl (by omega), setup_par n lvl (by omega)]
  rw [setup_lim n (lvl + 1) h, setup_par n (lvl + 1) h] at hg
  rw [setup_lim n (lvl + 1) h]
  have hk : (chain n [0, n] [0]).length - 1 - lvl = ((chain n [0, n] [0]).length - 1 - (lvl + 1)) + 1 := by omega
  rw [hk, chain_adj _ _ _ _ _ (by omega)]
  generalize (chain n [0, n] [0]).getD ((chain n [0, n] [0]).length - 1 - (lvl + 1)) ([], []) = q at hg ⊢
  obtain ⟨e, rest, hq⟩ := good_shape hn hg
  have h3 := hg.adj
  simp only at h3 ⊢
  rw [hq] at h3 ⊢
  exact refStep rest 0 e h3

theorem hierarchy_wf_lem (n : Nat) (hn : 1 ≤ n) : HierOk (setupHierarchy n) n := by
  have hN := setup_nbLevels n
  have hpos := chain_length_pos n [0, n] [0]
  have hgood := setup_good n hn
  have hstep := setup_step n hn
  refine
    { len := by simp [setupHierarchy]
      pos := by
        have : (setupHierarchy n).limits.length = (setupHierarchy n).nbLevels := rfl
        omega
      head := fun lvl h => (hgood lvl h).head
      last := fun lvl h => (hgood lvl h).last
      incr := fun lvl h => adj_pairwise _ (hgood lvl h).adj
      sizes := fun lvl h => (hgood lvl h).sizes
      top := ?_
      finest := ?_
      parOk := fun lvl h => (hstep lvl h).parOk
      nested := ?_
      firstStart := ?_
      lastEnd := ?_ }
  · rw [setup_lim n _ (by omega), hN]
    have : (chain n [0, n] [0]).length - 1 - ((chain n [0, n] [0]).length - 1) = 0 := by omega
    rw [this, chain_head]
  · rw [setup_lim n _ (by omega)]
    obtain ⟨q, hq1, hq2⟩ := chain_last hn n [0, n] [0] (good_start n hn) (by simp)
    have hmem : q ∈ chain n [0, n] [0] := List.mem_of_getLast? hq1
    have hq := chain_mem hn n _ _ (good_start n hn) q hmem
    rw [List.getLast?_eq_getElem?] at hq1
    rw [List.getD_eq_getElem?_getD, Nat.sub_zero, hq1]
    exact good_finest hq hq2
  · intro lvl x hl hx
    have hs := hstep lvl hl
    have hsz := hs.sizes
    simp only [Hier.nbBins] at hx
    exact hs.nested x (by omega)
  · intro lvl x hl hx hfc
    have hs := hstep lvl hl
    have hsz := hs.sizes
    simp only [Hier.nbBins] at hx
    simp only [Hier.parent]
    cases x with
    | zero =>
      rw [hs.parOk.first, head?_getD (hgood lvl (by omega)).head, head?_getD (hgood (lvl + 1) hl).head]
    | succ x =>
      simp [HState.firstChild] at hfc
      have hb := hs.boundary x (by omega) hfc
      rcases hs.parOk.step x (by omega) with h1 | h1
      · exact absurd h1 hfc
      · rw [hb, h1]
  · intro lvl x hl hx hor
    have hs := hstep lvl hl
    have hsz := hs.sizes
    simp only [Hier.nbBins, Hier.parent] at hx hor ⊢
    by_cases hx1 : x + 1 = ((setupHierarchy n).par lvl).length
    · have h1 := getLast?_getD (hgood lvl (by omega)).last
      have h2 := getLast?_getD (hgood (lvl + 1) hl).last
      have h3 := hs.parOk.last
      have hx' : x = ((setupHierarchy n).par lvl).length - 1 := by omega
      have hx'' : x + 1 = ((setupHierarchy n).lim lvl).length - 1 := by omega
      rw [hx'', h1, hx', h3, h2]
    · rcases hor with h | h
      · omega
      · exact hs.boundary x (by omega) h

example : HierOk (setupHierarchy 5) 5 := hierarchy_wf_lem 5 (by decide)
example : (setupHierarchy 5).limits = [[0, 1, 2, 3, 4, 5], [0, 1, 2, 3, 5], [0, 2, 5], [0, 5]] := by decide
example : (setupHierarchy 5).parents = [[0, 1, 2, 3, 3], [0, 0, 1, 1], [0, 0], [0]] := by decide

/-! ### capacities -/

theorem sum_range_split (f : Nat → Int) (a b c : Nat) (h1 : a ≤ b) (h2 : b ≤ c) :
    ((List.range (c - a)).map fun d => f (a + d)).sum =
      ((List.range (b - a)).map fun d => f (a + d)).sum + ((List.range (c - b)).map fun d => f (b + d)).sum := by
  have hc : c - a = (b - a) + (c - b) := by omega
  rw [hc, List.range_add, List.map_append, List.sum_append, List.map_map]
  congr 2
  apply List.map_congr_left
  intro x _
  simp only [Function.comp]
  congr 1
  omega

theorem sum_map_add_h {α : Type} (f g : α → Int) (l : List α) :
    (l.map fun x => f x + g x).sum = (l.map f).sum + (l.map g).sum := by
  induction l with
  | nil => simp
  | cons a l ih => simp only [List.map_cons, List.sum_cons, ih]; omega

/-- group capacity is additive in x: [x0,x2) = [x0,x1) ∪ [x1,x2) -/
theorem groupCapacity_split_x (g : DGrid) (x0 x1 x2 y0 y1 : Nat) (h01 : x0 ≤ x1) (h12 : x1 ≤ x2) :
    g.groupCapacity x0 x2 y0 y1 = g.groupCapacity x0 x1 y0 y1 + g.groupCapacity x1 x2 y0 y1 := by
  unfold DGrid.groupCapacity
  exact sum_range_split (fun i => ((List.range (y1 - y0)).map fun dj => g.binCapacity i (y0 + dj)).sum)
    x0 x1 x2 h01 h12

theorem groupCapacity_split_y (g : DGrid) (x0 x1 y0 y1 y2 : Nat) (h01 : y0 ≤ y1) (h12 : y1 ≤ y2) :
    g.groupCapacity x0 x1 y0 y2 = g.groupCapacity x0 x1 y0 y1 + g.groupCapacity x0 x1 y1 y2 := by
  unfold DGrid.groupCapacity
  rw [← sum_map_add_h]
  congr 1
  apply List.map_congr_left
  intro di _
  exact sum_range_split (fun j => g.binCapacity (x0 + di) j) y0 y1 y2 h01 h12

/-- interval functions additive under splitting -/
def Additive (G : Nat → Nat → Int) : Prop := ∀ a b c, a ≤ b → b ≤ c → G a c = G a b + G b c

theorem additive_x (g : DGrid) (y0 y1 : Nat) : Additive fun a b => g.groupCapacity a b y0 y1 :=
  fun a b c h1 h2 => groupCapacity_split_x g a b c y0 y1 h1 h2

theorem additive_y (g : DGrid) (x0 x1 : Nat) : Additive fun a b => g.groupCapacity x0 x1 a b :=
  fun a b c h1 h2 => groupCapacity_split_y g x0 x1 a b c h1 h2

theorem Additive.self {G : Nat → Nat → Int} (hG : Additive G) (a : Nat) : G a a = 0 := by
  have := hG a a a (Nat.le_refl a) (Nat.le_refl a)
  omega

/-- sum of `G` over consecutive pairs -/
def sumAdj (G : Nat → Nat → Int) : List Nat → Int
  | a :: b :: rest => G a b + sumAdj G (b :: rest)
  | _ => 0

theorem range_sum_eq_sumAdj (G : Nat → Nat → Int) : ∀ (l : List Nat),
    ((List.range (l.length - 1)).map fun k => G (l.getD k 0) (l.getD (k + 1) 0)).sum = sumAdj G l := by
  intro l
  induction l with
  | nil => simp [sumAdj]
  | cons a rest ih =>
    cases rest with
    | nil => simp [sumAdj]
    | cons b rest =>
      have hl : (a :: b :: rest).length - 1 = ((b :: rest).length - 1) + 1 := by simp
      rw [hl, List.range_succ_eq_map, List.map_cons, List.sum_cons, List.map_map, sumAdj, ← ih]
      congr 1

theorem sumAdj_tele {G : Nat → Nat → Int} (hG : Additive G) : ∀ (rest : List Nat) (b n : Nat),
    Adj (b :: rest) → (b :: rest).getLast? = some n → sumAdj G (b :: rest) = G b n := by
  intro rest
  induction rest with
  | nil => intro b n _ hl; simp at hl; subst hl; simp [sumAdj, hG.self]
  | cons e rest ih =>
    intro b n h hl
    simp only [adj_cons_cons] at h
    rw [List.getLast?_cons_cons] at hl
    have hmem : n ∈ e :: rest := List.mem_of_getLast? hl
    have hen : e ≤ n := by
      rcases List.mem_cons.1 hmem with rfl | hm
      · exact Nat.le_refl _
      · exact Nat.le_of_lt (adj_lb rest e h.2 n hm)
    rw [sumAdj, ih e n h.2 hl, hG b e n (Nat.le_of_lt h.1) hen]

/-- the level sum of an additive interval function is its value on the whole range -/
theorem level_total_gen {G : Nat → Nat → Int} (hG : Additive G) (h : Hier) (n : Nat) (hok : HierOk h n)
    (lvl : Nat) (hl : lvl < h.nbLevels) :
    ((List.range (h.nbBins lvl)).map fun x => G ((h.lim lvl).getD x 0) ((h.lim lvl).getD (x + 1) 0)).sum =
      G 0 n := by
  have h1 := hok.head lvl hl
  have h2 := hok.last lvl hl
  have h3 := pairwise_adj _ (hok.incr lvl hl)
  simp only [Hier.nbBins]
  rw [range_sum_eq_sumAdj]
  generalize h.lim lvl = l at h1 h2 h3
  cases l with
  | nil => simp at h1
  | cons b rest =>
    simp at h1
    subst h1
    exact sumAdj_tele hG rest 0 n h3 h2

theorem level_total_x (g : DGrid) (h : Hier) (n : Nat) (hok : HierOk h n) (lvl : Nat) (hl : lvl < h.nbLevels)
    (y0 y1 : Nat) :
    ((List.range (h.nbBins lvl)).map fun x =>
        g.groupCapacity ((h.lim lvl).getD x 0) ((h.lim lvl).getD (x + 1) 0) y0 y1).sum =
      g.groupCapacity 0 n y0 y1 :=
  level_total_gen (additive_x g y0 y1) h n hok lvl hl

theorem level_total_y (g : DGrid) (h : Hier) (n : Nat) (hok : HierOk h n) (lvl : Nat) (hl : lvl < h.nbLevels)
    (x0 x1 : Nat) :
    ((List.range (h.nbBins lvl)).map fun y =>
        g.groupCapacity x0 x1 ((h.lim lvl).getD y 0) ((h.lim lvl).getD (y + 1) 0)).sum =
      g.groupCapacity x0 x1 0 n :=
  level_total_gen (additive_y g x0 x1) h n hok lvl hl

/-! ### children of a coarse bin -/

/-- filtered sum over `range k` -/
def fsum (f : Nat → Bool) (t : Nat → Int) (k : Nat) : Int := (((List.range k).filter f).map t).sum

theorem fsum_zero (f : Nat → Bool) (t : Nat → Int) : fsum f t 0 = 0 := by simp [fsum]

theorem fsum_succ (f : Nat → Bool) (t : Nat → Int) (k : Nat) :
    fsum f t (k + 1) = fsum f t k + if f k then t k else 0 := by
  unfold fsum
  rw [List.range_succ, List.filter_append, List.map_append, List.sum_append]
  cases hf : f k <;> simp [hf]

/-- Abstract form of "the children tile their parent": `F`/`C` fine/coarse limits, `P` parents, `m` fine
bins. -/
theorem children_sum_gen {G : Nat → Nat → Int} (hG : Additive G) (F C P : Nat → Nat) (m p : Nat)
    (hm : 0 < m)
    (hmono : ∀ k, k < m → F k ≤ F (k + 1))
    (hP0 : P 0 = 0)
    (hstep : ∀ k, k + 1 < m → P (k + 1) = P k ∨ P (k + 1) = P k + 1)
    (hnest : ∀ k, k < m → C (P k) ≤ F k)
    (hfs0 : F 0 = C (P 0))
    (hfs : ∀ k, k + 1 < m → P (k + 1) ≠ P k → F (k + 1) = C (P (k + 1)))
    (hle : ∀ k, k + 1 < m → P (k + 1) ≠ P k → F (k + 1) = C (P k + 1))
    (hleM : F m = C (P (m - 1) + 1))
    (hlast : p < P (m - 1) + 1) :
    fsum (fun x => P x == p) (fun x => G (F x) (F (x + 1))) m = G (C p) (C (p + 1)) := by
  have inv : ∀ j, j + 1 ≤ m →
      (P j < p → fsum (fun x => P x == p) (fun x => G (F x) (F (x + 1))) (j + 1) = 0) ∧
      (P j = p → fsum (fun x => P x == p) (fun x => G (F x) (F (x + 1))) (j + 1) = G (C p) (F (j + 1))) ∧
      (p < P j → fsum (fun x => P x == p) (fun x => G (F x) (F (x + 1))) (j + 1) = G (C p) (C (p + 1))) := by
    intro j
    induction j with
    | zero =>
      intro _
      rw [fsum_succ, fsum_zero]
      refine ⟨fun h => ?_, fun h => ?_, fun h => ?_⟩
      · have : ¬ P 0 = p := by omega
        simp [this]
      · simp [h, hfs0]
      · omega
    | succ j ih =>
      intro hj
      obtain ⟨i1, i2, i3⟩ := ih (by omega)
      rw [fsum_succ]
      have hn := hnest (j + 1) (by omega)
      have hmo := hmono (j + 1) (by omega)
      rcases hstep j (by omega) with hs | hs
      · -- same parent
        refine ⟨fun h => ?_, fun h => ?_, fun h => ?_⟩
        · have : ¬ P (j + 1) = p := by omega
          simp [this, i1 (by omega)]
        · rw [i2 (by omega)]
          simp only [h, beq_self_eq_true, if_true]
          rw [h] at hn
          exact (hG _ _ _ hn hmo).symm
        · have : ¬ P (j + 1) = p := by omega
          simp [this, i3 (by omega)]
      · -- next parent
        have hne : P (j + 1) ≠ P j := by omega
        refine ⟨fun h => ?_, fun h => ?_, fun h => ?_⟩
        · have : ¬ P (j + 1) = p := by omega
          simp [this, i1 (by omega)]
        · rw [i1 (by omega)]
          simp only [h, beq_self_eq_true, if_true]
          rw [hfs j (by omega) hne, h]
          simp
        · have : ¬ P (j + 1) = p := by omega
          simp only [beq_iff_eq, this, if_false]
          by_cases hpj : P j = p
          · rw [i2 hpj, hle j (by omega) hne, hpj]; simp
          · rw [i3 (by omega)]; simp
  obtain ⟨m', rfl⟩ : ∃ m', m = m' + 1 := ⟨m - 1, by omega⟩
  obtain ⟨_, i2, i3⟩ := inv m' (Nat.le_refl _)
  simp only [Nat.add_sub_cancel] at hleM hlast
  by_cases hp : P m' = p
  · rw [i2 hp, hleM, hp]
  · exact i3 (by omega)

/-- children of a coarse bin, for any additive interval function -/
theorem children_gen {G : Nat → Nat → Int} (hG : Additive G) (h : Hier) (n : Nat) (hok : HierOk h n)
    (lvl p : Nat) (hl : lvl + 1 < h.nbLevels) (hp : p < h.nbBins (lvl + 1)) :
    G ((h.lim (lvl + 1)).getD p 0) ((h.lim (lvl + 1)).getD (p + 1) 0) =
      (((List.range (h.nbBins lvl)).filter fun x => h.parent lvl x == p).map fun x =>
        G ((h.lim lvl).getD x 0) ((h.lim lvl).getD (x + 1) 0)).sum := by
  have hl0 : lvl < h.nbLevels := by omega
  have hsz := hok.sizes lvl hl0
  have hpar := hok.parOk lvl hl
  have hadj := pairwise_adj _ (hok.incr lvl hl0)
  have hm : h.nbBins lvl = (h.par lvl).length := by simp only [Hier.nbBins]; omega
  have hpos := hpar.pos
  symm
  refine children_sum_gen hG (fun k => (h.lim lvl).getD k 0) (fun k => (h.lim (lvl + 1)).getD k 0)
    (fun k => h.parent lvl k) (h.nbBins lvl) p (by omega) ?_ hpar.first ?_ ?_ ?_ ?_ ?_ ?_ ?_
  · intro k hk
    exact Nat.le_of_lt (adj_getD _ hadj k (by omega))
  · intro k hk
    exact hpar.step k (by omega)
  · intro k hk
    exact (hok.nested lvl k hl hk).1
  · exact hok.firstStart lvl 0 hl (by omega) (by simp [HState.firstChild])
  · intro k hk hne
    refine hok.firstStart lvl (k + 1) hl hk ?_
    simp only [Hier.parent] at hne
    simp [HState.firstChild]
    simpa using hne
  · intro k hk hne
    exact hok.lastEnd lvl k hl (by omega) (Or.inr hne)
  · have := hok.lastEnd lvl (h.nbBins lvl - 1) hl (by omega) (Or.inl (by omega))
    have e : h.nbBins lvl - 1 + 1 = h.nbBins lvl := by omega
    rw [e] at this
    exact this
  · have := hpar.last
    simp only [Hier.parent]
    rw [hm]
    omega

/-- coarse capacity = sum of the capacities of its children (x direction; any y range) -/
theorem group_capacity_children_x (g : DGrid) (h : Hier) (n : Nat) (hok : HierOk h n) (lvl p : Nat)
    (hl : lvl + 1 < h.nbLevels) (hp : p < h.nbBins (lvl + 1)) (y0 y1 : Nat) :
    g.groupCapacity ((h.lim (lvl + 1)).getD p 0) ((h.lim (lvl + 1)).getD (p + 1) 0) y0 y1 =
      (((List.range (h.nbBins lvl)).filter fun x => h.parent lvl x == p).map fun x =>
        g.groupCapacity ((h.lim lvl).getD x 0) ((h.lim lvl).getD (x + 1) 0) y0 y1).sum :=
  children_gen (additive_x g y0 y1) h n hok lvl p hl hp

/-- coarse capacity = sum of the capacities of its children (y direction; any x range) -/
theorem group_capacity_children_y (g : DGrid) (h : Hier) (n : Nat) (hok : HierOk h n) (lvl p : Nat)
    (hl : lvl + 1 < h.nbLevels) (hp : p < h.nbBins (lvl + 1)) (x0 x1 : Nat) :
    g.groupCapacity x0 x1 ((h.lim (lvl + 1)).getD p 0) ((h.lim (lvl + 1)).getD (p + 1) 0) =
      (((List.range (h.nbBins lvl)).filter fun y => h.parent lvl y == p).map fun y =>
        g.groupCapacity x0 x1 ((h.lim lvl).getD y 0) ((h.lim lvl).getD (y + 1) 0)).sum :=
  children_gen (additive_y g x0 x1) h n hok lvl p hl hp

/-! ### instances for the hierarchy that is actually built (non-vacuity) -/

theorem setup_level_total_x (g : DGrid) (n : Nat) (hn : 1 ≤ n) (lvl : Nat)
    (hl : lvl < (setupHierarchy n).nbLevels) (y0 y1 : Nat) :
    ((List.range ((setupHierarchy n).nbBins lvl)).map fun x =>
        g.groupCapacity (((setupHierarchy n).lim lvl).getD x 0) (((setupHierarchy n).lim lvl).getD (x + 1) 0)
          y0 y1).sum = g.groupCapacity 0 n y0 y1 :=
  level_total_x g _ n (hierarchy_wf_lem n hn) lvl hl y0 y1

example (g : DGrid) (y0 y1 : Nat) :
    g.groupCapacity 2 5 y0 y1 = g.groupCapacity 2 3 y0 y1 + g.groupCapacity 3 5 y0 y1 := by
  have := group_capacity_children_x g (setupHierarchy 5) 5 (hierarchy_wf_lem 5 (by decide)) 1 1
    (by decide) (by decide) y0 y1
  simpa [setupHierarchy, chain, canRefine, refineLimits, refineLimitsTail, refineParents, Hier.lim, Hier.par,
    Hier.nbBins, Hier.parent, List.range, List.range.loop] using this

end ColoVerif.Grid
