import ColoVerif.Proofs.DetPlaceFrame
/-
Helper lemmas for C04 (`detailed_orient`): what `DetPlace.Inv` says about orientations, which
cells keep their orientation along a history of moves, and that every optimised cell stays placed.

* `inv_orient`: in a state satisfying `Inv` a placed cell is an optimised cell that sits at the y of
  the row segment it is linked in, that segment is allowed for its polarity, its orientation is not
  INVALID and it is the one the table prescribes whenever the table prescribes one.
* `Keep s t`: rows, cell count, widths and polarities are the same and every cell without polarity
  (ANY) has the orientation it had — `place` writes `cellOrientation_[c]` only when the table answers
  something else than the keep marker UNKNOWN, and for ANY it always answers UNKNOWN.
* `PlacedMono s t`: every cell placed in `s` is placed in `t`; with `Keep`: `allPlaced` is kept.
-/
namespace ColoVerif.DetPlace
open State

/-! ### the table -/

theorem table_any (o : Orient) : cellOrientationInRow Polarity.ANY o = Orient.UNKNOWN := rfl

/-- a declared polarity never yields the keep marker on a row that has an orientation -/
theorem table_known (p : Polarity) (o : Orient) (hp : p ≠ Polarity.ANY) (ho : o ≠ Orient.UNKNOWN) :
    cellOrientationInRow p o ≠ Orient.UNKNOWN := by
  cases p <;> cases o <;> first | exact absurd rfl hp | exact absurd rfl ho | decide

/-! ### reading `Inv` -/

theorem inv_orient {s : State} (h : Inv s) {c : Int} (hc : s.validCell c) (hp : s.row c ≠ -1) :
    s.validRow (s.row c) ∧ s.isIgnored c = false ∧ s.y c = s.rowY (s.row c) ∧
    s.isRowAllowed c (s.row c) = true ∧ s.orient c ≠ Orient.INVALID ∧
    (s.pol c ≠ Polarity.ANY → s.rowOrient (s.row c) ≠ Orient.UNKNOWN →
      s.orient c = cellOrientationInRow (s.pol c) (s.rowOrient (s.row c))) := by
  have C := h.cell hc
  unfold CellOk at C
  have C2 := C.2 hp
  have C1 := C.1 C2.1
  refine ⟨h.placed_row hc hp, by simp [isIgnored, C2.1], C2.2.2.2, by simp [isRowAllowed, C2.2.1], C1.1, ?_⟩
  intro hpol hro
  exact C2.2.2.1 (table_known _ _ hpol hro)

/-! ### what a history keeps -/

structure Keep (s t : State) : Prop where
  rows : t.rows = s.rows
  nCells : t.nCells = s.nCells
  width : t.width = s.width
  pol : t.pol = s.pol
  any : ∀ d, s.pol d = Polarity.ANY → t.orient d = s.orient d

theorem Keep.refl (s : State) : Keep s s := ⟨rfl, rfl, rfl, rfl, fun _ _ => rfl⟩

theorem Keep.trans {s t u : State} (a : Keep s t) (b : Keep t u) : Keep s u :=
  ⟨b.rows.trans a.rows, b.nCells.trans a.nCells, b.width.trans a.width, b.pol.trans a.pol,
   fun d hd => (b.any d (by rw [a.pol]; exact hd)).trans (a.any d hd)⟩

theorem unplace_keep (s : State) (c : Int) : Keep s (s.unplace c) := ⟨rfl, rfl, rfl, rfl, fun _ _ => rfl⟩

/-- `place` on a cell without polarity writes back the orientation it read -/
theorem placedOrient_any (s : State) (c r : Int) (h : s.pol c = Polarity.ANY) : s.placedOrient c r = s.orient c := by
  simp [placedOrient, h, cellOrientationInRow]

theorem placeRaw_keep (s : State) (c r p x : Int) : Keep s (s.placeRaw c r p x) := by
  refine ⟨rfl, rfl, rfl, rfl, fun d hd => ?_⟩
  by_cases hdc : d = c
  · subst hdc
    simp [placeRaw, upd, placedOrient_any s d r hd]
  · simp [placeRaw, upd, hdc]

theorem place_keep {s t : State} {c r p x : Int} (e : s.place c r p x = .ok t) : Keep s t := by
  obtain ⟨rfl, -⟩ := place_ok e
  exact placeRaw_keep s c r p x

theorem insert_keep {s t : State} {c r p : Int} (e : s.insert c r p = .ok t) : Keep s t := by
  unfold State.insert at e
  split at e
  · cases e
  · cases e
  · exact (unplace_keep s c).trans (place_keep e)

theorem place2_keep {s t : State} {a b ra pa xa rb pb xb : Int}
    (e : (s.place a ra pa xa).bind (fun u => u.place b rb pb xb) = .ok t) : Keep s t := by
  obtain ⟨u, e1, e2⟩ := bind_ok e
  exact (place_keep e1).trans (place_keep e2)

theorem swap_keep {s t : State} {c1 c2 : Int} (e : s.swap c1 c2 = .ok t) : Keep s t := by
  have f0 : Keep s ((s.unplace c1).unplace c2) := (unplace_keep s c1).trans (unplace_keep _ c2)
  unfold State.swap at e
  split at e
  · cases e
  · cases e
  · split at e
    · exact f0.trans (place2_keep e)
    · split at e
      · exact f0.trans (place2_keep e)
      · exact f0.trans (place2_keep e)

theorem shift_keep {s t : State} {mv : List (Int × Int)} (e : s.shift mv = .ok t) : Keep s t := by
  unfold shift at e
  split at e
  · injection e with e
    obtain ⟨f, ef, -⟩ := setXs_eq s mv
    rw [ef] at e; subst e
    exact ⟨rfl, rfl, rfl, rfl, fun _ _ => rfl⟩
  · cases e

theorem unplaceAll_keep {s t : State} {cs : List Int} (e : s.unplaceAll cs = .ok t) : Keep s t := by
  induction cs generalizing s with
  | nil => simp [unplaceAll] at e; exact e ▸ Keep.refl s
  | cons c cs ih =>
    unfold unplaceAll at e
    split at e
    · exact (unplace_keep s c).trans (ih e)
    · cases e

theorem placeChain_keep {s t : State} {r p : Int} {l : List (Int × Int)}
    (e : s.placeChain r p l = .ok t) : Keep s t := by
  induction l generalizing s p with
  | nil => simp [placeChain] at e; exact e ▸ Keep.refl s
  | cons m rest ih =>
    obtain ⟨c, v⟩ := m
    unfold placeChain at e
    split at e
    · split at e
      · cases e
      · rename_i u eu
        exact (place_keep eu).trans (ih e)
    · cases e

theorem placeRegions_keep {s t : State} {gs : List Region} (e : s.placeRegions gs = .ok t) : Keep s t := by
  induction gs generalizing s with
  | nil => simp [placeRegions] at e; exact e ▸ Keep.refl s
  | cons g gs ih =>
    unfold placeRegions at e
    split at e
    · cases e
    · rename_i u eu
      exact (placeChain_keep eu).trans (ih e)

theorem reorder_keep {s t : State} {cells : List Int} {regions : List Region}
    (e : s.reorderWriteback cells regions = .ok t) : Keep s t := by
  unfold reorderWriteback at e
  split at e
  · cases e
  · rename_i u eu
    split at e
    · cases e
    · rename_i v ev
      split at e
      · injection e with e; exact e ▸ (unplaceAll_keep eu).trans (placeRegions_keep ev)
      · cases e

theorem step_keep {s t : State} {op : Op} (e : s.step op = .ok t) : Keep s t := by
  cases op with
  | swap c1 c2 =>
    simp only [step] at e
    split at e
    · exact swap_keep e
    · cases e
  | insert c r p =>
    simp only [step] at e
    split at e
    · exact insert_keep e
    · cases e
  | shift mv => exact shift_keep e
  | reorder cells regions => exact reorder_keep e

theorem run_keep {s t : State} {ops : List Op} (e : s.run ops = .ok t) : Keep s t := by
  induction ops generalizing s with
  | nil => simp [run] at e; exact e ▸ Keep.refl s
  | cons op ops ih =>
    unfold run at e
    split at e
    · cases e
    · rename_i u eu
      exact (step_keep eu).trans (ih e)

/-! ### placed cells stay placed -/

/-- every cell placed in `s` is placed in `t` -/
def PlacedMono (s t : State) : Prop := ∀ d, s.row d ≠ -1 → t.row d ≠ -1

theorem PlacedMono.refl (s : State) : PlacedMono s s := fun _ h => h
theorem PlacedMono.trans {s t u : State} (a : PlacedMono s t) (b : PlacedMono t u) : PlacedMono s u :=
  fun d h => b d (a d h)

theorem place_mono {s t : State} {c r p x : Int} (hr : r ≠ -1) (e : s.place c r p x = .ok t) : PlacedMono s t := by
  obtain ⟨rfl, -⟩ := place_ok e
  intro d hd
  rw [placeRaw_row]
  split
  · exact hr
  · exact hd

/-- after `place c r …` the cell `c` is in row `r` -/
theorem place_row_self {s t : State} {c r p x : Int} (e : s.place c r p x = .ok t) : t.row c = r := by
  obtain ⟨rfl, -⟩ := place_ok e
  rw [placeRaw_row]; simp

theorem insert_mono {s t : State} {c r p : Int} (hs : s.siteOk r p = true) (e : s.insert c r p = .ok t) :
    PlacedMono s t := by
  have hr : r ≠ -1 := by
    have := ((siteOk_iff s r p).1 hs).1
    unfold validRow at this; omega
  unfold State.insert at e
  split at e
  · cases e
  · cases e
  · intro d hd
    by_cases hdc : d = c
    · subst hdc
      rw [place_row_self e]; exact hr
    · apply place_mono hr e
      rw [unplace_row]; simp [hdc, hd]

theorem place2_mono {s0 s t : State} {a b ra pa xa rb pb xb : Int} (hra : ra ≠ -1) (hrb : rb ≠ -1)
    (h0 : ∀ d, d ≠ a → d ≠ b → s0.row d ≠ -1 → s.row d ≠ -1)
    (e : (s.place a ra pa xa).bind (fun u => u.place b rb pb xb) = .ok t) : PlacedMono s0 t := by
  obtain ⟨u, e1, e2⟩ := bind_ok e
  intro d hd
  by_cases hdb : d = b
  · subst hdb; rw [place_row_self e2]; exact hrb
  · by_cases hda : d = a
    · subst hda
      exact place_mono hrb e2 d (by rw [place_row_self e1]; exact hra)
    · exact place_mono hrb e2 d (place_mono hra e1 d (h0 d hda hdb hd))

theorem swap_mono {s t : State} {c1 c2 : Int} (e : s.swap c1 c2 = .ok t) : PlacedMono s t := by
  have h0 : ∀ d, d ≠ c1 → d ≠ c2 → s.row d ≠ -1 → ((s.unplace c1).unplace c2).row d ≠ -1 := by
    intro d h1 h2 hd
    rw [unplace_row, unplace_row]; simp [h1, h2, hd]
  have h0' : ∀ d, d ≠ c2 → d ≠ c1 → s.row d ≠ -1 → ((s.unplace c1).unplace c2).row d ≠ -1 :=
    fun d h2 h1 hd => h0 d h1 h2 hd
  unfold State.swap at e
  split at e
  · cases e
  · cases e
  · rename_i hcs
    have hp : s.row c1 ≠ -1 ∧ s.row c2 ≠ -1 := by
      unfold canSwap at hcs
      by_cases hp1 : s.isPlaced c1 = true
      · by_cases hp2 : s.isPlaced c2 = true
        · exact ⟨(isPlaced_iff s c1).1 hp1, (isPlaced_iff s c2).1 hp2⟩
        · simp [hp1, hp2] at hcs
      · simp [hp1] at hcs
    split at e
    · exact place2_mono hp.2 hp.1 h0 e
    · split at e
      · exact place2_mono hp.1 hp.2 h0' e
      · exact place2_mono hp.2 hp.1 h0 e

theorem shift_mono {s t : State} {mv : List (Int × Int)} (e : s.shift mv = .ok t) : PlacedMono s t := by
  unfold shift at e
  split at e
  · injection e with e
    obtain ⟨f, ef, -⟩ := setXs_eq s mv
    rw [ef] at e; subst e
    exact fun _ h => h
  · cases e

/-- `unplaceAll` touches only the rows of the listed cells -/
theorem unplaceAll_row {s t : State} {cs : List Int} (e : s.unplaceAll cs = .ok t) :
    ∀ d, d ∉ cs → t.row d = s.row d := by
  induction cs generalizing s with
  | nil => simp [unplaceAll] at e; subst e; exact fun _ _ => rfl
  | cons c cs ih =>
    unfold unplaceAll at e
    split at e
    · intro d hd
      simp only [List.mem_cons, not_or] at hd
      rw [ih e d hd.2, unplace_row]; simp [hd.1]
    · cases e

theorem placeChain_mono {s t : State} {r p : Int} {l : List (Int × Int)}
    (e : s.placeChain r p l = .ok t) : PlacedMono s t := by
  induction l generalizing s p with
  | nil => simp [placeChain] at e; exact e ▸ PlacedMono.refl s
  | cons m rest ih =>
    obtain ⟨c, v⟩ := m
    unfold placeChain at e
    split at e
    · rename_i hg
      simp only [Bool.and_eq_true] at hg
      have hr : r ≠ -1 := by
        have := ((siteOk_iff s r p).1 hg.2).1
        unfold validRow at this; omega
      split at e
      · cases e
      · rename_i u eu
        exact (place_mono hr eu).trans (ih e)
    · cases e

theorem placeRegions_mono {s t : State} {gs : List Region} (e : s.placeRegions gs = .ok t) : PlacedMono s t := by
  induction gs generalizing s with
  | nil => simp [placeRegions] at e; exact e ▸ PlacedMono.refl s
  | cons g gs ih =>
    unfold placeRegions at e
    split at e
    · cases e
    · rename_i u eu
      exact (placeChain_mono eu).trans (ih e)

theorem reorder_mono {s t : State} {cells : List Int} {regions : List Region}
    (e : s.reorderWriteback cells regions = .ok t) : PlacedMono s t := by
  unfold reorderWriteback at e
  split at e
  · cases e
  · rename_i u eu
    split at e
    · cases e
    · rename_i v ev
      split at e
      · rename_i hall
        injection e with e
        subst e
        intro d hd
        by_cases hm : d ∈ cells
        · rw [List.all_eq_true] at hall
          exact (isPlaced_iff v d).1 (hall d hm)
        · exact placeRegions_mono ev d (by rw [unplaceAll_row eu d hm]; exact hd)
      · cases e

theorem step_mono {s t : State} {op : Op} (e : s.step op = .ok t) : PlacedMono s t := by
  cases op with
  | swap c1 c2 =>
    simp only [step] at e
    split at e
    · exact swap_mono e
    · cases e
  | insert c r p =>
    simp only [step] at e
    split at e
    · rename_i hg; simp only [Bool.and_eq_true] at hg; exact insert_mono hg.2 e
    · cases e
  | shift mv => exact shift_mono e
  | reorder cells regions => exact reorder_mono e

theorem run_mono {s t : State} {ops : List Op} (e : s.run ops = .ok t) : PlacedMono s t := by
  induction ops generalizing s with
  | nil => simp [run] at e; exact e ▸ PlacedMono.refl s
  | cons op ops ih =>
    unfold run at e
    split at e
    · cases e
    · rename_i u eu
      exact (step_mono eu).trans (ih e)

theorem allPlaced_iff (s : State) :
    s.allPlaced = true ↔ ∀ c : Int, s.validCell c → s.width c ≠ -1 → s.row c ≠ -1 := by
  unfold allPlaced intsUpTo
  simp only [List.all_eq_true, List.mem_map, List.mem_range, Bool.or_eq_true, isIgnored, isPlaced,
    beq_iff_eq, bne_iff_ne, forall_exists_index, and_imp]
  constructor
  · intro h c hc hw
    unfold validCell at hc
    rcases h c c.toNat (by omega) (by simp; omega) with h | h
    · exact absurd h hw
    · exact h
  · intro h c n hn hc
    subst hc
    by_cases hw : s.width (Int.ofNat n) = -1
    · exact Or.inl hw
    · exact Or.inr (h _ (by unfold validCell; simp; omega) hw)

/-- every optimised cell is placed in every state a history reaches from a state where it is so -/
theorem run_allPlaced {s t : State} {ops : List Op} (e : s.run ops = .ok t) (h : s.allPlaced = true) :
    t.allPlaced = true := by
  have k := run_keep e
  have m := run_mono e
  rw [allPlaced_iff] at h ⊢
  intro c hc hw
  apply m
  apply h c
  · unfold validCell at hc ⊢; rw [← k.nCells]; exact hc
  · rw [← k.width]; exact hw

/-- a history that succeeds passes through the state reached by each of its prefixes -/
theorem run_prefix {s t : State} : ∀ (ops1 ops2 : List Op), s.run (ops1 ++ ops2) = .ok t →
    ∃ u, s.run ops1 = .ok u ∧ u.run ops2 = .ok t := by
  intro ops1
  induction ops1 generalizing s with
  | nil => intro ops2 e; exact ⟨s, rfl, by simpa using e⟩
  | cons op ops ih =>
    intro ops2 e
    simp only [List.cons_append] at e
    unfold run at e
    split at e
    · cases e
    · rename_i v ev
      obtain ⟨u, h1, h2⟩ := ih ops2 e
      refine ⟨u, ?_, h2⟩
      simp only [run, ev]
      exact h1

/-! ### from the circuit to the state and back -/

/-- the fields the constructor's linking pass does not write -/
def SameStatic (s t : State) : Prop :=
  t.rows = s.rows ∧ t.nCells = s.nCells ∧ t.width = s.width ∧ t.pol = s.pol ∧ t.orient = s.orient

theorem linkRow_static : ∀ (l : List Int) (s t : State) (r : Int), linkRow s r l = .ok t → SameStatic s t
  | [], s, t, r, e => by
    simp only [linkRow, Except.ok.injEq] at e
    subst e
    exact ⟨rfl, rfl, rfl, rfl, rfl⟩
  | [c], s, t, r, e => by
    simp only [linkRow, Except.ok.injEq] at e
    subst e
    exact ⟨rfl, rfl, rfl, rfl, rfl⟩
  | c1 :: c2 :: rest, s, t, r, e => by
    unfold linkRow at e
    split at e
    · cases e
    · have h := linkRow_static (c2 :: rest) _ t r e
      exact ⟨h.1, h.2.1, h.2.2.1, h.2.2.2.1, h.2.2.2.2⟩

theorem linkRows_static : ∀ (css : List (List Int)) (s t : State) (r : Nat), linkRows s r css = .ok t → SameStatic s t
  | [], s, t, r, e => by
    simp only [linkRows, Except.ok.injEq] at e
    subst e
    exact ⟨rfl, rfl, rfl, rfl, rfl⟩
  | cs :: css, s, t, r, e => by
    unfold linkRows at e
    split at e
    · cases e
    · rename_i u eu
      have h2 := linkRows_static css u t (r + 1) e
      have h1 : SameStatic s u := by
        cases cs with
        | nil =>
          have h := linkRow_static _ _ u _ eu
          exact ⟨h.1, h.2.1, h.2.2.1, h.2.2.2.1, h.2.2.2.2⟩
        | cons c0 cs0 =>
          have h := linkRow_static _ _ u _ eu
          exact ⟨h.1, h.2.1, h.2.2.1, h.2.2.2.1, h.2.2.2.2⟩
      exact ⟨h2.1.trans h1.1, h2.2.1.trans h1.2.1, h2.2.2.1.trans h1.2.2.1, h2.2.2.2.1.trans h1.2.2.2.1,
        h2.2.2.2.2.trans h1.2.2.2.2⟩

theorem ofList_get {α : Type} (d : α) (l : List α) (i : Nat) (a : α) (h : l[i]? = some a) :
    ofList d l (Int.ofNat i) = a := by
  simp only [ofList, Int.ofNat_eq_natCast]
  rw [if_neg (by omega)]
  simp [List.getD_eq_getElem?_getD, h]

/-- what the state built from a circuit knows about cell `i`: polarity and orientation of the circuit,
width −1 (ignored) for fixed cells and cells that are not one row high, the placed width otherwise -/
theorem fromIspd_fields (c : Circuit) (s : State) (e : fromIspdCircuit c = .ok s) :
    ∃ h, c.rowHeight = some h ∧ s.nCells = c.cells.length ∧
      s.rows = sortRows (c.computeRows ((c.cells.filter fun cl => !cl.fixed && cl.placedHeight ≠ h).map Cell.placement)) ∧
      ∀ (i : Nat) (cl : Cell), c.cells[i]? = some cl →
        s.pol (Int.ofNat i) = cl.pol ∧ s.orient (Int.ofNat i) = cl.orient ∧
        s.width (Int.ofNat i) = (if cl.fixed then -1 else if cl.placedHeight ≠ h then -1 else cl.placedWidth) := by
  unfold fromIspdCircuit at e
  split at e
  · cases e
  · rename_i h hrh
    refine ⟨h, hrh, ?_⟩
    unfold construct at e
    simp only at e
    split at e
    · cases e
    · split at e
      · cases e
      · rename_i u eu
        split at e
        · injection e with e
          subst e
          obtain ⟨h1, h2, h3, h4, h5⟩ := linkRows_static _ _ _ _ eu
          refine ⟨h2, h1, ?_⟩
          intro i cl hcl
          rw [h3, h4, h5]
          refine ⟨ofList_get _ _ i _ (by simp [List.getElem?_map, hcl]), ofList_get _ _ i _ (by simp [List.getElem?_map, hcl]),
            ofList_get _ _ i _ (by simp [List.getElem?_map, hcl])⟩
        · cases e

/-- `exportPlacement` cell by cell -/
theorem export_cell (t : State) (c : Circuit) (i : Nat) (cl : Cell) (h : c.cells[i]? = some cl) :
    (exportPlacement t c).cells[i]? =
      some (if cl.fixed then cl
            else { cl with x := t.x (Int.ofNat i), y := t.y (Int.ofNat i), orient := t.orient (Int.ofNat i) }) := by
  simp [exportPlacement, List.getElem?_map, List.getElem?_zipIdx, h]

end ColoVerif.DetPlace
