import ColoVerif.Model.Transp1dLocal
import ColoVerif.Proofs.Transp1dBalanced
/-
Shared definitions of the optimality proof for the slack case (C14):
`LocalCert` (= `locCertOk`, as a Prop over price functions) and `GlobCert`, the dual certificate
on the sorted instance handed to the solver.
-/
namespace ColoVerif.Transp1d

theorem loP_eq (sv : Solver) (p : List Int) (i : Nat) : loP sv p i = lo sv p i := rfl
theorem hiP_eq (sv : Solver) (p : List Int) (i : Nat) : hiP sv p i = Transp1d.hi sv p i := rfl
theorem ovP_eq (sv : Solver) (p : List Int) (i j : Nat) : ovP sv p i j = ov sv p i j := rfl

/-- local certificate for positions `p` and sink prices `be` (neighbouring sinks only) -/
structure LocalCert (sv : Solver) (p : List Int) (be : Nat → Int) : Prop where
  nn : ∀ j, j < sv.v.length → 0 ≤ be j
  sat : ∀ j, j < sv.v.length → 0 < be j →
    fillP sv p j sv.u.length = sv.D.getD (j + 1) 0 - sv.D.getD j 0
  right : ∀ i j, i < sv.u.length → j + 1 < sv.v.length → 0 < ov sv p i j →
    cs sv i j + be j ≤ cs sv i (j + 1) + be (j + 1)
  left : ∀ i j, i < sv.u.length → j + 1 < sv.v.length → 0 < ov sv p i (j + 1) →
    cs sv i (j + 1) + be (j + 1) ≤ cs sv i j + be j

/-- global dual certificate on the sorted instance: every source is, prices included, cheapest in
each sink it overlaps -/
structure GlobCert (sv : Solver) (p : List Int) (be : Nat → Int) : Prop where
  nn : ∀ j, j < sv.v.length → 0 ≤ be j
  sat : ∀ j, j < sv.v.length → 0 < be j →
    fillP sv p j sv.u.length = sv.D.getD (j + 1) 0 - sv.D.getD j 0
  opt : ∀ i j j', i < sv.u.length → j < sv.v.length → j' < sv.v.length → 0 < ov sv p i j →
    cs sv i j + be j ≤ cs sv i j' + be j'

end ColoVerif.Transp1d
