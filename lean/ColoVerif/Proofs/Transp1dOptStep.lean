import ColoVerif.Proofs.Transp1dOptLib
/-
One iteration of the `while` loop of `push`: `pushOnce` either takes `pushToNewSink` or
`pushToLastSink`, characterised by their effect on `(L, J, events)` through `evS`.
-/
namespace ColoVerif.Transp1d

/-! ### the two elementary moves on an arbitrary state -/

/-- `pushToNewSink` from `lastOcc = J` runs exactly one iteration of `snkEvLoop` -/
theorem pushToNewSink_eq (sv : Solver) (wf : sv.WF) (i : Nat) (hi : i < sv.u.length) (st : St)
    (hocc : st.lastOcc + 1 < sv.v.length) :
    pushToNewSink sv i st = .ok { st with
      events := emplacePos st.events
        (min (sv.D.getD (st.lastOcc + 1) 0 - sv.S.getD i 0) st.lastPosition)
        (cs sv i st.lastOcc - cs sv i (st.lastOcc + 1)),
      lastOcc := st.lastOcc + 1 } := by
  unfold pushToNewSink pushNewSinkEvents
  have h0 : ¬ st.lastOcc + 1 ≤ st.lastOcc := by omega
  have h1 : st.lastOcc + 1 - st.lastOcc = 0 + 1 := by omega
  rw [if_neg h0, h1]
  unfold snkEvLoop
  simp only [get_ok' sv.D (st.lastOcc + 1) (by have := wf.hD; omega),
    get_ok' sv.S i (by have := wf.hS; omega), cost_ok sv i st.lastOcc hi (by omega),
    cost_ok sv i (st.lastOcc + 1) hi hocc, bind, Except.bind]
  unfold snkEvLoop
  rfl

theorem newSink_step (sv : Solver) (wf : sv.WF) (i : Nat) (hi : i < sv.u.length) (st0 st' : St)
    (hocc : st0.lastOcc + 1 < sv.v.length) (ei : EvInv st0)
    (hB : sv.S.getD i 0 + st0.lastPosition ≤ sv.D.getD (st0.lastOcc + 1) 0)
    (e : pushToNewSink sv i st0 = .ok st') :
    st'.lastOcc = st0.lastOcc + 1 ∧ st'.lastPosition = st0.lastPosition ∧ st'.pRev = st0.pRev ∧
    st'.optSink = st0.optSink ∧
    (∀ y, 0 < y → evS st'.events y =
      (if y ≤ st0.lastPosition then cs sv i st0.lastOcc - cs sv i (st0.lastOcc + 1) else 0)
        + evS st0.events y) ∧
    EvInv st' := by
  rw [pushToNewSink_eq sv wf i hi st0 hocc] at e
  injection e with e
  subst e
  have hmin : min (sv.D.getD (st0.lastOcc + 1) 0 - sv.S.getD i 0) st0.lastPosition
      = st0.lastPosition := by omega
  refine ⟨rfl, rfl, rfl, rfl, ?_, ⟨?_, ?_⟩⟩
  · intro y hy
    simp only
    rw [evS_emplacePos _ _ _ _ hy, hmin]
  · exact sorted_emplacePos _ _ _ ei.sorted
  · intro e0 he0
    rcases mem_emplacePos _ _ _ _ he0 with rfl | he0
    · simp only; omega
    · exact ei.le e0 he0

theorem lastSink_step (sv : Solver) (dom : sv.Dom) (i : Nat) (hi : i < sv.u.length) (st0 st' : St)
    (hocc : st0.lastOcc < sv.v.length) (ei : EvInv st0)
    (hc : sv.D.getD (st0.lastOcc + 1) 0 - sv.S.getD (i + 1) 0 < st0.lastPosition)
    (hL : 0 < st0.lastPosition)
    (e : pushToLastSink sv i st0 = .ok st') :
    st'.lastOcc = st0.lastOcc ∧ st'.pRev = st0.pRev ∧ st'.optSink = st0.optSink ∧
    st'.lastPosition < st0.lastPosition ∧
    max (sv.D.getD (st0.lastOcc + 1) 0 - sv.S.getD (i + 1) 0) 0 ≤ st'.lastPosition ∧
    (∀ y, 0 < y → y ≤ st'.lastPosition → evS st'.events y = evS st0.events y) ∧
    (∀ y, st'.lastPosition < y → y ≤ st0.lastPosition →
      evS st0.events y = evS st0.events st0.lastPosition) ∧
    EvInv st' := by
  have wf := dom.wf
  have hr_sorted := sorted_popAt st0.lastPosition st0.events ei.sorted
  have hr_lt := lt_popAt st0.lastPosition st0.events ei.sorted ei.le
  have hpop := evS_popAt st0.lastPosition st0.events
  unfold pushToLastSink at e
  simp only [get_ok' sv.D (st0.lastOcc + 1) (by have := wf.hD; omega),
    get_ok' sv.S (i + 1) (by have := wf.hS; omega), bind, Except.bind, pure, Except.pure] at e
  generalize popAt st0.lastPosition st0.events = r at *
  generalize hmp : max (sv.D.getD (st0.lastOcc + 1) 0 - sv.S.getD (i + 1) 0) 0 = mp at *
  have hge := topOr_ge mp r.2
  have hgm := topOr_ge_mem mp r.2 hr_sorted
  have hlt : topOr mp r.2 < st0.lastPosition := by
    rcases topOr_cases mp r.2 with h | ⟨e0, es, h1, h2, _⟩
    · rw [h]; omega
    · rw [h2]; exact hr_lt e0 (by rw [h1]; exact List.mem_cons_self ..)
  injection e with e
  subst e
  refine ⟨rfl, rfl, rfl, hlt, hge, ?_, ?_, ⟨?_, ?_⟩⟩
  · intro y hy hyl
    simp only at hyl ⊢
    rw [evS_emplacePos _ _ _ _ hy, hpop y, if_pos hyl, if_pos (by omega)]
  · intro y h1 h2
    simp only at h1
    have hz : evS r.2 y = 0 := by
      apply evS_zero
      intro e0 he0
      have := hgm e0 he0
      omega
    rw [hpop y, hpop st0.lastPosition, if_pos h2, if_pos (Int.le_refl _), hz,
      evS_zero r.2 st0.lastPosition hr_lt]
  · exact sorted_emplacePos _ _ _ hr_sorted
  · intro e0 he0
    rcases mem_emplacePos _ _ _ _ he0 with rfl | he0
    · exact Int.le_refl _
    · exact hgm e0 he0

/-! ### one iteration -/

theorem pushOnce_cases (sv : Solver) (sd : SwDom sv) (i : Nat) (st st' : St) (inv : LoopInv sv i st)
    (hc : Overflow sv i st) (e : pushOnce sv i st = .ok st') :
    StepNS sv i st st' ∨ StepTL sv i st st' := by
  have wf := sd.dom.wf
  have hi := inv.ilt
  have hocc := inv.occ
  unfold Overflow at hc
  unfold pushOnce at e
  by_cases h1 : st.lastOcc + 1 = sv.nbSinks
  · rw [if_pos h1] at e
    have h1' : st.lastOcc + 1 = sv.v.length := h1
    have hL : 0 < st.lastPosition := by
      have := sd.dom.Smono (i + 1) sv.u.length (by omega) (Nat.le_refl _)
      have := sd.dom.slack
      rw [h1'] at hc
      omega
    obtain ⟨a, b, c, d, f, g, h, k⟩ := lastSink_step sv sd.dom i hi st st' hocc inv.ei hc hL e
    exact Or.inr ⟨Or.inl h1', a, b, c, d, f, g, h, k⟩
  · rw [if_neg h1] at e
    have h1' : st.lastOcc + 1 < sv.v.length := by
      have : ¬ st.lastOcc + 1 = sv.v.length := h1
      omega
    by_cases h2 : st.lastPosition = 0
    · rw [if_pos h2] at e
      obtain ⟨a, b, c, d, f, g⟩ := newSink_step sv wf i hi st st' h1' inv.ei inv.hB e
      exact Or.inl ⟨h1', Or.inl h2, a, b, c, d, f, g⟩
    · rw [if_neg h2] at e
      simp only [cost_ok sv i (st.lastOcc + 1) hi h1', cost_ok sv i st.lastOcc hi hocc,
        bind, Except.bind] at e
      obtain ⟨g1, g2, g3, g4, g5, _⟩ := getSlopeKeep_spec st inv.pos inv.ei
      have hs : (getSlopeKeep st).1 = evS st.events st.lastPosition := popAt_fst_eq st inv.ei
      have hpos := inv.pos
      split at e
      · rename_i hcond
        have hcond' : cs sv i (st.lastOcc + 1) ≤ evS st.events st.lastPosition + cs sv i st.lastOcc := by
          rw [← hs]; exact hcond
        obtain ⟨a, b, c, d, f, g⟩ := newSink_step sv wf i hi (getSlopeKeep st).2 st'
          (by rw [g3]; exact h1') g1 (by rw [g2, g3]; exact inv.hB) e
        refine Or.inl ⟨h1', Or.inr hcond', a.trans (by rw [g3]), b.trans g2, c.trans g4,
          d.trans g5, ?_, g⟩
        intro y hy
        rw [f y hy, g2, g3, evS_getSlopeKeep]
      · rename_i hcond
        have hcond' : evS st.events st.lastPosition + cs sv i st.lastOcc < cs sv i (st.lastOcc + 1) := by
          rw [← hs]; exact Int.lt_of_not_ge hcond
        obtain ⟨a, b, c, d, f, g, h, k⟩ := lastSink_step sv sd.dom i hi (getSlopeKeep st).2 st'
          (by rw [g3]; exact hocc) g1 (by rw [g2, g3]; exact hc) (by rw [g2]; omega) e
        refine Or.inr ⟨Or.inr ⟨h2, hcond'⟩, a.trans g3, b.trans g4, c.trans g5, by rw [← g2]; exact d,
          by rw [← g3]; exact f, ?_, ?_, k⟩
        · intro y hy hyl
          rw [g y hy hyl, evS_getSlopeKeep]
        · intro y hy hyl
          have := h y hy (by rw [g2]; exact hyl)
          rw [evS_getSlopeKeep, evS_getSlopeKeep, g2] at this
          exact this

/-! ### the loop invariant after one iteration -/

theorem loopInv_of_stepNS (sv : Solver) (sd : SwDom sv) (i : Nat) (st st' : St)
    (inv : LoopInv sv i st) (hc : Overflow sv i st) (ns : StepNS sv i st st')
    (hr : st'.lastOcc + 1 < sv.v.length →
      sv.D.getD (st'.lastOcc + 1) 0 ≤ sv.S.getD (i + 1) 0 + st'.lastPosition →
      ∀ j, 0 ≤ cs sv i (st'.lastOcc + 1) - cs sv i (sigR sv (sv.S.getD i 0 + st'.lastPosition))
        + lamRj sv st'.pRev st'.lastPosition j)
    (ht : sv.S.getD (i + 1) 0 + st'.lastPosition < sv.D.getD (st'.lastOcc + 1) 0 →
      ∀ j, 0 ≤ cs sv i st'.lastOcc - cs sv i (sigR sv (sv.S.getD i 0 + st'.lastPosition))
        + lamRj sv st'.pRev st'.lastPosition j) :
    LoopInv sv i st' := by
  unfold Overflow at hc
  have hD := sd.dom.Dmono (st.lastOcc + 1) (st.lastOcc + 1 + 1) (by omega) (by have := ns.room; omega)
  have hB := inv.hB
  -- the new cumulated slope
  have hev : ∀ x, 0 < x → x ≤ st.lastPosition →
      evS st'.events x = cs sv i st.lastOcc - cs sv i (st.lastOcc + 1) + evS st.events x := by
    intro x hx hxl
    rw [ns.ev x hx, if_pos hxl]
  have hmono : ∀ x x', 0 < x → x ≤ x' → x' ≤ st.lastPosition → evS st'.events x' ≤ evS st'.events x := by
    intro x x' hx hxx hxl
    rw [hev x hx (by omega), hev x' (by omega) hxl]
    have := inv.mono.mono x x' hx hxx hxl
    omega
  have hnn : 0 < st.lastPosition → 0 ≤ evS st'.events st.lastPosition := by
    intro hL
    rw [hev _ hL (Int.le_refl _)]
    rcases ns.dec with h | h
    · omega
    · omega
  refine
    { len := by rw [ns.pRev]; exact inv.len
      ilt := inv.ilt
      occ := by rw [ns.occ]; exact ns.room
      pos := by rw [ns.pos]; exact inv.pos
      ei := ns.ei
      hJ := by rw [ns.occ, ns.pos]; omega
      hB := by rw [ns.occ, ns.pos]; omega
      opt := by rw [ns.optS]; exact inv.opt
      oJ := by rw [ns.optS, ns.occ]; have := inv.oJ; omega
      iev := ?_
      mono := ⟨by rw [ns.pos]; exact hmono, by rw [ns.pos]; exact hnn⟩
      decU := ?_
      rinv := hr
      rtop := ht
      lof := by rw [ns.pos, ns.pRev, ns.optS]; exact inv.lof
      facts := by rw [ns.pRev]; exact inv.facts }
  · intro x hx hxl
    rw [ns.pos] at hxl
    rw [ns.occ, ns.pRev, hev x hx hxl, inv.iev x hx hxl]
    omega
  · intro t hot htJ x hx hxl
    rw [ns.optS] at hot
    rw [ns.occ] at htJ
    rw [ns.pos] at hxl
    rw [ns.occ]
    by_cases h : t ≤ st.lastOcc
    · have := inv.decU t hot h x hx hxl
      rw [hev x hx hxl]
      omega
    · have ht' : t = st.lastOcc + 1 := by omega
      subst ht'
      have h1 := hmono x st.lastPosition hx hxl (Int.le_refl _)
      have h2 := hnn (by omega)
      omega

theorem loopInv_of_stepTL (sv : Solver) (sd : SwDom sv) (i : Nat) (st st' : St)
    (inv : LoopInv sv i st) (tl : StepTL sv i st st')
    (hr : st'.lastOcc + 1 < sv.v.length →
      sv.D.getD (st'.lastOcc + 1) 0 ≤ sv.S.getD (i + 1) 0 + st'.lastPosition →
      ∀ j, 0 ≤ cs sv i (st'.lastOcc + 1) - cs sv i (sigR sv (sv.S.getD i 0 + st'.lastPosition))
        + lamRj sv st'.pRev st'.lastPosition j)
    (ht : sv.S.getD (i + 1) 0 + st'.lastPosition < sv.D.getD (st'.lastOcc + 1) 0 →
      ∀ j, 0 ≤ cs sv i st'.lastOcc - cs sv i (sigR sv (sv.S.getD i 0 + st'.lastPosition))
        + lamRj sv st'.pRev st'.lastPosition j) :
    LoopInv sv i st' := by
  have hD := sd.dom.Dmono st.lastOcc (st.lastOcc + 1) (by omega) (by have := inv.occ; omega)
  have hB := inv.hB
  have hlt := tl.lt
  have hge := tl.ge
  refine
    { len := by rw [tl.pRev]; exact inv.len
      ilt := inv.ilt
      occ := by rw [tl.occ]; exact inv.occ
      pos := by omega
      ei := tl.ei
      hJ := by rw [tl.occ]; omega
      hB := by rw [tl.occ]; omega
      opt := by rw [tl.optS]; exact inv.opt
      oJ := by rw [tl.optS, tl.occ]; exact inv.oJ
      iev := ?_
      mono := ⟨?_, ?_⟩
      decU := ?_
      rinv := hr
      rtop := ht
      lof := ?_
      facts := by rw [tl.pRev]; exact inv.facts }
  · intro x hx hxl
    rw [tl.occ, tl.pRev, tl.ev x hx hxl]
    exact inv.iev x hx (by omega)
  · intro x x' hx hxx hxl
    rw [tl.ev x hx (by omega), tl.ev x' (by omega) hxl]
    exact inv.mono.mono x x' hx hxx (by omega)
  · intro hL
    rw [tl.ev _ hL (Int.le_refl _)]
    have h1 := inv.mono.mono st'.lastPosition st.lastPosition hL (by omega) (Int.le_refl _)
    have h2 := inv.mono.nn (by omega)
    omega
  · intro t hot htJ x hx hxl
    rw [tl.optS] at hot
    rw [tl.occ] at htJ
    rw [tl.occ, tl.ev x hx hxl]
    exact inv.decU t hot htJ x hx (by omega)
  · intro x hx hxl hp
    rw [tl.pRev] at hp
    rw [tl.optS]
    exact inv.lof x hx (by omega) hp

/-- all fields of `LoopInv` except `rinv`/`rtop` are re-established by one iteration -/
theorem pushOnce_loopInv_of_right (sv : Solver) (sd : SwDom sv) (i : Nat) (st st' : St)
    (inv : LoopInv sv i st) (hc : Overflow sv i st) (e : pushOnce sv i st = .ok st')
    (hr : st'.lastOcc + 1 < sv.v.length →
      sv.D.getD (st'.lastOcc + 1) 0 ≤ sv.S.getD (i + 1) 0 + st'.lastPosition →
      ∀ j, 0 ≤ cs sv i (st'.lastOcc + 1) - cs sv i (sigR sv (sv.S.getD i 0 + st'.lastPosition))
        + lamRj sv st'.pRev st'.lastPosition j)
    (ht : sv.S.getD (i + 1) 0 + st'.lastPosition < sv.D.getD (st'.lastOcc + 1) 0 →
      ∀ j, 0 ≤ cs sv i st'.lastOcc - cs sv i (sigR sv (sv.S.getD i 0 + st'.lastPosition))
        + lamRj sv st'.pRev st'.lastPosition j) :
    LoopInv sv i st' := by
  rcases pushOnce_cases sv sd i st st' inv hc e with ns | tl
  · exact loopInv_of_stepNS sv sd i st st' inv hc ns hr ht
  · exact loopInv_of_stepTL sv sd i st st' inv tl hr ht

end ColoVerif.Transp1d
