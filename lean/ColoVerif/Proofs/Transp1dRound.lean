import ColoVerif.Proofs.Transp1dSorter
/-
Rounding: the walk of `computeAssignment` returns the unique sink whose interval of the
cumulative-demand axis contains the rounding position.
-/
namespace ColoVerif.Transp1d

theorem prefixFrom_lt_succ (acc : Int) (l : List Int) (hpos : ∀ x ∈ l, 0 < x) (i : Nat)
    (h : i < l.length) : (prefixFrom acc l).getD i 0 < (prefixFrom acc l).getD (i + 1) 0 := by
  rw [prefixFrom_succ acc l i h]
  have := hpos _ (getD_mem_of_lt l i h)
  omega

theorem prefixFrom_mono (acc : Int) (l : List Int) (hpos : ∀ x ∈ l, 0 < x) (i k : Nat)
    (hik : i ≤ k) (hk : k ≤ l.length) :
    (prefixFrom acc l).getD i 0 ≤ (prefixFrom acc l).getD k 0 := by
  induction k with
  | zero =>
    have : i = 0 := by omega
    subst this; exact Int.le_refl _
  | succ k ih =>
    by_cases h : i = k + 1
    · subst h; exact Int.le_refl _
    · have h1 := ih (by omega) (by omega)
      have h2 := prefixFrom_lt_succ acc l hpos k (by omega)
      omega

theorem walk_spec (D : List Int) (pos : Int) (rest : List Int) (cs : Nat)
    (hr : rest = D.drop (cs + 1)) (cs' : Nat) (rest' : List Int)
    (e : walk pos rest cs = .ok (cs', rest')) :
    rest' = D.drop (cs' + 1) ∧ cs ≤ cs' ∧ cs' + 1 < D.length ∧ pos < D.getD (cs' + 1) 0 ∧
      (cs < cs' → D.getD cs' 0 ≤ pos) := by
  induction rest generalizing cs with
  | nil => simp [walk] at e
  | cons x xs ih =>
    have hlen : cs + 1 < D.length := by
      by_cases h : cs + 1 < D.length
      · exact h
      · rw [List.drop_of_length_le (by omega)] at hr
        simp at hr
    have hx : D.getD (cs + 1) 0 = x := by
      have : (D.drop (cs + 1))[0]? = some x := by rw [← hr]; rfl
      rw [List.getElem?_drop] at this
      simp only [Nat.add_zero] at this
      simp [List.getD_eq_getElem?_getD, this]
    have hxs : xs = D.drop (cs + 1 + 1) := by
      have : (D.drop (cs + 1)).tail = xs := by rw [← hr]; rfl
      rw [← this, List.tail_drop]
    unfold walk at e
    by_cases hle : x ≤ pos
    · simp only [hle, if_true] at e
      obtain ⟨h1, h2, h3, h4, h5⟩ := ih (cs + 1) hxs e
      refine ⟨h1, by omega, h3, h4, ?_⟩
      intro _
      by_cases hc : cs + 1 = cs'
      · rw [← hc, hx]; exact hle
      · exact h5 (by omega)
    · simp only [hle, if_false] at e
      have e' := Except.ok.inj e
      have e1 : cs = cs' := congrArg Prod.fst e'
      have e2 : x :: xs = rest' := congrArg Prod.snd e'
      subst e1
      refine ⟨by rw [← e2, hr], Nat.le_refl _, hlen, by rw [hx]; omega, fun h => absurd h (Nat.lt_irrefl _)⟩

/-- the walk finds the sink `j` whose interval `[D j, D (j+1))` contains `pos` -/
theorem walk_unique (d : List Int) (hpos : ∀ x ∈ d, 0 < x) (pos : Int) (cs j cs' : Nat)
    (rest' : List Int)
    (e : walk pos ((prefixFrom 0 d).drop (cs + 1)) cs = .ok (cs', rest'))
    (hstart : (prefixFrom 0 d).getD cs 0 ≤ pos) (hj : j < d.length)
    (h1 : (prefixFrom 0 d).getD j 0 ≤ pos) (h2 : pos < (prefixFrom 0 d).getD (j + 1) 0) :
    cs' = j ∧ rest' = (prefixFrom 0 d).drop (j + 1) := by
  obtain ⟨k1, k2, k3, k4, k5⟩ := walk_spec (prefixFrom 0 d) pos _ cs rfl cs' rest' e
  rw [prefixFrom_length] at k3
  have hD : (prefixFrom 0 d).getD cs' 0 ≤ pos := by
    by_cases hc : cs < cs'
    · exact k5 hc
    · have : cs = cs' := by omega
      rw [← this]; exact hstart
  have : cs' = j := by
    by_cases hlt : cs' < j
    · have := prefixFrom_mono 0 d hpos (cs' + 1) j (by omega) (by omega)
      omega
    · by_cases hgt : j < cs'
      · have := prefixFrom_mono 0 d hpos (j + 1) cs' (by omega) (by omega)
        omega
      · omega
  exact ⟨this, by rw [k1, this]⟩

theorem sortedSolver_slack (pb : Problem) (hv : checkOk pb = true) :
    0 ≤ (sortedSolver pb).D.getD (sortedSolver pb).v.length 0
      - (sortedSolver pb).S.getD (sortedSolver pb).u.length 0 := by
  obtain ⟨hs, hd, hsn, hdn, hle⟩ := (checkOk_iff pb).mp hv
  have wf := sortedSolver_wf pb
  have h2 : (sortedSolver pb).s.sum = pb.s.sum := sum_ord pb.u pb.s hs hsn
  have h3 : (sortedSolver pb).d.sum = pb.d.sum := sum_ord pb.v pb.d hd hdn
  have eD : (sortedSolver pb).D = prefixFrom 0 (sortedSolver pb).d := rfl
  have eS : (sortedSolver pb).S = prefixFrom 0 (sortedSolver pb).s := rfl
  rw [← wf.hd, ← wf.hs, eD, eS, prefixFrom_last, prefixFrom_last]
  omega

/-- Geometry of the positions returned by `run` on the instance handed to the solver: source `i`
occupies `[S i + p i, S (i+1) + p i]` on the cumulative-demand axis; these intervals are inside
`[0, D.back()]`, in order and disjoint. -/
theorem run_geometry (fuel : Nat) (pb : Problem) (hv : checkOk pb = true) :
    Safe (fun p => p.length = (sortedSolver pb).u.length ∧
      (∀ i, i < (sortedSolver pb).u.length → 0 ≤ p.getD i 0 ∧
        (sortedSolver pb).S.getD (i + 1) 0 + p.getD i 0
          ≤ (sortedSolver pb).D.getD (sortedSolver pb).v.length 0) ∧
      (∀ i, i + 1 < (sortedSolver pb).u.length →
        (sortedSolver pb).S.getD (i + 1) 0 + p.getD i 0
          ≤ (sortedSolver pb).S.getD (i + 1) 0 + p.getD (i + 1) 0))
      (run (sortedSolver pb) fuel) := by
  have wf := sortedSolver_wf pb
  have hsl := sortedSolver_slack pb hv
  refine (run_safe (sortedSolver pb) wf fuel (sortedSolver_sinks pb hv)).mono ?_
  intro p hp
  refine ⟨hp.len, ?_, ?_⟩
  · intro i hi
    have hmem : p.getD i 0 ∈ p := getD_mem_of_lt p i (by rw [hp.len]; exact hi)
    have h1 := hp.nn hsl _ hmem
    have h2 := hp.le _ hmem
    have h3 : (sortedSolver pb).S.getD (i + 1) 0 ≤ (sortedSolver pb).S.getD (sortedSolver pb).u.length 0 := by
      have eS : (sortedSolver pb).S = prefixFrom 0 (sortedSolver pb).s := rfl
      rw [eS, ← wf.hs]
      exact prefixFrom_le_last 0 _ (fun x hx => Int.le_of_lt (sortedSolver_spos pb x hx)) (i + 1)
        (by rw [wf.hs]; omega)
    exact ⟨h1, by omega⟩
  · intro i hi
    have := hp.mono i (by rw [hp.len]; exact hi)
    omega

end ColoVerif.Transp1d
