import ColoVerif.Proofs.Transp1dSorter
/-
Rounding: the walk of `computeAssignment` returns the unique sink whose interval of the
cumulative-demand axis contains the rounding position.
-/
namespace ColoVerif.Transp1d

theorem walk_spec (D : List Int) (pos : Int) (rest : List Int) (cs : Nat)
    (hr : rest = D.drop (cs + 1)) (cs' : Nat) (rest' : List Int)
    (e : walk pos rest cs = .ok (cs', rest')) :
    rest' = D.drop (cs' + 1) ∧ cs ≤ cs' ∧ cs' + 1 < D.length ∧ pos < D.getD (cs' + 1) 0 ∧
      (cs < cs' → D.getD cs' 0 ≤ pos) := by
  induction rest generalizing cs with
  | nil => simp [walk] at e
  | cons x xs ih =>
    have hlen : cs + 1 < D.length := by
      by_cases h : cs + 1 < D.length
      · exact h
      · rw [List.drop_of_length_le (by omega)] at hr
        simp at hr
    have hx : D.getD (cs + 1) 0 = x := by
      have : (D.drop (cs + 1))[0]? = some x := by rw [← hr]; rfl
      rw [List.getElem?_drop] at this
      simp only [Nat.add_zero] at this
      simp [List.getD_eq_getElem?_getD, this]
    have hxs : xs = D.drop (cs + 1 + 1) := by
      have : (D.drop (cs + 1)).tail = xs := by rw [← hr]; rfl
      rw [← this, List.tail_drop]
    unfold walk at e
    by_cases hle : x ≤ pos
    · simp only [hle, if_true] at e
      obtain ⟨h1, h2, h3, h4, h5⟩ := ih (cs + 1) hxs e
      refine ⟨h1, by omega, h3, h4, ?_⟩
      intro _
      by_cases hc : cs + 1 = cs'
      · rw [← hc, hx]; exact hle
      · exact h5 (by omega)
    · simp only [hle, if_false] at e
      have e' := Except.ok.inj e
      have e1 : cs = cs' := congrArg Prod.fst e'
      have e2 : x :: xs = rest' := congrArg Prod.snd e'
      subst e1
      refine ⟨by rw [← e2, hr], Nat.le_refl _, hlen, by rw [hx]; omega, fun h => absurd h (Nat.lt_irrefl _)⟩

/-- the walk finds the sink `j` whose interval `[D j, D (j+1))` contains `pos` -/
theorem walk_unique (d : List Int) (hpos : ∀ x ∈ d, 0 < x) (pos : Int) (cs j cs' : Nat)
    (rest' : List Int)
    (e : walk pos ((prefixFrom 0 d).drop (cs + 1)) cs = .ok (cs', rest'))
    (hstart : (prefixFrom 0 d).getD cs 0 ≤ pos) (hj : j < d.length)
    (h1 : (prefixFrom 0 d).getD j 0 ≤ pos) (h2 : pos < (prefixFrom 0 d).getD (j + 1) 0) :
    cs' = j ∧ rest' = (prefixFrom 0 d).drop (j + 1) := by
  obtain ⟨k1, k2, k3, k4, k5⟩ := walk_spec (prefixFrom 0 d) pos _ cs rfl cs' rest' e
  rw [prefixFrom_length] at k3
  have hD : (prefixFrom 0 d).getD cs' 0 ≤ pos := by
    by_cases hc : cs < cs'
    · exact k5 hc
    · have : cs = cs' := by omega
      rw [← this]; exact hstart
  have : cs' = j := by
    by_cases hlt : cs' < j
    · have := prefixFrom_mono 0 d hpos (cs' + 1) j (by omega) (by omega)
      omega
    · by_cases hgt : j < cs'
      · have := prefixFrom_mono 0 d hpos (j + 1) cs' (by omega) (by omega)
        omega
      · omega
  exact ⟨this, by rw [k1, this]⟩

/-- Geometry of the positions returned by `run` on the instance handed to the solver: source `i`
occupies `[S i + p i, S (i+1) + p i]` on the cumulative-demand axis; these intervals are inside
`[0, D.back()]`, in order and disjoint. -/
theorem run_geometry (pb : Problem) (hv : checkOk pb = true) :
    ∃ p, run (sortedSolver pb) = .ok p ∧ RunPost (sortedSolver pb) p ∧
      p.length = (sortedSolver pb).u.length ∧
      (∀ i, i < (sortedSolver pb).u.length → 0 ≤ p.getD i 0 ∧
        (sortedSolver pb).S.getD (i + 1) 0 + p.getD i 0
          ≤ (sortedSolver pb).D.getD (sortedSolver pb).v.length 0) ∧
      (∀ i, i + 1 < (sortedSolver pb).u.length →
        (sortedSolver pb).S.getD (i + 1) 0 + p.getD i 0
          ≤ (sortedSolver pb).S.getD (i + 1) 0 + p.getD (i + 1) 0) := by
  have wf := sortedSolver_wf pb
  have hsl := sortedSolver_slack pb hv
  obtain ⟨p, erun, hp⟩ := run_ok (sortedSolver pb) (sortedSolver_dom pb hv) (sortedSolver_sinks pb hv)
  refine ⟨p, erun, hp, ?_⟩
  refine ⟨hp.len, ?_, ?_⟩
  · intro i hi
    have hmem : p.getD i 0 ∈ p := getD_mem_of_lt p i (by rw [hp.len]; exact hi)
    have h1 := hp.nn hsl _ hmem
    have h2 := hp.le _ hmem
    have h3 : (sortedSolver pb).S.getD (i + 1) 0 ≤ (sortedSolver pb).S.getD (sortedSolver pb).u.length 0 := by
      have eS : (sortedSolver pb).S = prefixFrom 0 (sortedSolver pb).s := rfl
      rw [eS, ← wf.hs]
      exact prefixFrom_le_last 0 _ (fun x hx => Int.le_of_lt (sortedSolver_spos pb x hx)) (i + 1)
        (by rw [wf.hs]; omega)
    exact ⟨h1, by omega⟩
  · intro i hi
    have := hp.mono i (by rw [hp.len]; exact hi)
    omega

end ColoVerif.Transp1d
