/-
C13: `updateTree` on a state that satisfies the queue invariant and admits dual potentials:
it terminates, and its labels are again dual potentials with a tight, acyclic tree (`TreeOK`).
-/
import ColoVerif.Proofs.TranspSsp2Inv

namespace ColoVerif.Transp

/-- the edge costs `movingCost(i, k)` that `updateTree` reads from the queues -/
def wOf (qs : Queues) (i k : Nat) : Int := if i = k then 0 else (hget (qget qs i k) 0).cost

lemma Mid.rowpos {p : Problem} {alloc : Mat} {qs : Queues} {rem : List Int} (h : Mid p alloc qs rem)
    (hcap : ∀ i, i < p.nbSinks → 0 < p.capacity i) (i : Nat) (hi : i < p.nbSinks) (hf : rem.getD i 0 = 0) :
    0 < rowSum alloc p.nbSources i := by
  have := h.row i
  have := hcap i hi
  omega

lemma Mid.qnonempty {p : Problem} {alloc : Mat} {qs : Queues} {rem : List Int} (h : Mid p alloc qs rem)
    (hcap : ∀ i, i < p.nbSinks → 0 < p.capacity i) (i k : Nat) (hi : i < p.nbSinks) (hk : k < p.nbSinks)
    (hne : k ≠ i) (hf : rem.getD i 0 = 0) : 0 < (qget qs i k).size :=
  (h.qrow i hi hf).nonempty (h.rowpos hcap i hi hf) k hk hne

/-- the live top of a queue of a full sink: a source present in the sink, with its moving cost -/
lemma Mid.top {p : Problem} {alloc : Mat} {qs : Queues} {rem : List Int} (h : Mid p alloc qs rem)
    (hcap : ∀ i, i < p.nbSinks → 0 < p.capacity i) (i k : Nat) (hi : i < p.nbSinks) (hk : k < p.nbSinks)
    (hne : k ≠ i) (hf : rem.getD i 0 = 0) :
    (hget (qget qs i k) 0).elt < p.nbSources ∧
    (hget (qget qs i k) 0).cost = p.cost k (hget (qget qs i k) 0).elt - p.cost i (hget (qget qs i k) 0).elt ∧
    0 < get2 alloc i (hget (qget qs i k) 0).elt := by
  have hpos := h.qnonempty hcap i k hi hk hne hf
  have hq := (h.qrow i hi hf).2 k hk hne
  obtain ⟨h1, h2⟩ := hq.cost _ (hget_mem _ 0 hpos)
  have h3 := hq.top hpos
  have h4 := h.nn i (hget (qget qs i k) 0).elt
  exact ⟨h1, h2, by omega⟩

lemma movingCostQ_wOf {p : Problem} {alloc : Mat} {qs : Queues} {rem : List Int} (h : Mid p alloc qs rem)
    (hcap : ∀ i, i < p.nbSinks → 0 < p.capacity i) (i k : Nat) (hi : i < p.nbSinks) (hk : k < p.nbSinks)
    (hf : rem.getD i 0 = 0) : movingCostQ qs i k = .ok (wOf qs i k) := by
  unfold wOf
  by_cases e : i = k
  · subst e
    simp [movingCostQ]
  · rw [if_neg e]
    exact movingCostQ_ok qs i k e (h.qnonempty hcap i k hi hk (fun hh => e hh.symm) hf)

lemma treeHyp_of_mid (p : Problem) (alloc : Mat) (qs : Queues) (rem : List Int) (d : Nat → Int)
    (hm : Mid p alloc qs rem) (hp : Pot p alloc rem d) (hdle : ∀ i, i < p.nbSinks → d i ≤ Wmax)
    (hcb : CostBound p) (hcap : ∀ i, i < p.nbSinks → 0 < p.capacity i) :
    TreeHyp p.nbSinks qs rem (wOf qs) d Wmax := by
  have hfull : ∀ i, rem.getD i 0 ≤ 0 → rem.getD i 0 = 0 := fun i h => by have := hm.rnn i; omega
  refine ⟨hm.shape.rlen, fun i k hi hk hf => movingCostQ_wOf hm hcap i k hi hk (hfull i hf),
    fun i k hi hk hf => ?_, Wmax_lt, Wmax_nn, hp.nn, fun i hi => ?_, hp.free, fun i k hi hk hf => ?_⟩
  · unfold wOf
    by_cases e : i = k
    · rw [if_pos e]; exact Wmax_nn
    · rw [if_neg e]
      obtain ⟨h1, h2, _⟩ := hm.top hcap i k hi hk (fun hh => e hh.symm) (hfull i hf)
      rw [h2]; exact hcb.diff i k _ hi hk h1
  · have := hdle i hi; have := Wmax_lt; omega
  · unfold wOf
    by_cases e : i = k
    · rw [if_pos e, e]; omega
    · rw [if_neg e]
      obtain ⟨h1, h2, h3⟩ := hm.top hcap i k hi hk (fun hh => e hh.symm) (hfull i hf)
      have := hp.red i _ k hi h1 hk h3
      omega

lemma treeOK_of_spec (p : Problem) (alloc : Mat) (qs : Queues) (rem : List Int) (d : Nat → Int) (t : Tree)
    (hm : Mid p alloc qs rem) (hp : Pot p alloc rem d)
    (spec : TreeSpec p.nbSinks rem (wOf qs) d Wmax t)
    (hfree : ∃ f, f < p.nbSinks ∧ rem.getD f 0 > 0) :
    TreeOK p alloc qs rem t.sendCost t.parent := by
  have hfull : ∀ i, ¬ rem.getD i 0 > 0 → rem.getD i 0 = 0 := fun i h => by have := hm.rnn i; omega
  refine ⟨⟨fun i hi => ?_, fun i hi hf => (spec.free i hi hf).1, fun i j k hi hj hk hpos => ?_⟩,
    fun i hi => ?_, fun i hi hpar => ?_, fun i k hi hpar => ?_, spec.depth⟩
  · have := spec.lower i hi; have := hp.nn i hi; omega
  · by_cases hf : rem.getD i 0 > 0
    · have h1 := (spec.free i hi hf).1
      have h2 := hp.red i j k hi hj hk hpos
      have h3 := hp.free i hi hf
      have h4 := spec.lower k hk
      omega
    · by_cases e : k = i
      · rw [e]
      · have hf0 := hfull i hf
        have hq := (hm.qrow i hi hf0).2 k hk e
        obtain ⟨el, hel, helj⟩ := hq.mem j hj (by omega)
        have hc := (hq.cost el hel).2
        have htop := isHeap_top_le _ hq.heap el hel
        have hedge := spec.edge hfree i k hi hk (by omega)
        unfold wOf at hedge
        rw [if_neg (fun hh => e hh.symm)] at hedge
        rw [helj] at hc
        unfold Problem.movingCost at hc
        omega
  · by_cases hf : rem.getD i 0 > 0
    · rw [(spec.free i hi hf).1]; exact Wmax_nn
    · exact (spec.full hfree i hi (by omega)).1
  · by_contra hf
    obtain ⟨_, k, _, _, hk, _⟩ := spec.full hfree i hi (by omega)
    rw [hpar] at hk; exact absurd hk (by simp)
  · by_cases hf : rem.getD i 0 > 0
    · rw [(spec.free i hi hf).2] at hpar; exact absurd hpar (by simp)
    · obtain ⟨_, k', hk', hne', hpar', htight⟩ := spec.full hfree i hi (by omega)
      rw [hpar] at hpar'
      injection hpar' with hpar'
      subst hpar'
      unfold wOf at htight
      rw [if_neg (fun hh => hne' hh.symm)] at htight
      exact ⟨hfull i hf, hk', hne', htight⟩

/-- **`updateTree` terminates and rebuilds a good tree** -/
lemma update_total (p : Problem) (alloc : Mat) (qs : Queues) (rem : List Int) (d : Nat → Int)
    (hm : Mid p alloc qs rem) (hp : Pot p alloc rem d) (hdle : ∀ i, i < p.nbSinks → d i ≤ Wmax)
    (hcb : CostBound p) (hcap : ∀ i, i < p.nbSinks → 0 < p.capacity i) :
    ∃ t, updateTree p qs rem = .ok t ∧
      ((∃ f, f < p.nbSinks ∧ rem.getD f 0 > 0) → TreeOK p alloc qs rem t.sendCost t.parent) := by
  obtain ⟨t, ht, spec⟩ := updateTree_spec p qs rem (wOf qs) d Wmax (treeHyp_of_mid p alloc qs rem d hm hp hdle hcb hcap)
  exact ⟨t, ht, fun hfree => treeOK_of_spec p alloc qs rem d t hm hp spec hfree⟩

end ColoVerif.Transp
