import ColoVerif.Proofs.IncrNetFinalize
import ColoVerif.Proofs.C09Hpwl
/-
`IncrNetModelBuilder` produces a CSR that represents exactly the list of nets it kept; the
topology builders; initial value = 1-D HPWL.
-/
namespace ColoVerif.IncrNet
open ColoVerif Model ColoVerif.C09

/-! ### CSR of a list of nets -/

def total (L : List (List Pin1)) : Nat := (L.map List.length).sum
def flatC (L : List (List Pin1)) : List Nat := (L.map fun l => l.map (·.1)).flatten
def flatO (L : List (List Pin1)) : List Int := (L.map fun l => l.map (·.2)).flatten

/-- `netLimits_` of the nets `L` when the first pin has index `s` -/
def limits (s : Nat) : List (List Pin1) → List Nat
  | [] => [s]
  | l :: ls => s :: limits (s + l.length) ls

theorem limits_length : ∀ (L : List (List Pin1)) (s : Nat), (limits s L).length = L.length + 1
  | [], _ => rfl
  | l :: ls, s => by simp [limits, limits_length ls]

theorem limits_head (L : List (List Pin1)) (s : Nat) : (limits s L).getD 0 0 = s := by
  cases L <;> simp [limits]

theorem limits_getLastD : ∀ (L : List (List Pin1)) (s d : Nat), (limits s L).getLastD d = s + total L
  | [], s, d => by simp [limits, total, List.getLastD]
  | l :: ls, s, d => by
    have := limits_getLastD ls (s + l.length) s
    rw [limits, List.getLastD_cons, this]
    simp [total]
    omega

theorem limits_append : ∀ (L : List (List Pin1)) (l : List Pin1) (s : Nat),
    limits s (L ++ [l]) = limits s L ++ [s + total L + l.length]
  | [], l, s => by simp [limits, total]
  | l' :: ls, l, s => by
    have := limits_append ls l (s + l'.length)
    simp [limits, total, this] at this ⊢
    omega

theorem total_append (L : List (List Pin1)) (l : List Pin1) : total (L ++ [l]) = total L + l.length := by
  simp [total]

/-- a model whose net CSR represents `L` (with `pre` pins before, for the induction) -/
theorem slice_repr : ∀ (L : List (List Pin1)) (s : Nat) (pre : List Nat) (preO : List Int) (n : Nat),
    n < L.length → pre.length = s → preO.length = s →
    (List.range ((limits s L).getD (n + 1) 0 - (limits s L).getD n 0)).map
      (fun j => ((pre ++ flatC L).getD ((limits s L).getD n 0 + j) 0,
                 (preO ++ flatO L).getD ((limits s L).getD n 0 + j) 0)) = L.getD n []
  | [], _, _, _, _, h, _, _ => by simp at h
  | l :: ls, s, pre, preO, 0, _, hs, hsO => by
    have h1 : (limits s (l :: ls)).getD 1 0 = s + l.length := by
      show (limits (s + l.length) ls).getD 0 0 = _
      exact limits_head _ _
    have h0 : (limits s (l :: ls)).getD 0 0 = s := limits_head _ _
    rw [h1, h0]
    have : s + l.length - s = l.length := by omega
    rw [this]
    apply List.ext_getElem
    · simp
    · intro j hj1 hj2
      have hj : j < l.length := by simpa using hj2
      simp only [List.getElem_map, List.getElem_range, List.getD_eq_getElem?_getD]
      have e1 : (pre ++ flatC (l :: ls))[s + j]? = some (l[j]).1 := by
        rw [List.getElem?_append_right (by omega)]
        have : s + j - pre.length = j := by omega
        rw [this]
        simp only [flatC, List.map_cons, List.flatten_cons]
        rw [List.getElem?_append_left (by simpa using hj)]
        simp [hj]
      have e2 : (preO ++ flatO (l :: ls))[s + j]? = some (l[j]).2 := by
        rw [List.getElem?_append_right (by omega)]
        have : s + j - preO.length = j := by omega
        rw [this]
        simp only [flatO, List.map_cons, List.flatten_cons]
        rw [List.getElem?_append_left (by simpa using hj)]
        simp [hj]
      rw [e1, e2]
      simp [hj]
  | l :: ls, s, pre, preO, n + 1, h, hs, hsO => by
    have ih := slice_repr ls (s + l.length) (pre ++ l.map (·.1)) (preO ++ l.map (·.2)) n
      (by simpa using h) (by simp [hs]) (by simp [hsO])
    have e1 : pre ++ flatC (l :: ls) = (pre ++ l.map (·.1)) ++ flatC ls := by simp [flatC]
    have e2 : preO ++ flatO (l :: ls) = (preO ++ l.map (·.2)) ++ flatO ls := by simp [flatO]
    rw [e1, e2]
    show (List.range ((limits (s + l.length) ls).getD (n + 1) 0 - (limits (s + l.length) ls).getD n 0)).map _ = ls.getD n []
    exact ih

/-- the net CSR of `m` represents `L` -/
def Repr (m : Model) (L : List (List Pin1)) : Prop :=
  m.netLimits = limits 0 L ∧ m.netCells = flatC L ∧ m.netPinOffsets = flatO L

theorem Repr.nbNets {m : Model} {L} (h : Repr m L) : m.nbNets = L.length := by
  simp [Model.nbNets, h.1, limits_length]

theorem Repr.nbPins {m : Model} {L} (h : Repr m L) : m.nbPins = total L := by
  unfold Model.nbPins
  rw [h.1, limits_getLastD]; omega

theorem Repr.netPins {m : Model} {L} (h : Repr m L) (n : Nat) (hn : n < L.length) : m.netPins n = L.getD n [] := by
  have := slice_repr L 0 [] [] n hn rfl rfl
  simp only [List.nil_append] at this
  unfold Model.netPins Model.nbNetPins Model.pinCell Model.netPinOffset
  rw [h.1, h.2.1, h.2.2]
  exact this

theorem map_range_getD {α} (L : List α) (d : α) : (List.range L.length).map (fun n => L.getD n d) = L := by
  apply List.ext_getElem
  · simp
  · intro i h1 h2
    simp [List.getD_eq_getElem?_getD]
    have : i < L.length := by simpa using h1
    simp [this]

theorem Repr.allPins_length {m : Model} {L} (h : Repr m L) : m.allPins.length = total L := by
  unfold Model.allPins
  rw [h.nbNets, List.length_flatMap]
  have : (List.range L.length).map (fun a => ((m.netPins a).map fun p => (a, p.1, p.2)).length)
      = (List.range L.length).map (fun n => (L.getD n []).length) := by
    apply List.map_congr_left
    intro n hn
    simp [h.netPins n (List.mem_range.mp hn)]
  rw [this]
  have h2 := map_range_getD (L.map List.length) 0
  simp only [List.length_map] at h2
  unfold total
  rw [← h2]
  congr 1
  apply List.map_congr_left
  intro n hn
  have hn' := List.mem_range.mp hn
  simp [List.getD_eq_getElem?_getD, hn']

theorem Repr.mem_allPins {m : Model} {L} (h : Repr m L) (q : P3) (hq : q ∈ m.allPins) :
    ∃ l ∈ L, (q.2.1, q.2.2) ∈ l := by
  unfold Model.allPins at hq
  rw [List.mem_flatMap] at hq
  obtain ⟨n, hn, hq⟩ := hq
  have hn' : n < L.length := by rw [← h.nbNets]; exact List.mem_range.mp hn
  rw [h.netPins n hn', List.mem_map] at hq
  obtain ⟨p, hp, rfl⟩ := hq
  refine ⟨L.getD n [], ?_, hp⟩
  simp [List.getD_eq_getElem?_getD, hn']

/-! ### the builder -/

structure BRepr (b : Builder) (L : List (List Pin1)) : Prop where
  lim : b.netLimits = limits 0 L
  cells : b.netCells = flatC L
  offs : b.netPinOffsets = flatO L

theorem addNet_repr (b : Builder) (L : List (List Pin1)) (l : List Pin1) (h : BRepr b L) :
    BRepr (b.addNet l) (if l.length ≤ 1 then L else L ++ [l]) := by
  unfold Builder.addNet
  by_cases hl : l.length ≤ 1
  · simp [hl]; exact h
  · simp only [hl, if_false]
    refine ⟨?_, ?_, ?_⟩
    · show b.netLimits ++ [b.netLimits.getLastD 0 + l.length] = _
      rw [h.lim, limits_getLastD, limits_append]
    · show b.netCells ++ l.map (·.1) = _
      rw [h.cells]; simp [flatC]
    · show b.netPinOffsets ++ l.map (·.2) = _
      rw [h.offs]; simp [flatO]

/-- the nets `addNet` keeps -/
def kept (Ls : List (List Pin1)) : List (List Pin1) := Ls.filter fun l => decide (1 < l.length)

theorem foldl_addNet_repr : ∀ (Ls : List (List Pin1)) (b : Builder) (L : List (List Pin1)), BRepr b L →
    BRepr (Ls.foldl Builder.addNet b) (L ++ kept Ls)
  | [], b, L, h => by simpa [kept] using h
  | l :: Ls, b, L, h => by
    rw [List.foldl_cons]
    have h1 := addNet_repr b L l h
    have h2 := foldl_addNet_repr Ls _ _ h1
    by_cases hl : l.length ≤ 1
    · have : ¬ 1 < l.length := by omega
      simpa [hl, kept, List.filter_cons, this] using h2
    · have : 1 < l.length := by omega
      simpa [hl, kept, List.filter_cons, this] using h2

theorem foldl_addNet_nbCells : ∀ (Ls : List (List Pin1)) (b : Builder), (Ls.foldl Builder.addNet b).nbCells = b.nbCells
  | [], _ => rfl
  | l :: Ls, b => by
    rw [List.foldl_cons, foldl_addNet_nbCells Ls]
    unfold Builder.addNet; split <;> rfl

theorem build_repr (b : Builder) (L : List (List Pin1)) (pos : List Int) (h : BRepr b L) : Repr (b.build pos) L :=
  ⟨h.lim, h.cells, h.offs⟩

theorem build_cellPos (b : Builder) (pos : List Int) : (b.build pos).cellPos = pos := rfl

/-- a built model is well-formed and consistent as soon as the pin cells are in range -/
theorem build_good (b : Builder) (L : List (List Pin1)) (pos : List Int) (h : BRepr b L)
    (hrange : ∀ l ∈ L, ∀ p ∈ l, p.1 < pos.length) : WF (b.build pos) ∧ Inv (b.build pos) := by
  have hr : Repr { cellPos := pos, netLimits := b.netLimits, netCells := b.netCells, netPinOffsets := b.netPinOffsets
                   cellLimits := [], cellNets := [], cellPinOffsets := [], netMinMaxPos := [], value := 0 } L :=
    ⟨h.lim, h.cells, h.offs⟩
  refine ⟨finalize_wf _ ?_ ?_, finalize_inv _⟩
  · intro q hq
    obtain ⟨l, hl, hp⟩ := hr.mem_allPins q hq
    exact hrange l hl _ hp
  · rw [hr.allPins_length, hr.nbPins]; exact Nat.le_refl _

/-! ### value of a consistent model -/

/-- 1-D wirelength of the current positions, recomputed from scratch from the net CSR -/
def scratchValue (m : Model) : Int := ((List.range m.nbNets).map fun n => span (m.netPinPositions n)).sum

theorem inv_value (m : Model) (h : Inv m) (hne : ∀ n, n < m.nbNets → m.netPins n ≠ []) : m.value = scratchValue m := by
  rw [h.2.2]
  unfold computeValue scratchValue
  congr 1
  apply List.map_congr_left
  intro n hn
  have hn' := List.mem_range.mp hn
  rw [h.2.1 n hn' (fun f => f)]
  unfold computeNetMinMaxPos
  apply lmax_lmin_span
  unfold netPinPositions
  simpa using hne n hn'

theorem Repr.scratchValue {m : Model} {L} (h : Repr m L) :
    scratchValue m = (L.map fun l => span (l.map fun p => m.cellPos.getD p.1 0 + p.2)).sum := by
  unfold IncrNet.scratchValue
  rw [h.nbNets]
  have : (List.range L.length).map (fun n => span (m.netPinPositions n))
      = (List.range L.length).map (fun n => (fun l : List Pin1 => span (l.map fun p => m.cellPos.getD p.1 0 + p.2)) (L.getD n [])) := by
    apply List.map_congr_left
    intro n hn
    unfold netPinPositions
    rw [h.netPins n (List.mem_range.mp hn)]
  rw [this]
  have h2 := congrArg (List.map fun l : List Pin1 => span (l.map fun p => m.cellPos.getD p.1 0 + p.2)) (map_range_getD L [])
  rw [List.map_map] at h2
  rw [← h2]
  rfl

end ColoVerif.IncrNet
