import ColoVerif.Proofs.Transp1dOptKkt
import ColoVerif.Proofs.Transp1dOptLocal
import ColoVerif.Proofs.Transp1dAssign
import Mathlib.Tactic.Linarith
/-
Dual certificate from the optimality conditions `Kkt` (C14, slack case), part A:
quasi-convexity of `cs`, the sink lookups `sigL`/`sigR` (specification, comparison lemmas),
and the geometry of the source intervals under `PosDom`.
-/
namespace ColoVerif.Transp1d

/-! ### cost facts -/

theorem iabs_quasi (a x y z : Int) (hxy : x ≤ y) (hyz : y ≤ z) :
    iabs (a - y) ≤ max (iabs (a - x)) (iabs (a - z)) := by
  unfold iabs
  split <;> split <;> split <;> omega

theorem cs_quasi (sv : Solver) (si : SortedInst sv) (k t t' t'' : Nat) (h1 : t ≤ t') (h2 : t' ≤ t'')
    (h3 : t'' < sv.v.length) : cs sv k t' ≤ max (cs sv k t) (cs sv k t'') :=
  iabs_quasi _ _ _ _ (sorted_getD _ si.vs t t' h1 (by omega)) (sorted_getD _ si.vs t' t'' h2 h3)

/-! ### strictly increasing prefix sums -/

theorem getD_pos (l : List Int) (h : ∀ w ∈ l, 0 < w) (i : Nat) (hi : i < l.length) :
    0 < l.getD i 0 := by
  simp only [List.getD_eq_getElem?_getD, List.getElem?_eq_getElem hi, Option.getD_some]
  exact h _ (List.getElem_mem hi)

theorem step_mono (D : List Int) (m : Nat) (h : ∀ t, t < m → D.getD t 0 < D.getD (t + 1) 0)
    (a b : Nat) (hab : a ≤ b) (hb : b ≤ m) : D.getD a 0 ≤ D.getD b 0 := by
  induction b with
  | zero => have : a = 0 := by omega
            subst this; exact Int.le_refl _
  | succ b ih =>
    rcases Nat.lt_or_eq_of_le hab with h1 | h1
    · have := ih (by omega) (by omega)
      have := h b (by omega)
      omega
    · subst h1; exact Int.le_refl _

theorem step_strict (D : List Int) (m : Nat) (h : ∀ t, t < m → D.getD t 0 < D.getD (t + 1) 0)
    (a b : Nat) (hab : a < b) (hb : b ≤ m) : D.getD a 0 < D.getD b 0 := by
  have h1 := step_mono D m h (a + 1) b (by omega) hb
  have h2 := h a (by omega)
  omega

/-- comparing values compares indices -/
theorem step_lt_imp (D : List Int) (m : Nat) (h : ∀ t, t < m → D.getD t 0 < D.getD (t + 1) 0)
    (a b : Nat) (ha : a ≤ m) (hab : D.getD a 0 < D.getD b 0) : a < b := by
  apply Nat.lt_of_not_le
  intro hba
  have := step_mono D m h b a hba ha
  omega

theorem cntLt_spec (D : List Int) (m : Nat) (h : ∀ t, t < m → D.getD t 0 < D.getD (t + 1) 0)
    (y : Int) (hy : D.getD 0 0 < y) (T : Nat) (hT : T ≤ m) :
    cntLt D y T ≤ T ∧ D.getD (cntLt D y T) 0 < y ∧
      (cntLt D y T < T → y ≤ D.getD (cntLt D y T + 1) 0) := by
  induction T with
  | zero => exact ⟨Nat.le_refl _, hy, fun h => absurd h (Nat.lt_irrefl _)⟩
  | succ T ih =>
    obtain ⟨i1, i2, i3⟩ := ih (by omega)
    simp only [cntLt]
    generalize cntLt D y T = c at i1 i2 i3
    by_cases hc : D.getD (T + 1) 0 < y
    · rw [if_pos hc]
      have hcT : c = T := by
        rcases Nat.lt_or_eq_of_le i1 with h1 | h1
        · have := i3 h1
          have := step_mono D m h (c + 1) (T + 1) (by omega) hT
          omega
        · exact h1
      subst hcT
      exact ⟨Nat.le_refl _, hc, fun h => absurd h (Nat.lt_irrefl _)⟩
    · rw [if_neg hc, Nat.add_zero]
      refine ⟨by omega, i2, fun _ => ?_⟩
      rcases Nat.lt_or_eq_of_le i1 with h1 | h1
      · exact i3 h1
      · subst h1; omega

theorem cntLe_spec (D : List Int) (m : Nat) (h : ∀ t, t < m → D.getD t 0 < D.getD (t + 1) 0)
    (y : Int) (hy : D.getD 0 0 ≤ y) (T : Nat) (hT : T ≤ m) :
    cntLe D y T ≤ T ∧ D.getD (cntLe D y T) 0 ≤ y ∧
      (cntLe D y T < T → y < D.getD (cntLe D y T + 1) 0) := by
  induction T with
  | zero => exact ⟨Nat.le_refl _, hy, fun h => absurd h (Nat.lt_irrefl _)⟩
  | succ T ih =>
    obtain ⟨i1, i2, i3⟩ := ih (by omega)
    simp only [cntLe]
    generalize cntLe D y T = c at i1 i2 i3
    by_cases hc : D.getD (T + 1) 0 ≤ y
    · rw [if_pos hc]
      have hcT : c = T := by
        rcases Nat.lt_or_eq_of_le i1 with h1 | h1
        · have := i3 h1
          have := step_mono D m h (c + 1) (T + 1) (by omega) hT
          omega
        · exact h1
      subst hcT
      exact ⟨Nat.le_refl _, hc, fun h => absurd h (Nat.lt_irrefl _)⟩
    · rw [if_neg hc, Nat.add_zero]
      refine ⟨by omega, i2, fun _ => ?_⟩
      rcases Nat.lt_or_eq_of_le i1 with h1 | h1
      · exact i3 h1
      · subst h1; omega

/-! ### the demand axis -/

/-- `D 0 = 0` and `D` strictly increasing up to `m` -/
structure DInc (sv : Solver) : Prop where
  zero : sv.D.getD 0 0 = 0
  step : ∀ t, t < sv.v.length → sv.D.getD t 0 < sv.D.getD (t + 1) 0

theorem PosDom.dinc {sv : Solver} {q : List Int} (dom : PosDom sv q) : DInc sv := by
  refine ⟨?_, ?_⟩
  · rw [dom.si.eD]; exact prefixFrom_zero 0 _
  · intro t ht
    have h := prefixFrom_succ 0 sv.d t (by rw [dom.si.wf.hd]; exact ht)
    rw [← dom.si.eD] at h
    have := getD_pos sv.d dom.dpos t (by rw [dom.si.wf.hd]; exact ht)
    omega

theorem DInc.mono {sv : Solver} (hD : DInc sv) (a b : Nat) (hab : a ≤ b) (hb : b ≤ sv.v.length) :
    sv.D.getD a 0 ≤ sv.D.getD b 0 := step_mono sv.D _ hD.step a b hab hb

theorem DInc.lt_imp {sv : Solver} (hD : DInc sv) (a b : Nat) (ha : a ≤ sv.v.length)
    (hab : sv.D.getD a 0 < sv.D.getD b 0) : a < b := step_lt_imp sv.D _ hD.step a b ha hab

theorem dual_sigL_spec {sv : Solver} (hD : DInc sv) (y : Int) (h0 : 0 < y)
    (h1 : y ≤ sv.D.getD sv.v.length 0) :
    sigL sv y < sv.v.length ∧ sv.D.getD (sigL sv y) 0 < y ∧ y ≤ sv.D.getD (sigL sv y + 1) 0 := by
  obtain ⟨i1, i2, i3⟩ := cntLt_spec sv.D sv.v.length hD.step y (by rw [hD.zero]; exact h0)
    sv.v.length (Nat.le_refl _)
  unfold sigL
  generalize cntLt sv.D y sv.v.length = c at i1 i2 i3
  rcases Nat.lt_or_eq_of_le i1 with h2 | h2
  · exact ⟨h2, i2, i3 h2⟩
  · subst h2; omega

theorem dual_sigR_spec {sv : Solver} (hD : DInc sv) (y : Int) (h0 : 0 ≤ y)
    (h1 : y < sv.D.getD sv.v.length 0) :
    sigR sv y < sv.v.length ∧ sv.D.getD (sigR sv y) 0 ≤ y ∧ y < sv.D.getD (sigR sv y + 1) 0 := by
  obtain ⟨i1, i2, i3⟩ := cntLe_spec sv.D sv.v.length hD.step y (by rw [hD.zero]; exact h0)
    sv.v.length (Nat.le_refl _)
  unfold sigR
  generalize cntLe sv.D y sv.v.length = c at i1 i2 i3
  rcases Nat.lt_or_eq_of_le i1 with h2 | h2
  · exact ⟨h2, i2, i3 h2⟩
  · subst h2; omega

/-- `D t < y → t ≤ sigL y` -/
theorem le_sigL {sv : Solver} (hD : DInc sv) (y : Int) (h0 : 0 < y)
    (h1 : y ≤ sv.D.getD sv.v.length 0) (t : Nat) (ht : t ≤ sv.v.length)
    (h : sv.D.getD t 0 < y) : t ≤ sigL sv y := by
  have s := dual_sigL_spec hD y h0 h1
  have := hD.lt_imp t (sigL sv y + 1) ht (by omega)
  omega

/-- `y ≤ D t → sigL y < t` -/
theorem sigL_lt {sv : Solver} (hD : DInc sv) (y : Int) (h0 : 0 < y)
    (h1 : y ≤ sv.D.getD sv.v.length 0) (t : Nat)
    (h : y ≤ sv.D.getD t 0) : sigL sv y < t := by
  have s := dual_sigL_spec hD y h0 h1
  exact hD.lt_imp (sigL sv y) t (by omega) (by omega)

/-- `y < D (t+1) → sigR y ≤ t` -/
theorem sigR_le {sv : Solver} (hD : DInc sv) (y : Int) (h0 : 0 ≤ y)
    (h1 : y < sv.D.getD sv.v.length 0) (t : Nat)
    (h : y < sv.D.getD (t + 1) 0) : sigR sv y ≤ t := by
  have s := dual_sigR_spec hD y h0 h1
  have := hD.lt_imp (sigR sv y) (t + 1) (by omega) (by omega)
  omega

/-- `D t ≤ y → t ≤ sigR y` -/
theorem le_sigR {sv : Solver} (hD : DInc sv) (y : Int) (h0 : 0 ≤ y)
    (h1 : y < sv.D.getD sv.v.length 0) (t : Nat) (ht : t ≤ sv.v.length)
    (h : sv.D.getD t 0 ≤ y) : t ≤ sigR sv y := by
  have s := dual_sigR_spec hD y h0 h1
  have := hD.lt_imp t (sigR sv y + 1) ht (by omega)
  omega

/-- uniqueness -/
theorem dual_sigL_eq {sv : Solver} (hD : DInc sv) (y : Int) (t : Nat) (ht : t < sv.v.length)
    (h1 : sv.D.getD t 0 < y) (h2 : y ≤ sv.D.getD (t + 1) 0) : sigL sv y = t := by
  have a0 : 0 ≤ sv.D.getD t 0 := by have := hD.mono 0 t (by omega) (by omega); rw [hD.zero] at this; exact this
  have a1 := hD.mono (t + 1) sv.v.length (by omega) (Nat.le_refl _)
  have := le_sigL hD y (by omega) (by omega) t (by omega) h1
  have := sigL_lt hD y (by omega) (by omega) (t + 1) h2
  omega

theorem dual_sigR_eq {sv : Solver} (hD : DInc sv) (y : Int) (t : Nat) (ht : t < sv.v.length)
    (h1 : sv.D.getD t 0 ≤ y) (h2 : y < sv.D.getD (t + 1) 0) : sigR sv y = t := by
  have a0 : 0 ≤ sv.D.getD t 0 := by have := hD.mono 0 t (by omega) (by omega); rw [hD.zero] at this; exact this
  have a1 := hD.mono (t + 1) sv.v.length (by omega) (Nat.le_refl _)
  have := le_sigR hD y (by omega) (by omega) t (by omega) h1
  have := sigR_le hD y (by omega) (by omega) t h2
  omega

theorem sigL_mono {sv : Solver} (hD : DInc sv) (y y' : Int) (h0 : 0 < y) (h : y ≤ y')
    (h1 : y' ≤ sv.D.getD sv.v.length 0) : sigL sv y ≤ sigL sv y' := by
  have s := dual_sigL_spec hD y h0 (by omega)
  exact le_sigL hD y' (by omega) h1 _ (by omega) (by omega)

theorem sigR_mono {sv : Solver} (hD : DInc sv) (y y' : Int) (h0 : 0 ≤ y) (h : y ≤ y')
    (h1 : y' < sv.D.getD sv.v.length 0) : sigR sv y ≤ sigR sv y' := by
  have s := dual_sigR_spec hD y h0 (by omega)
  exact le_sigR hD y' (by omega) h1 _ (by omega) (by omega)

theorem sigL_le_sigR {sv : Solver} (hD : DInc sv) (y : Int) (h0 : 0 < y)
    (h1 : y < sv.D.getD sv.v.length 0) : sigL sv y ≤ sigR sv y := by
  have s := dual_sigL_spec hD y h0 (by omega)
  exact le_sigR hD y (by omega) h1 _ (by omega) (by omega)

/-! ### the source intervals -/

theorem PosDom.S_zero {sv : Solver} {q : List Int} (dom : PosDom sv q) : sv.S.getD 0 0 = 0 := by
  rw [dom.si.eS]; exact prefixFrom_zero 0 _

theorem PosDom.S_step {sv : Solver} {q : List Int} (dom : PosDom sv q) (k : Nat)
    (hk : k < sv.u.length) : sv.S.getD k 0 < sv.S.getD (k + 1) 0 := by
  have h := prefixFrom_succ 0 sv.s k (by rw [dom.si.wf.hs]; exact hk)
  rw [← dom.si.eS] at h
  have := getD_pos sv.s dom.spos k (by rw [dom.si.wf.hs]; exact hk)
  omega

theorem PosDom.S_mono {sv : Solver} {q : List Int} (dom : PosDom sv q) (a b : Nat) (hab : a ≤ b)
    (hb : b ≤ sv.u.length) : sv.S.getD a 0 ≤ sv.S.getD b 0 :=
  step_mono sv.S _ dom.S_step a b hab hb

theorem PosDom.q_mono {sv : Solver} {q : List Int} (dom : PosDom sv q) (a b : Nat) (hab : a ≤ b)
    (hb : b < sv.u.length) : q.getD a 0 ≤ q.getD b 0 := by
  induction b with
  | zero => have : a = 0 := by omega
            subst this; exact Int.le_refl _
  | succ b ih =>
    rcases Nat.lt_or_eq_of_le hab with h1 | h1
    · have := ih (by omega) (by omega)
      have := dom.mono b hb
      omega
    · subst h1; exact Int.le_refl _

theorem PosDom.lo_lt_hi {sv : Solver} {q : List Int} (dom : PosDom sv q) (k : Nat)
    (hk : k < sv.u.length) : lo sv q k < hi sv q k := by
  have := dom.S_step k hk
  unfold lo hi; omega

theorem PosDom.lo_nonneg {sv : Solver} {q : List Int} (dom : PosDom sv q) (k : Nat)
    (hk : k < sv.u.length) : 0 ≤ lo sv q k := by
  have := dom.S_mono 0 k (by omega) (by omega)
  have := dom.S_zero
  have := dom.nn k hk
  unfold lo; omega

theorem PosDom.lo_pos {sv : Solver} {q : List Int} (dom : PosDom sv q) (k : Nat)
    (hk : k < sv.u.length) (h : 0 < k ∨ 0 < q.getD k 0) : 0 < lo sv q k := by
  have := dom.S_mono 0 k (by omega) (by omega)
  have := dom.S_zero
  have := dom.nn k hk
  unfold lo
  rcases h with h | h
  · have := dom.S_mono 1 k (by omega) (by omega)
    have h1 : sv.S.getD 0 0 < sv.S.getD 1 0 := dom.S_step 0 (by omega)
    omega
  · omega

theorem PosDom.hi_le {sv : Solver} {q : List Int} (dom : PosDom sv q) (k : Nat)
    (hk : k < sv.u.length) : hi sv q k ≤ sv.D.getD sv.v.length 0 := dom.le k hk

theorem PosDom.hi_le_lo {sv : Solver} {q : List Int} (dom : PosDom sv q) (k : Nat)
    (hk : k + 1 < sv.u.length) : hi sv q k ≤ lo sv q (k + 1) := by
  have := dom.mono k hk
  unfold lo hi; omega

theorem PosDom.lo_mono {sv : Solver} {q : List Int} (dom : PosDom sv q) (a b : Nat) (hab : a ≤ b)
    (hb : b < sv.u.length) : lo sv q a ≤ lo sv q b := by
  have := dom.S_mono a b hab (by omega)
  have := dom.q_mono a b hab hb
  unfold lo; omega

theorem PosDom.hi_mono {sv : Solver} {q : List Int} (dom : PosDom sv q) (a b : Nat) (hab : a ≤ b)
    (hb : b < sv.u.length) : hi sv q a ≤ hi sv q b := by
  have := dom.S_mono (a + 1) (b + 1) (by omega) (by omega)
  have := dom.q_mono a b hab hb
  unfold hi; omega

theorem lo_succ_eq (sv : Solver) (q : List Int) (k : Nat) (h : q.getD k 0 = q.getD (k + 1) 0) :
    lo sv q (k + 1) = hi sv q k := by
  unfold lo hi; omega

end ColoVerif.Transp1d
