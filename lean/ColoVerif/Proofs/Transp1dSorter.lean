import ColoVerif.Proofs.Transp1dAssign
/-
`Transportation1dSorter`: the orders list exactly the indices of positive supply / demand, the
converted instance has the same totals, and mapping the assignment back stays in range
(after F10).  Assembly of `assign_safe`.
-/
namespace ColoVerif.Transp1d

theorem keyed_ok (pos cap : List Int) (is : List Nat) (h1 : ∀ i ∈ is, i < cap.length)
    (h2 : ∀ i ∈ is, i < pos.length) :
    keyed pos cap is
      = .ok ((is.filter fun i => decide (0 < cap.getD i 0)).map fun i => (pos.getD i 0, i)) := by
  induction is with
  | nil => rfl
  | cons i is ih =>
    have ih' := ih (fun k hk => h1 k (List.mem_cons_of_mem _ hk)) (fun k hk => h2 k (List.mem_cons_of_mem _ hk))
    unfold keyed
    simp only [get_ok' cap i (h1 i (List.mem_cons_self ..)), get_ok' pos i (h2 i (List.mem_cons_self ..)),
      ih', bind, Except.bind, pure, Except.pure]
    by_cases hc : 0 < cap.getD i 0
    · have hd : decide (0 < cap.getD i 0) = true := decide_eq_true hc
      simp only [hc, if_true, List.filter_cons, decide_true, List.map_cons]
    · have hd : decide (0 < cap.getD i 0) = false := decide_eq_false hc
      simp only [hc, if_false, List.filter_cons, decide_false, Bool.false_eq_true]

theorem mem_insertKey (x y : Int × Nat) (l : List (Int × Nat)) :
    y ∈ insertKey x l ↔ y = x ∨ y ∈ l := by
  induction l with
  | nil => simp [insertKey]
  | cons z zs ih =>
    unfold insertKey
    split
    · simp
    · simp only [List.mem_cons, ih]
      constructor
      · rintro (h | h | h)
        · exact Or.inr (Or.inl h)
        · exact Or.inl h
        · exact Or.inr (Or.inr h)
      · rintro (h | h | h)
        · exact Or.inr (Or.inl h)
        · exact Or.inl h
        · exact Or.inr (Or.inr h)

theorem mem_sortKeys (y : Int × Nat) (l : List (Int × Nat)) : y ∈ sortKeys l ↔ y ∈ l := by
  induction l with
  | nil => simp [sortKeys]
  | cons z zs ih => simp [sortKeys, mem_insertKey, ih]

theorem sum_insertKey (f : Int × Nat → Int) (x : Int × Nat) (l : List (Int × Nat)) :
    ((insertKey x l).map f).sum = f x + (l.map f).sum := by
  induction l with
  | nil => simp [insertKey]
  | cons z zs ih =>
    unfold insertKey
    split
    · simp
    · simp only [List.map_cons, List.sum_cons, ih]; omega

theorem sum_sortKeys (f : Int × Nat → Int) (l : List (Int × Nat)) :
    ((sortKeys l).map f).sum = (l.map f).sum := by
  induction l with
  | nil => rfl
  | cons z zs ih => simp [sortKeys, sum_insertKey, ih]

theorem gather_ok (l : List Int) (is : List Nat) (h : ∀ i ∈ is, i < l.length) :
    gather l is = .ok (is.map fun i => l.getD i 0) := by
  induction is with
  | nil => rfl
  | cons i is ih =>
    unfold gather
    simp [get_ok' l i (h i (List.mem_cons_self ..)), ih (fun k hk => h k (List.mem_cons_of_mem _ hk)),
      bind, Except.bind, pure, Except.pure]

/-- the order computed by the sorter for one side -/
def ord (pos cap : List Int) : List Nat :=
  (sortKeys (((List.range pos.length).filter fun i => decide (0 < cap.getD i 0)).map
    fun i => (pos.getD i 0, i))).map (·.2)

theorem mem_ord (pos cap : List Int) (k : Nat) :
    k ∈ ord pos cap ↔ k < pos.length ∧ 0 < cap.getD k 0 := by
  simp only [ord, List.mem_map, mem_sortKeys, List.mem_filter, List.mem_range, decide_eq_true_eq]
  constructor
  · rintro ⟨a, ⟨i, ⟨h1, h2⟩, rfl⟩, rfl⟩
    exact ⟨h1, h2⟩
  · rintro ⟨h1, h2⟩
    exact ⟨(pos.getD k 0, k), ⟨k, ⟨h1, h2⟩, rfl⟩, rfl⟩

theorem sum_filter_pos (g : Nat → Int) (l : List Nat) (h : ∀ i ∈ l, 0 ≤ g i) :
    ((l.filter fun i => decide (0 < g i)).map g).sum = (l.map g).sum := by
  induction l with
  | nil => rfl
  | cons i is ih =>
    have ih' := ih (fun k hk => h k (List.mem_cons_of_mem _ hk))
    have hi := h i (List.mem_cons_self ..)
    by_cases hc : 0 < g i
    · simp [hc, ih']
    · simp [hc, ih']; omega

theorem map_getD_range (l : List Int) : (List.range l.length).map (fun i => l.getD i 0) = l := by
  apply List.ext_getElem
  · simp
  · intro i h1 h2
    simp [List.getD_eq_getElem?_getD, List.getElem?_eq_getElem h2]

theorem sum_ord (pos cap : List Int) (hl : cap.length = pos.length) (hnn : ∀ x ∈ cap, 0 ≤ x) :
    ((ord pos cap).map fun i => cap.getD i 0).sum = cap.sum := by
  simp only [ord, List.map_map]
  rw [sum_sortKeys, List.map_map]
  have : ((fun i => cap.getD i 0) ∘ fun x : Int × Nat => x.snd) ∘ (fun i => (pos.getD i 0, i))
      = fun i => cap.getD i 0 := rfl
  rw [this, sum_filter_pos (fun i => cap.getD i 0), ← hl, map_getD_range]
  intro i hi
  simp only [List.mem_range] at hi
  exact hnn _ (getD_mem_of_lt cap i (by omega))

theorem mkSorter_ok (pb : Problem) (hs : pb.s.length = pb.u.length) (hd : pb.d.length = pb.v.length) :
    mkSorter pb = .ok ⟨ord pb.u pb.s, ord pb.v pb.d⟩ := by
  unfold mkSorter
  rw [keyed_ok pb.u pb.s _ (fun i hi => by simp at hi; omega) (fun i hi => by simpa using hi),
    keyed_ok pb.v pb.d _ (fun i hi => by simp at hi; omega) (fun i hi => by simpa using hi)]
  rfl

theorem sum_pos_of_ne_nil (l : List Int) (h : ∀ x ∈ l, 0 < x) (hne : l ≠ []) : 0 < l.sum := by
  cases l with
  | nil => exact absurd rfl hne
  | cons x xs =>
    have hx := h x (List.mem_cons_self ..)
    have : 0 ≤ xs.sum := by
      clear hne hx
      induction xs with
      | nil => simp
      | cons y ys ih =>
        have hy := h y (by simp)
        have := ih (fun z hz => h z (by simp at hz ⊢; rcases hz with h | h; exact Or.inl h; exact Or.inr (Or.inr h)))
        simp only [List.sum_cons]; omega
    simp only [List.sum_cons]; omega

theorem getD_mem_of_ltN (l : List Nat) (i : Nat) (h : i < l.length) : l.getD i 0 ∈ l := by
  have : l.getD i 0 = l[i] := by simp [List.getD_eq_getElem?_getD, List.getElem?_eq_getElem h]
  rw [this]; exact List.getElem_mem h

theorem backLoop_ok (so : Sorter) (as : List Nat) (i : Nat) (ret : List Nat) (n : Nat)
    (hi : i + as.length ≤ so.srcOrder.length) (ha : ∀ k ∈ as, k < so.snkOrder.length)
    (hsrc : ∀ k ∈ so.srcOrder, k < n) (hr : ret.length = n) :
    ∃ r, backLoop so as i ret = .ok r ∧ r.length = n ∧ ∀ k ∈ r, k ∈ ret ∨ k ∈ so.snkOrder := by
  induction as generalizing i ret with
  | nil => exact ⟨ret, rfl, hr, fun k hk => Or.inl hk⟩
  | cons ai as ih =>
    have hi1 : i < so.srcOrder.length := by simp at hi; omega
    have hai : ai < so.snkOrder.length := ha ai (List.mem_cons_self ..)
    have hk : so.srcOrder.getD i 0 < ret.length := by
      rw [hr]; exact hsrc _ (getD_mem_of_ltN _ _ hi1)
    obtain ⟨r, e, l1, l2⟩ := ih (i + 1) (ret.set (so.srcOrder.getD i 0) (so.snkOrder.getD ai 0))
      (by simp at hi ⊢; omega) (fun k hk => ha k (List.mem_cons_of_mem _ hk)) (by simp [hr])
    unfold backLoop
    simp only [get_okN so.srcOrder i hi1, get_okN so.snkOrder ai hai, setAt, hk, if_true, e,
      bind, Except.bind, pure, Except.pure]
    refine ⟨r, rfl, l1, ?_⟩
    intro k hk
    rcases l2 k hk with h | h
    · rcases List.mem_or_eq_of_mem_set h with h' | h'
      · exact Or.inl h'
      · exact Or.inr (h' ▸ getD_mem_of_ltN _ _ hai)
    · exact Or.inr h

theorem checkOk_iff (pb : Problem) :
    checkOk pb = true ↔ pb.s.length = pb.u.length ∧ pb.d.length = pb.v.length ∧
      (∀ x ∈ pb.s, 0 ≤ x) ∧ (∀ x ∈ pb.d, 0 ≤ x) ∧ pb.s.sum ≤ pb.d.sum := by
  simp only [checkOk, Bool.and_eq_true, beq_iff_eq, List.all_eq_true, decide_eq_true_eq]
  constructor
  · rintro ⟨⟨⟨⟨h1, h2⟩, h3⟩, h4⟩, h5⟩; exact ⟨h1, h2, h3, h4, h5⟩
  · rintro ⟨h1, h2, h3, h4, h5⟩; exact ⟨⟨⟨⟨h1, h2⟩, h3⟩, h4⟩, h5⟩

/-- the instance handed to the solver -/
def sortedSolver (pb : Problem) : Solver :=
  mkSolver ((ord pb.u pb.s).map fun i => pb.u.getD i 0) ((ord pb.v pb.d).map fun i => pb.v.getD i 0)
    ((ord pb.u pb.s).map fun i => pb.s.getD i 0) ((ord pb.v pb.d).map fun i => pb.d.getD i 0)

theorem convert_ok (pb : Problem) (hs : pb.s.length = pb.u.length) (hd : pb.d.length = pb.v.length) :
    convert ⟨ord pb.u pb.s, ord pb.v pb.d⟩ pb = .ok (sortedSolver pb) := by
  unfold convert
  have h1 : ∀ i ∈ ord pb.u pb.s, i < pb.u.length := fun i hi => ((mem_ord _ _ i).mp hi).1
  have h2 : ∀ i ∈ ord pb.v pb.d, i < pb.v.length := fun i hi => ((mem_ord _ _ i).mp hi).1
  simp only [gather_ok pb.u _ h1, gather_ok pb.s _ (fun i hi => by rw [hs]; exact h1 i hi),
    gather_ok pb.v _ h2, gather_ok pb.d _ (fun i hi => by rw [hd]; exact h2 i hi),
    bind, Except.bind, pure, Except.pure]
  rfl

theorem sortedSolver_wf (pb : Problem) : (sortedSolver pb).WF := by
  refine ⟨?_, ?_, ?_, ?_⟩ <;> simp [sortedSolver, mkSolver, prefixFrom_length]

theorem sortedSolver_spos (pb : Problem) : ∀ x ∈ (sortedSolver pb).s, 0 < x := by
  intro x hx
  simp only [sortedSolver, mkSolver, List.mem_map] at hx
  obtain ⟨i, hi, rfl⟩ := hx
  exact ((mem_ord _ _ i).mp hi).2

theorem sortedSolver_dpos (pb : Problem) : ∀ x ∈ (sortedSolver pb).d, 0 < x := by
  intro x hx
  simp only [sortedSolver, mkSolver, List.mem_map] at hx
  obtain ⟨i, hi, rfl⟩ := hx
  exact ((mem_ord _ _ i).mp hi).2

theorem sortedSolver_sinks (pb : Problem) (hv : checkOk pb = true) :
    (sortedSolver pb).u.length = 0 ∨ 0 < (sortedSolver pb).v.length := by
  obtain ⟨hs, hd, hsn, hdn, hle⟩ := (checkOk_iff pb).mp hv
  by_cases h0 : (sortedSolver pb).u.length = 0
  · exact Or.inl h0
  · right
    have hne : (sortedSolver pb).s ≠ [] := by
      intro h
      have : (sortedSolver pb).s.length = 0 := by rw [h]; rfl
      rw [(sortedSolver_wf pb).hs] at this
      exact h0 this
    have h1 := sum_pos_of_ne_nil _ (sortedSolver_spos pb) hne
    have h2 : (sortedSolver pb).s.sum = pb.s.sum := sum_ord pb.u pb.s hs hsn
    have h3 : (sortedSolver pb).d.sum = pb.d.sum := sum_ord pb.v pb.d hd hdn
    have h4 : (sortedSolver pb).d ≠ [] := by
      intro h
      rw [h] at h3
      simp at h3
      omega
    have h5 : 0 < (sortedSolver pb).d.length := List.length_pos_iff.mpr h4
    rw [(sortedSolver_wf pb).hd] at h5
    exact h5

theorem sortedSolver_slack (pb : Problem) (hv : checkOk pb = true) :
    0 ≤ (sortedSolver pb).D.getD (sortedSolver pb).v.length 0
      - (sortedSolver pb).S.getD (sortedSolver pb).u.length 0 := by
  obtain ⟨hs, hd, hsn, hdn, hle⟩ := (checkOk_iff pb).mp hv
  have wf := sortedSolver_wf pb
  have h2 : (sortedSolver pb).s.sum = pb.s.sum := sum_ord pb.u pb.s hs hsn
  have h3 : (sortedSolver pb).d.sum = pb.d.sum := sum_ord pb.v pb.d hd hdn
  have eD : (sortedSolver pb).D = prefixFrom 0 (sortedSolver pb).d := rfl
  have eS : (sortedSolver pb).S = prefixFrom 0 (sortedSolver pb).s := rfl
  rw [← wf.hd, ← wf.hs, eD, eS, prefixFrom_last, prefixFrom_last]
  omega

theorem sortedSolver_dom (pb : Problem) (hv : checkOk pb = true) : (sortedSolver pb).Dom := by
  have wf := sortedSolver_wf pb
  have eD : (sortedSolver pb).D = prefixFrom 0 (sortedSolver pb).d := rfl
  have eS : (sortedSolver pb).S = prefixFrom 0 (sortedSolver pb).s := rfl
  refine ⟨wf, ?_, ?_, ?_, ?_⟩
  · intro a b hab hb
    rw [eD]; exact prefixFrom_mono 0 _ (sortedSolver_dpos pb) a b hab (by rw [wf.hd]; exact hb)
  · intro a b hab hb
    rw [eS]; exact prefixFrom_mono 0 _ (sortedSolver_spos pb) a b hab (by rw [wf.hs]; exact hb)
  · have := sortedSolver_slack pb hv; omega
  · rw [eD, eS, prefixFrom_zero, prefixFrom_zero]; exact Int.le_refl _

/-- `assign` never fails (no out-of-range access, no `outOfFuel`) on the domain -/
theorem assign_total (pb : Problem) (hv : checkOk pb = true) :
    ∃ a, assign pb = .ok a ∧ a.length = pb.u.length ∧
      ((∃ j, j < pb.v.length ∧ 0 < pb.d.getD j 0) → ∀ k ∈ a, k < pb.v.length ∧ 0 < pb.d.getD k 0) := by
  obtain ⟨hs, hd, hsn, hdn, hle⟩ := (checkOk_iff pb).mp hv
  unfold assign
  simp only [check, hv, if_true, mkSorter_ok pb hs hd, convert_ok pb hs hd, bind, Except.bind,
    pure, Except.pure]
  have hm := sortedSolver_sinks pb hv
  have wf := sortedSolver_wf pb
  obtain ⟨p, erun, hp⟩ := run_ok (sortedSolver pb) (sortedSolver_dom pb hv) hm
  simp only [erun]
  obtain ⟨a, e, l1, l2⟩ := computeAssignment_ok (sortedSolver pb) wf (sortedSolver_spos pb) rfl p hp hm
  simp only [e]
  have hsrcLen : (ord pb.u pb.s).length = (sortedSolver pb).u.length := by simp [sortedSolver, mkSolver]
  have hsnkLen : (ord pb.v pb.d).length = (sortedSolver pb).v.length := by simp [sortedSolver, mkSolver]
  obtain ⟨r, e2, k1, k2⟩ := backLoop_ok ⟨ord pb.u pb.s, ord pb.v pb.d⟩ a 0
    (List.replicate pb.nbSources ((ord pb.v pb.d).headD 0)) pb.u.length
    (by simp [l1, hsrcLen]) (fun k hk => by simp only [hsnkLen]; exact l2 k hk)
    (fun k hk => ((mem_ord _ _ k).mp hk).1) (by simp [Problem.nbSources])
  unfold convertAssignmentBack
  simp only [e2]
  refine ⟨r, rfl, k1, ?_⟩
  rintro ⟨j, hj1, hj2⟩ k hk
  have hjm : j ∈ ord pb.v pb.d := (mem_ord _ _ j).mpr ⟨hj1, hj2⟩
  have hmem : k ∈ ord pb.v pb.d := by
    rcases k2 k hk with h | h
    · have := List.eq_of_mem_replicate h
      rw [this]
      cases hO : ord pb.v pb.d with
      | nil => rw [hO] at hjm; simp at hjm
      | cons z zs => simp
    · exact h
  exact (mem_ord _ _ k).mp hmem

end ColoVerif.Transp1d
