/-
C13, `updateTree` (part B): the loop invariant of `treeLoop`, its preservation by one round
(selection, relaxation pass, closing the selected sink), and the initial state.
-/
import ColoVerif.Proofs.TranspSsp2TreeA

namespace ColoVerif.Transp

/-- Loop invariant of `treeLoop` (label-correcting shortest paths with re-opening). -/
structure TInv (n : Nat) (remCapa : List Int) (w : Nat → Nat → Int) (d' : Nat → Int) (W : Int)
    (t : Tree) : Prop where
  wf : TWF n t
  a : ∀ i, i < n → remCapa.getD i 0 > 0 → lab t i = 0 ∧ par t i = none
  b : ∀ i, i < n → d' i ≤ lab t i
  ub : ∀ i, i < n → lab t i ≤ intMax
  c : ∀ k, k < n → vis t k = false → lab t k < intMax →
    ∀ i, i < n → remCapa.getD i 0 ≤ 0 → lab t i ≤ w i k + lab t k
  c1 : ∀ k, k < n → vis t k = true → lab t k < intMax
  p1 : ∀ i, i < n → remCapa.getD i 0 ≤ 0 → lab t i < intMax → ∃ k, par t i = some k
  d : ∃ T : Nat → Nat, ∀ i k, i < n → par t i = some k →
    k < n ∧ k ≠ i ∧ remCapa.getD i 0 ≤ 0 ∧ lab t k < intMax ∧ w i k + lab t k ≤ lab t i ∧
      (lab t i = w i k + lab t k → T k < T i)
  e : (∃ k, k < n ∧ remCapa.getD k 0 > 0 ∧ vis t k = false) →
    ∀ i, i < n → remCapa.getD i 0 ≤ 0 → lab t i ≤ W

lemma exists_bound (T : Nat → Nat) : ∀ n : Nat, ∃ M, ∀ j, j < n → T j ≤ M := by
  intro n
  induction n with
  | zero => exact ⟨0, fun j h => by omega⟩
  | succ n ih =>
    obtain ⟨M, hM⟩ := ih
    refine ⟨max M (T n), ?_⟩
    intro j hj
    by_cases e : j = n
    · subst e; exact Nat.le_max_right _ _
    · have := hM j (by omega)
      have := Nat.le_max_left M (T n)
      omega

lemma movingCostQ_self (qs : Queues) (i : Nat) : movingCostQ qs i i = .ok 0 := by
  simp [movingCostQ]

lemma TreeHyp.w0 {n : Nat} {qs : Queues} {remCapa : List Int} {w : Nat → Nat → Int} {d' : Nat → Int} {W : Int}
    (h : TreeHyp n qs remCapa w d' W) (bv : Nat) (hbv : bv < n) :
    w bv bv = 0 ∨ remCapa.getD bv 0 > 0 := by
  by_cases hf : remCapa.getD bv 0 > 0
  · exact Or.inr hf
  · left
    have := h.mc bv bv hbv hbv (by omega)
    rw [movingCostQ_self] at this
    have := Except.ok.inj this
    omega

/-- the tree after closing `bv` -/
def closeT (t : Tree) (bv : Nat) : Tree := { t with toVisit := t.toVisit.set bv false }

lemma lab_closeT (t : Tree) (bv j : Nat) : lab (closeT t bv) j = lab t j := rfl
lemma par_closeT (t : Tree) (bv j : Nat) : par (closeT t bv) j = par t j := rfl
lemma vis_closeT (n : Nat) (t : Tree) (wf : TWF n t) (bv j : Nat) (hbv : bv < n) :
    vis (closeT t bv) j = if j = bv then false else vis t j := by
  show (t.toVisit.set bv false).getD j false = _
  rw [getD_set_gen, wf.lv]
  by_cases e : j = bv
  · simp only [e, hbv, and_self, if_true]
  · simp only [e, false_and, if_false]; rfl

lemma TWF_closeT (n : Nat) (t : Tree) (wf : TWF n t) (bv : Nat) : TWF n (closeT t bv) :=
  ⟨wf.lc, wf.lp, by simp [closeT, wf.lv]⟩

/-- in a pass through `bv` the label of `bv` itself is unchanged -/
lemma RelaxRel.bv_same {remCapa : List Int} {w : Nat → Nat → Int} {bv lo hi : Nat} {t t' : Tree}
    (r : RelaxRel remCapa w bv lo hi t t') (hw0 : w bv bv = 0 ∨ remCapa.getD bv 0 > 0) :
    lab t' bv = lab t bv ∧ par t' bv = par t bv ∧ vis t' bv = vis t bv := by
  rcases r.step bv with h | ⟨_, _, h3, h4, _⟩
  · exact h
  · rcases hw0 with h0 | h0
    · rw [h0] at h4; omega
    · omega

theorem round_inv {n : Nat} {qs : Queues} {remCapa : List Int} {w : Nat → Nat → Int} {d' : Nat → Int} {W : Int}
    (hyp : TreeHyp n qs remCapa w d' W) (t t' : Tree) (bv : Nat) (hbv : bv < n)
    (hl : lab t bv < intMax) (inv : TInv n remCapa w d' W t) (wf' : TWF n t')
    (r : RelaxRel remCapa w bv 0 n t t') : TInv n remCapa w d' W (closeT t' bv) := by
  have hw0 := hyp.w0 bv hbv
  obtain ⟨sl, sp, sv⟩ := r.bv_same hw0
  have vc := vis_closeT n t' wf' bv
  refine ⟨TWF_closeT n t' wf' bv, ?_, ?_, ?_, ?_, ?_, ?_, ?_, ?_⟩
  · -- a
    intro i hi hf
    rw [lab_closeT, par_closeT]
    rcases r.step i with ⟨h1, h2, _⟩ | ⟨_, _, h3, _⟩
    · rw [h1, h2]; exact inv.a i hi hf
    · omega
  · -- b
    intro i hi
    rw [lab_closeT]
    rcases r.step i with ⟨h1, _, _⟩ | ⟨_, _, h3, _, h5, _, _⟩
    · rw [h1]; exact inv.b i hi
    · rw [h5]
      have := hyp.dw i bv hi hbv h3
      have := inv.b bv hbv
      omega
  · -- ub
    intro i hi
    rw [lab_closeT]
    have := r.le i
    have := inv.ub i hi
    omega
  · -- c
    intro k hk hvk hlk i hi hfi
    rw [lab_closeT] at hlk ⊢
    rw [lab_closeT]
    by_cases ek : k = bv
    · subst ek
      rw [sl]
      exact r.scanned i (Nat.zero_le _) hi hfi
    · rw [vc k hbv] at hvk
      simp only [ek, if_false] at hvk
      rcases r.step k with ⟨h1, _, h3⟩ | ⟨_, _, _, _, _, _, h7⟩
      · rw [h1] at hlk ⊢
        rw [h3] at hvk
        have := inv.c k hk hvk hlk i hi hfi
        have := r.le i
        omega
      · rw [h7] at hvk; exact absurd hvk (by simp)
  · -- c1
    intro k hk hvk
    rw [lab_closeT]
    rw [vc k hbv] at hvk
    by_cases ek : k = bv
    · simp only [ek, if_true] at hvk; exact absurd hvk (by simp)
    · simp only [ek, if_false] at hvk
      rcases r.step k with ⟨h1, _, h3⟩ | ⟨_, _, _, h4, h5, _, _⟩
      · rw [h1]; rw [h3] at hvk; exact inv.c1 k hk hvk
      · have := inv.ub k hk
        omega
  · -- p1
    intro i hi hfi hli
    rw [lab_closeT] at hli
    rw [par_closeT]
    rcases r.step i with ⟨h1, h2, _⟩ | ⟨_, _, _, _, _, h6, _⟩
    · rw [h1] at hli; rw [h2]; exact inv.p1 i hi hfi hli
    · exact ⟨bv, h6⟩
  · -- d
    obtain ⟨T, hT⟩ := inv.d
    obtain ⟨M, hM⟩ := exists_bound T n
    refine ⟨fun j => if lab t' j < lab t j then M + 1 else T j, ?_⟩
    intro i k hi hp
    rw [par_closeT] at hp
    rw [lab_closeT, lab_closeT]
    rcases r.step i with ⟨h1, h2, _⟩ | ⟨_, _, h3, h4, h5, h6, _⟩
    · -- `i` unchanged
      rw [h2] at hp
      obtain ⟨g1, g2, g3, g4, g5, g6⟩ := hT i k hi hp
      have lek := r.le k
      refine ⟨g1, g2, g3, by omega, by omega, ?_⟩
      intro tight
      have hk_same : ¬ lab t' k < lab t k := by omega
      have hi_same : ¬ lab t' i < lab t i := by omega
      simp only [hk_same, hi_same, if_false]
      apply g6
      omega
    · -- `i` relaxed in this pass
      rw [h6] at hp
      have ek : bv = k := Option.some.inj hp
      subst ek
      have hne : bv ≠ i := by
        intro e
        subst e
        omega
      refine ⟨hbv, hne, h3, by omega, by omega, ?_⟩
      intro _
      have hb_same : ¬ lab t' bv < lab t bv := by omega
      have hi_ch : lab t' i < lab t i := by omega
      simp only [hb_same, hi_ch, if_false, if_true]
      have := hM bv hbv
      omega
  · -- e
    intro ⟨k, hk, hfk, hvk⟩ i hi hfi
    rw [lab_closeT]
    by_cases ek : k = bv
    · subst ek
      have := r.scanned i (Nat.zero_le _) hi hfi
      have := (inv.a k hk hfk).1
      have := hyp.wle i k hi hk hfi
      omega
    · rw [vc k hbv] at hvk
      simp only [ek, if_false] at hvk
      rcases r.step k with ⟨_, _, h3⟩ | ⟨_, _, h3, _⟩
      · rw [h3] at hvk
        have := inv.e ⟨k, hk, hfk, hvk⟩ i hi hfi
        have := r.le i
        omega
      · omega

/-! ### the initial state -/

/-- the state with which `updateTree` enters its loop -/
def initT (remCapa : List Int) : Tree :=
  { sendCost := remCapa.map (fun c => if c > 0 then 0 else intMax),
    parent := remCapa.map (fun _ => none),
    toVisit := remCapa.map (fun c => decide (c > 0)) }

lemma lab_initT (remCapa : List Int) (i : Nat) (hi : i < remCapa.length) :
    lab (initT remCapa) i = if remCapa.getD i 0 > 0 then 0 else intMax := by
  show (remCapa.map (fun c => if c > 0 then 0 else intMax)).getD i 0 = _
  rw [getD_map_gen _ 0 0 remCapa i hi]

lemma par_initT (remCapa : List Int) (i : Nat) (hi : i < remCapa.length) :
    par (initT remCapa) i = none := by
  show (remCapa.map (fun _ => (none : Option Nat))).getD i none = _
  rw [getD_map_gen _ 0 none remCapa i hi]

lemma vis_initT (remCapa : List Int) (i : Nat) (hi : i < remCapa.length) :
    vis (initT remCapa) i = decide (remCapa.getD i 0 > 0) := by
  show (remCapa.map (fun c => decide (c > 0))).getD i false = _
  rw [getD_map_gen _ 0 false remCapa i hi]

theorem init_inv {n : Nat} {qs : Queues} {remCapa : List Int} {w : Nat → Nat → Int} {d' : Nat → Int} {W : Int}
    (hyp : TreeHyp n qs remCapa w d' W) : TInv n remCapa w d' W (initT remCapa) := by
  have hlen := hyp.len
  have hW := hyp.Wlt
  have hW0 := hyp.Wnn
  have im : intMax = 2147483647 := rfl
  have L : ∀ i, i < n → lab (initT remCapa) i = if remCapa.getD i 0 > 0 then 0 else intMax :=
    fun i hi => lab_initT remCapa i (by omega)
  have P : ∀ i, i < n → par (initT remCapa) i = none := fun i hi => par_initT remCapa i (by omega)
  have V : ∀ i, i < n → vis (initT remCapa) i = decide (remCapa.getD i 0 > 0) :=
    fun i hi => vis_initT remCapa i (by omega)
  refine ⟨⟨by simp [initT, hlen], by simp [initT, hlen], by simp [initT, hlen]⟩, ?_, ?_, ?_, ?_, ?_, ?_, ?_, ?_⟩
  · intro i hi hf
    rw [L i hi, P i hi, if_pos hf]
    exact ⟨rfl, rfl⟩
  · intro i hi
    rw [L i hi]
    by_cases hf : remCapa.getD i 0 > 0
    · rw [if_pos hf, hyp.dfree i hi hf]
    · rw [if_neg hf]; exact hyp.dle i hi
  · intro i hi
    rw [L i hi]
    split <;> omega
  · intro k hk hvk hlk
    rw [V k hk] at hvk
    rw [L k hk] at hlk
    have hf : ¬ remCapa.getD k 0 > 0 := by simpa using hvk
    rw [if_neg hf] at hlk
    omega
  · intro k hk hvk
    rw [V k hk] at hvk
    rw [L k hk]
    have hf : remCapa.getD k 0 > 0 := by simpa using hvk
    rw [if_pos hf]
    omega
  · intro i hi hfi hli
    rw [L i hi, if_neg (by omega)] at hli
    omega
  · refine ⟨fun _ => 0, ?_⟩
    intro i k hi hp
    rw [P i hi] at hp
    exact absurd hp (by simp)
  · intro ⟨k, hk, hfk, hvk⟩
    rw [V k hk] at hvk
    have : ¬ remCapa.getD k 0 > 0 := by simpa using hvk
    exact absurd hfk this

end ColoVerif.Transp
