import ColoVerif.Proofs.LegalizeLegalTetris
/-
Helper lemmas for C01 (`legalize_legal`), part 3: the Abacus pass.

`AbacusLegalizer::run` ends with `check()`, which the model executes (`abacusCheck`): a normal
return therefore certifies that every cell listed in a segment's `rowToCells_` lies inside the
segment and that the cells of one segment are in order without overlap.  What is left to prove is
the bookkeeping: a cell is marked placed only by `writeRows`, which gives it the `y` and the
orientation of a segment that lists it.
-/
namespace ColoVerif.Legalize
open ColoVerif

/-! ### `rowToCells_` keeps one list per segment -/

theorem abacusPlace_rowCells_length (a : Abacus) (i : Nat) (c : LCell) :
    (abacusPlace a i c).1.rowCells.length = a.rowCells.length := by
  unfold abacusPlace
  split
  · rfl
  · simp

theorem abacusLoop_rowCells_length : ∀ (cs : List LCell) (a : Abacus) (i : Nat),
    (abacusLoop a i cs).1.rowCells.length = a.rowCells.length
  | [], a, i => rfl
  | c :: cs, a, i => by
    simp only [abacusLoop]
    rw [abacusLoop_rowCells_length cs, abacusPlace_rowCells_length]

/-! ### `writeRows`: who marks a cell placed -/

/-- cell `c` was written by segment `row` -/
def WrittenBy (rows : List Row) (cells : List LCell) (P : List Pos) (c row : Nat) : Prop :=
  (posAt P c).y = (rowAt rows row).rect.minY ∧ (posAt P c).placed = true ∧
    (posAt P c).orient = getOrientation rows (cells.getD c default) row

theorem posAt_set (P : List Pos) (i c : Nat) (v : Pos) :
    posAt (P.set i v) c = if i = c ∧ i < P.length then v else posAt P c := by
  simp only [posAt, List.getD_eq_getElem?_getD, List.getElem?_set]
  by_cases h1 : i = c
  · subst h1
    by_cases h2 : i < P.length <;> simp [h2]
  · simp [h1]

theorem writeRow_spec (rows : List Row) (cells : List LCell) (row : Nat) :
    ∀ (rc : List Nat) (xs : List Int) (P : List Pos) (c : Nat),
      posAt (writeRow rows cells row rc xs P) c = posAt P c ∨
        (c ∈ rc ∧ WrittenBy rows cells (writeRow rows cells row rc xs P) c row)
  | [], _, P, c => by simp [writeRow]
  | _ :: _, [], P, c => by simp [writeRow]
  | c0 :: cs, x :: xs, P, c => by
    simp only [writeRow]
    rcases writeRow_spec rows cells row cs xs
      (P.set c0 ⟨x, (rowAt rows row).rect.minY, getOrientation rows (cells.getD c0 default) row, true⟩) c with h | h
    · rw [posAt_set] at h
      by_cases hc : c0 = c ∧ c0 < P.length
      · rw [if_pos hc] at h
        obtain ⟨rfl, _⟩ := hc
        right
        refine ⟨by simp, ?_⟩
        unfold WrittenBy
        rw [h]
        exact ⟨rfl, rfl, rfl⟩
      · rw [if_neg hc] at h
        exact Or.inl h
    · exact Or.inr ⟨by simp [h.1], h.2⟩

theorem writeRows_spec (rows : List Row) (cells : List LCell) :
    ∀ (rcs : List (List Nat)) (legs : List RowLeg.State) (i : Nat) (P : List Pos) (c : Nat),
      posAt (writeRows rows cells i rcs legs P) c = posAt P c ∨
        ∃ k rc, rcs[k]? = some rc ∧ c ∈ rc ∧ WrittenBy rows cells (writeRows rows cells i rcs legs P) c (i + k)
  | [], _, i, P, c => by simp [writeRows]
  | _ :: _, [], i, P, c => by simp [writeRows]
  | rc :: rcs, leg :: legs, i, P, c => by
    simp only [writeRows]
    rcases writeRows_spec rows cells rcs legs (i + 1) (writeRow rows cells i rc (RowLeg.placement leg) P) c with h | ⟨k, rc', h1, h2, h3⟩
    · rcases writeRow_spec rows cells i rc (RowLeg.placement leg) P c with h' | ⟨h1, h2⟩
      · left; rw [h, h']
      · right
        refine ⟨0, rc, by simp, h1, ?_⟩
        simp only [WrittenBy, h] at h2 ⊢
        exact h2
    · right
      refine ⟨k + 1, rc', by simpa using h1, h2, ?_⟩
      have e : i + (k + 1) = i + 1 + k := by omega
      rw [e]
      exact h3

theorem posAt_init (cells : List LCell) (c : Nat) : (posAt (cells.map initPos) c).placed = false := by
  simp only [posAt, List.getD_eq_getElem?_getD, List.getElem?_map]
  cases cells[c]? <;> rfl

/-! ### what `check()` certifies -/

/-- (the former `legalize_legal_partial`) whenever `AbacusLegalizer` returns, every cell listed in
a segment's `rowToCells_` is a valid index and lies inside the segment, and the cells of one
segment are pairwise in order without overlap -/
theorem abacusRun_check (rows : List Row) (cells : List LCell) (pos : List Pos)
    (hw : ∀ c ∈ cells, 0 < c.w) (h : abacusRun rows cells = .ok pos) :
    pos = writeRows (sortRows rows) cells 0 (abacusLoop (Abacus.init rows) 0 cells).1.rowCells
            (abacusLoop (Abacus.init rows) 0 cells).1.legs (cells.map initPos) ∧
    ∀ (k : Nat) (r : Row) (rc : List Nat), (sortRows rows)[k]? = some r →
      (abacusLoop (Abacus.init rows) 0 cells).1.rowCells[k]? = some rc →
      (∀ c ∈ rc, c < cells.length ∧ r.rect.minX ≤ (posAt pos c).x ∧
          (posAt pos c).x + (cellAt cells c).w ≤ r.rect.maxX) ∧
      rc.Pairwise fun c1 c2 => (posAt pos c1).x + (cellAt cells c1).w ≤ (posAt pos c2).x := by
  have hrows : (abacusLoop (Abacus.init rows) 0 cells).1.rows = sortRows rows := by
    rw [abacusLoop_rows]; rfl
  unfold abacusRun at h
  generalize hA : abacusLoop (Abacus.init rows) 0 cells = A at h hrows
  obtain ⟨a, oks⟩ := A
  simp only at h hrows ⊢
  rw [hrows] at h
  generalize hP : writeRows (sortRows rows) cells 0 a.rowCells a.legs (cells.map initPos) = P at h
  cases hck : abacusCheck (sortRows rows) cells a.rowCells P with
  | error e => rw [hck] at h; simp at h
  | ok u =>
    rw [hck] at h
    injection h with h
    subst h
    refine ⟨rfl, ?_⟩
    intro k r rc hr hrc
    have hmem : ∀ d ∈ rc, d < cells.length := by
      intro d hd
      have hrc' : rc ∈ (abacusLoop (Abacus.init rows) 0 cells).1.rowCells := by
        rw [hA]; exact List.mem_of_getElem? hrc
      rcases abacusLoop_mem cells (Abacus.init rows) 0 rc hrc' d hd with h | ⟨rc0, h0, hd0⟩
      · omega
      · simp only [Abacus.init, List.mem_map] at h0
        obtain ⟨_, _, rfl⟩ := h0
        simp at hd0
    have hwd : ∀ d ∈ rc, 0 < (cellAt cells d).w := by
      intro d hd
      have hl := hmem d hd
      apply hw
      simp [cellAt, List.getD_eq_getElem?_getD, List.getElem?_eq_getElem hl]
    unfold abacusCheck at hck
    split at hck
    · simp at hck
    · split at hck
      · simp at hck
      · rename_i hz
        split at hck
        · simp at hck
        · rename_i ho
          have hz' : zipAll (rowBoundsOk cells P) (sortRows rows) a.rowCells = true := by
            cases hq : zipAll (rowBoundsOk cells P) (sortRows rows) a.rowCells
            · simp [hq] at hz
            · rfl
          have ho' : a.rowCells.all (rowOrderOk cells P) = true := by
            cases hq : a.rowCells.all (rowOrderOk cells P)
            · simp [hq] at ho
            · rfl
          have hb := zipAll_get _ _ _ hz' k r rc hr hrc
          have hord : rowOrderOk cells P rc = true := by
            rw [List.all_eq_true] at ho'
            exact ho' rc (List.mem_of_getElem? hrc)
          refine ⟨?_, rowOrderOk_pairwise cells P rc hwd hord⟩
          intro c hc
          simp only [rowBoundsOk, List.all_eq_true] at hb
          have := hb c hc
          simp only [Bool.and_eq_true, Bool.not_eq_true', decide_eq_false_iff_not, Int.not_lt] at this
          exact ⟨hmem c hc, this.1, this.2⟩

theorem pairwise_ne {α : Type} {R : α → α → Prop} : ∀ {l : List α}, l.Pairwise R → ∀ a ∈ l, ∀ b ∈ l, a ≠ b →
    R a b ∨ R b a
  | [], _, a, ha, _, _, _ => by simp at ha
  | x :: xs, h, a, ha, b, hb, hne => by
    rw [List.pairwise_cons] at h
    rcases List.mem_cons.mp ha with ha' | ha'
    · rcases List.mem_cons.mp hb with hb' | hb'
      · exact absurd (ha'.trans hb'.symm) hne
      · rw [ha']; exact Or.inl (h.1 b hb')
    · rcases List.mem_cons.mp hb with hb' | hb'
      · rw [hb']; exact Or.inr (h.1 a ha')
      · exact pairwise_ne h.2 a ha' b hb' hne

/-- **The Abacus pass is legal relative to its segments.**  Every cell that `AbacusLegalizer` marks
placed sits on the bottom edge of one of the segments, inside it, with the orientation the segment
prescribes; two different placed cells do not overlap. -/
theorem abacusRun_ok (H : Int) (rows : List Row) (hok : RowsOK H rows) (cells : List LCell)
    (hw : ∀ c ∈ cells, 0 < c.w) (ps : List Pos) (h : abacusRun rows cells = .ok ps) :
    (∀ c, (posAt ps c).placed = true →
      ∃ r ∈ rows, (posAt ps c).y = r.rect.minY ∧ r.rect.minX ≤ (posAt ps c).x ∧
        (posAt ps c).x + (cellAt cells c).w ≤ r.rect.maxX ∧
        ∃ row, (posAt ps c).orient = getOrientation (sortRows rows) (cellAt cells c) row) ∧
    (∀ c1 c2, c1 ≠ c2 → (posAt ps c1).placed = true → (posAt ps c2).placed = true →
      (strip H (posAt ps c1).x (cellAt cells c1).w (posAt ps c1).y).intersects
        (strip H (posAt ps c2).x (cellAt cells c2).w (posAt ps c2).y) = false) := by
  obtain ⟨hps, hck⟩ := abacusRun_check rows cells ps hw h
  have hoks := hok.sort
  have hlen : (abacusLoop (Abacus.init rows) 0 cells).1.rowCells.length = (sortRows rows).length := by
    rw [abacusLoop_rowCells_length]
    simp [Abacus.init]
  -- every placed cell was written by a segment that lists it
  have hseg : ∀ c, (posAt ps c).placed = true →
      ∃ k r rc, (sortRows rows)[k]? = some r ∧ (abacusLoop (Abacus.init rows) 0 cells).1.rowCells[k]? = some rc ∧
        c ∈ rc ∧ (posAt ps c).y = r.rect.minY ∧
        (posAt ps c).orient = getOrientation (sortRows rows) (cellAt cells c) k := by
    intro c hc
    have hsp := writeRows_spec (sortRows rows) cells (abacusLoop (Abacus.init rows) 0 cells).1.rowCells
      (abacusLoop (Abacus.init rows) 0 cells).1.legs 0 (cells.map initPos) c
    rw [← hps] at hsp
    rcases hsp with hsp | ⟨k, rc, h1, h2, h3, _, h5⟩
    · rw [hsp, posAt_init] at hc; simp at hc
    · have hk : k < (sortRows rows).length := by
        rw [← hlen]
        exact (List.getElem?_eq_some_iff.mp h1).1
      simp only [Nat.zero_add] at h3 h5
      refine ⟨k, (sortRows rows)[k], rc, List.getElem?_eq_getElem hk, h1, h2, ?_, h5⟩
      rw [h3]
      simp [rowAt, List.getD_eq_getElem?_getD, List.getElem?_eq_getElem hk]
  constructor
  · intro c hc
    obtain ⟨k, r, rc, hr, hrc, hcm, hy, hor⟩ := hseg c hc
    obtain ⟨hb, _⟩ := hck k r rc hr hrc
    obtain ⟨_, b1, b2⟩ := hb c hcm
    exact ⟨r, (mem_sortRows r rows).mp (List.mem_of_getElem? hr), hy, b1, b2, k, hor⟩
  · intro c1 c2 hne hc1 hc2
    obtain ⟨k1, r1, rc1, hr1, hrc1, hcm1, hy1, _⟩ := hseg c1 hc1
    obtain ⟨k2, r2, rc2, hr2, hrc2, hcm2, hy2, _⟩ := hseg c2 hc2
    obtain ⟨hb1, hp1⟩ := hck k1 r1 rc1 hr1 hrc1
    obtain ⟨hb2, _⟩ := hck k2 r2 rc2 hr2 hrc2
    obtain ⟨_, a1, a2⟩ := hb1 c1 hcm1
    obtain ⟨_, b1, b2⟩ := hb2 c2 hcm2
    rw [intersects_false_iff]
    simp only [strip]
    by_cases hk : k1 = k2
    · subst hk
      rw [hrc1] at hrc2
      injection hrc2 with hrc2
      subst hrc2
      rcases pairwise_ne hp1 c1 hcm1 c2 hcm2 hne with h | h <;> omega
    · have hd := hoks.disj_idx k1 k2 r1 r2 hr1 hr2 hk
      rw [intersects_false_iff] at hd
      have e1 := hoks.height r1 (List.mem_of_getElem? hr1)
      have e2 := hoks.height r2 (List.mem_of_getElem? hr2)
      omega

end ColoVerif.Legalize
