/-
Shared definitions for the second layer of C13 proofs (`Proofs/TranspSsp2*.lean`):
heap predicate, depth along `sinkParent_`, hypotheses/specification of `updateTree`.
-/
import ColoVerif.Model.Transp

namespace ColoVerif.Transp

/-- min-heap on `cost` in the libstdc++ layout: the element at `(i-1)/2` never costs more than the one at `i` -/
def IsHeap (h : Heap) : Prop :=
  ∀ i, 0 < i → i < h.size → (hget h ((i - 1) / 2)).cost ≤ (hget h i).cost

/-- following `sinkParent_` from `x` reaches a root (`-1`) after exactly `k` steps -/
def depthIs (parent : List (Option Nat)) : Nat → Nat → Prop
  | 0, x => parent.getD x none = none
  | k + 1, x => ∃ y, parent.getD x none = some y ∧ depthIs parent k y

/-- What `updateTree` needs from the residual graph between sinks.  `w i k` is the solver's
`movingCost(i, k)` for a full sink `i`; `d'` are potentials that keep every reduced cost non-negative
(they come from the previous shortest-path labels); `W` bounds the edge costs. -/
structure TreeHyp (n : Nat) (qs : Queues) (remCapa : List Int) (w : Nat → Nat → Int) (d' : Nat → Int)
    (W : Int) : Prop where
  len : remCapa.length = n
  mc : ∀ i k, i < n → k < n → remCapa.getD i 0 ≤ 0 → movingCostQ qs i k = .ok (w i k)
  wle : ∀ i k, i < n → k < n → remCapa.getD i 0 ≤ 0 → w i k ≤ W
  Wlt : W < intMax
  Wnn : 0 ≤ W
  dnn : ∀ i, i < n → 0 ≤ d' i
  dle : ∀ i, i < n → d' i ≤ intMax
  dfree : ∀ i, i < n → remCapa.getD i 0 > 0 → d' i = 0
  dw : ∀ i k, i < n → k < n → remCapa.getD i 0 ≤ 0 → d' i - d' k ≤ w i k

/-- What `updateTree` delivers. -/
structure TreeSpec (n : Nat) (remCapa : List Int) (w : Nat → Nat → Int) (d' : Nat → Int) (W : Int)
    (t : Tree) : Prop where
  lenC : t.sendCost.length = n
  lenP : t.parent.length = n
  free : ∀ i, i < n → remCapa.getD i 0 > 0 → t.sendCost.getD i 0 = 0 ∧ t.parent.getD i none = none
  lower : ∀ i, i < n → d' i ≤ t.sendCost.getD i 0
  upper : ∀ i, i < n → t.sendCost.getD i 0 ≤ intMax
  edge : (∃ f, f < n ∧ remCapa.getD f 0 > 0) → ∀ i k, i < n → k < n → remCapa.getD i 0 ≤ 0 →
    t.sendCost.getD i 0 ≤ w i k + t.sendCost.getD k 0
  full : (∃ f, f < n ∧ remCapa.getD f 0 > 0) → ∀ i, i < n → remCapa.getD i 0 ≤ 0 →
    t.sendCost.getD i 0 ≤ W ∧
    ∃ k, k < n ∧ k ≠ i ∧ t.parent.getD i none = some k ∧ t.sendCost.getD i 0 = w i k + t.sendCost.getD k 0
  depth : ∀ i, i < n → ∃ k, k < n ∧ depthIs t.parent k i

end ColoVerif.Transp
