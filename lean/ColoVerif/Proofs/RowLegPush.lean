import ColoVerif.Proofs.RowLegEval
/-
Helper lemmas for C12, part 4: what one `push` does to the function encoded by
the queue (the two key facts K1 "the final position minimises the convex
one-step cost" and K2 "the new queue encodes the new value function").
-/
namespace ColoVerif.RowLeg

/-- Loop invariant of the scan in `getDisplacement` (`acc` = popped bounds, most recent first). -/
def ScanInv (B0 : List Bound) (w tgt lim cl e : Int)
    (rest : List Bound) (slope curPos curCost : Int) (acc : List Bound) : Prop :=
  acc.reverse ++ rest = B0 ∧ slope = -w + sumW acc ∧
  (acc = [] → curPos = e) ∧
  (∀ t acc', acc = t :: acc' → curPos = t.absPos ∧ popCond tgt lim (-w + sumW acc') t) ∧
  (∀ z, curCost + (min curPos cl - z) * (slope + w) = linc cl acc z)

theorem scan_facts (B0 : List Bound) (w tgt lim cl e : Int) :
    ∃ acc, (scan w tgt lim cl B0 (-w) e 0 []).passed = acc.reverse ∧
      ScanInv B0 w tgt lim cl e (scan w tgt lim cl B0 (-w) e 0 []).rest
        (scan w tgt lim cl B0 (-w) e 0 []).slope (scan w tgt lim cl B0 (-w) e 0 []).curPos
        (scan w tgt lim cl B0 (-w) e 0 []).curCost acc ∧
      (∀ t ∈ (scan w tgt lim cl B0 (-w) e 0 []).rest.head?,
        ¬ popCond tgt lim (scan w tgt lim cl B0 (-w) e 0 []).slope t) := by
  refine scan_rule w tgt lim cl (ScanInv B0 w tgt lim cl e) ?_ B0 (-w) e 0 [] ?_
  · intro t rest slope curPos curCost acc ⟨h1, h2, _, h4, h5⟩ hc
    refine ⟨by simpa using h1, by simp only [sumW]; omega, by simp, ?_, ?_⟩
    · intro t' acc' heq
      simp only [List.cons.injEq] at heq
      obtain ⟨rfl, rfl⟩ := heq
      exact ⟨rfl, by rw [← h2]; exact hc⟩
    · intro z
      simp only [linc]
      linear_combination h5 z
  · refine ⟨by simp, by simp [sumW], fun _ => rfl, by simp, ?_⟩
    intro z
    simp only [linc]
    ring

/-- The abstract content of one `push`, on the outcome of the scan. -/
theorem push_core (B0 R acc : List Bound) (w tgt lim cl e b slope curPos curCost fin : Int)
    (hsorted : Sorted B0) (hbpos : ∀ β ∈ B0, b ≤ β.absPos ∧ 0 < β.weight)
    (hw : 0 < w) (hbl : b ≤ lim) (hcl : cl = lim + w) (hcle : cl ≤ e)
    (hinv : ScanInv B0 w tgt lim cl e R slope curPos curCost acc)
    (hexit : ∀ t ∈ R.head?, ¬ popCond tgt lim slope t)
    (hfin : fin = min lim (max b (if slope ≥ 0 then curPos else tgt))) :
    (∀ β ∈ (if tgt > b then pqInsert ⟨min tgt fin, 2 * w + min slope 0⟩
              (if slope > 0 then pqInsert ⟨curPos, slope⟩ R else R)
            else (if slope > 0 then pqInsert ⟨curPos, slope⟩ R else R)),
        b ≤ β.absPos ∧ 0 < β.weight) ∧
    (∀ x, b ≤ x → x ≤ lim →
      (curCost + (min curPos cl - fin) * (slope + w) + w * ((fin - tgt).natAbs : Int))
        + eval (if tgt > b then pqInsert ⟨min tgt fin, 2 * w + min slope 0⟩
              (if slope > 0 then pqInsert ⟨curPos, slope⟩ R else R)
            else (if slope > 0 then pqInsert ⟨curPos, slope⟩ R else R)) x
        - eval (if tgt > b then pqInsert ⟨min tgt fin, 2 * w + min slope 0⟩
              (if slope > 0 then pqInsert ⟨curPos, slope⟩ R else R)
            else (if slope > 0 then pqInsert ⟨curPos, slope⟩ R else R)) lim
      = eval B0 (min fin x) - eval B0 cl + w * ((min fin x - tgt).natAbs : Int)) ∧
    (∀ y x, b ≤ y → y ≤ x → x ≤ lim →
      eval B0 (min fin x) + w * ((min fin x - tgt).natAbs : Int)
        ≤ eval B0 y + w * ((y - tgt).natAbs : Int)) := by
  obtain ⟨hsplit, hslope, hcur0, hcur1, hlin⟩ := hinv
  -- membership
  have hacc_mem : ∀ β ∈ acc, β ∈ B0 := by
    intro β hβ; rw [← hsplit]; simp [hβ]
  have hR_mem : ∀ β ∈ R, β ∈ B0 := by
    intro β hβ; rw [← hsplit]; simp [hβ]
  have hsumW : 0 ≤ sumW acc := sumW_nonneg acc (fun β hβ => by have := (hbpos β (hacc_mem β hβ)).2; omega)
  have hsortedR : Sorted R := by
    rw [← hsplit] at hsorted; exact (List.pairwise_append.mp hsorted).2.1
  have hcross : ∀ a ∈ acc, ∀ r ∈ R, r.absPos ≤ a.absPos := by
    intro a ha r hr
    rw [← hsplit] at hsorted
    exact Bound.ge_pos ((List.pairwise_append.mp hsorted).2.2 a (by simpa using ha) r hr)
  -- popped bounds are at or right of curPos
  have hacc_ge : ∀ β ∈ acc, curPos ≤ β.absPos := by
    intro β hβ
    cases acc with
    | nil => simp at hβ
    | cons t acc' =>
      obtain ⟨hc, _⟩ := hcur1 t acc' rfl
      rcases List.mem_cons.mp hβ with rfl | hβ'
      · omega
      · have hs : List.Pairwise Bound.GE (acc'.reverse ++ [t]) := by
          rw [← hsplit] at hsorted
          have := (List.pairwise_append.mp hsorted).1
          simpa using this
        have := (List.pairwise_append.mp hs).2.2 β (by simpa using hβ') t (by simp)
        have := Bound.ge_pos this
        omega
  have hcp : 0 ≤ slope → b ≤ curPos := by
    intro hs
    cases acc with
    | nil => simp [sumW] at hslope; omega
    | cons t acc' =>
      obtain ⟨hc, _⟩ := hcur1 t acc' rfl
      have := (hbpos t (hacc_mem t (List.mem_cons_self ..))).1
      omega
  have hfin_cur : fin ≤ curPos := by
    cases acc with
    | nil => have := hcur0 rfl; omega
    | cons t acc' =>
      obtain ⟨hc, hp⟩ := hcur1 t acc' rfl
      have := (hbpos t (hacc_mem t (List.mem_cons_self ..))).1
      unfold popCond at hp
      by_cases hs : slope ≥ 0
      · rw [if_pos hs] at hfin; omega
      · rw [if_neg hs] at hfin
        simp only [sumW] at hslope
        have := (hbpos t (hacc_mem t (List.mem_cons_self ..))).2
        omega
  have hbfin : b ≤ fin := by omega
  have hfinl : fin ≤ lim := by omega
  have hacc_fin : ∀ β ∈ acc, fin ≤ β.absPos := fun β hβ => by have := hacc_ge β hβ; omega
  -- the rest of the queue is at or left of the final position
  have hR_fin : ∀ β ∈ R, β.absPos ≤ fin := by
    cases hR : R with
    | nil => simp
    | cons r R' =>
      rw [hR] at hexit hsortedR hcross
      have hr := hexit r (by simp)
      unfold popCond at hr
      have hr_fin : r.absPos ≤ fin := by
        by_cases hs : slope ≥ 0
        · rw [if_pos hs] at hfin
          cases acc with
          | nil => simp [sumW] at hslope; omega
          | cons t acc' =>
            obtain ⟨hc, _⟩ := hcur1 t acc' rfl
            have := hcross t (List.mem_cons_self ..) r (List.mem_cons_self ..)
            have := hcp hs
            omega
        · rw [if_neg hs] at hfin; omega
      intro β hβ
      rcases List.mem_cons.mp hβ with rfl | hβ'
      · exact hr_fin
      · have := Bound.ge_pos (hsortedR.head β hβ')
        omega
  have heval : ∀ z, eval B0 z = eval acc z + eval R z := by
    intro z; rw [← hsplit, eval_append, eval_reverse]
  have hR0 : ∀ z, fin ≤ z → eval R z = 0 := fun z hz =>
    eval_below z R (fun β hβ => by have := hR_fin β hβ; omega)
  have hwR : ∀ β ∈ R, 0 ≤ β.weight := fun β hβ => by have := (hbpos β (hR_mem β hβ)).2; omega
  have hwacc : ∀ β ∈ acc, 0 ≤ β.weight := fun β hβ => by have := (hbpos β (hacc_mem β hβ)).2; omega
  have hsw : sumW acc = slope + w := by omega
  refine ⟨?_, ?_, ?_⟩
  · -- the new bounds are inside the row and have positive weights
    have hq1 : ∀ β ∈ (if slope > 0 then pqInsert ⟨curPos, slope⟩ R else R), b ≤ β.absPos ∧ 0 < β.weight := by
      by_cases hs : slope > 0
      · rw [if_pos hs]
        intro β hβ
        rcases (mem_pqInsert _ _ _).mp hβ with rfl | hβ'
        · exact ⟨hcp (by omega), hs⟩
        · exact hbpos β (hR_mem β hβ')
      · rw [if_neg hs]; exact fun β hβ => hbpos β (hR_mem β hβ)
    by_cases ht : tgt > b
    · rw [if_pos ht]
      intro β hβ
      rcases (mem_pqInsert _ _ _).mp hβ with rfl | hβ'
      · simp only; omega
      · exact hq1 β hβ'
    · rw [if_neg ht]; exact hq1
  · -- K2
    intro x hbx hxl
    have hterms := push_terms_identity w tgt lim b slope curPos fin x hfin hcp hbl hbx hxl
    have hcost : curCost + (min curPos cl - fin) * (slope + w)
        = eval acc fin - eval acc cl := by
      rw [hlin fin]
      exact linc_eq_eval cl fin (by omega) acc hacc_fin
    have hm : min fin x ≤ fin := by omega
    have hdiff := eval_diff_above (min fin x) fin hm acc hacc_fin
    have hRx : eval R x = eval R (min fin x) := by
      by_cases hxf : x ≤ fin
      · have : min fin x = x := by omega
        rw [this]
      · have : min fin x = fin := by omega
        rw [this, hR0 x (by omega), hR0 fin (Int.le_refl _)]
    have hRl := hR0 lim hfinl
    have hRc := hR0 cl (by omega)
    have hRf := hR0 fin (Int.le_refl _)
    simp only [eval_ite_pqInsert, heval]
    rw [hsw] at hdiff
    linear_combination hterms + hcost - hdiff + hRx - hRl + hRc
  · -- K1
    intro y x hby hyx hxl
    rw [heval, heval]
    by_cases hym : y ≤ min fin x
    · -- left of the final position the one-step cost decreases
      have hmf : min fin x ≤ fin := by omega
      have hd := eval_diff_above y (min fin x) hym acc (fun β hβ => by have := hacc_fin β hβ; omega)
      have hr := (eval_diff_bounds y (min fin x) hym R hwR).1
      rw [hsw] at hd
      by_cases hs : slope ≥ 0
      · have h1 : 0 ≤ (min fin x - y) - (((min fin x - tgt).natAbs : Int) - ((y - tgt).natAbs : Int)) := by omega
        have p1 := Int.mul_nonneg (Int.le_of_lt hw) h1
        have p2 := Int.mul_nonneg hs (show 0 ≤ min fin x - y by omega)
        nlinarith
      · rw [if_neg hs] at hfin
        have h1 : ((y - tgt).natAbs : Int) - ((min fin x - tgt).natAbs : Int) = min fin x - y := by omega
        have p2 := Int.mul_nonneg (show 0 ≤ slope + 2 * w by omega) (show 0 ≤ min fin x - y by omega)
        nlinarith
    · -- right of the final position it increases
      have hmf : min fin x = fin := by omega
      have hfy : fin ≤ y := by omega
      rw [hmf, hR0 fin (Int.le_refl _), hR0 y hfy]
      by_cases hs : slope ≥ 0
      · rw [if_pos hs] at hfin
        cases acc with
        | nil => simp [sumW] at hslope; omega
        | cons t acc' =>
          obtain ⟨hc, hp⟩ := hcur1 t acc' rfl
          have hcpb := hcp hs
          unfold popCond at hp
          have hd := (eval_diff_bounds fin y hfy acc'
            (fun β hβ => hwacc β (List.mem_cons_of_mem _ hβ))).2
          have e1 : max 0 (t.absPos - fin) = 0 := by omega
          have e2 : max 0 (t.absPos - y) = 0 := by omega
          have h1 : ((y - tgt).natAbs : Int) - ((fin - tgt).natAbs : Int) = y - fin := by omega
          have p2 := Int.mul_nonneg (show 0 ≤ w - sumW acc' by omega) (show 0 ≤ y - fin by omega)
          simp only [eval, e1, e2]
          nlinarith
      · rw [if_neg hs] at hfin
        have hd := (eval_diff_bounds fin y hfy acc hwacc).2
        rw [hsw] at hd
        have h1 : ((y - tgt).natAbs : Int) - ((fin - tgt).natAbs : Int) = y - fin := by omega
        have p2 := Int.mul_nonneg (show 0 ≤ -slope by omega) (show 0 ≤ y - fin by omega)
        nlinarith

end ColoVerif.RowLeg
