import ColoVerif.Proofs.GridDefs
import Mathlib.Data.List.Nodup
/-
C16, allocation invariant — generic lemmas: sequences of writes into a store, `applyW`, tables, `ParOk`.
-/
namespace ColoVerif.Grid

/-! ### a sequence of writes with distinct keys -/

theorem foldl_writes {σ κ ν : Type} [DecidableEq κ] (write : σ → κ → ν → σ) (read : σ → κ → ν)
    (ok : σ → κ → Prop)
    (hrw : ∀ st k v k', ok st k → read (write st k v) k' = if k' = k then v else read st k')
    (hok : ∀ st k v k', ok st k' → ok (write st k v) k') :
    ∀ (ws : List (κ × ν)) (st : σ), (ws.map Prod.fst).Nodup → (∀ w ∈ ws, ok st w.1) →
      (∀ w ∈ ws, read (ws.foldl (fun a w => write a w.1 w.2) st) w.1 = w.2) ∧
      (∀ k, k ∉ ws.map Prod.fst → read (ws.foldl (fun a w => write a w.1 w.2) st) k = read st k) := by
  intro ws
  induction ws with
  | nil => intro st _ _; simp
  | cons w0 rest ih =>
    intro st hnd hall
    simp only [List.map_cons, List.nodup_cons] at hnd
    have hok' : ∀ w ∈ rest, ok (write st w0.1 w0.2) w.1 := fun w hw =>
      hok _ _ _ _ (hall w (List.mem_cons_of_mem _ hw))
    obtain ⟨ih1, ih2⟩ := ih (write st w0.1 w0.2) hnd.2 hok'
    have h0 : ok st w0.1 := hall w0 (List.mem_cons_self)
    refine ⟨?_, ?_⟩
    · intro w hw
      simp only [List.foldl_cons]
      rcases List.mem_cons.mp hw with rfl | hw
      · rw [ih2 _ hnd.1, hrw _ _ _ _ h0]; simp
      · exact ih1 w hw
    · intro k hk
      simp only [List.map_cons, List.mem_cons, not_or] at hk
      simp only [List.foldl_cons]
      rw [ih2 k hk.2, hrw _ _ _ _ h0, if_neg hk.1]

/-- in a list of key/list pairs whose concatenated lists have no duplicate, an element determines its pair -/
theorem pair_unique_of_nodup {κ : Type} (zs : List (κ × List Nat)) (h : (zs.flatMap Prod.snd).Nodup)
    (a b : κ × List Nat) (ha : a ∈ zs) (hb : b ∈ zs) (c : Nat) (hca : c ∈ a.2) (hcb : c ∈ b.2) : a = b := by
  induction zs with
  | nil => cases ha
  | cons z rest ih =>
    simp only [List.flatMap_cons, List.nodup_append] at h
    obtain ⟨_, hrest, hdis⟩ := h
    rcases List.mem_cons.mp ha with rfl | ha' <;> rcases List.mem_cons.mp hb with rfl | hb'
    · rfl
    · exact absurd rfl (hdis c hca c (List.mem_flatMap.mpr ⟨b, hb', hcb⟩))
    · exact absurd rfl (hdis c hcb c (List.mem_flatMap.mpr ⟨a, ha', hca⟩))
    · exact ih hrest ha' hb'

/-! ### `applyW` -/

theorem getD_set_int (a : List Int) (k k' : Nat) (v d : Int) (hk : k < a.length) :
    (a.set k v).getD k' d = if k' = k then v else a.getD k' d := by
  simp only [List.getD_eq_getElem?_getD, List.getElem?_set]
  by_cases h : k = k'
  · subst h; simp [hk]
  · have : ¬ k' = k := fun e => h e.symm
    simp [h, this]

theorem applyW_length (ws : List (Nat × Int)) : ∀ cb : List Int, (applyW cb ws).length = cb.length := by
  induction ws with
  | nil => intro cb; rfl
  | cons w rest ih => intro cb; simp only [applyW, List.foldl_cons] at ih ⊢; rw [ih]; simp

theorem applyW_spec (cb : List Int) (ws : List (Nat × Int)) (hnd : (ws.map Prod.fst).Nodup)
    (hin : ∀ w ∈ ws, w.1 < cb.length) (d : Int) :
    (∀ w ∈ ws, (applyW cb ws).getD w.1 d = w.2) ∧
    (∀ k, k ∉ ws.map Prod.fst → (applyW cb ws).getD k d = cb.getD k d) := by
  have := foldl_writes (σ := List Int) (κ := Nat) (ν := Int) (fun a k v => a.set k v) (fun a k => a.getD k d)
    (fun a k => k < a.length)
    (fun st k v k' hk => getD_set_int st k k' v d hk)
    (fun st k v k' hk => by simpa using hk) ws cb hnd hin
  exact this

/-! ### tables -/

theorem getD_map_range {β : Type} (n i : Nat) (f : Nat → β) (d : β) :
    ((List.range n).map f).getD i d = if i < n then f i else d := by
  simp only [List.getD_eq_getElem?_getD, List.getElem?_map]
  by_cases h : i < n
  · simp [h]
  · simp [h]

theorem cellsAt_tab (nx ny : Nat) (f : Nat → Nat → List Nat) (i j : Nat) :
    cellsAt (tab nx ny f) i j = if i < nx ∧ j < ny then f i j else [] := by
  unfold cellsAt tab
  rw [getD_map_range]
  by_cases hi : i < nx
  · simp only [hi, if_true, true_and]
    rw [getD_map_range]
  · simp [hi]

theorem tab_length (nx ny : Nat) (f : Nat → Nat → List Nat) : (tab nx ny f).length = nx := by
  simp [tab]

theorem tab_col_length (nx ny : Nat) (f : Nat → Nat → List Nat) (i : Nat) (hi : i < nx) :
    ((tab nx ny f).getD i []).length = ny := by
  unfold tab
  rw [getD_map_range]
  simp [hi]

/-- one write into the table -/
def writeBins (b : Bins) (p : Nat × Nat) (cs : List Nat) : Bins := b.set p.1 ((b.getD p.1 []).set p.2 cs)

theorem writeBins_length (b : Bins) (p : Nat × Nat) (cs : List Nat) : (writeBins b p cs).length = b.length := by
  simp [writeBins]

theorem writeBins_col_length (b : Bins) (p : Nat × Nat) (cs : List Nat) (i : Nat) :
    ((writeBins b p cs).getD i []).length = (b.getD i []).length := by
  unfold writeBins
  simp only [List.getD_eq_getElem?_getD, List.getElem?_set]
  by_cases h : p.1 = i
  · subst h
    by_cases h2 : p.1 < b.length
    · simp [h2]
    · simp [h2]
  · simp [h]

theorem cellsAt_writeBins (b : Bins) (p q : Nat × Nat) (cs : List Nat)
    (hx : p.1 < b.length) (hy : p.2 < (b.getD p.1 []).length) :
    cellsAt (writeBins b p cs) q.1 q.2 = if q = p then cs else cellsAt b q.1 q.2 := by
  obtain ⟨px, py⟩ := p
  obtain ⟨qx, qy⟩ := q
  simp only at hx hy
  unfold cellsAt writeBins
  simp only [List.getD_eq_getElem?_getD, List.getElem?_set] at *
  by_cases h1 : px = qx
  · subst h1
    simp only [if_true, hx, Option.getD_some, List.getElem?_set]
    by_cases h2 : py = qy
    · subst h2
      simp [hy]
    · have : ¬ (px, qy) = (px, py) := by intro e; injection e with _ e2; exact h2 e2.symm
      simp [h2, this]
  · have : ¬ (qx, qy) = (px, py) := by intro e; injection e with e1 _; exact h1 e1.symm
    simp [h1, this]

theorem firstChild_iff (par : List Nat) (i : Nat) :
    HState.firstChild par i = true ↔ (i = 0 ∨ par.getD i 0 ≠ par.getD (i - 1) 0) := by
  unfold HState.firstChild
  by_cases h0 : i = 0
  · simp [h0]
  · simp [h0]

/-! ### `ParOk` -/

theorem ParOk.mono_succ {par : List Nat} {m : Nat} (h : ParOk par m) (i : Nat) (hi : i + 1 < par.length) :
    par.getD i 0 ≤ par.getD (i + 1) 0 := by
  rcases h.step i hi with e | e <;> omega

theorem ParOk.mono {par : List Nat} {m : Nat} (h : ParOk par m) (i j : Nat) (hij : i ≤ j) (hj : j < par.length) :
    par.getD i 0 ≤ par.getD j 0 := by
  induction j with
  | zero => have : i = 0 := by omega
            subst this; exact Nat.le_refl _
  | succ k ih =>
    by_cases e : i = k + 1
    · subst e; exact Nat.le_refl _
    · have := ih (by omega) (by omega)
      have := h.mono_succ k hj
      omega

theorem ParOk.lt {par : List Nat} {m : Nat} (h : ParOk par m) (i : Nat) (hi : i < par.length) :
    par.getD i 0 < m := by
  have := h.mono i (par.length - 1) (by omega) (by have := h.pos; omega)
  have := h.last
  omega

/-- two first children with the same parent are the same bin -/
theorem ParOk.first_unique {par : List Nat} {m : Nat} (h : ParOk par m) (i i' : Nat)
    (hi : i < par.length) (hi' : i' < par.length)
    (hf : HState.firstChild par i = true) (hf' : HState.firstChild par i' = true)
    (he : par.getD i 0 = par.getD i' 0) : i = i' := by
  -- wlog i < i' leads to a contradiction: par (i'-1) is squeezed
  have key : ∀ a b : Nat, a < b → b < par.length → HState.firstChild par b = true →
      par.getD a 0 = par.getD b 0 → False := by
    intro a b hab hb hfb hab'
    have h1 := h.mono a (b - 1) (by omega) (by omega)
    have h2 := h.mono_succ (b - 1) (by omega)
    have hb1 : b - 1 + 1 = b := by omega
    rw [hb1] at h2
    have : par.getD b 0 = par.getD (b - 1) 0 := by omega
    rcases (firstChild_iff par b).mp hfb with h0 | hne
    · omega
    · exact hne this
  rcases Nat.lt_trichotomy i i' with hlt | heq | hgt
  · exact (key i i' hlt hi' hf' he).elim
  · exact heq
  · exact (key i' i hgt hi hf he.symm).elim

/-- every parent has a first child -/
theorem ParOk.first_exists {par : List Nat} {m : Nat} (h : ParOk par m) (p : Nat) (hp : p < m) :
    ∃ i, i < par.length ∧ HState.firstChild par i = true ∧ par.getD i 0 = p := by
  -- by induction on i: every value ≤ par i has a first child at or before i
  have key : ∀ i, i < par.length → ∀ q, q ≤ par.getD i 0 →
      ∃ k, k ≤ i ∧ HState.firstChild par k = true ∧ par.getD k 0 = q := by
    intro i
    induction i with
    | zero =>
      intro _ q hq
      have := h.first
      exact ⟨0, Nat.le_refl _, (firstChild_iff par 0).mpr (Or.inl rfl), by omega⟩
    | succ k ih =>
      intro hk q hq
      rcases h.step k hk with e | e
      · obtain ⟨k', hk', hf, hv⟩ := ih (by omega) q (by omega)
        exact ⟨k', by omega, hf, hv⟩
      · by_cases hq' : q ≤ par.getD k 0
        · obtain ⟨k', hk', hf, hv⟩ := ih (by omega) q hq'
          exact ⟨k', by omega, hf, hv⟩
        · refine ⟨k + 1, Nat.le_refl _, ?_, by omega⟩
          have : ¬ par.getD (k + 1) 0 = par.getD k 0 := by omega
          exact (firstChild_iff par (k + 1)).mpr (Or.inr this)
  have hl := h.last
  have hpos := h.pos
  obtain ⟨k, hk, hf, hv⟩ := key (par.length - 1) (by omega) p (by omega)
  exact ⟨k, by omega, hf, hv⟩

end ColoVerif.Grid
