import ColoVerif.Proofs.LegalizeIdem2Top
/-
Helper lemmas for C11, part 6: the circuit-level statement.  `LegalC` is a verbatim copy of
`C01.Legal` (Properties/C01.lean ties them by `rfl`); `DomC` is the C01 domain as the property's
quantifier spells it out, implied by the decidable `C01.Dom` (`Legalize.domL_spelled`).
-/
namespace ColoVerif.Legalize
open ColoVerif

/-- the C01 domain as spelled out (implied by `C01.Dom`, see `domL_spelled`): uniform positive row height, pairwise disjoint rows,
movable cells of positive placed width whose placed height is a positive multiple of the row
height, polarised cells unturned -/
def DomC (c : Circuit) : Prop :=
  (∃ H, 0 < H ∧ Circuit.rowHeight c = some H ∧
    ∀ cl ∈ c.cells, cl.fixed = false → 0 < cl.placedWidth ∧ ∃ k : Int, 0 < k ∧ cl.placedHeight = k * H) ∧
  c.rows.Pairwise (fun r s => r.rect.intersects s.rect = false) ∧
  (∀ r ∈ c.rows, r.rect.minX < r.rect.maxX) ∧
  (∀ cl ∈ c.cells, cl.fixed = false → cl.pol ≠ Polarity.ANY → cl.orient.isTurn = false)

/-- the statement's legality (verbatim `C01.Legal`): bottom edge on a row boundary, every row-high
strip inside one free segment of `computeRows`, no two movable cells intersect -/
def LegalC (c : Circuit) : Prop :=
  (∀ H, Circuit.rowHeight c = some H → ∀ cl ∈ c.cells, cl.fixed = false →
    ∀ k : Int, 0 ≤ k → k * H < cl.placedHeight →
      ∃ r ∈ c.computeRows, r.rect.minY = cl.y + k * H ∧ r.rect.minX ≤ cl.x ∧ cl.x + cl.placedWidth ≤ r.rect.maxX) ∧
  (c.cells.filter fun cl => !cl.fixed).Pairwise fun a b => a.placement.intersects b.placement = false

/-- C11's restriction: every movable cell is exactly one row high -/
def SingleRow (c : Circuit) : Prop :=
  ∀ cl ∈ c.cells, cl.fixed = false → Circuit.rowHeight c = some cl.placedHeight

/-- what "legal" has to say about orientations for them to be kept: every movable cell has a valid
orientation (anything but INVALID), and in the free segment it sits in, the orientation its polarity
prescribes there — if it prescribes one: `cellOrientationInRow` answers UNKNOWN for polarity ANY —
is the one the cell has -/
def OrientLegal (c : Circuit) : Prop :=
  ∀ cl ∈ c.cells, cl.fixed = false → cl.orient ≠ Orient.INVALID ∧
    ∀ r ∈ c.computeRows, r.rect.minY = cl.y → r.rect.minX ≤ cl.x → cl.x + cl.placedWidth ≤ r.rect.maxX →
      cellOrientationInRow cl.pol r.orient = Orient.UNKNOWN ∨ cellOrientationInRow cl.pol r.orient = cl.orient

theorem intersects_mk (a0 a1 a2 a3 b0 b1 b2 b3 : Int) :
    Rect.intersects ⟨a0, a1, a2, a3⟩ ⟨b0, b1, b2, b3⟩ = true ↔ a0 < b1 ∧ b0 < a1 ∧ a2 < b3 ∧ b2 < a3 := by
  simp [Rect.intersects, and_assoc]

theorem rowHeight_all (c : Circuit) (H : Int) (h : Circuit.rowHeight c = some H) :
    ∀ r ∈ c.rows, r.rect.height = H := by
  unfold Circuit.rowHeight at h
  cases hr : c.rows with
  | nil => simp
  | cons r0 rs =>
    rw [hr] at h
    simp only at h
    split at h
    · rename_i hall
      simp only [Option.some.injEq] at h
      intro r hr'
      rcases List.mem_cons.mp hr' with rfl | hr'
      · exact h
      · rw [List.all_eq_true] at hall
        have := hall r hr'
        simp only [beq_iff_eq] at this
        omega
    · simp at h

theorem mem_computeRows (c : Circuit) (s : Row) (h : s ∈ c.computeRows) :
    ∃ r ∈ c.rows, ∃ iv ∈ Freespace.freeIntervals r.rect ([] ++ c.obstacles),
      s = ⟨⟨iv.1, iv.2, r.rect.minY, r.rect.maxY⟩, r.orient⟩ := by
  unfold Circuit.computeRows at h
  obtain ⟨r, hr, hs⟩ := List.mem_flatMap.mp h
  exact ⟨r, hr, (Row.mem_freespace r _ s).mp hs⟩

theorem computeRows_good (c : Circuit) (H : Int) (hH : Circuit.rowHeight c = some H)
    (hx : ∀ r ∈ c.rows, r.rect.minX < r.rect.maxX) : ∀ s ∈ c.computeRows, GoodSeg H s := by
  intro s hs
  obtain ⟨r, hr, iv, hiv, rfl⟩ := mem_computeRows c s hs
  obtain ⟨h1, _, h3, _⟩ := Freespace.freeIntervals_inside _ _ iv hiv
  have := rowHeight_all c H hH r hr
  exact ⟨h3, h1, this⟩

theorem computeRows_disj (c : Circuit) (H : Int) (hpos : 0 < H) (hH : Circuit.rowHeight c = some H)
    (hx : ∀ r ∈ c.rows, r.rect.minX < r.rect.maxX)
    (hd : c.rows.Pairwise (fun r s => r.rect.intersects s.rect = false)) :
    c.computeRows.Pairwise RowsDisj := by
  unfold Circuit.computeRows
  rw [List.pairwise_flatMap]
  constructor
  · intro r _
    unfold Row.freespace
    rw [List.pairwise_map]
    refine List.Pairwise.imp ?_ (Freespace.freeIntervals_pairwise r.rect _)
    intro p q hpq _
    left
    simp only
    omega
  · refine List.Pairwise.imp_of_mem ?_ hd
    intro r s hr hs hrs x hx' y hy'
    obtain ⟨iv, hiv, rfl⟩ := (Row.mem_freespace r _ x).mp hx'
    obtain ⟨jv, hjv, rfl⟩ := (Row.mem_freespace s _ y).mp hy'
    obtain ⟨_, a2, _, a4⟩ := Freespace.freeIntervals_inside _ _ iv hiv
    obtain ⟨_, b2, _, b4⟩ := Freespace.freeIntervals_inside _ _ jv hjv
    have hr1 := hx r hr
    have hs1 := hx s hs
    have e1 : Freespace.lo r.rect = r.rect.minX := Int.min_eq_left (by omega)
    have e2 : Freespace.hi r.rect = r.rect.maxX := Int.max_eq_right (by omega)
    have e3 : Freespace.lo s.rect = s.rect.minX := Int.min_eq_left (by omega)
    have e4 : Freespace.hi s.rect = s.rect.maxX := Int.max_eq_right (by omega)
    rw [e1] at a2; rw [e2] at a4; rw [e3] at b2; rw [e4] at b4
    have hhr := rowHeight_all c H hH r hr
    have hhs := rowHeight_all c H hH s hs
    simp only [Rect.height] at hhr hhs
    intro hy
    simp only at hy
    simp only [Rect.intersects, Bool.and_eq_false_iff, decide_eq_false_iff_not] at hrs
    simp only
    omega

/-- **Idempotence at circuit level**, for any rounding of the ordering key that keeps the
left-to-right order of the cells of each free segment (`KeyOrderSeg` over `computeRows`). -/
theorem legalizeWith_fixed_seg (rnd : Rat → Rat) (p : Params) (c : Circuit) (hp : p.check = true)
    (hd : DomC c) (hs : SingleRow c) (hl : LegalC c) (ho : OrientLegal c)
    (hk : KeyOrderSeg rnd p c.computeRows (movable c)) :
    legalizeWith rnd p c = .ok c := by
  obtain ⟨⟨H, hpos, hH, hcl⟩, hdis, hx, _⟩ := hd
  have hgood := computeRows_good c H hH hx
  have hdisj := computeRows_disj c H hpos hH hx hdis
  have hph : ∀ cl ∈ c.cells, cl.fixed = false → cl.placedHeight = H := by
    intro cl hcl' hf
    have := hs cl hcl' hf
    rw [hH] at this
    exact (Option.some.inj this).symm
  have hcells : ∀ lc ∈ movable c, CellInPlace c.computeRows H lc := by
    intro lc hlc
    unfold movable at hlc
    obtain ⟨cl, hcl', rfl⟩ := List.mem_map.mp hlc
    obtain ⟨hmem, hf⟩ := List.mem_filter.mp hcl'
    have hf' : cl.fixed = false := by simpa using hf
    have hh := hph cl hmem hf'
    obtain ⟨r, hr, r1, r2, r3⟩ := hl.1 H hH cl hmem hf' 0 (Int.le_refl _) (by omega)
    have r1' : r.rect.minY = cl.y := by omega
    refine ⟨hh, (hcl cl hmem hf').1, (ho cl hmem hf').1, r, hr, r1', r2, r3, ?_⟩
    exact (ho cl hmem hf').2 r hr r1' r2 r3
  have hnoov : (movable c).Pairwise NoOverlap := by
    unfold movable
    rw [List.pairwise_map]
    refine List.Pairwise.imp_of_mem ?_ hl.2
    intro a b ha hb hab
    obtain ⟨ma, fa⟩ := List.mem_filter.mp ha
    obtain ⟨mb, fb⟩ := List.mem_filter.mp hb
    have ha' := hph a ma (by simpa using fa)
    have hb' := hph b mb (by simpa using fb)
    intro hy
    simp only at hy
    have hpos' := hpos
    apply Classical.byContradiction
    intro hcon
    dsimp only at hcon hy
    have : a.placement.intersects b.placement = true := by
      unfold Cell.placement
      rw [intersects_mk]
      omega
    rw [hab] at this
    exact Bool.false_ne_true this
  unfold legalizeWith
  rw [hp]
  simp only [Bool.not_true, Bool.false_eq_true, if_false]
  simp only [fromCircuit]
  rw [run_fixed rnd p c.computeRows H (movable c) hgood hdisj hcells hnoov hk]
  simp only [exportPlacement, movable]
  rw [exportCells_final]

/-- the same under the row-wide hypothesis `KeyOrder` -/
theorem legalizeWith_fixed (rnd : Rat → Rat) (p : Params) (c : Circuit) (hp : p.check = true)
    (hd : DomC c) (hs : SingleRow c) (hl : LegalC c) (ho : OrientLegal c) (hk : KeyOrder rnd p (movable c)) :
    legalizeWith rnd p c = .ok c :=
  legalizeWith_fixed_seg rnd p c hp hd hs hl ho (hk.toSeg _)

end ColoVerif.Legalize
