import ColoVerif.Model.NetAsm
import ColoVerif.Proofs.NetAsmScale
import ColoVerif.Proofs.NetAsmLsq
import ColoVerif.Proofs.NetAsmModels
import Mathlib.Tactic.Ring
import Mathlib.Tactic.Linarith
/-
C17 helper lemmas for `MatrixCreator::finalize`.

`finalize` adds an *unscaled* entry `(i, i, 1e-8f)` for every unknown `i` whose `hasNonZero_` flag
is still false.  Invariant of the assembly (`FinInv`): a row whose flag is false is empty and has a
zero right-hand side (every `addFixedPin`/`addMovingPin` that writes to row `c` also sets the flag
of `c`; `addCell` appends an empty row with a false flag).  Hence the regularisation rows read
`1e-8 · x_i = 0` whatever the weights are, all other rows scale with the weights, and the
*finalized* systems for weights `W` and `k·W` have the same solutions.

The invariant needs the cell indices of the stored nets to be valid (`-1` or `< nbCells`, what
`NetModel::check` enforces): with an out-of-range index the C++ writes outside its vectors.
-/
namespace ColoVerif.NetAsm

/-! ### lists -/

theorem getD_set_true (l : List Bool) (i j : Nat) :
    (l.set i true).getD j true = if j = i then true else l.getD j true := by
  induction l generalizing i j with
  | nil => simp
  | cons a as ih =>
    cases i with
    | zero => cases j <;> simp
    | succ i' =>
      cases j with
      | zero => simp
      | succ j' =>
        have := ih i' j'
        simp only [List.set_cons_succ, List.getD_cons_succ, this]
        by_cases h : j' = i' <;> simp [h]

theorem addAt_getD_ne (l : List Rat) (i j : Nat) (v : Rat) (h : j ≠ i) :
    (addAt l i v).getD j 0 = l.getD j 0 := by
  induction l generalizing i j with
  | nil => simp [addAt]
  | cons a as ih =>
    cases i with
    | zero =>
      cases j with
      | zero => exact absurd rfl h
      | succ j' => simp [addAt]
    | succ i' =>
      cases j with
      | zero => simp [addAt]
      | succ j' =>
        simp only [addAt, List.getD_cons_succ]
        exact ih i' j' (by omega)

/-! ### the invariant -/

/-- Rows whose non-zero flag is false are empty and have a zero right-hand side; the vectors have
one entry per unknown. -/
structure FinInv (s : Sys) : Prop where
  rhsLen : s.rhs.length = s.matSize
  nzLen : s.nz.length = s.matSize
  rows : ∀ e ∈ s.mat, e.1 < s.matSize ∧ s.nz.getD e.1 true = true
  zero : ∀ i, s.nz.getD i true = false → s.rhs.getD i 0 = 0

theorem init_fin (n : Nat) : FinInv (Sys.init n) := by
  refine ⟨by simp [Sys.init, Sys.matSize], by simp [Sys.init, Sys.matSize], ?_, ?_⟩
  · intro e he; simp [Sys.init] at he
  · intro i _
    simp only [Sys.init]
    by_cases h : i < n
    · simp [List.getD_eq_getElem?_getD, h]
    · simp [List.getD_eq_getElem?_getD, h]

theorem addFixedPin_fin (s : Sys) (c : Nat) (o pos w : Rat) (hc : c < s.matSize) (h : FinInv s) :
    FinInv (addFixedPin s c o pos w) := by
  refine ⟨?_, ?_, ?_, ?_⟩
  · show (addAt s.rhs c _).length = s.matSize
    rw [addAt_length]; exact h.rhsLen
  · show (s.nz.set c true).length = s.matSize
    rw [List.length_set]; exact h.nzLen
  · intro e he
    have he' : e = (c, c, w) ∨ e ∈ s.mat := by simpa [addFixedPin] using he
    show e.1 < s.matSize ∧ (s.nz.set c true).getD e.1 true = true
    rw [getD_set_true]
    rcases he' with rfl | he'
    · exact ⟨hc, by simp⟩
    · obtain ⟨a, b⟩ := h.rows e he'
      exact ⟨a, by split <;> [rfl; exact b]⟩
  · intro i hi
    have hi' : (s.nz.set c true).getD i true = false := hi
    rw [getD_set_true] at hi'
    by_cases e : i = c
    · simp [e] at hi'
    · simp only [e, if_false] at hi'
      show (addAt s.rhs c _).getD i 0 = 0
      rw [addAt_getD_ne _ _ _ _ e]
      exact h.zero i hi'

theorem addMovingPin_fin (s : Sys) (c1 c2 : Nat) (o1 o2 w : Rat) (h1 : c1 < s.matSize) (h2 : c2 < s.matSize)
    (h : FinInv s) : FinInv (addMovingPin s c1 c2 o1 o2 w) := by
  unfold addMovingPin
  by_cases hne : c1 = c2
  · simp only [hne, if_true]; exact h
  · simp only [hne, if_false]
    refine ⟨?_, ?_, ?_, ?_⟩
    · show (addAt (addAt s.rhs c1 _) c2 _).length = s.matSize
      rw [addAt_length, addAt_length]; exact h.rhsLen
    · show ((s.nz.set c1 true).set c2 true).length = s.matSize
      rw [List.length_set, List.length_set]; exact h.nzLen
    · intro e he
      have he' : e = (c2, c2, w) ∨ e = (c1, c1, w) ∨ e = (c2, c1, -w) ∨ e = (c1, c2, -w) ∨ e ∈ s.mat := by
        simpa using he
      show e.1 < s.matSize ∧ ((s.nz.set c1 true).set c2 true).getD e.1 true = true
      rw [getD_set_true, getD_set_true]
      rcases he' with rfl | rfl | rfl | rfl | he'
      · exact ⟨h2, by simp⟩
      · exact ⟨h1, by simp⟩
      · exact ⟨h2, by simp⟩
      · exact ⟨h1, by simp⟩
      · obtain ⟨a, b⟩ := h.rows e he'
        exact ⟨a, by split <;> [rfl; (split <;> [rfl; exact b])]⟩
    · intro i hi
      have hi' : ((s.nz.set c1 true).set c2 true).getD i true = false := hi
      rw [getD_set_true, getD_set_true] at hi'
      by_cases e2 : i = c2
      · simp [e2] at hi'
      · by_cases e1 : i = c1
        · simp [e1] at hi'
        · simp only [e1, e2, if_false] at hi'
          show (addAt (addAt s.rhs c1 _) c2 _).getD i 0 = 0
          rw [addAt_getD_ne _ _ _ _ e2, addAt_getD_ne _ _ _ _ e1]
          exact h.zero i hi'

theorem addPin_fin (s : Sys) (c1 c2 : Int) (o1 o2 w : Rat)
    (h1 : CellOk s.matSize c1) (h2 : CellOk s.matSize c2) (h : FinInv s) :
    FinInv (addPin s c1 c2 o1 o2 w) := by
  unfold addPin
  by_cases e : c1 = c2
  · simp only [e, if_true]; exact h
  · simp only [e, if_false]
    by_cases e1 : c1 = -1
    · simp only [e1, if_true]
      rcases h2 with h2 | ⟨a, b⟩
      · exact absurd (e1.trans h2.symm) e
      · exact addFixedPin_fin s c2.toNat o2 o1 w (by omega) h
    · simp only [e1, if_false]
      rcases h1 with h1 | ⟨a1, b1⟩
      · exact absurd h1 e1
      · by_cases e2 : c2 = -1
        · simp only [e2, if_true]
          exact addFixedPin_fin s c1.toNat o1 o2 w (by omega) h
        · simp only [e2, if_false]
          rcases h2 with h2 | ⟨a2, b2⟩
          · exact absurd h2 e2
          · exact addMovingPin_fin s c1.toNat c2.toNat o1 o2 w (by omega) (by omega) h

theorem addCell_fin (s : Sys) (init : Rat) (h : FinInv s) : FinInv (addCell s init) := by
  have hms : (addCell s init).matSize = s.matSize + 1 := by simp [addCell, Sys.matSize]; omega
  refine ⟨?_, ?_, ?_, ?_⟩
  · rw [hms]; simp [addCell, h.rhsLen]
  · rw [hms]; simp [addCell, h.nzLen]
  · intro e he
    obtain ⟨a, b⟩ := h.rows e (by simpa [addCell] using he)
    rw [hms]
    refine ⟨by omega, ?_⟩
    show (s.nz ++ [false]).getD e.1 true = true
    have hlt : e.1 < s.nz.length := by rw [h.nzLen]; exact a
    rw [List.getD_eq_getElem?_getD, List.getElem?_append_left hlt, ← List.getD_eq_getElem?_getD]
    exact b
  · intro i hi
    have hi' : (s.nz ++ [false]).getD i true = false := hi
    show (s.rhs ++ [0]).getD i 0 = 0
    by_cases hlt : i < s.matSize
    · have h1 : i < s.nz.length := by rw [h.nzLen]; exact hlt
      have h2 : i < s.rhs.length := by rw [h.rhsLen]; exact hlt
      rw [List.getD_eq_getElem?_getD, List.getElem?_append_left h1, ← List.getD_eq_getElem?_getD] at hi'
      rw [List.getD_eq_getElem?_getD, List.getElem?_append_left h2, ← List.getD_eq_getElem?_getD]
      exact h.zero i hi'
    · have h2 : s.rhs.length ≤ i := by rw [h.rhsLen]; omega
      rw [List.getD_eq_getElem?_getD, List.getElem?_append_right h2]
      by_cases e : i - s.rhs.length = 0
      · simp [e]
      · have : 1 ≤ i - s.rhs.length := by omega
        simp [List.getElem?_eq_none, this]

/-! ### a generic traversal: anything closed under `addPin` (valid cells) and `addCell` survives
the assembly -/

/-- A predicate on systems that every elementary operation of the assembly preserves. -/
structure PinClosed (P : Sys → Prop) : Prop where
  pin : ∀ (s : Sys) (c1 c2 : Int) (o1 o2 w : Rat), CellOk s.matSize c1 → CellOk s.matSize c2 → P s →
    P (addPin s c1 c2 o1 o2 w)
  cell : ∀ (s : Sys) (init : Rat), P s → P (addCell s init)

theorem finInv_closed : PinClosed FinInv := ⟨addPin_fin, addCell_fin⟩

/-- What is carried through the loops. -/
def SP (P : Sys → Prop) (M N : Nat) (s : Sys) : Prop := P s ∧ s.matSize = M ∧ s.nbCells = N

theorem addPin_sp {P : Sys → Prop} (hP : PinClosed P) (M N : Nat) (s : Sys) (c1 c2 : Int) (o1 o2 w : Rat)
    (h1 : CellOk M c1) (h2 : CellOk M c2) (h : SP P M N s) : SP P M N (addPin s c1 c2 o1 o2 w) := by
  obtain ⟨hp, hm, hn⟩ := h
  subst hm
  exact ⟨hP.pin s c1 c2 o1 o2 w h1 h2 hp, addPin_matSize .., by rw [addPin_nbCells]; exact hn⟩

theorem addCell_sp {P : Sys → Prop} (hP : PinClosed P) (M N : Nat) (s : Sys) (init : Rat) (h : SP P M N s) :
    SP P (M + 1) N (addCell s init) := by
  obtain ⟨hp, hm, hn⟩ := h
  refine ⟨hP.cell s init hp, ?_, hn⟩
  simp only [addCell, Sys.matSize] at hm ⊢
  omega

theorem loopIdx_sp {P : Sys → Prop} (M N : Nat) (G : Pin → Prop) (f : Sys → Nat → Pin → Sys)
    (hf : ∀ s i p, G p → SP P M N s → SP P M N (f s i p)) (pins : List Pin) :
    ∀ (s : Sys) (i : Nat), (∀ p ∈ pins, G p) → SP P M N s → SP P M N (loopIdx f s i pins) := by
  induction pins with
  | nil => intro s i _ h; exact h
  | cons p ps ih =>
    intro s i hg h
    simp only [loopIdx]
    exact ih _ _ (fun q hq => hg q (List.mem_cons_of_mem _ hq)) (hf s i p (hg p (List.mem_cons_self ..)) h)

theorem addBipoint0_sp {P : Sys → Prop} (hP : PinClosed P) (M N : Nat) (s : Sys) (n : Net)
    (hp : ∀ p ∈ n.pins, CellOk M p.1) (h : SP P M N s) : SP P M N (addBipoint0 s n) := by
  unfold addBipoint0
  rcases hpins : n.pins with _ | ⟨p0, _ | ⟨p1, rest⟩⟩
  · exact h
  · exact h
  · exact addPin_sp hP M N s _ _ _ _ _ (hp p0 (by simp [hpins])) (hp p1 (by simp [hpins])) h

theorem addBipoint_sp {P : Sys → Prop} (hP : PinClosed P) (M N : Nat) (pl : List Rat) (ε : Rat) (s : Sys) (n : Net)
    (hp : ∀ p ∈ n.pins, CellOk M p.1) (h : SP P M N s) : SP P M N (addBipoint pl ε s n) := by
  unfold addBipoint
  rcases hpins : n.pins with _ | ⟨p0, _ | ⟨p1, rest⟩⟩
  · exact h
  · exact h
  · exact addPin_sp hP M N s _ _ _ _ _ (hp p0 (by simp [hpins])) (hp p1 (by simp [hpins])) h

theorem cliqueGo_sp {P : Sys → Prop} (hP : PinClosed P) (M N : Nat) (pl : List Rat) (ε w : Rat) (ps : List Pin) :
    ∀ (s : Sys), (∀ p ∈ ps, CellOk M p.1) → SP P M N s → SP P M N (cliqueGo pl ε w s ps) := by
  induction ps with
  | nil => intro s _ h; exact h
  | cons p ps ih =>
    intro s hp h
    have hps : ∀ q ∈ ps, CellOk M q.1 := fun q hq => hp q (List.mem_cons_of_mem _ hq)
    simp only [cliqueGo]
    apply ih _ hps
    exact loopIdx_sp M N (fun q => CellOk M q.1) _
      (fun s i q hq hs => addPin_sp hP M N s _ _ _ _ _ (hp p (List.mem_cons_self ..)) hq hs) ps s 0 hps h

/-- One net, any of the five variants. -/
theorem addNetModel_sp {P : Sys → Prop} (hP : PinClosed P) (m : Mode) (M N : Nat) (pl : List Rat) (ε : Rat)
    (s : Sys) (n : Net) (hp : ∀ p ∈ n.pins, CellOk M p.1) (h : SP P M N s) :
    ∃ M', M ≤ M' ∧ SP P M' N (addNetModel m pl ε s n) := by
  have hM : s.matSize = M := h.2.1
  have hp1 : ∀ p ∈ n.pins, CellOk (M + 1) p.1 := fun p hq => cellOk_mono (by omega) (hp p hq)
  cases m with
  | star0 =>
    simp only [addNetModel, addStar0]
    by_cases hl : n.pins.length ≤ 2
    · simp only [hl, if_true]; exact ⟨M, Nat.le_refl _, addBipoint0_sp hP M N s n hp h⟩
    · simp only [hl, if_false, hM]
      exact ⟨M + 1, by omega, loopIdx_sp (M + 1) N (fun q => CellOk (M + 1) q.1) _
        (fun s i q hq hs => addPin_sp hP (M + 1) N s _ _ _ _ _ hq (cellOk_nat _ _ (by omega)) hs)
        n.pins _ 0 hp1 (addCell_sp hP M N s 0 h)⟩
  | b2b =>
    simp only [addNetModel, addB2B]
    refine ⟨M, Nat.le_refl _, loopIdx_sp M N (fun q => CellOk M q.1) _ ?_ n.pins s 0 hp h⟩
    intro s i q hq hs
    unfold b2bBody
    split
    · exact hs
    · unfold b2bMax
      split
      · exact addPin_sp hP M N s _ _ _ _ _ hq (minPin_cellOk M pl n.pins hp) hs
      · exact addPin_sp hP M N _ _ _ _ _ _ hq (maxPin_cellOk M pl n.pins hp)
          (addPin_sp hP M N s _ _ _ _ _ hq (minPin_cellOk M pl n.pins hp) hs)
  | star =>
    simp only [addNetModel, addStar]
    by_cases hl : n.pins.length ≤ 2
    · simp only [hl, if_true]; exact ⟨M, Nat.le_refl _, addBipoint_sp hP M N pl ε s n hp h⟩
    · simp only [hl, if_false, hM]
      refine ⟨M + 1, by omega, loopIdx_sp (M + 1) N (fun q => CellOk (M + 1) q.1) _ ?_
        n.pins _ 0 hp1 (addCell_sp hP M N s _ h)⟩
      intro s i q hq hs
      unfold starBody
      split <;> exact addPin_sp hP (M + 1) N s _ _ _ _ _ hq (cellOk_nat _ _ (by omega)) hs
  | clique =>
    simp only [addNetModel, addClique]
    exact ⟨M, Nat.le_refl _, cliqueGo_sp hP M N pl ε _ n.pins s hp h⟩
  | lightStar =>
    simp only [addNetModel, addLightStar]
    by_cases hl : n.pins.length ≤ 2
    · simp only [hl, if_true]; exact ⟨M, Nat.le_refl _, addBipoint_sp hP M N pl ε s n hp h⟩
    · simp only [hl, if_false, hM]
      refine ⟨M + 1, by omega, loopIdx_sp (M + 1) N (fun q => CellOk (M + 1) q.1) _ ?_
        n.pins _ 0 hp1 (addCell_sp hP M N s _ h)⟩
      intro s i q hq hs
      unfold lightStarBody
      split <;> exact addPin_sp hP (M + 1) N s _ _ _ _ _ hq (cellOk_nat _ _ (by omega)) hs

theorem foldl_model_sp {P : Sys → Prop} (hP : PinClosed P) (m : Mode) (N : Nat) (pl : List Rat) (ε : Rat)
    (nets : List Net) :
    ∀ (M : Nat) (s : Sys), N ≤ M → (∀ n ∈ nets, NetOk N n) → SP P M N s →
      ∃ M', N ≤ M' ∧ SP P M' N (nets.foldl (addNetModel m pl ε) s) := by
  induction nets with
  | nil => intro M s hle _ h; exact ⟨M, hle, h⟩
  | cons n ns ih =>
    intro M s hle hn h
    obtain ⟨M1, hle1, h1⟩ := addNetModel_sp hP m M N pl ε s n
      (netOk_cellOk hle (hn n (List.mem_cons_self ..))) h
    simp only [List.foldl_cons]
    exact ih M1 _ (by omega) (fun k hk => hn k (List.mem_cons_of_mem _ hk)) h1

theorem penaltyBody_eq_addPin (pl : List Rat) (pen : Penalty) (s : Sys) (i : Nat) :
    penaltyBody pl pen s i = addPin s (i : Int) (-1) 0 (pen.target.getD i 0)
      (pen.strength.getD i 0 / rmax (rabs (pl.getD i 0 - pen.target.getD i 0)) pen.cutoff) := by
  have h1 : ¬ ((i : Int) = -1) := by omega
  unfold penaltyBody addPin
  simp [h1]

theorem foldl_penalty_sp {P : Sys → Prop} (hP : PinClosed P) (M N : Nat) (pl : List Rat) (pen : Penalty)
    (is : List Nat) : ∀ (s : Sys), (∀ i ∈ is, i < M) → SP P M N s → SP P M N (is.foldl (penaltyBody pl pen) s) := by
  induction is with
  | nil => intro s _ h; exact h
  | cons i is ih =>
    intro s hi h
    simp only [List.foldl_cons]
    apply ih _ (fun j hj => hi j (List.mem_cons_of_mem _ hj))
    rw [penaltyBody_eq_addPin]
    exact addPin_sp hP M N s _ _ _ _ _ (cellOk_nat M i (hi i (List.mem_cons_self ..))) (Or.inl rfl) h

/-- Anything that holds of the empty system and is preserved by `addPin` (valid cells) and
`addCell` holds of the assembled system, for every variant, with or without penalty. -/
theorem assembleNets_closed {P : Sys → Prop} (hP : PinClosed P) (m : Mode) (nb : Nat) (nets : List Net)
    (pl : List Rat) (ε : Rat) (pen : Option Penalty) (h0 : P (Sys.init nb)) (hn : ∀ n ∈ nets, NetOk nb n) :
    P (assembleNets m nb nets pl ε pen) := by
  have s0 : SP P nb nb (Sys.init nb) := ⟨h0, by simp [Sys.init, Sys.matSize], rfl⟩
  obtain ⟨M', hle, h⟩ := foldl_model_sp hP m nb pl ε nets nb (Sys.init nb) (Nat.le_refl _) hn s0
  unfold assembleNets
  cases pen with
  | none => exact h.1
  | some p =>
    have hN : (create m nb nets pl ε).nbCells = nb := h.2.2
    simp only [addPenaltyOpt, addPenalty, hN]
    exact (foldl_penalty_sp hP M' nb pl p (List.range nb) _
      (fun i hi => by have := List.mem_range.1 hi; omega) h).1

theorem assembleNets_fin (m : Mode) (nb : Nat) (nets : List Net) (pl : List Rat) (ε : Rat)
    (pen : Option Penalty) (hn : ∀ n ∈ nets, NetOk nb n) : FinInv (assembleNets m nb nets pl ε pen) :=
  assembleNets_closed finInv_closed m nb nets pl ε pen (init_fin nb) hn

/-! ### `finalize` -/

theorem finalizeBody_frame (s : Sys) (i : Nat) :
    (finalizeBody s i).rhs = s.rhs ∧ (finalizeBody s i).initial = s.initial
      ∧ (finalizeBody s i).nbCells = s.nbCells ∧ (finalizeBody s i).nbSupps = s.nbSupps :=
  ⟨rfl, rfl, rfl, rfl⟩

theorem foldl_finalize_frame (is : List Nat) : ∀ (s : Sys),
    (is.foldl finalizeBody s).rhs = s.rhs ∧ (is.foldl finalizeBody s).initial = s.initial
      ∧ (is.foldl finalizeBody s).nbCells = s.nbCells ∧ (is.foldl finalizeBody s).nbSupps = s.nbSupps := by
  induction is with
  | nil => intro s; exact ⟨rfl, rfl, rfl, rfl⟩
  | cons i is ih =>
    intro s
    simp only [List.foldl_cons]
    obtain ⟨a, b, c, d⟩ := ih (finalizeBody s i)
    exact ⟨a, b, c, d⟩

theorem finalize_rhs (s : Sys) : (finalize s).rhs = s.rhs := (foldl_finalize_frame _ s).1
theorem finalize_initial (s : Sys) : (finalize s).initial = s.initial := (foldl_finalize_frame _ s).2.1
theorem finalize_nbCells (s : Sys) : (finalize s).nbCells = s.nbCells := (foldl_finalize_frame _ s).2.2.1
theorem finalize_nbSupps (s : Sys) : (finalize s).nbSupps = s.nbSupps := (foldl_finalize_frame _ s).2.2.2
theorem finalize_matSize (s : Sys) : (finalize s).matSize = s.matSize := by
  unfold Sys.matSize
  rw [finalize_nbCells, finalize_nbSupps]

/-- Row `i` of the finalized matrix: the assembled row plus `1e-8 · x_i` if the flag was false. -/
theorem rowDot_foldl_finalize (is : List Nat) (x : Nat → Rat) (i : Nat) : ∀ (s : Sys),
    rowDot (is.foldl finalizeBody s).mat x i
      = (if i ∈ is ∧ s.nz.getD i true = false then tiny * x i else 0) + rowDot s.mat x i := by
  induction is with
  | nil => intro s; simp
  | cons j js ih =>
    intro s
    simp only [List.foldl_cons]
    rw [ih (finalizeBody s j)]
    have hnz : (finalizeBody s j).nz.getD i true = if i = j then true else s.nz.getD i true :=
      getD_set_true s.nz j i
    rw [hnz]
    by_cases hij : i = j
    · subst hij
      by_cases hc : s.nz.getD i true = false
      · simp [-List.getD_eq_getElem?_getD, finalizeBody, hc, rowDot]
      · simp [-List.getD_eq_getElem?_getD, finalizeBody, hc]
    · have hji : ¬ j = i := fun e => hij e.symm
      by_cases hc : s.nz.getD j true = false
      · simp [-List.getD_eq_getElem?_getD, finalizeBody, hc, rowDot, hij, hji]
      · simp [-List.getD_eq_getElem?_getD, finalizeBody, hc, hij]

theorem rowDot_finalize (s : Sys) (x : Nat → Rat) (i : Nat) :
    rowDot (finalize s).mat x i
      = (if i < s.matSize ∧ s.nz.getD i true = false then tiny * x i else 0) + rowDot s.mat x i := by
  unfold finalize
  rw [rowDot_foldl_finalize]
  simp only [List.mem_range]

/-- The structure of the finalized matrix: the regularisation entries, then the assembled ones. -/
theorem foldl_finalize_mat (is : List Nat) : ∀ (s : Sys), is.Nodup →
    (is.foldl finalizeBody s).mat
      = ((is.filter (fun i => s.nz.getD i true = false)).reverse.map (fun i => (i, i, tiny))) ++ s.mat := by
  induction is with
  | nil => intro s _; simp
  | cons j js ih =>
    intro s hnd
    obtain ⟨hj, hjs⟩ := List.nodup_cons.1 hnd
    simp only [List.foldl_cons]
    rw [ih (finalizeBody s j) hjs]
    have hf : js.filter (fun i => (finalizeBody s j).nz.getD i true = false)
        = js.filter (fun i => s.nz.getD i true = false) := by
      apply List.filter_congr
      intro i hi
      have hij : ¬ i = j := fun e => hj (e ▸ hi)
      have : (finalizeBody s j).nz.getD i true = s.nz.getD i true := by
        show (s.nz.set j true).getD i true = _
        rw [getD_set_true]; simp [hij]
      rw [this]
    rw [hf]
    by_cases hc : s.nz.getD j true = false
    · simp [-List.getD_eq_getElem?_getD, finalizeBody, hc]
    · simp [-List.getD_eq_getElem?_getD, finalizeBody, hc]

theorem finalize_mat (s : Sys) : (finalize s).mat = regEntries s ++ s.mat := by
  unfold finalize regEntries
  exact foldl_finalize_mat _ s List.nodup_range

theorem regEntries_scale (k : Rat) (s : Sys) : regEntries (s.scale k) = regEntries s := rfl

theorem mem_regEntries (s : Sys) (e : Nat × Nat × Rat) (he : e ∈ regEntries s) :
    e = (e.1, e.1, tiny) ∧ e.1 < s.matSize ∧ s.nz.getD e.1 true = false := by
  unfold regEntries at he
  simp only [List.mem_map, List.mem_reverse, List.mem_filter, List.mem_range, decide_eq_true_eq] at he
  obtain ⟨i, ⟨hi, hc⟩, rfl⟩ := he
  exact ⟨rfl, hi, hc⟩

/-! ### the finalized system is the normal-equation system of `Q + regQ` -/

theorem bilin_append (a b : List (Nat × Nat × Rat)) (x t : Nat → Rat) :
    bilin (a ++ b) x t = bilin a x t + bilin b x t := by
  induction a with
  | nil => simp [bilin]
  | cons e es ih => simp only [List.cons_append, bilin, ih]; ring

theorem diagQ_expand (es : List (Nat × Nat × Rat)) (hd : ∀ e ∈ es, e.2.1 = e.1) (x t : Nat → Rat) :
    diagQ es (fun i => x i + t i) = diagQ es x + 2 * bilin es x t + bilin es t t := by
  induction es with
  | nil => simp [diagQ, bilin]
  | cons e es ih =>
    have he := hd e (List.mem_cons_self ..)
    simp only [diagQ, bilin, ih (fun e' h' => hd e' (List.mem_cons_of_mem _ h')), he, sq]
    ring

theorem diag_psd (es : List (Nat × Nat × Rat)) (hd : ∀ e ∈ es, e.2.1 = e.1 ∧ 0 ≤ e.2.2) (t : Nat → Rat) :
    0 ≤ bilin es t t := by
  induction es with
  | nil => simp [bilin]
  | cons e es ih =>
    obtain ⟨he, hv⟩ := hd e (List.mem_cons_self ..)
    have := ih (fun e' h' => hd e' (List.mem_cons_of_mem _ h'))
    simp only [bilin, he]
    have h2 : 0 ≤ e.2.2 * (t e.1 * t e.1) := mul_nonneg hv (mul_self_nonneg _)
    nlinarith [h2]

theorem tiny_nonneg : (0 : Rat) ≤ tiny := by decide +kernel

theorem regEntries_diag (s : Sys) : ∀ e ∈ regEntries s, e.2.1 = e.1 ∧ 0 ≤ e.2.2 := by
  intro e he
  obtain ⟨a, _, _⟩ := mem_regEntries s e he
  rw [a]
  exact ⟨rfl, tiny_nonneg⟩

/-- `finalize` turns the normal-equation system of `Q` into that of `Q + regQ`. -/
theorem finalize_inv (s : Sys) (Q : (Nat → Rat) → Rat) (h : Inv s Q) :
    Inv (finalize s) (fun x => Q x + regQ s x) := by
  refine ⟨?_, ?_, ?_, ?_⟩
  · intro x t
    have g := h.grad x t
    have d := diagQ_expand (regEntries s) (fun e he => (regEntries_diag s e he).1) x t
    rw [finalize_mat, finalize_rhs, bilin_append, bilin_append]
    simp only [regQ, g, d]
    ring
  · rw [finalize_rhs, finalize_matSize]; exact h.len
  · intro t
    rw [finalize_mat, bilin_append]
    have := diag_psd (regEntries s) (regEntries_diag s) t
    have := h.psd t
    linarith
  · intro e he
    rw [finalize_mat, List.mem_append] at he
    rw [finalize_matSize]
    rcases he with he | he
    · exact (mem_regEntries s e he).2.1
    · exact h.rows e he

/-! ### the finalized systems for `W` and `k·W` have the same solutions -/

theorem rowDot_empty (mat : List (Nat × Nat × Rat)) (x : Nat → Rat) (i : Nat) (h : ∀ e ∈ mat, e.1 ≠ i) :
    rowDot mat x i = 0 := by
  induction mat with
  | nil => rfl
  | cons e es ih =>
    simp only [rowDot]
    rw [ih (fun e' he' => h e' (List.mem_cons_of_mem _ he'))]
    simp [h e (List.mem_cons_self ..)]

theorem finInv_row_empty (s : Sys) (h : FinInv s) (x : Nat → Rat) (i : Nat) (hi : s.nz.getD i true = false) :
    rowDot s.mat x i = 0 := by
  apply rowDot_empty
  intro e he heq
  have := (h.rows e he).2
  rw [heq, hi] at this
  exact Bool.noConfusion this

theorem solves_finalize_scale (k : Rat) (hk : k ≠ 0) (s : Sys) (h : FinInv s) (x : Nat → Rat) :
    Solves (finalize (s.scale k)) x ↔ Solves (finalize s) x := by
  unfold Solves
  have key : ∀ i, (rowDot (finalize (s.scale k)).mat x i = (finalize (s.scale k)).rhs.getD i 0)
      ↔ (rowDot (finalize s).mat x i = (finalize s).rhs.getD i 0) := by
    intro i
    rw [rowDot_finalize, rowDot_finalize, finalize_rhs, finalize_rhs]
    simp only [scale_matSize, scale_nz, scale_mat, scale_rhs, rowDot_scale, getD_scale]
    by_cases hc : i < s.matSize ∧ s.nz.getD i true = false
    · rw [finInv_row_empty s h x i hc.2, h.zero i hc.2]
      simp
    · simp only [hc, if_false, zero_add]
      constructor
      · intro e; exact mul_left_cancel₀ hk e
      · intro e; rw [e]
  constructor
  · intro hx i; exact (key i).1 (hx i)
  · intro hx i; exact (key i).2 (hx i)

end ColoVerif.NetAsm
