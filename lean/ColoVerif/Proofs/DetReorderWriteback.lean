import ColoVerif.Proofs.DetReorderReg
import ColoVerif.Proofs.DetReorderLeaf
import ColoVerif.Proofs.DetPlaceCan
/-
`RowReordering::addCells` and the write-back of a well-formed leaf never fail on an `Inv` placement
(helper lemmas for Properties/C05).

(A) `addCells_ok`: neither `runEnd` nor `cellsUntil` runs out of fuel, `cellsBetween` does not throw;
    `addCells_registered_ok`: what was registered (`Registered s w rr segs`).
(B) `writeback_succeeds`: `reorderWriteback cs (leafRegions regions O P)` succeeds for a `LeafWF` leaf.
-/
namespace ColoVerif.DetPlace
open State

/-! ### (A) `addCells` does not fail -/

/-- enough fuel to walk from `c` to the end of its row -/
def wbFuel (s : State) (c : Int) : Nat := if c = -1 then 1 else s.nCells - rank s (s.row c) (s.x c) + 1

theorem wb_next_cases {s : State} (h : Inv s) {c : Int} (vc : s.validCell c) (pc : s.row c ≠ -1) :
    s.next c = -1 ∨ (s.validCell (s.next c) ∧ s.row (s.next c) = s.row c ∧ s.x c < s.x (s.next c)) := by
  by_cases hn : s.next c = -1
  · exact Or.inl hn
  · have L := h.link vc
    unfold LinkOk at L
    obtain ⟨vn, rn, xn, _⟩ := (L.2.2 pc).2.2.1 hn
    have := h.placed_width vc pc
    exact Or.inr ⟨vn, rn, by omega⟩

theorem wb_fuel_next {s : State} (h : Inv s) {c : Int} (vc : s.validCell c) (pc : s.row c ≠ -1) :
    wbFuel s (s.next c) < wbFuel s c ∧ wbFuel s c ≤ s.nCells + 1 := by
  have hc : c ≠ -1 := by unfold validCell at vc; omega
  have r1 := rank_lt_nCells (s := s) vc
  unfold wbFuel
  rw [if_neg hc]
  rcases wb_next_cases h vc pc with hn | ⟨vn, rn, xn⟩
  · rw [if_pos hn]; omega
  · have hn : s.next c ≠ -1 := by unfold validCell at vn; omega
    rw [if_neg hn]
    have r2 := rank_lt_nCells (s := s) vn
    have r3 := rank_lt (s := s) vc rn.symm xn
    omega

theorem wb_fuel_pos (s : State) (c : Int) : 1 ≤ wbFuel s c := by
  unfold wbFuel; split <;> omega

theorem wb_runEnd_ok {s : State} (h : Inv s) {w : List Int} (hw : ∀ c ∈ w, s.validCell c ∧ s.row c ≠ -1) :
    ∀ (fuel : Nat) (c : Int), wbFuel s c ≤ fuel → ∃ cn, runEnd s w fuel c = .ok cn
  | 0, c, hf => by have := wb_fuel_pos s c; omega
  | fuel + 1, c, hf => by
    unfold runEnd
    by_cases hc : w.contains c = true
    · rw [if_pos hc]
      obtain ⟨vc, pc⟩ := hw c (by simpa using hc)
      have := wb_fuel_next h vc pc
      exact wb_runEnd_ok h hw fuel (s.next c) (by omega)
    · rw [if_neg hc]
      exact ⟨c, rfl⟩

theorem wb_cellsUntil_ok {s : State} (h : Inv s) {w : List Int} (hw : ∀ c ∈ w, s.validCell c ∧ s.row c ≠ -1)
    {c cn : Int} (r : RegRun s w c cn) : ∀ fuel, wbFuel s c ≤ fuel → ∃ l, s.cellsUntil cn fuel c = .ok l := by
  induction r with
  | stop hc =>
    intro fuel hf
    have := wb_fuel_pos s ‹Int›
    cases fuel with
    | zero => omega
    | succ f => exact ⟨[], by simp [State.cellsUntil]⟩
  | step hc r ih =>
    rename_i c cn
    intro fuel hf
    obtain ⟨vc, pc⟩ := hw c hc
    have hfn := wb_fuel_next h vc pc
    have h1 : c ≠ cn := fun e => r.end_not_mem (e ▸ hc)
    have h2 : c ≠ -1 := by unfold validCell at vc; omega
    cases fuel with
    | zero => have := wb_fuel_pos s c; omega
    | succ f =>
      obtain ⟨l, hl⟩ := ih f (by omega)
      exact ⟨c :: l, by simp [State.cellsUntil, h1, h2, hl]⟩

theorem RegRun.end_row {s : State} (h : Inv s) {w : List Int} (hw : ∀ c ∈ w, s.validCell c ∧ s.row c ≠ -1)
    {c cn : Int} (r : RegRun s w c cn) (q : Int) :
    (c = -1 ∨ (s.validCell c ∧ s.row c = q)) → (cn = -1 ∨ (s.validCell cn ∧ s.row cn = q)) := by
  induction r with
  | stop _ => exact id
  | step hc r ih =>
    rename_i c cn
    intro hq
    obtain ⟨vc, pc⟩ := hw c hc
    have hrq : s.row c = q := by
      rcases hq with e | e
      · unfold validCell at vc; omega
      · exact e.2
    apply ih
    rcases wb_next_cases h vc pc with hn | ⟨vn, rn, _⟩
    · exact Or.inl hn
    · exact Or.inr ⟨vn, rn.trans hrq⟩

theorem RegSeg.row {s : State} (h : Inv s) {w : List Int} (hw : ∀ c ∈ w, s.validCell c ∧ s.row c ≠ -1)
    {c d : Int} (r : RegSeg s w c d) : s.row d = s.row c := by
  induction r with
  | refl _ => rfl
  | tail r hn ih =>
    rename_i d
    obtain ⟨vd, pd⟩ := hw d r.mem
    obtain ⟨vn, _⟩ := hw _ hn
    rcases wb_next_cases h vd pd with e | ⟨_, rn, _⟩
    · unfold validCell at vn; omega
    · exact rn.trans ih

/-- what `addRow` registers for one region: the region record and its segment -/
structure RegionOk (s : State) (w : List Int) (g : RRegion) (seg : List Int) : Prop where
  hrow : s.validRow g.row
  hpred : g.cellPred = -1 ∨ (s.validCell g.cellPred ∧ g.cellPred ∉ w ∧ s.row g.cellPred = g.row)
  hnext : g.cellNext = -1 ∨ (s.validCell g.cellNext ∧ g.cellNext ∉ w ∧ s.row g.cellNext = g.row)
  hmin : g.minPos = s.boundaryAfterIn g.row g.cellPred
  hmax : g.maxPos = s.boundaryBeforeIn g.row g.cellNext
  /-- the segment is the `next`-path from the cell after `cellPred` up to (excluding) `cellNext` -/
  path : RegPath s g.cellNext (s.siteNext g.row g.cellPred) seg
  mem : ∀ c ∈ seg, c ∈ w ∧ s.row c = g.row
  head : s.siteNext g.row g.cellPred ∈ seg
  nodup : seg.Nodup

/-- what `addCells` has registered: one segment per region, `cells_` is their concatenation, distinct
regions start at distinct cells -/
structure Registered {σ : Type} (s : State) (w : List Int) (rr : RowReord σ) (segs : List (List Int)) : Prop where
  len : rr.regions.length = segs.length
  cells : rr.cells = segs.flatten
  ok : ∀ gs ∈ rr.regions.zip segs, RegionOk s w gs.1 gs.2
  sites : rr.regions.Pairwise (fun g g' => s.siteNext g.row g.cellPred ≠ s.siteNext g'.row g'.cellPred)
  siteMem : ∀ g ∈ rr.regions, s.siteNext g.row g.cellPred ∈ rr.cells

theorem wb_addRow {σ : Type} {s : State} {rr : RowReord σ} {r cp cn : Int} {cs : List Int}
    (e : s.cellsBetween r cp cn = .ok cs) :
    ∃ rr', addRow s rr r cp cn = .ok rr' ∧ rr'.cells = rr.cells ++ cs ∧
      rr'.regions = rr.regions ++ [⟨r, s.boundaryAfterIn r cp, s.boundaryBeforeIn r cn, cp, cn⟩] := by
  unfold addRow
  rw [e]
  exact ⟨_, rfl, rfl, rfl⟩

/-- one iteration of the loop of `addCells` at a run start -/
theorem wb_segment {s : State} (h : Inv s) {w : List Int} (hw : ∀ c ∈ w, s.validCell c ∧ s.row c ≠ -1)
    {c : Int} (hc : c ∈ w) (hp : s.pred c ∉ w) :
    ∃ cn cs, runEnd s w (s.nCells + 1) c = .ok cn ∧ s.cellsBetween (s.row c) (s.pred c) cn = .ok cs ∧
      RegionOk s w ⟨s.row c, s.boundaryAfterIn (s.row c) (s.pred c), s.boundaryBeforeIn (s.row c) cn, s.pred c, cn⟩ cs ∧
      s.siteNext (s.row c) (s.pred c) = c := by
  have W := regWin_of_inv h hw
  obtain ⟨vc, pc⟩ := hw c hc
  have hfc := wb_fuel_next h vc pc
  obtain ⟨cn, e1⟩ := wb_runEnd_ok h hw (s.nCells + 1) c hfc.2
  have r := reg_runEnd_run s w _ _ _ e1
  obtain ⟨l, e2⟩ := wb_cellsUntil_ok h hw r (s.nCells + 1) hfc.2
  have L := h.link vc
  unfold LinkOk at L
  have hpr : s.pred c = -1 ∨ (s.validCell (s.pred c) ∧ s.pred c ∉ w ∧ s.row (s.pred c) = s.row c) := by
    by_cases hpc : s.pred c = -1
    · exact Or.inl hpc
    · obtain ⟨vp, rp, _, _⟩ := (L.2.2 pc).1 hpc
      exact Or.inr ⟨vp, hp, rp⟩
  have hnx := r.end_row h hw (s.row c) (Or.inr ⟨vc, rfl⟩)
  have e3 : s.cellsBetween (s.row c) (s.pred c) cn = .ok l := by
    unfold State.cellsBetween
    rw [if_neg (by rcases hpr with e | e; · exact fun x => x.1 e
                   · exact fun x => x.2 e.2.2),
        if_neg (by rcases hnx with e | e; · exact fun x => x.1 e
                   · exact fun x => x.2 e.2), W.site c hc]
    exact e2
  have p := reg_cellsUntil_path s cn _ _ _ e2
  have hm := r.path_mem l p
  have sg := (reg_path_seg W cn l c p hm).1
  refine ⟨cn, l, e1, e3, ⟨h.placed_row vc pc, hpr, ?_, rfl, rfl, ?_, ?_, ?_, (reg_segment W hc e1 e3).2⟩, W.site c hc⟩
  · rcases hnx with e | e
    · exact Or.inl e
    · exact Or.inr ⟨e.1, r.end_not_mem, e.2⟩
  · show RegPath s cn (s.siteNext (s.row c) (s.pred c)) l
    rw [W.site c hc]; exact p
  · intro d hd
    exact ⟨hm d hd, (sg d hd).1.row h hw⟩
  · show s.siteNext (s.row c) (s.pred c) ∈ l
    rw [W.site c hc]
    cases l with
    | nil => exact absurd (p ▸ hc : cn ∈ w) r.end_not_mem
    | cons a l => rw [p.1]; exact List.mem_cons_self

theorem wb_addCellsLoop {σ : Type} {s : State} (h : Inv s) {w : List Int}
    (hw : ∀ c ∈ w, s.validCell c ∧ s.row c ≠ -1) :
    ∀ (todo : List Int) (rr : RowReord σ) (segs : List (List Int)), todo.Nodup → (∀ c ∈ todo, c ∈ w) →
    RegInv s w todo rr.cells → Registered s w rr segs →
    ∃ rr' segs', addCellsLoop s w todo rr = .ok rr' ∧ Registered s w rr' segs'
  | [], rr, segs, _, _, _, R => ⟨rr, segs, rfl, R⟩
  | c :: rest, rr, segs, hn, hm, I, R => by
    have W := regWin_of_inv h hw
    obtain ⟨hcr, hnr⟩ := List.nodup_cons.mp hn
    have hc : c ∈ w := hm c List.mem_cons_self
    have hmr : ∀ d ∈ rest, d ∈ w := fun d hd => hm d (List.mem_cons_of_mem _ hd)
    have Iweak : RegInv s w rest rr.cells := by
      refine ⟨I.1, fun d hd => ?_⟩
      obtain ⟨c0, h1, h2, h3, h4⟩ := I.2 d hd
      exact ⟨c0, h1, fun h => h2 (List.mem_cons_of_mem _ h), h3, h4⟩
    unfold addCellsLoop
    by_cases hp : w.contains (s.pred c) = true
    · rw [if_pos hp]
      exact wb_addCellsLoop h hw rest rr segs hnr hmr Iweak R
    · rw [if_neg hp]
      have hp' : s.pred c ∉ w := by simpa using hp
      obtain ⟨cn, cs, e1, e3, RO, hsite⟩ := wb_segment h hw hc hp'
      obtain ⟨rr1, e2, ecells, eregs⟩ := wb_addRow (rr := rr) e3
      obtain ⟨sg, nd⟩ := reg_segment W hc e1 e3
      simp only [e1, e2]
      -- the run start has not been registered yet
      have hfresh : c ∉ rr.cells := by
        intro hin
        obtain ⟨c0, _, h2, h3, h4⟩ := I.2 c hin
        have := RegSeg.start_unique W h3 hp' h4 (RegSeg.refl hc)
        exact h2 (by rw [this]; exact List.mem_cons_self)
      refine wb_addCellsLoop h hw rest rr1 (segs ++ [cs]) hnr hmr ?_ ?_
      · rw [ecells]
        refine ⟨List.nodup_append.mpr ⟨I.1, nd, ?_⟩, ?_⟩
        · intro a ha b hb eab
          subst eab
          obtain ⟨c0, _, h2, h3, h4⟩ := I.2 a ha
          have := RegSeg.start_unique W h3 hp' h4 (sg a hb)
          exact h2 (by rw [this]; exact List.mem_cons_self)
        · intro d hd
          rcases List.mem_append.mp hd with h' | h'
          · exact Iweak.2 d h'
          · exact ⟨c, hc, hcr, hp', sg d h'⟩
      · refine ⟨?_, ?_, ?_, ?_, ?_⟩
        · rw [eregs, List.length_append, List.length_append, R.len]; rfl
        · rw [ecells, R.cells, List.flatten_append]; simp
        · intro gs hgs
          rw [eregs, List.zip_append R.len] at hgs
          rcases List.mem_append.mp hgs with h' | h'
          · exact R.ok gs h'
          · simp only [List.zip_cons_cons, List.zip_nil_right, List.mem_singleton] at h'
            rw [h']; exact RO
        · rw [eregs]
          refine List.pairwise_append.mpr ⟨R.sites, List.pairwise_singleton _ _, ?_⟩
          intro g hg g' hg'
          rw [List.mem_singleton] at hg'
          rw [hg']
          show _ ≠ s.siteNext (s.row c) (s.pred c)
          rw [hsite]
          intro e
          exact hfresh (e ▸ R.siteMem g hg)
        · intro g hg
          rw [eregs] at hg
          rw [ecells]
          rcases List.mem_append.mp hg with h' | h'
          · exact List.mem_append_left _ (R.siteMem g h')
          · rw [List.mem_singleton] at h'
            rw [h']
            exact List.mem_append_right _ RO.head

/-- **`addCells` never fails** on a window of valid placed cells of an `Inv` placement, and what it
registers is described by `Registered` -/
theorem addCells_registered_ok {σ : Type} (s : State) (h : Inv s) (w : List Int) (st : σ) (hn : w.Nodup)
    (hw : ∀ c ∈ w, s.validCell c ∧ s.row c ≠ -1) :
    ∃ rr segs, addCells s (RowReord.new st) w = .ok rr ∧ Registered s w rr segs := by
  unfold addCells
  exact wb_addCellsLoop h hw w (RowReord.new st) [] hn (fun _ hc => hc)
    ⟨List.nodup_nil, fun d hd => (by cases hd)⟩
    ⟨rfl, rfl, fun gs hgs => (by cases hgs), List.Pairwise.nil, fun g hg => (by cases hg)⟩

theorem addCells_ok {σ : Type} (s : State) (h : Inv s) (w : List Int) (st : σ) (hn : w.Nodup)
    (hw : ∀ c ∈ w, s.validCell c ∧ s.row c ≠ -1) : ∃ rr, addCells s (RowReord.new st) w = .ok rr := by
  obtain ⟨rr, _, e, _⟩ := addCells_registered_ok s h w st hn hw
  exact ⟨rr, e⟩

/-! ### (B) the write-back of a well-formed leaf does not fail -/

/-- the fields no primitive writes -/
structure WbStatic (t u : State) : Prop where
  rows : u.rows = t.rows
  nCells : u.nCells = t.nCells
  width : u.width = t.width
  pol : u.pol = t.pol

theorem WbStatic.refl (t : State) : WbStatic t t := ⟨rfl, rfl, rfl, rfl⟩
theorem WbStatic.trans {a b c : State} (h1 : WbStatic a b) (h2 : WbStatic b c) : WbStatic a c :=
  ⟨h2.rows.trans h1.rows, h2.nCells.trans h1.nCells, h2.width.trans h1.width, h2.pol.trans h1.pol⟩
theorem WbStatic.validCell {t u : State} (h : WbStatic t u) (c : Int) : u.validCell c ↔ t.validCell c := by
  unfold State.validCell; rw [h.nCells]
theorem WbStatic.validRow {t u : State} (h : WbStatic t u) (r : Int) : u.validRow r ↔ t.validRow r := by
  unfold State.validRow State.nRows; rw [h.rows]
theorem WbStatic.rowMinX {t u : State} (h : WbStatic t u) (r : Int) : u.rowMinX r = t.rowMinX r := by
  unfold State.rowMinX State.rowAt; rw [h.rows]
theorem WbStatic.rowMaxX {t u : State} (h : WbStatic t u) (r : Int) : u.rowMaxX r = t.rowMaxX r := by
  unfold State.rowMaxX State.rowAt; rw [h.rows]
theorem WbStatic.isRowAllowed {t u : State} (h : WbStatic t u) (c r : Int) : u.isRowAllowed c r = t.isRowAllowed c r := by
  unfold State.isRowAllowed State.rowOrient State.rowAt; rw [h.rows, h.pol]

/-- the cells of `l` hang after the site `(r, p)` one after the other, followed by `n` -/
def SiteChain (t : State) (r : Int) : Int → List Int → Int → Prop
  | p, [], n => t.siteNext r p = n
  | p, a :: l, n => t.siteNext r p = a ∧ SiteChain t r a l n

theorem wb_path_chain (s : State) (r n : Int) : ∀ (l : List Int) (p : Int),
    RegPath s n (s.siteNext r p) l → SiteChain s r p l n
  | [], _, h => h
  | a :: l, p, h => by
    obtain ⟨ea, _, hne, hp⟩ := h
    refine ⟨ea.symm, wb_path_chain s r n l a ?_⟩
    have : s.siteNext r a = s.next a := by
      unfold State.siteNext; rw [if_neg (by rw [ea]; exact hne)]
    rw [this, ea]; exact hp

/-- `unplace c` seen from a site other than `c`: the site skips `c` -/
theorem wb_unplace_siteNext {t : State} (h : Inv t) {c : Int} (vc : t.validCell c) (pc : t.row c ≠ -1)
    {r p : Int} (hr : t.validRow r) (hp : p = -1 ∨ (t.validCell p ∧ t.row p = r)) (hpc : p ≠ c) :
    (t.unplace c).siteNext r p = if t.siteNext r p = c then t.next c else t.siteNext r p := by
  have Lc := h.link vc
  have Rr := h.rowok hr
  have Lp : p ≠ -1 → LinkOk t p := fun hh => h.link (by
    rcases hp with e | e
    · exact absurd e hh
    · exact e.1)
  clear h
  unfold LinkOk at Lc Lp
  unfold RowOk at Rr
  unfold State.validCell State.validRow at *
  unfold State.siteNext
  simp only [State.unplace, upd, updIf]
  grind

theorem wb_chain_unplace_other {t : State} (h : Inv t) {c : Int} (vc : t.validCell c) (pc : t.row c ≠ -1)
    {r n : Int} (hr : t.validRow r) (hcn : c ≠ n) : ∀ (l : List Int) (p : Int),
    (p = -1 ∨ (t.validCell p ∧ t.row p = r)) → (∀ a ∈ l, t.validCell a ∧ t.row a = r) → p ≠ c → c ∉ l →
    SiteChain t r p l n → SiteChain (t.unplace c) r p l n
  | [], p, hp, _, hpc, _, hch => by
    show (t.unplace c).siteNext r p = n
    rw [wb_unplace_siteNext h vc pc hr hp hpc, if_neg (by rw [hch]; exact fun e => hcn e.symm)]
    exact hch
  | a :: l, p, hp, hl, hpc, hcl, hch => by
    obtain ⟨e1, e2⟩ := hch
    have hac : a ≠ c := fun e => hcl (e ▸ List.mem_cons_self)
    refine ⟨?_, wb_chain_unplace_other h vc pc hr hcn l a (Or.inr (hl a List.mem_cons_self))
      (fun b hb => hl b (List.mem_cons_of_mem _ hb)) hac (fun e => hcl (List.mem_cons_of_mem _ e)) e2⟩
    rw [wb_unplace_siteNext h vc pc hr hp hpc, if_neg (by rw [e1]; exact hac)]
    exact e1

theorem wb_chain_unplace {t : State} (h : Inv t) {c : Int} (vc : t.validCell c) (pc : t.row c ≠ -1)
    {r n : Int} (hr : t.validRow r) (hcn : c ≠ n) : ∀ (l : List Int) (p : Int),
    (p = -1 ∨ (t.validCell p ∧ t.row p = r)) → (∀ a ∈ l, t.validCell a ∧ t.row a = r) → p ≠ c → l.Nodup →
    SiteChain t r p l n → SiteChain (t.unplace c) r p (l.filter (fun a => a != c)) n
  | [], p, hp, hl, hpc, _, hch => wb_chain_unplace_other h vc pc hr hcn [] p hp hl hpc (by simp) hch
  | a :: l, p, hp, hl, hpc, hnd, hch => by
    obtain ⟨e1, e2⟩ := hch
    obtain ⟨hal, hndl⟩ := List.nodup_cons.mp hnd
    have hc1 : c ≠ -1 := by unfold State.validCell at vc; omega
    have hlt : ∀ b ∈ l, t.validCell b ∧ t.row b = r := fun b hb => hl b (List.mem_cons_of_mem _ hb)
    by_cases hac : a = c
    · subst hac
      have hf : (a :: l).filter (fun b => b != a) = l := by
        rw [List.filter_cons]
        simp only [bne_self_eq_false, Bool.false_eq_true, if_false]
        rw [List.filter_eq_self]
        intro b hb
        simp only [bne_iff_ne, ne_eq]
        exact fun e => hal (e ▸ hb)
      rw [hf]
      have hs : (t.unplace a).siteNext r p = t.siteNext r a := by
        rw [wb_unplace_siteNext h vc pc hr hp hpc, if_pos e1]
        unfold State.siteNext; rw [if_neg hc1]
      cases l with
      | nil =>
        show (t.unplace a).siteNext r p = n
        rw [hs]; exact e2
      | cons b l' =>
        obtain ⟨e3, e4⟩ := e2
        have hba : b ≠ a := fun e => hal (e ▸ List.mem_cons_self)
        refine ⟨by rw [hs]; exact e3, ?_⟩
        exact wb_chain_unplace_other h vc pc hr hcn l' b (Or.inr (hlt b List.mem_cons_self))
          (fun d hd => hlt d (List.mem_cons_of_mem _ hd)) hba (fun e => hal (List.mem_cons_of_mem _ e)) e4
    · have hf : (a :: l).filter (fun b => b != c) = a :: l.filter (fun b => b != c) := by
        rw [List.filter_cons]
        simp only [bne_iff_ne, ne_eq, hac, not_false_eq_true, if_true]
      rw [hf]
      refine ⟨?_, wb_chain_unplace h vc pc hr hcn l a (Or.inr (hl a List.mem_cons_self)) hlt hac hndl e2⟩
      rw [wb_unplace_siteNext h vc pc hr hp hpc, if_neg (by rw [e1]; exact hac)]
      exact e1

theorem wb_filter_filter (c : Int) (rest l : List Int) :
    (l.filter (fun a => a != c)).filter (fun a => decide (a ∉ rest)) = l.filter (fun a => decide (a ∉ c :: rest)) := by
  rw [List.filter_filter]
  apply List.filter_congr
  intro a _
  by_cases h1 : a = c <;> by_cases h2 : a ∈ rest <;> simp [h1, h2]

/-- the first loop of `writeback` succeeds on distinct placed cells; afterwards exactly those cells are
unplaced and every site skips them -/
theorem wb_unplaceAll : ∀ (cs : List Int) (t : State), Inv t → cs.Nodup → (∀ c ∈ cs, t.validCell c ∧ t.row c ≠ -1) →
    ∃ u, t.unplaceAll cs = .ok u ∧ Inv u ∧ WbStatic t u ∧ u.x = t.x ∧
      (∀ d, u.row d = if d ∈ cs then -1 else t.row d) ∧
      ∀ (r p n : Int) (l : List Int), t.validRow r → (p = -1 ∨ (t.validCell p ∧ t.row p = r)) →
        (∀ a ∈ l, t.validCell a ∧ t.row a = r) → l.Nodup → p ∉ cs → n ∉ cs →
        SiteChain t r p l n → SiteChain u r p (l.filter (fun a => decide (a ∉ cs))) n
  | [], t, h, _, _ => by
    refine ⟨t, rfl, h, WbStatic.refl t, rfl, fun d => by simp, ?_⟩
    intro r p n l _ _ _ _ _ _ hch
    have : l.filter (fun a => decide (a ∉ ([] : List Int))) = l := by
      rw [List.filter_eq_self]; intro a _; simp
    rw [this]; exact hch
  | c :: rest, t, h, hn, hv => by
    obtain ⟨hcr, hnr⟩ := List.nodup_cons.mp hn
    obtain ⟨vc, pc⟩ := hv c List.mem_cons_self
    have hlive : t.liveCell c = true := by
      rw [liveCell_iff]
      have := h.cell vc; unfold CellOk at this
      exact ⟨vc, (this.2 pc).1⟩
    have hpl : t.isPlaced c = true := (isPlaced_iff t c).2 pc
    have h' := unplace_inv h vc pc
    have hv' : ∀ d ∈ rest, (t.unplace c).validCell d ∧ (t.unplace c).row d ≠ -1 := by
      intro d hd
      have hdc : d ≠ c := fun e => hcr (e ▸ hd)
      obtain ⟨vd, pd⟩ := hv d (List.mem_cons_of_mem _ hd)
      refine ⟨vd, ?_⟩
      rw [unplace_row, if_neg hdc]; exact pd
    obtain ⟨u, e, hu, st, hx, hrow, hch⟩ := wb_unplaceAll rest (t.unplace c) h' hnr hv'
    refine ⟨u, ?_, hu, ⟨st.rows, st.nCells, st.width, st.pol⟩, hx, ?_, ?_⟩
    · unfold State.unplaceAll
      simp only [hlive, hpl, Bool.and_self, if_true]
      exact e
    · intro d
      rw [hrow d, unplace_row]
      by_cases hdc : d = c
      · subst hdc; simp
      · simp only [List.mem_cons, hdc, false_or, if_false]
    · intro r p n l hr hp hl hnd hpc hnc hchain
      have hp1 : p ≠ c := fun e => hpc (e ▸ List.mem_cons_self)
      have hn1 : c ≠ n := fun e => hnc (e ▸ List.mem_cons_self)
      have c1 := wb_chain_unplace h vc pc hr hn1 l p hp hl hp1 hnd hchain
      have c2 := hch r p n (l.filter (fun a => a != c)) hr
        (by
          rcases hp with e | e
          · exact Or.inl e
          · refine Or.inr ⟨e.1, ?_⟩
            rw [unplace_row, if_neg hp1]; exact e.2)
        (by
          intro a ha
          obtain ⟨hal, hac⟩ := List.mem_filter.mp ha
          have hac' : a ≠ c := by simpa using hac
          refine ⟨(hl a hal).1, ?_⟩
          rw [unplace_row, if_neg hac']; exact (hl a hal).2)
        (hnd.sublist List.filter_sublist)
        (fun e => hpc (List.mem_cons_of_mem _ e)) (fun e => hnc (List.mem_cons_of_mem _ e)) c1
      rw [wb_filter_filter] at c2
      exact c2

/-! #### placing one region -/

theorem wb_placeRaw_siteNext_other (t : State) (c r p x r' p' : Int) (h1 : p' ≠ c)
    (h2 : ¬ (p' = p ∧ (p ≠ -1 ∨ r' = r))) : (t.placeRaw c r p x).siteNext r' p' = t.siteNext r' p' := by
  unfold State.siteNext
  simp only [State.placeRaw, upd, updIf]
  grind

theorem wb_placeRaw_siteNext_self (t : State) (c r p x : Int) (hc : c ≠ -1) :
    (t.placeRaw c r p x).siteNext r c = t.siteNext r p := by
  unfold State.siteNext
  simp only [State.placeRaw, upd, updIf, State.siteNext]
  grind

theorem wb_allocatedWidth_nonneg (s : State) : ∀ l : List Int, (∀ c ∈ l, 0 < s.width c) → 0 ≤ allocatedWidth s l
  | [], _ => by simp [allocatedWidth]
  | c :: l, h => by
    rw [allocatedWidth_cons]
    have := h c List.mem_cons_self
    have := wb_allocatedWidth_nonneg s l (fun d hd => h d (List.mem_cons_of_mem _ hd))
    omega

/-- `placeChain` of a packed order into a free site succeeds -/
theorem wb_placeChain (s : State) (r n : Int) : ∀ (l : List Int) (pos : Int) (t : State) (p : Int),
    Inv t → t.width = s.width → t.validRow r → (p = -1 ∨ (t.validCell p ∧ t.row p = r)) →
    t.siteNext r p = n → t.siteBegin r p ≤ pos →
    (l ≠ [] → pos + allocatedWidth s l ≤ (if n = -1 then t.rowMaxX r else t.x n)) →
    (∀ c ∈ l, t.validCell c ∧ t.width c ≠ -1 ∧ t.row c = -1 ∧ t.isRowAllowed c r = true) → l.Nodup → n ∉ l →
    ∃ t', t.placeChain r p (l.zip (packPos s pos l)) = .ok t' ∧ Inv t' ∧ WbStatic t t' ∧
      (∀ d, d ∉ l → t'.row d = t.row d ∧ t'.x d = t.x d) ∧ (∀ d ∈ l, t'.row d = r) ∧
      (∀ r' p', p' ∉ l → ¬ (p' = p ∧ (p ≠ -1 ∨ r' = r)) → t'.siteNext r' p' = t.siteNext r' p')
  | [], pos, t, p, h, _, _, _, _, _, _, _, _, _ =>
    ⟨t, rfl, h, WbStatic.refl t, fun _ _ => ⟨rfl, rfl⟩, fun d hd => (by cases hd), fun _ _ _ _ => rfl⟩
  | c :: rest, pos, t, p, h, hw, hr, hp, hsn, hb, hfit, hcells, hnd, hnl => by
    obtain ⟨hcr, hndr⟩ := List.nodup_cons.mp hnd
    obtain ⟨vc, lc, uc, ac⟩ := hcells c List.mem_cons_self
    have hc1 : c ≠ -1 := by unfold State.validCell at vc; omega
    have hnc : n ≠ c := fun e => hnl (e ▸ List.mem_cons_self)
    have hpos : ∀ d ∈ c :: rest, 0 < s.width d := by
      intro d hd
      obtain ⟨vd, ld, _, _⟩ := hcells d hd
      have := h.cell vd; unfold CellOk at this
      rw [← hw]; exact (this.1 ld).2
    have hrest := wb_allocatedWidth_nonneg s rest (fun d hd => hpos d (List.mem_cons_of_mem _ hd))
    have hfit' := hfit (by simp)
    rw [allocatedWidth_cons] at hfit'
    have hwc : t.width c = s.width c := by rw [hw]
    have hend : pos + t.width c ≤ t.siteEnd r p := by
      unfold State.siteEnd
      rw [hsn, hwc]
      omega
    have hplace := place_succeeds (x := pos) uc ac hb hend
    have hg : (t.liveCell c && !t.isPlaced c && t.siteOk r p) = true := by
      have h1 : t.liveCell c = true := (liveCell_iff t c).2 ⟨vc, lc⟩
      have h2 : t.isPlaced c = false := by simp [State.isPlaced, uc]
      have h3 : t.siteOk r p = true := (siteOk_iff t r p).2 ⟨hr, hp⟩
      simp [h1, h2, h3]
    have h1 : Inv (t.placeRaw c r p pos) := place_inv h ⟨vc, uc, lc, hr, hp⟩ hplace
    have hrow1 : ∀ d, (t.placeRaw c r p pos).row d = if d = c then r else t.row d := placeRaw_row t c r p pos
    have hxy1 := placeRaw_xy t c r p pos
    have st1 : WbStatic t (t.placeRaw c r p pos) := ⟨rfl, rfl, rfl, rfl⟩
    obtain ⟨t', e, ht', st, hframe, hin, hsite⟩ := wb_placeChain s r n rest (pos + s.width c) (t.placeRaw c r p pos) c
      h1 hw hr (Or.inr ⟨vc, by rw [hrow1, if_pos rfl]⟩)
      (by rw [wb_placeRaw_siteNext_self t c r p pos hc1]; exact hsn)
      (by
        unfold State.siteBegin
        rw [if_neg hc1, (hxy1 c).1, if_pos rfl]
        show pos + t.width c ≤ pos + s.width c
        rw [hwc])
      (by
        intro _
        rw [(hxy1 n).1, if_neg hnc]
        show pos + s.width c + allocatedWidth s rest ≤ if n = -1 then t.rowMaxX r else t.x n
        omega)
      (by
        intro d hd
        have hdc : d ≠ c := fun e => hcr (e ▸ hd)
        obtain ⟨vd, ld, ud, ad⟩ := hcells d (List.mem_cons_of_mem _ hd)
        refine ⟨vd, ld, ?_, ad⟩
        rw [hrow1, if_neg hdc]; exact ud)
      hndr (fun e => hnl (List.mem_cons_of_mem _ e))
    refine ⟨t', ?_, ht', st1.trans st, ?_, ?_, ?_⟩
    · simp only [packPos, List.zip_cons_cons, State.placeChain, hg, if_true, hplace]
      exact e
    · intro d hd
      have hdc : d ≠ c := fun e => hd (e ▸ List.mem_cons_self)
      have hdr : d ∉ rest := fun e => hd (List.mem_cons_of_mem _ e)
      obtain ⟨a, b⟩ := hframe d hdr
      rw [a, b, hrow1, if_neg hdc, (hxy1 d).1, if_neg hdc]
      exact ⟨rfl, rfl⟩
    · intro d hd
      rcases List.mem_cons.mp hd with e | e
      · rw [e, (hframe c hcr).1, hrow1, if_pos rfl]
      · exact hin d e
    · intro r' p' hp' hne
      have hpc : p' ≠ c := fun e => hp' (e ▸ List.mem_cons_self)
      rw [hsite r' p' (fun e => hp' (List.mem_cons_of_mem _ e)) (fun e => hpc e.1)]
      exact wb_placeRaw_siteNext_other t c r p pos r' p' hpc hne

/-! #### placing all regions -/

/-- what a region and the order chosen for it must satisfy (in terms of the placement before the write-back) -/
structure JobOk (s : State) (cs : List Int) (g : RRegion) (l : List Int) : Prop where
  hrow : s.validRow g.row
  hpred : g.cellPred = -1 ∨ (s.validCell g.cellPred ∧ g.cellPred ∉ cs ∧ s.row g.cellPred = g.row)
  hnext : g.cellNext = -1 ∨ (s.validCell g.cellNext ∧ g.cellNext ∉ cs ∧ s.row g.cellNext = g.row)
  hbegin : s.siteBegin g.row g.cellPred ≤ g.minPos
  hend : l ≠ [] → g.minPos + allocatedWidth s l ≤ (if g.cellNext = -1 then s.rowMaxX g.row else s.x g.cellNext)
  cells : ∀ c ∈ l, c ∈ cs ∧ s.validCell c ∧ s.width c ≠ -1 ∧ s.isRowAllowed c g.row = true
  nodup : l.Nodup

def jobRegion (s : State) (j : RRegion × List Int) : Region := ⟨j.1.row, j.1.cellPred, j.2.zip (packPos s j.1.minPos j.2)⟩

theorem wb_placeJobs (s : State) (cs : List Int) : ∀ (J : List (RRegion × List Int)) (t : State), Inv t → WbStatic s t →
    (∀ d, d ∉ cs → t.row d = s.row d ∧ t.x d = s.x d) →
    (∀ j ∈ J, JobOk s cs j.1 j.2 ∧ t.siteNext j.1.row j.1.cellPred = j.1.cellNext ∧ ∀ c ∈ j.2, t.row c = -1) →
    J.Pairwise (fun j j' => ¬ (j'.1.cellPred = j.1.cellPred ∧ (j.1.cellPred ≠ -1 ∨ j'.1.row = j.1.row)) ∧
      ∀ c ∈ j.2, c ∉ j'.2) →
    ∃ t', t.placeRegions (J.map (jobRegion s)) = .ok t' ∧ (∀ d, t.row d ≠ -1 → t'.row d ≠ -1) ∧
      ∀ j ∈ J, ∀ c ∈ j.2, t'.row c ≠ -1
  | [], t, _, _, _, _, _ => ⟨t, rfl, fun _ hd => hd, fun j hj => (by cases hj)⟩
  | j :: J, t, h, st, hout, hjobs, hpw => by
    obtain ⟨hpw1, hpw2⟩ := List.pairwise_cons.mp hpw
    obtain ⟨jo, hsn, hun⟩ := hjobs j List.mem_cons_self
    have hr : t.validRow j.1.row := (st.validRow _).2 jo.hrow
    have hr1 : j.1.row ≠ -1 := by have := jo.hrow; unfold State.validRow at this; omega
    have hcv : ∀ c ∈ j.2, s.validCell c := fun c hc => (jo.cells c hc).2.1
    have hpl : j.1.cellPred ∉ j.2 := by
      intro hin
      rcases jo.hpred with e | e
      · have := hcv _ hin; unfold State.validCell at this; omega
      · exact e.2.1 (jo.cells _ hin).1
    have hnl : j.1.cellNext ∉ j.2 := by
      intro hin
      rcases jo.hnext with e | e
      · have := hcv _ hin; unfold State.validCell at this; omega
      · exact e.2.1 (jo.cells _ hin).1
    obtain ⟨t1, e1, h1, st1, hframe, hin, hsite⟩ := wb_placeChain s j.1.row j.1.cellNext j.2 j.1.minPos t j.1.cellPred h
      st.width hr
      (by
        rcases jo.hpred with e | e
        · exact Or.inl e
        · exact Or.inr ⟨(st.validCell _).2 e.1, by rw [(hout _ e.2.1).1]; exact e.2.2⟩)
      hsn
      (by
        have := jo.hbegin
        unfold State.siteBegin at this ⊢
        rcases jo.hpred with e | e
        · rw [if_pos e] at this ⊢; rw [st.rowMinX]; exact this
        · have hp1 : j.1.cellPred ≠ -1 := by have := e.1; unfold State.validCell at this; omega
          rw [if_neg hp1] at this ⊢
          rw [(hout _ e.2.1).2, st.width]; exact this)
      (by
        intro hne
        have := jo.hend hne
        rcases jo.hnext with e | e
        · rw [if_pos e] at this ⊢; rw [st.rowMaxX]; exact this
        · have hn1 : j.1.cellNext ≠ -1 := by have := e.1; unfold State.validCell at this; omega
          rw [if_neg hn1] at this ⊢
          rw [(hout _ e.2.1).2]; exact this)
      (by
        intro c hc
        obtain ⟨_, vc, lc, ac⟩ := jo.cells c hc
        exact ⟨(st.validCell _).2 vc, by rw [st.width]; exact lc, hun c hc, by rw [st.isRowAllowed]; exact ac⟩)
      jo.nodup hnl
    obtain ⟨t', e2, hkeep, hdone⟩ := wb_placeJobs s cs J t1 h1 (st.trans st1)
      (by
        intro d hd
        have hdl : d ∉ j.2 := fun e => hd (jo.cells d e).1
        rw [(hframe d hdl).1, (hframe d hdl).2]
        exact hout d hd)
      (by
        intro j' hj'
        obtain ⟨jo', hsn', hun'⟩ := hjobs j' (List.mem_cons_of_mem _ hj')
        obtain ⟨hs, hd⟩ := hpw1 j' hj'
        refine ⟨jo', ?_, ?_⟩
        · rw [hsite _ _ ?_ hs]
          · exact hsn'
          · intro hin
            rcases jo'.hpred with e | e
            · have := hcv _ hin; unfold State.validCell at this; omega
            · exact e.2.1 (jo.cells _ hin).1
        · intro c hc
          have hcl : c ∉ j.2 := fun e => hd c e hc
          rw [(hframe c hcl).1]; exact hun' c hc)
      hpw2
    refine ⟨t', ?_, ?_, ?_⟩
    · simp only [List.map_cons, State.placeRegions, jobRegion, e1]
      exact e2
    · intro d hd
      apply hkeep
      by_cases hdl : d ∈ j.2
      · rw [hin d hdl]; exact hr1
      · rw [(hframe d hdl).1]; exact hd
    · intro j' hj' c hc
      rcases List.mem_cons.mp hj' with e | e
      · subst e
        apply hkeep
        rw [hin c hc]; exact hr1
      · exact hdone j' e c hc

/-! #### assembling -/

theorem wb_leafRegions_eq (s : State) : ∀ (G : List RRegion) (O P : List (List Int)), O.length = G.length →
    P.length = G.length → (∀ (i : Nat) l g, O[i]? = some l → G[i]? = some g → P[i]? = some (packPos s g.minPos l)) →
    leafRegions G O P = (G.zip O).map (jobRegion s)
  | [], _, _, _, _, _ => by simp [leafRegions]
  | g :: G, [], _, h, _, _ => by simp at h
  | g :: G, o :: O, [], _, h, _ => by simp at h
  | g :: G, o :: O, p :: P, h1, h2, h3 => by
    have e0 := h3 0 o g rfl rfl
    simp only [List.getElem?_cons_zero, Option.some.injEq] at e0
    simp only [leafRegions, List.zip_cons_cons, List.map_cons]
    rw [wb_leafRegions_eq s G O P (by simpa using h1) (by simpa using h2)
      (fun i l g' a b => by simpa using h3 (i + 1) l g' (by simpa using a) (by simpa using b))]
    rw [e0]
    rfl

theorem wb_zip_left {α β : Type} : ∀ (l1 : List α) (l2 : List β), l1.length = l2.length → ∀ a ∈ l1, ∃ b, (a, b) ∈ l1.zip l2
  | [], _, _, _, h => by cases h
  | a :: l1, [], h, _, _ => by simp at h
  | a :: l1, b :: l2, h, x, hx => by
    rcases List.mem_cons.mp hx with e | e
    · exact ⟨b, by rw [e]; simp⟩
    · obtain ⟨y, hy⟩ := wb_zip_left l1 l2 (by simpa using h) x e
      exact ⟨y, by simp [hy]⟩

theorem wb_minPos {s : State} (h : Inv s) {r p : Int} (hp : p = -1 ∨ (s.validCell p ∧ s.row p = r)) (hr : s.validRow r) :
    s.siteBegin r p ≤ s.boundaryAfterIn r p := by
  unfold State.siteBegin State.boundaryAfterIn
  rcases hp with e | e
  · rw [if_pos e, if_pos e]
  · have hp1 : p ≠ -1 := by have := e.1; unfold State.validCell at this; omega
    rw [if_neg hp1, if_neg hp1]
    have L := h.link e.1
    unfold LinkOk at L
    have hrp : s.row p ≠ -1 := by rw [e.2]; unfold State.validRow at hr; omega
    unfold State.boundaryAfter
    by_cases hn : s.next p = -1
    · rw [if_pos hn]; exact ((L.2.2 hrp).2.2.2 hn).2
    · rw [if_neg hn]; exact ((L.2.2 hrp).2.2.1 hn).2.2.1

theorem wb_maxPos {s : State} (h : Inv s) {r n : Int} (hn : n = -1 ∨ (s.validCell n ∧ s.row n = r)) (hr : s.validRow r) :
    s.boundaryBeforeIn r n ≤ (if n = -1 then s.rowMaxX r else s.x n) := by
  unfold State.boundaryBeforeIn
  rcases hn with e | e
  · rw [if_pos e, if_pos e]
  · have hn1 : n ≠ -1 := by have := e.1; unfold State.validCell at this; omega
    rw [if_neg hn1, if_neg hn1]
    have L := h.link e.1
    unfold LinkOk at L
    have hrn : s.row n ≠ -1 := by rw [e.2]; unfold State.validRow at hr; omega
    unfold State.boundaryBefore
    by_cases hp : s.pred n = -1
    · rw [if_pos hp]; exact ((L.2.2 hrn).2.1 hp).2
    · rw [if_neg hp]; exact ((L.2.2 hrn).1 hp).2.2.1

/-- **the write-back of a well-formed leaf never fails** -/
theorem writeback_succeeds {σ : Type} (s : State) (h : Inv s) (w : List Int) (st : σ) (rr0 : RowReord σ)
    (hn : w.Nodup) (hw : ∀ c ∈ w, s.validCell c ∧ s.row c ≠ -1)
    (e : addCells s (RowReord.new st) w = .ok rr0) (cs : List Int) (hcs : cs.Perm rr0.cells)
    (O P : List (List Int)) (hwf : LeafWF s rr0.regions cs O P) :
    ∃ t, s.reorderWriteback cs (leafRegions rr0.regions O P) = .ok t := by
  obtain ⟨rr, segs, e', R⟩ := addCells_registered_ok s h w st hn hw
  rw [e] at e'
  cases e'
  obtain ⟨cnd, cmem⟩ := addCells_registered s h w st rr0 hn hw e
  have csnd : cs.Nodup := hcs.nodup_iff.mpr cnd
  have csw : ∀ c ∈ cs, c ∈ w := fun c hc => cmem c (hcs.mem_iff.mp hc)
  have csv : ∀ c ∈ cs, s.validCell c ∧ s.row c ≠ -1 := fun c hc => hw c (csw c hc)
  have neg1 : (-1 : Int) ∉ cs := by
    intro hin
    have := (csv _ hin).1; unfold State.validCell at this; omega
  obtain ⟨u, e1, hu, stu, hx, hrow, hch⟩ := wb_unplaceAll cs s h csnd csv
  -- every region's site is followed by its `cellNext` once the registered cells are unplaced
  have hsite : ∀ g ∈ rr0.regions, ∃ seg, RegionOk s w g seg ∧ u.siteNext g.row g.cellPred = g.cellNext := by
    intro g hg
    obtain ⟨seg, hgs⟩ := wb_zip_left rr0.regions segs R.len g hg
    have RO := R.ok _ hgs
    refine ⟨seg, RO, ?_⟩
    have hsegcs : ∀ a ∈ seg, a ∈ cs := by
      intro a ha
      apply hcs.mem_iff.mpr
      rw [R.cells]
      exact List.mem_flatten.mpr ⟨seg, (List.of_mem_zip hgs).2, ha⟩
    have c1 := hch g.row g.cellPred g.cellNext seg RO.hrow
      (by
        rcases RO.hpred with e | e
        · exact Or.inl e
        · exact Or.inr ⟨e.1, e.2.2⟩)
      (fun a ha => ⟨(hw a (RO.mem a ha).1).1, (RO.mem a ha).2⟩) RO.nodup
      (by
        rcases RO.hpred with e | e
        · rw [e]; exact neg1
        · exact fun x => e.2.1 (csw _ x))
      (by
        rcases RO.hnext with e | e
        · rw [e]; exact neg1
        · exact fun x => e.2.1 (csw _ x))
      (wb_path_chain s g.row g.cellNext seg g.cellPred RO.path)
    have : seg.filter (fun a => decide (a ∉ cs)) = [] := by
      rw [List.filter_eq_nil_iff]
      intro a ha
      simp [hsegcs a ha]
    rw [this] at c1
    exact c1
  -- the jobs
  have hjob : ∀ j ∈ rr0.regions.zip O, JobOk s cs j.1 j.2 ∧ u.siteNext j.1.row j.1.cellPred = j.1.cellNext ∧
      ∀ c ∈ j.2, u.row c = -1 := by
    intro j hj
    obtain ⟨i, hi⟩ := List.mem_iff_getElem?.mp hj
    rw [List.getElem?_zip_eq_some] at hi
    obtain ⟨hg, ho⟩ := hi
    obtain ⟨seg, RO, hs⟩ := hsite j.1 (List.mem_of_getElem? hg)
    have hpred' : j.1.cellPred = -1 ∨ (s.validCell j.1.cellPred ∧ s.row j.1.cellPred = j.1.row) := by
      rcases RO.hpred with e | e
      · exact Or.inl e
      · exact Or.inr ⟨e.1, e.2.2⟩
    have hnext' : j.1.cellNext = -1 ∨ (s.validCell j.1.cellNext ∧ s.row j.1.cellNext = j.1.row) := by
      rcases RO.hnext with e | e
      · exact Or.inl e
      · exact Or.inr ⟨e.1, e.2.2⟩
    refine ⟨⟨RO.hrow, ?_, ?_, ?_, ?_, ?_, hwf.nodup i _ ho⟩, hs, ?_⟩
    · rcases RO.hpred with e | e
      · exact Or.inl e
      · exact Or.inr ⟨e.1, fun x => e.2.1 (csw _ x), e.2.2⟩
    · rcases RO.hnext with e | e
      · exact Or.inl e
      · exact Or.inr ⟨e.1, fun x => e.2.1 (csw _ x), e.2.2⟩
    · rw [RO.hmin]; exact wb_minPos h hpred' RO.hrow
    · intro hne
      have f := hwf.fits i _ _ ho hg hne
      unfold RRegion.width at f
      have m := wb_maxPos h hnext' RO.hrow
      rw [← RO.hmax] at m
      omega
    · intro c hc
      have hccs := hwf.sub i _ ho c hc
      obtain ⟨vc, pc⟩ := csv c hccs
      have C := h.cell vc; unfold CellOk at C
      exact ⟨hccs, vc, (C.2 pc).1, hwf.allowed i _ _ ho hg c hc⟩
    · intro c hc
      rw [hrow c, if_pos (hwf.sub i _ ho c hc)]
  have hpw : (rr0.regions.zip O).Pairwise (fun j j' =>
      ¬ (j'.1.cellPred = j.1.cellPred ∧ (j.1.cellPred ≠ -1 ∨ j'.1.row = j.1.row)) ∧ ∀ c ∈ j.2, c ∉ j'.2) := by
    rw [List.pairwise_iff_getElem]
    intro i i' hi hi' hlt
    have hiG : i < rr0.regions.length := by rw [List.length_zip] at hi; omega
    have hiG' : i' < rr0.regions.length := by rw [List.length_zip] at hi'; omega
    have hiO : i < O.length := by rw [List.length_zip] at hi; omega
    have hiO' : i' < O.length := by rw [List.length_zip] at hi'; omega
    rw [List.getElem_zip, List.getElem_zip]
    have S := List.pairwise_iff_getElem.mp R.sites i i' hiG hiG' hlt
    refine ⟨?_, ?_⟩
    · intro ⟨a, b⟩
      apply S
      simp only at a b ⊢
      unfold State.siteNext
      rw [a]
      by_cases hp : rr0.regions[i].cellPred = -1
      · rw [if_pos hp, if_pos hp]
        rcases b with b | b
        · exact absurd hp b
        · rw [b]
      · rw [if_neg hp, if_neg hp]
    · intro c hc hc'
      simp only at hc hc'
      have := hwf.disj i i' _ _ (List.getElem?_eq_getElem hiO) (List.getElem?_eq_getElem hiO') c hc hc'
      omega
  obtain ⟨t', e2, _, hdone⟩ := wb_placeJobs s cs (rr0.regions.zip O) u hu stu
    (fun d hd => by rw [hrow d, if_neg hd, hx]; exact ⟨rfl, rfl⟩) hjob hpw
  rw [← wb_leafRegions_eq s rr0.regions O P hwf.olen hwf.plen hwf.packed] at e2
  refine ⟨t', ?_⟩
  unfold State.reorderWriteback
  simp only [e1, e2]
  rw [if_pos]
  rw [List.all_eq_true]
  intro d hd
  obtain ⟨i, l, ho, hdl⟩ := hwf.cover d hd
  have hiO : i < O.length := (List.getElem?_eq_some_iff.mp ho).1
  have hiG : i < rr0.regions.length := by rw [← hwf.olen]; exact hiO
  have hmem : (rr0.regions[i], l) ∈ rr0.regions.zip O := by
    apply List.mem_iff_getElem?.mpr
    refine ⟨i, ?_⟩
    rw [List.getElem?_zip_eq_some]
    exact ⟨List.getElem?_eq_getElem hiG, ho⟩
  rw [isPlaced_iff]
  exact hdone _ hmem d hdl

end ColoVerif.DetPlace
