import ColoVerif.Proofs.DetOptHpwlExport
/-
C05 ← C09, part 4: facts about reachable placement states (fixed cells stay, the initial export has
the circuit's orientations), the positions written by `RowReordering::writeback`, and the evaluation
functions of the optimiser (`valueOnSwap`, `valueOnInsert`, through update-and-restore of the two
incremental models) expressed with the position-only objective `circuitValue`.
-/
namespace ColoVerif.DetPlace
open ColoVerif State

/-- fixed cells are where the circuit has them in every state that frames the constructed one -/
theorem frame_fixed {c : Circuit} {s0 t : State} (e : fromIspdCircuit c = .ok s0) (f : Frame s0 t) :
    ∀ i : Nat, i < c.cells.length → (c.cell i).fixed = true → t.x i = (c.cell i).x ∧ t.y i = (c.cell i).y := by
  obtain ⟨hx, hy, -, -, hw⟩ := fromIspd_coords e
  intro i hi hf
  obtain ⟨fx, fy, -⟩ := f.2 i (hw i hf hi)
  rw [fx, fy, hx, hy, ofList_nat, ofList_nat, cell_map_getD c _ _ i hi, cell_map_getD c _ _ i hi]
  exact ⟨rfl, rfl⟩

/-- the export of the freshly constructed placement has the circuit's orientations -/
theorem init_orient_kept {c : Circuit} {s0 : State} (e : fromIspdCircuit c = .ok s0) :
    ∀ i, ((exportPlacement s0 c).cell i).orient = (c.cell i).orient := by
  obtain ⟨-, -, ho, -, -⟩ := fromIspd_coords e
  intro i
  rw [export_cell]
  by_cases hi : i < c.cells.length
  · simp only [hi, if_true]
    split
    · rfl
    · show s0.orient i = _
      rw [ho, ofList_nat, cell_map_getD c _ _ i hi]
  · have : c.cell i = default := by simp [Circuit.cell, List.getD_eq_getElem?_getD, hi]
    simp [hi, this]

/-- at construction the objective is the HPWL of the circuit itself (the legalized placement) -/
theorem init_value {c : Circuit} {s0 : State} (e : fromIspdCircuit c = .ok s0) :
    s0.value (circuitValue c) = c.hpwl ∧ (exportPlacement s0 c).hpwl = c.hpwl := by
  have hp : Placer.init c = .ok ⟨s0, IncrNet.xTopologyAll c, IncrNet.yTopologyAll c⟩ := by
    unfold Placer.init; rw [e]
  have hs := (init_sync hp).1
  have h1 : s0.value (circuitValue c) = c.hpwl := by
    have := hs.value
    rw [← C09.detailed_value_is_hpwl c (List.range c.cells.length)]
    exact this.symm
  refine ⟨h1, ?_⟩
  rw [← circuitValue_eq_hpwl c s0 (init_orient_kept e) (frame_fixed e (Frame.refl s0))]
  exact h1

/-! ### positions written by `writeback` -/

theorem rowY_of_rows {s t : State} (h : t.rows = s.rows) (r : Int) : t.rowY r = s.rowY r := by
  unfold rowY rowAt; rw [h]

theorem placeChain_positions : ∀ (l : List (Int × Int)) (s t : State) (r p : Int), s.placeChain r p l = .ok t →
    t.x = l.foldl (fun f m => upd f m.1 m.2) s.x ∧ t.y = l.foldl (fun f m => upd f m.1 (s.rowY r)) s.y ∧ t.rows = s.rows
  | [], s, t, r, p, e => by
    simp only [placeChain] at e; injection e with e; subst e; exact ⟨rfl, rfl, rfl⟩
  | (k, v) :: rest, s, t, r, p, e => by
    unfold placeChain at e
    split at e
    · split at e
      · cases e
      · rename_i u eu
        obtain ⟨hu, -⟩ := place_ok eu
        obtain ⟨h1, h2, h3⟩ := placeChain_positions rest u t r k e
        subst hu
        exact ⟨h1, h2, h3⟩
    · cases e

theorem regionsY_congr {s s' : State} (h : s'.rows = s.rows) : ∀ (gs : List Region) (y : Int → Int),
    regionsY s' y gs = regionsY s y gs
  | [], _ => rfl
  | g :: gs, y => by
    simp only [regionsY, rowY_of_rows h]
    exact regionsY_congr h gs _

theorem placeRegions_positions : ∀ (gs : List Region) (s t : State), s.placeRegions gs = .ok t →
    t.x = regionsX s.x gs ∧ t.y = regionsY s s.y gs ∧ t.rows = s.rows
  | [], s, t, e => by
    simp only [placeRegions] at e; injection e with e; subst e; exact ⟨rfl, rfl, rfl⟩
  | g :: gs, s, t, e => by
    unfold placeRegions at e
    split at e
    · cases e
    · rename_i u eu
      obtain ⟨h1, h2, h3⟩ := placeChain_positions g.cells s u g.row g.pred eu
      obtain ⟨k1, k2, k3⟩ := placeRegions_positions gs u t e
      refine ⟨?_, ?_, k3.trans h3⟩
      · rw [k1, h1]; rfl
      · rw [k2, h2, regionsY_congr h3]; rfl

theorem unplaceAll_rows {s t : State} {cs : List Int} (e : s.unplaceAll cs = .ok t) : t.rows = s.rows := by
  induction cs generalizing s with
  | nil => simp [unplaceAll] at e; subst e; rfl
  | cons c cs ih =>
    unfold unplaceAll at e
    split at e
    · exact ih (s := s.unplace c) e
    · cases e

/-- after `writeback` every listed cell sits at the leaf's position on its region's row: the state is
the one whose value `runOrdering` read at that leaf (`State.leafValue`) -/
theorem reorderWriteback_positions {s t : State} {cells : List Int} {regions : List Region}
    (e : s.reorderWriteback cells regions = .ok t) : t.x = regionsX s.x regions ∧ t.y = regionsY s s.y regions := by
  unfold reorderWriteback at e
  split at e
  · cases e
  · rename_i u eu
    split at e
    · cases e
    · rename_i w ew
      split at e
      · injection e with e; subst e
        obtain ⟨hn, hx, hy⟩ := unplaceAll_static eu
        obtain ⟨k1, k2, -⟩ := placeRegions_positions regions u w ew
        rw [k1, k2, hx, hy, regionsY_congr (unplaceAll_rows eu)]
        exact ⟨rfl, rfl⟩
      · cases e

theorem reorderWriteback_value (V : Value) {s t : State} {cells : List Int} {regions : List Region}
    (e : s.reorderWriteback cells regions = .ok t) : t.value V = s.leafValue V regions := by
  obtain ⟨hx, hy⟩ := reorderWriteback_positions e
  unfold State.value State.leafValue
  rw [hx, hy]

/-! ### the optimiser's evaluations -/

theorem placer_ext {p q : Placer} (h1 : p.pl = q.pl) (h2 : p.xt = q.xt) (h3 : p.yt = q.yt) : p = q := by
  cases p; cases q; simp only at h1 h2 h3; subst h1 h2 h3; rfl

theorem updateCellTo_pl (p : Placer) (k x y : Int) : (p.updateCellTo k x y).pl = p.pl := rfl
theorem atSwap_pl (p : Placer) (a b : Int) : (p.atSwap a b).pl = p.pl := by
  unfold Placer.atSwap; rw [updateCellTo_pl, updateCellTo_pl]
theorem atInsert_pl (p : Placer) (k r q : Int) : (p.atInsert k r q).pl = p.pl := by
  unfold Placer.atInsert; rw [updateCellTo_pl]

theorem upd_restore2 (f : Int → Int) (a b va vb : Int) :
    ∀ d, upd (upd (upd (upd f a va) b vb) a (f a)) b (f b) d = f d := by
  intro d
  by_cases hb : d = b
  · subst hb; simp [upd]
  · by_cases ha : d = a
    · subst ha; simp [upd, hb]
    · simp [upd, ha, hb]

theorem upd_restore1 (f : Int → Int) (a va : Int) : ∀ d, upd (upd f a va) a (f a) d = f d := by
  intro d
  by_cases ha : d = a
  · subst ha; simp [upd]
  · simp [upd, ha]

/-- `valueOnSwap` reads the position-only objective at the candidate positions and hands the two
incremental models back exactly as they were (state equality) -/
theorem valueOnSwap_eq {c : Circuit} {p : Placer} (h : Sync c p) {c1 c2 : Int} (v1 : p.pl.validCell c1)
    (v2 : p.pl.validCell c2) :
    (p.valueOnSwap c1 c2).1 = p.pl.valueOnSwap (circuitValue c) c1 c2 ∧ (p.valueOnSwap c1 c2).2 = p := by
  obtain ⟨a0, ak⟩ := h.valid v1
  obtain ⟨b0, bk⟩ := h.valid v2
  cases hcan : p.pl.canSwap c1 c2 with
  | error e => simp only [Placer.valueOnSwap, State.valueOnSwap, hcan]; exact ⟨trivial, trivial⟩
  | ok b =>
    cases b with
    | false => simp only [Placer.valueOnSwap, State.valueOnSwap, hcan]; exact ⟨trivial, trivial⟩
    | true =>
      simp only [Placer.valueOnSwap, State.valueOnSwap, hcan]
      have s1 := Sync.updateCellTo (p := p) h.x h.y c1 (p.pl.positionsOnSwap c1 c2).1.1 (p.pl.positionsOnSwap c1 c2).1.2 a0 ak
      have s2 : Sync1 (IncrNet.xTopologyAll c) c.cells.length (p.atSwap c1 c2).xt _ ∧
                Sync1 (IncrNet.yTopologyAll c) c.cells.length (p.atSwap c1 c2).yt _ :=
        Sync.updateCellTo (p := p.updateCellTo c1 (p.pl.positionsOnSwap c1 c2).1.1 (p.pl.positionsOnSwap c1 c2).1.2)
          s1.1 s1.2 c2 (p.pl.positionsOnSwap c1 c2).2.1 (p.pl.positionsOnSwap c1 c2).2.2 b0 bk
      have s3 := Sync.updateCellTo (p := p.atSwap c1 c2) s2.1 s2.2 c1 (p.pl.x c1) (p.pl.y c1) a0 ak
      have s4 := Sync.updateCellTo (p := (p.atSwap c1 c2).updateCellTo c1 (p.pl.x c1) (p.pl.y c1)) s3.1 s3.2 c2
        (p.pl.x c2) (p.pl.y c2) b0 bk
      constructor
      · unfold Placer.value circuitValue
        rw [s2.1.value, s2.2.value]
      · exact placer_ext (q := p) (by rw [updateCellTo_pl, updateCellTo_pl, atSwap_pl]) ((s4.1.congr (upd_restore2 _ _ _ _ _)).unique h.x)
          ((s4.2.congr (upd_restore2 _ _ _ _ _)).unique h.y)

/-- the same for `valueOnInsert` -/
theorem valueOnInsert_eq {c : Circuit} {p : Placer} (h : Sync c p) {k r q : Int} (v1 : p.pl.validCell k) :
    (p.valueOnInsert k r q).1 = p.pl.valueOnInsert (circuitValue c) k r q ∧ (p.valueOnInsert k r q).2 = p := by
  obtain ⟨a0, ak⟩ := h.valid v1
  cases hcan : p.pl.canInsert k r q with
  | error e => simp only [Placer.valueOnInsert, State.valueOnInsert, hcan]; exact ⟨trivial, trivial⟩
  | ok b =>
    cases b with
    | false => simp only [Placer.valueOnInsert, State.valueOnInsert, hcan]; exact ⟨trivial, trivial⟩
    | true =>
      simp only [Placer.valueOnInsert, State.valueOnInsert, hcan]
      have s1 : Sync1 (IncrNet.xTopologyAll c) c.cells.length (p.atInsert k r q).xt _ ∧
                Sync1 (IncrNet.yTopologyAll c) c.cells.length (p.atInsert k r q).yt _ :=
        Sync.updateCellTo (p := p) h.x h.y k (p.pl.positionOnInsert k r q).1 (p.pl.positionOnInsert k r q).2 a0 ak
      have s2 := Sync.updateCellTo (p := p.atInsert k r q) s1.1 s1.2 k (p.pl.x k) (p.pl.y k) a0 ak
      constructor
      · unfold Placer.value circuitValue
        rw [s1.1.value, s1.2.value]
      · exact placer_ext (q := p) (by rw [updateCellTo_pl, atInsert_pl]) ((s2.1.congr (upd_restore1 _ _ _)).unique h.x)
          ((s2.2.congr (upd_restore1 _ _ _)).unique h.y)

theorem scan_congr {cur : Int} {f g : Int → Option Int} : ∀ (cands : List Int) (best : Option Int),
    (∀ b ∈ cands, f b = g b) → scan cur f cands best = scan cur g cands best
  | [], _, _ => rfl
  | b :: rest, best, h => by
    unfold scan
    rw [h b (List.mem_cons_self ..)]
    have ih := fun bb => scan_congr (cur := cur) rest bb (fun x hx => h x (List.mem_cons_of_mem _ hx))
    split
    · split
      · exact ih _
      · exact ih _
    · exact ih _

/-- `bestSwap` / `bestSwapUpdate` on the real object choose what the acceptance rule chooses for the
position-only objective -/
theorem bestSwapChoice_eq {c : Circuit} {p : Placer} (h : Sync c p) {k : Int} {cands : List Int}
    (vk : p.pl.validCell k) (vc : ∀ b ∈ cands, p.pl.validCell b) :
    p.bestSwapChoice k cands = p.pl.bestSwapChoice (circuitValue c) k cands := by
  unfold Placer.bestSwapChoice State.bestSwapChoice
  rw [h.value]
  exact scan_congr cands none (fun b hb => (valueOnSwap_eq h vk (vc b hb)).1)

theorem bestInsertChoice_eq {c : Circuit} {p : Placer} (h : Sync c p) {k r : Int} {cands : List Int}
    (vk : p.pl.validCell k) :
    p.bestInsertChoice k r cands = p.pl.bestInsertChoice (circuitValue c) k r cands := by
  unfold Placer.bestInsertChoice State.bestInsertChoice
  rw [h.value]
  exact scan_congr cands none (fun b _ => (valueOnInsert_eq h vk).1)


/-- the driver's / harness' flag "no orientation changed since construction" implies the hypothesis
of `circuitValue_eq_hpwl` -/
theorem orientKept_spec {p : Placer} {c : Circuit} (h : p.orientKept c = true) :
    ∀ i, ((exportPlacement p.pl c).cell i).orient = (c.cell i).orient := by
  intro i
  rw [export_cell]
  by_cases hi : i < c.cells.length
  · simp only [hi, if_true]
    split
    · rfl
    · show p.pl.orient i = _
      unfold Placer.orientKept at h
      rw [List.all_eq_true] at h
      have := h (i : Int) (by simp [intsUpTo]; exact ⟨i, hi, rfl⟩)
      simpa using this
  · have : c.cell i = default := by simp [Circuit.cell, List.getD_eq_getElem?_getD, hi]
    simp [hi, this]

/-- `x` is `ok a` with `P a` (used by the non-vacuity examples: states contain functions, so they
are named through the computation that produced them) -/
def checkOk {α : Type} (x : Except Err α) (P : α → Prop) [∀ a, Decidable (P a)] : Bool :=
  match x with
  | .ok a => decide (P a)
  | .error _ => false

theorem ok_of_check {α : Type} {x : Except Err α} {P : α → Prop} [∀ a, Decidable (P a)]
    (h : checkOk x P = true) : ∃ a, x = .ok a ∧ P a := by
  cases x with
  | error e => cases h
  | ok a => exact ⟨a, rfl, by simpa [checkOk] using h⟩

end ColoVerif.DetPlace
