import ColoVerif.Proofs.DetReorderInv
/-
`RowReordering`, part 3: `runRegionChoice` and `run` on the coordinate vectors (`pureStore V`).
With the registered cells distinct and non-negative: the `assert` never fires, no loop runs out of fuel,
every evaluated leaf is faithful and the best-so-far fields are the keep-best fold (`run_spec`).
-/
namespace ColoVerif.DetPlace
open State

/-- every order list is sorted (between two calls of `runOrdering` they all are) -/
def SortedAll (rr : RowReord PS) : Prop := ∀ (i : Nat) l, rr.order[i]? = some l → l.Pairwise (· < ·)

/-- relation between the state at a call of `runRegionChoice(k)` and the state it returns -/
structure PostC (V : Value) (s : State) (v0 : Int) (cs : List Int) (k : Nat) (rr rr' : RowReord PS) : Prop where
  regions : rr'.regions = rr.regions
  cells : rr'.cells = rr.cells
  order : rr'.order = rr.order
  plen : rr'.positions.length = rr.positions.length
  sy : ∀ d, d ∉ cs.take k → rr'.store.2 d = rr.store.2 d
  sx : ∀ d, d ∉ cs → rr'.store.1 d = rr.store.1 d
  fuel : rr'.fuelOut = rr.fuelOut
  asrt : rr'.assertFail = rr.assertFail
  book : Book V s v0 rr'

theorem PostC.shape {V : Value} {s : State} {v0 : Int} {cs : List Int} {k : Nat} {rr rr' : RowReord PS} {G : List RRegion}
    (h : PostC V s v0 cs k rr rr') (hs : Shape G cs rr) : Shape G cs rr' :=
  ⟨h.regions.trans hs.regions, h.cells.trans hs.cells, by rw [h.order]; exact hs.olen, h.plen.trans hs.plen⟩

theorem PostC.trans {V : Value} {s : State} {v0 : Int} {cs : List Int} {k : Nat} {a b c : RowReord PS}
    (h1 : PostC V s v0 cs k a b) (h2 : PostC V s v0 cs k b c) : PostC V s v0 cs k a c :=
  ⟨h2.regions.trans h1.regions, h2.cells.trans h1.cells, h2.order.trans h1.order, h2.plen.trans h1.plen,
   fun d hd => (h2.sy d hd).trans (h1.sy d hd), fun d hd => (h2.sx d hd).trans (h1.sx d hd),
   h2.fuel.trans h1.fuel, h2.asrt.trans h1.asrt, h2.book⟩

theorem mem_take_of_nodup {cs : List Int} (hn : cs.Nodup) {k : Nat} {d : Int} (h1 : d ∈ cs.take k) (h2 : d ∈ cs.drop k) : False := by
  have : (cs.take k ++ cs.drop k).Nodup := by rw [List.take_append_drop]; exact hn
  exact (List.nodup_append.1 this).2.2 d h1 d h2 rfl

theorem PostC.lists {V : Value} {s : State} {v0 : Int} {cs : List Int} {k : Nat} {rr rr' : RowReord PS} {G : List RRegion}
    (h : PostC V s v0 cs k rr rr') (hn : cs.Nodup) (hl : Lists s G cs k rr) : Lists s G cs k rr' := by
  apply hl.transfer
  · intro i l' hl'; rw [h.order] at hl'; exact ⟨l', hl', List.Perm.refl _⟩
  · intro i l hl'; rw [← h.order] at hl'; exact ⟨l, hl', List.Perm.refl _⟩
  · intro d hd; exact h.sy d (fun ht => mem_take_of_nodup hn ht hd)
  · intro d hd
    exact ⟨h.sx d hd, h.sy d (fun ht => hd (List.mem_of_mem_take ht))⟩

theorem modify_push_pop (L : List (List Int)) (i : Nat) (c : Int) :
    (L.modify i (· ++ [c])).modify i List.dropLast = L := by
  apply List.ext_getElem?
  intro n
  rw [List.getElem?_modify, List.getElem?_modify]
  by_cases hin : i = n
  · subst hin
    cases h : L[i]? <;> simp
  · cases h : L[n]? <;> simp [hin]

theorem getD_modify_push (L : List (List Int)) (i : Nat) (c : Int) (l : List Int) (h : L[i]? = some l) :
    (L.modify i (· ++ [c])).getD i [] = l ++ [c] := by
  simp [List.getD_eq_getElem?_getD, h]

theorem drop_lt_of_desc {cs : List Int} (hd : cs.Pairwise (· > ·)) {k : Nat} {c : Int} (hk : cs[k]? = some c) :
    ∀ d ∈ cs.drop (k + 1), d < c := by
  obtain ⟨hlt, heq⟩ := List.getElem?_eq_some_iff.1 hk
  have : (cs.drop k).Pairwise (· > ·) := hd.sublist (List.drop_sublist k cs)
  rw [List.drop_eq_getElem_cons hlt, List.pairwise_cons, heq] at this
  intro d hd'
  exact this.1 d hd'

theorem desc_nodup {cs : List Int} (hd : cs.Pairwise (· > ·)) : cs.Nodup :=
  hd.imp (fun h e => by omega)

/-- the state in which the recursive call of `regionStep` is made satisfies the invariants one level down -/
theorem push_lists (s : State) (G : List RRegion) (cs : List Int) (k i : Nat) (c : Int) (rr : RowReord PS) (l : List Int)
    (g : RRegion) (hdesc : cs.Pairwise (· > ·)) (hk : cs[k]? = some c) (hl : Lists s G cs (k + 1) rr)
    (hi : rr.order[i]? = some l) (hg : G[i]? = some g) (rr2 : RowReord PS)
    (ho : rr2.order = rr.order.modify i (· ++ [c])) (hs1 : rr2.store.1 = rr.store.1)
    (hs2 : rr2.store.2 = upd rr.store.2 c (s.rowY g.row))
    (hfit : allocatedWidth s (l ++ [c]) ≤ g.width) (hal : s.isRowAllowed c g.row = true) : Lists s G cs k rr2 := by
  have hn := desc_nodup hdesc
  obtain ⟨hlt, heq⟩ := List.getElem?_eq_some_iff.1 hk
  have hdrop : cs.drop k = c :: cs.drop (k + 1) := by rw [List.drop_eq_getElem_cons hlt, heq]
  have hcnot : c ∉ cs.drop (k + 1) := by
    have : (cs.drop k).Nodup := hn.sublist (List.drop_sublist k cs)
    rw [hdrop] at this
    exact (List.nodup_cons.1 this).1
  have hcmem : c ∈ cs := by rw [← heq]; exact List.getElem_mem hlt
  -- the lists of rr2
  have hget : ∀ (n : Nat) l', rr2.order[n]? = some l' →
      (n = i ∧ l' = l ++ [c]) ∨ (n ≠ i ∧ rr.order[n]? = some l') := by
    intro n l' hl'
    rw [ho, List.getElem?_modify] at hl'
    by_cases hin : i = n
    · subst hin
      rw [hi] at hl'
      simp at hl'
      exact Or.inl ⟨rfl, hl'.symm⟩
    · simp only [hin, if_false] at hl'
      cases h : rr.order[n]? with
      | none => rw [h] at hl'; simp at hl'
      | some x => rw [h] at hl'; simp at hl'; subst hl'; exact Or.inr ⟨fun e => hin e.symm, rfl⟩
  have hgeti : rr2.order[i]? = some (l ++ [c]) := by rw [ho, List.getElem?_modify]; simp [hi]
  have hgetn : ∀ (n : Nat) l', n ≠ i → rr.order[n]? = some l' → rr2.order[n]? = some l' := by
    intro n l' hne h
    rw [ho, List.getElem?_modify]; simp [Ne.symm hne, h]
  refine ⟨?_, ?_, ?_, ?_, ?_, ?_, ?_, ?_⟩
  · intro n l' hl'
    rcases hget n l' hl' with ⟨rfl, rfl⟩ | ⟨_, h⟩
    · rw [List.nodup_append]
      refine ⟨hl.nodup n l hi, (by simp), ?_⟩
      intro a ha b hb hab
      simp at hb; subst hb; subst hab
      exact hcnot (hl.sub n l hi a ha)
    · exact hl.nodup n l' h
  · intro n l' hl' d hd
    rw [hdrop]
    rcases hget n l' hl' with ⟨rfl, rfl⟩ | ⟨_, h⟩
    · rcases List.mem_append.1 hd with hd | hd
      · exact List.mem_cons_of_mem _ (hl.sub n l hi d hd)
      · simp at hd; subst hd; exact List.mem_cons_self ..
    · exact List.mem_cons_of_mem _ (hl.sub n l' h d hd)
  · intro d hd
    rw [hdrop] at hd
    rcases List.mem_cons.1 hd with rfl | hd
    · exact ⟨i, l ++ [d], hgeti, by simp⟩
    · obtain ⟨n, l', hl', hdl⟩ := hl.cover d hd
      by_cases hni : n = i
      · subst hni
        rw [hi] at hl'; injection hl' with hl'; subst hl'
        exact ⟨n, l ++ [c], hgeti, List.mem_append_left _ hdl⟩
      · exact ⟨n, l', hgetn n l' hni hl', hdl⟩
  · intro n n' l1 l2 h1 h2 d hd1 hd2
    rcases hget n l1 h1 with ⟨rfl, rfl⟩ | ⟨hne1, h1'⟩ <;> rcases hget n' l2 h2 with ⟨rfl, rfl⟩ | ⟨hne2, h2'⟩
    · rfl
    · rcases List.mem_append.1 hd1 with hd1 | hd1
      · exact hl.disj n n' l l2 hi h2' d hd1 hd2
      · simp at hd1; subst hd1; exact absurd (hl.sub n' l2 h2' d hd2) hcnot
    · rcases List.mem_append.1 hd2 with hd2 | hd2
      · exact hl.disj n n' l1 l h1' hi d hd1 hd2
      · simp at hd2; subst hd2; exact absurd (hl.sub n l1 h1' d hd1) hcnot
    · exact hl.disj n n' l1 l2 h1' h2' d hd1 hd2
  · intro n l' g' hl' hg' d hd
    rw [hs2]
    rcases hget n l' hl' with ⟨rfl, rfl⟩ | ⟨_, h⟩
    · rw [hg] at hg'; injection hg' with hg'; subst hg'
      rcases List.mem_append.1 hd with hd | hd
      · have hne : d ≠ c := fun e => hcnot (e ▸ hl.sub n l hi d hd)
        simp only [upd, hne, if_false]
        exact hl.yinv n l g hi hg d hd
      · simp at hd; subst hd; simp [upd]
    · have hne : d ≠ c := fun e => hcnot (e ▸ hl.sub n l' h d hd)
      simp only [upd, hne, if_false]
      exact hl.yinv n l' g' h hg' d hd
  · intro d hd
    have hne : d ≠ c := fun e => hd (e ▸ hcmem)
    rw [hs1, hs2]
    simp only [upd, hne, if_false]
    exact hl.frame d hd
  · intro n l' g' hl' hg' hne
    rcases hget n l' hl' with ⟨rfl, rfl⟩ | ⟨_, h⟩
    · rw [hg] at hg'; injection hg' with hg'; subst hg'; exact hfit
    · exact hl.fits n l' g' h hg' hne
  · intro n l' g' hl' hg' d hd
    rcases hget n l' hl' with ⟨rfl, rfl⟩ | ⟨_, h⟩
    · rw [hg] at hg'; injection hg' with hg'; subst hg'
      rcases List.mem_append.1 hd with hd | hd
      · exact hl.allowed n l g hi hg d hd
      · simp at hd; subst hd; exact hal
    · exact hl.allowed n l' g' h hg' d hd

theorem runRegionChoice_spec (V : Value) (s : State) (G : List RRegion) (cs : List Int) (v0 : Int)
    (hnn : ∀ c ∈ cs, 0 ≤ c) (hdesc : cs.Pairwise (· > ·)) :
    ∀ (k : Nat) (rr : RowReord PS), k ≤ cs.length → Shape G cs rr → Lists s G cs k rr → SortedAll rr →
      Book V s v0 rr → PostC V s v0 cs k rr (runRegionChoice (pureStore V) s k rr)
  | 0, rr, _, hs, hl, hso, hb => by
    unfold runRegionChoice
    rw [hs.regions]
    have hx : XInv s G G.length rr := by
      intro i l g hi _ hg
      have := (List.getElem?_eq_some_iff.1 hg).1
      omega
    have post := runOrdering_spec V s G cs v0 hnn G.length rr (Nat.le_refl _) hs hl hx
      (fun i l _ hil => hso i l hil) hb
    refine ⟨post.regions, post.cells, post.order, post.plen, fun d _ => by rw [post.sy], ?_, post.fuel, post.asrt, post.book⟩
    intro d hd
    apply post.sx d
    intro i l _ hil hdl
    exact hd (by simpa using hl.sub i l hil d hdl)
  | k + 1, rr, hk, hs, hl, hso, hb => by
    unfold runRegionChoice
    have hn := desc_nodup hdesc
    have hkl : k < cs.length := by omega
    obtain ⟨c, hc⟩ : ∃ c, cs[k]? = some c := ⟨cs[k], List.getElem?_eq_getElem hkl⟩
    have hcd : rr.cells.getD k 0 = c := by rw [hs.cells]; simp [List.getD_eq_getElem?_getD, hc]
    rw [hcd, hs.regions]
    -- one iteration
    have step : ∀ (rr1 : RowReord PS) (i : Nat), i < G.length → Shape G cs rr1 → Lists s G cs (k + 1) rr1 → SortedAll rr1 →
        Book V s v0 rr1 →
        PostC V s v0 cs (k + 1) rr1 (regionStep (pureStore V) s (runRegionChoice (pureStore V) s k) c rr1 i) := by
      intro rr1 i hi hs1 hl1 hso1 hb1
      obtain ⟨l, hil⟩ : ∃ l, rr1.order[i]? = some l := ⟨rr1.order[i]'(by rw [hs1.olen]; exact hi), List.getElem?_eq_getElem _⟩
      obtain ⟨g, hg⟩ : ∃ g, G[i]? = some g := ⟨G[i], List.getElem?_eq_getElem hi⟩
      have hgd : rr1.regions.getD i default = g := by rw [hs1.regions]; simp [List.getD_eq_getElem?_getD, hg]
      unfold regionStep
      split
      · -- the cell fits: recursive call
        rename_i hcond
        rw [getD_of_some hil, hgd] at hcond
        have hs2 : Shape G cs (tellY (pureStore V) c (s.rowY (rr1.regions.getD i default).row) (pushBack i c rr1)) :=
          ⟨hs1.regions, hs1.cells, by show (rr1.order.modify i _).length = _; simp [hs1.olen], hs1.plen⟩
        have hl2 := push_lists s G cs k i c rr1 l g hdesc hc hl1 hil hg
          (tellY (pureStore V) c (s.rowY (rr1.regions.getD i default).row) (pushBack i c rr1))
          rfl rfl (by rw [hgd]; rfl) hcond.1 hcond.2
        have hso2 : SortedAll (tellY (pureStore V) c (s.rowY (rr1.regions.getD i default).row) (pushBack i c rr1)) := by
          intro n l' hl'
          have hl'' : (rr1.order.modify i (· ++ [c]))[n]? = some l' := hl'
          rw [List.getElem?_modify] at hl''
          by_cases hin : i = n
          · subst hin
            rw [hil] at hl''
            simp at hl''
            subst hl''
            rw [List.pairwise_append]
            refine ⟨hso1 i l hil, List.pairwise_singleton _ _, ?_⟩
            intro a ha b hb
            simp at hb; subst hb
            exact drop_lt_of_desc hdesc hc a (hl1.sub i l hil a ha)
          · simp only [hin, if_false] at hl''
            cases h : rr1.order[n]? with
            | none => rw [h] at hl''; simp at hl''
            | some x => rw [h] at hl''; simp at hl''; subst hl''; exact hso1 n x h
        have post := runRegionChoice_spec V s G cs v0 hnn hdesc k _ (by omega) hs2 hl2 hso2 ⟨hb1.faithful, hb1.kb, hb1.bestwf⟩
        have hord : (runRegionChoice (pureStore V) s k
            (tellY (pureStore V) c (s.rowY (rr1.regions.getD i default).row) (pushBack i c rr1))).order =
            rr1.order.modify i (· ++ [c]) := post.order
        refine ⟨post.regions, post.cells, ?_, post.plen, ?_, ?_, post.fuel, ?_, ⟨post.book.faithful, post.book.kb, post.book.bestwf⟩⟩
        · show (List.modify _ i List.dropLast) = rr1.order
          rw [hord, modify_push_pop]
        · intro d hd
          have hdk : d ∉ cs.take k := fun h => hd (by
            rw [List.take_add_one]; exact List.mem_append_left _ h)
          have hdc : d ≠ c := fun e => hd (by
            rw [List.take_add_one, hc]; simp [e])
          show (runRegionChoice (pureStore V) s k _).store.2 d = rr1.store.2 d
          rw [post.sy d hdk]
          show upd rr1.store.2 c _ d = _
          simp [upd, hdc]
        · intro d hd
          show (runRegionChoice (pureStore V) s k _).store.1 d = rr1.store.1 d
          rw [post.sx d hd]
          rfl
        · show ((runRegionChoice (pureStore V) s k _).assertFail || _) = rr1.assertFail
          rw [post.asrt, hord, getD_modify_push _ i c l hil]
          show (rr1.assertFail || _) = rr1.assertFail
          simp
      · -- the cell does not fit: pushed and popped at once
        refine ⟨rfl, rfl, ?_, rfl, fun _ _ => rfl, fun _ _ => rfl, rfl, ?_, ⟨hb1.faithful, hb1.kb, hb1.bestwf⟩⟩
        · show (List.modify (rr1.order.modify i (· ++ [c])) i List.dropLast) = rr1.order
          rw [modify_push_pop]
        · show (rr1.assertFail || _) = rr1.assertFail
          have : (pushBack i c rr1).order.getD i [] = l ++ [c] := getD_modify_push _ i c l hil
          rw [this]
          simp
    -- the loop over the regions
    have loop : ∀ (is : List Nat), (∀ i ∈ is, i < G.length) → ∀ rr1 : RowReord PS, Shape G cs rr1 →
        Lists s G cs (k + 1) rr1 → SortedAll rr1 → Book V s v0 rr1 →
        PostC V s v0 cs (k + 1) rr1
          (is.foldl (regionStep (pureStore V) s (runRegionChoice (pureStore V) s k) c) rr1) := by
      intro is
      induction is with
      | nil =>
        intro _ rr1 _ _ _ hb1
        exact ⟨rfl, rfl, rfl, rfl, fun _ _ => rfl, fun _ _ => rfl, rfl, rfl, hb1⟩
      | cons i is ih =>
        intro his rr1 hs1 hl1 hso1 hb1
        simp only [List.foldl_cons]
        have p1 := step rr1 i (his i (List.mem_cons_self ..)) hs1 hl1 hso1 hb1
        have hso2 : SortedAll (regionStep (pureStore V) s (runRegionChoice (pureStore V) s k) c rr1 i) := by
          intro n l hl'; rw [p1.order] at hl'; exact hso1 n l hl'
        exact p1.trans (ih (fun j hj => his j (List.mem_cons_of_mem _ hj)) _ (p1.shape hs1) (p1.lists hn hl1) hso2 p1.book)
    exact loop (List.range G.length) (fun i hi => List.mem_range.1 hi) rr hs hl hso hb

/-! ### `run` -/

theorem insertDesc_perm (c : Int) : ∀ l : List Int, (insertDesc c l).Perm (c :: l)
  | [] => List.Perm.refl _
  | d :: ds => by
    unfold insertDesc
    split
    · exact List.Perm.refl _
    · exact ((insertDesc_perm c ds).cons d).trans (List.Perm.swap c d ds)

theorem sortDesc_perm : ∀ l : List Int, (sortDesc l).Perm l
  | [] => List.Perm.refl _
  | c :: cs => by
    show (insertDesc c (sortDesc cs)).Perm (c :: cs)
    exact (insertDesc_perm c _).trans ((sortDesc_perm cs).cons c)

theorem insertDesc_sorted (c : Int) : ∀ l : List Int, l.Pairwise (· ≥ ·) → (insertDesc c l).Pairwise (· ≥ ·)
  | [], _ => List.pairwise_singleton _ _
  | d :: ds, h => by
    unfold insertDesc
    split
    · rename_i hle
      rw [List.pairwise_cons]
      refine ⟨?_, h⟩
      intro b hb
      rcases List.mem_cons.1 hb with rfl | hb
      · omega
      · have := (List.pairwise_cons.1 h).1 b hb; omega
    · rename_i hle
      rw [List.pairwise_cons]
      refine ⟨?_, insertDesc_sorted c ds (List.pairwise_cons.1 h).2⟩
      intro b hb
      rcases List.mem_cons.1 ((insertDesc_perm c ds).mem_iff.1 hb) with rfl | hb
      · omega
      · exact (List.pairwise_cons.1 h).1 b hb

theorem sortDesc_sorted : ∀ l : List Int, (sortDesc l).Pairwise (· ≥ ·)
  | [] => List.Pairwise.nil
  | c :: cs => insertDesc_sorted c _ (sortDesc_sorted cs)

theorem sortDesc_desc {l : List Int} (hn : l.Nodup) : (sortDesc l).Pairwise (· > ·) := by
  have h1 := sortDesc_sorted l
  have h2 : (sortDesc l).Nodup := (sortDesc_perm l).symm.nodup hn
  have := h1.and h2
  exact this.imp (fun h => by omega)

/-- the state `addCells` hands to `run`: nothing evaluated yet, empty order lists, one per region -/
structure Fresh {σ : Type} (rr : RowReord σ) : Prop where
  leaves : rr.leaves = []
  improvement : rr.improvement = false
  olen : rr.order.length = rr.regions.length
  plen : rr.positions.length = rr.regions.length
  empty : ∀ (i : Nat) l, rr.order[i]? = some l → l = []

/-- **`RowReordering::run` on the coordinate vectors.**  Registered cells distinct and non-negative,
the two vectors those of the placement: no fuel-out, no assertion failure, every evaluated leaf faithful,
`bestVal_ / bestOrder_ / bestPositions_ / improvement_` = the keep-best fold over the evaluated leaves
(in evaluation order) started from the value before the pass. -/
theorem run_spec (V : Value) (s : State) (rr0 : RowReord PS) (hf : Fresh rr0) (hn : rr0.cells.Nodup)
    (hnn : ∀ c ∈ rr0.cells, 0 ≤ c) (hst : rr0.store = (s.x, s.y)) :
    (rr0.run (pureStore V) s).fuelOut = rr0.fuelOut ∧ (rr0.run (pureStore V) s).assertFail = rr0.assertFail ∧
    (rr0.run (pureStore V) s).cells = sortDesc rr0.cells ∧ (rr0.run (pureStore V) s).regions = rr0.regions ∧
    Book V s (V s.x s.y) (rr0.run (pureStore V) s) ∧
    (∀ d, d ∉ rr0.cells → (rr0.run (pureStore V) s).store.1 d = s.x d ∧ (rr0.run (pureStore V) s).store.2 d = s.y d) := by
  unfold RowReord.run
  have hdesc := sortDesc_desc hn
  have hlen : rr0.cells.length = (sortDesc rr0.cells).length := (sortDesc_perm rr0.cells).length_eq.symm
  have hv0 : (pureStore V).value rr0.store = V s.x s.y := by rw [hst]; rfl
  have post := runRegionChoice_spec V s rr0.regions (sortDesc rr0.cells) (V s.x s.y)
    (fun c hc => hnn c ((sortDesc_perm rr0.cells).mem_iff.1 hc)) hdesc rr0.cells.length
    { rr0 with bestVal := (pureStore V).value rr0.store, cells := sortDesc rr0.cells }
    (by omega) ⟨rfl, rfl, hf.olen, hf.plen⟩
    ⟨fun i l h => by rw [hf.empty i l h]; exact List.nodup_nil,
     fun i l h c hc => by rw [hf.empty i l h] at hc; simp at hc,
     fun d hd => by rw [hlen, List.drop_length] at hd; simp at hd,
     fun i i' l l' h _ c hc _ => by rw [hf.empty i l h] at hc; simp at hc,
     fun i l g h _ c hc => by rw [hf.empty i l h] at hc; simp at hc,
     fun d _ => by show rr0.store.1 d = _ ∧ rr0.store.2 d = _; rw [hst]; exact ⟨rfl, rfl⟩,
     fun i l g h _ hne => absurd (hf.empty i l h) hne,
     fun i l g h _ c hc => by rw [hf.empty i l h] at hc; simp at hc⟩
    (fun i l h => by rw [hf.empty i l h]; exact List.Pairwise.nil)
    ⟨fun leaf hl => by rw [show ({ rr0 with bestVal := _, cells := _ } : RowReord PS).leaves = rr0.leaves from rfl, hf.leaves] at hl; simp at hl,
     by show keepBest (V s.x s.y) rr0.leaves.reverse none = (_, if rr0.improvement = true then _ else none)
        rw [hf.leaves, hf.improvement, hv0]; rfl,
     fun h => by
      have : rr0.improvement = true := h
      rw [hf.improvement] at this; cases this⟩
  refine ⟨post.fuel, post.asrt, post.cells, post.regions, post.book, ?_⟩
  intro d hd
  have hd' : d ∉ sortDesc rr0.cells := fun h => hd ((sortDesc_perm rr0.cells).mem_iff.1 h)
  refine ⟨(post.sx d hd').trans ?_, (post.sy d (fun h => hd' (List.mem_of_mem_take h))).trans ?_⟩
  · show rr0.store.1 d = s.x d; rw [hst]
  · show rr0.store.2 d = s.y d; rw [hst]

end ColoVerif.DetPlace
