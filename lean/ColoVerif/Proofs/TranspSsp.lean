/-
Invariants of the successive-shortest-path solver model (helper lemmas for C13):
flow conservation of `sendSource` (column sums, row sums + remaining capacity).
-/
import ColoVerif.Model.TranspCert
import ColoVerif.Proofs.TranspCert

namespace ColoVerif.Transp

/-! ### pointwise effect of the updates -/

lemma getD_updAt {α : Type} (f : α → α) (d0 : α) : ∀ (l : List α) (i k : Nat),
    (updAt l i f).getD k d0 = if k = i ∧ i < l.length then f (l.getD i d0) else l.getD k d0 := by
  intro l
  induction l with
  | nil => intro i k; simp [updAt]
  | cons a as ih =>
    intro i k
    cases i with
    | zero =>
      cases k with
      | zero => simp [updAt]
      | succ k => simp [updAt]
    | succ i =>
      cases k with
      | zero => simp [updAt]
      | succ k =>
        simp only [updAt, List.getD_cons_succ, List.length_cons, ih i k, Nat.add_lt_add_iff_right,
          Nat.add_right_cancel_iff]

lemma get2_add2 (a : Mat) (i j : Nat) (d : Int) (h : j < (a.getD i []).length) (i' j' : Nat) :
    get2 (add2 a i j d) i' j' = get2 a i' j' + (if i' = i ∧ j' = j then d else 0) := by
  have hi : i < a.length := by
    by_contra hc
    have : a.getD i [] = [] := by simp [List.getD_eq_getElem?_getD, Nat.not_lt.mp hc]
    rw [this] at h; simp at h
  unfold get2 add2
  rw [getD_updAt]
  by_cases e : i' = i
  · subst e
    rw [if_pos ⟨rfl, hi⟩]
    unfold addAt
    rw [getD_updAt]
    by_cases e2 : j' = j
    · subst e2
      rw [if_pos ⟨rfl, h⟩]; simp
    · rw [if_neg (fun hh => e2 hh.1)]; simp [e2]
  · rw [if_neg (fun hh => e hh.1)]; simp [e]

lemma sumTo_add_ite (n : Nat) (f : Nat → Int) (i : Nat) (d : Int) :
    sumTo n (fun k => f k + (if k = i then d else 0)) = sumTo n f + (if i < n then d else 0) := by
  induction n with
  | zero => simp
  | succ n ih =>
    simp only [sumTo_succ, ih]
    by_cases h1 : i < n
    · have : n ≠ i := by omega
      have h2 : i < n + 1 := by omega
      simp [h1, h2, this]; ring
    · by_cases h3 : n = i
      · subst h3; simp; ring
      · have h2 : ¬ i < n + 1 := by omega
        simp [h1, h2, h3]

/-- effect of a bounds-checked `+= d` on the column sums and the row sums -/
lemma add2?_sums (n m : Nat) (a a' : Mat) (i j : Nat) (d : Int) (h : add2? n m a i j d = some a') :
    (∀ j', colSum a' n j' = colSum a n j' + (if j' = j then d else 0)) ∧
    (∀ i', rowSum a' m i' = rowSum a m i' + (if i' = i then d else 0)) := by
  unfold add2? at h
  split at h
  · rename_i hc
    obtain ⟨hi, hj, hl⟩ := hc
    injection h with h; subst h
    constructor
    · intro j'
      unfold colSum
      by_cases e : j' = j
      · subst e
        have : (fun i' => get2 (add2 a i j' d) i' j') = (fun i' => get2 a i' j' + (if i' = i then d else 0)) := by
          funext i'; rw [get2_add2 a i j' d hl]; simp
        rw [this, sumTo_add_ite]; simp [hi]
      · have : (fun i' => get2 (add2 a i j d) i' j') = (fun i' => get2 a i' j') := by
          funext i'; rw [get2_add2 a i j d hl]; simp [e]
        rw [this]; simp [e]
    · intro i'
      unfold rowSum
      by_cases e : i' = i
      · subst e
        have : (fun j' => get2 (add2 a i' j d) i' j') = (fun j' => get2 a i' j' + (if j' = j then d else 0)) := by
          funext j'; rw [get2_add2 a i' j d hl]; simp
        rw [this, sumTo_add_ite]; simp [hj]
      · have : (fun j' => get2 (add2 a i j d) i' j') = (fun j' => get2 a i' j') := by
          funext j'; rw [get2_add2 a i j d hl]; simp [e]
        rw [this]; simp [e]
  · exact absurd h (by simp)

/-! ### one round of the second walk, and the walk -/

lemma sendStep_sums (p : Problem) (m : Int) (alloc : Mat) (qs : Queues) (snk1 snk2 sentSrc : Nat) (st : Step)
    (h : sendStep p m alloc qs snk1 snk2 sentSrc = .ok st) :
    (∀ j, colSum st.alloc p.nbSinks j + (if j = st.newSrc then m else 0)
        = colSum alloc p.nbSinks j + (if j = sentSrc then m else 0)) ∧
    (∀ i, rowSum st.alloc p.nbSources i = rowSum alloc p.nbSources i) := by
  unfold sendStep at h
  split at h; · exact absurd h (by simp)
  split at h; · exact absurd h (by simp)
  split at h; · exact absurd h (by simp)
  split at h; · exact absurd h (by simp)
  split at h; · exact absurd h (by simp)
  split at h; · exact absurd h (by simp)
  rename_i newSrc _ a1 h1 _ a2 h2 _ _ _
  injection h with h; subst h
  obtain ⟨c1, r1⟩ := add2?_sums _ _ _ _ _ _ _ h1
  obtain ⟨c2, r2⟩ := add2?_sums _ _ _ _ _ _ _ h2
  constructor
  · intro j
    simp only []
    rw [c2 j, c1 j]
    split <;> split <;> omega
  · intro i
    simp only []
    rw [r2 i, r1 i]
    split <;> omega

lemma sendLoop_sums (p : Problem) (remCapa : List Int) (parent : List (Option Nat)) (m : Int) :
    ∀ (fuel : Nat) (alloc : Mat) (qs : Queues) (snk1 sentSrc : Nat) (nu : Bool) (w : Walk),
      sendLoop p remCapa parent m fuel alloc qs snk1 sentSrc nu = .ok w →
      (∀ j, colSum w.alloc p.nbSinks j + (if j = w.src then m else 0)
          = colSum alloc p.nbSinks j + (if j = sentSrc then m else 0)) ∧
      (∀ i, rowSum w.alloc p.nbSources i = rowSum alloc p.nbSources i) := by
  intro fuel
  induction fuel with
  | zero => intro alloc qs snk1 sentSrc nu w h; simp [sendLoop] at h
  | succ fuel ih =>
    intro alloc qs snk1 sentSrc nu w h
    unfold sendLoop at h
    split at h
    · injection h with h; subst h; exact ⟨fun _ => rfl, fun _ => rfl⟩
    · split at h; · exact absurd h (by simp)
      split at h; · exact absurd h (by simp)
      rename_i st hst
      obtain ⟨c1, r1⟩ := sendStep_sums p m alloc qs snk1 _ sentSrc st hst
      obtain ⟨c2, r2⟩ := ih _ _ _ _ _ _ h
      exact ⟨fun j => by rw [c2 j, c1 j], fun i => by rw [r2 i, r1 i]⟩

/-- both walks along `sinkParent_` end at the same root -/
lemma walks_same_root (p : Problem) (remCapa : List Int) (parent : List (Option Nat)) (m : Int) (qs0 : Queues)
    (alloc0 : Mat) :
    ∀ (fuel : Nat) (snk1 : Nat) (q : Int) (ms : Int) (root : Nat) (alloc : Mat) (qs : Queues)
      (sentSrc : Nat) (nu : Bool) (w : Walk),
      maxSentLoop alloc0 qs0 parent fuel snk1 q = .ok (ms, root) →
      sendLoop p remCapa parent m fuel alloc qs snk1 sentSrc nu = .ok w → w.root = root := by
  intro fuel
  induction fuel with
  | zero => intro snk1 q ms root alloc qs sentSrc nu w h; simp [maxSentLoop] at h
  | succ fuel ih =>
    intro snk1 q ms root alloc qs sentSrc nu w h1 h2
    unfold maxSentLoop at h1
    unfold sendLoop at h2
    split at h1
    · rename_i hp
      rw [hp] at h2
      simp only [] at h2
      simp only [Except.ok.injEq, Prod.mk.injEq] at h1
      injection h2 with h2
      subst h2
      exact h1.2
    · rename_i snk2 hp
      rw [hp] at h2
      simp only [] at h2
      split at h1; · exact absurd h1 (by simp)
      split at h1
      · split at h2; · exact absurd h2 (by simp)
        split at h2; · exact absurd h2 (by simp)
        exact ih _ _ _ _ _ _ _ _ _ h1 h2
      · exact absurd h1 (by simp)

/-! ### the solver state invariant -/

/-- `sent j` units of source `j` are allocated so far; `remainingCapa_` is what is left of each capacity -/
structure Inv (p : Problem) (s : St) (sent : Nat → Int) : Prop where
  col : ∀ j, colSum s.alloc p.nbSinks j = sent j
  row : ∀ i, rowSum s.alloc p.nbSources i + s.remCapa.getD i 0 = p.capacity i
  rem : ∀ i, 0 ≤ s.remCapa.getD i 0

lemma Inv.congr {p : Problem} {s : St} {sent sent' : Nat → Int} (h : Inv p s sent) (e : ∀ j, sent j = sent' j) :
    Inv p s sent' := ⟨fun j => (h.col j).trans (e j), h.row, h.rem⟩

lemma getD_set_int (l : List Int) (i k : Nat) (v : Int) :
    (l.set i v).getD k 0 = if k = i ∧ i < l.length then v else l.getD k 0 := by
  simp only [List.getD_eq_getElem?_getD, List.getElem?_set]
  by_cases e : i = k
  · subst e
    by_cases h : i < l.length
    · simp [h]
    · simp [h]
  · have e' : ¬ k = i := fun hh => e hh.symm
    simp [e, e']

lemma maxSentLoop_le (alloc : Mat) (qs : Queues) (parent : List (Option Nat)) :
    ∀ (fuel snk1 : Nat) (q ms : Int) (root : Nat),
      maxSentLoop alloc qs parent fuel snk1 q = .ok (ms, root) → ms ≤ q := by
  intro fuel
  induction fuel with
  | zero => intro snk1 q ms root h; simp [maxSentLoop] at h
  | succ fuel ih =>
    intro snk1 q ms root h
    unfold maxSentLoop at h
    split at h
    · simp only [Except.ok.injEq, Prod.mk.injEq] at h; omega
    · split at h; · exact absurd h (by simp)
      split at h
      · have := ih _ _ _ _ h
        exact le_trans this (min_le_left _ _)
      · exact absurd h (by simp)

lemma finishSend_fields (p : Problem) (s : St) (queues : Queues) (root : Nat) (nu : Bool) (alloc : Mat)
    (remCapa : List Int) (m : Int) (s' : St) (m' : Int)
    (h : finishSend p s queues root nu alloc remCapa m = .ok (s', m')) :
    s'.alloc = alloc ∧ s'.remCapa = remCapa ∧ m' = m := by
  unfold finishSend at h
  simp only [] at h
  split at h
  · split at h; · exact absurd h (by simp)
    simp only [Except.ok.injEq, Prod.mk.injEq] at h
    obtain ⟨h1, h2⟩ := h; subst h1; exact ⟨rfl, rfl, h2.symm⟩
  · simp only [Except.ok.injEq, Prod.mk.injEq] at h
    obtain ⟨h1, h2⟩ := h; subst h1; exact ⟨rfl, rfl, h2.symm⟩

/-- one call of `sendSource(src, sink, quantity)` keeps the invariant and sends `0 < sent ≤ quantity` -/
lemma sendSource3_inv (p : Problem) (s : St) (sent : Nat → Int) (src sink : Nat) (q : Int) (s' : St) (m : Int)
    (hi : Inv p s sent) (h : sendSource3 p s src sink q = .ok (s', m)) :
    Inv p s' (fun j => sent j + (if j = src then m else 0)) ∧ 0 < m ∧ m ≤ q := by
  unfold sendSource3 at h
  split at h; · exact absurd h (by simp)
  rename_i ms root hms
  split at h
  · rename_i hpos
    split at h; · exact absurd h (by simp)
    rename_i w hw
    split at h; · exact absurd h (by simp)
    rename_i alloc hadd
    split at h
    · rename_i hroot
      obtain ⟨ea, er, em⟩ := finishSend_fields _ _ _ _ _ _ _ _ _ _ h
      have hsame := walks_same_root p s.remCapa s.parent _ s.queues s.alloc _ _ _ _ _ _ _ _ _ _ hms hw
      obtain ⟨c1, r1⟩ := sendLoop_sums p s.remCapa s.parent _ _ _ _ _ _ _ _ hw
      obtain ⟨c2, r2⟩ := add2?_sums _ _ _ _ _ _ _ hadd
      have hle := maxSentLoop_le _ _ _ _ _ _ _ _ hms
      subst em
      refine ⟨⟨?_, ?_, ?_⟩, by omega, le_trans (min_le_left _ _) hle⟩
      · intro j
        rw [ea, c2 j, ← hi.col j]
        have := c1 j
        split at this <;> split at this <;> split <;> omega
      · intro i
        rw [ea, er, r2 i, r1 i, getD_set_int]
        have := hi.row i
        by_cases e : i = w.root
        · subst e; simp only [true_and, hroot, if_true]; omega
        · simp only [e, false_and, if_false]; omega
      · intro i
        rw [er, getD_set_int]
        by_cases e : i = w.root
        · subst e
          simp only [true_and, hroot, if_true]
          rw [hsame]
          have := min_le_right ms (s.remCapa.getD root 0)
          omega
        · simp only [e, false_and, if_false]; exact hi.rem i
    · exact absurd h (by simp)
  · exact absurd h (by simp)

lemma sendSourceLoop_inv (p : Problem) (src : Nat) :
    ∀ (fuel : Nat) (s : St) (rem : Int) (sent : Nat → Int) (s' : St),
      Inv p s sent → rem ≤ fuel → 0 ≤ rem → sendSourceLoop p src fuel s rem = .ok s' →
      Inv p s' (fun j => sent j + (if j = src then rem else 0)) := by
  intro fuel
  induction fuel with
  | zero =>
    intro s rem sent s' hi hf h0 h
    have : rem = 0 := by omega
    subst this
    simp [sendSourceLoop] at h
    subst h
    exact hi.congr (fun j => by simp)
  | succ fuel ih =>
    intro s rem sent s' hi hf h0 h
    unfold sendSourceLoop at h
    split at h
    · split at h; · exact absurd h (by simp)
      rename_i s1 m h3
      obtain ⟨hi1, hm0, hmq⟩ := sendSource3_inv p s sent src _ rem s1 m hi h3
      have hm' : m > 0 := hm0
      rw [if_pos hm'] at h
      have := ih s1 (rem - m) _ s' hi1 (by push_cast at hf ⊢; omega) (by omega) h
      exact this.congr (fun j => by split <;> omega)
    · have : rem = 0 := by omega
      subst this
      injection h with h; subst h
      exact hi.congr (fun j => by simp)

lemma runSources_inv (p : Problem) (hd : ∀ j, 0 ≤ p.demand j) :
    ∀ (L : List Nat) (s : St) (sent : Nat → Int) (s' : St),
      Inv p s sent → runSources p L s = .ok s' →
      Inv p s' (fun j => sent j + (L.count j : Int) * p.demand j) := by
  intro L
  induction L with
  | nil =>
    intro s sent s' hi h
    simp [runSources] at h; subst h
    exact hi.congr (fun j => by simp)
  | cons a L ih =>
    intro s sent s' hi h
    unfold runSources at h
    split at h; · exact absurd h (by simp)
    rename_i s1 h1
    unfold sendSource at h1
    have hi1 := sendSourceLoop_inv p a _ s (p.demand a) sent s1 hi
      (by rw [Int.toNat_of_nonneg (hd a)]) (hd a) h1
    have := ih s1 _ s' hi1 h
    refine this.congr (fun j => ?_)
    rw [List.count_cons]
    by_cases e : j = a
    · subst e; simp; ring
    · have e' : ¬ a = j := fun hh => e hh.symm
      simp [e, e']

lemma get2_zeroAlloc (p : Problem) (i j : Nat) : get2 p.zeroAlloc i j = 0 := by
  unfold get2 Problem.zeroAlloc
  simp only [List.getD_eq_getElem?_getD, List.getElem?_replicate]
  split
  · simp only [Option.getD_some, List.getElem?_replicate]
    split <;> simp
  · simp

lemma sumTo_zero_fun (n : Nat) (f : Nat → Int) (h : ∀ i, f i = 0) : sumTo n f = 0 := by
  induction n with
  | zero => rfl
  | succ n ih => simp [ih, h n]

lemma initSt_inv (p : Problem) (hc : ∀ i, 0 ≤ p.capacity i) : Inv p (initSt p) (fun _ => 0) := by
  refine ⟨fun j => ?_, fun i => ?_, fun i => hc i⟩
  · exact sumTo_zero_fun _ _ (fun i => get2_zeroAlloc p i j)
  · have : rowSum (initSt p).alloc p.nbSources i = 0 := sumTo_zero_fun _ _ (fun j => get2_zeroAlloc p i j)
    rw [this]; simp [initSt, Problem.capacity]

lemma count_range (n j : Nat) : (List.range n).count j = if j < n then 1 else 0 := by
  induction n with
  | zero => simp
  | succ n ih =>
    rw [List.range_succ, List.count_append, ih]
    by_cases h : j = n
    · subst h; simp
    · have h' : ¬ n = j := fun e => h e.symm
      by_cases h2 : j < n
      · have h3 : j < n + 1 := by omega
        simp [h', h2, h3]
      · have h3 : ¬ j < n + 1 := by omega
        simp [h', h2, h3]

lemma count_sorted (p : Problem) (j : Nat) :
    (sortedSourcesByDemand p).count j = if j < p.nbSources then 1 else 0 := by
  unfold sortedSourcesByDemand
  rw [(List.mergeSort_perm _ _).count_eq, count_range]

end ColoVerif.Transp
