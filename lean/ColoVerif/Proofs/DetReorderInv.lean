import ColoVerif.Proofs.DetReorderLeaf
/-
`RowReordering`, part 2: `runOrdering` (this file, `runOrdering_spec`): with the registered cells
distinct and non-negative, a call of `runOrdering(j)` hands `order_` back as it got it, never runs out
of fuel, evaluates only leaves whose value is the objective of their write-back (`Book.faithful`), and
keeps `bestVal_ / bestOrder_ / bestPositions_ / improvement_` equal to the keep-best fold (`keepBest`,
Model/DetOpt.lean) over the leaves evaluated so far (`Book.kb`).
-/
namespace ColoVerif.DetPlace
open State

/-! ### the keep-best fold, one leaf at a time -/

theorem keepBest_snoc (x : Leaf) : ∀ (ls : List Leaf) (b : Int) (l0 : Option Leaf),
    keepBest b (ls ++ [x]) l0 =
      if x.value < (keepBest b ls l0).1 then (x.value, some x) else keepBest b ls l0
  | [], b, l0 => by by_cases h : x.value < b <;> simp [keepBest, h]
  | l :: ls, b, l0 => by
    simp only [List.cons_append, keepBest]
    split
    · exact keepBest_snoc x ls _ _
    · exact keepBest_snoc x ls _ _

/-- every logged leaf is faithful; the best-so-far fields are the keep-best fold over the log -/
structure Book (V : Value) (s : State) (v0 : Int) (rr : RowReord PS) : Prop where
  faithful : ∀ leaf ∈ rr.leaves, leaf.value = s.leafValue V leaf.regions
  kb : keepBest v0 rr.leaves.reverse none =
    (rr.bestVal, if rr.improvement then some ⟨rr.bestVal, rr.bestRegions⟩ else none)
  /-- the kept leaf is well-formed (for the registered cells `rr.cells` and the regions `rr.regions`) -/
  bestwf : rr.improvement = true → LeafWF s rr.regions rr.cells rr.bestOrder rr.bestPositions

theorem evalLeaf_fields (V : Value) (rr : RowReord PS) :
    (evalLeaf (pureStore V) rr).regions = rr.regions ∧ (evalLeaf (pureStore V) rr).cells = rr.cells ∧
    (evalLeaf (pureStore V) rr).order = rr.order ∧ (evalLeaf (pureStore V) rr).positions = rr.positions ∧
    (evalLeaf (pureStore V) rr).store = rr.store ∧ (evalLeaf (pureStore V) rr).fuelOut = rr.fuelOut ∧
    (evalLeaf (pureStore V) rr).assertFail = rr.assertFail := by
  unfold evalLeaf
  split <;> exact ⟨rfl, rfl, rfl, rfl, rfl, rfl, rfl⟩

theorem evalLeaf_book (V : Value) (s : State) (v0 : Int) (rr : RowReord PS) (hb : Book V s v0 rr)
    (hf : V rr.store.1 rr.store.2 = s.leafValue V (leafRegions rr.regions rr.order rr.positions))
    (hwf : LeafWF s rr.regions rr.cells rr.order rr.positions) :
    Book V s v0 (evalLeaf (pureStore V) rr) := by
  have hkb := hb.kb
  unfold evalLeaf
  split
  · rename_i hlt
    refine ⟨?_, ?_, fun _ => hwf⟩
    · intro leaf hl
      rcases List.mem_cons.1 hl with rfl | hl
      · exact hf
      · exact hb.faithful leaf hl
    · show keepBest v0 (_ :: rr.leaves).reverse none = _
      rw [List.reverse_cons, keepBest_snoc, hkb]
      have : (pureStore V).value rr.store < rr.bestVal := hlt
      simp only [this, if_true]
      rfl
  · rename_i hlt
    refine ⟨?_, ?_, hb.bestwf⟩
    · intro leaf hl
      rcases List.mem_cons.1 hl with rfl | hl
      · exact hf
      · exact hb.faithful leaf hl
    · show keepBest v0 (_ :: rr.leaves).reverse none = _
      rw [List.reverse_cons, keepBest_snoc, hkb]
      have : ¬ (pureStore V).value rr.store < rr.bestVal := hlt
      simp only [this, if_false]
      rfl

/-! ### list helpers -/

theorem getD_of_some {l : List (List Int)} {j : Nat} {x : List Int} (h : l[j]? = some x) : l.getD j [] = x := by
  simp [List.getD_eq_getElem?_getD, h]

theorem set_of_some {α : Type} {l : List α} {j : Nat} {x : α} (h : l[j]? = some x) : l.set j x = l := by
  apply List.ext_getElem?
  intro i
  rw [List.getElem?_set]
  by_cases hij : j = i
  · subst hij
    obtain ⟨hlt, heq⟩ := List.getElem?_eq_some_iff.1 h
    simp [hlt, heq]
  · simp [hij]

theorem getElem?_set_some {α : Type} {l : List α} {j i : Nat} {a x : α} (h : (l.set j a)[i]? = some x) :
    (i = j ∧ x = a ∧ j < l.length) ∨ (i ≠ j ∧ l[i]? = some x) := by
  rw [List.getElem?_set] at h
  by_cases hij : j = i
  · subst hij
    simp only [if_true] at h
    split at h
    · rename_i hlt
      injection h with h
      exact Or.inl ⟨rfl, h.symm, hlt⟩
    · cases h
  · simp only [hij, if_false] at h
    exact Or.inr ⟨fun e => hij e.symm, h⟩

/-! ### what a call leaves behind -/

/-- regions below `j` are still in the (sorted) order the region choice gave them -/
def SortedBelow (j : Nat) (rr : RowReord PS) : Prop :=
  ∀ (i : Nat) l, i < j → rr.order[i]? = some l → l.Pairwise (· < ·)

/-- relation between the state at a call of `runOrdering(j)` and the state it returns -/
structure PostO (V : Value) (s : State) (v0 : Int) (j : Nat) (rr rr' : RowReord PS) : Prop where
  regions : rr'.regions = rr.regions
  cells : rr'.cells = rr.cells
  order : rr'.order = rr.order
  plen : rr'.positions.length = rr.positions.length
  pos : ∀ i : Nat, j ≤ i → rr'.positions[i]? = rr.positions[i]?
  sy : rr'.store.2 = rr.store.2
  sx : ∀ d, (∀ (i : Nat) l, i < j → rr.order[i]? = some l → d ∉ l) → rr'.store.1 d = rr.store.1 d
  fuel : rr'.fuelOut = rr.fuelOut
  asrt : rr'.assertFail = rr.assertFail
  book : Book V s v0 rr'

theorem PostO.shape {V : Value} {s : State} {v0 : Int} {j : Nat} {rr rr' : RowReord PS} {G : List RRegion} {cs : List Int}
    (h : PostO V s v0 j rr rr') (hs : Shape G cs rr) : Shape G cs rr' :=
  ⟨h.regions.trans hs.regions, h.cells.trans hs.cells, by rw [h.order]; exact hs.olen, h.plen.trans hs.plen⟩

/-- the assignment invariant only depends on the membership of the order lists, on y and on x outside
the registered cells -/
theorem Lists.transfer {s : State} {G : List RRegion} {cs : List Int} {k : Nat} {rr rr' : RowReord PS}
    (h : Lists s G cs k rr)
    (ho : ∀ (i : Nat) l', rr'.order[i]? = some l' → ∃ l, rr.order[i]? = some l ∧ l'.Perm l)
    (ho' : ∀ (i : Nat) l, rr.order[i]? = some l → ∃ l', rr'.order[i]? = some l' ∧ l'.Perm l)
    (hy : ∀ d, d ∈ cs.drop k → rr'.store.2 d = rr.store.2 d)
    (hf : ∀ d, d ∉ cs → rr'.store.1 d = rr.store.1 d ∧ rr'.store.2 d = rr.store.2 d) : Lists s G cs k rr' := by
  refine ⟨?_, ?_, ?_, ?_, ?_, ?_, ?_, ?_⟩
  · intro i l' hl'
    obtain ⟨l, hl, hp⟩ := ho i l' hl'
    exact hp.symm.nodup (h.nodup i l hl)
  · intro i l' hl' c hc
    obtain ⟨l, hl, hp⟩ := ho i l' hl'
    exact h.sub i l hl c (hp.mem_iff.1 hc)
  · intro d hd
    obtain ⟨i, l, hl, hdl⟩ := h.cover d hd
    obtain ⟨l', hl', hp⟩ := ho' i l hl
    exact ⟨i, l', hl', hp.mem_iff.2 hdl⟩
  · intro i i' l1 l2 h1 h2 c hc1 hc2
    obtain ⟨m1, hm1, hp1⟩ := ho i l1 h1
    obtain ⟨m2, hm2, hp2⟩ := ho i' l2 h2
    exact h.disj i i' m1 m2 hm1 hm2 c (hp1.mem_iff.1 hc1) (hp2.mem_iff.1 hc2)
  · intro i l' g hl' hg c hc
    obtain ⟨l, hl, hp⟩ := ho i l' hl'
    have hc' := hp.mem_iff.1 hc
    rw [hy c (h.sub i l hl c hc')]
    exact h.yinv i l g hl hg c hc'
  · intro d hd
    rw [(hf d hd).1, (hf d hd).2]
    exact h.frame d hd
  · intro i l' g hl' hg hne
    obtain ⟨l, hl, hp⟩ := ho i l' hl'
    rw [allocatedWidth_perm s hp]
    exact h.fits i l g hl hg (fun e => hne (by rw [e] at hp; exact hp.eq_nil))
  · intro i l' g hl' hg c hc
    obtain ⟨l, hl, hp⟩ := ho i l' hl'
    exact h.allowed i l g hl hg c (hp.mem_iff.1 hc)

theorem PostO.lists {V : Value} {s : State} {v0 : Int} {j : Nat} {rr rr' : RowReord PS} {G : List RRegion} {cs : List Int}
    (h : PostO V s v0 j rr rr') (hl : Lists s G cs 0 rr) : Lists s G cs 0 rr' := by
  apply hl.transfer
  · intro i l' hl'; rw [h.order] at hl'; exact ⟨l', hl', List.Perm.refl _⟩
  · intro i l hl'; rw [← h.order] at hl'; exact ⟨l, hl', List.Perm.refl _⟩
  · intro d _; rw [h.sy]
  · intro d hd
    refine ⟨h.sx d ?_, by rw [h.sy]⟩
    intro i l _ hil hdl
    exact hd (by simpa using hl.sub i l hil d hdl)

theorem PostO.xinv {V : Value} {s : State} {v0 : Int} {j : Nat} {rr rr' : RowReord PS} {G : List RRegion} {cs : List Int}
    (h : PostO V s v0 j rr rr') (hl : Lists s G cs 0 rr) (hx : XInv s G j rr) : XInv s G j rr' := by
  intro i l g hji hil hg
  rw [h.order] at hil
  obtain ⟨h1, h2⟩ := hx i l g hji hil hg
  refine ⟨by rw [h.pos i hji]; exact h1, ?_⟩
  intro m hm
  rw [h.sx m.1 ?_]
  · exact h2 m hm
  · intro i' l' hi' hil' hml'
    have := hl.disj i i' l l' hil hil' m.1 (zip_packPos_fst s l _ m hm) hml'
    omega

/-! ### the set-up of one region -/

theorem setupRow_lists (V : Value) (s : State) (G : List RRegion) (cs : List Int) (j : Nat) (rr : RowReord PS)
    (l o : List Int) (hl : Lists s G cs 0 rr) (hj : rr.order[j]? = some l) (hp : o.Perm l) :
    Lists s G cs 0 (setupRow (pureStore V) s j o rr) := by
  have hn : o.Nodup := hp.symm.nodup (hl.nodup j l hj)
  have hspec := packStore_spec V s o (rr.regions.getD j default).minPos rr.store hn
  have hjl : j < rr.order.length := (List.getElem?_eq_some_iff.1 hj).1
  apply hl.transfer
  · intro i l' hl'
    have : (rr.order.set j o)[i]? = some l' := hl'
    rcases getElem?_set_some this with ⟨rfl, rfl, _⟩ | ⟨_, h2⟩
    · exact ⟨l, hj, hp⟩
    · exact ⟨l', h2, List.Perm.refl _⟩
  · intro i l1 hl1
    by_cases hij : i = j
    · subst hij
      rw [hj] at hl1; injection hl1 with hl1; subst hl1
      exact ⟨o, by show (rr.order.set i o)[i]? = some o; simp [List.getElem?_set, hjl], hp⟩
    · exact ⟨l1, by show (rr.order.set j o)[i]? = some l1; rw [List.getElem?_set]; simp [Ne.symm hij, hl1], List.Perm.refl _⟩
  · intro d _
    show (packStore (pureStore V) s _ o rr.store).2 d = rr.store.2 d
    rw [hspec.1]
  · intro d hd
    refine ⟨?_, by show (packStore (pureStore V) s _ o rr.store).2 d = rr.store.2 d; rw [hspec.1]⟩
    apply hspec.2.1 d
    intro hdo
    exact hd (by simpa using hl.sub j l hj d (hp.mem_iff.1 hdo))

theorem setupRow_xinv (V : Value) (s : State) (G : List RRegion) (cs : List Int) (j : Nat) (rr : RowReord PS)
    (l o : List Int) (hs : Shape G cs rr) (hl : Lists s G cs 0 rr) (hx : XInv s G (j + 1) rr)
    (hj : rr.order[j]? = some l) (hp : o.Perm l) :
    XInv s G j (setupRow (pureStore V) s j o rr) := by
  have hn : o.Nodup := hp.symm.nodup (hl.nodup j l hj)
  have hspec := packStore_spec V s o (rr.regions.getD j default).minPos rr.store hn
  have hjl : j < rr.order.length := (List.getElem?_eq_some_iff.1 hj).1
  intro i l' g hji hil hg
  have hil' : (rr.order.set j o)[i]? = some l' := hil
  rcases getElem?_set_some hil' with ⟨rfl, rfl, _⟩ | ⟨hne, h2⟩
  · have hgd : rr.regions.getD i default = g := by
      rw [hs.regions]; simp [List.getD_eq_getElem?_getD, hg]
    refine ⟨?_, ?_⟩
    · show (rr.positions.set i _)[i]? = _
      have : i < rr.positions.length := by rw [hs.plen, ← hs.olen]; exact hjl
      rw [hgd]; simp [List.getElem?_set, this]
    · intro m hm
      have := hspec.2.2 m (by rw [hgd]; exact hm)
      exact this
  · have hji' : j + 1 ≤ i := by omega
    obtain ⟨h1, h3⟩ := hx i l' g hji' h2 hg
    refine ⟨?_, ?_⟩
    · show (rr.positions.set j _)[i]? = _
      rw [List.getElem?_set]; simp [Ne.symm hne, h1]
    · intro m hm
      show (packStore (pureStore V) s _ o rr.store).1 m.1 = m.2
      rw [hspec.2.1 m.1 ?_]
      · exact h3 m hm
      · intro hmo
        have := hl.disj i j l' l h2 hj m.1 (zip_packPos_fst s l' _ m hm) (hp.mem_iff.1 hmo)
        exact hne this

/-! ### `runOrdering` -/

/-- invariant of the `while (next_permutation(order_[j]))` loop of a call on `rr` with `order_[j] = l0` -/
structure LoopInv (V : Value) (s : State) (G : List RRegion) (cs : List Int) (v0 : Int) (j : Nat)
    (rr : RowReord PS) (l0 : List Int) (rr1 : RowReord PS) : Prop where
  shape : Shape G cs rr1
  book : Book V s v0 rr1
  lists : Lists s G cs 0 rr1
  xinv : XInv s G (j + 1) rr1
  sorted : SortedBelow j rr1
  perm : (rr1.order.getD j []).Perm l0
  order : rr1.order = rr.order.set j (rr1.order.getD j [])
  pos : ∀ i : Nat, j + 1 ≤ i → rr1.positions[i]? = rr.positions[i]?
  sy : rr1.store.2 = rr.store.2
  sx : ∀ d, (∀ (i : Nat) l, i < j + 1 → rr.order[i]? = some l → d ∉ l) → rr1.store.1 d = rr.store.1 d
  fuel : rr1.fuelOut = rr.fuelOut
  asrt : rr1.assertFail = rr.assertFail

theorem runOrdering_spec (V : Value) (s : State) (G : List RRegion) (cs : List Int) (v0 : Int)
    (hnn : ∀ c ∈ cs, 0 ≤ c) :
    ∀ (j : Nat) (rr : RowReord PS), j ≤ G.length → Shape G cs rr → Lists s G cs 0 rr → XInv s G j rr →
      SortedBelow j rr → Book V s v0 rr → PostO V s v0 j rr (runOrdering (pureStore V) s j rr)
  | 0, rr, _, hs, hl, hx, _, hb => by
    unfold runOrdering
    obtain ⟨f1, f2, f3, f4, f5, f6, f7⟩ := evalLeaf_fields V rr
    exact ⟨f1, f2, f3, by rw [f4], fun i _ => by rw [f4], by rw [f5], fun d _ => by rw [f5], f6, f7,
      evalLeaf_book V s v0 rr hb (leaf_store_eq V s G cs rr hs hl hx)
        (by rw [hs.regions, hs.cells]; exact leaf_wf s G cs rr hs hl hx)⟩
  | j + 1, rr, hj, hs, hl, hx, hso, hb => by
    unfold runOrdering
    have hjl : j < rr.order.length := by rw [hs.olen]; omega
    obtain ⟨l0, hl0⟩ : ∃ l0, rr.order[j]? = some l0 := ⟨rr.order[j], List.getElem?_eq_getElem hjl⟩
    have hgd : rr.order.getD j [] = l0 := getD_of_some hl0
    have hsorted0 : l0.Pairwise (· < ·) := hso j l0 (Nat.lt_succ_self j) hl0
    -- the loop
    have key := permLoop_ind (pureStore V) s (runOrdering (pureStore V) s j) j
      (LoopInv V s G cs v0 j rr l0) (l0.foldl (fun m c => max m c.toNat) 0 + 1) l0.length
      (by
        intro rr1 h1
        refine ⟨h1.perm.length_eq, ?_⟩
        intro c hc
        have hc0 : c ∈ l0 := h1.perm.mem_iff.1 hc
        refine ⟨hnn c (by simpa using hl.sub j l0 hl0 c hc0), permFuel_bound l0 c hc0⟩)
      (by
        intro rr1 h1 hnp
        -- order_[j] of rr1
        have hj1 : j < rr1.order.length := by rw [h1.shape.olen]; omega
        obtain ⟨l1, hl1⟩ : ∃ l1, rr1.order[j]? = some l1 := ⟨rr1.order[j], List.getElem?_eq_getElem hj1⟩
        have hgd1 : rr1.order.getD j [] = l1 := getD_of_some hl1
        rw [hgd1]
        have hpo : (nextPerm l1).2.Perm l1 := nextPerm_perm l1
        -- the state after the set-up
        have hs2 : Shape G cs (setupRow (pureStore V) s j (nextPerm l1).2 rr1) :=
          ⟨h1.shape.regions, h1.shape.cells, by show (rr1.order.set j _).length = _; simp [h1.shape.olen],
           by show (rr1.positions.set j _).length = _; simp [h1.shape.plen]⟩
        have hl2 := setupRow_lists V s G cs j rr1 l1 _ h1.lists hl1 hpo
        have hx2 := setupRow_xinv V s G cs j rr1 l1 _ h1.shape h1.lists h1.xinv hl1 hpo
        have hso2 : SortedBelow j (setupRow (pureStore V) s j (nextPerm l1).2 rr1) := by
          intro i l hi hil
          have : (rr1.order.set j (nextPerm l1).2)[i]? = some l := hil
          rw [List.getElem?_set] at this
          have hne : ¬ j = i := by omega
          simp only [hne, if_false] at this
          exact h1.sorted i l hi this
        have hb2 : Book V s v0 (setupRow (pureStore V) s j (nextPerm l1).2 rr1) := ⟨h1.book.faithful, h1.book.kb, h1.book.bestwf⟩
        have post := runOrdering_spec V s G cs v0 hnn j _ (by omega) hs2 hl2 hx2 hso2 hb2
        have hord3 : (runOrdering (pureStore V) s j (setupRow (pureStore V) s j (nextPerm l1).2 rr1)).order =
            rr1.order.set j (nextPerm l1).2 := post.order
        have hget3 : (runOrdering (pureStore V) s j (setupRow (pureStore V) s j (nextPerm l1).2 rr1)).order.getD j [] =
            (nextPerm l1).2 := by
          rw [hord3]; simp [List.getD_eq_getElem?_getD, List.getElem?_set, hj1]
        have hspec := packStore_spec V s (nextPerm l1).2 (rr1.regions.getD j default).minPos rr1.store
          (hpo.symm.nodup (h1.lists.nodup j l1 hl1))
        refine ⟨⟨post.shape hs2, post.book, post.lists hl2, ?_, ?_, ?_, ?_, ?_, ?_, ?_, ?_, ?_⟩, hget3⟩
        · intro i l g hji hil hg
          exact post.xinv hl2 hx2 i l g (by omega) hil hg
        · intro i l hi hil
          rw [hord3] at hil
          exact hso2 i l hi hil
        · rw [hget3]; exact hpo.trans (hgd1 ▸ h1.perm)
        · rw [hget3, hord3, h1.order, List.set_set]
        · intro i hi
          rw [post.pos i (by omega)]
          show (rr1.positions.set j _)[i]? = _
          rw [List.getElem?_set]
          have hne : ¬ j = i := by omega
          simp only [hne, if_false]
          exact h1.pos i hi
        · rw [post.sy]
          show (packStore (pureStore V) s _ _ rr1.store).2 = _
          rw [hspec.1]; exact h1.sy
        · intro d hd
          rw [post.sx d ?_]
          · show (packStore (pureStore V) s _ _ rr1.store).1 d = _
            rw [hspec.2.1 d ?_]
            · exact h1.sx d hd
            · intro hdo
              have : d ∈ l0 := (hgd1 ▸ h1.perm).mem_iff.1 (hpo.mem_iff.1 hdo)
              exact hd j l0 (Nat.lt_succ_self j) hl0 this
          · intro i l hi hil hdl
            have hil' : (rr1.order.set j (nextPerm l1).2)[i]? = some l := hil
            rw [List.getElem?_set] at hil'
            have hne : ¬ j = i := by omega
            simp only [hne, if_false] at hil'
            rw [h1.order, List.getElem?_set] at hil'
            simp only [hne, if_false] at hil'
            exact hd i l (by omega) hil' hdl
        · rw [post.fuel]; exact h1.fuel
        · rw [post.asrt]; exact h1.asrt)
    -- the loop starts in its invariant
    have hI0 : LoopInv V s G cs v0 j rr l0 rr :=
      ⟨hs, hb, hl, hx, fun i l hi hil => hso i l (by omega) hil, by rw [hgd],
       by rw [hgd, set_of_some hl0], fun _ _ => rfl, rfl, fun _ _ => rfl, rfl, rfl⟩
    obtain ⟨rr1, h1, hfalse, hres⟩ := key (permFuel (rr.order.getD j [])) rr hI0 (by
      rw [hgd]; unfold permFuel; omega)
    rw [hres]
    -- the range is handed back sorted: it is `l0` again
    have hrest : (nextPerm (rr1.order.getD j [])).2 = l0 := nextPerm_false_restores hsorted0 h1.perm hfalse
    have hord : rr1.order.set j (nextPerm (rr1.order.getD j [])).2 = rr.order := by
      rw [hrest, h1.order, List.set_set, set_of_some hl0]
    refine ⟨h1.shape.regions.trans hs.regions.symm, h1.shape.cells.trans hs.cells.symm, hord,
      h1.shape.plen.trans hs.plen.symm, h1.pos, h1.sy, h1.sx, h1.fuel, h1.asrt, ⟨h1.book.faithful, h1.book.kb, h1.book.bestwf⟩⟩

end ColoVerif.DetPlace
