import ColoVerif.Proofs.GridAllocBase
/-
C16, allocation invariant — `updateCellToBin` and the four level-changing operations.
-/
namespace ColoVerif.Grid

theorem mem_cellsAt_range (b : Bins) (i j c : Nat) (hc : c ∈ cellsAt b i j) :
    i < b.length ∧ j < (b.getD i []).length := by
  unfold cellsAt at hc
  by_cases hi : i < b.length
  · refine ⟨hi, ?_⟩
    by_cases hj : j < (b.getD i []).length
    · exact hj
    · have : (b.getD i []).getD j [] = [] := by
        simp only [List.getD_eq_getElem?_getD]
        have : (b[i]?.getD [])[j]? = none := by
          rw [List.getElem?_eq_none_iff]; simp only [List.getD_eq_getElem?_getD] at hj; omega
        simp [this]
      rw [this] at hc; cases hc
  · have : b.getD i [] = [] := by
      simp only [List.getD_eq_getElem?_getD]
      have : b[i]? = none := by rw [List.getElem?_eq_none_iff]; omega
      simp [this]
    rw [this] at hc; simp at hc

theorem AllocInv.in_range {s : HState} (h : AllocInv s) {i j c : Nat} (hc : c ∈ s.cells i j) :
    i < s.nbX ∧ j < s.nbY := by
  have := mem_cellsAt_range s.bins i j c hc
  have hx : i < s.nbX := by rw [← h.shapeX]; exact this.1
  exact ⟨hx, by rw [← h.shapeY i hx]; exact this.2⟩

/-! ### all cells of a table, in loop order -/

def flatOf (nx ny : Nat) (b : Bins) : List Nat :=
  (List.range nx).flatMap fun i => (List.range ny).flatMap fun j => cellsAt b i j

theorem writesOf_fst (nx ny : Nat) (b : Bins) : (writesOf nx ny b).map (fun w => w.1) = flatOf nx ny b := by
  simp [writesOf, flatOf, List.map_flatMap, Function.comp_def]

theorem mem_writesOf (nx ny : Nat) (b : Bins) (c i j : Nat) :
    (c, i, j) ∈ writesOf nx ny b ↔ i < nx ∧ j < ny ∧ c ∈ cellsAt b i j := by
  simp only [writesOf, List.mem_flatMap, List.mem_range, List.mem_map, Prod.mk.injEq]
  constructor
  · rintro ⟨i', hi', j', hj', c', hc', rfl, rfl, rfl⟩
    exact ⟨hi', hj', hc'⟩
  · rintro ⟨hi, hj, hc⟩
    exact ⟨i, hi, j, hj, c, hc, rfl, rfl, rfl⟩

theorem mem_flatOf (nx ny : Nat) (b : Bins) (c : Nat) :
    c ∈ flatOf nx ny b ↔ ∃ i j, i < nx ∧ j < ny ∧ c ∈ cellsAt b i j := by
  simp only [flatOf, List.mem_flatMap, List.mem_range]
  constructor
  · rintro ⟨i, hi, j, hj, hc⟩; exact ⟨i, j, hi, hj, hc⟩
  · rintro ⟨i, j, hi, hj, hc⟩; exact ⟨i, hi, j, hj, hc⟩

theorem nodup_flatOf (nx ny : Nat) (b : Bins) (hnd : ∀ i j, (cellsAt b i j).Nodup)
    (hdis : ∀ i j i' j' c, c ∈ cellsAt b i j → c ∈ cellsAt b i' j' → i = i' ∧ j = j') :
    (flatOf nx ny b).Nodup := by
  unfold flatOf
  rw [List.nodup_flatMap]
  refine ⟨?_, ?_⟩
  · intro i _
    rw [List.nodup_flatMap]
    refine ⟨fun j _ => hnd i j, ?_⟩
    refine List.Pairwise.imp ?_ (List.pairwise_lt_range (n := ny))
    intro j j' hlt
    simp only [Function.onFun]
    intro c hc hc'
    have := (hdis i j i j' c hc hc').2
    omega
  · refine List.Pairwise.imp ?_ (List.pairwise_lt_range (n := nx))
    intro i i' hlt
    simp only [Function.onFun]
    intro c hc hc'
    simp only [List.mem_flatMap] at hc hc'
    obtain ⟨j, _, hj⟩ := hc
    obtain ⟨j', _, hj'⟩ := hc'
    have := (hdis i j i' j' c hj hj').1
    omega

/-! ### `updateCellToBin` -/

theorem updateCellToBin_cb (s : HState) (π : Nat × Nat → Nat)
    (hnd : ∀ i j, (s.cells i j).Nodup)
    (hdis : ∀ i j i' j' c, c ∈ s.cells i j → c ∈ s.cells i' j' → i = i' ∧ j = j')
    (hr : ∀ i j c, c ∈ s.cells i j → i < s.nbX ∧ j < s.nbY ∧ c < s.nbCells) :
    let cb := applyW (List.replicate s.nbCells (-1))
      ((writesOf s.nbX s.nbY s.bins).map fun w => (w.1, ((π w.2 : Nat) : Int)))
    cb.length = s.nbCells ∧
    (∀ i j c, c ∈ s.cells i j → cb.getD c (-1) = ((π (i, j) : Nat) : Int)) ∧
    (∀ c, (∀ i j, c ∉ s.cells i j) → cb.getD c (-1) = -1) := by
  intro cb
  have hkeys : (((writesOf s.nbX s.nbY s.bins).map fun w => (w.1, ((π w.2 : Nat) : Int))).map Prod.fst)
      = flatOf s.nbX s.nbY s.bins := by
    rw [List.map_map]; exact writesOf_fst _ _ _
  have hnodup : (((writesOf s.nbX s.nbY s.bins).map fun w => (w.1, ((π w.2 : Nat) : Int))).map Prod.fst).Nodup := by
    rw [hkeys]; exact nodup_flatOf _ _ _ hnd hdis
  have hin : ∀ w ∈ ((writesOf s.nbX s.nbY s.bins).map fun w => (w.1, ((π w.2 : Nat) : Int))),
      w.1 < (List.replicate s.nbCells (-1 : Int)).length := by
    intro w hw
    simp only [List.mem_map] at hw
    obtain ⟨⟨c, i, j⟩, hmem, rfl⟩ := hw
    have := (mem_writesOf _ _ _ c i j).mp hmem
    simp only [List.length_replicate]
    exact (hr i j c this.2.2).2.2
  obtain ⟨h1, h2⟩ := applyW_spec _ _ hnodup hin (-1)
  refine ⟨by simp [cb, applyW_length], ?_, ?_⟩
  · intro i j c hc
    have hrr := hr i j c hc
    have hmem : (c, i, j) ∈ writesOf s.nbX s.nbY s.bins := (mem_writesOf _ _ _ c i j).mpr ⟨hrr.1, hrr.2.1, hc⟩
    have := h1 (c, ((π (i, j) : Nat) : Int)) (List.mem_map.mpr ⟨(c, i, j), hmem, rfl⟩)
    exact this
  · intro c hc
    have hnot : c ∉ (((writesOf s.nbX s.nbY s.bins).map fun w => (w.1, ((π w.2 : Nat) : Int))).map Prod.fst) := by
      rw [hkeys, mem_flatOf]
      rintro ⟨i, j, _, _, hmem⟩
      exact hc i j hmem
    rw [show cb.getD c (-1) = _ from h2 c hnot]
    simp only [List.getD_eq_getElem?_getD, List.getElem?_replicate]
    split <;> rfl

/-- A state whose table is given by a function with the pointwise properties satisfies the invariant
after `updateCellToBin`. -/
theorem allocInv_updateCellToBin (s : HState) (f : Nat → Nat → List Nat)
    (hbins : s.bins = tab s.nbX s.nbY f)
    (hlx : s.levelX < s.hx.nbLevels) (hly : s.levelY < s.hy.nbLevels)
    (hnd : ∀ i j, i < s.nbX → j < s.nbY → (f i j).Nodup)
    (hdis : ∀ i j i' j' c, i < s.nbX → j < s.nbY → i' < s.nbX → j' < s.nbY →
      c ∈ f i j → c ∈ f i' j' → i = i' ∧ j = j')
    (hcov : ∀ c, (c < s.nbCells ∧ s.cellDemand c > 0) ↔ ∃ i j, i < s.nbX ∧ j < s.nbY ∧ c ∈ f i j) :
    AllocInv s.updateCellToBin := by
  have hcells : ∀ i j, s.cells i j = if i < s.nbX ∧ j < s.nbY then f i j else [] := by
    intro i j; unfold HState.cells; rw [hbins]; exact cellsAt_tab _ _ _ _ _
  have hmem : ∀ i j c, c ∈ s.cells i j ↔ i < s.nbX ∧ j < s.nbY ∧ c ∈ f i j := by
    intro i j c
    rw [hcells]
    by_cases h : i < s.nbX ∧ j < s.nbY
    · simp [h]
    · simp only [h, if_false]
      constructor
      · intro hc; cases hc
      · rintro ⟨h1, h2, _⟩; exact (h ⟨h1, h2⟩).elim
  have hnd' : ∀ i j, (s.cells i j).Nodup := by
    intro i j
    rw [hcells]
    by_cases h : i < s.nbX ∧ j < s.nbY
    · simp only [h, and_self, if_true]; exact hnd i j h.1 h.2
    · simp [h]
  have hdis' : ∀ i j i' j' c, c ∈ s.cells i j → c ∈ s.cells i' j' → i = i' ∧ j = j' := by
    intro i j i' j' c hc hc'
    obtain ⟨h1, h2, h3⟩ := (hmem i j c).mp hc
    obtain ⟨h1', h2', h3'⟩ := (hmem i' j' c).mp hc'
    exact hdis i j i' j' c h1 h2 h1' h2' h3 h3'
  have hr : ∀ i j c, c ∈ s.cells i j → i < s.nbX ∧ j < s.nbY ∧ c < s.nbCells := by
    intro i j c hc
    obtain ⟨h1, h2, h3⟩ := (hmem i j c).mp hc
    exact ⟨h1, h2, ((hcov c).mpr ⟨i, j, h1, h2, h3⟩).1⟩
  obtain ⟨hxl, hxa, hxn⟩ := updateCellToBin_cb s (fun p => p.1) hnd' hdis' hr
  obtain ⟨hyl, hya, hyn⟩ := updateCellToBin_cb s (fun p => p.2) hnd' hdis' hr
  exact {
    shapeX := by show s.bins.length = s.nbX; rw [hbins]; exact tab_length _ _ _
    shapeY := by
      intro i hi
      show (s.bins.getD i []).length = s.nbY
      rw [hbins]; exact tab_col_length _ _ _ i hi
    lvlX := hlx
    lvlY := hly
    nodup := hnd'
    disjoint := hdis'
    covers := by
      intro c
      show (c < s.nbCells ∧ s.cellDemand c > 0) ↔ ∃ i j, c ∈ s.cells i j
      rw [hcov c]
      constructor
      · rintro ⟨i, j, h1, h2, h3⟩; exact ⟨i, j, (hmem i j c).mpr ⟨h1, h2, h3⟩⟩
      · rintro ⟨i, j, h⟩; exact ⟨i, j, (hmem i j c).mp h⟩
    cbLen := ⟨hxl, hyl⟩
    agree := fun i j c hc => ⟨hxa i j c hc, hya i j c hc⟩
    none := fun c hc => ⟨hxn c hc, hyn c hc⟩ }

end ColoVerif.Grid
