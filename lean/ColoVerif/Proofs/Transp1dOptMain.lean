import ColoVerif.Proofs.Transp1dOptSweep
import ColoVerif.Proofs.Transp1dOptDual
import ColoVerif.Proofs.Transp1dOptBack
/-
Universal optimality of `Transportation1d::solve` (C14): the sweep's positions satisfy the
optimality conditions `Kkt` (`run_kkt`), these yield sink prices forming a dual certificate on the
sorted instance (`kkt_glob`), which transfers to `certOk` on the original problem
(`solve_optimal_of_glob`).  The exactly balanced case is `solve_optimal_balanced`.
-/
namespace ColoVerif.Transp1d

theorem sortedSolver_swDom (pb : Problem) (hv : checkOk pb = true) : SwDom (sortedSolver pb) :=
  ⟨sortedSolver_dom pb hv, sortedSolver_inst pb, sortedSolver_spos pb, sortedSolver_dpos pb⟩

/-- strict slack carries over to the sorted, zero-free instance -/
theorem sortedSolver_strict_slack (pb : Problem) (hv : checkOk pb = true) (hsl : pb.s.sum < pb.d.sum) :
    (sortedSolver pb).S.getD (sortedSolver pb).u.length 0
      < (sortedSolver pb).D.getD (sortedSolver pb).v.length 0 := by
  obtain ⟨hs, hd, hsn, hdn, hle⟩ := (checkOk_iff pb).mp hv
  have wf := sortedSolver_wf pb
  have h2 : (sortedSolver pb).s.sum = pb.s.sum := sum_ord pb.u pb.s hs hsn
  have h3 : (sortedSolver pb).d.sum = pb.d.sum := sum_ord pb.v pb.d hd hdn
  have eD : (sortedSolver pb).D = prefixFrom 0 (sortedSolver pb).d := rfl
  have eS : (sortedSolver pb).S = prefixFrom 0 (sortedSolver pb).s := rfl
  rw [← wf.hd, ← wf.hs, eD, eS, prefixFrom_last, prefixFrom_last]
  omega

/-- with strict slack the positions returned by `run` on the sorted instance admit a dual certificate -/
theorem run_glob (pb : Problem) (hv : checkOk pb = true) (hsl : pb.s.sum < pb.d.sum) (p : List Int)
    (e : run (sortedSolver pb) = .ok p) : ∃ be : Nat → Int, GlobCert (sortedSolver pb) p be := by
  have sd := sortedSolver_swDom pb hv
  have hslack := sortedSolver_strict_slack pb hv hsl
  have hm : 0 < (sortedSolver pb).v.length := by
    by_cases h0 : (sortedSolver pb).v.length = 0
    · have hD0 : (sortedSolver pb).D.getD 0 0 = 0 := by rw [sd.si.eD]; exact prefixFrom_zero 0 _
      have hS0 : (sortedSolver pb).S.getD 0 0 = 0 := by rw [sd.si.eS]; exact prefixFrom_zero 0 _
      have := sd.dom.Smono 0 (sortedSolver pb).u.length (Nat.zero_le _) (Nat.le_refl _)
      rw [h0] at hslack
      omega
    · omega
  obtain ⟨dom, kkt⟩ := run_kkt (sortedSolver pb) sd hm hslack p e
  exact kkt_glob (sortedSolver pb) p dom kkt

/-- `solve` returns a plan of minimum cost when total supply < total demand -/
theorem solve_optimal_slack (pb : Problem) (hv : checkOk pb = true) (hsl : pb.s.sum < pb.d.sum) :
    ∃ plan, solve pb = .ok plan ∧ validPlan pb plan = true ∧
      ∀ plan', validPlan pb plan' = true → planCost pb plan ≤ planCost pb plan' :=
  solve_optimal_of_glob pb hv (fun p e => run_glob pb hv hsl p e)

/-- the certificate itself exists for every input with slack -/
theorem solve_cert_slack (pb : Problem) (hv : checkOk pb = true) (hsl : pb.s.sum < pb.d.sum) :
    ∃ plan al be, solve pb = .ok plan ∧ certOk pb plan al be = true :=
  solve_cert_of_glob pb hv (fun p e => run_glob pb hv hsl p e)

/-- universal optimality of `solve` on its whole domain -/
theorem solve_optimal (pb : Problem) (hv : checkOk pb = true) :
    ∃ plan, solve pb = .ok plan ∧ validPlan pb plan = true ∧
      ∀ plan', validPlan pb plan' = true → planCost pb plan ≤ planCost pb plan' := by
  obtain ⟨_, _, _, _, hle⟩ := (checkOk_iff pb).mp hv
  by_cases hbal : pb.s.sum = pb.d.sum
  · exact solve_optimal_balanced pb hv hbal
  · exact solve_optimal_slack pb hv (by omega)

theorem solve_cert (pb : Problem) (hv : checkOk pb = true) :
    ∃ plan al be, solve pb = .ok plan ∧ certOk pb plan al be = true := by
  obtain ⟨_, _, _, _, hle⟩ := (checkOk_iff pb).mp hv
  by_cases hbal : pb.s.sum = pb.d.sum
  · exact solve_cert_balanced pb hv hbal
  · exact solve_cert_slack pb hv (by omega)

end ColoVerif.Transp1d
