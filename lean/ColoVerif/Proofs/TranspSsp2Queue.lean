/-
C13, lazy priority-queue invariant of the successive-shortest-path solver.

For a full sink `i` and every other sink `d`, `queues_[i][d]` is a min-heap whose elements are
`(movingCost(src, i, d), src)`, containing every source with a non-zero allocation in `i`, and whose
top (if any) has a non-zero allocation.  Maintained by `initQueues`, `updateDestQueues` (push) and
`updateSinkQueues` (pop while the top is stale).
-/
import ColoVerif.Proofs.TranspSsp2Nonneg
import ColoVerif.Proofs.TranspSsp2Heap
import Mathlib.Tactic.Linarith

namespace ColoVerif.Transp

/-! ### exact pointwise behaviour of `qset` -/

lemma qset_size (qs : Queues) (a b : Nat) (h : Heap) : (qset qs a b h).size = qs.size := by
  unfold qset; simp

lemma qset_row_size (qs : Queues) (a b : Nat) (h : Heap) (a' : Nat) :
    ((qset qs a b h).getD a' #[]).size = (qs.getD a' #[]).size := by
  by_cases e : a' = a
  · subst e
    unfold qset
    simp only [Array.getD_eq_getD_getElem?, Array.getElem?_setIfInBounds]
    by_cases ha : a' < qs.size
    · simp [ha]
    · simp [ha]
  · rw [qset_row_ne _ _ _ _ _ e]

lemma qget_qset_eq (qs : Queues) (a b : Nat) (h : Heap) (b' : Nat) :
    qget (qset qs a b h) a b' =
      if b' = b ∧ a < qs.size ∧ b < (qs.getD a #[]).size then h else qget qs a b' := by
  unfold qget qset
  simp only [Array.getD_eq_getD_getElem?, Array.getElem?_setIfInBounds]
  by_cases ha : a < qs.size
  · simp only [ha, if_true, Option.getD_some, true_and]
    by_cases e : b = b'
    · subst e
      by_cases hb : b < (qs[a]?.getD #[]).size
      · simp [hb]
      · simp [hb]
    · have e' : ¬ b' = b := fun hh => e hh.symm
      simp [e, e']
  · simp [ha]

/-- the shape of the loops `for dst: if dst != sink: queues_[sink][dst] = g(dst, queues_[sink][dst])` -/
def qmapRow (n sink : Nat) (g : Nat → Heap → Heap) (qs : Queues) : Queues :=
  (List.range n).foldl (fun qs d => if d == sink then qs else qset qs sink d (g d (qget qs sink d))) qs

lemma qmapRow_spec (sink : Nat) (g : Nat → Heap → Heap) : ∀ (n : Nat) (qs : Queues),
    (qmapRow n sink g qs).size = qs.size ∧
    (∀ a, ((qmapRow n sink g qs).getD a #[]).size = (qs.getD a #[]).size) ∧
    (∀ a, a ≠ sink → (qmapRow n sink g qs).getD a #[] = qs.getD a #[]) ∧
    (∀ d, qget (qmapRow n sink g qs) sink d =
      if d < n ∧ d ≠ sink ∧ sink < qs.size ∧ d < (qs.getD sink #[]).size then g d (qget qs sink d)
      else qget qs sink d) := by
  intro n
  induction n with
  | zero => intro qs; simp [qmapRow]
  | succ n ih =>
    intro qs
    obtain ⟨h1, h2, h3, h4⟩ := ih qs
    have e : qmapRow (n + 1) sink g qs =
        (if n == sink then qmapRow n sink g qs
         else qset (qmapRow n sink g qs) sink n (g n (qget (qmapRow n sink g qs) sink n))) := by
      unfold qmapRow
      rw [List.range_succ, List.foldl_append]
      rfl
    rw [e]
    by_cases hn : n = sink
    · subst hn
      simp only [beq_self_eq_true, if_true]
      refine ⟨h1, h2, h3, fun d => ?_⟩
      rw [h4 d]
      by_cases hd : d = n
      · subst hd; simp
      · have : (d < n + 1) = (d < n) := by simp; omega
        simp only [this]
    · have hn' : (n == sink) = false := by simp [hn]
      simp only [hn', Bool.false_eq_true, if_false]
      refine ⟨by rw [qset_size, h1], fun a => by rw [qset_row_size, h2], fun a ha => ?_, fun d => ?_⟩
      · rw [qset_row_ne _ _ _ _ _ ha]; exact h3 a ha
      · rw [qget_qset_eq, h1, h2 sink, h4 d, h4 n]
        by_cases hd : d = n
        · subst hd
          have : ¬ d < d := by omega
          simp only [this, false_and, if_false, true_and]
          by_cases hb : sink < qs.size ∧ d < (qs.getD sink #[]).size
          · simp [hb, hn]
          · rw [if_neg hb]
            have : ¬ (d < d + 1 ∧ d ≠ sink ∧ sink < qs.size ∧ d < (qs.getD sink #[]).size) :=
              fun hh => hb ⟨hh.2.2.1, hh.2.2.2⟩
            rw [if_neg this]
        · have h5 : ¬ (d = n ∧ sink < qs.size ∧ n < (qs.getD sink #[]).size) := fun hh => hd hh.1
          rw [if_neg h5]
          have : (d < n + 1) = (d < n) := by simp; omega
          simp only [this]

/-- the same loop with the `assert(!queues_[sink][dst].empty())` of `updateDestQueues` -/
lemma foldlM_qset_ok (sink : Nat) (g : Nat → Heap → Heap) (msg : String) : ∀ (n : Nat) (qs : Queues),
    (∀ d, d < n → d ≠ sink → (qget qs sink d).size ≠ 0) →
    (List.range n).foldlM (fun qs dst =>
        if dst == sink then (pure qs : Except String Queues)
        else if (qget qs sink dst).size == 0 then Except.error msg
        else pure (qset qs sink dst (g dst (qget qs sink dst)))) qs
      = .ok (qmapRow n sink g qs) := by
  intro n
  induction n with
  | zero => intro qs _; rfl
  | succ n ih =>
    intro qs hne
    rw [List.range_succ, List.foldlM_append, ih qs (fun d hd => hne d (by omega))]
    have e : qmapRow (n + 1) sink g qs =
        (if n == sink then qmapRow n sink g qs
         else qset (qmapRow n sink g qs) sink n (g n (qget (qmapRow n sink g qs) sink n))) := by
      unfold qmapRow
      rw [List.range_succ, List.foldl_append]
      rfl
    rw [e]
    simp only [bind, Except.bind, List.foldlM_cons, List.foldlM_nil]
    by_cases hn : n = sink
    · subst hn
      simp [pure, Except.pure]
    · have hn' : (n == sink) = false := by simp [hn]
      simp only [hn', Bool.false_eq_true, if_false]
      obtain ⟨_, _, _, h4⟩ := qmapRow_spec sink g n qs
      have : qget (qmapRow n sink g qs) sink n = qget qs sink n := by
        rw [h4 n]; simp
      rw [this]
      have hs := hne n (by omega) hn
      have : ((qget qs sink n).size == 0) = false := by simp [hs]
      simp [this, pure, Except.pure]

/-! ### the queue invariant -/

/-- invariant without the "top is live" clause (what holds between `emplace` and `pop`) -/
structure QPre (p : Problem) (alloc : Mat) (i d : Nat) (H : Heap) : Prop where
  heap : IsHeap H
  cost : ∀ e, e ∈ H.toList → e.elt < p.nbSources ∧ e.cost = p.movingCost e.elt i d
  mem : ∀ j, j < p.nbSources → get2 alloc i j ≠ 0 → ∃ e, e ∈ H.toList ∧ e.elt = j

structure QInv (p : Problem) (alloc : Mat) (i d : Nat) (H : Heap) : Prop extends QPre p alloc i d H where
  top : 0 < H.size → get2 alloc i (hget H 0).elt ≠ 0

/-- all queues of the (full) sink `i` -/
def QRow (p : Problem) (alloc : Mat) (qs : Queues) (i : Nat) : Prop :=
  (qs.getD i #[]).size = p.nbSinks ∧ ∀ d, d < p.nbSinks → d ≠ i → QInv p alloc i d (qget qs i d)

lemma hget_mem (H : Heap) (k : Nat) (h : k < H.size) : hget H k ∈ H.toList := by
  unfold hget
  rw [Array.getD_eq_getD_getElem?]
  simp [h]

lemma QPre.congr {p : Problem} {alloc alloc' : Mat} {i d : Nat} {H : Heap} (h : QPre p alloc i d H)
    (e : ∀ j, get2 alloc' i j ≠ 0 → get2 alloc i j ≠ 0) : QPre p alloc' i d H :=
  ⟨h.heap, h.cost, fun j hj hne => h.mem j hj (e j hne)⟩

lemma QRow.congr {p : Problem} {alloc alloc' : Mat} {qs qs' : Queues} {i : Nat} (h : QRow p alloc qs i)
    (ea : alloc'.getD i [] = alloc.getD i []) (eq : qs'.getD i #[] = qs.getD i #[]) : QRow p alloc' qs' i := by
  obtain ⟨h1, h2⟩ := h
  refine ⟨by rw [eq]; exact h1, fun d hd hne => ?_⟩
  have hq := h2 d hd hne
  rw [qget_row qs' qs i d eq]
  have eg : ∀ j, get2 alloc' i j = get2 alloc i j := fun j => get2_row _ _ _ _ ea
  exact ⟨⟨hq.heap, hq.cost, fun j hj hne => hq.mem j hj (by rw [← eg]; exact hne)⟩,
    fun hs => by rw [eg]; exact hq.top hs⟩

/-- a non-empty queue whenever the row holds something -/
lemma QPre.nonempty {p : Problem} {alloc : Mat} {i d : Nat} {H : Heap} (h : QPre p alloc i d H)
    (j : Nat) (hj : j < p.nbSources) (hne : get2 alloc i j ≠ 0) : 0 < H.size := by
  obtain ⟨e, he, _⟩ := h.mem j hj hne
  have : 0 < H.toList.length := List.length_pos_of_mem he
  simpa using this

/-! ### `updateSinkQueues`: pop while the top is stale -/

lemma popZeros_spec (p : Problem) (alloc : Mat) (i d : Nat) : ∀ (fuel : Nat) (H : Heap),
    H.size < fuel → QPre p alloc i d H → QInv p alloc i d (popZeros alloc i fuel H) := by
  intro fuel
  induction fuel with
  | zero => intro H hf; omega
  | succ fuel ih =>
    intro H hf hq
    unfold popZeros
    split
    · rename_i hs
      have : H.size = 0 := by simpa using hs
      exact ⟨hq, fun h => by omega⟩
    · rename_i hs
      have hpos : 0 < H.size := by
        have : ¬ H.size = 0 := by simpa using hs
        omega
      split
      · rename_i hnz
        exact ⟨hq, fun _ => by simpa using hnz⟩
      · rename_i hz
        have hz' : get2 alloc i (hget H 0).elt = 0 := by simpa using hz
        have hperm := heapPop_perm H hpos
        refine ih (heapPop H) (by rw [heapPop_size]; omega) ⟨heapPop_isHeap H hq.heap, ?_, ?_⟩
        · intro e he
          exact hq.cost e (hperm.subset (List.mem_cons_of_mem _ he))
        · intro j hj hne
          obtain ⟨e, he, hej⟩ := hq.mem j hj hne
          have := hperm.symm.subset he
          rcases List.mem_cons.mp this with h0 | h1
          · subst h0; rw [hej] at hz'; exact absurd hz' hne
          · exact ⟨e, h1, hej⟩

/-- `updateSinkQueues` as a `qmapRow` -/
lemma updateSinkQueues_eq (p : Problem) (alloc : Mat) (qs : Queues) (sink src : Nat) :
    updateSinkQueues p alloc qs sink src =
      if get2 alloc sink src != 0 then qs
      else qmapRow p.nbSinks sink (fun _ h => popZeros alloc sink (h.size + 1) h) qs := rfl

/-- `updateDestQueues` as a `qmapRow` (when its assertion holds) -/
lemma updateDestQueues_eq (p : Problem) (alloc : Mat) (qs : Queues) (sink src : Nat)
    (hne : ∀ d, d < p.nbSinks → d ≠ sink → (qget qs sink d).size ≠ 0) :
    updateDestQueues p alloc qs sink src = .ok
      (if get2 alloc sink src != 0 then qs
       else qmapRow p.nbSinks sink (fun d h => heapPush h ⟨p.movingCost src sink d, src⟩) qs) := by
  unfold updateDestQueues
  split
  · rfl
  · exact foldlM_qset_ok sink (fun d h => heapPush h ⟨p.movingCost src sink d, src⟩) _ p.nbSinks qs hne

/-! ### `initQueues` -/

lemma initQueues_row (p : Problem) (alloc : Mat) (qs : Queues) (root : Nat) (hr : root < qs.size) :
    QRow p alloc (qs.setIfInBounds root (initQueues p alloc root)) root := by
  have hrow : (qs.setIfInBounds root (initQueues p alloc root)).getD root #[] = initQueues p alloc root := by
    simp [Array.getD_eq_getD_getElem?, hr]
  refine ⟨by rw [hrow]; simp [initQueues], fun d hd hne => ?_⟩
  have hq : qget (qs.setIfInBounds root (initQueues p alloc root)) root d =
      makeHeap (((List.range p.nbSources).filter (fun src => get2 alloc root src != 0)).map
        (fun src => CostElt.mk (p.movingCost src root d) src)).toArray := by
    unfold qget
    rw [hrow]
    have hne' : ¬ root = d := fun e => hne e.symm
    simp [initQueues, Array.getD_eq_getD_getElem?, hd, hne']
  rw [hq]
  have hperm := makeHeap_perm (((List.range p.nbSources).filter (fun src => get2 alloc root src != 0)).map
        (fun src => CostElt.mk (p.movingCost src root d) src)).toArray
  have hmem : ∀ e, e ∈ (makeHeap (((List.range p.nbSources).filter (fun src => get2 alloc root src != 0)).map
        (fun src => CostElt.mk (p.movingCost src root d) src)).toArray).toList ↔
      ∃ src, src < p.nbSources ∧ get2 alloc root src ≠ 0 ∧ e = ⟨p.movingCost src root d, src⟩ := by
    intro e
    rw [hperm.mem_iff]
    simp only [List.mem_map, List.mem_filter, List.mem_range, bne_iff_ne, ne_eq]
    constructor
    · rintro ⟨src, ⟨h1, h2⟩, h3⟩; exact ⟨src, h1, h2, h3.symm⟩
    · rintro ⟨src, h1, h2, h3⟩; exact ⟨src, ⟨h1, h2⟩, h3.symm⟩
  refine ⟨⟨makeHeap_isHeap _, fun e he => ?_, fun j hj hnz => ?_⟩, fun hs => ?_⟩
  · obtain ⟨src, h1, _, h3⟩ := (hmem e).mp he
    subst h3; exact ⟨h1, rfl⟩
  · exact ⟨⟨p.movingCost j root d, j⟩, (hmem _).mpr ⟨j, hj, hnz, rfl⟩, rfl⟩
  · obtain ⟨src, _, h2, h3⟩ := (hmem _).mp (hget_mem _ 0 hs)
    rw [h3]; exact h2

end ColoVerif.Transp

namespace ColoVerif.Transp

/-! ### the two stages of one round of the second walk -/

lemma sumTo_pos_exists (n : Nat) (f : Nat → Int) (h : 0 < sumTo n f) : ∃ j, j < n ∧ 0 < f j := by
  induction n with
  | zero => simp at h
  | succ n ih =>
    simp only [sumTo_succ] at h
    by_cases h0 : 0 < f n
    · exact ⟨n, by omega, h0⟩
    · obtain ⟨j, hj, hf⟩ := ih (by omega)
      exact ⟨j, by omega, hf⟩

lemma get2_add2_row (a : Mat) (i j : Nat) (d : Int) (h : j < (a.getD i []).length) (j' : Nat) :
    get2 (add2 a i j d) i j' = get2 a i j' + (if j' = j then d else 0) := by
  rw [get2_add2 a i j d h]; simp

/-- push stage: `updateDestQueues(snk1, sentSrc); allocations_[snk1][sentSrc] += m` -/
lemma pushStage (p : Problem) (m : Int) (alloc : Mat) (qs : Queues) (snk1 sentSrc : Nat)
    (hs : sentSrc < p.nbSources) (hlen : (alloc.getD snk1 []).length = p.nbSources)
    (hqs : snk1 < qs.size) (hrow : QRow p alloc qs snk1) (hnn : ∀ j, 0 ≤ get2 alloc snk1 j) (hm : 0 < m)
    (hne : ∀ d, d < p.nbSinks → d ≠ snk1 → 0 < (qget qs snk1 d).size) :
    ∃ qs1, updateDestQueues p alloc qs snk1 sentSrc = .ok qs1 ∧ qs1.size = qs.size ∧
      QRow p (add2 alloc snk1 sentSrc m) qs1 snk1 ∧
      ∀ d, d < p.nbSinks → d ≠ snk1 →
        0 < (qget qs1 snk1 d).size ∧
        ((hget (qget qs1 snk1 d) 0).elt = sentSrc ∨ hget (qget qs1 snk1 d) 0 = hget (qget qs snk1 d) 0) ∧
        (hget (qget qs1 snk1 d) 0).cost ≤ (hget (qget qs snk1 d) 0).cost := by
  have hl : sentSrc < (alloc.getD snk1 []).length := by omega
  have ha1 : ∀ j, get2 (add2 alloc snk1 sentSrc m) snk1 j = get2 alloc snk1 j + (if j = sentSrc then m else 0) :=
    get2_add2_row alloc snk1 sentSrc m hl
  refine ⟨_, updateDestQueues_eq p alloc qs snk1 sentSrc (fun d hd hd' => by have := hne d hd hd'; omega), ?_⟩
  obtain ⟨hrs, hq⟩ := hrow
  by_cases hz : get2 alloc snk1 sentSrc = 0
  · -- pushed
    have hc : (get2 alloc snk1 sentSrc != 0) = false := by simp [hz]
    simp only [hc, Bool.false_eq_true, if_false]
    obtain ⟨g1, g2, _, g4⟩ := qmapRow_spec snk1 (fun d h => heapPush h ⟨p.movingCost sentSrc snk1 d, sentSrc⟩) p.nbSinks qs
    have hgq : ∀ d, d < p.nbSinks → d ≠ snk1 →
        qget (qmapRow p.nbSinks snk1 (fun d h => heapPush h ⟨p.movingCost sentSrc snk1 d, sentSrc⟩) qs) snk1 d
          = heapPush (qget qs snk1 d) ⟨p.movingCost sentSrc snk1 d, sentSrc⟩ := by
      intro d hd hd'
      rw [g4 d, if_pos ⟨hd, hd', hqs, by rw [hrs]; exact hd⟩]
    refine ⟨g1, ⟨by rw [g2, hrs], fun d hd hd' => ?_⟩, fun d hd hd' => ?_⟩
    · rw [hgq d hd hd']
      have hqd := hq d hd hd'
      have hperm := heapPush_perm (qget qs snk1 d) ⟨p.movingCost sentSrc snk1 d, sentSrc⟩
      refine ⟨⟨heapPush_isHeap _ _ hqd.heap, fun e he => ?_, fun j hj hnz => ?_⟩, fun _ => ?_⟩
      · rcases List.mem_cons.mp (hperm.subset he) with h0 | h0
        · subst h0; exact ⟨hs, rfl⟩
        · exact hqd.cost e h0
      · by_cases ej : j = sentSrc
        · exact ⟨_, hperm.symm.subset (List.mem_cons_self), ej.symm⟩
        · rw [ha1, if_neg ej] at hnz
          obtain ⟨e, he, hej⟩ := hqd.mem j hj (by omega)
          exact ⟨e, hperm.symm.subset (List.mem_cons_of_mem _ he), hej⟩
      · rcases heapPush_top (qget qs snk1 d) ⟨p.movingCost sentSrc snk1 d, sentSrc⟩ with ⟨h0, e⟩ | e
        · rw [e, ha1]
          have := hqd.top h0
          have := hnn (hget (qget qs snk1 d) 0).elt
          split <;> omega
        · rw [e, ha1]; simp only [if_true]; omega
    · rw [hgq d hd hd']
      have hqd := hq d hd hd'
      have hperm := heapPush_perm (qget qs snk1 d) ⟨p.movingCost sentSrc snk1 d, sentSrc⟩
      refine ⟨by rw [heapPush_size]; omega, ?_, ?_⟩
      · rcases heapPush_top (qget qs snk1 d) ⟨p.movingCost sentSrc snk1 d, sentSrc⟩ with ⟨_, e⟩ | e
        · right; exact e
        · left; rw [e]
      · exact isHeap_top_le _ (heapPush_isHeap _ _ hqd.heap) _
          (hperm.symm.subset (List.mem_cons_of_mem _ (hget_mem _ 0 (hne d hd hd'))))
  · -- not pushed
    have hc : (get2 alloc snk1 sentSrc != 0) = true := by simp [hz]
    simp only [hc, if_true]
    refine ⟨trivial, ⟨hrs, fun d hd hd' => ?_⟩, fun d hd hd' => ⟨hne d hd hd', Or.inr trivial, le_refl _⟩⟩
    have hqd := hq d hd hd'
    refine ⟨⟨hqd.heap, hqd.cost, fun j hj hnz => hqd.mem j hj ?_⟩, fun h0 => ?_⟩
    · rw [ha1] at hnz
      by_cases ej : j = sentSrc
      · rw [ej]; exact hz
      · rw [if_neg ej] at hnz; omega
    · rw [ha1]
      have := hqd.top h0
      have := hnn (hget (qget qs snk1 d) 0).elt
      split <;> omega

/-- pop stage: `allocations_[snk1][newSrc] -= m; updateSinkQueues(snk1, newSrc)` -/
lemma popStage (p : Problem) (m : Int) (a1 : Mat) (qs1 : Queues) (snk1 newSrc : Nat)
    (hl : newSrc < (a1.getD snk1 []).length)
    (hqs : snk1 < qs1.size) (hrow : QRow p a1 qs1 snk1) (hnz : get2 a1 snk1 newSrc ≠ 0) :
    (updateSinkQueues p (add2 a1 snk1 newSrc (-m)) qs1 snk1 newSrc).size = qs1.size ∧
    QRow p (add2 a1 snk1 newSrc (-m)) (updateSinkQueues p (add2 a1 snk1 newSrc (-m)) qs1 snk1 newSrc) snk1 := by
  have ha2 : ∀ j, get2 (add2 a1 snk1 newSrc (-m)) snk1 j = get2 a1 snk1 j + (if j = newSrc then -m else 0) :=
    get2_add2_row a1 snk1 newSrc (-m) hl
  obtain ⟨hrs, hq⟩ := hrow
  have hpre : ∀ d, d < p.nbSinks → d ≠ snk1 → QPre p (add2 a1 snk1 newSrc (-m)) snk1 d (qget qs1 snk1 d) := by
    intro d hd hd'
    refine (hq d hd hd').toQPre.congr (fun j hj => ?_)
    by_cases ej : j = newSrc
    · rw [ej]; exact hnz
    · rw [ha2, if_neg ej] at hj; omega
  rw [updateSinkQueues_eq]
  by_cases hz : get2 (add2 a1 snk1 newSrc (-m)) snk1 newSrc = 0
  · have hc : (get2 (add2 a1 snk1 newSrc (-m)) snk1 newSrc != 0) = false := by simp [hz]
    simp only [hc, Bool.false_eq_true, if_false]
    obtain ⟨g1, g2, _, g4⟩ := qmapRow_spec snk1
      (fun _ h => popZeros (add2 a1 snk1 newSrc (-m)) snk1 (h.size + 1) h) p.nbSinks qs1
    refine ⟨g1, by rw [g2, hrs], fun d hd hd' => ?_⟩
    rw [g4 d, if_pos ⟨hd, hd', hqs, by rw [hrs]; exact hd⟩]
    exact popZeros_spec p _ snk1 d _ _ (by omega) (hpre d hd hd')
  · have hc : (get2 (add2 a1 snk1 newSrc (-m)) snk1 newSrc != 0) = true := by simp [hz]
    simp only [hc, if_true]
    refine ⟨trivial, hrs, fun d hd hd' => ⟨hpre d hd hd', fun h0 => ?_⟩⟩
    have := (hq d hd hd').top h0
    by_cases ej : (hget (qget qs1 snk1 d) 0).elt = newSrc
    · rw [ej]; exact hz
    · rw [ha2, if_neg ej]; omega

end ColoVerif.Transp
