import ColoVerif.Proofs.Transp1dOptDefs
/-
Local ⇒ global for the dual certificate of the slack case (C14).

* `locCertOk_iff`: the Bool check `locCertOk` is the Prop structure `LocalCert`.
* `LocalCert` (neighbouring sinks, guarded by `0 < ov i j`) does NOT imply `GlobCert` when two
  neighbouring sinks share a position: `localCert_not_glob` is a concrete sorted instance
  (`u = [0]`, `v = [0, 1, 1]`, unit widths, the source pushed into the last sink, prices 0).
  A sink at the same position as its neighbour hides the cheaper sink behind it.
* `localCert_glob_strict`: with strictly increasing sink positions (and positive sink widths) the
  neighbours-only certificate is global (Monge property of `|u i - v j|` + monotone support).
* `IvCert` / `ivCertOk`: the repaired local certificate.  The guards `0 < ov i j` and
  `0 < ov i (j+1)` become `lo i < D (j+1)` ("source `i` starts before sink `j` ends") and
  `D (j+1) < hi i` ("source `i` ends after sink `j+1` starts"): the price-adjusted cost of a source
  is monotone on both sides of the sinks it overlaps.  Same `O(n m)` cost as `locCertOk`.
  `ivCert_glob`: it implies `GlobCert` (only `D` monotone is needed — no sortedness, no ties issue);
  `ivCert_local`: it implies `LocalCert`; `globCert_iv`: on a sorted instance with positive sink
  widths and the sources inside `[D 0, D m]` it is implied by `GlobCert`, i.e. the repaired check
  accepts exactly the price vectors that `GlobCert` accepts.
-/
namespace ColoVerif.Transp1d

/-! ### the Bool check is the Prop structure -/

/-- the Bool check is the Prop structure -/
theorem locCertOk_iff (sv : Solver) (p : List Int) (be : List Int) :
    locCertOk sv p be = true ↔ LocalCert sv p (fun j => be.getD j 0) := by
  simp only [locCertOk, Bool.and_eq_true, allBelow_iff, decide_eq_true_eq, ovP_eq]
  constructor
  · rintro ⟨⟨h1, h2⟩, h3⟩
    exact ⟨h1, h2, fun i j hi hj => of_decide_eq_true (h3 i hi j (by omega)).1,
      fun i j hi hj => of_decide_eq_true (h3 i hi j (by omega)).2⟩
  · intro h
    exact ⟨⟨h.nn, h.sat⟩, fun i hi j hj =>
      ⟨decide_eq_true (h.right i j hi (by omega)), decide_eq_true (h.left i j hi (by omega))⟩⟩

/-! ### pure facts about `iabs` -/

/-- Monge property of `|a - x|` -/
theorem iabs_monge (a b x y : Int) (hab : a ≤ b) (hxy : x ≤ y) :
    iabs (a - x) + iabs (b - y) ≤ iabs (a - y) + iabs (b - x) := by
  unfold iabs
  repeat' split
  all_goals omega

theorem iabs_mono_right (a x y : Int) (hax : a ≤ x) (hxy : x ≤ y) :
    iabs (a - x) ≤ iabs (a - y) := by
  unfold iabs
  repeat' split
  all_goals omega

theorem iabs_mono_left (a x y : Int) (hya : y ≤ a) (hxy : x ≤ y) :
    iabs (a - y) ≤ iabs (a - x) := by
  unfold iabs
  repeat' split
  all_goals omega

theorem iabs_right_of_le (a x y : Int) (hxy : x < y) (h : iabs (a - x) ≤ iabs (a - y)) :
    a ≤ y := by
  unfold iabs at h
  repeat' split at h
  all_goals omega

theorem iabs_left_of_le (a x y : Int) (hxy : x < y) (h : iabs (a - y) ≤ iabs (a - x)) :
    x ≤ a := by
  unfold iabs at h
  repeat' split at h
  all_goals omega

/-! ### sortedness pointwise, Monge for `cs` -/

theorem sorted_getD (l : List Int) (h : List.Pairwise (fun a b => a ≤ b) l) (a b : Nat)
    (hab : a ≤ b) (hb : b < l.length) : l.getD a 0 ≤ l.getD b 0 := by
  rcases Nat.lt_or_eq_of_le hab with h1 | h1
  · have h2 := List.pairwise_iff_getElem.mp h a b (by omega) hb h1
    simp only [List.getD_eq_getElem?_getD, List.getElem?_eq_getElem (show a < l.length by omega),
      List.getElem?_eq_getElem hb, Option.getD_some]
    exact h2
  · subst h1; exact Int.le_refl _

theorem cs_monge (sv : Solver) (si : SortedInst sv) (i i' j j' : Nat) (hi : i ≤ i')
    (hi' : i' < sv.u.length) (hj : j ≤ j') (hj' : j' < sv.v.length) :
    cs sv i j + cs sv i' j' ≤ cs sv i j' + cs sv i' j :=
  iabs_monge _ _ _ _ (sorted_getD _ si.us i i' hi hi') (sorted_getD _ si.vs j j' hj hj')

/-! ### geometry of the overlaps -/

theorem ov_nonneg (sv : Solver) (p : List Int) (i j : Nat) : 0 ≤ ov sv p i j := by
  unfold ov; omega

theorem ov_pos_iff (sv : Solver) (p : List Int) (i j : Nat) :
    0 < ov sv p i j ↔ lo sv p i < sv.D.getD (j + 1) 0 ∧ sv.D.getD j 0 < hi sv p i ∧
      lo sv p i < hi sv p i ∧ sv.D.getD j 0 < sv.D.getD (j + 1) 0 := by
  unfold ov; omega

/-- monotone support: a source overlapping a later sink is not an earlier source -/
theorem supp_mono (sv : Solver) (p : List Int) (geo : Geo sv p) (k k' b j' : Nat)
    (hk : k < sv.u.length) (hj' : j' < sv.v.length) (hb : b < j')
    (h1 : 0 < ov sv p k b) (h2 : 0 < ov sv p k' j') : k ≤ k' := by
  apply Nat.le_of_not_lt
  intro hc
  have h3 := geo.ord k' k hc hk
  have h4 := geo.Dmono (b + 1) j' (by omega) (by omega)
  have h5 := (ov_pos_iff sv p k b).mp h1
  have h6 := (ov_pos_iff sv p k' j').mp h2
  omega

theorem fillP_zero (sv : Solver) (p : List Int) (j n : Nat)
    (h : ∀ i, i < n → ¬ 0 < ov sv p i j) : fillP sv p j n = 0 := by
  induction n with
  | zero => rfl
  | succ n ih =>
    have h1 := h n (Nat.lt_succ_self n)
    have h2 := ih (fun i hi => h i (Nat.lt_succ_of_lt hi))
    have h3 := ov_nonneg sv p n j
    simp only [fillP, ovP_eq, h2]
    omega

/-- a sink of positive width that no source overlaps has price 0 -/
theorem empty_price (sv : Solver) (p : List Int) (be : Nat → Int)
    (hnn : ∀ j, j < sv.v.length → 0 ≤ be j)
    (hsat : ∀ j, j < sv.v.length → 0 < be j →
      fillP sv p j sv.u.length = sv.D.getD (j + 1) 0 - sv.D.getD j 0)
    (hD : ∀ j, j < sv.v.length → sv.D.getD j 0 < sv.D.getD (j + 1) 0)
    (j : Nat) (hj : j < sv.v.length) (he : ∀ i, i < sv.u.length → ¬ 0 < ov sv p i j) :
    be j = 0 := by
  have h0 := hnn j hj
  apply Classical.byContradiction
  intro hne
  have h1 := hsat j hj (by omega)
  rw [fillP_zero sv p j _ he] at h1
  have h2 := hD j hj
  omega

/-! ### neighbours-only certificate, strictly increasing sink positions -/

/-- to the right of a sink `b` that source `k` overlaps, `cs k · + be ·` never drops below its
value at `b`; and an empty sink reached on the way lies right of `u k` -/
theorem right_chain (sv : Solver) (si : SortedInst sv) (p : List Int) (geo : Geo sv p)
    (be : Nat → Int) (h : LocalCert sv p be)
    (hD : ∀ j, j < sv.v.length → sv.D.getD j 0 < sv.D.getD (j + 1) 0)
    (hvs : ∀ j, j + 1 < sv.v.length → sv.v.getD j 0 < sv.v.getD (j + 1) 0)
    (k b : Nat) (hk : k < sv.u.length) (hov : 0 < ov sv p k b) (t : Nat) :
    b + t < sv.v.length →
      cs sv k b + be b ≤ cs sv k (b + t) + be (b + t) ∧
      ((∀ i, i < sv.u.length → ¬ 0 < ov sv p i (b + t)) → sv.u.getD k 0 ≤ sv.v.getD (b + t) 0) := by
  induction t with
  | zero =>
    intro _
    exact ⟨Int.le_refl _, fun he => absurd hov (he k hk)⟩
  | succ t ih =>
    intro hlt
    obtain ⟨ih1, ih2⟩ := ih (by omega)
    have e : b + (t + 1) = (b + t) + 1 := rfl
    rw [e]
    generalize hj : b + t = j at *
    have hj1 : j + 1 < sv.v.length := by omega
    have hv := hvs j hj1
    have hn1 := h.nn (j + 1) hj1
    have hn0 := h.nn j (by omega)
    by_cases he : ∃ i, i < sv.u.length ∧ 0 < ov sv p i j
    · -- sink `j` is non-empty: some source `k'' ≥ k` overlaps it
      have hex : ∃ k'', k ≤ k'' ∧ k'' < sv.u.length ∧ 0 < ov sv p k'' j := by
        by_cases ht : t = 0
        · have : j = b := by omega
          subst this
          exact ⟨k, Nat.le_refl _, hk, hov⟩
        · obtain ⟨k'', hk'', hov''⟩ := he
          exact ⟨k'', supp_mono sv p geo k k'' b j hk (by omega) (by omega) hov hov'', hk'', hov''⟩
      obtain ⟨k'', hkk, hk'', hov''⟩ := hex
      have hr := h.right k'' j hk'' hj1 hov''
      have hm := cs_monge sv si k k'' j (j + 1) hkk hk'' (by omega) hj1
      have hstep : cs sv k j + be j ≤ cs sv k (j + 1) + be (j + 1) := by omega
      refine ⟨by omega, fun he1 => ?_⟩
      have hz := empty_price sv p be h.nn h.sat hD (j + 1) hj1 he1
      exact iabs_right_of_le _ _ _ hv (by unfold cs at hstep; omega)
    · -- sink `j` is empty: price 0 and right of `u k`
      have he' : ∀ i, i < sv.u.length → ¬ 0 < ov sv p i j := fun i hi h0 => he ⟨i, hi, h0⟩
      have hz := empty_price sv p be h.nn h.sat hD j (by omega) he'
      have hu := ih2 he'
      have hc : cs sv k j ≤ cs sv k (j + 1) := iabs_mono_right _ _ _ hu (by omega)
      exact ⟨by omega, fun _ => by omega⟩

/-- mirror image of `right_chain` -/
theorem left_chain (sv : Solver) (si : SortedInst sv) (p : List Int) (geo : Geo sv p)
    (be : Nat → Int) (h : LocalCert sv p be)
    (hD : ∀ j, j < sv.v.length → sv.D.getD j 0 < sv.D.getD (j + 1) 0)
    (hvs : ∀ j, j + 1 < sv.v.length → sv.v.getD j 0 < sv.v.getD (j + 1) 0)
    (k b : Nat) (hk : k < sv.u.length) (hb : b < sv.v.length) (hov : 0 < ov sv p k b) (t : Nat) :
    ∀ j, j + t = b →
      cs sv k b + be b ≤ cs sv k j + be j ∧
      ((∀ i, i < sv.u.length → ¬ 0 < ov sv p i j) → sv.v.getD j 0 ≤ sv.u.getD k 0) := by
  induction t with
  | zero =>
    intro j hj
    have : j = b := by omega
    subst this
    exact ⟨Int.le_refl _, fun he => absurd hov (he k hk)⟩
  | succ t ih =>
    intro j hjb
    obtain ⟨ih1, ih2⟩ := ih (j + 1) (by omega)
    have hj1 : j + 1 < sv.v.length := by omega
    have hv := hvs j hj1
    have hn1 := h.nn (j + 1) hj1
    have hn0 := h.nn j (by omega)
    by_cases he : ∃ i, i < sv.u.length ∧ 0 < ov sv p i (j + 1)
    · have hex : ∃ k'', k'' ≤ k ∧ k'' < sv.u.length ∧ 0 < ov sv p k'' (j + 1) := by
        by_cases ht : t = 0
        · have : j + 1 = b := by omega
          subst this
          exact ⟨k, Nat.le_refl _, hk, hov⟩
        · obtain ⟨k'', hk'', hov''⟩ := he
          exact ⟨k'', supp_mono sv p geo k'' k (j + 1) b hk'' hb (by omega) hov'' hov, hk'', hov''⟩
      obtain ⟨k'', hkk, hk'', hov''⟩ := hex
      have hl := h.left k'' j hk'' hj1 hov''
      have hm := cs_monge sv si k'' k j (j + 1) hkk hk (by omega) hj1
      have hstep : cs sv k (j + 1) + be (j + 1) ≤ cs sv k j + be j := by omega
      refine ⟨by omega, fun he1 => ?_⟩
      have hz := empty_price sv p be h.nn h.sat hD j (by omega) he1
      exact iabs_left_of_le _ _ _ hv (by unfold cs at hstep; omega)
    · have he' : ∀ i, i < sv.u.length → ¬ 0 < ov sv p i (j + 1) := fun i hi h0 => he ⟨i, hi, h0⟩
      have hz := empty_price sv p be h.nn h.sat hD (j + 1) hj1 he'
      have hu := ih2 he'
      have hc : cs sv k (j + 1) ≤ cs sv k j := iabs_mono_left _ _ _ hu (by omega)
      exact ⟨by omega, fun _ => by omega⟩

/-- On a sorted instance with ordered disjoint source intervals, positive sink widths and
STRICTLY increasing sink positions, the neighbours-only certificate is global.  (Without `hvs` the
statement is false: `localCert_not_glob`.) -/
theorem localCert_glob_strict (sv : Solver) (si : SortedInst sv) (p : List Int) (geo : Geo sv p)
    (be : Nat → Int) (h : LocalCert sv p be)
    (hD : ∀ j, j < sv.v.length → sv.D.getD j 0 < sv.D.getD (j + 1) 0)
    (hvs : ∀ j, j + 1 < sv.v.length → sv.v.getD j 0 < sv.v.getD (j + 1) 0) :
    GlobCert sv p be := by
  refine ⟨h.nn, h.sat, fun i j j' hi hj hj' hov => ?_⟩
  by_cases hjj : j ≤ j'
  · have h1 := (right_chain sv si p geo be h hD hvs i j hi hov (j' - j) (by omega)).1
    have e : j + (j' - j) = j' := by omega
    rw [e] at h1
    exact h1
  · exact (left_chain sv si p geo be h hD hvs i j hi hj hov (j - j') j' (by omega)).1

/-! ### the neighbours-only certificate is not global when sink positions tie -/

theorem mono_of_step (D : List Int) (m : Nat) (h : ∀ j, j < m → D.getD j 0 ≤ D.getD (j + 1) 0)
    (a b : Nat) (hab : a ≤ b) (hb : b ≤ m) : D.getD a 0 ≤ D.getD b 0 := by
  induction b with
  | zero =>
    have : a = 0 := by omega
    subst this; exact Int.le_refl _
  | succ b ih =>
    rcases Nat.lt_or_eq_of_le hab with h1 | h1
    · have h2 := ih (by omega) (by omega)
      have h3 := h b (by omega)
      omega
    · subst h1; exact Int.le_refl _

/-- one source at position 0, sinks at positions 0, 1, 1, unit widths -/
def cexSv : Solver := mkSolver [0] [0, 1, 1] [1] [1, 1, 1]

/-- `localCert_glob` without `hvs` is false: the source sits in the last sink (`p = [2]`), all
prices are 0; sink 1 (same position as sink 2) hides the free sink 0 from the local check. -/
theorem localCert_not_glob :
    SortedInst cexSv ∧ Geo cexSv [2] ∧
    (∀ j, j < cexSv.v.length → cexSv.D.getD j 0 < cexSv.D.getD (j + 1) 0) ∧
    LocalCert cexSv [2] (fun j => ([0, 0, 0] : List Int).getD j 0) ∧
    ¬ GlobCert cexSv [2] (fun j => ([0, 0, 0] : List Int).getD j 0) := by
  have wf : cexSv.WF := ⟨rfl, rfl, rfl, rfl⟩
  have hD : ∀ j, j < cexSv.v.length → cexSv.D.getD j 0 < cexSv.D.getD (j + 1) 0 := by
    intro j hj
    have : j = 0 ∨ j = 1 ∨ j = 2 := by
      have : cexSv.v.length = 3 := rfl
      omega
    rcases this with rfl | rfl | rfl <;> decide
  refine ⟨⟨wf, by decide, by decide, by decide, by decide, rfl, rfl⟩, ⟨wf, rfl, ?_, ?_, ?_⟩, hD,
    (locCertOk_iff cexSv [2] [0, 0, 0]).mp (by decide), ?_⟩
  · intro i hi
    have : i = 0 := by
      have : cexSv.u.length = 1 := rfl
      omega
    subst this; decide
  · intro i i' h1 h2
    have : cexSv.u.length = 1 := rfl
    omega
  · exact mono_of_step _ _ (fun j hj => Int.le_of_lt (hD j hj))
  · intro h
    have := h.opt 0 2 0 (by decide) (by decide) (by decide) (by decide)
    revert this
    decide

/-! ### the repaired local certificate: guards on the source interval, not on the overlap -/

/-- `ivCertOk` (Model/Transp1dLocal.lean) as a Prop over price functions -/
structure IvCert (sv : Solver) (p : List Int) (be : Nat → Int) : Prop where
  nn : ∀ j, j < sv.v.length → 0 ≤ be j
  sat : ∀ j, j < sv.v.length → 0 < be j →
    fillP sv p j sv.u.length = sv.D.getD (j + 1) 0 - sv.D.getD j 0
  right : ∀ i j, i < sv.u.length → j + 1 < sv.v.length → lo sv p i < sv.D.getD (j + 1) 0 →
    cs sv i j + be j ≤ cs sv i (j + 1) + be (j + 1)
  left : ∀ i j, i < sv.u.length → j + 1 < sv.v.length → sv.D.getD (j + 1) 0 < hi sv p i →
    cs sv i (j + 1) + be (j + 1) ≤ cs sv i j + be j

theorem ivCertOk_iff (sv : Solver) (p : List Int) (be : List Int) :
    ivCertOk sv p be = true ↔ IvCert sv p (fun j => be.getD j 0) := by
  simp only [ivCertOk, Bool.and_eq_true, allBelow_iff, decide_eq_true_eq, loP_eq, hiP_eq]
  constructor
  · rintro ⟨⟨h1, h2⟩, h3⟩
    exact ⟨h1, h2, fun i j hi hj => of_decide_eq_true (h3 i hi j (by omega)).1,
      fun i j hi hj => of_decide_eq_true (h3 i hi j (by omega)).2⟩
  · intro h
    exact ⟨⟨h.nn, h.sat⟩, fun i hi j hj =>
      ⟨decide_eq_true (h.right i j hi (by omega)), decide_eq_true (h.left i j hi (by omega))⟩⟩

/-- the repaired certificate is at least as strong as the neighbours-only one -/
theorem ivCert_local (sv : Solver) (p : List Int) (be : Nat → Int) (h : IvCert sv p be) :
    LocalCert sv p be :=
  ⟨h.nn, h.sat,
    fun i j hi hj hov => h.right i j hi hj ((ov_pos_iff sv p i j).mp hov).1,
    fun i j hi hj hov => h.left i j hi hj ((ov_pos_iff sv p i (j + 1)).mp hov).2.1⟩

/-- The repaired local certificate is global; only monotonicity of `D` is used (`geo.Dmono`):
no sortedness, no assumption on ties, no positivity of the widths. -/
theorem ivCert_glob (sv : Solver) (p : List Int)
    (hDm : ∀ a b, a ≤ b → b ≤ sv.v.length → sv.D.getD a 0 ≤ sv.D.getD b 0)
    (be : Nat → Int) (h : IvCert sv p be) : GlobCert sv p be := by
  refine ⟨h.nn, h.sat, fun i j j' hi hj hj' hov => ?_⟩
  obtain ⟨hlo, hhi, _, _⟩ := (ov_pos_iff sv p i j).mp hov
  by_cases hjj : j ≤ j'
  · have hr : ∀ t, j + t < sv.v.length → cs sv i j + be j ≤ cs sv i (j + t) + be (j + t) := by
      intro t
      induction t with
      | zero => intro _; exact Int.le_refl _
      | succ t ih =>
        intro hlt
        have h1 := ih (by omega)
        have h2 := hDm (j + 1) (j + t + 1) (by omega) (by omega)
        have h3 := h.right i (j + t) hi (by omega) (by omega)
        have e : j + (t + 1) = j + t + 1 := rfl
        rw [e]
        omega
    have h1 := hr (j' - j) (by omega)
    have e : j + (j' - j) = j' := by omega
    rw [e] at h1
    exact h1
  · have hl : ∀ t j', j' + t = j → cs sv i j + be j ≤ cs sv i j' + be j' := by
      intro t
      induction t with
      | zero =>
        intro j' hj'
        have : j' = j := by omega
        subst this; exact Int.le_refl _
      | succ t ih =>
        intro j' hj'
        have h1 := ih (j' + 1) (by omega)
        have h2 := hDm (j' + 1) j (by omega) (by omega)
        have h3 := h.left i j' hi (by omega) (by omega)
        omega
    exact hl (j - j') j' (by omega)

/-! ### completeness of the repaired certificate: `GlobCert` implies it -/

theorem find_sink_lo (D : List Int) (x : Int) (h0 : D.getD 0 0 ≤ x) (j : Nat) :
    x < D.getD (j + 1) 0 → ∃ b, b ≤ j ∧ D.getD b 0 ≤ x ∧ x < D.getD (b + 1) 0 := by
  induction j with
  | zero => intro h; exact ⟨0, Nat.le_refl _, h0, h⟩
  | succ j ih =>
    intro h
    by_cases h1 : x < D.getD (j + 1) 0
    · obtain ⟨b, hb, hb1, hb2⟩ := ih h1
      exact ⟨b, by omega, hb1, hb2⟩
    · exact ⟨j + 1, Nat.le_refl _, by omega, h⟩

theorem find_sink_hi (D : List Int) (x : Int) (m : Nat) (hm : x ≤ D.getD m 0) (t : Nat) :
    ∀ j, j + t = m → D.getD j 0 < x →
      ∃ b, j ≤ b ∧ b < m ∧ D.getD b 0 < x ∧ x ≤ D.getD (b + 1) 0 := by
  induction t with
  | zero =>
    intro j hj h
    have : j = m := by omega
    subst this; omega
  | succ t ih =>
    intro j hj h
    by_cases h1 : x ≤ D.getD (j + 1) 0
    · exact ⟨j, Nat.le_refl _, by omega, h, h1⟩
    · obtain ⟨b, hb, hb1, hb2, hb3⟩ := ih (j + 1) (by omega) (by omega)
      exact ⟨b, by omega, hb1, hb2, hb3⟩

/-- On a sorted instance with positive sink widths and all source intervals inside `[D 0, D m]`,
every global certificate passes the repaired local check: `ivCertOk` rejects nothing that
`GlobCert` accepts. -/
theorem globCert_iv (sv : Solver) (si : SortedInst sv) (p : List Int) (geo : Geo sv p)
    (be : Nat → Int) (h : GlobCert sv p be)
    (hD : ∀ j, j < sv.v.length → sv.D.getD j 0 < sv.D.getD (j + 1) 0)
    (hin : ∀ i, i < sv.u.length →
      sv.D.getD 0 0 ≤ lo sv p i ∧ hi sv p i ≤ sv.D.getD sv.v.length 0) :
    IvCert sv p be := by
  refine ⟨h.nn, h.sat, fun i j hi hj hlo => ?_, fun i j hi hj hhi => ?_⟩
  · -- a sink `b ≤ j` that source `i` overlaps
    obtain ⟨b, hbj, hb1, hb2⟩ := find_sink_lo sv.D (lo sv p i) (hin i hi).1 j hlo
    have hlh := geo.lohi i hi
    have hov : 0 < ov sv p i b := (ov_pos_iff sv p i b).mpr ⟨hb2, by omega, hlh, hD b (by omega)⟩
    have hn1 := h.nn (j + 1) hj
    have hn0 := h.nn j (by omega)
    have hnb := h.nn b (by omega)
    rcases Nat.lt_or_eq_of_le hbj with hlt | heq
    · by_cases he : ∃ k, k < sv.u.length ∧ 0 < ov sv p k j
      · obtain ⟨k, hk, hovk⟩ := he
        have hik := supp_mono sv p geo i k b j hi (by omega) hlt hov hovk
        have h1 := h.opt k j (j + 1) hk (by omega) hj hovk
        have h2 := cs_monge sv si i k j (j + 1) hik hk (by omega) hj
        omega
      · have he' : ∀ k, k < sv.u.length → ¬ 0 < ov sv p k j := fun k hk h0 => he ⟨k, hk, h0⟩
        have hz := empty_price sv p be h.nn h.sat hD j (by omega) he'
        by_cases hu : sv.u.getD i 0 ≤ sv.v.getD j 0
        · have hc : cs sv i j ≤ cs sv i (j + 1) :=
            iabs_mono_right _ _ _ hu (sorted_getD _ si.vs j (j + 1) (by omega) hj)
          omega
        · have hc : cs sv i j ≤ cs sv i b :=
            iabs_mono_left _ _ _ (by omega) (sorted_getD _ si.vs b j hbj (by omega))
          have h1 := h.opt i b (j + 1) hi (by omega) hj hov
          omega
    · subst heq
      exact h.opt i b (b + 1) hi (by omega) hj hov
  · -- a sink `b ≥ j + 1` that source `i` overlaps
    obtain ⟨b, hbj, hbm, hb1, hb2⟩ := find_sink_hi sv.D (Transp1d.hi sv p i) sv.v.length (hin i hi).2
      (sv.v.length - (j + 1)) (j + 1) (by omega) hhi
    have hlh := geo.lohi i hi
    have hov : 0 < ov sv p i b := (ov_pos_iff sv p i b).mpr ⟨by omega, hb1, hlh, hD b hbm⟩
    have hn1 := h.nn (j + 1) hj
    have hn0 := h.nn j (by omega)
    have hnb := h.nn b hbm
    rcases Nat.lt_or_eq_of_le hbj with hlt | heq
    · by_cases he : ∃ k, k < sv.u.length ∧ 0 < ov sv p k (j + 1)
      · obtain ⟨k, hk, hovk⟩ := he
        have hki := supp_mono sv p geo k i (j + 1) b hk hbm hlt hovk hov
        have h1 := h.opt k (j + 1) j hk hj (by omega) hovk
        have h2 := cs_monge sv si k i j (j + 1) hki hi (by omega) hj
        omega
      · have he' : ∀ k, k < sv.u.length → ¬ 0 < ov sv p k (j + 1) :=
          fun k hk h0 => he ⟨k, hk, h0⟩
        have hz := empty_price sv p be h.nn h.sat hD (j + 1) hj he'
        by_cases hu : sv.v.getD (j + 1) 0 ≤ sv.u.getD i 0
        · have hc : cs sv i (j + 1) ≤ cs sv i j :=
            iabs_mono_left _ _ _ hu (sorted_getD _ si.vs j (j + 1) (by omega) hj)
          omega
        · have hc : cs sv i (j + 1) ≤ cs sv i b :=
            iabs_mono_right _ _ _ (by omega) (sorted_getD _ si.vs (j + 1) b hbj hbm)
          have h1 := h.opt i b j hi hbm (by omega) hov
          omega
    · subst heq
      exact h.opt i (j + 1) j hi hj (by omega) hov

/-- on the tie instance the repaired check rejects what the neighbours-only check accepted -/
example : locCertOk cexSv [2] [0, 0, 0] = true ∧ ivCertOk cexSv [2] [0, 0, 0] = false := by decide

/-- non-vacuity of `localCert_glob_strict`, `ivCert_glob`, `globCert_iv`: the source of `cexSv`
in its own sink (`p = [0]`) -/
example : ivCertOk cexSv [0] [0, 0, 0] = true ∧ locCertOk cexSv [0] [0, 0, 0] = true := by decide

end ColoVerif.Transp1d
