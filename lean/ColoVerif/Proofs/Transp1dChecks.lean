import ColoVerif.Model.Transp1dChecks
import ColoVerif.Proofs.Transp1dOptMain
/-
The self-checks of `Transportation1d::solve()` (`Model/Transp1dChecks.lean`), part 1:
`checkInput` accepts exactly the domain of C14, `solverCheck` accepts the instance the sorter
builds, `checkSolutionValid` accepts exactly the valid plans (entries in range).
Part 2 (`Transp1dChecksOpt.lean`): `checkSolutionOptimal` accepts every plan that has a dual
certificate on neighbouring sinks, hence the solver's own.
-/
namespace ColoVerif.Transp1d

/-! ### `Transportation1d::check()` -/

theorem any_neg_false (l : List Int) : l.any (fun c => decide (c < 0)) = false ↔ ∀ x ∈ l, 0 ≤ x := by
  simp only [List.any_eq_false, decide_eq_true_eq]
  constructor
  · intro h x hx; have := h x hx; omega
  · intro h x hx; have := h x hx; omega

theorem any_neg_true (l : List Int) : l.any (fun c => decide (c < 0)) = true ↔ ∃ x ∈ l, x < 0 := by
  simp only [List.any_eq_true, decide_eq_true_eq]

/-- with consistent sizes and non-negative entries `checkInput` is the comparison of the totals -/
theorem checkInput_sized (pb : Problem) (hs : pb.s.length = pb.u.length)
    (hd : pb.d.length = pb.v.length) (hsn : ∀ x ∈ pb.s, 0 ≤ x) (hdn : ∀ x ∈ pb.d, 0 ≤ x) :
    checkInput pb = if pb.d.sum < pb.s.sum then .error (.thrown .supGtDem) else .ok () := by
  have e1 : totalSupply pb = .ok pb.s.sum := by
    unfold totalSupply Problem.nbSources; rw [← hs]; exact sumFirst_eq _
  have e2 : totalDemand pb = .ok pb.d.sum := by
    unfold totalDemand Problem.nbSinks; rw [← hd]; exact sumFirst_eq _
  unfold checkInput
  simp only [Problem.nbSources, Problem.nbSinks, ne_eq, not_true_eq_false, if_false, hs, hd,
    (any_neg_false _).mpr hsn, (any_neg_false _).mpr hdn, e1, e2, liftK, bind, Except.bind,
    Bool.false_eq_true]
  split <;> rfl

theorem checkInput_ok_iff (pb : Problem) : checkInput pb = .ok () ↔ checkOk pb = true := by
  rw [checkOk_iff]
  constructor
  · intro h
    by_cases hs : pb.s.length = pb.u.length
    · by_cases hd : pb.d.length = pb.v.length
      · by_cases hsn : ∀ x ∈ pb.s, 0 ≤ x
        · by_cases hdn : ∀ x ∈ pb.d, 0 ≤ x
          · rw [checkInput_sized pb hs hd hsn hdn] at h
            refine ⟨hs, hd, hsn, hdn, ?_⟩
            split at h
            · cases h
            · omega
          · have : pb.d.any (fun c => decide (c < 0)) = true := by
              cases hb : pb.d.any (fun c => decide (c < 0)) with
              | true => rfl
              | false => exact absurd ((any_neg_false _).mp hb) hdn
            unfold checkInput at h
            simp [Problem.nbSources, Problem.nbSinks, hs, hd, (any_neg_false _).mpr hsn, this,
              throwAt] at h
        · have : pb.s.any (fun c => decide (c < 0)) = true := by
            cases hb : pb.s.any (fun c => decide (c < 0)) with
            | true => rfl
            | false => exact absurd ((any_neg_false _).mp hb) hsn
          unfold checkInput at h
          simp [Problem.nbSources, Problem.nbSinks, hs, hd, this, throwAt] at h
      · unfold checkInput at h
        simp [Problem.nbSources, Problem.nbSinks, hs, hd, throwAt] at h
    · unfold checkInput at h
      simp [Problem.nbSources, Problem.nbSinks, hs, throwAt] at h
  · rintro ⟨hs, hd, hsn, hdn, hle⟩
    rw [checkInput_sized pb hs hd hsn hdn, if_neg (by omega)]

/-! rejection, class by class (the tests are made in this order) -/

theorem checkInput_supSize (pb : Problem) (hs : pb.s.length ≠ pb.u.length) :
    checkInput pb = .error (.thrown .supSize) := by
  unfold checkInput
  simp [Problem.nbSources, Problem.nbSinks, hs, throwAt]

theorem checkInput_demSize (pb : Problem) (hs : pb.s.length = pb.u.length)
    (hd : pb.d.length ≠ pb.v.length) : checkInput pb = .error (.thrown .demSize) := by
  unfold checkInput
  simp [Problem.nbSources, Problem.nbSinks, hs, hd, throwAt]

theorem checkInput_supNeg (pb : Problem) (hs : pb.s.length = pb.u.length)
    (hd : pb.d.length = pb.v.length) (hneg : ∃ x ∈ pb.s, x < 0) :
    checkInput pb = .error (.thrown .supNeg) := by
  unfold checkInput
  simp [Problem.nbSources, Problem.nbSinks, hs, hd, (any_neg_true _).mpr hneg, throwAt]

theorem checkInput_demNeg (pb : Problem) (hs : pb.s.length = pb.u.length)
    (hd : pb.d.length = pb.v.length) (hsn : ∀ x ∈ pb.s, 0 ≤ x) (hneg : ∃ x ∈ pb.d, x < 0) :
    checkInput pb = .error (.thrown .demNeg) := by
  unfold checkInput
  simp [Problem.nbSources, Problem.nbSinks, hs, hd, (any_neg_false _).mpr hsn,
    (any_neg_true _).mpr hneg, throwAt]

theorem checkInput_supGtDem (pb : Problem) (hs : pb.s.length = pb.u.length)
    (hd : pb.d.length = pb.v.length) (hsn : ∀ x ∈ pb.s, 0 ≤ x) (hdn : ∀ x ∈ pb.d, 0 ≤ x)
    (hgt : pb.d.sum < pb.s.sum) : checkInput pb = .error (.thrown .supGtDem) := by
  rw [checkInput_sized pb hs hd hsn hdn, if_pos hgt]

/-- outside the domain `checkInput` throws (never an index error) -/
theorem checkInput_rejects (pb : Problem) (h : checkOk pb ≠ true) :
    ∃ s, checkInput pb = .error (.thrown s) := by
  by_cases hs : pb.s.length = pb.u.length
  · by_cases hd : pb.d.length = pb.v.length
    · by_cases hsn : ∀ x ∈ pb.s, 0 ≤ x
      · by_cases hdn : ∀ x ∈ pb.d, 0 ≤ x
        · by_cases hle : pb.s.sum ≤ pb.d.sum
          · exact absurd ((checkOk_iff pb).mpr ⟨hs, hd, hsn, hdn, hle⟩) h
          · exact ⟨_, checkInput_supGtDem pb hs hd hsn hdn (by omega)⟩
        · refine ⟨_, checkInput_demNeg pb hs hd hsn ?_⟩
          by_cases hex : ∃ x ∈ pb.d, x < 0
          · exact hex
          · exact absurd (fun x hx => by
              by_cases h0 : 0 ≤ x
              · exact h0
              · exact absurd ⟨x, hx, by omega⟩ hex) hdn
      · refine ⟨_, checkInput_supNeg pb hs hd ?_⟩
        by_cases hex : ∃ x ∈ pb.s, x < 0
        · exact hex
        · exact absurd (fun x hx => by
            by_cases h0 : 0 ≤ x
            · exact h0
            · exact absurd ⟨x, hx, by omega⟩ hex) hsn
    · exact ⟨_, checkInput_demSize pb hs hd⟩
  · exact ⟨_, checkInput_supSize pb hs⟩

/-! ### `Transportation1dSolver::check()` -/

theorem hasDescent_false (l : List Int) (h : List.Pairwise (fun a b => a ≤ b) l) :
    hasDescent l = false := by
  induction l with
  | nil => rfl
  | cons a r ih =>
    cases r with
    | nil => rfl
    | cons b r' =>
      have h1 := List.rel_of_pairwise_cons h (List.mem_cons_self ..)
      have h2 := ih (List.Pairwise.of_cons h)
      simp only [hasDescent, h2, Bool.or_false, decide_eq_false_iff_not]
      omega

theorem hasDescent_true (l : List Int) (i : Nat) (hi : i + 1 < l.length)
    (h : l.getD (i + 1) 0 < l.getD i 0) : hasDescent l = true := by
  induction l generalizing i with
  | nil => simp at hi
  | cons a r ih =>
    cases r with
    | nil => simp at hi
    | cons b r' =>
      cases i with
      | zero =>
        simp only [List.getD_cons_succ, List.getD_cons_zero] at h
        simp [hasDescent, h]
      | succ i =>
        have := ih i (by simpa using hi) (by simpa using h)
        simp [hasDescent, this]

theorem hasZero_false (l : List Int) (h : ∀ x ∈ l, 0 < x) : hasZero l = false := by
  simp only [hasZero, List.any_eq_false, decide_eq_true_eq]
  intro x hx; have := h x hx; omega

theorem hasZero_true (l : List Int) (h : (0 : Int) ∈ l) : hasZero l = true := by
  simp only [hasZero, List.any_eq_true, decide_eq_true_eq]
  exact ⟨0, h, rfl⟩

/-- a well-formed, sorted, zero-free instance with supply ≤ demand passes `solver.check()` -/
theorem solverCheck_ok (sv : Solver) (wf : sv.WF) (pLen : Nat) (hp : pLen ≤ sv.u.length)
    (hus : List.Pairwise (fun a b => a ≤ b) sv.u) (hvs : List.Pairwise (fun a b => a ≤ b) sv.v)
    (hsp : ∀ x ∈ sv.s, 0 < x) (hdp : ∀ x ∈ sv.d, 0 < x) (hle : sv.s.sum ≤ sv.d.sum) :
    solverCheck sv pLen = .ok () := by
  have h1 : checkInput sv.toProblem = .ok () :=
    (checkInput_ok_iff _).mpr ((checkOk_iff _).mpr ⟨wf.hs, wf.hd,
      fun x hx => Int.le_of_lt (hsp x hx), fun x hx => Int.le_of_lt (hdp x hx), hle⟩)
  unfold solverCheck
  simp only [h1, bind, Except.bind, Solver.nbSources, Solver.nbSinks, wf.hS, wf.hD, ne_eq,
    not_true_eq_false, if_false, hasDescent_false _ hus, hasDescent_false _ hvs,
    hasZero_false _ hsp, hasZero_false _ hdp, Bool.false_eq_true]
  rw [if_neg (by omega)]
  rfl

theorem sortedSolver_check (pb : Problem) (hv : checkOk pb = true) :
    solverCheck (sortedSolver pb) 0 = .ok () := by
  obtain ⟨hs, hd, hsn, hdn, hle⟩ := (checkOk_iff pb).mp hv
  have si := sortedSolver_inst pb
  have h2 : (sortedSolver pb).s.sum = pb.s.sum := sum_ord pb.u pb.s hs hsn
  have h3 : (sortedSolver pb).d.sum = pb.d.sum := sum_ord pb.v pb.d hd hdn
  exact solverCheck_ok _ si.wf 0 (Nat.zero_le _) si.us si.vs (sortedSolver_spos pb)
    (sortedSolver_dpos pb) (by omega)

/-! ### `checkSolutionValid` -/

theorem addAt_ok (l : List Int) (k : Nat) (a : Int) (h : k < l.length) :
    addAt l k a = .ok (l.set k (l.getD k 0 + a)) := by
  simp [addAt, get_ok' l k h, setAt, h, bind, Except.bind, pure, Except.pure]

theorem getD_set_int (l : List Int) (k j : Nat) (x : Int) (h : k < l.length) :
    (l.set k x).getD j 0 = if j = k then x else l.getD j 0 := by
  simp only [List.getD_eq_getElem?_getD, List.getElem?_set]
  by_cases hjk : k = j
  · subst hjk; simp [h]
  · have : ¬ j = k := fun e => hjk e.symm
    simp [hjk, this]

/-- the accumulation loop of `checkSolutionValid` on a plan with entries in range and positive -/
theorem validLoop_ok (es : Plan) (us ud : List Int)
    (hr : ∀ e ∈ es, e.1 < us.length ∧ e.2.1 < ud.length) (hp : ∀ e ∈ es, 0 < e.2.2) :
    ∃ us' ud', validLoop es us ud = .ok (us', ud') ∧ us'.length = us.length ∧
      ud'.length = ud.length ∧ (∀ k, us'.getD k 0 = us.getD k 0 + rowSum es k) ∧
      (∀ k, ud'.getD k 0 = ud.getD k 0 + colSum es k) := by
  induction es generalizing us ud with
  | nil => exact ⟨us, ud, rfl, rfl, rfl, fun k => by simp [rowSum], fun k => by simp [colSum]⟩
  | cons e es ih =>
    obtain ⟨i, j, a⟩ := e
    have h1 := hr (i, j, a) (List.mem_cons_self ..)
    have h2 : 0 < a := hp (i, j, a) (List.mem_cons_self ..)
    obtain ⟨us', ud', e', l1, l2, r1, r2⟩ := ih (us.set i (us.getD i 0 + a)) (ud.set j (ud.getD j 0 + a))
      (fun e he => by simpa using hr e (List.mem_cons_of_mem _ he))
      (fun e he => hp e (List.mem_cons_of_mem _ he))
    refine ⟨us', ud', ?_, by simpa using l1, by simpa using l2, ?_, ?_⟩
    · simp only [validLoop, addAt_ok us i a h1.1, addAt_ok ud j a h1.2, liftK, bind, Except.bind]
      rw [if_neg (by omega)]
      exact e'
    · intro k
      rw [r1 k, getD_set_int _ _ _ _ h1.1]
      simp only [rowSum]
      by_cases hk : k = i
      · subst hk; simp; omega
      · have : ¬ i = k := fun e => hk e.symm
        simp [hk, this]
    · intro k
      rw [r2 k, getD_set_int _ _ _ _ h1.2]
      simp only [colSum]
      by_cases hk : k = j
      · subst hk; simp; omega
      · have : ¬ j = k := fun e => hk e.symm
        simp [hk, this]

/-- … and on a plan (entries in range) with a non-positive amount -/
theorem validLoop_reject (es : Plan) (us ud : List Int)
    (hr : ∀ e ∈ es, e.1 < us.length ∧ e.2.1 < ud.length) (hn : ∃ e ∈ es, e.2.2 ≤ 0) :
    validLoop es us ud = .error (.thrown .allocNonPos) := by
  induction es generalizing us ud with
  | nil => obtain ⟨e, he, _⟩ := hn; simp at he
  | cons e es ih =>
    obtain ⟨i, j, a⟩ := e
    have h1 := hr (i, j, a) (List.mem_cons_self ..)
    simp only [validLoop, addAt_ok us i a h1.1, addAt_ok ud j a h1.2, liftK, bind, Except.bind]
    by_cases ha : a ≤ 0
    · rw [if_pos ha]; rfl
    · rw [if_neg ha]
      apply ih
      · intro e he; simpa using hr e (List.mem_cons_of_mem _ he)
      · obtain ⟨e, he, hle⟩ := hn
        rcases List.mem_cons.mp he with rfl | he'
        · exact absurd hle ha
        · exact ⟨e, he', hle⟩

theorem cmpLoop_ok (bad : Int → Int → Bool) (site : Site) (xs ys : List Int) (cnt i : Nat)
    (hx : i + cnt ≤ xs.length) (hy : i + cnt ≤ ys.length)
    (h : ∀ k, i ≤ k → k < i + cnt → bad (xs.getD k 0) (ys.getD k 0) = false) :
    cmpLoop bad site xs ys cnt i = .ok () := by
  induction cnt generalizing i with
  | zero => rfl
  | succ cnt ih =>
    simp only [cmpLoop, get_ok' xs i (by omega), get_ok' ys i (by omega), liftK, bind, Except.bind,
      h i (Nat.le_refl _) (by omega), Bool.false_eq_true, if_false]
    exact ih (i + 1) (by omega) (by omega) (fun k h1 h2 => h k (by omega) (by omega))

theorem cmpLoop_reject (bad : Int → Int → Bool) (site : Site) (xs ys : List Int) (cnt i : Nat)
    (hx : i + cnt ≤ xs.length) (hy : i + cnt ≤ ys.length)
    (h : ∃ k, i ≤ k ∧ k < i + cnt ∧ bad (xs.getD k 0) (ys.getD k 0) = true) :
    cmpLoop bad site xs ys cnt i = .error (.thrown site) := by
  induction cnt generalizing i with
  | zero => obtain ⟨k, h1, h2, _⟩ := h; omega
  | succ cnt ih =>
    simp only [cmpLoop, get_ok' xs i (by omega), get_ok' ys i (by omega), liftK, bind, Except.bind]
    by_cases hb : bad (xs.getD i 0) (ys.getD i 0) = true
    · rw [if_pos hb]; rfl
    · rw [if_neg hb]
      apply ih (i + 1) (by omega) (by omega)
      obtain ⟨k, h1, h2, h3⟩ := h
      by_cases hk : k = i
      · subst hk; exact absurd h3 hb
      · exact ⟨k, by omega, by omega, h3⟩

theorem getD_replicate_zero (n k : Nat) : (List.replicate n (0 : Int)).getD k 0 = 0 := by
  simp only [List.getD_eq_getElem?_getD, List.getElem?_replicate]
  split <;> rfl

/-- `checkSolutionValid` accepts a plan that meets the supplies exactly, exceeds no demand and has
positive entries in range -/
theorem checkSolutionValid_ok (pb : Problem) (hs : pb.s.length = pb.u.length)
    (hd : pb.d.length = pb.v.length) (sol : Plan) (hv : validPlan pb sol = true) :
    checkSolutionValid pb sol = .ok () := by
  obtain ⟨hent, hrow, hcol⟩ := (validPlan_iff pb sol).mp hv
  have hent' : ∀ e ∈ sol, e.1 < pb.u.length ∧ e.2.1 < pb.v.length ∧ 0 < e.2.2 := by
    intro e he
    have := List.all_eq_true.mp hent e he
    simpa [Bool.and_eq_true, and_assoc] using this
  obtain ⟨us', ud', e', l1, l2, r1, r2⟩ := validLoop_ok sol (List.replicate pb.nbSources 0)
    (List.replicate pb.nbSinks 0)
    (fun e he => by
      have := hent' e he
      simp only [List.length_replicate, Problem.nbSources, Problem.nbSinks]; omega)
    (fun e he => (hent' e he).2.2)
  simp only [List.length_replicate, Problem.nbSources, Problem.nbSinks] at l1 l2
  unfold checkSolutionValid
  simp only [e', bind, Except.bind]
  rw [cmpLoop_ok _ _ _ _ _ _ (by simp only [Problem.nbSources]; omega)
    (by simp only [Problem.nbSources]; omega)]
  · simp only []
    apply cmpLoop_ok _ _ _ _ _ _ (by simp only [Problem.nbSinks]; omega)
      (by simp only [Problem.nbSinks]; omega)
    intro k _ hk
    simp only [Problem.nbSinks] at hk
    have := hcol k (by omega)
    rw [r2 k, getD_replicate_zero]
    simp only [decide_eq_false_iff_not]
    omega
  · intro k _ hk
    simp only [Problem.nbSources] at hk
    have := hrow k (by omega)
    rw [r1 k, getD_replicate_zero]
    simp only [decide_eq_false_iff_not, ne_eq, Decidable.not_not]
    omega

/-- `checkSolutionValid` throws on every plan (entries in range) that is not valid -/
theorem checkSolutionValid_rejects (pb : Problem) (hs : pb.s.length = pb.u.length)
    (hd : pb.d.length = pb.v.length) (sol : Plan)
    (hr : ∀ e ∈ sol, e.1 < pb.u.length ∧ e.2.1 < pb.v.length) (hv : validPlan pb sol ≠ true) :
    ∃ s, checkSolutionValid pb sol = .error (.thrown s) := by
  have hr' : ∀ e ∈ sol, e.1 < (List.replicate pb.nbSources (0 : Int)).length ∧
      e.2.1 < (List.replicate pb.nbSinks (0 : Int)).length := by
    intro e he
    have := hr e he
    simp only [List.length_replicate, Problem.nbSources, Problem.nbSinks]; omega
  by_cases hp : ∀ e ∈ sol, 0 < e.2.2
  · obtain ⟨us', ud', e', l1, l2, r1, r2⟩ := validLoop_ok sol _ _ hr' hp
    simp only [List.length_replicate, Problem.nbSources, Problem.nbSinks] at l1 l2
    unfold checkSolutionValid
    simp only [e', bind, Except.bind]
    by_cases hrow : ∀ i, i < pb.u.length → rowSum sol i = pb.s.getD i 0
    · rw [cmpLoop_ok _ _ _ _ _ _ (by simp only [Problem.nbSources]; omega)
        (by simp only [Problem.nbSources]; omega)]
      · simp only []
        refine ⟨_, cmpLoop_reject _ _ _ _ _ _ (by simp only [Problem.nbSinks]; omega)
          (by simp only [Problem.nbSinks]; omega) ?_⟩
        by_cases hcol : ∀ j, j < pb.v.length → colSum sol j ≤ pb.d.getD j 0
        · refine absurd ((validPlan_iff pb sol).mpr ⟨?_, hrow, hcol⟩) hv
          unfold entriesOk
          rw [List.all_eq_true]
          intro e he
          have := hr e he
          have := hp e he
          simp only [Bool.and_eq_true, decide_eq_true_eq]
          omega
        · have : ∃ j, j < pb.v.length ∧ pb.d.getD j 0 < colSum sol j := by
            by_cases hex : ∃ j, j < pb.v.length ∧ pb.d.getD j 0 < colSum sol j
            · exact hex
            · exact absurd (fun j hj => by
                by_cases h0 : colSum sol j ≤ pb.d.getD j 0
                · exact h0
                · exact absurd ⟨j, hj, by omega⟩ hex) hcol
          obtain ⟨j, hj, hlt⟩ := this
          refine ⟨j, Nat.zero_le _, by simp only [Problem.nbSinks]; omega, ?_⟩
          rw [r2 j, getD_replicate_zero]
          simp only [decide_eq_true_eq]
          omega
      · intro k _ hk
        simp only [Problem.nbSources] at hk
        have := hrow k (by omega)
        rw [r1 k, getD_replicate_zero]
        simp only [decide_eq_false_iff_not, ne_eq, Decidable.not_not]
        omega
    · have : ∃ i, i < pb.u.length ∧ rowSum sol i ≠ pb.s.getD i 0 := by
        by_cases hex : ∃ i, i < pb.u.length ∧ rowSum sol i ≠ pb.s.getD i 0
        · exact hex
        · exact absurd (fun i hi => by
            by_cases h0 : rowSum sol i = pb.s.getD i 0
            · exact h0
            · exact absurd ⟨i, hi, h0⟩ hex) hrow
      obtain ⟨i, hi, hne⟩ := this
      refine ⟨.supNotMet, ?_⟩
      rw [cmpLoop_reject _ .supNotMet _ _ _ _ (by simp only [Problem.nbSources]; omega)
        (by simp only [Problem.nbSources]; omega)]
      · refine ⟨i, Nat.zero_le _, by simp only [Problem.nbSources]; omega, ?_⟩
        rw [r1 i, getD_replicate_zero]
        simp only [decide_eq_true_eq, ne_eq]
        omega
  · have : ∃ e ∈ sol, e.2.2 ≤ 0 := by
      by_cases hex : ∃ e ∈ sol, e.2.2 ≤ 0
      · exact hex
      · exact absurd (fun e he => by
          by_cases h0 : 0 < e.2.2
          · exact h0
          · exact absurd ⟨e, he, by omega⟩ hex) hp
    refine ⟨.allocNonPos, ?_⟩
    unfold checkSolutionValid
    rw [validLoop_reject sol _ _ hr' this]
    rfl

end ColoVerif.Transp1d
