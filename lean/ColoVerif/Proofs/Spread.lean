import ColoVerif.Model.Spread
import Mathlib.Tactic.Linarith
import Mathlib.Tactic.Ring
import Mathlib.Tactic.FieldSimp
/-
Helper lemmas for C06: the loop of `spreadCells` keeps every positive-demand cell strictly
inside `(lo, hi)`; `scatter` / the bin loop of `spreadCoordX/Y` preserve it.
-/
namespace ColoVerif.Spread

/-! ### list plumbing -/

theorem getD_set_self (l : List Rat) (i : Nat) (v : Rat) (h : i < l.length) :
    (l.set i v).getD i 0 = v := by
  simp [List.getD_eq_getElem?_getD, h]

theorem getD_set_ne (l : List Rat) (i j : Nat) (v : Rat) (h : i ≠ j) :
    (l.set i v).getD j 0 = l.getD j 0 := by
  simp [List.getD_eq_getElem?_getD, h]

theorem foldl_add (l : List Rat) (a : Rat) : l.foldl (· + ·) a = a + l.sum := by
  induction l generalizing a with
  | nil => simp
  | cons x xs ih => simp [List.foldl_cons, ih, List.sum_cons]; ring

theorem sumRat_eq (l : List Rat) : sumRat l = l.sum := by
  simp [sumRat, foldl_add]

/-- demands summed along an order list -/
def ordSum (demands : List Rat) (l : List (Rat × Nat)) : Rat :=
  (l.map fun e => demands.getD e.2 0).sum

theorem ordSum_cons (demands : List Rat) (e : Rat × Nat) (l : List (Rat × Nat)) :
    ordSum demands (e :: l) = demands.getD e.2 0 + ordSum demands l := by
  simp [ordSum, List.sum_cons]

theorem ordSum_nonneg (demands : List Rat) (hnn : ∀ c, 0 ≤ demands.getD c 0) (l : List (Rat × Nat)) :
    0 ≤ ordSum demands l := by
  induction l with
  | nil => simp [ordSum]
  | cons e l ih => rw [ordSum_cons]; have := hnn e.2; linarith

theorem ordSum_perm (demands : List Rat) {l₁ l₂ : List (Rat × Nat)} (h : l₁.Perm l₂) :
    ordSum demands l₁ = ordSum demands l₂ := by
  induction h with
  | nil => rfl
  | cons x _ ih => simp [ordSum_cons, ih]
  | swap x y l => simp [ordSum_cons]; ring
  | trans _ _ ih₁ ih₂ => rw [ih₁, ih₂]

theorem indexed_snd (ts : List Rat) (k : Nat) : (indexed ts k).map Prod.snd = List.range' k ts.length := by
  induction ts generalizing k with
  | nil => simp [indexed]
  | cons t ts ih => simp [indexed, ih, List.range'_succ]

theorem indexed_mem (ts : List Rat) (k i : Nat) (h : i < ts.length) :
    (ts.getD i 0, k + i) ∈ indexed ts k := by
  induction ts generalizing k i with
  | nil => simp at h
  | cons t ts ih =>
    cases i with
    | zero => simp [indexed]
    | succ i =>
      have h' : i < ts.length := by simpa using h
      have := ih (k + 1) i h'
      simp only [indexed, List.mem_cons]
      right
      have e : k + (i + 1) = k + 1 + i := by omega
      rw [e]
      simpa using this

theorem ordSum_indexed (demands pre ds ts : List Rat) (k : Nat) (hd : demands = pre ++ ds)
    (hk : pre.length = k) (hl : ts.length = ds.length) :
    ordSum demands (indexed ts k) = ds.sum := by
  induction ts generalizing pre ds k with
  | nil =>
    cases ds with
    | nil => simp [indexed, ordSum]
    | cons d ds => simp at hl
  | cons t ts ih =>
    cases ds with
    | nil => simp at hl
    | cons d ds =>
      have hl' : ts.length = ds.length := by simpa using hl
      have h1 := ih (pre ++ [d]) ds (k + 1) (by simp [hd]) (by simp [hk]) hl'
      simp only [indexed, ordSum_cons, h1, List.sum_cons]
      have : demands.getD k 0 = d := by
        subst hd; subst hk
        simp [List.getD_eq_getElem?_getD]
      rw [this]

/-! ### the loop -/

theorem coordAt_inside (dem lo hi : Rat) (h0 : 0 < dem) (h1 : dem < 1) (hlh : lo < hi) :
    lo < coordAt dem lo hi ∧ coordAt dem lo hi < hi := by
  have e : coordAt dem lo hi = lo + dem * (hi - lo) := by unfold coordAt; ring
  have hd : 0 < hi - lo := by linarith
  have p1 : 0 < dem * (hi - lo) := mul_pos h0 hd
  have p2 : 0 < (1 - dem) * (hi - lo) := mul_pos (by linarith) hd
  rw [e]
  constructor
  · linarith
  · nlinarith

theorem spreadLoop_cons (demands : List Rat) (inv lo hi : Rat) (e : Rat × Nat) (l : List (Rat × Nat))
    (st : Rat × List Rat) :
    spreadLoop demands inv lo hi (e :: l) st =
      spreadLoop demands inv lo hi l (spreadStep demands inv lo hi st e) := by
  simp [spreadLoop]

/-- Invariant of the loop of `spreadCells`. -/
theorem spreadLoop_inv (demands : List Rat) (inv lo hi : Rat)
    (hnn : ∀ c, 0 ≤ demands.getD c 0) (hinv : 0 < inv) (hlh : lo < hi)
    (l : List (Rat × Nat)) (st : Rat × List Rat)
    (h0 : 0 ≤ st.1) (h1 : st.1 + ordSum demands l * inv ≤ 1) (hnd : (l.map Prod.snd).Nodup) :
    (spreadLoop demands inv lo hi l st).2.length = st.2.length ∧
    (∀ e ∈ l, 0 < demands.getD e.2 0 → e.2 < st.2.length →
        lo < (spreadLoop demands inv lo hi l st).2.getD e.2 0 ∧
        (spreadLoop demands inv lo hi l st).2.getD e.2 0 < hi) ∧
    (∀ j, j ∉ l.map Prod.snd →
        (spreadLoop demands inv lo hi l st).2.getD j 0 = st.2.getD j 0) := by
  induction l generalizing st with
  | nil => simp [spreadLoop]
  | cons e l ih =>
    rw [spreadLoop_cons]
    have hnd' : (l.map Prod.snd).Nodup := (List.nodup_cons.mp (by simpa using hnd)).2
    have hnotin : e.2 ∉ l.map Prod.snd := (List.nodup_cons.mp (by simpa using hnd)).1
    have hos := ordSum_nonneg demands hnn l
    rw [ordSum_cons] at h1
    by_cases hd : demands.getD e.2 0 ≤ 0
    · -- skipped cell
      have hst : spreadStep demands inv lo hi st e = st := by unfold spreadStep; rw [if_pos hd]
      rw [hst]
      have hz : demands.getD e.2 0 = 0 := le_antisymm hd (hnn e.2)
      have h1' : st.1 + ordSum demands l * inv ≤ 1 := by rw [hz] at h1; linarith
      obtain ⟨a, b, c⟩ := ih st h0 h1' hnd'
      refine ⟨a, ?_, ?_⟩
      · intro e' he' hpos hlt
        rcases List.mem_cons.mp he' with rfl | hmem
        · exact absurd hpos (not_lt.mpr hd)
        · exact b e' hmem hpos hlt
      · intro j hj
        apply c
        intro hmem
        apply hj
        simp only [List.map_cons, List.mem_cons]
        right; exact hmem
    · -- placed cell
      have hpos : 0 < demands.getD e.2 0 := not_le.mp hd
      have hh : 0 < halfShare demands inv e.2 := by
        unfold halfShare
        have : 0 < (1 / 2 : Rat) := by norm_num
        exact mul_pos (mul_pos this hpos) hinv
      have h2 : halfShare demands inv e.2 + halfShare demands inv e.2 = demands.getD e.2 0 * inv := by
        unfold halfShare; ring
      have hst : spreadStep demands inv lo hi st e =
          (st.1 + halfShare demands inv e.2 + halfShare demands inv e.2,
           st.2.set e.2 (coordAt (st.1 + halfShare demands inv e.2) lo hi)) := by
        unfold spreadStep; rw [if_neg hd]
      rw [hst]
      have hsum : 0 ≤ ordSum demands l * inv := mul_nonneg hos (le_of_lt hinv)
      have h0' : 0 ≤ st.1 + halfShare demands inv e.2 + halfShare demands inv e.2 := by linarith
      have h1' : st.1 + halfShare demands inv e.2 + halfShare demands inv e.2 + ordSum demands l * inv ≤ 1 := by
        have : (demands.getD e.2 0 + ordSum demands l) * inv
            = demands.getD e.2 0 * inv + ordSum demands l * inv := by ring
        linarith
      obtain ⟨a, b, c⟩ := ih (st.1 + halfShare demands inv e.2 + halfShare demands inv e.2,
           st.2.set e.2 (coordAt (st.1 + halfShare demands inv e.2) lo hi)) h0' h1' hnd'
      have hlen : (st.2.set e.2 (coordAt (st.1 + halfShare demands inv e.2) lo hi)).length = st.2.length :=
        List.length_set
      refine ⟨by rw [a]; exact hlen, ?_, ?_⟩
      · intro e' he' hpos' hlt
        rcases List.mem_cons.mp he' with rfl | hmem
        · have hc := c e'.2 hnotin
          simp only at hc
          rw [hc, getD_set_self _ _ _ hlt]
          apply coordAt_inside _ _ _ (by linarith) (by linarith) hlh
        · exact b e' hmem hpos' (by simp only; rw [hlen]; exact hlt)
      · intro j hj
        have hj1 : j ∉ l.map Prod.snd := by
          intro hmem; apply hj
          simp only [List.map_cons, List.mem_cons]; right; exact hmem
        have hj2 : e.2 ≠ j := by
          intro heq; apply hj
          simp only [List.map_cons, List.mem_cons]; left; exact heq.symm
        have hc := c j hj1
        simp only at hc
        rw [hc, getD_set_ne _ _ _ _ hj2]

theorem getD_le_sum (l : List Rat) (hnn : ∀ d ∈ l, 0 ≤ d) (i : Nat) : l.getD i 0 ≤ l.sum := by
  induction l generalizing i with
  | nil => simp
  | cons x xs ih =>
    have hx : 0 ≤ x := hnn x (by simp)
    have hxs : ∀ d ∈ xs, 0 ≤ d := fun d hd => hnn d (by simp [hd])
    have hs : 0 ≤ xs.sum := by
      have := ih hxs xs.length
      simpa [List.getD_eq_getElem?_getD] using this
    cases i with
    | zero => simp [List.sum_cons]; exact hs
    | succ i =>
      have := ih hxs i
      simp [List.sum_cons] at this ⊢
      linarith

theorem getD_nonneg (l : List Rat) (hnn : ∀ d ∈ l, 0 ≤ d) (c : Nat) : 0 ≤ l.getD c 0 := by
  rw [List.getD_eq_getElem?_getD]
  cases h : l[c]? with
  | none => simp
  | some v => simp; exact hnn v (List.mem_of_getElem? h)

theorem spreadStep_length (demands : List Rat) (inv lo hi : Rat) (st : Rat × List Rat) (e : Rat × Nat) :
    (spreadStep demands inv lo hi st e).2.length = st.2.length := by
  unfold spreadStep
  split
  · rfl
  · simp

theorem spreadLoop_length (demands : List Rat) (inv lo hi : Rat) (l : List (Rat × Nat)) (st : Rat × List Rat) :
    (spreadLoop demands inv lo hi l st).2.length = st.2.length := by
  induction l generalizing st with
  | nil => simp [spreadLoop]
  | cons e l ih => rw [spreadLoop_cons, ih, spreadStep_length]

theorem spreadCells_length (targets demands : List Rat) (lo hi : Rat) :
    (spreadCells targets demands lo hi).length = targets.length := by
  simp [spreadCells, spreadLoop_length]

end ColoVerif.Spread
