import ColoVerif.Proofs.LegalizeIdem2Search
/-
Helper lemmas for C11, part 4: the `placeCell` loop of `AbacusLegalizer::run` on cells that already
sit legally in the segments, visited left to right within each y: every cell is pushed into its
own segment without conflict, `getPlacement` returns the original positions, `check()` passes.
-/
namespace ColoVerif.Legalize
open ColoVerif ColoVerif.RowLeg

/-- status of a cell that was placed exactly where it was -/
def finalPos (c : LCell) : Pos := ⟨c.tx, c.ty, c.torient, true⟩

/-- cell `c` sits in segment `k` of `S` and gets there the orientation it already has -/
def InSeg (S : List Row) (k : Nat) (c : LCell) : Prop :=
  (rowAt S k).rect.minY = c.ty ∧ (rowAt S k).rect.minX ≤ c.tx ∧ c.tx + c.w ≤ (rowAt S k).rect.maxX ∧
  getOrientation S c k = c.torient

/-- the input of the Abacus pass in the idempotence argument -/
structure IdemOK (S : List Row) (H : Int) (cells : List LCell) : Prop where
  sorted : SortedBy rowLt S
  heights : ∀ r ∈ S, r.rect.height = H
  disjoint : ∀ k1 k2, k1 < S.length → k2 < S.length → k1 ≠ k2 →
    (rowAt S k1).rect.minY = (rowAt S k2).rect.minY →
    (rowAt S k1).rect.maxX ≤ (rowAt S k2).rect.minX ∨ (rowAt S k2).rect.maxX ≤ (rowAt S k1).rect.minX
  seg : ∀ c ∈ cells, c.h = H ∧ 0 < c.w ∧ c.torient ≠ Orient.INVALID ∧ ∃ k, k < S.length ∧ InSeg S k c
  /-- the cells of one *segment* are listed left to right (cells of different segments of one y may come
  in any order: a cell's own segment costs 0, any other segment of that y costs > 0 or has no room) -/
  order : cells.Pairwise fun c1 c2 => ∀ k, k < S.length → InSeg S k c1 → InSeg S k c2 → c1.tx + c1.w ≤ c2.tx

/-! ### list plumbing -/

theorem rowAt_mem (S : List Row) (k : Nat) (hk : k < S.length) : rowAt S k ∈ S := by
  simp only [rowAt, List.getD_eq_getElem?_getD, List.getElem?_eq_getElem hk, Option.getD_some]
  exact List.getElem_mem hk

theorem cellAt_mem (cells : List LCell) (k : Nat) (hk : k < cells.length) : cellAt cells k ∈ cells := by
  simp only [cellAt, List.getD_eq_getElem?_getD, List.getElem?_eq_getElem hk, Option.getD_some]
  exact List.getElem_mem hk

theorem cellAt_pairwise {R : LCell → LCell → Prop} (cells : List LCell) (h : cells.Pairwise R) (j i : Nat)
    (hji : j < i) (hi : i < cells.length) : R (cellAt cells j) (cellAt cells i) := by
  have := (List.pairwise_iff_getElem.mp h) j i (by omega) hi hji
  simpa [cellAt, List.getD_eq_getElem?_getD, List.getElem?_eq_getElem hi,
    List.getElem?_eq_getElem (show j < cells.length by omega)] using this

theorem getD_set_eq {α : Type} (l : List α) (k : Nat) (v d : α) (hk : k < l.length) : (l.set k v).getD k d = v := by
  simp [List.getD_eq_getElem?_getD, hk]

theorem getD_set_ne {α : Type} (l : List α) (k k' : Nat) (v d : α) (hk : k ≠ k') :
    (l.set k v).getD k' d = l.getD k' d := by
  simp [List.getD_eq_getElem?_getD, hk]

theorem nc_fits (s : State) (lo : Int) (ts : List Int) (w t : Int) (h : NC s lo ts) (hlo : lo ≤ t)
    (he : t + w ≤ s.e) : w ≤ s.remaining := by
  have := h.begin_
  simp only [State.remaining]; omega

/-! ### the loop invariant -/

structure LoopInv (S : List Row) (cells : List LCell) (i : Nat) (a : Abacus) : Prop where
  rows : a.rows = S
  llen : a.legs.length = S.length
  clen : a.rowCells.length = S.length
  leg : ∀ k, k < S.length → ∃ h C lo,
    Reach (rowAt S k).rect.minX (rowAt S k).rect.maxX h C (legAt a.legs k) ∧
    NC (legAt a.legs k) lo (((a.rowCells.getD k []).map fun j => (cellAt cells j).tx).reverse) ∧
    (lo = (rowAt S k).rect.minX ∨
      ∃ j ∈ a.rowCells.getD k [], lo = (cellAt cells j).tx + (cellAt cells j).w)
  mem : ∀ k, k < S.length → ∀ j ∈ a.rowCells.getD k [], j < i ∧ InSeg S k (cellAt cells j)
  ord : ∀ k, k < S.length → (a.rowCells.getD k []).Pairwise fun j1 j2 =>
    (cellAt cells j1).tx + (cellAt cells j1).w ≤ (cellAt cells j2).tx
  cover : ∀ j, j < i → ∃ k, k < S.length ∧ j ∈ a.rowCells.getD k []

theorem loopInv_init (R : List Row) (cells : List LCell) : LoopInv (sortRows R) cells 0 (Abacus.init R) := by
  have hleg : ∀ k, k < (sortRows R).length →
      legAt (Abacus.init R).legs k = State.new (rowAt (sortRows R) k).rect.minX (rowAt (sortRows R) k).rect.maxX := by
    intro k hk
    simp [legAt, Abacus.init, rowAt, List.getD_eq_getElem?_getD, List.getElem?_eq_getElem hk]
  have hrc : ∀ k, (Abacus.init R).rowCells.getD k [] = [] := by
    intro k
    simp only [Abacus.init, List.getD_eq_getElem?_getD, List.getElem?_map]
    cases (sortRows R)[k]? <;> rfl
  refine ⟨rfl, by simp [Abacus.init], by simp [Abacus.init], ?_, ?_, ?_, ?_⟩
  · intro k hk
    rw [hleg k hk, hrc k]
    exact ⟨[], 0, _, Reach.new, nc_new _ _, Or.inl rfl⟩
  · intro k _ j hj; rw [hrc k] at hj; simp at hj
  · intro k _; rw [hrc k]; exact List.Pairwise.nil
  · intro j hj; omega

theorem loopInv_step (S : List Row) (H : Int) (cells : List LCell) (ok : IdemOK S H cells) (i : Nat)
    (a : Abacus) (inv : LoopInv S cells i a) (hi : i < cells.length) :
    (abacusPlace a i (cellAt cells i)).2 = true ∧ LoopInv S cells (i + 1) (abacusPlace a i (cellAt cells i)).1 := by
  have hrows := inv.rows
  subst hrows
  obtain ⟨hH, hw, hinv, k0, hk0, hseg⟩ := ok.seg _ (cellAt_mem cells i hi)
  -- everything already pushed into the cell's own segment lies left of the current cell
  have hleft : ∀ j ∈ a.rowCells.getD k0 [],
      (cellAt cells j).tx + (cellAt cells j).w ≤ (cellAt cells i).tx := by
    intro j hj
    obtain ⟨hji, hsj⟩ := inv.mem k0 hk0 j hj
    have := cellAt_pairwise cells ok.order j i hji hi
    exact this k0 hk0 hsj hseg
  obtain ⟨h0, C0, lo0, hr0, hnc0, hlo0⟩ := inv.leg k0 hk0
  have hlo : lo0 ≤ (cellAt cells i).tx := by
    rcases hlo0 with rfl | ⟨j, hj, rfl⟩
    · exact hseg.2.1
    · exact hleft j hj
  have ctx : SearchCtx a.rows a.legs (cellAt cells i) k0 := by
    refine ⟨hk0, inv.llen, ok.sorted, ?_, ?_, hw, hseg.1, ⟨lo0, _, hnc0, hlo⟩, hseg.2.2.1, ?_, ?_⟩
    · intro k hk; rw [hH]; exact ok.heights _ (rowAt_mem _ k hk)
    · intro k hk
      obtain ⟨h, C, _, hr, _, _⟩ := inv.leg k hk
      exact ⟨h, C, hr⟩
    · rw [hseg.2.2.2]; exact hinv
    · intro k hk hne hy
      have := ok.disjoint k k0 hk hk0 hne (by rw [hy, hseg.1])
      have h1 := hseg.2.1
      have h2 := hseg.2.2.1
      omega
  rw [ctx.place i]
  refine ⟨rfl, ⟨rfl, ?_, ?_, ?_, ?_, ?_, ?_⟩⟩
  · simp [inv.llen]
  · simp [inv.clen]
  · intro k hk
    by_cases hkk : k = k0
    · subst hkk
      have he : (cellAt cells i).tx + (cellAt cells i).w ≤ (legAt a.legs k).e := by
        rw [(reach_inv hr0).he]; exact hseg.2.2.1
      obtain ⟨_, hnc', _⟩ := push_no_conflict _ lo0 _ _ _ hnc0 hw hlo he
      have hfit := nc_fits _ lo0 _ _ _ hnc0 hlo he
      refine ⟨((cellAt cells i).w, (cellAt cells i).tx) :: h0,
        C0 + (push (legAt a.legs k) (cellAt cells i).w (cellAt cells i).tx).1,
        (cellAt cells i).tx + (cellAt cells i).w, ?_, ?_, Or.inr ⟨i, ?_, rfl⟩⟩
      · show Reach _ _ _ _ (legAt (a.legs.set k _) k)
        rw [show legAt (a.legs.set k (push (legAt a.legs k) (cellAt cells i).w (cellAt cells i).tx).2) k
            = (push (legAt a.legs k) (cellAt cells i).w (cellAt cells i).tx).2 from
          getD_set_eq _ _ _ _ (by rw [inv.llen]; exact hk)]
        exact Reach.push _ _ hr0 hw hfit
      · show NC (legAt (a.legs.set k _) k) _ (((a.rowCells.set k _).getD k []).map _).reverse
        rw [show legAt (a.legs.set k (push (legAt a.legs k) (cellAt cells i).w (cellAt cells i).tx).2) k
            = (push (legAt a.legs k) (cellAt cells i).w (cellAt cells i).tx).2 from
          getD_set_eq _ _ _ _ (by rw [inv.llen]; exact hk)]
        rw [getD_set_eq _ _ _ _ (by rw [inv.clen]; exact hk)]
        simpa [List.map_append, List.reverse_append] using hnc'
      · show i ∈ (a.rowCells.set k _).getD k []
        rw [getD_set_eq _ _ _ _ (by rw [inv.clen]; exact hk)]
        simp
    · obtain ⟨h, C, lo, hr, hnc, hl⟩ := inv.leg k hk
      refine ⟨h, C, lo, ?_, ?_, ?_⟩
      · show Reach _ _ _ _ (legAt (a.legs.set k0 _) k)
        rw [show legAt (a.legs.set k0 (push (legAt a.legs k0) (cellAt cells i).w (cellAt cells i).tx).2) k
            = legAt a.legs k from getD_set_ne _ _ _ _ _ (Ne.symm hkk)]
        exact hr
      · show NC (legAt (a.legs.set k0 _) k) _ (((a.rowCells.set k0 _).getD k []).map _).reverse
        rw [show legAt (a.legs.set k0 (push (legAt a.legs k0) (cellAt cells i).w (cellAt cells i).tx).2) k
            = legAt a.legs k from getD_set_ne _ _ _ _ _ (Ne.symm hkk)]
        rw [getD_set_ne _ _ _ _ _ (Ne.symm hkk)]
        exact hnc
      · show _ ∨ ∃ j ∈ (a.rowCells.set k0 _).getD k [], _
        rw [getD_set_ne _ _ _ _ _ (Ne.symm hkk)]
        exact hl
  · intro k hk j hj
    by_cases hkk : k = k0
    · subst hkk
      change j ∈ (a.rowCells.set k _).getD k [] at hj
      rw [getD_set_eq _ _ _ _ (by rw [inv.clen]; exact hk)] at hj
      rcases List.mem_append.mp hj with hj | hj
      · have := inv.mem k hk j hj
        exact ⟨by omega, this.2⟩
      · have : j = i := by simpa using hj
        subst this
        exact ⟨by omega, hseg⟩
    · change j ∈ (a.rowCells.set k0 _).getD k [] at hj
      rw [getD_set_ne _ _ _ _ _ (Ne.symm hkk)] at hj
      have := inv.mem k hk j hj
      exact ⟨by omega, this.2⟩
  · intro k hk
    by_cases hkk : k = k0
    · subst hkk
      show ((a.rowCells.set k _).getD k []).Pairwise _
      rw [getD_set_eq _ _ _ _ (by rw [inv.clen]; exact hk)]
      rw [List.pairwise_append]
      refine ⟨inv.ord k hk, List.pairwise_singleton _ _, ?_⟩
      intro j hj j' hj'
      have : j' = i := by simpa using hj'
      subst this
      exact hleft j hj
    · show ((a.rowCells.set k0 _).getD k []).Pairwise _
      rw [getD_set_ne _ _ _ _ _ (Ne.symm hkk)]
      exact inv.ord k hk
  · intro j hj
    by_cases hji : j = i
    · subst hji
      refine ⟨k0, hk0, ?_⟩
      show j ∈ (a.rowCells.set k0 _).getD k0 []
      rw [getD_set_eq _ _ _ _ (by rw [inv.clen]; exact hk0)]
      simp
    · obtain ⟨k, hk, hjk⟩ := inv.cover j (by omega)
      refine ⟨k, hk, ?_⟩
      show j ∈ (a.rowCells.set k0 _).getD k []
      by_cases hkk : k = k0
      · subst hkk
        rw [getD_set_eq _ _ _ _ (by rw [inv.clen]; exact hk)]
        exact List.mem_append_left _ hjk
      · rw [getD_set_ne _ _ _ _ _ (Ne.symm hkk)]
        exact hjk

theorem abacusLoop_cons (a : Abacus) (i : Nat) (c : LCell) (cs : List LCell) :
    abacusLoop a i (c :: cs) =
      ((abacusLoop (abacusPlace a i c).1 (i + 1) cs).1,
       (abacusPlace a i c).2 :: (abacusLoop (abacusPlace a i c).1 (i + 1) cs).2) := by
  simp only [abacusLoop]

theorem drop_cellAt (cells : List LCell) (i : Nat) (hi : i < cells.length) :
    cells.drop i = cellAt cells i :: cells.drop (i + 1) := by
  rw [List.drop_eq_getElem_cons hi]
  simp [cellAt, List.getD_eq_getElem?_getD, List.getElem?_eq_getElem hi]

theorem loopInv_run (S : List Row) (H : Int) (cells : List LCell) (ok : IdemOK S H cells) :
    ∀ (m i : Nat) (a : Abacus), i + m = cells.length → LoopInv S cells i a →
      LoopInv S cells cells.length (abacusLoop a i (cells.drop i)).1 ∧
      ∀ f ∈ (abacusLoop a i (cells.drop i)).2, f = true
  | 0, i, a, him, inv => by
    have : i = cells.length := by omega
    subst this
    simp only [List.drop_length, abacusLoop]
    exact ⟨inv, by simp⟩
  | m + 1, i, a, him, inv => by
    have hi : i < cells.length := by omega
    rw [drop_cellAt cells i hi, abacusLoop_cons]
    obtain ⟨h1, h2⟩ := loopInv_step S H cells ok i a inv hi
    obtain ⟨h3, h4⟩ := loopInv_run S H cells ok m (i + 1) _ (by omega) h2
    refine ⟨h3, ?_⟩
    intro f hf
    rcases List.mem_cons.mp hf with rfl | hf
    · exact h1
    · exact h4 f hf

/-! ### `getPlacement` written back, and `check()` -/

theorem posAt_set_lt (pos : List Pos) (j m : Nat) (v : Pos) (hm : m < pos.length) :
    posAt (pos.set j v) m = if j = m then v else posAt pos m := by
  simp only [posAt, List.getD_eq_getElem?_getD, List.getElem?_set]
  by_cases h : j = m
  · subst h; simp [hm]
  · simp [h]

theorem writeRow_length (S : List Row) (cells : List LCell) (row : Nat) :
    ∀ (rc : List Nat) (xs : List Int) (pos : List Pos), (writeRow S cells row rc xs pos).length = pos.length
  | [], _, _ => by simp [writeRow]
  | _ :: _, [], _ => by simp [writeRow]
  | c :: cs, x :: xs, pos => by
    simp only [writeRow]
    rw [writeRow_length S cells row cs xs]
    simp

theorem writeRow_final (S : List Row) (cells : List LCell) (row : Nat) :
    ∀ (rc : List Nat) (pos : List Pos),
      (∀ j ∈ rc, (⟨(cellAt cells j).tx, (rowAt S row).rect.minY, getOrientation S (cellAt cells j) row, true⟩ : Pos)
        = finalPos (cellAt cells j)) →
      ∀ m, m < pos.length → (posAt pos m = finalPos (cellAt cells m) ∨ m ∈ rc) →
        posAt (writeRow S cells row rc (rc.map fun j => (cellAt cells j).tx) pos) m = finalPos (cellAt cells m)
  | [], pos, _, m, _, h => by
    rcases h with h | h
    · simpa [writeRow] using h
    · simp at h
  | j :: rc, pos, hv, m, hm, h => by
    simp only [List.map_cons, writeRow]
    have hvj := hv j (by simp)
    change (⟨(cellAt cells j).tx, (rowAt S row).rect.minY, getOrientation S (cells.getD j default) row, true⟩ : Pos)
      = finalPos (cellAt cells j) at hvj
    rw [hvj]
    apply writeRow_final S cells row rc _ (fun j' hj' => hv j' (by simp [hj'])) m (by simpa using hm)
    rw [posAt_set_lt _ _ _ _ hm]
    by_cases hjm : j = m
    · subst hjm; left; simp
    · rw [if_neg hjm]
      rcases h with h | h
      · left; exact h
      · rcases List.mem_cons.mp h with h | h
        · exact absurd h.symm hjm
        · right; exact h

theorem writeRows_length (S : List Row) (cells : List LCell) :
    ∀ (rcs : List (List Nat)) (legs : List State) (i : Nat) (pos : List Pos),
      (writeRows S cells i rcs legs pos).length = pos.length
  | [], _, _, _ => by simp [writeRows]
  | _ :: _, [], _, _ => by simp [writeRows]
  | rc :: rcs, leg :: legs, i, pos => by
    simp only [writeRows]
    rw [writeRows_length S cells rcs legs, writeRow_length]

theorem writeRows_final (S : List Row) (cells : List LCell) :
    ∀ (rcs : List (List Nat)) (legs : List State) (i : Nat) (pos : List Pos), rcs.length = legs.length →
      (∀ k rc leg, rcs[k]? = some rc → legs[k]? = some leg →
        placement leg = (rc.map fun j => (cellAt cells j).tx) ∧
        ∀ j ∈ rc, (⟨(cellAt cells j).tx, (rowAt S (i + k)).rect.minY,
            getOrientation S (cellAt cells j) (i + k), true⟩ : Pos) = finalPos (cellAt cells j)) →
      ∀ m, m < pos.length → (posAt pos m = finalPos (cellAt cells m) ∨ ∃ rc ∈ rcs, m ∈ rc) →
        posAt (writeRows S cells i rcs legs pos) m = finalPos (cellAt cells m)
  | [], _, _, pos, _, _, m, _, h => by
    rcases h with h | ⟨rc, hrc, _⟩
    · simpa [writeRows] using h
    · simp at hrc
  | _ :: _, [], _, _, hl, _, _, _, _ => by simp at hl
  | rc :: rcs, leg :: legs, i, pos, hl, hg, m, hm, h => by
    simp only [writeRows]
    obtain ⟨hp, hv⟩ := hg 0 rc leg (by simp) (by simp)
    rw [hp]
    apply writeRows_final S cells rcs legs (i + 1) _ (by simpa using hl)
    · intro k rc' leg' h1 h2
      have := hg (k + 1) rc' leg' (by simpa using h1) (by simpa using h2)
      rw [show i + (k + 1) = i + 1 + k by omega] at this
      exact this
    · rw [writeRow_length]; exact hm
    · rcases h with h | ⟨rc', hrc', hm'⟩
      · left; exact writeRow_final S cells i rc pos hv m hm (Or.inl h)
      · rcases List.mem_cons.mp hrc' with rfl | hrc'
        · left; exact writeRow_final S cells i rc' pos hv m hm (Or.inr hm')
        · right; exact ⟨rc', hrc', hm'⟩

theorem zipAll_intro {α β : Type} (p : α → β → Bool) : ∀ (as : List α) (bs : List β),
    (∀ (k : Nat) (a : α) (b : β), as[k]? = some a → bs[k]? = some b → p a b = true) → zipAll p as bs = true
  | [], _, _ => by simp [zipAll]
  | _ :: _, [], _ => by simp [zipAll]
  | a :: as, b :: bs, h => by
    simp only [zipAll, Bool.and_eq_true]
    refine ⟨h 0 a b (by simp) (by simp), zipAll_intro p as bs ?_⟩
    intro k a' b' h1 h2
    exact h (k + 1) a' b' (by simpa using h1) (by simpa using h2)

theorem rowOrderOk_of_pairwise (cells : List LCell) (pos : List Pos) : ∀ (rc : List Nat),
    (rc.Pairwise fun c1 c2 => (posAt pos c1).x + (cellAt cells c1).w ≤ (posAt pos c2).x) →
    rowOrderOk cells pos rc = true
  | [], _ => by simp [rowOrderOk]
  | [_], _ => by simp [rowOrderOk]
  | c1 :: c2 :: cs, h => by
    simp only [rowOrderOk, Bool.and_eq_true, Bool.not_eq_true', decide_eq_false_iff_not, Int.not_lt]
    have h' := List.pairwise_cons.mp h
    exact ⟨by have := h'.1 c2 (by simp); omega, rowOrderOk_of_pairwise cells pos (c2 :: cs) h'.2⟩

theorem posAt_map (cells : List LCell) (f : LCell → Pos) (j : Nat) (hj : j < cells.length) :
    posAt (cells.map f) j = f (cellAt cells j) := by
  simp [posAt, cellAt, List.getD_eq_getElem?_getD, List.getElem?_eq_getElem hj]

/-- **The Abacus pass on an already legal input**: every cell is reported placed exactly where it
was, with the orientation it had, and `check()` passes. -/
theorem abacusRun_fixed (R : List Row) (H : Int) (cells : List LCell) (ok : IdemOK (sortRows R) H cells) :
    abacusRun R cells = .ok (cells.map finalPos) := by
  obtain ⟨inv, _⟩ := loopInv_run (sortRows R) H cells ok cells.length 0 (Abacus.init R) (by omega)
    (loopInv_init R cells)
  rw [List.drop_zero] at inv
  unfold abacusRun
  generalize hA : abacusLoop (Abacus.init R) 0 cells = A at inv
  obtain ⟨a, oks⟩ := A
  simp only at inv ⊢
  have hrows := inv.rows
  -- the statuses written back
  have hP : writeRows a.rows cells 0 a.rowCells a.legs (cells.map initPos) = cells.map finalPos := by
    apply List.ext_getElem
    · rw [writeRows_length]; simp
    · intro m h1 h2
      have hm : m < cells.length := by simpa using h2
      have := writeRows_final a.rows cells a.rowCells a.legs 0 (cells.map initPos)
        (by rw [inv.clen, inv.llen]) ?_ m (by simpa using hm) (Or.inr ?_)
      · have e1 : posAt (writeRows a.rows cells 0 a.rowCells a.legs (cells.map initPos)) m
            = (writeRows a.rows cells 0 a.rowCells a.legs (cells.map initPos))[m] := by
          simp [posAt, List.getD_eq_getElem?_getD, List.getElem?_eq_getElem h1]
        rw [← e1, this]
        simp [cellAt, List.getD_eq_getElem?_getD, List.getElem?_eq_getElem hm]
      · intro k rc leg h1 h2
        have hk : k < (sortRows R).length := by
          have := (List.getElem?_eq_some_iff.mp h1).1
          rw [inv.clen] at this; exact this
        have erc : a.rowCells.getD k [] = rc := by simp [List.getD_eq_getElem?_getD, h1]
        have eleg : legAt a.legs k = leg := by simp [legAt, List.getD_eq_getElem?_getD, h2]
        obtain ⟨_, _, _, _, hnc, _⟩ := inv.leg k hk
        rw [erc, eleg] at hnc
        refine ⟨?_, ?_⟩
        · rw [placement, hnc.place, List.reverse_reverse]
        · intro j hj
          have := (inv.mem k hk j (by rw [erc]; exact hj)).2
          rw [Nat.zero_add, hrows]
          simp only [finalPos, this.1, this.2.2.2]
      · obtain ⟨k, hk, hmk⟩ := inv.cover m hm
        refine ⟨a.rowCells.getD k [], ?_, hmk⟩
        have hk' : k < a.rowCells.length := by rw [inv.clen]; exact hk
        simp [List.getD_eq_getElem?_getD, List.getElem?_eq_getElem hk']
  rw [hP]
  have hpos : ∀ k, k < (sortRows R).length → ∀ j ∈ a.rowCells.getD k [],
      posAt (cells.map finalPos) j = finalPos (cellAt cells j) := by
    intro k hk j hj
    exact posAt_map cells finalPos j (inv.mem k hk j hj).1
  have hcheck : abacusCheck a.rows cells a.rowCells (cells.map finalPos) = .ok () := by
    unfold abacusCheck
    rw [hrows]
    have c1 : ((sortRows R).all fun r => r.rect.height == (((sortRows R).head?.map (·.rect.height)).getD 0)) = true := by
      rw [List.all_eq_true]
      intro r hr
      have hhd : ((sortRows R).head?.map (·.rect.height)).getD 0 = H := by
        cases hS : sortRows R with
        | nil => rw [hS] at hr; simp at hr
        | cons r0 rs =>
          simp only [List.head?_cons, Option.map_some, Option.getD_some]
          exact ok.heights r0 (by rw [hS]; simp)
      rw [hhd, ok.heights r hr]
      simp
    have c2 : zipAll (rowBoundsOk cells (cells.map finalPos)) (sortRows R) a.rowCells = true := by
      apply zipAll_intro
      intro k r rc h1 h2
      have hk : k < (sortRows R).length := (List.getElem?_eq_some_iff.mp h1).1
      have erc : a.rowCells.getD k [] = rc := by simp [List.getD_eq_getElem?_getD, h2]
      have er : rowAt (sortRows R) k = r := by simp [rowAt, List.getD_eq_getElem?_getD, h1]
      simp only [rowBoundsOk, List.all_eq_true, Bool.and_eq_true, Bool.not_eq_true', decide_eq_false_iff_not,
        Int.not_lt]
      intro j hj
      rw [hpos k hk j (by rw [erc]; exact hj)]
      have := (inv.mem k hk j (by rw [erc]; exact hj)).2
      simp only [InSeg, er] at this
      simp only [finalPos]
      exact ⟨this.2.1, this.2.2.1⟩
    have c3 : a.rowCells.all (rowOrderOk cells (cells.map finalPos)) = true := by
      rw [List.all_eq_true]
      intro rc hrc
      obtain ⟨k, hk, hget⟩ := List.getElem_of_mem hrc
      have hk' : k < (sortRows R).length := by rw [← inv.clen]; exact hk
      have erc : a.rowCells.getD k [] = rc := by
        simp [List.getD_eq_getElem?_getD, List.getElem?_eq_getElem hk, hget]
      apply rowOrderOk_of_pairwise
      have := inv.ord k hk'
      rw [erc] at this
      refine List.Pairwise.imp_of_mem ?_ this
      intro j1 j2 hj1 hj2 h12
      rw [hpos k hk' j1 (by rw [erc]; exact hj1), hpos k hk' j2 (by rw [erc]; exact hj2)]
      exact h12
    simp [c1, c2, c3]
  rw [hcheck]

end ColoVerif.Legalize
