import ColoVerif.Model.RowLegChecked
import ColoVerif.Proofs.CheckedArith
/-
Invariant and no-fault lemmas for the checked row legalizer (C07).
-/
namespace ColoVerif.RowLeg
open ColoVerif.Checked

def wsum : List Bound → Int
  | [] => 0
  | x :: xs => x.weight + wsum xs

@[simp] theorem wsum_nil : wsum [] = 0 := rfl
@[simp] theorem wsum_cons (x : Bound) (xs : List Bound) : wsum (x :: xs) = x.weight + wsum xs := rfl

theorem wsum_append (l1 l2 : List Bound) : wsum (l1 ++ l2) = wsum l1 + wsum l2 := by
  induction l1 with
  | nil => simp
  | cons x xs ih => simp [ih]; omega

theorem wsum_nonneg (l : List Bound) (h : ∀ x ∈ l, 0 ≤ x.weight) : 0 ≤ wsum l := by
  induction l with
  | nil => simp
  | cons x xs ih =>
    have := h x (by simp)
    have := ih (fun y hy => h y (by simp [hy]))
    simp; omega

theorem wsum_pqInsert (x : Bound) (l : List Bound) : wsum (pqInsert x l) = x.weight + wsum l := by
  induction l with
  | nil => simp [pqInsert]
  | cons y ys ih =>
    simp only [pqInsert]
    split
    · simp
    · simp [ih]; omega

theorem length_pqInsert (x : Bound) (l : List Bound) : (pqInsert x l).length = l.length + 1 := by
  induction l with
  | nil => simp [pqInsert]
  | cons y ys ih =>
    simp only [pqInsert]
    split <;> simp [ih]

theorem mem_pqInsert (x y : Bound) (l : List Bound) : y ∈ pqInsert x l ↔ y = x ∨ y ∈ l := by
  induction l with
  | nil => simp [pqInsert]
  | cons z zs ih =>
    simp only [pqInsert]
    split
    · simp
    · simp [ih]; constructor <;> (intro h; rcases h with h | h | h <;> simp [h])


theorem wsum_foldl_insert (passed rest : List Bound) :
    wsum (passed.foldl (fun q x => pqInsert x q) rest) = wsum passed + wsum rest := by
  induction passed generalizing rest with
  | nil => simp
  | cons x xs ih => simp [ih, wsum_pqInsert]; omega

theorem length_foldl_insert (passed rest : List Bound) :
    (passed.foldl (fun q x => pqInsert x q) rest).length = passed.length + rest.length := by
  induction passed generalizing rest with
  | nil => simp
  | cons x xs ih => simp [ih, length_pqInsert]; omega

theorem mem_foldl_insert (y : Bound) (passed rest : List Bound) :
    y ∈ passed.foldl (fun q x => pqInsert x q) rest ↔ y ∈ passed ∨ y ∈ rest := by
  induction passed generalizing rest with
  | nil => simp
  | cons x xs ih =>
    simp [ih, mem_pqInsert, or_assoc, or_left_comm]

/-- 2^22: the C07 magnitude -/
local notation "M22" => (4194304 : Int)
/-- bound on `|term|` of the cost accumulator: 2^23 · 2^23 = 2^46 -/
local notation "T46" => (70368744177664 : Int)
/-- bound on the accumulator during the loop: 2^62 -/
local notation "A62" => (4611686018427387904 : Int)

/-- a bound as the invariant sees it -/
def BoundOk (b e : Int) (x : Bound) : Prop := b ≤ x.absPos ∧ x.absPos ≤ e ∧ 0 ≤ x.weight

/-- what the `while` loop leaves behind -/
structure ScanPost (b e : Int) (bs : List Bound) (slope : Int) (passed : List Bound) (sc : Scan)
    (popped : List Bound) : Prop where
  split : bs = popped ++ sc.rest
  pass : sc.passed = passed.reverse ++ popped
  slopeEq : sc.slope = slope + wsum popped
  posLo : b ≤ sc.curPos
  posHi : sc.curPos ≤ e
  costLo : -(A62 - (sc.rest.length : Int) * T46) ≤ sc.curCost
  costHi : sc.curCost ≤ A62 - (sc.rest.length : Int) * T46


theorem term_bound {b e p1 p2 climit slope width : Int} (hbM : -M22 ≤ b) (heM : e ≤ M22)
    (h1 : b ≤ p1) (h1' : p1 ≤ e) (h2 : b ≤ p2) (h2' : p2 ≤ e) (_hc : b ≤ climit) (_hc' : climit ≤ e)
    (hs : 0 ≤ slope + width) (hs' : slope + width ≤ 2 * M22) :
    -T46 ≤ (min p1 climit - min p2 climit) * (slope + width) ∧
      (min p1 climit - min p2 climit) * (slope + width) ≤ T46 := by
  have := mul_bound (a := min p1 climit - min p2 climit) (c := slope + width) (A := 2 * M22) (C := 2 * M22)
    (by omega) (by omega) hs hs'
  omega

theorem scan_post (width tgt lim climit b e : Int) (hclo : b ≤ climit) (hchi : climit ≤ e)
    (hbM : -M22 ≤ b) (heM : e ≤ M22) :
    ∀ (bs : List Bound) (slope curPos curCost : Int) (passed : List Bound),
      (∀ x ∈ bs, BoundOk b e x) → -width ≤ slope → slope + wsum bs + width ≤ 2 * M22 →
      b ≤ curPos → curPos ≤ e →
      -(A62 - (bs.length : Int) * T46) ≤ curCost → curCost ≤ A62 - (bs.length : Int) * T46 →
      ∃ popped, ScanPost b e bs slope passed (scan width tgt lim climit bs slope curPos curCost passed) popped := by
  intro bs
  induction bs with
  | nil =>
    intro slope curPos curCost passed _ _ _ h1 h2 h3 h4
    refine ⟨[], ?_⟩
    constructor <;> simp_all [scan]
  | cons t rest ih =>
    intro slope curPos curCost passed hb hs hsum h1 h2 h3 h4
    have ht : BoundOk b e t := hb t (by simp)
    have hrest : ∀ x ∈ rest, BoundOk b e x := fun x hx => hb x (by simp [hx])
    have hwr : 0 ≤ wsum rest := wsum_nonneg rest (fun x hx => (hrest x hx).2.2)
    obtain ⟨ht1, ht2, ht3⟩ := ht
    simp only [wsum_cons] at hsum
    simp only [List.length_cons, Int.natCast_add, Int.natCast_one] at h3 h4
    by_cases hc : ((decide (slope < 0) && decide (t.absPos > tgt)) || decide (t.absPos > lim)) = true
    · have hterm := term_bound (p1 := curPos) (p2 := t.absPos) (climit := climit) (slope := slope) (width := width)
        hbM heM h1 h2 ht1 ht2 hclo hchi (by omega) (by omega)
      obtain ⟨popped, hp⟩ := ih (slope + t.weight) t.absPos
        (curCost + (min curPos climit - min t.absPos climit) * (slope + width)) (t :: passed)
        hrest (by omega) (by omega) ht1 ht2 (by omega) (by omega)
      refine ⟨t :: popped, ?_⟩
      rw [scan, if_pos hc]
      constructor
      · simp [← hp.split]
      · simp [hp.pass]
      · rw [hp.slopeEq]; simp; omega
      · exact hp.posLo
      · exact hp.posHi
      · exact hp.costLo
      · exact hp.costHi
    · refine ⟨[], ?_⟩
      rw [scan, if_neg hc]
      constructor <;> simp <;> omega


/-- one loop iteration never faults under the invariant's bounds -/
theorem scanStepC_ok {b e width climit slope curPos curCost : Int} {t : Bound} {n : Int}
    (hbM : -M22 ≤ b) (heM : e ≤ M22) (h1 : b ≤ curPos) (h1' : curPos ≤ e) (ht : BoundOk b e t)
    (hc : b ≤ climit) (hc' : climit ≤ e) (hs : -width ≤ slope) (hs' : slope + t.weight + width ≤ 2 * M22)
    (hw : 0 ≤ width) (hw2 : width ≤ 2 * M22) (hn : 0 ≤ n)
    (h3 : -(A62 - (n + 1) * T46) ≤ curCost) (h4 : curCost ≤ A62 - (n + 1) * T46) :
    scanStepC width climit slope curPos curCost t =
      .ok (slope + t.weight, curCost + (min curPos climit - min t.absPos climit) * (slope + width)) := by
  obtain ⟨ht1, ht2, ht3⟩ := ht
  have hterm := term_bound (p1 := curPos) (p2 := t.absPos) (climit := climit) (slope := slope) (width := width)
    hbM heM h1 h1' ht1 ht2 hc hc' (by omega) (by omega)
  have e1 : subI32 "getDisplacement: min(old_pos,costLimit) - min(cur_pos,costLimit)" (min curPos climit)
      (min t.absPos climit) = .ok (min curPos climit - min t.absPos climit) :=
    chk32_ok' (by omega) (by omega)
  have e2 : addI32 "getDisplacement: slope + width" slope width = .ok (slope + width) :=
    chk32_ok' (by omega) (by omega)
  have e3 : mulI64 "getDisplacement: (long long)(…) * (slope + width)" (min curPos climit - min t.absPos climit)
      (slope + width) = .ok ((min curPos climit - min t.absPos climit) * (slope + width)) :=
    chk64_ok' (by omega) (by omega)
  have e4 : addI64 "getDisplacement: cur_cost +=" curCost
      ((min curPos climit - min t.absPos climit) * (slope + width)) =
      .ok (curCost + (min curPos climit - min t.absPos climit) * (slope + width)) :=
    chk64_ok' (by omega) (by omega)
  have e5 : addI32 "getDisplacement: slope += weight" slope t.weight = .ok (slope + t.weight) :=
    chk32_ok' (by omega) (by omega)
  simp only [scanStepC, e1, e2, e3, e4, e5, bind, Except.bind, pure, Except.pure]

theorem scanC_eq (width tgt lim climit b e : Int) (hw : 0 ≤ width) (hw2 : width ≤ 2 * M22) (hclo : b ≤ climit) (hchi : climit ≤ e)
    (hbM : -M22 ≤ b) (heM : e ≤ M22) :
    ∀ (bs : List Bound) (slope curPos curCost : Int) (passed : List Bound),
      (∀ x ∈ bs, BoundOk b e x) → -width ≤ slope → slope + wsum bs + width ≤ 2 * M22 →
      b ≤ curPos → curPos ≤ e →
      -(A62 - (bs.length : Int) * T46) ≤ curCost → curCost ≤ A62 - (bs.length : Int) * T46 →
      scanC width tgt lim climit bs slope curPos curCost passed =
        .ok (scan width tgt lim climit bs slope curPos curCost passed) := by
  intro bs
  induction bs with
  | nil => intros; simp [scanC, scan]
  | cons t rest ih =>
    intro slope curPos curCost passed hb hs hsum h1 h2 h3 h4
    have ht : BoundOk b e t := hb t (by simp)
    have hrest : ∀ x ∈ rest, BoundOk b e x := fun x hx => hb x (by simp [hx])
    have hwr : 0 ≤ wsum rest := wsum_nonneg rest (fun x hx => (hrest x hx).2.2)
    simp only [wsum_cons] at hsum
    simp only [List.length_cons, Int.natCast_add, Int.natCast_one] at h3 h4
    by_cases hc : ((decide (slope < 0) && decide (t.absPos > tgt)) || decide (t.absPos > lim)) = true
    · have hstep := scanStepC_ok (n := (rest.length : Int)) hbM heM h1 h2 ht hclo hchi hs (by omega) hw hw2
        (by omega) h3 h4
      have hterm := term_bound (p1 := curPos) (p2 := t.absPos) (climit := climit) (slope := slope) (width := width)
        hbM heM h1 h2 ht.1 ht.2.1 hclo hchi (by omega) (by have := ht.2.2; omega)
      rw [scanC, if_pos hc, hstep, scan, if_pos hc]
      exact ih _ _ _ _ hrest (by have := ht.2.2; omega) (by omega) ht.1 ht.2.1 (by omega) (by omega)
    · rw [scanC, if_neg hc, scan, if_neg hc]


/-! ### the invariant -/

/-- every pushed cell was placed inside `[b, e - (its cumulated width)]` -/
def CposOk (b e : Int) : List Int → List Int → Prop
  | c :: cs, w :: ws => b ≤ c ∧ c + (w + ws.sum) ≤ e ∧ CposOk b e cs ws
  | _, _ => True

/-- number of cells per row segment covered by the theorems (2^15): with at most 2^16 bounds in
the queue and `|term| ≤ 2^46` the 64-bit accumulator stays below 2^62 + 2^46 + 2^47 -/
def maxCells : Nat := 32768

/-- the C07 domain of a row-legalizer state: ends within ±2^22, positive widths that fit, and the
facts that make the arithmetic fit (bounds inside the segment with non-negative weights whose sum is
at most the used width, at most two bounds per cell) -/
structure Dom (s : State) : Prop where
  hb : -M22 ≤ s.b
  he : s.e ≤ M22
  wpos : ∀ w ∈ s.widthsRev, 0 < w
  fit : s.used ≤ s.e - s.b
  ncells : s.widthsRev.length ≤ maxCells
  blen : s.bounds.length ≤ 2 * s.widthsRev.length
  bok : ∀ x ∈ s.bounds, BoundOk s.b s.e x
  bsum : wsum s.bounds ≤ s.used
  cpos : CposOk s.b s.e s.cposRev s.widthsRev

theorem sum_nonneg_of_pos (l : List Int) (h : ∀ w ∈ l, 0 < w) : 0 ≤ l.sum := by
  induction l with
  | nil => simp
  | cons x xs ih =>
    have := h x (by simp)
    have := ih (fun y hy => h y (by simp [hy]))
    simp; omega

theorem Dom.used_nonneg {s : State} (hd : Dom s) : 0 ≤ s.used := sum_nonneg_of_pos _ hd.wpos

theorem dom_new (b e : Int) (hb : -M22 ≤ b) (he : e ≤ M22) (hbe : b ≤ e) : Dom (State.new b e) := by
  constructor <;> simp [State.new, State.used, CposOk, maxCells] <;> omega

/-! ### `getDisplacement` -/

def scanOf (s : State) (w t : Int) : Scan :=
  scan w (t - s.used) (s.e - s.used - w) (s.e - s.used) s.bounds (-w) s.e 0 []

def finOf (s : State) (w t : Int) : Int :=
  min (s.e - s.used - w) (max s.b (if (scanOf s w t).slope ≥ 0 then (scanOf s w t).curPos else t - s.used))

def cost1Of (s : State) (w t : Int) : Int :=
  (scanOf s w t).curCost + (min (scanOf s w t).curPos (s.e - s.used) - finOf s w t) * ((scanOf s w t).slope + w)

theorem displacement_eq (s : State) (w t : Int) :
    displacement s w t =
      ⟨cost1Of s w t + w * ((finOf s w t - (t - s.used)).natAbs : Int), finOf s w t, scanOf s w t⟩ := rfl

/-- everything the later steps need to know about the state after the loop -/
structure CoreFacts (s : State) (w t : Int) (popped : List Bound) : Prop where
  split : s.bounds = popped ++ (scanOf s w t).rest
  pass : (scanOf s w t).passed = popped
  slopeEq : (scanOf s w t).slope = -w + wsum popped
  posLo : s.b ≤ (scanOf s w t).curPos
  posHi : (scanOf s w t).curPos ≤ s.e
  finLo : s.b ≤ finOf s w t
  finHi : finOf s w t ≤ s.e - s.used - w
  c1Lo : -(A62 + T46) ≤ cost1Of s w t
  c1Hi : cost1Of s w t ≤ A62 + T46

theorem core_facts {s : State} (hd : Dom s) {w t : Int} (hw : 0 < w) (hfit : w ≤ s.remaining) :
    ∃ popped, CoreFacts s w t popped := by
  have hu := hd.used_nonneg
  have hfit' : w ≤ s.e - s.b - s.used := hfit
  have hb := hd.hb
  have he := hd.he
  have hws : 0 ≤ wsum s.bounds := wsum_nonneg _ (fun x hx => (hd.bok x hx).2.2)
  have hlen : (s.bounds.length : Int) ≤ 65536 := by
    have h1 := hd.blen
    have h2 := hd.ncells
    simp only [maxCells] at h2
    omega
  obtain ⟨popped, hp⟩ := scan_post w (t - s.used) (s.e - s.used - w) (s.e - s.used) s.b s.e
    (by omega) (by omega) hb he s.bounds (-w) s.e 0 [] hd.bok (by omega) (by have := hd.bsum; omega)
    (by omega) (by omega) (by omega) (by omega)
  refine ⟨popped, ?_⟩
  have hsplit : s.bounds = popped ++ (scanOf s w t).rest := hp.split
  have hwsp : wsum s.bounds = wsum popped + wsum (scanOf s w t).rest := by
    rw [← wsum_append, ← hsplit]
  have hpopped : 0 ≤ wsum popped := wsum_nonneg _ (fun x hx => (hd.bok x (by rw [hsplit]; simp [hx])).2.2)
  have hrestw : 0 ≤ wsum (scanOf s w t).rest :=
    wsum_nonneg _ (fun x hx => (hd.bok x (by rw [hsplit]; simp [hx])).2.2)
  have hslope : (scanOf s w t).slope = -w + wsum popped := hp.slopeEq
  have hpl : s.b ≤ (scanOf s w t).curPos := hp.posLo
  have hph : (scanOf s w t).curPos ≤ s.e := hp.posHi
  have hfl : s.b ≤ finOf s w t := by unfold finOf; omega
  have hfh : finOf s w t ≤ s.e - s.used - w := by unfold finOf; omega
  have hcl : -(A62 - ((scanOf s w t).rest.length : Int) * T46) ≤ (scanOf s w t).curCost := hp.costLo
  have hch : (scanOf s w t).curCost ≤ A62 - ((scanOf s w t).rest.length : Int) * T46 := hp.costHi
  have hbs := hd.bsum
  have hterm := mul_bound (a := min (scanOf s w t).curPos (s.e - s.used) - finOf s w t)
    (c := (scanOf s w t).slope + w) (A := 2 * M22) (C := 2 * M22) (by omega) (by omega) (by omega) (by omega)
  have hrl : (0 : Int) ≤ ((scanOf s w t).rest.length : Int) := Int.natCast_nonneg _
  constructor
  · exact hsplit
  · have h := hp.pass
    simp only [List.reverse_nil, List.nil_append] at h
    exact h
  · exact hslope
  · exact hpl
  · exact hph
  · exact hfl
  · exact hfh
  · unfold cost1Of; omega
  · unfold cost1Of; omega


theorem coreC_eq (asr : Bool) {s : State} (hd : Dom s) {w t : Int} (hw : 0 < w) (hfit : w ≤ s.remaining)
    (ht1 : -M22 ≤ t) (ht2 : t ≤ M22) :
    coreC asr s w t = .ok ⟨t - s.used, finOf s w t, cost1Of s w t, scanOf s w t⟩ := by
  obtain ⟨popped, hf⟩ := core_facts (t := t) hd hw hfit
  have hu := hd.used_nonneg
  have hfit' : w ≤ s.e - s.b - s.used := hfit
  have hb := hd.hb
  have he := hd.he
  have hws : 0 ≤ wsum s.bounds := wsum_nonneg _ (fun x hx => (hd.bok x hx).2.2)
  have hbs := hd.bsum
  have hlen : (s.bounds.length : Int) ≤ 65536 := by
    have h1 := hd.blen
    have h2 := hd.ncells
    simp only [maxCells] at h2
    omega
  have hpopped : 0 ≤ wsum popped :=
    wsum_nonneg _ (fun x hx => (hd.bok x (by rw [hf.split]; simp [hx])).2.2)
  have hrestw : 0 ≤ wsum (scanOf s w t).rest :=
    wsum_nonneg _ (fun x hx => (hd.bok x (by rw [hf.split]; simp [hx])).2.2)
  have hwsp : wsum s.bounds = wsum popped + wsum (scanOf s w t).rest := by
    rw [← wsum_append, ← hf.split]
  have hslope := hf.slopeEq
  have hpl := hf.posLo
  have hph := hf.posHi
  have hfl := hf.finLo
  have hfh := hf.finHi
  have hterm := mul_bound (a := min (scanOf s w t).curPos (s.e - s.used) - finOf s w t)
    (c := (scanOf s w t).slope + w) (A := 2 * M22) (C := 2 * M22) (by omega) (by omega) (by omega) (by omega)
  have e1 : subI32 "getDisplacement: targetPos - usedSpace()" t s.used = .ok (t - s.used) :=
    chk32_ok' (by omega) (by omega)
  have e2 : negI32 "getDisplacement: -width" w = .ok (-w) := chk32_ok' (by omega) (by omega)
  have e3 : subI32 "getDisplacement: end_ - usedSpace()" s.e s.used = .ok (s.e - s.used) :=
    chk32_ok' (by omega) (by omega)
  have e4 : subI32 "getDisplacement: end_ - usedSpace() - width" (s.e - s.used) w = .ok (s.e - s.used - w) :=
    chk32_ok' (by omega) (by omega)
  have e5 : scanC w (t - s.used) (s.e - s.used - w) (s.e - s.used) s.bounds (-w) s.e 0 [] = .ok (scanOf s w t) :=
    scanC_eq w (t - s.used) (s.e - s.used - w) (s.e - s.used) s.b s.e (by omega) (by omega) (by omega) (by omega)
      hb he s.bounds (-w) s.e 0 [] hd.bok (by omega) (by omega) (by omega) (by omega) (by omega) (by omega)
  have a1 : assertC asr "getDisplacement: cur_pos >= begin_" (decide ((scanOf s w t).curPos ≥ s.b)) = .ok () :=
    assertC_true _ _ (by simpa using hpl)
  have e6 : subI32 "getDisplacement: min(cur_pos,costLimit) - finalAbsPos"
      (min (scanOf s w t).curPos (s.e - s.used)) (finOf s w t) =
      .ok (min (scanOf s w t).curPos (s.e - s.used) - finOf s w t) := chk32_ok' (by omega) (by omega)
  have e7 : addI32 "getDisplacement: slope + width (final)" (scanOf s w t).slope w = .ok ((scanOf s w t).slope + w) :=
    chk32_ok' (by omega) (by omega)
  have e8 : mulI64 "getDisplacement: (long long)(…) * (slope + width) (final)"
      (min (scanOf s w t).curPos (s.e - s.used) - finOf s w t) ((scanOf s w t).slope + w) =
      .ok ((min (scanOf s w t).curPos (s.e - s.used) - finOf s w t) * ((scanOf s w t).slope + w)) :=
    chk64_ok' (by omega) (by omega)
  have hc1l := hf.c1Lo
  have hc1h := hf.c1Hi
  have e9 : addI64 "getDisplacement: cur_cost += (final)" (scanOf s w t).curCost
      ((min (scanOf s w t).curPos (s.e - s.used) - finOf s w t) * ((scanOf s w t).slope + w)) =
      .ok (cost1Of s w t) := by
    unfold cost1Of at hc1l hc1h ⊢
    exact chk64_ok' (by omega) (by omega)
  have a2 : assertC asr "getDisplacement: finalAbsPos >= begin_" (decide (finOf s w t ≥ s.b)) = .ok () :=
    assertC_true _ _ (by simpa using hfl)
  have a3 : assertC asr "getDisplacement: finalAbsPos <= end_ - usedSpace() - width"
      (decide (finOf s w t ≤ s.e - s.used - w)) = .ok () := assertC_true _ _ (by simpa using hfh)
  have hfin : min (s.e - s.used - w) (max s.b (if (scanOf s w t).slope ≥ 0 then (scanOf s w t).curPos else t - s.used))
      = finOf s w t := rfl
  simp only [coreC, e1, e2, e3, e4, e5, a1, hfin, e6, e7, e8, e9, a2, a3, bind, Except.bind, pure, Except.pure]

theorem retC_eq {s : State} (hd : Dom s) {w t : Int} (hw : 0 < w) (hfit : w ≤ s.remaining)
    (ht1 : -M22 ≤ t) (ht2 : t ≤ M22) :
    retC w ⟨t - s.used, finOf s w t, cost1Of s w t, scanOf s w t⟩ = .ok (displacement s w t).cost := by
  obtain ⟨popped, hf⟩ := core_facts (t := t) hd hw hfit
  have hu := hd.used_nonneg
  have hfit' : w ≤ s.e - s.b - s.used := hfit
  have hb := hd.hb
  have he := hd.he
  have hfl := hf.finLo
  have hfh := hf.finHi
  have hc1l := hf.c1Lo
  have hc1h := hf.c1Hi
  have hq := mul_bound_nonneg (a := w) (c := ((finOf s w t - (t - s.used)).natAbs : Int)) (A := 2 * M22) (C := 4 * M22)
    (by omega) (by omega) (by omega) (by omega)
  have e1 : subI32 "getDisplacement: finalAbsPos - targetAbsPos" (finOf s w t) (t - s.used) =
      .ok (finOf s w t - (t - s.used)) := chk32_ok' (by omega) (by omega)
  have e2 : absI32 "getDisplacement: std::abs" (finOf s w t - (t - s.used)) =
      .ok ((finOf s w t - (t - s.used)).natAbs : Int) := chk32_ok' (by omega) (by omega)
  have e3 : mulI64 "getDisplacement: (long long)width * abs" w ((finOf s w t - (t - s.used)).natAbs : Int) =
      .ok (w * ((finOf s w t - (t - s.used)).natAbs : Int)) := chk64_ok' (by omega) (by omega)
  have e4 : addI64 "getDisplacement: cur_cost + width * abs" (cost1Of s w t)
      (w * ((finOf s w t - (t - s.used)).natAbs : Int)) =
      .ok (cost1Of s w t + w * ((finOf s w t - (t - s.used)).natAbs : Int)) := chk64_ok' (by omega) (by omega)
  simp only [retC, e1, e2, e3, e4, bind, Except.bind, displacement_eq]

theorem getCostC_eq (asr : Bool) {s : State} (hd : Dom s) {w t : Int} (hw : 0 < w) (hfit : w ≤ s.remaining)
    (ht1 : -M22 ≤ t) (ht2 : t ≤ M22) : getCostC asr s w t = .ok (getCost s w t) := by
  simp only [getCostC, coreC_eq asr hd hw hfit ht1 ht2, retC_eq hd hw hfit ht1 ht2, bind, Except.bind, pure,
    Except.pure, getCost, displacement_eq]

theorem pushC_eq (asr : Bool) {s : State} (hd : Dom s) {w t : Int} (hw : 0 < w) (hfit : w ≤ s.remaining)
    (ht1 : -M22 ≤ t) (ht2 : t ≤ M22) : pushC asr s w t = .ok (push s w t) := by
  obtain ⟨popped, hf⟩ := core_facts (t := t) hd hw hfit
  have hu := hd.used_nonneg
  have hfit' : w ≤ s.e - s.b - s.used := hfit
  have hb := hd.hb
  have he := hd.he
  have hbs := hd.bsum
  have hpopped : 0 ≤ wsum popped :=
    wsum_nonneg _ (fun x hx => (hd.bok x (by rw [hf.split]; simp [hx])).2.2)
  have hrestw : 0 ≤ wsum (scanOf s w t).rest :=
    wsum_nonneg _ (fun x hx => (hd.bok x (by rw [hf.split]; simp [hx])).2.2)
  have hwsp : wsum s.bounds = wsum popped + wsum (scanOf s w t).rest := by
    rw [← wsum_append, ← hf.split]
  have hslope := hf.slopeEq
  have e1 : addI32 "getDisplacement: width + usedSpace()" w s.used = .ok (w + s.used) :=
    chk32_ok' (by omega) (by omega)
  have e2 : mulI32 "getDisplacement: 2 * width" 2 w = .ok (2 * w) := chk32_ok' (by omega) (by omega)
  have e3 : addI32 "getDisplacement: 2 * width + min(slope,0)" (2 * w) (min (scanOf s w t).slope 0) =
      .ok (2 * w + min (scanOf s w t).slope 0) := chk32_ok' (by omega) (by omega)
  have e4 : ∀ q1, newBoundC w ⟨t - s.used, finOf s w t, cost1Of s w t, scanOf s w t⟩ q1 =
      .ok (pqInsert ⟨min (t - s.used) (finOf s w t), 2 * w + min (scanOf s w t).slope 0⟩ q1) := by
    intro q1
    simp only [newBoundC, e2, e3, bind, Except.bind, pure, Except.pure]
  by_cases hb' : t - s.used > s.b
  · simp only [pushC, coreC_eq asr hd hw hfit ht1 ht2, retC_eq hd hw hfit ht1 ht2, e1, e4, hb', if_true, bind,
      Except.bind, pure, Except.pure, push, displacement_eq]
    rfl
  · simp only [pushC, coreC_eq asr hd hw hfit ht1 ht2, retC_eq hd hw hfit ht1 ht2, e1, hb', if_false, bind,
      Except.bind, pure, Except.pure, push, displacement_eq]
    rfl

/-! ### the invariant is preserved -/

theorem push_state (s : State) (w t : Int) :
    (push s w t).2 =
      { s with
        cposRev := finOf s w t :: s.cposRev
        widthsRev := w :: s.widthsRev
        bounds :=
          if t - s.used > s.b then
            pqInsert ⟨min (t - s.used) (finOf s w t), 2 * w + min (scanOf s w t).slope 0⟩
              (if (scanOf s w t).slope > 0 then pqInsert ⟨(scanOf s w t).curPos, (scanOf s w t).slope⟩ (scanOf s w t).rest
               else (scanOf s w t).rest)
          else
            (if (scanOf s w t).slope > 0 then pqInsert ⟨(scanOf s w t).curPos, (scanOf s w t).slope⟩ (scanOf s w t).rest
             else (scanOf s w t).rest) } := rfl

theorem push_dom {s : State} (hd : Dom s) {w t : Int} (hw : 0 < w) (hfit : w ≤ s.remaining)
    (hn : s.widthsRev.length < maxCells) : Dom (push s w t).2 := by
  obtain ⟨popped, hf⟩ := core_facts (t := t) hd hw hfit
  have hu := hd.used_nonneg
  have hfit' : w ≤ s.e - s.b - s.used := hfit
  have hbs := hd.bsum
  have hpopped : 0 ≤ wsum popped :=
    wsum_nonneg _ (fun x hx => (hd.bok x (by rw [hf.split]; simp [hx])).2.2)
  have hrestok : ∀ x ∈ (scanOf s w t).rest, BoundOk s.b s.e x :=
    fun x hx => hd.bok x (by rw [hf.split]; simp [hx])
  have hrestw : 0 ≤ wsum (scanOf s w t).rest := wsum_nonneg _ (fun x hx => (hrestok x hx).2.2)
  have hwsp : wsum s.bounds = wsum popped + wsum (scanOf s w t).rest := by
    rw [← wsum_append, ← hf.split]
  have hlen : s.bounds.length = popped.length + (scanOf s w t).rest.length := by
    rw [← List.length_append, ← hf.split]
  have hslope := hf.slopeEq
  have hpl := hf.posLo
  have hph := hf.posHi
  have hfl := hf.finLo
  have hfh := hf.finHi
  have hblen := hd.blen
  rw [push_state]
  have hused : (w :: s.widthsRev).sum = w + s.used := by simp [State.used]
  constructor
  · exact hd.hb
  · exact hd.he
  · intro x hx
    simp only [List.mem_cons] at hx
    rcases hx with hx | hx
    · omega
    · exact hd.wpos x hx
  · show (w :: s.widthsRev).sum ≤ s.e - s.b
    omega
  · simp only [List.length_cons]; omega
  · simp only [List.length_cons]
    split <;> split <;> (try simp only [length_pqInsert]) <;> omega
  · intro x hx
    simp only [BoundOk] at hrestok ⊢
    split at hx
    · rw [mem_pqInsert] at hx
      rcases hx with hx | hx
      · subst hx; (try simp only); omega
      · split at hx
        · rw [mem_pqInsert] at hx
          rcases hx with hx | hx
          · subst hx; (try simp only); omega
          · exact hrestok x hx
        · exact hrestok x hx
    · split at hx
      · rw [mem_pqInsert] at hx
        rcases hx with hx | hx
        · subst hx; (try simp only); omega
        · exact hrestok x hx
      · exact hrestok x hx
  · show _ ≤ (w :: s.widthsRev).sum
    rw [hused]
    split <;> split <;> (try simp only [wsum_pqInsert]) <;> omega
  · simp only [CposOk]
    refine ⟨hfl, ?_, hd.cpos⟩
    have : s.widthsRev.sum = s.used := rfl
    omega

theorem getCost_state (s : State) (w t : Int) :
    (getCost s w t).2 =
      { s with bounds := (scanOf s w t).passed.foldl (fun q x => pqInsert x q) (scanOf s w t).rest } := rfl

theorem getCost_dom {s : State} (hd : Dom s) {w t : Int} (hw : 0 < w) (hfit : w ≤ s.remaining) :
    Dom (getCost s w t).2 := by
  obtain ⟨popped, hf⟩ := core_facts (t := t) hd hw hfit
  have hwsp : wsum s.bounds = wsum popped + wsum (scanOf s w t).rest := by
    rw [← wsum_append, ← hf.split]
  have hlen : s.bounds.length = popped.length + (scanOf s w t).rest.length := by
    rw [← List.length_append, ← hf.split]
  rw [getCost_state, hf.pass]
  constructor
  · exact hd.hb
  · exact hd.he
  · exact hd.wpos
  · exact hd.fit
  · exact hd.ncells
  · have := hd.blen
    simp only [length_foldl_insert]; omega
  · intro x hx
    rw [mem_foldl_insert] at hx
    exact hd.bok x (by rw [hf.split]; simp only [List.mem_append]; exact hx)
  · have := hd.bsum
    show wsum _ ≤ s.used
    rw [wsum_foldl_insert]; omega
  · exact hd.cpos

/-- `getCost` answers and leaves every later answer unchanged as far as the domain is concerned:
the state after a query has the same cells and the same segment -/
theorem getCost_same_cells (s : State) (w t : Int) :
    (getCost s w t).2.widthsRev = s.widthsRev ∧ (getCost s w t).2.cposRev = s.cposRev ∧
      (getCost s w t).2.b = s.b ∧ (getCost s w t).2.e = s.e := ⟨rfl, rfl, rfl, rfl⟩

/-! ### `getPlacement` -/

theorem placeRevC_eq (asr : Bool) (b e : Int) (hb : -M22 ≤ b) (he : e ≤ M22) :
    ∀ (cs ws : List Int) (o : Option Int), (∀ m, o = some m → b ≤ m) → CposOk b e cs ws → (∀ w ∈ ws, 0 < w) →
      placeRevC asr b e (runMin o cs) ws = .ok (List.zipWith (· + ·) (runMin o cs) (cumRev ws)) := by
  intro cs
  induction cs with
  | nil => intro ws o _ _ _; cases ws <;> simp [runMin, placeRevC, pure, Except.pure]
  | cons c cs ih =>
    intro ws o ho hc hw
    cases ws with
    | nil => cases o <;> simp [runMin, placeRevC, cumRev, pure, Except.pure]
    | cons w ws =>
      simp only [CposOk] at hc
      obtain ⟨hc1, hc2, hc3⟩ := hc
      have hwpos : 0 < w := hw w (by simp)
      have hws : ∀ x ∈ ws, 0 < x := fun x hx => hw x (by simp [hx])
      have hsum : 0 ≤ ws.sum := sum_nonneg_of_pos ws hws
      cases o with
      | none =>
        have e1 : addI32 "getPlacement: finalAbsPos[i] + cumWidth_[i]" c ws.sum = .ok (c + ws.sum) :=
          chk32_ok' (by omega) (by omega)
        have a1 : assertC asr "getPlacement: finalAbsPos[i] >= begin_" (decide (c ≥ b)) = .ok () :=
          assertC_true _ _ (by simpa using hc1)
        have e2 : addI32 "getPlacement: finalAbsPos[i] + cumWidth_[i+1]" c (w + ws.sum) = .ok (c + (w + ws.sum)) :=
          chk32_ok' (by omega) (by omega)
        have ih' := ih ws (some c) (by intro m hm; cases hm; exact hc1) hc3 hws
        cases asr
        · simp only [runMin, placeRevC, e1, assertC_off, ih', cumRev, bind, Except.bind, pure, Except.pure,
            List.zipWith_cons_cons, Bool.false_eq_true, if_false]
        · have a2 : assertC true "getPlacement: finalAbsPos[i] + cumWidth_[i+1] <= end_"
              (decide (c + (w + ws.sum) ≤ e)) = .ok () := assertC_true _ _ (by simpa using hc2)
          simp only [runMin, placeRevC, e1, a1, e2, a2, ih', cumRev, bind, Except.bind, pure, Except.pure,
            List.zipWith_cons_cons, if_true]
      | some m =>
        have hm : b ≤ m := ho m rfl
        have e1 : addI32 "getPlacement: finalAbsPos[i] + cumWidth_[i]" (min m c) ws.sum = .ok (min m c + ws.sum) :=
          chk32_ok' (by omega) (by omega)
        have a1 : assertC asr "getPlacement: finalAbsPos[i] >= begin_" (decide (min m c ≥ b)) = .ok () :=
          assertC_true _ _ (by simp; omega)
        have e2 : addI32 "getPlacement: finalAbsPos[i] + cumWidth_[i+1]" (min m c) (w + ws.sum) =
            .ok (min m c + (w + ws.sum)) := chk32_ok' (by omega) (by omega)
        have ih' := ih ws (some (min m c)) (by intro m' hm'; cases hm'; omega) hc3 hws
        cases asr
        · simp only [runMin, placeRevC, e1, assertC_off, ih', cumRev, bind, Except.bind, pure, Except.pure,
            List.zipWith_cons_cons, Bool.false_eq_true, if_false]
        · have a2 : assertC true "getPlacement: finalAbsPos[i] + cumWidth_[i+1] <= end_"
              (decide (min m c + (w + ws.sum) ≤ e)) = .ok () := assertC_true _ _ (by simp; omega)
          simp only [runMin, placeRevC, e1, a1, e2, a2, ih', cumRev, bind, Except.bind, pure, Except.pure,
            List.zipWith_cons_cons, if_true]

theorem placementC_eq (asr : Bool) {s : State} (hd : Dom s) : placementC asr s = .ok (placement s) := by
  have h := placeRevC_eq asr s.b s.e hd.hb hd.he s.cposRev s.widthsRev none (by intro m hm; cases hm) hd.cpos hd.wpos
  simp only [placementC, h, bind, Except.bind, pure, Except.pure, placement, placementRev]

end ColoVerif.RowLeg
