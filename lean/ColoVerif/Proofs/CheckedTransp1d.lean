import ColoVerif.Proofs.CheckedTransp1dInv
/-
C07 for the 1-D transportation solver: on the domain `T1dDom` the checked twin
(`Model/Transp1dChecked.lean`: every `long long` operation of
`Transportation1d pb(u,v,s,d); pb.balanceDemand(); pb.assign();` typed) never faults and returns
what the unbounded model returns.  The magnitude invariants are in `CheckedTransp1dInv.lean`.
-/
namespace ColoVerif.Transp1d
open ColoVerif.Checked

/-! ### the `C` monad -/

theorem C_bind_def {α β : Type} (x : C α) (f : α → C β) : x >>= f = C.bind x f := rfl

theorem bindE_congr {α β : Type} {x : M α} {f : α → C β} {g : α → M β}
    (h : ∀ a, x = .ok a → f a = liftE (g a)) : C.bind (liftE x) f = liftE (x >>= g) := by
  cases x with
  | error e => rfl
  | ok a => exact h a rfl

theorem bindC_congr {α β : Type} {xc : C α} {x : M α} (hx : xc = liftE x) {f : α → C β} {g : α → M β}
    (h : ∀ a, x = .ok a → f a = liftE (g a)) : C.bind xc f = liftE (x >>= g) := by
  rw [hx]; exact bindE_congr h

theorem bindF_ok {α β : Type} {x : Except Fault α} {a : α} (h : x = .ok a) (f : α → C β) :
    C.bind (liftF x) f = f a := by
  rw [h]; rfl

theorem liftF_ok {α : Type} {x : Except Fault α} {a : α} (h : x = .ok a) :
    liftF x = liftE (pure a) := by
  rw [h]; rfl

theorem addI64_ok' {s : String} {a b : Int} (h1 : -9223372036854775808 ≤ a + b)
    (h2 : a + b ≤ 9223372036854775807) : addI64 s a b = .ok (a + b) := chk64_ok' h1 h2

theorem subI64_ok' {s : String} {a b : Int} (h1 : -9223372036854775808 ≤ a - b)
    (h2 : a - b ≤ 9223372036854775807) : subI64 s a b = .ok (a - b) := chk64_ok' h1 h2

theorem mulI64_ok' {s : String} {a b : Int} (h1 : -9223372036854775808 ≤ a * b)
    (h2 : a * b ≤ 9223372036854775807) : mulI64 s a b = .ok (a * b) := chk64_ok' h1 h2

theorem absI64_ok' {s : String} {a : Int} (h : iabs a ≤ 9223372036854775807) :
    absI64 s a = .ok (iabs a) := chk64_ok' (by have := iabs_nonneg a; omega) h

/-- numeric side conditions: positions in `[-P, P]`, cumulated quantities in `[0, T]` -/
structure NB (P T : Int) : Prop where
  hP : 8 * P ≤ 9223372036854775807
  hT : 4 * T ≤ 9223372036854775807

/-! ### cost, delta, updateOptimalSink -/

theorem cost_bound {sv : Solver} {P T : Int} (sb : SB sv P T) (i j : Nat) :
    0 ≤ iabs (sv.u.getD i 0 - sv.v.getD j 0) ∧ iabs (sv.u.getD i 0 - sv.v.getD j 0) ≤ 2 * P := by
  have := sb.ub i; have := sb.vb j
  exact ⟨iabs_nonneg _, iabs_le (by omega) (by omega)⟩

theorem costC_eq {sv : Solver} {P T : Int} (sb : SB sv P T) (nb : NB P T) (i j : Nat) :
    costC sv i j = liftE (cost sv i j) := by
  have := nb.hP
  unfold costC cost
  simp only [C_bind_def]
  apply bindE_congr; intro a ha
  apply bindE_congr; intro b hb
  obtain ⟨_, rfl⟩ := get_inv ha
  obtain ⟨_, rfl⟩ := get_inv hb
  have h1 := sb.ub i; have h2 := sb.vb j
  have h3 := cost_bound sb i j
  rw [bindF_ok (subI64_ok' (by omega) (by omega))]
  exact liftF_ok (absI64_ok' (by omega))

theorem deltaC_eq {sv : Solver} {P T : Int} (sb : SB sv P T) (nb : NB P T) (i j : Nat) :
    deltaC sv i j = liftE (delta sv i j) := by
  have := nb.hP
  unfold deltaC delta
  simp only [C_bind_def, costC_eq sb nb]
  apply bindE_congr; intro a ha
  apply bindE_congr; intro b hb
  apply bindE_congr; intro c hc
  apply bindE_congr; intro e he
  obtain ⟨_, _, rfl⟩ := cost_inv ha
  obtain ⟨_, _, rfl⟩ := cost_inv hb
  obtain ⟨_, _, rfl⟩ := cost_inv hc
  obtain ⟨_, _, rfl⟩ := cost_inv he
  have h1 := cost_bound sb i (j + 1)
  have h2 := cost_bound sb (i + 1) j
  have h3 := cost_bound sb (i + 1) (j + 1)
  have h4 := cost_bound sb i j
  rw [bindF_ok (addI64_ok' (by omega) (by omega)), bindF_ok (subI64_ok' (by omega) (by omega))]
  exact liftF_ok (subI64_ok' (by omega) (by omega))

theorem dval_bound {sv : Solver} {P T : Int} (sb : SB sv P T) (i j : Nat) :
    -(4 * P) ≤ dval sv i j ∧ dval sv i j ≤ 4 * P := by
  have h1 := cost_bound sb i (j + 1)
  have h2 := cost_bound sb (i + 1) j
  have h3 := cost_bound sb (i + 1) (j + 1)
  have h4 := cost_bound sb i j
  unfold dval; omega

theorem updOptC_eq {sv : Solver} {P T : Int} (sb : SB sv P T) (nb : NB P T) (i : Nat) :
    ∀ (k j : Nat), updOptC sv i k j = liftE (updOpt sv i k j) := by
  intro k
  induction k with
  | zero => intro j; rfl
  | succ k ih =>
    intro j
    unfold updOptC updOpt
    by_cases hj : j + 1 < sv.nbSinks
    · simp only [if_pos hj, C_bind_def, costC_eq sb nb]
      apply bindE_congr; intro c0 _
      apply bindE_congr; intro c1 _
      by_cases hc : c1 ≤ c0
      · simp only [if_pos hc]; exact ih (j + 1)
      · simp only [if_neg hc]; rfl
    · simp only [if_neg hj]; rfl

/-! ### event loops -/

theorem srcEvLoopC_eq {sv : Solver} {P T : Int} (sb : SB sv P T) (nb : NB P T) (i : Nat) :
    ∀ (cnt j : Nat) (ev : List Event), srcEvLoopC sv i cnt j ev = liftE (srcEvLoop sv i cnt j ev) := by
  have := nb.hT
  intro cnt
  induction cnt with
  | zero => intro j ev; rfl
  | succ cnt ih =>
    intro j ev
    unfold srcEvLoopC srcEvLoop
    simp only [C_bind_def, deltaC_eq sb nb]
    apply bindE_congr; intro a ha
    apply bindE_congr; intro b hb
    apply bindE_congr; intro dl _
    obtain ⟨_, rfl⟩ := get_inv ha
    obtain ⟨_, rfl⟩ := get_inv hb
    have h1 := sb.Db (j + 1); have h2 := sb.Sb i
    rw [bindF_ok (subI64_ok' (by omega) (by omega))]
    exact ih (j + 1) _

theorem pushNewSourceEventsC_eq {sv : Solver} {P T : Int} (sb : SB sv P T) (nb : NB P T) (i : Nat)
    (st : St) : pushNewSourceEventsC sv i st = liftE (pushNewSourceEvents sv i st) := by
  unfold pushNewSourceEventsC pushNewSourceEvents
  by_cases h0 : i = 0
  · simp only [if_pos h0]; rfl
  · simp only [if_neg h0, C_bind_def]
    apply bindE_congr; intro up _
    apply bindE_congr; intro ui _
    apply bindC_congr (srcEvLoopC_eq sb nb i _ _ _); intro ev _
    rfl

theorem snkEvLoopC_eq {sv : Solver} {P T : Int} (sb : SB sv P T) (nb : NB P T) (i : Nat) (lp : Int) :
    ∀ (cnt l : Nat) (ev : List Event),
      snkEvLoopC sv i lp cnt l ev = liftE (snkEvLoop sv i lp cnt l ev) := by
  have := nb.hT; have := nb.hP
  intro cnt
  induction cnt with
  | zero => intro l ev; rfl
  | succ cnt ih =>
    intro l ev
    unfold snkEvLoopC snkEvLoop
    simp only [C_bind_def, costC_eq sb nb]
    apply bindE_congr; intro a ha
    apply bindE_congr; intro b hb
    apply bindE_congr; intro c0 hc0
    apply bindE_congr; intro c1 hc1
    obtain ⟨_, rfl⟩ := get_inv ha
    obtain ⟨_, rfl⟩ := get_inv hb
    obtain ⟨_, _, rfl⟩ := cost_inv hc0
    obtain ⟨_, _, rfl⟩ := cost_inv hc1
    have h1 := sb.Db (l + 1); have h2 := sb.Sb i
    have h3 := cost_bound sb i l; have h4 := cost_bound sb i (l + 1)
    rw [bindF_ok (subI64_ok' (by omega) (by omega)), bindF_ok (subI64_ok' (by omega) (by omega))]
    exact ih (l + 1) _

theorem pushNewSinkEventsC_eq {sv : Solver} {P T : Int} (sb : SB sv P T) (nb : NB P T) (i j : Nat)
    (st : St) : pushNewSinkEventsC sv i j st = liftE (pushNewSinkEvents sv i j st) := by
  unfold pushNewSinkEventsC pushNewSinkEvents
  by_cases h0 : j ≤ st.lastOcc
  · simp only [if_pos h0]; rfl
  · simp only [if_neg h0, C_bind_def]
    apply bindC_congr (snkEvLoopC_eq sb nb i _ _ _ _); intro ev _
    rfl

/-! ### getSlope -/

theorem popAtC_eq (L : Int) : ∀ (ev : List Event) (acc : Int),
    iabs acc + sumAbs ev ≤ 9223372036854775807 →
    popAtC L acc ev = .ok (acc + (popAt L ev).1, (popAt L ev).2) := by
  intro ev
  induction ev with
  | nil => intro acc _; simp [popAtC, popAt]
  | cons e es ih =>
    intro acc h
    unfold popAtC popAt
    simp only [sumAbs] at h
    have hn := sumAbs_nonneg es
    by_cases he : e.1 = L
    · simp only [if_pos he]
      have h1 : iabs (acc + e.2) ≤ iabs acc + iabs e.2 := by
        rcases iabs_spec (acc + e.2) with k1 | k1 <;> rcases iabs_spec acc with k2 | k2 <;>
        rcases iabs_spec e.2 with k3 | k3 <;> omega
      have h2 := le_iabs (acc + e.2)
      rw [addI64_ok' (by omega) (by omega)]
      simp only [andThen]
      rw [ih (acc + e.2) (by omega)]
      have : acc + e.2 + (popAt L es).1 = acc + ((popAt L es).1 + e.2) := by omega
      rw [this]
    · simp only [if_neg he, Int.add_zero]

theorem sumAbs_getSlopeKeep (st : St) : sumAbs (getSlopeKeep st).2.events ≤ sumAbs st.events := by
  have hp := sumAbs_popAt st.lastPosition st.events
  simp only [getSlopeKeep]
  split
  · rw [sumAbs_evInsert]; simp only; omega
  · have := iabs_nonneg (popAt st.lastPosition st.events).1; omega

theorem getSlopeKeepC_eq (st : St) (h : sumAbs st.events ≤ 9223372036854775807) :
    getSlopeKeepC st = .ok (getSlopeKeep st) := by
  unfold getSlopeKeepC
  rw [popAtC_eq _ _ 0 (by have : iabs 0 = 0 := rfl; omega)]
  simp only [andThen, Int.zero_add]
  rfl

theorem pushToLastSinkC_eq {sv : Solver} {P T : Int} (sb : SB sv P T) (nb : NB P T) (i : Nat)
    (st : St) (h : sumAbs st.events ≤ 9223372036854775807) :
    pushToLastSinkC sv i st = liftE (pushToLastSink sv i st) := by
  have := nb.hT
  unfold pushToLastSinkC pushToLastSink
  simp only [C_bind_def]
  apply bindE_congr; intro a ha
  apply bindE_congr; intro b hb
  obtain ⟨_, rfl⟩ := get_inv ha
  obtain ⟨_, rfl⟩ := get_inv hb
  have h1 := sb.Db (st.lastOcc + 1); have h2 := sb.Sb (i + 1)
  rw [bindF_ok (subI64_ok' (by omega) (by omega)),
    bindF_ok (popAtC_eq _ _ 0 (by have : iabs 0 = 0 := rfl; omega))]
  simp only [Int.zero_add]
  rfl

theorem pushOnceC_eq {sv : Solver} {P T x : Int} (sb : SB sv P T) (nb : NB P T) (i : Nat) (st : St)
    (inv : SI sv P T x st) (hx : 0 ≤ x) : pushOnceC sv i st = liftE (pushOnce sv i st) := by
  have := nb.hP
  have hs := inv.slopes sb hx
  have hs' := sumAbs_getSlopeKeep st
  unfold pushOnceC pushOnce
  by_cases h1 : st.lastOcc + 1 = sv.nbSinks
  · simp only [if_pos h1]; exact pushToLastSinkC_eq sb nb i st (by omega)
  · simp only [if_neg h1]
    by_cases h2 : st.lastPosition = 0
    · simp only [if_pos h2]; exact pushNewSinkEventsC_eq sb nb i _ st
    · simp only [if_neg h2, C_bind_def, costC_eq sb nb]
      apply bindE_congr; intro right _
      rw [bindF_ok (getSlopeKeepC_eq st (by omega))]
      apply bindE_congr; intro c hc
      obtain ⟨_, _, rfl⟩ := cost_inv hc
      have hc := cost_bound sb i st.lastOcc
      have hp := sumAbs_popAt st.lastPosition st.events
      have hsl : (getSlopeKeep st).1 = (popAt st.lastPosition st.events).1 := rfl
      have hle := le_iabs (popAt st.lastPosition st.events).1
      have hn := sumAbs_nonneg (popAt st.lastPosition st.events).2
      rw [bindF_ok (addI64_ok' (by omega) (by omega))]
      by_cases h3 : right ≤ (getSlopeKeep st).1 + iabs (sv.u.getD i 0 - sv.v.getD st.lastOcc 0)
      · simp only [if_pos h3]; exact pushNewSinkEventsC_eq sb nb i _ _
      · simp only [if_neg h3]; exact pushToLastSinkC_eq sb nb i _ (by omega)

theorem pushLoopC_eq {sv : Solver} {P T x : Int} (sb : SB sv P T) (nb : NB P T) (i : Nat) (hx : 0 ≤ x) :
    ∀ (fuel : Nat) (st : St), SI sv P T x st →
      pushLoopC sv i fuel st = liftE (pushLoop sv i fuel st) := by
  have := nb.hT
  intro fuel
  induction fuel with
  | zero => intro st _; rfl
  | succ fuel ih =>
    intro st inv
    unfold pushLoopC pushLoop
    simp only [C_bind_def]
    apply bindE_congr; intro a ha
    apply bindE_congr; intro b hb
    obtain ⟨_, rfl⟩ := get_inv ha
    obtain ⟨_, rfl⟩ := get_inv hb
    have h1 := sb.Db (st.lastOcc + 1); have h2 := sb.Sb (i + 1)
    rw [bindF_ok (subI64_ok' (by omega) (by omega))]
    by_cases hc : sv.D.getD (st.lastOcc + 1) 0 - sv.S.getD (i + 1) 0 < st.lastPosition
    · simp only [if_pos hc]
      apply bindC_congr (pushOnceC_eq sb nb i st inv hx); intro st1 h1
      exact ih st1 (pushOnce_inv sb h1 inv)
    · simp only [if_neg hc]; rfl

theorem pushC_eq {sv : Solver} {P T : Int} (sb : SB sv P T) (nb : NB P T) (i : Nat) (st : St)
    (inv : SI sv P T (Gb sv i) st) (hi : i < sv.u.length) : pushC sv i st = liftE (push sv i st) := by
  have := nb.hT
  have hm : 0 < sv.v.length := by have := inv.occ; omega
  unfold pushC push
  simp only [C_bind_def]
  apply bindC_congr (updOptC_eq sb nb i _ _); intro o _
  apply bindC_congr (pushNewSourceEventsC_eq sb nb i _); intro st1 h1
  apply bindE_congr; intro a ha
  apply bindE_congr; intro b hb
  obtain ⟨_, rfl⟩ := get_inv ha
  obtain ⟨_, rfl⟩ := get_inv hb
  have k1 := sb.Db o; have k2 := sb.Sb i
  rw [bindF_ok (subI64_ok' (by omega) (by omega))]
  apply bindC_congr (pushNewSinkEventsC_eq sb nb i o _); intro st2 h2
  have inv0 : SI sv P T (Gb sv i) { st with optSink := o } := ⟨inv.occ, inv.lp, inv.evp, inv.pr, inv.phi⟩
  have inv1 := pushNewSourceEvents_inv sb h1 inv0 hi
  have inv1' : SI sv P T (Gb sv (i + 1))
      { st1 with lastPosition := max st1.lastPosition (sv.D.getD o 0 - sv.S.getD i 0) } := by
    refine ⟨inv1.occ, ?_, inv1.evp, inv1.pr, inv1.phi⟩
    have := inv1.lp; simp only; omega
  have inv2 := pushNewSinkEvents_inv sb h2 inv1'
  apply bindC_congr (pushLoopC_eq sb nb i (Gb_nonneg sb hm (i + 1)) _ st2 inv2); intro st3 _
  rfl

theorem pushAllC_eq {sv : Solver} {P T : Int} (sb : SB sv P T) (nb : NB P T) :
    ∀ (cnt i : Nat) (st : St), i + cnt ≤ sv.u.length → SI sv P T (Gb sv i) st →
      pushAllC sv cnt i st = liftE (pushAll sv cnt i st) := by
  intro cnt
  induction cnt with
  | zero => intro i st _ _; rfl
  | succ cnt ih =>
    intro i st hle inv
    unfold pushAllC pushAll
    simp only [C_bind_def]
    apply bindC_congr (pushC_eq sb nb i st inv (by omega)); intro st1 h1
    exact ih (i + 1) st1 (by omega) (push_inv sb h1 inv (by omega))

/-! ### run, computeAssignment -/

theorem runMin_bounds {T mx : Int} (hmx : -T ≤ mx ∧ mx ≤ T) :
    ∀ (l : List Int), (∀ y ∈ l, -T ≤ y ∧ y ≤ T) → -T ≤ runMin mx l ∧ runMin mx l ≤ T := by
  intro l
  induction l with
  | nil => intro _; exact hmx
  | cons y ys ih =>
    intro h
    have h1 := h y (List.mem_cons_self ..)
    have h2 := ih (fun z hz => h z (List.mem_cons_of_mem _ hz))
    simp only [runMin]; omega

theorem flush_bounds {T mx : Int} (hmx : -T ≤ mx ∧ mx ≤ T) :
    ∀ (l : List Int), (∀ y ∈ l, -T ≤ y ∧ y ≤ T) → ∀ z ∈ flush mx l, -T ≤ z ∧ z ≤ T := by
  intro l
  induction l with
  | nil => intro _ z hz; simp [flush] at hz
  | cons y ys ih =>
    intro h z hz
    simp only [flush, List.mem_cons] at hz
    rcases hz with rfl | hz
    · exact runMin_bounds hmx _ h
    · exact ih (fun w hw => h w (List.mem_cons_of_mem _ hw)) z hz

/-- `run`: the checked sweep equals the unbounded one, and the flushed positions are bounded -/
theorem runC_eq {sv : Solver} {P T : Int} (sb : SB sv P T) (nb : NB P T)
    (hm : sv.u.length = 0 ∨ 0 < sv.v.length) :
    runC sv = liftE (run sv) ∧ ∀ p, run sv = .ok p → ∀ z ∈ p, -T ≤ z ∧ z ≤ T := by
  have := nb.hT
  have hall : pushAllC sv sv.nbSources 0 St.init = liftE (pushAll sv sv.nbSources 0 St.init) ∧
      ∀ st, pushAll sv sv.nbSources 0 St.init = .ok st → ∀ y ∈ st.pRev, -T ≤ y ∧ y ≤ T := by
    rcases hm with h | h
    · have e : sv.nbSources = 0 := h
      rw [e]
      refine ⟨rfl, ?_⟩
      intro st hst y hy
      simp only [pushAll, pure, Except.pure, Except.ok.injEq] at hst
      subst hst
      simp [St.init] at hy
    · have inv := init_inv sb h
      refine ⟨pushAllC_eq sb nb _ 0 _ (by simp [Solver.nbSources]) inv, ?_⟩
      intro st hst
      exact (pushAll_inv sb _ 0 _ _ hst (by simp [Solver.nbSources]) inv).pr
  constructor
  · unfold runC run
    simp only [C_bind_def]
    apply bindC_congr hall.1; intro st _
    apply bindE_congr; intro td htd
    apply bindE_congr; intro sn hsn
    unfold lastD at htd
    obtain ⟨_, rfl⟩ := get_inv htd
    obtain ⟨_, rfl⟩ := get_inv hsn
    have h1 := sb.Db (sv.D.length - 1); have h2 := sb.Sb st.pRev.reverse.length
    rw [bindF_ok (subI64_ok' (by omega) (by omega))]
    rfl
  · intro p hp z hz
    unfold run at hp
    obtain ⟨st, hst, hp⟩ := bind_ok_inv hp
    obtain ⟨td, htd, hp⟩ := bind_ok_inv hp
    obtain ⟨sn, hsn, hp⟩ := bind_ok_inv hp
    unfold lastD at htd
    obtain ⟨_, rfl⟩ := get_inv htd
    obtain ⟨_, rfl⟩ := get_inv hsn
    simp only [pure, Except.pure, Except.ok.injEq] at hp
    subst hp
    have h1 := sb.Db (sv.D.length - 1); have h2 := sb.Sb st.pRev.reverse.length
    refine flush_bounds (by omega) _ ?_ z hz
    intro y hy
    exact hall.2 st hst y (List.mem_reverse.mp hy)

theorem assignLoopC_eq {sv : Solver} {P T : Int} (sb : SB sv P T) (nb : NB P T) :
    ∀ (ps : List Int) (i cs : Nat) (rest : List Int), (∀ y ∈ ps, -T ≤ y ∧ y ≤ T) →
      assignLoopC sv ps i cs rest = liftE (assignLoop sv ps i cs rest) := by
  have := nb.hT
  intro ps
  induction ps with
  | nil => intro i cs rest _; rfl
  | cons pi ps ih =>
    intro i cs rest h
    unfold assignLoopC assignLoop
    simp only [C_bind_def]
    apply bindE_congr; intro si hsi
    apply bindE_congr; intro ci hci
    obtain ⟨_, rfl⟩ := get_inv hsi
    obtain ⟨_, rfl⟩ := get_inv hci
    have h1 := sb.Sb i; have h2 := sb.sb i
    have h3 := h pi (List.mem_cons_self ..)
    have hd : Int.tdiv (sv.s.getD i 0) 2 = sv.s.getD i 0 / 2 := Int.tdiv_eq_ediv_of_nonneg h2.1
    have hdiv : divI64 "computeAssignment: s[i] / 2" (sv.s.getD i 0) 2 = .ok (Int.tdiv (sv.s.getD i 0) 2) := by
      unfold divI64
      rw [if_neg (by decide)]
      exact chk64_ok' (by omega) (by omega)
    rw [bindF_ok (addI64_ok' (by omega) (by omega)), bindF_ok hdiv,
      bindF_ok (addI64_ok' (by omega) (by omega))]
    apply bindE_congr; intro r _
    apply bindC_congr (ih (i + 1) r.1 r.2 (fun y hy => h y (List.mem_cons_of_mem _ hy))); intro tl _
    rfl

theorem computeAssignmentC_eq {sv : Solver} {P T : Int} (sb : SB sv P T) (nb : NB P T) (p : List Int)
    (hp : ∀ y ∈ p, -T ≤ y ∧ y ≤ T) : computeAssignmentC sv p = liftE (computeAssignment sv p) :=
  assignLoopC_eq sb nb p 0 0 _ hp

/-! ### totals, check, balanceDemand -/

theorem sum_nonneg' (l : List Int) (h : ∀ x ∈ l, 0 ≤ x) : 0 ≤ l.sum := by
  induction l with
  | nil => simp
  | cons x xs ih =>
    have h1 := h x (List.mem_cons_self ..)
    have h2 := ih (fun y hy => h y (List.mem_cons_of_mem _ hy))
    simp only [List.sum_cons]; omega

theorem le_sum_of_mem (l : List Int) (h : ∀ x ∈ l, 0 ≤ x) : ∀ x ∈ l, x ≤ l.sum := by
  induction l with
  | nil => intro x hx; simp at hx
  | cons y ys ih =>
    intro x hx
    have h1 := h y (List.mem_cons_self ..)
    have h2 := sum_nonneg' ys (fun z hz => h z (List.mem_cons_of_mem _ hz))
    simp only [List.sum_cons]
    rcases List.mem_cons.mp hx with rfl | hx
    · omega
    · have := ih (fun z hz => h z (List.mem_cons_of_mem _ hz)) x hx; omega

theorem sumFirstC_eq (site : String) : ∀ (k : Nat) (l : List Int) (acc : Int), (∀ x ∈ l, 0 ≤ x) →
    0 ≤ acc → acc + l.sum ≤ 9223372036854775807 →
    sumFirstC site acc k l = liftE (sumFirst k l >>= fun r => pure (acc + r)) := by
  intro k
  induction k with
  | zero =>
    intro l acc _ _ _
    show (pure acc : C Int) = liftE (pure (acc + 0))
    rw [Int.add_zero]; rfl
  | succ k ih =>
    intro l acc hnn hacc hsum
    cases l with
    | nil => rfl
    | cons x xs =>
      have h1 := hnn x (List.mem_cons_self ..)
      have hxs : ∀ y ∈ xs, 0 ≤ y := fun y hy => hnn y (List.mem_cons_of_mem _ hy)
      have h2 := sum_nonneg' xs hxs
      simp only [List.sum_cons] at hsum
      unfold sumFirstC sumFirst
      simp only [C_bind_def]
      rw [bindF_ok (addI64_ok' (by omega) (by omega)), ih xs (acc + x) hxs (by omega) (by omega)]
      cases sumFirst k xs with
      | error e => rfl
      | ok r =>
        show liftE (pure (acc + x + r)) = liftE (pure (acc + (x + r)))
        rw [Int.add_assoc]

theorem sumFirstC_zero (site : String) (k : Nat) (l : List Int) (hnn : ∀ x ∈ l, 0 ≤ x)
    (hsum : l.sum ≤ 9223372036854775807) : sumFirstC site 0 k l = liftE (sumFirst k l) := by
  rw [sumFirstC_eq site k l 0 hnn (Int.le_refl _) (by omega)]
  cases sumFirst k l with
  | error e => rfl
  | ok r =>
    show liftE (pure (0 + r)) = liftE (pure r)
    rw [Int.zero_add]

theorem M_ok_bind {α β : Type} (a : α) (f : α → M β) : (Except.ok a >>= f) = f a := rfl

theorem getD_oob (l : List Int) (i : Nat) (h : l.length ≤ i) : l.getD i 0 = 0 := by
  simp [List.getD_eq_getElem?_getD, List.getElem?_eq_none h]

theorem bindE_ok {α β : Type} (a : α) (f : α → C β) : C.bind (liftE (Except.ok a)) f = f a := rfl

/-- the instance-level hypotheses: sizes agree, quantities non-negative, totals at most `T` -/
structure PB (pb : Problem) (P T : Int) : Prop where
  hs : pb.s.length = pb.u.length
  hd : pb.d.length = pb.v.length
  ub : ∀ x ∈ pb.u, -P ≤ x ∧ x ≤ P
  vb : ∀ x ∈ pb.v, -P ≤ x ∧ x ≤ P
  snn : ∀ x ∈ pb.s, 0 ≤ x
  dnn : ∀ x ∈ pb.d, 0 ≤ x
  ssum : pb.s.sum ≤ T
  dsum : pb.d.sum ≤ T

theorem totalSupply_val {pb : Problem} (hs : pb.s.length = pb.u.length) : totalSupply pb = .ok pb.s.sum := by
  unfold totalSupply Problem.nbSources; rw [← hs]; exact sumFirst_eq _

theorem totalDemand_val {pb : Problem} (hd : pb.d.length = pb.v.length) : totalDemand pb = .ok pb.d.sum := by
  unfold totalDemand Problem.nbSinks; rw [← hd]; exact sumFirst_eq _

theorem checkC_eq {pb : Problem} {P T : Int} (h : PB pb P T) (nb : NB P T) :
    checkC pb = liftE (check pb) := by
  have := nb.hT
  have hshape : checkShape pb = true := by
    simp only [checkShape, Bool.and_eq_true, beq_iff_eq, List.all_eq_true, decide_eq_true_eq]
    exact ⟨⟨⟨h.hs, h.hd⟩, h.snn⟩, h.dnn⟩
  have hck : checkOk pb = (checkShape pb && decide (pb.s.sum ≤ pb.d.sum)) := rfl
  unfold checkC check totalSupplyC totalDemandC
  rw [hck, hshape, sumFirstC_zero _ _ _ h.snn (by have := h.ssum; omega),
    sumFirstC_zero _ _ _ h.dnn (by have := h.dsum; omega)]
  have e1 := totalSupply_val h.hs
  have e2 := totalDemand_val h.hd
  unfold totalSupply at e1
  unfold totalDemand at e2
  simp only [if_true, C_bind_def, e1, e2, bindE_ok, Bool.true_and]
  by_cases hle : pb.s.sum ≤ pb.d.sum
  · simp only [if_pos hle, decide_eq_true hle]; rfl
  · simp only [if_neg hle, decide_eq_false hle]; rfl

theorem incrFirstC_eq (site : String) (x : Int) (B : Int) (hB : B + x ≤ 9223372036854775807) (hx : 0 ≤ x) :
    ∀ (k : Nat) (l : List Int), (∀ y ∈ l, 0 ≤ y ∧ y ≤ B) →
      incrFirstC site k x l = liftE (incrFirst k x l) := by
  intro k
  induction k with
  | zero => intro l _; rfl
  | succ k ih =>
    intro l h
    cases l with
    | nil => rfl
    | cons y ys =>
      have h1 := h y (List.mem_cons_self ..)
      unfold incrFirstC incrFirst
      simp only [C_bind_def]
      rw [bindF_ok (addI64_ok' (by omega) (by omega))]
      apply bindC_congr (ih ys (fun z hz => h z (List.mem_cons_of_mem _ hz))); intro r _
      rfl

theorem incrFirst_mem (x : Int) : ∀ (k : Nat) (l l' : List Int), incrFirst k x l = .ok l' →
    ∀ y ∈ l', y ∈ l ∨ ∃ z ∈ l, y = z + x := by
  intro k
  induction k with
  | zero =>
    intro l l' h y hy
    simp only [incrFirst, pure, Except.pure, Except.ok.injEq] at h
    subst h; exact Or.inl hy
  | succ k ih =>
    intro l l' h y hy
    cases l with
    | nil => cases h
    | cons z zs =>
      unfold incrFirst at h
      obtain ⟨r, hr, h⟩ := bind_ok_inv h
      simp only [pure, Except.pure, Except.ok.injEq] at h
      subst h
      rcases List.mem_cons.mp hy with rfl | hy
      · exact Or.inr ⟨z, List.mem_cons_self .., rfl⟩
      · rcases ih zs r hr y hy with h' | ⟨w, hw, rfl⟩
        · exact Or.inl (List.mem_cons_of_mem _ h')
        · exact Or.inr ⟨w, List.mem_cons_of_mem _ hw, rfl⟩

theorem balanceDemandC_eq {pb : Problem} {P T : Int} (h : PB pb P T) (nb : NB P T)
    (hm : 0 < pb.v.length) : balanceDemandC pb = liftE (balanceDemand pb) := by
  have := nb.hT
  have hs0 := sum_nonneg' _ h.snn
  have hd0 := sum_nonneg' _ h.dnn
  have hsT := h.ssum
  have hdT := h.dsum
  have e1 := totalSupply_val h.hs
  have e2 := totalDemand_val h.hd
  unfold balanceDemandC balanceDemand totalSupplyC totalDemandC
  rw [sumFirstC_zero _ _ _ h.snn (by omega), sumFirstC_zero _ _ _ h.dnn (by omega)]
  have e1' := e1
  have e2' := e2
  unfold totalSupply at e1'
  unfold totalDemand at e2'
  simp only [C_bind_def, e1, e2, e1', e2', bindE_ok, M_ok_bind]
  rw [bindF_ok (subI64_ok' (by omega) (by omega))]
  by_cases hle : pb.s.sum - pb.d.sum ≤ 0
  · simp only [if_pos hle]; rfl
  · have hne : ¬ pb.nbSinks = 0 := by unfold Problem.nbSinks; omega
    have hne' : ¬ ((pb.nbSinks : Nat) : Int) = 0 := by unfold Problem.nbSinks; omega
    simp only [if_neg hle, if_neg hne]
    have hmi : (0 : Int) < (pb.nbSinks : Int) := by unfold Problem.nbSinks; omega
    have hmis : 0 ≤ pb.s.sum - pb.d.sum := by omega
    have hadd : Int.tdiv (pb.s.sum - pb.d.sum) pb.nbSinks = (pb.s.sum - pb.d.sum) / (pb.nbSinks : Int) :=
      Int.tdiv_eq_ediv_of_nonneg hmis
    have hq0 : 0 ≤ (pb.s.sum - pb.d.sum) / (pb.nbSinks : Int) := Int.ediv_nonneg hmis (Int.le_of_lt hmi)
    have hdm := Int.mul_ediv_add_emod (pb.s.sum - pb.d.sum) (pb.nbSinks : Int)
    have hr0 := Int.emod_nonneg (pb.s.sum - pb.d.sum) (Int.ne_of_gt hmi)
    have hr1 := Int.emod_lt_of_pos (pb.s.sum - pb.d.sum) hmi
    have hmlt : ((pb.nbSinks : Nat) : Int) = (pb.v.length : Int) := rfl
    have hcomm : (pb.s.sum - pb.d.sum) / (pb.nbSinks : Int) * (pb.nbSinks : Int)
        = (pb.nbSinks : Int) * ((pb.s.sum - pb.d.sum) / (pb.nbSinks : Int)) := Int.mul_comm _ _
    have hqle : (pb.s.sum - pb.d.sum) / (pb.nbSinks : Int) ≤ pb.s.sum - pb.d.sum :=
      Int.ediv_le_self _ hmis
    have hdiv : divI64 "balanceDemand: missing / nbSinks()" (pb.s.sum - pb.d.sum) pb.nbSinks
        = .ok (Int.tdiv (pb.s.sum - pb.d.sum) pb.nbSinks) := by
      unfold divI64
      rw [if_neg hne', hadd]
      exact chk64_ok' (by omega) (by omega)
    rw [bindF_ok hdiv, hadd]
    generalize hq : (pb.s.sum - pb.d.sum) / (pb.nbSinks : Int) = q at *
    have hprod : 0 ≤ q * (pb.nbSinks : Int) := Int.mul_nonneg hq0 (Int.le_of_lt hmi)
    have hdb : ∀ y ∈ pb.d, 0 ≤ y ∧ y ≤ T := fun y hy =>
      ⟨h.dnn y hy, Int.le_trans (le_sum_of_mem _ h.dnn y hy) hdT⟩
    apply bindC_congr (incrFirstC_eq _ q T (by omega) hq0 _ _ hdb); intro d1 hd1
    rw [bindF_ok (mulI64_ok' (by omega) (by omega)), bindF_ok (subI64_ok' (by omega) (by omega))]
    have hd1b : ∀ y ∈ d1, 0 ≤ y ∧ y ≤ 2 * T := by
      intro y hy
      rcases incrFirst_mem q _ _ _ hd1 y hy with h' | ⟨z, hz, rfl⟩
      · have := hdb y h'; omega
      · have := hdb z hz; omega
    apply bindC_congr (incrFirstC_eq _ 1 (2 * T) (by omega) (by omega) _ _ hd1b); intro d2 _
    rfl

/-! ### setupData, convert -/

theorem prefixFromC_eq (site : String) : ∀ (l : List Int) (acc : Int), (∀ x ∈ l, 0 ≤ x) → 0 ≤ acc →
    acc + l.sum ≤ 9223372036854775807 → prefixFromC site acc l = .ok (prefixFrom acc l) := by
  intro l
  induction l with
  | nil => intro acc _ _ _; rfl
  | cons c cs ih =>
    intro acc hnn hacc hsum
    have h1 := hnn c (List.mem_cons_self ..)
    have hcs : ∀ y ∈ cs, 0 ≤ y := fun y hy => hnn y (List.mem_cons_of_mem _ hy)
    have h2 := sum_nonneg' cs hcs
    simp only [List.sum_cons] at hsum
    unfold prefixFromC prefixFrom
    rw [addI64_ok' (by omega) (by omega)]
    simp only [andThen]
    rw [ih (acc + c) hcs (by omega) (by omega)]

theorem mkSolverC_eq (u v s d : List Int) (hs : ∀ x ∈ s, 0 ≤ x) (hd : ∀ x ∈ d, 0 ≤ x)
    (hss : s.sum ≤ 9223372036854775807) (hds : d.sum ≤ 9223372036854775807) :
    mkSolverC u v s d = .ok (mkSolver u v s d) := by
  unfold mkSolverC
  rw [prefixFromC_eq _ d 0 hd (Int.le_refl _) (by omega), prefixFromC_eq _ s 0 hs (Int.le_refl _) (by omega)]
  rfl

theorem convertC_eq {pb : Problem} {P T : Int} (h : PB pb P T) (nb : NB P T) :
    convertC ⟨ord pb.u pb.s, ord pb.v pb.d⟩ pb = liftE (convert ⟨ord pb.u pb.s, ord pb.v pb.d⟩ pb) := by
  have := nb.hT
  have hs := h.hs
  have hd := h.hd
  rw [convert_ok pb hs hd]
  unfold convertC
  have h1 : ∀ i ∈ ord pb.u pb.s, i < pb.u.length := fun i hi => ((mem_ord _ _ i).mp hi).1
  have h2 : ∀ i ∈ ord pb.v pb.d, i < pb.v.length := fun i hi => ((mem_ord _ _ i).mp hi).1
  simp only [gather_ok pb.u _ h1, gather_ok pb.s _ (fun i hi => by rw [hs]; exact h1 i hi),
    gather_ok pb.v _ h2, gather_ok pb.d _ (fun i hi => by rw [hd]; exact h2 i hi), C_bind_def, bindE_ok]
  have k1 : ((ord pb.u pb.s).map fun i => pb.s.getD i 0).sum = pb.s.sum := sum_ord pb.u pb.s hs h.snn
  have k2 : ((ord pb.v pb.d).map fun i => pb.d.getD i 0).sum = pb.d.sum := sum_ord pb.v pb.d hd h.dnn
  have p1 : ∀ x ∈ (ord pb.u pb.s).map (fun i => pb.s.getD i 0), 0 ≤ x :=
    fun x hx => Int.le_of_lt (sortedSolver_spos pb x hx)
  have p2 : ∀ x ∈ (ord pb.v pb.d).map (fun i => pb.d.getD i 0), 0 ≤ x :=
    fun x hx => Int.le_of_lt (sortedSolver_dpos pb x hx)
  rw [mkSolverC_eq _ _ _ _ p1 p2
    (by rw [k1]; have := h.ssum; omega) (by rw [k2]; have := h.dsum; omega)]
  rfl

/-! ### static bounds of the sorted instance -/

theorem getD_bounds {l : List Int} {lo hi : Int} (h : ∀ x ∈ l, lo ≤ x ∧ x ≤ hi) (h0 : lo ≤ 0 ∧ 0 ≤ hi)
    (i : Nat) : lo ≤ l.getD i 0 ∧ l.getD i 0 ≤ hi := by
  by_cases hi' : i < l.length
  · exact h _ (getD_mem_of_lt l i hi')
  · rw [getD_oob _ _ (by omega)]; exact h0

theorem pairwise_getD {l : List Int} (h : List.Pairwise (fun a b => a ≤ b) l) :
    ∀ a b, a ≤ b → b < l.length → l.getD a 0 ≤ l.getD b 0 := by
  induction l with
  | nil => intro a b _ hb; simp at hb
  | cons x xs ih =>
    intro a b hab hb
    rw [List.pairwise_cons] at h
    cases b with
    | zero =>
      have : a = 0 := by omega
      subst this; exact Int.le_refl _
    | succ b =>
      cases a with
      | zero =>
        simp only [List.getD_cons_zero, List.getD_cons_succ]
        exact h.1 _ (getD_mem_of_lt xs b (by simpa using hb))
      | succ a =>
        simp only [List.getD_cons_succ]
        exact ih h.2 a b (by omega) (by simpa using hb)

theorem sortedSolver_SB {pb : Problem} {P T : Int} (h : PB pb P T) (hv : checkOk pb = true)
    (hP : 0 ≤ P) (hT : 0 ≤ T) : SB (sortedSolver pb) P T := by
  have wf := sortedSolver_wf pb
  have dom := sortedSolver_dom pb hv
  have si := sortedSolver_inst pb
  have eD : (sortedSolver pb).D = prefixFrom 0 (sortedSolver pb).d := rfl
  have eS : (sortedSolver pb).S = prefixFrom 0 (sortedSolver pb).s := rfl
  have k1 : (sortedSolver pb).s.sum = pb.s.sum := sum_ord pb.u pb.s h.hs h.snn
  have k2 : (sortedSolver pb).d.sum = pb.d.sum := sum_ord pb.v pb.d h.hd h.dnn
  have hSn : (sortedSolver pb).S.getD (sortedSolver pb).u.length 0 = pb.s.sum := by
    rw [← wf.hs, eS, prefixFrom_last, k1]; omega
  have hDn : (sortedSolver pb).D.getD (sortedSolver pb).v.length 0 = pb.d.sum := by
    rw [← wf.hd, eD, prefixFrom_last, k2]; omega
  have hS0 : (sortedSolver pb).S.getD 0 0 = 0 := by rw [eS, prefixFrom_zero]
  have hD0 : (sortedSolver pb).D.getD 0 0 = 0 := by rw [eD, prefixFrom_zero]
  have hSb : ∀ i, 0 ≤ (sortedSolver pb).S.getD i 0 ∧ (sortedSolver pb).S.getD i 0 ≤ T := by
    intro i
    by_cases hi : i ≤ (sortedSolver pb).u.length
    · have a1 := dom.Smono 0 i (by omega) hi
      have a2 := dom.Smono i _ hi (Nat.le_refl _)
      have := h.ssum
      omega
    · rw [getD_oob _ _ (by have := wf.hS; omega)]; omega
  have hDb : ∀ i, 0 ≤ (sortedSolver pb).D.getD i 0 ∧ (sortedSolver pb).D.getD i 0 ≤ T := by
    intro i
    by_cases hi : i ≤ (sortedSolver pb).v.length
    · have a1 := dom.Dmono 0 i (by omega) hi
      have a2 := dom.Dmono i _ hi (Nat.le_refl _)
      have := h.dsum
      omega
    · rw [getD_oob _ _ (by have := wf.hD; omega)]; omega
  refine ⟨hP, hT, ?_, ?_, hSb, hDb, ?_, pairwise_getD si.us, pairwise_getD si.vs⟩
  · apply getD_bounds _ (by omega)
    intro x hx
    simp only [sortedSolver, mkSolver, List.mem_map] at hx
    obtain ⟨k, _, rfl⟩ := hx
    have := getD_bounds h.ub (by omega : -P ≤ 0 ∧ 0 ≤ P) k
    simpa using this
  · apply getD_bounds _ (by omega)
    intro x hx
    simp only [sortedSolver, mkSolver, List.mem_map] at hx
    obtain ⟨k, _, rfl⟩ := hx
    have := getD_bounds h.vb (by omega : -P ≤ 0 ∧ 0 ≤ P) k
    simpa using this
  · intro i
    by_cases hi : i < (sortedSolver pb).s.length
    · have e := prefixFrom_succ 0 (sortedSolver pb).s i hi
      rw [← eS] at e
      have a1 := hSb i; have a2 := hSb (i + 1)
      have := sortedSolver_spos pb _ (getD_mem_of_lt _ i hi)
      omega
    · rw [getD_oob _ _ (by omega)]; omega

/-! ### assign and the whole call sequence -/

theorem assignC_eq_of_bounds {pb : Problem} {P T : Int} (h : PB pb P T) (nb : NB P T) (hP : 0 ≤ P) (hT : 0 ≤ T) :
    assignC pb = liftE (assign pb) := by
  unfold assignC assign
  simp only [C_bind_def]
  apply bindC_congr (checkC_eq h nb); intro _ hck
  have hv : checkOk pb = true := by
    unfold check at hck
    by_cases hc : checkOk pb = true
    · exact hc
    · rw [if_neg hc] at hck; cases hck
  apply bindE_congr; intro so hso
  rw [mkSorter_ok pb h.hs h.hd] at hso
  simp only [Except.ok.injEq] at hso
  subst hso
  apply bindC_congr (convertC_eq h nb); intro sv hsv
  rw [convert_ok pb h.hs h.hd] at hsv
  simp only [Except.ok.injEq] at hsv
  subst hsv
  have sb := sortedSolver_SB h hv hP hT
  have hm := sortedSolver_sinks pb hv
  have hr := runC_eq sb nb hm
  apply bindC_congr hr.1; intro p hp
  apply bindC_congr (computeAssignmentC_eq sb nb p (hr.2 p hp)); intro a _
  rfl

/-- **General form.**  Sizes agree, at least one sink, positions in `[-P, P]`, non-negative
supplies and demands with totals at most `T`, `8·P` and `4·T` representable: the checked run of
`balanceDemand(); assign();` never faults and returns the unbounded model's result. -/
theorem balanceThenAssignC_eq_of_bounds {pb : Problem} {P T : Int} (h : PB pb P T) (nb : NB P T)
    (hP : 0 ≤ P) (hm : 0 < pb.v.length) :
    balanceThenAssignC pb = .ok (balanceThenAssign pb) := by
  have hT : 0 ≤ T := Int.le_trans (sum_nonneg' _ h.snn) h.ssum
  obtain ⟨pb', e, eu, ev, es, el, hle, hge, hsame, hbal⟩ := balanceDemand_spec' pb h.hs h.hd (Or.inl hm)
  unfold balanceThenAssignC balanceThenAssign
  rw [balanceDemandC_eq h nb hm, e]
  have h' : PB pb' P T := by
    refine ⟨by rw [es, eu]; exact h.hs, by rw [el, ev]; exact h.hd, by rw [eu]; exact h.ub,
      by rw [ev]; exact h.vb, by rw [es]; exact h.snn, ?_, by rw [es]; exact h.ssum, ?_⟩
    · intro x hx
      obtain ⟨j, hj, rfl⟩ := List.getElem_of_mem hx
      have a1 := hge j
      have a2 : pb'.d.getD j 0 = pb'.d[j] := by
        simp [List.getD_eq_getElem?_getD, List.getElem?_eq_getElem hj]
      have a3 := getD_bounds (l := pb.d) (lo := 0) (hi := T)
        (fun y hy => ⟨h.dnn y hy, Int.le_trans (le_sum_of_mem _ h.dnn y hy) h.dsum⟩) (by omega) j
      omega
    · by_cases hc : pb.s.sum ≤ pb.d.sum
      · rw [hsame hc]; exact h.dsum
      · have := hbal (by omega); rw [es] at this; have := h.ssum; omega
  show assignC pb' = Except.ok (assign pb')
  exact assignC_eq_of_bounds h' nb hP hT

/-! ### the decidable domain -/

/-- The C07 domain of `Transportation1d` as `improveX/YTransport` call it: one supply per source
and one demand per sink, at least one sink (bin), fewer than `2^31 - 1` sources and sinks (all
`int` index arithmetic stays in range), positions of magnitude at most `2^60 - 1`, non-negative
supplies and demands with totals at most `2^61 - 1`. -/
def T1dDom (pb : Problem) : Prop :=
  pb.s.length = pb.u.length ∧ pb.d.length = pb.v.length ∧ 0 < pb.v.length ∧
  pb.u.length < 2147483647 ∧ pb.v.length < 2147483647 ∧
  (∀ x ∈ pb.u, -1152921504606846975 ≤ x ∧ x ≤ 1152921504606846975) ∧
  (∀ x ∈ pb.v, -1152921504606846975 ≤ x ∧ x ≤ 1152921504606846975) ∧
  (∀ x ∈ pb.s, 0 ≤ x) ∧ (∀ x ∈ pb.d, 0 ≤ x) ∧
  pb.s.sum ≤ 2305843009213693951 ∧ pb.d.sum ≤ 2305843009213693951

instance (pb : Problem) : Decidable (T1dDom pb) := by unfold T1dDom; exact inferInstance

/-- **No signed overflow in the 1-D transportation solver** on `T1dDom`: the checked run never
faults and equals the unbounded model (`Model/Transp1d.lean`, C14). -/
theorem assignC_eq (pb : Problem) (h : T1dDom pb) :
    balanceThenAssignC pb = .ok (balanceThenAssign pb) := by
  obtain ⟨h1, h2, h3, _, _, h6, h7, h8, h9, h10, h11⟩ := h
  exact balanceThenAssignC_eq_of_bounds (P := 1152921504606846975) (T := 2305843009213693951)
    ⟨h1, h2, h6, h7, h8, h9, h10, h11⟩ ⟨by decide, by decide⟩ (by decide) h3

/-- on `T1dDom` the call sequence returns normally (no fault, no exception): one sink per source -/
theorem assignC_total (pb : Problem) (h : T1dDom pb) :
    ∃ a, balanceThenAssignC pb = .ok (.ok a) ∧ balanceThenAssign pb = .ok a ∧ a.length = pb.u.length := by
  have e := assignC_eq pb h
  obtain ⟨h1, h2, h3, _, _, _, _, h8, h9, _, _⟩ := h
  obtain ⟨pb', eb, eu, ev, es, el, hle, hge, _, _⟩ := balanceDemand_spec' pb h1 h2 (Or.inl h3)
  have hd' : ∀ x ∈ pb'.d, 0 ≤ x := by
    intro x hx
    obtain ⟨j, hj, rfl⟩ := List.getElem_of_mem hx
    have a1 := hge j
    have a2 : pb'.d.getD j 0 = pb'.d[j] := by
      simp [List.getD_eq_getElem?_getD, List.getElem?_eq_getElem hj]
    have a3 := getD_bounds (l := pb.d) (lo := 0) (hi := pb.d.sum)
      (fun y hy => ⟨h9 y hy, le_sum_of_mem _ h9 y hy⟩) ⟨Int.le_refl _, sum_nonneg' _ h9⟩ j
    omega
  have hv : checkOk pb' = true := (checkOk_iff pb').mpr
    ⟨by rw [es, eu]; exact h1, by rw [el, ev]; exact h2, by rw [es]; exact h8, hd', hle⟩
  obtain ⟨a, ea, hl, _⟩ := assign_total pb' hv
  have eu2 : balanceThenAssign pb = .ok a := by
    unfold balanceThenAssign
    rw [eb]
    exact ea
  refine ⟨a, ?_, eu2, by rw [hl, eu]⟩
  rw [e, eu2]

end ColoVerif.Transp1d
