import ColoVerif.Proofs.Transp1dUnsplit
/-
`computeSolution`: the two-pointer merge of the source intervals `[S i + p i, S (i+1) + p i]`
with the sink intervals `[D j, D (j+1)]`.  For ordered, disjoint source intervals inside
`[0, D.back()]` the plan it returns has, for every pair `(i, j)`, exactly the length of the overlap
of the two intervals; hence row sums = source lengths and column sums ≤ sink lengths.
-/
namespace ColoVerif.Transp1d

/-- start of source `i` on the cumulative-demand axis -/
def lo (sv : Solver) (p : List Int) (i : Nat) : Int := sv.S.getD i 0 + p.getD i 0
/-- end of source `i` on the cumulative-demand axis -/
def hi (sv : Solver) (p : List Int) (i : Nat) : Int := sv.S.getD (i + 1) 0 + p.getD i 0
/-- length of the overlap of source `i` with sink `j` -/
def ov (sv : Solver) (p : List Int) (i j : Nat) : Int :=
  max 0 (min (hi sv p i) (sv.D.getD (j + 1) 0) - max (lo sv p i) (sv.D.getD j 0))

structure Geo (sv : Solver) (p : List Int) : Prop where
  wf : sv.WF
  len : p.length = sv.u.length
  lohi : ∀ i, i < sv.u.length → lo sv p i < hi sv p i
  ord : ∀ i i', i < i' → i' < sv.u.length → hi sv p i ≤ lo sv p i'
  Dmono : ∀ a b, a ≤ b → b ≤ sv.v.length → sv.D.getD a 0 ≤ sv.D.getD b 0

/-- amount shipped from `k` to `l` -/
def cellSum : Plan → Nat → Nat → Int
  | [], _, _ => 0
  | (i, j, a) :: es, k, l => (if i = k ∧ j = l then a else 0) + cellSum es k l

/-- `if (e - b > 0) ret.emplace_back(i, j, e - b)` -/
def emit (i j : Nat) (a : Int) (rest : Plan) : Plan := if 0 < a then (i, j, a) :: rest else rest

theorem mem_emit (i j : Nat) (a : Int) (rest : Plan) (x : Nat × Nat × Int) :
    x ∈ emit i j a rest → (x = (i, j, a) ∧ 0 < a) ∨ x ∈ rest := by
  unfold emit
  split
  · intro h
    rcases List.mem_cons.mp h with h | h
    · exact Or.inl ⟨h, by assumption⟩
    · exact Or.inr h
  · exact Or.inr

theorem rowSum_emit (i j : Nat) (a : Int) (rest : Plan) (k : Nat) :
    rowSum (emit i j a rest) k = (if i = k then max 0 a else 0) + rowSum rest k := by
  unfold emit
  by_cases h : 0 < a
  · simp only [h, if_true, rowSum]
    by_cases hk : i = k
    · simp only [hk, if_true]; omega
    · simp only [hk, if_false]
  · simp only [h, if_false]
    by_cases hk : i = k
    · simp only [hk, if_true]; omega
    · simp only [hk, if_false]; omega

theorem colSum_emit (i j : Nat) (a : Int) (rest : Plan) (k : Nat) :
    colSum (emit i j a rest) k = (if j = k then max 0 a else 0) + colSum rest k := by
  unfold emit
  by_cases h : 0 < a
  · simp only [h, if_true, colSum]
    by_cases hk : j = k
    · simp only [hk, if_true]; omega
    · simp only [hk, if_false]
  · simp only [h, if_false]
    by_cases hk : j = k
    · simp only [hk, if_true]; omega
    · simp only [hk, if_false]; omega

theorem cellSum_emit (i j : Nat) (a : Int) (rest : Plan) (k l : Nat) :
    cellSum (emit i j a rest) k l = (if i = k ∧ j = l then max 0 a else 0) + cellSum rest k l := by
  unfold emit
  by_cases h : 0 < a
  · simp only [h, if_true, cellSum]
    by_cases hk : i = k ∧ j = l
    · simp only [hk, and_self, if_true]; omega
    · simp only [hk, if_false]
  · simp only [h, if_false]
    by_cases hk : i = k ∧ j = l
    · simp only [hk, and_self, if_true]; omega
    · simp only [hk, if_false]; omega

theorem rowSum_zero (plan : Plan) (k : Nat) (h : ∀ e ∈ plan, e.1 ≠ k) : rowSum plan k = 0 := by
  induction plan with
  | nil => rfl
  | cons e es ih =>
    obtain ⟨i, j, a⟩ := e
    have h1 : i ≠ k := h (i, j, a) (List.mem_cons_self ..)
    simp only [rowSum, h1, if_false, ih (fun e he => h e (List.mem_cons_of_mem _ he))]
    rfl

theorem colSum_zero (plan : Plan) (k : Nat) (h : ∀ e ∈ plan, e.2.1 ≠ k) : colSum plan k = 0 := by
  induction plan with
  | nil => rfl
  | cons e es ih =>
    obtain ⟨i, j, a⟩ := e
    have h1 : j ≠ k := h (i, j, a) (List.mem_cons_self ..)
    simp only [colSum, h1, if_false, ih (fun e he => h e (List.mem_cons_of_mem _ he))]
    rfl

theorem cellSum_zero (plan : Plan) (k l : Nat) (h : ∀ e ∈ plan, ¬ (e.1 = k ∧ e.2.1 = l)) :
    cellSum plan k l = 0 := by
  induction plan with
  | nil => rfl
  | cons e es ih =>
    obtain ⟨i, j, a⟩ := e
    have h1 : ¬ (i = k ∧ j = l) := h (i, j, a) (List.mem_cons_self ..)
    simp only [cellSum, h1, if_false, ih (fun e he => h e (List.mem_cons_of_mem _ he))]
    rfl

/-- what the merge started at `(i, j)` returns -/
structure MergePost (sv : Solver) (p : List Int) (i j : Nat) (plan : Plan) : Prop where
  ent : ∀ e ∈ plan, i ≤ e.1 ∧ e.1 < sv.u.length ∧ j ≤ e.2.1 ∧ e.2.1 < sv.v.length ∧ 0 < e.2.2
  row : ∀ i', i ≤ i' → i' < sv.u.length →
    rowSum plan i' = max 0 (min (hi sv p i') (sv.D.getD sv.v.length 0) - max (lo sv p i') (sv.D.getD j 0))
  col : ∀ j', j ≤ j' → j' < sv.v.length → i < sv.u.length →
    colSum plan j' ≤ max 0 (sv.D.getD (j' + 1) 0 - max (sv.D.getD j' 0) (lo sv p i))
  cell : ∀ i' j', i ≤ i' → i' < sv.u.length → j ≤ j' → j' < sv.v.length →
    cellSum plan i' j' = ov sv p i' j'

theorem solLoop_spec (sv : Solver) (p : List Int) (geo : Geo sv p) (k i j : Nat)
    (hk : (sv.u.length - i) + (sv.v.length - j) ≤ k) (hin : i ≤ sv.u.length) (hjm : j ≤ sv.v.length) :
    ∃ plan, solLoop sv p k i j = .ok plan ∧ MergePost sv p i j plan := by
  have wf := geo.wf
  induction k generalizing i j with
  | zero =>
    refine ⟨[], rfl, ⟨by simp, ?_, ?_, ?_⟩⟩
    · intro i' h1 h2; omega
    · intro j' h1 h2 h3; omega
    · intro i' j' h1 h2; omega
  | succ k ih =>
    unfold solLoop
    by_cases hc : i < p.length ∧ j < sv.nbSinks
    · have hi1 : i < sv.u.length := by rw [← geo.len]; exact hc.1
      have hj1 : j < sv.v.length := hc.2
      simp only [hc, and_self, if_true, get_ok' p i hc.1, get_ok' sv.S i (by have := wf.hS; omega),
        get_ok' sv.S (i + 1) (by have := wf.hS; omega), get_ok' sv.D j (by have := wf.hD; omega),
        get_ok' sv.D (j + 1) (by have := wf.hD; omega), bind, Except.bind, pure, Except.pure]
      have hlohi := geo.lohi i hi1
      have hDj := geo.Dmono j (j + 1) (by omega) (by omega)
      have hDm := geo.Dmono (j + 1) sv.v.length (by omega) (Nat.le_refl _)
      by_cases hadv : sv.S.getD (i + 1) 0 + p.getD i 0 < sv.D.getD (j + 1) 0
      · -- advance the source
        obtain ⟨rest, e, post⟩ := ih (i + 1) j (by omega) (by omega) hjm
        simp only [hadv, if_true, e]
        refine ⟨emit i j _ rest, rfl, ⟨?_, ?_, ?_, ?_⟩⟩
        · intro x hx
          rcases mem_emit _ _ _ _ _ hx with ⟨rfl, h0⟩ | hx
          · exact ⟨Nat.le_refl _, hi1, Nat.le_refl _, hj1, h0⟩
          · have := post.ent x hx; omega
        · intro i' h1 h2
          rw [rowSum_emit]
          by_cases heq : i = i'
          · subst heq
            rw [rowSum_zero rest i (fun x hx => by have := post.ent x hx; omega)]
            simp only [if_true, lo, hi] at hlohi ⊢
            omega
          · simp only [heq, if_false]
            rw [post.row i' (by omega) h2]; omega
        · intro j' h1 h2 _
          rw [colSum_emit]
          by_cases hn : i + 1 < sv.u.length
          · have hc' := post.col j' h1 h2 hn
            have hord := geo.ord i (i + 1) (by omega) hn
            by_cases heq : j = j'
            · subst heq
              simp only [if_true, lo, hi] at hlohi hc' hord ⊢
              omega
            · simp only [heq, if_false]
              simp only [lo, hi] at hlohi hc' hord ⊢
              omega
          · have hnil : rest = [] := List.eq_nil_iff_forall_not_mem.mpr
              (fun x hx => by have := post.ent x hx; omega)
            rw [hnil]
            by_cases heq : j = j'
            · subst heq
              simp only [if_true, colSum, lo, hi] at hlohi ⊢
              omega
            · simp only [heq, if_false, colSum]; omega
        · intro i' j' h1 h2 h3 h4
          rw [cellSum_emit]
          by_cases heq : i = i'
          · subst heq
            rw [cellSum_zero rest i j' (fun x hx => by have := post.ent x hx; omega)]
            by_cases heq2 : j = j'
            · subst heq2
              simp only [and_self, if_true, ov, lo, hi]
              omega
            · have hDj' := geo.Dmono (j + 1) j' (by omega) (by omega)
              simp only [heq2, and_false, if_false, ov, lo, hi] at hlohi ⊢
              omega
          · simp only [heq, false_and, if_false]
            rw [post.cell i' j' (by omega) h2 h3 h4]; omega
      · -- advance the sink
        obtain ⟨rest, e, post⟩ := ih i (j + 1) (by omega) hin (by omega)
        simp only [hadv, if_false, e]
        refine ⟨emit i j _ rest, rfl, ⟨?_, ?_, ?_, ?_⟩⟩
        · intro x hx
          rcases mem_emit _ _ _ _ _ hx with ⟨rfl, h0⟩ | hx
          · exact ⟨Nat.le_refl _, hi1, Nat.le_refl _, hj1, h0⟩
          · have := post.ent x hx; omega
        · intro i' h1 h2
          rw [rowSum_emit, post.row i' h1 h2]
          by_cases heq : i = i'
          · subst heq
            simp only [if_true, lo, hi] at hlohi ⊢
            omega
          · have hord := geo.ord i i' (by omega) h2
            simp only [heq, if_false, lo, hi] at hlohi hord ⊢
            omega
        · intro j' h1 h2 h3
          rw [colSum_emit]
          by_cases heq : j = j'
          · subst heq
            rw [colSum_zero rest j (fun x hx => by have := post.ent x hx; omega)]
            simp only [if_true, lo, hi] at hlohi ⊢
            omega
          · simp only [heq, if_false]
            have := post.col j' (by omega) h2 h3
            omega
        · intro i' j' h1 h2 h3 h4
          rw [cellSum_emit]
          by_cases heq2 : j = j'
          · subst heq2
            rw [cellSum_zero rest i' j (fun x hx => by have := post.ent x hx; omega)]
            by_cases heq : i = i'
            · subst heq
              simp only [and_self, if_true, ov, lo, hi]
              omega
            · have hord := geo.ord i i' (by omega) h2
              have hlohi' := geo.lohi i' h2
              simp only [heq, false_and, if_false, ov, lo, hi] at hlohi hlohi' hord ⊢
              omega
          · simp only [heq2, and_false, if_false]
            rw [post.cell i' j' h1 h2 (by omega) h4]; omega
    · simp only [hc, if_false, pure, Except.pure]
      have hc' : ¬ (i < sv.u.length ∧ j < sv.v.length) := by rw [← geo.len]; exact hc
      refine ⟨[], rfl, ⟨by simp, ?_, ?_, ?_⟩⟩
      · intro i' h1 h2
        have : j = sv.v.length := by omega
        subst this
        simp only [rowSum]; omega
      · intro j' h1 h2 h3; omega
      · intro i' j' h1 h2 h3 h4; omega

end ColoVerif.Transp1d
