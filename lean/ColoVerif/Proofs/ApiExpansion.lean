import ColoVerif.Proofs.BusyLemmas
/-
Helper lemmas for the C19 theorems about the validation skeletons of `Gen/ApiExpansion`
(expansion API, Disruption methods, constructor): bodies that consist of a prefix of `throwIf`s
followed by writes / pure steps only.
-/
namespace ColoVerif.Busy
open ColoVerif.ApiIR

/-- only writes and steps without effect on the control flow -/
def straight : List Stmt → Bool
  | [] => true
  | .assign _ :: rest => straight rest
  | .pure _ :: rest => straight rest
  | .setInUse _ :: rest => straight rest
  | _ => false

/-- a prefix of `throwIf`s, then a straight remainder -/
def checksThenStraight : List Stmt → Bool
  | [] => true
  | .throwIf _ :: rest => checksThenStraight rest
  | s :: rest => straight (s :: rest)

/-- the members a body may write -/
def assigned : List Stmt → List String
  | [] => []
  | .assign m :: rest => m :: assigned rest
  | _ :: rest => assigned rest

theorem exec_straight (oc : String → St → Res) (env : Env) :
    ∀ (body : List Stmt) (st : St), straight body = true → (exec oc env body st).out = .normal := by
  intro body
  induction body with
  | nil => intro st _; simp [exec]
  | cons s rest ih =>
    intro st h
    cases s with
    | assign m => simp only [straight] at h; simp only [exec]; exact ih _ h
    | pure w => simp only [straight] at h; simp only [exec]; exact ih _ h
    | setInUse b => simp only [straight] at h; simp only [exec]; exact ih _ h
    | _ => simp [straight] at h

theorem straight_preConds : ∀ (body : List Stmt), straight body = true → preConds body = [] := by
  intro body h
  cases body with
  | nil => simp [preConds]
  | cons s rest => cases s <;> simp [straight] at h <;> simp [preConds]

/-- When no tested condition holds, a checks-then-straight body runs to its end. -/
theorem exec_checksThenStraight (oc : String → St → Res) (env : Env) :
    ∀ (body : List Stmt) (st : St), checksThenStraight body = true →
      (∀ c ∈ preConds body, Cond.eval env 0 c = false) → (exec oc env body st).out = .normal := by
  intro body
  induction body with
  | nil => intro st _ _; simp [exec]
  | cons s rest ih =>
    intro st h hc
    cases s with
    | throwIf c =>
      simp only [checksThenStraight] at h
      have h0 : Cond.eval env 0 c = false := hc c (by simp [preConds])
      simp only [exec, h0]
      exact ih st h (fun c' hm => hc c' (by simp [preConds, hm]))
    | assign m => exact exec_straight oc env _ st (by simpa [checksThenStraight] using h)
    | pure w => exact exec_straight oc env _ st (by simpa [checksThenStraight] using h)
    | setInUse b => exact exec_straight oc env _ st (by simpa [checksThenStraight] using h)
    | _ => simp [checksThenStraight, straight] at h

/-- A checks-then-straight body throws exactly when one of its tested conditions holds (and then the
state is untouched, `exec_preConds`). -/
theorem exec_thrown_iff (oc : String → St → Res) (env : Env) (body : List Stmt) (st : St)
    (h : checksThenStraight body = true) :
    (exec oc env body st).out = .thrown ↔ ∃ c ∈ preConds body, Cond.eval env 0 c = true := by
  constructor
  · intro ht
    by_cases hex : ∃ c ∈ preConds body, Cond.eval env 0 c = true
    · exact hex
    · have hall : ∀ c ∈ preConds body, Cond.eval env 0 c = false := by
        intro c hm
        cases hv : Cond.eval env 0 c with
        | false => rfl
        | true => exact absurd ⟨c, hm, hv⟩ hex
      rw [exec_checksThenStraight oc env body st h hall] at ht
      cases ht
  · intro hex
    rw [exec_preConds oc env body st hex]

/-- `c` occurs as a disjunct of the condition -/
def hasDisjunct (c : Cond) : Cond → Bool
  | .or a b => hasDisjunct c a || hasDisjunct c b
  | d => d == c

theorem hasDisjunct_eval (env : Env) (x : Int) (c : Cond) :
    ∀ d : Cond, hasDisjunct c d = true → Cond.eval env x c = true → Cond.eval env x d = true := by
  intro d
  induction d with
  | or a b iha ihb =>
    intro h hc
    simp only [hasDisjunct, Bool.or_eq_true] at h
    rcases h with h | h
    · simp [Cond.eval, iha h hc]
    · simp [Cond.eval, ihb h hc]
  | _ =>
    intro h hc
    simp only [hasDisjunct, beq_iff_eq] at h
    subst h
    exact hc

/-- the length test of the argument at position `i`: `arg.size() != nbCells()` -/
def lenCondAt (i : Nat) : Cond := .not (.eq (.size i) .nbCells)

theorem lenCondAt_eval (env : Env) (i : Nat) (h : (env.arg i).len ≠ env.nbCells) :
    Cond.eval env 0 (lenCondAt i) = true := by
  simp [lenCondAt, Cond.eval, Expr.eval, h]

/-- some element below a bound: the evaluation of `anyElem i (elem < lit b)` -/
theorem anyBelow_eval (env : Env) (i : Nat) (b : Int) :
    Cond.eval env 0 (.anyElem i (.lt .elem (.lit b))) = true ↔ ∃ x ∈ (env.arg i).vals, x < b := by
  simp only [Cond.eval, Expr.eval, List.any_eq_true]
  constructor
  · rintro ⟨x, hm, hx⟩; exact ⟨x, hm, of_decide_eq_true hx⟩
  · rintro ⟨x, hm, hx⟩; exact ⟨x, hm, decide_eq_true hx⟩

end ColoVerif.Busy
