import ColoVerif.Proofs.LegalizeIdem2Circuit
import ColoVerif.Proofs.LegalizeLegalCircuit
/-
Helper lemmas for C11, part 7: "legalizing twice gives the same positions as legalizing once".
What the first call returns (single-row design of the domain) is again in the domain, single-row,
legal (`legalizeWith_legal`, C01) and orientation-legal: every cell carries the orientation
`getOrientation` gave it in the segment that lists it, `evaluatePlacement` refused INVALID, and that
segment is the only free segment containing the cell.
-/
namespace ColoVerif.Legalize
open ColoVerif ColoVerif.RowLeg

/-! ### `evaluatePlacement` never accepts an INVALID orientation -/

def OrOK (S : List Row) (c : LCell) (k : Nat) : Prop := getOrientation S c k ≠ Orient.INVALID

def BestOr (S : List Row) (c : LCell) (b : Option ABest) : Prop := ∀ bb, b = some bb → OrOK S c bb.row

theorem abacusTry_orient (S : List Row) (c : LCell) (row : Nat) (s : List State × Option ABest)
    (h : BestOr S c s.2) : BestOr S c (abacusTry S c row s).1.2 := by
  unfold abacusTry
  split
  · exact h
  · split
    · exact h
    · split
      · exact h
      · rename_i hce
        have hor : OrOK S c row := by
          unfold canEval at hce
          simp only [Bool.not_eq_true, Bool.not_eq_false', Bool.and_eq_true, bne_iff_ne, ne_eq] at hce
          exact hce.2
        generalize getCost (legAt s.1 row) c.w c.tx = g
        obtain ⟨cost, leg'⟩ := g
        intro bb hbb
        simp only at hbb
        cases hb : s.2 with
        | none =>
          rw [hb] at hbb
          simp only [abacusBetter, Option.some.injEq] at hbb
          rw [← hbb]; exact hor
        | some b0 =>
          rw [hb] at hbb
          simp only [abacusBetter] at hbb
          split at hbb
          · simp only [Option.some.injEq] at hbb
            rw [← hbb]; exact hor
          · simp only [Option.some.injEq] at hbb
            rw [← hbb]; exact h b0 hb

theorem scanRows_orient (S : List Row) (c : LCell) : ∀ (l : List Nat) (s : List State × Option ABest),
    BestOr S c s.2 → BestOr S c (scanRows (abacusTry S c) l s).2
  | [], _, h => h
  | r :: l, s, h => by
    have h' := abacusTry_orient S c r s h
    cases hf : abacusTry S c r s with
    | mk s' fl =>
      rw [hf] at h'
      cases fl with
      | true => rw [scanRows_cons_true _ _ _ _ _ hf]; exact h'
      | false => rw [scanRows_cons_false _ _ _ _ _ hf]; exact scanRows_orient S c l s' h'

theorem abacusPlace_orient (a : Abacus) (i : Nat) (c : LCell) (k j : Nat)
    (hj : j ∈ (abacusPlace a i c).1.rowCells.getD k []) :
    j ∈ a.rowCells.getD k [] ∨ (j = i ∧ OrOK a.rows c k) := by
  unfold abacusPlace at hj
  have inv : BestOr a.rows c
      (searchRows (abacusTry a.rows c) a.rows.length (startRow a.rows c.ty) (a.legs, none)).2 := by
    unfold searchRows
    apply scanRows_orient
    apply scanRows_orient
    intro bb hbb
    simp at hbb
  generalize searchRows (abacusTry a.rows c) a.rows.length (startRow a.rows c.ty) (a.legs, none) = res at inv hj
  obtain ⟨legs, b⟩ := res
  cases b with
  | none => left; exact hj
  | some bb =>
    simp only at hj
    by_cases hk : bb.row = k
    · by_cases hl : bb.row < a.rowCells.length
      · rw [← hk, getD_set_eq _ _ _ _ hl] at hj
        rcases List.mem_append.mp hj with h | h
        · left; rw [← hk]; exact h
        · right
          refine ⟨by simpa using h, ?_⟩
          rw [← hk]; exact inv bb rfl
      · rw [List.set_eq_of_length_le (by omega)] at hj
        left; exact hj
    · rw [getD_set_ne _ _ _ _ _ hk] at hj
      left; exact hj

theorem abacusLoop_orient (S : List Row) (cells : List LCell) : ∀ (m i : Nat) (a : Abacus),
    i + m = cells.length → a.rows = S →
    (∀ k j, j ∈ a.rowCells.getD k [] → OrOK S (cellAt cells j) k) →
    ∀ k j, j ∈ (abacusLoop a i (cells.drop i)).1.rowCells.getD k [] → OrOK S (cellAt cells j) k
  | 0, i, a, him, _, h => by
    have : i = cells.length := by omega
    subst this
    simpa only [List.drop_length, abacusLoop] using h
  | m + 1, i, a, him, hr, h => by
    have hi : i < cells.length := by omega
    rw [drop_cellAt cells i hi, abacusLoop_cons]
    apply abacusLoop_orient S cells m (i + 1) _ (by omega) (by rw [abacusPlace_rows]; exact hr)
    intro k j hj
    rcases abacusPlace_orient a i (cellAt cells i) k j hj with h' | ⟨rfl, h'⟩
    · exact h k j h'
    · rw [hr] at h'; exact h'

/-- every cell the Abacus pass reports placed: the segment that lists it, its y, its bounds, its
orientation (accepted by `evaluatePlacement`, hence not INVALID) -/
theorem abacusRun_written (R : List Row) (cells : List LCell) (ps : List Pos) (hw : ∀ c ∈ cells, 0 < c.w)
    (h : abacusRun R cells = .ok ps) (c : Nat) (hc : (posAt ps c).placed = true) :
    ∃ k r, (sortRows R)[k]? = some r ∧ (posAt ps c).y = r.rect.minY ∧ r.rect.minX ≤ (posAt ps c).x ∧
      (posAt ps c).x + (cellAt cells c).w ≤ r.rect.maxX ∧
      (posAt ps c).orient = getOrientation (sortRows R) (cellAt cells c) k ∧
      getOrientation (sortRows R) (cellAt cells c) k ≠ Orient.INVALID := by
  obtain ⟨hps, hck⟩ := abacusRun_check R cells ps hw h
  have hlen : (abacusLoop (Abacus.init R) 0 cells).1.rowCells.length = (sortRows R).length := by
    rw [abacusLoop_rowCells_length]; simp [Abacus.init]
  have hor := abacusLoop_orient (sortRows R) cells cells.length 0 (Abacus.init R) (by omega) rfl (by
    intro k j hj
    have : (Abacus.init R).rowCells.getD k [] = [] := by
      simp only [Abacus.init, List.getD_eq_getElem?_getD, List.getElem?_map]
      cases (sortRows R)[k]? <;> rfl
    rw [this] at hj; simp at hj)
  rw [List.drop_zero] at hor
  rcases writeRows_spec (sortRows R) cells (abacusLoop (Abacus.init R) 0 cells).1.rowCells
      (abacusLoop (Abacus.init R) 0 cells).1.legs 0 (cells.map initPos) c with hs | ⟨k, rc, h1, h2, h3⟩
  · rw [← hps] at hs
    rw [hs, posAt_init] at hc
    exact absurd hc (by simp)
  · rw [← hps, Nat.zero_add] at h3
    have hk : k < (sortRows R).length := by
      rw [← hlen]; exact (List.getElem?_eq_some_iff.mp h1).1
    have hr : (sortRows R)[k]? = some (sortRows R)[k] := List.getElem?_eq_getElem hk
    obtain ⟨hb, _⟩ := hck k _ rc hr h1
    obtain ⟨_, b1, b2⟩ := hb c h2
    have er : rowAt (sortRows R) k = (sortRows R)[k] := by
      simp [rowAt, List.getD_eq_getElem?_getD, hr]
    obtain ⟨w1, _, w3⟩ := h3
    rw [er] at w1
    have hin : c ∈ (abacusLoop (Abacus.init R) 0 cells).1.rowCells.getD k [] := by
      simp only [List.getD_eq_getElem?_getD, h1, Option.getD_some]; exact h2
    exact ⟨k, _, hr, w1, b1, b2, w3, hor k c hin⟩

/-! ### `Legalizer::run` on a single-row design: the orientations it returns -/

theorem run_rowhigh_orient (rnd : Rat → Rat) (p : Params) (R : List Row) (H : Int) (cells : List LCell)
    (b1 b2 : Base) (hgood : ∀ r ∈ R, GoodSeg H r) (hdisj : R.Pairwise RowsDisj)
    (hh : ∀ c ∈ cells, c.h = H ∧ 0 < c.w)
    (h1 : runTetris (Base.mk' R cells) (computeCellOrder rnd p.ow p.oy p.oh cells) = .ok b1)
    (h2 : runAbacus b1 (computeCellOrder rnd p.ow p.oy p.oh cells) = .ok b2)
    (hall : b2.pos.all (·.placed) = true) (m : Nat) (hm : m < cells.length) :
    (posAt b2.pos m).orient ≠ Orient.INVALID ∧
    ∀ r ∈ R, r.rect.minY = (posAt b2.pos m).y → r.rect.minX ≤ (posAt b2.pos m).x →
      (posAt b2.pos m).x + (cellAt cells m).w ≤ r.rect.maxX →
      cellOrientationInRow (cellAt cells m).pol r.orient = Orient.UNKNOWN ∨
      cellOrientationInRow (cellAt cells m).pol r.orient = (posAt b2.pos m).orient := by
  have hperm1 : (sortRows R).Perm R := sortRows_perm R
  have hord := computeCellOrder_perm rnd p.ow p.oy p.oh cells
  have hlt : ∀ j ∈ computeCellOrder rnd p.ow p.oy p.oh cells, j < cells.length :=
    fun j hj => List.mem_range.mp (hord.mem_iff.mp hj)
  simp only [Base.mk'] at h1
  cases hS : sortRows R with
  | nil =>
    exfalso
    rw [hS] at h1
    unfold runTetris at h1
    simp only [rowHeight?, List.head?_nil, Option.map_none] at h1
    split at h1
    · rename_i he
      have : (computeCellOrder rnd p.ow p.oy p.oh cells).length = 0 := by
        simpa [List.isEmpty_iff] using he
      rw [hord.length_eq, List.length_range] at this
      omega
    · simp at h1
  | cons r0 rs =>
    rw [hS] at h1
    have hr0 : r0.rect.height = H := (hgood r0 (hperm1.mem_iff.mp (by rw [hS]; simp))).2.2
    have hh' : ∀ j ∈ computeCellOrder rnd p.ow p.oy p.oh cells, (cellAt cells j).h = H :=
      fun j hj => (hh _ (cellAt_mem cells j (hlt j hj))).1
    have hT : runTetris ⟨r0 :: rs, cells, cells.map initPos⟩ (computeCellOrder rnd p.ow p.oy p.oh cells)
        = .ok ⟨r0 :: rs, cells, cells.map initPos⟩ := by
      unfold runTetris
      simp only [rowHeight?, List.head?_cons, Option.map_some, hr0]
      have : tetrisSel ⟨r0 :: rs, cells, cells.map initPos⟩ H (computeCellOrder rnd p.ow p.oy p.oh cells) = [] := by
        unfold tetrisSel
        rw [List.filter_eq_nil_iff]
        intro j hj
        simp [hh' j hj]
      rw [this]
      simp [importPos]
    rw [hT] at h1
    injection h1 with h1
    subst h1
    have hrem : Base.remainingRows ⟨r0 :: rs, cells, cells.map initPos⟩ = sortRows R := by
      unfold Base.remainingRows
      simp only [placedRects_init]
      rw [← hS]
      exact flatMap_self _ _ (fun r hr => freespace_nil H r (hgood r (hperm1.mem_iff.mp hr)))
    have hsel : abacusSel ⟨r0 :: rs, cells, cells.map initPos⟩ H (computeCellOrder rnd p.ow p.oy p.oh cells)
        = computeCellOrder rnd p.ow p.oy p.oh cells := by
      unfold abacusSel
      rw [List.filter_eq_self]
      intro j hj
      simp [hh' j hj, posAt_init_placed cells j (hlt j hj)]
    unfold runAbacus at h2
    simp only [rowHeight?, List.head?_cons, Option.map_some, hr0] at h2
    rw [hsel, hrem] at h2
    cases hrun : abacusRun (sortRows R) ((computeCellOrder rnd p.ow p.oy p.oh cells).map (cellAt cells)) with
    | error e => rw [hrun] at h2; simp at h2
    | ok ps =>
      rw [hrun] at h2
      simp only at h2
      injection h2 with h2
      subst h2
      simp only at hall ⊢
      -- the status of cell `m` was imported from the Abacus pass
      have hpl : (posAt (importPos (computeCellOrder rnd p.ow p.oy p.oh cells) ps (cells.map initPos)) m).placed = true := by
        rw [List.all_eq_true] at hall
        have hm' : m < (importPos (computeCellOrder rnd p.ow p.oy p.oh cells) ps (cells.map initPos)).length := by
          rw [importPos_len]; simpa using hm
        rw [posAt_eq_getElem _ m hm']
        exact hall _ (List.getElem_mem hm')
      rcases importPos_spec (computeCellOrder rnd p.ow p.oy p.oh cells) ps (cells.map initPos) m with hs | ⟨j, q, s1, s2, s3, s4⟩
      · rw [hs, posAt_init_placed cells m hm] at hpl
        exact absurd hpl (by simp)
      · rw [s4]
        have hq : posAt ps j = q := posAt_of_getElem? ps j q s2
        have hcj : cellAt ((computeCellOrder rnd p.ow p.oy p.oh cells).map (cellAt cells)) j = cellAt cells m := by
          apply cellAt_of_getElem?
          rw [List.getElem?_map, s1]; rfl
        have hw' : ∀ c ∈ (computeCellOrder rnd p.ow p.oy p.oh cells).map (cellAt cells), 0 < c.w := by
          intro c hc
          obtain ⟨j', hj', rfl⟩ := List.mem_map.mp hc
          exact (hh _ (cellAt_mem cells j' (hlt j' hj'))).2
        obtain ⟨k, rk, e1, e2, e3, e4, e5, e6⟩ := abacusRun_written (sortRows R) _ ps hw' hrun j (by rw [hq]; exact s3)
        simp only [hq, hcj] at e2 e3 e4 e5 e6
        have hperm2 : (sortRows (sortRows R)).Perm R := (sortRows_perm _).trans hperm1
        have hrk : rk ∈ R := hperm2.mem_iff.mp (List.mem_of_getElem? e1)
        have erk : rowAt (sortRows (sortRows R)) k = rk := by
          simp [rowAt, List.getD_eq_getElem?_getD, e1]
        refine ⟨by rw [e5]; exact e6, ?_⟩
        intro r hr y1 x1 x2
        have hwm := (hh _ (cellAt_mem cells m hm)).2
        have heq : r = rk := by
          apply Classical.byContradiction
          intro hne
          rcases pairwise_ne hdisj r hr rk hrk hne with hd | hd
          · have := hd (by omega); omega
          · have := hd (by omega); omega
        subst heq
        rw [e5]
        unfold getOrientation
        rw [erk]
        by_cases hu : cellOrientationInRow (cellAt cells m).pol r.orient = Orient.UNKNOWN
        · left; exact hu
        · right; rw [if_neg hu]

/-! ### circuit level -/

/-- every movable cell of the exported circuit is a movable cell of the input with the position and
orientation of its status -/
theorem export_movable (c : Circuit) (P : List Pos) (hlen : P.length = (c.cells.filter fun cl => !cl.fixed).length)
    (cl' : Cell) (hmem : cl' ∈ exportCells c.cells P) (hf : cl'.fixed = false) :
    ∃ m cl, (c.cells.filter fun cl => !cl.fixed)[m]? = some cl ∧ m < P.length ∧ cl' = updCell cl (posAt P m) := by
  have hmemF : cl' ∈ (exportCells c.cells P).filter fun cl => !cl.fixed := by
    rw [List.mem_filter]; exact ⟨hmem, by simp [hf]⟩
  obtain ⟨m, hm⟩ := List.mem_iff_getElem?.mp hmemF
  rw [exportCells_filter c.cells P hlen, List.getElem?_zipWith] at hm
  cases hcm : (c.cells.filter fun cl => !cl.fixed)[m]? with
  | none => rw [hcm] at hm; simp at hm
  | some cl =>
    cases hpm : P[m]? with
    | none => rw [hcm, hpm] at hm; simp at hm
    | some q =>
      rw [hcm, hpm] at hm
      simp only [Option.some.injEq] at hm
      refine ⟨m, cl, hcm, (List.getElem?_eq_some_iff.mp hpm).1, ?_⟩
      rw [posAt_of_getElem? _ _ _ hpm]
      exact hm.symm

/-- **Legalizing twice = legalizing once**, for every single-row design of the domain and every key
rounding that keeps the left-to-right order on the first result. -/
theorem legalizeWith_twice_seg (rnd : Rat → Rat) (p : Params) (c c' : Circuit) (hd : DomL c) (hs : SingleRow c)
    (h : legalizeWith rnd p c = .ok c') (hk : KeyOrderSeg rnd p c'.computeRows (movable c')) :
    legalizeWith rnd p c' = .ok c' := by
  have hlegal : LegalL c' := legalizeWith_legal rnd p c c' hd h
  obtain ⟨hp, b1, b2, h1, h2, hall, rfl⟩ := legalizeWith_ok rnd p c _ h
  obtain ⟨⟨H, hpos, hH, hcl⟩, hdis, hx, hturn⟩ := domL_spelled c hd
  have hgood := computeRows_good c H hH hx
  have hdisj := computeRows_disj c H hpos hH hx hdis
  have hH0 : (Circuit.rowHeight c).getD 0 = H := by rw [hH]; rfl
  have hRc : RowsOK H c.computeRows := by rw [← hH0]; exact dom_rowsOK c hd
  have hL : CellsOK H (movable c) := by rw [← hH0]; exact dom_cellsOK c hd
  obtain ⟨hlen, hcleg, _⟩ := run_legal H hpos c.computeRows hRc (movable c) hL _ b1 b2 h1 h2
  have hmlen : (movable c).length = (c.cells.filter fun cl => !cl.fixed).length := by
    rw [movable_eq]; simp
  have hph : ∀ cl ∈ c.cells, cl.fixed = false → cl.placedHeight = H := by
    intro cl hcl' hf
    have := hs cl hcl' hf
    rw [hH] at this
    exact (Option.some.inj this).symm
  have hhm : ∀ lc ∈ movable c, lc.h = H ∧ 0 < lc.w := by
    intro lc hlc
    rw [movable_eq] at hlc
    obtain ⟨cl, hcl', rfl⟩ := List.mem_map.mp hlc
    obtain ⟨hmem, hf⟩ := List.mem_filter.mp hcl'
    have hf' : cl.fixed = false := by simpa using hf
    exact ⟨hph cl hmem hf', (hcl cl hmem hf').1⟩
  -- every movable cell of the result
  have key : ∀ cl' ∈ (exportPlacement b2 c).cells, cl'.fixed = false →
      ∃ m cl, m < (movable c).length ∧ cl ∈ c.cells ∧ cl.fixed = false ∧ cellAt (movable c) m = toLCell cl ∧
        cl'.x = (posAt b2.pos m).x ∧ cl'.y = (posAt b2.pos m).y ∧ cl'.orient = (posAt b2.pos m).orient ∧
        cl'.pol = cl.pol ∧ cl'.placedWidth = cl.placedWidth ∧ cl'.placedHeight = cl.placedHeight := by
    intro cl' hmem hf
    obtain ⟨m, cl, hcm, hmP, rfl⟩ := export_movable c b2.pos (by rw [hlen, hmlen]) cl' hmem hf
    have hpl : (posAt b2.pos m).placed = true := by
      rw [List.all_eq_true] at hall
      rw [posAt_eq_getElem _ m hmP]
      exact hall _ (List.getElem_mem hmP)
    have hcell : cellAt (movable c) m = toLCell cl := by
      apply cellAt_of_getElem?
      rw [movable_eq, List.getElem?_map, hcm]
      rfl
    have hturn' := (hcleg m hpl).2.1
    rw [hcell] at hturn'
    simp only [toLCell] at hturn'
    obtain ⟨hclm, hclf⟩ := List.mem_filter.mp (List.mem_of_getElem? hcm)
    refine ⟨m, cl, by rw [← hlen]; exact hmP, hclm, by simpa using hclf, hcell, ?_, ?_, ?_, ?_, ?_, ?_⟩ <;>
      simp [updCell, hpl, Cell.placedWidth, Cell.placedHeight, hturn']
  have hdc : DomC (exportPlacement b2 c) := by
    refine ⟨⟨H, hpos, hH, ?_⟩, hdis, hx, ?_⟩
    · intro cl' hmem hf
      obtain ⟨m, cl, _, q1, q2, _, _, _, _, _, q9, q10⟩ := key cl' hmem hf
      rw [q9, q10]
      exact hcl cl q1 q2
    · intro cl' hmem hf hpol
      obtain ⟨m, cl, hm, q1, q2, q3, _, _, q7, q8, _, _⟩ := key cl' hmem hf
      have hpl : (posAt b2.pos m).placed = true := by
        rw [List.all_eq_true] at hall
        have hmP : m < b2.pos.length := by rw [hlen]; exact hm
        rw [posAt_eq_getElem _ m hmP]
        exact hall _ (List.getElem_mem hmP)
      have hturn' := (hcleg m hpl).2.1
      rw [q3] at hturn'
      simp only [toLCell] at hturn'
      rw [q7, hturn']
      exact hturn cl q1 q2 (by rw [← q8]; exact hpol)
  have hsr : SingleRow (exportPlacement b2 c) := by
    intro cl' hmem hf
    obtain ⟨m, cl, _, q1, q2, _, _, _, _, _, _, q10⟩ := key cl' hmem hf
    rw [q10]
    exact hs cl q1 q2
  have hol : OrientLegal (exportPlacement b2 c) := by
    intro cl' hmem hf
    obtain ⟨m, cl, hm, q1, q2, q3, q4, q5, q6, q7, q8, _⟩ := key cl' hmem hf
    obtain ⟨o1, o2⟩ := run_rowhigh_orient rnd p c.computeRows H (movable c) b1 b2 hgood hdisj hhm h1 h2 hall m hm
    refine ⟨by rw [q6]; exact o1, ?_⟩
    intro r hr y1 x1 x2
    rw [export_computeRows] at hr
    have := o2 r hr (by rw [y1, q5]) (by rw [← q4]; exact x1) (by
      rw [q3, ← q4]
      simp only [toLCell]
      rw [← q8]; exact x2)
    rw [q3] at this
    simp only [toLCell] at this
    rw [q7, q6]
    exact this
  exact legalizeWith_fixed_seg rnd p _ hp hdc hsr hlegal hol hk

/-- the same under the row-wide hypothesis `KeyOrder` -/
theorem legalizeWith_twice (rnd : Rat → Rat) (p : Params) (c c' : Circuit) (hd : DomL c) (hs : SingleRow c)
    (h : legalizeWith rnd p c = .ok c') (hk : KeyOrder rnd p (movable c')) :
    legalizeWith rnd p c' = .ok c' :=
  legalizeWith_twice_seg rnd p c c' hd hs h (hk.toSeg _)

end ColoVerif.Legalize
