import ColoVerif.Proofs.RowLegPush
/-
Helper lemmas for C12, part 5: the value-function invariant over reachable
states, and from it optimality of `getPlacement` and exactness of the cost sum.

Invariant (DESIGN §9 C12).  Let `B`, `C`, `used` be the queue, the sum of the
reported push costs and the used width of a reachable state, `L = e − used`.
For every `x ∈ [b, L]`:
  * (lower bound) every legal placement of the pushed cells whose last cell ends at or
    before `x + used` costs at least `F(x) = C + eval B x − eval B L`;
  * (attainment) the returned placement, clamped at `x` in "absolute" coordinates, costs
    exactly `F(x)`.
-/
namespace ColoVerif.RowLeg

theorem push_used (s : State) (w t : Int) : (push s w t).2.used = w + s.used := by
  simp [State.used, push_widthsRev]

/-- `push_core` instantiated on the model's `push`. -/
theorem push_key (s : State) (w t : Int) (hsorted : Sorted s.bounds)
    (hbpos : ∀ β ∈ s.bounds, s.b ≤ β.absPos ∧ 0 < β.weight)
    (hw : 0 < w) (hfit : w ≤ s.remaining) (hused : 0 ≤ s.used) :
    (∀ β ∈ (push s w t).2.bounds, s.b ≤ β.absPos ∧ 0 < β.weight) ∧
    (∀ x, s.b ≤ x → x ≤ s.e - s.used - w →
      (push s w t).1 + eval (push s w t).2.bounds x - eval (push s w t).2.bounds (s.e - s.used - w)
      = eval s.bounds (min (displacement s w t).finalAbsPos x) - eval s.bounds (s.e - s.used)
        + w * ((min (displacement s w t).finalAbsPos x - (t - s.used)).natAbs : Int)) ∧
    (∀ y x, s.b ≤ y → y ≤ x → x ≤ s.e - s.used - w →
      eval s.bounds (min (displacement s w t).finalAbsPos x)
        + w * ((min (displacement s w t).finalAbsPos x - (t - s.used)).natAbs : Int)
      ≤ eval s.bounds y + w * ((y - (t - s.used)).natAbs : Int)) := by
  obtain ⟨acc, _, hinv, hexit⟩ :=
    scan_facts s.bounds w (t - s.used) (s.e - s.used - w) (s.e - s.used) s.e
  simp only [State.remaining] at hfit
  exact push_core s.bounds _ acc w (t - s.used) (s.e - s.used - w) (s.e - s.used) s.e s.b _ _ _
    (displacement s w t).finalAbsPos hsorted hbpos hw (by omega) (by omega) (by omega) hinv hexit rfl

theorem legalRev_lo (b : Int) : ∀ (ws ys : List Int) (hi : Int), (∀ w ∈ ws, 0 ≤ w) →
    LegalRev b hi ws ys → b + ws.sum ≤ hi
  | [], [], hi, _, h => by simpa [LegalRev] using h
  | [], _ :: _, _, _, h => by simp [LegalRev] at h
  | _ :: _, [], _, _, h => by simp [LegalRev] at h
  | w :: ws, y :: ys, hi, hw, h => by
    simp only [LegalRev] at h
    have := legalRev_lo b ws ys y (fun v hv => hw v (List.mem_cons_of_mem _ hv)) h.2
    simp only [List.sum_cons]
    omega

/-- The value-function invariant. -/
structure CostInv (b e : Int) (h : List (Int × Int)) (C : Int) (s : State) : Prop where
  bpos : ∀ β ∈ s.bounds, b ≤ β.absPos ∧ 0 < β.weight
  lb : ∀ (ys : List Int) (hi : Int), LegalRev b hi s.widthsRev ys → hi ≤ e →
    C + eval s.bounds (hi - s.used) - eval s.bounds (e - s.used) ≤ dispCost h ys
  att : ∀ x, b ≤ x → x ≤ e - s.used →
    dispCost h (List.zipWith (· + ·) ((runMin none s.cposRev).map (min x)) (cumRev s.widthsRev))
      = C + eval s.bounds x - eval s.bounds (e - s.used)

theorem reach_costInv {b e : Int} {h : List (Int × Int)} {C : Int} {s : State} (hr : Reach b e h C s) :
    CostInv b e h C s := by
  induction hr with
  | new =>
    refine ⟨by simp [State.new], ?_, ?_⟩
    · intro ys hi hl _
      cases ys with
      | nil => simp [State.new, eval, dispCost]
      | cons y ys => simp [State.new, LegalRev] at hl
    · intro x _ _
      simp [State.new, eval, dispCost]
  | @push h C s w t hr' hw hfit ih =>
    have hi := reach_inv hr'
    have hb := hi.hb
    have he := hi.he
    have hpos := aligned_pos b e _ _ hi.aligned
    have hused : 0 ≤ s.used := aligned_sum_nonneg b e _ _ hi.aligned
    obtain ⟨k0, k2, k1⟩ := push_key s w t hi.sorted (by rw [hb]; exact ih.bpos) hw hfit hused
    rw [hb, he] at k2 k1
    rw [hb] at k0
    have hfb := fin_bounds s w t hfit
    rw [hb, he] at hfb
    refine ⟨k0, ?_, ?_⟩
    · -- lower bound
      intro ys hi' hl hhi
      rw [push_widthsRev] at hl
      cases ys with
      | nil => simp [LegalRev] at hl
      | cons y ys =>
        simp only [LegalRev] at hl
        have hlo := legalRev_lo b _ ys y (fun v hv => by have := hpos v hv; omega) hl.2
        have hIH := ih.lb ys y hl.2 (by omega)
        have hu : s.widthsRev.sum = s.used := rfl
        have h1 := k1 (y - s.used) (hi' - s.used - w) (by omega) (by omega) (by omega)
        have h2 := k2 (hi' - s.used - w) (by omega) (by omega)
        have e1 : y - s.used - (t - s.used) = y - t := by omega
        rw [e1] at h1
        have e2 : hi' - (push s w t).2.used = hi' - s.used - w := by rw [push_used]; omega
        have e3 : e - (push s w t).2.used = e - s.used - w := by rw [push_used]; omega
        rw [e2, e3]
        simp only [dispCost]
        linarith
    · -- attainment
      intro x hbx hxl
      rw [push_used] at hxl
      have hu : s.widthsRev.sum = s.used := rfl
      have h2 := k2 x hbx (by omega)
      have hIH := ih.att (min (displacement s w t).finalAbsPos x) (by omega) (by omega)
      have e3 : e - (push s w t).2.used = e - s.used - w := by rw [push_used]; omega
      rw [push_cposRev, push_widthsRev, runMin_none_cons, e3]
      simp only [List.map_cons, List.map_map, cumRev, List.zipWith_cons_cons, dispCost]
      have emap : List.map (min x ∘ min (displacement s w t).finalAbsPos) (runMin none s.cposRev)
          = List.map (min (min (displacement s w t).finalAbsPos x)) (runMin none s.cposRev) := by
        apply List.map_congr_left
        intro z _
        simp only [Function.comp]
        omega
      have e1 : min x (displacement s w t).finalAbsPos + s.widthsRev.sum - t
          = min (displacement s w t).finalAbsPos x - (t - s.used) := by rw [hu]; omega
      rw [emap, e1, hIH]
      linarith
  | @cost h C s w t hr' ih =>
    rw [getCost_state s w t (reach_inv hr').sorted]
    exact ih

/-! ### from most-recent-first lists to push order -/

theorem dispCost_snoc (w t x : Int) : ∀ (cs : List (Int × Int)) (xs : List Int), cs.length = xs.length →
    dispCost (cs ++ [(w, t)]) (xs ++ [x]) = dispCost cs xs + w * ((x - t).natAbs : Int)
  | [], [], _ => by simp [dispCost]
  | [], _ :: _, h => by simp at h
  | _ :: _, [], h => by simp at h
  | (v, u) :: cs, y :: ys, h => by
    simp only [List.cons_append, dispCost]
    rw [dispCost_snoc w t x cs ys (by simpa using h)]
    omega

theorem dispCost_reverse : ∀ (cs : List (Int × Int)) (xs : List Int), cs.length = xs.length →
    dispCost cs.reverse xs.reverse = dispCost cs xs
  | [], [], _ => rfl
  | [], _ :: _, h => by simp at h
  | _ :: _, [], h => by simp at h
  | (w, t) :: cs, x :: xs, h => by
    simp only [List.reverse_cons, dispCost]
    rw [dispCost_snoc w t x _ _ (by simpa using h), dispCost_reverse cs xs (by simpa using h)]
    omega

theorem legalRev_length (b : Int) : ∀ (ws ys : List Int) (hi : Int), LegalRev b hi ws ys → ys.length = ws.length
  | [], [], _, _ => rfl
  | [], _ :: _, _, h => by simp [LegalRev] at h
  | _ :: _, [], _, h => by simp [LegalRev] at h
  | _ :: ws, _ :: ys, _, h => by
    simp only [LegalRev] at h
    simp [legalRev_length b ws ys _ h.2]

theorem runMin_le_of_aligned (b e : Int) : ∀ (cs ws : List Int), Aligned b e cs ws →
    ∀ p ∈ runMin none cs, p ≤ e - ws.sum
  | [], [], _ => by simp [runMin]
  | [], _ :: _, h => by simp [Aligned] at h
  | _ :: _, [], h => by simp [Aligned] at h
  | c :: cs, w :: ws, h => by
    simp only [Aligned] at h
    rw [runMin_none_cons]
    intro p hp
    simp only [List.sum_cons]
    rcases List.mem_cons.mp hp with rfl | hp
    · omega
    · obtain ⟨z, _, rfl⟩ := List.mem_map.mp hp
      omega

theorem aligned_length (b e : Int) : ∀ (cs ws : List Int), Aligned b e cs ws → cs.length = ws.length
  | [], [], _ => rfl
  | [], _ :: _, h => by simp [Aligned] at h
  | _ :: _, [], h => by simp [Aligned] at h
  | _ :: cs, _ :: ws, h => by
    simp only [Aligned] at h
    simp [aligned_length b e cs ws h.2.2.2]

theorem cumRev_length : ∀ (ws : List Int), (cumRev ws).length = ws.length
  | [] => rfl
  | _ :: ws => by simp [cumRev, cumRev_length ws]

theorem aligned_room (b e : Int) (hbe : b ≤ e) : ∀ (cs ws : List Int), Aligned b e cs ws → b + ws.sum ≤ e
  | [], [], _ => by simpa using hbe
  | [], _ :: _, h => by simp [Aligned] at h
  | _ :: _, [], h => by simp [Aligned] at h
  | _ :: cs, w :: ws, h => by
    simp only [Aligned] at h
    simp only [List.sum_cons]
    omega

theorem reach_nil_cost {b e : Int} {h : List (Int × Int)} {C : Int} {s : State} (hr : Reach b e h C s) :
    h = [] → C = 0 := by
  induction hr with
  | new => intro _; rfl
  | push w t _ _ _ _ => intro h; simp at h
  | cost w t _ ih => exact ih

theorem placementRev_length {b e : Int} {h : List (Int × Int)} {s : State} (hi : Inv b e h s) :
    (placementRev s).length = h.length := by
  simp only [placementRev, List.length_zipWith, runMin_length, cumRev_length,
    aligned_length b e _ _ hi.aligned, hi.widths, List.length_map, Nat.min_self]

/-- Exactness: the reported push costs sum to the cost of the returned placement
(most-recent-first form). -/
theorem reach_cost_exact {b e : Int} {h : List (Int × Int)} {C : Int} {s : State} (hr : Reach b e h C s) :
    dispCost h (placementRev s) = C := by
  have hi := reach_inv hr
  have hc := reach_costInv hr
  by_cases hbe : b ≤ e
  · have hroom := aligned_room b e hbe _ _ hi.aligned
    have hu : s.widthsRev.sum = s.used := rfl
    have hatt := hc.att (e - s.used) (by omega) (Int.le_refl _)
    have hmap : (runMin none s.cposRev).map (min (e - s.used)) = runMin none s.cposRev := by
      have hle := runMin_le_of_aligned b e _ _ hi.aligned
      rw [hu] at hle
      conv => rhs; rw [← List.map_id (runMin none s.cposRev)]
      apply List.map_congr_left
      intro p hp
      have := hle p hp
      simp only [id]
      omega
    rw [hmap] at hatt
    simp only [placementRev]
    omega
  · have hne : h = [] := by
      by_cases hne : h = []
      · exact hne
      · exact absurd (aligned_b_le_e b e _ _ hi.aligned (by rw [hi.widths]; simpa using hne)) hbe
    rw [reach_nil_cost hr hne, hne]
    cases placementRev s <;> rfl

/-- Optimality (most-recent-first form): no legal placement of the pushed cells is cheaper. -/
theorem reach_optimal {b e : Int} {h : List (Int × Int)} {C : Int} {s : State} (hr : Reach b e h C s)
    (ys : List Int) (hl : LegalRev b e s.widthsRev ys) : dispCost h (placementRev s) ≤ dispCost h ys := by
  have := (reach_costInv hr).lb ys e hl (Int.le_refl _)
  rw [reach_cost_exact hr]
  omega

/-- Exactness in push order. -/
theorem reach_exact_fwd {b e : Int} {h : List (Int × Int)} {C : Int} {s : State} (hr : Reach b e h C s) :
    dispCost h.reverse (placement s) = C := by
  rw [placement, dispCost_reverse h _ (placementRev_length (reach_inv hr)).symm]
  exact reach_cost_exact hr

/-- Optimality in push order. -/
theorem reach_optimal_fwd {b e : Int} {h : List (Int × Int)} {C : Int} {s : State} (hr : Reach b e h C s)
    (ys : List Int) (hl : Legal e b (h.reverse.map Prod.fst) ys) :
    dispCost h.reverse (placement s) ≤ dispCost h.reverse ys := by
  have hi := reach_inv hr
  have hlen : ys.length = h.length := by
    rw [legal_length e _ _ _ hl]; simp
  have hl' : LegalRev b e s.widthsRev ys.reverse := by
    rw [legalRev_iff, hi.widths]
    simpa [List.map_reverse] using hl
  have := reach_optimal hr ys.reverse hl'
  rw [placement, dispCost_reverse h _ (placementRev_length hi).symm]
  have e2 := dispCost_reverse h ys.reverse (by simpa using hlen.symm)
  rw [List.reverse_reverse] at e2
  rw [e2]
  exact this

end ColoVerif.RowLeg
