import ColoVerif.Proofs.Transp1dOptLib
import ColoVerif.Proofs.Transp1dAssign
/-
`flushPositions`: the final position of source `k` is the minimum of the recorded positions
`p k, …, p (n-1)`; the facts recorded per source give the optimality conditions `Kkt` of the final
positions.
-/
namespace ColoVerif.Transp1d

/-! ### list bookkeeping -/

private theorem take_succ_rev (l : List Int) (k : Nat) (h : k < l.length) :
    (l.take (k + 1)).reverse = l.getD k 0 :: (l.take k).reverse := by
  rw [List.take_succ_eq_append_getElem h, List.reverse_append, List.getD_eq_getElem?_getD,
    List.getElem?_eq_getElem h]
  rfl

private theorem take_rev_length (l : List Int) (k : Nat) (h : k ≤ l.length) :
    ((l.take k).reverse).length = k := by
  rw [List.length_reverse, List.length_take]; omega

theorem facts_drop (sv : Solver) : ∀ (l : List Int), Facts sv l → ∀ d, d < l.length →
    FactsTop sv (l.getD d 0) (l.drop (d + 1))
  | [], _, d, h => by simp at h
  | x :: xs, hf, 0, _ => by
    rw [List.getD_cons_zero, List.drop_succ_cons, List.drop_zero]; exact hf.1
  | x :: xs, hf, d + 1, h => by
    rw [List.getD_cons_succ, List.drop_succ_cons]
    exact facts_drop sv xs hf.2 d (by simpa using h)

theorem facts_at (sv : Solver) (l : List Int) (hf : Facts sv l.reverse) (k : Nat)
    (h : k < l.length) : FactsTop sv (l.getD k 0) ((l.take k).reverse) := by
  have h1 := facts_drop sv l.reverse hf (l.length - 1 - k) (by rw [List.length_reverse]; omega)
  have e1 : l.reverse.getD (l.length - 1 - k) 0 = l.getD k 0 := by
    rw [List.getD_eq_getElem?_getD, List.getD_eq_getElem?_getD,
      List.getElem?_reverse (by omega)]
    congr 2; omega
  have e2 : l.reverse.drop (l.length - 1 - k + 1) = (l.take k).reverse := by
    rw [List.drop_reverse]; congr 2; omega
  rw [e1, e2] at h1; exact h1

/-! ### `flush` as a running minimum -/

theorem flush_getD (mx : Int) : ∀ (l : List Int) (k : Nat), k < l.length →
    (flush mx l).getD k 0 = runMin mx (l.drop k)
  | [], k, h => by simp at h
  | x :: xs, 0, _ => by rw [List.drop_zero]; rfl
  | x :: xs, k + 1, h => by
    rw [List.drop_succ_cons]
    show (flush mx xs).getD k 0 = _
    exact flush_getD mx xs k (by simpa using h)

theorem runMin_drop (mx : Int) (l : List Int) (k : Nat) (h : k < l.length) :
    runMin mx (l.drop k) = min (l.getD k 0) (runMin mx (l.drop (k + 1))) := by
  rw [List.drop_eq_getElem_cons h, List.getD_eq_getElem?_getD, List.getElem?_eq_getElem h]
  rfl

theorem flush_step (mx : Int) (l : List Int) (k : Nat) (h : k + 1 < l.length) :
    (flush mx l).getD k 0 = min (l.getD k 0) ((flush mx l).getD (k + 1) 0) := by
  rw [flush_getD mx l k (by omega), flush_getD mx l (k + 1) h, runMin_drop mx l k (by omega)]

theorem flush_last (mx : Int) (l : List Int) (k : Nat) (h : k + 1 = l.length) :
    (flush mx l).getD k 0 = min (l.getD k 0) mx := by
  rw [flush_getD mx l k (by omega), runMin_drop mx l k (by omega), h, List.drop_length]
  rfl

/-! ### `lamU` / `lamRj` over a run -/

theorem lamU_start (sv : Solver) (l : List Int) (x : Int) (a : Nat) (ha : a ≤ l.length)
    (hs : a = 0 ∨ l.getD (a - 1) 0 < x) : lamU sv ((l.take a).reverse) x = 0 := by
  cases a with
  | zero => rfl
  | succ a =>
    rw [take_succ_rev l a (by omega)]
    have : l.getD a 0 < x := by
      rcases hs with h | h
      · omega
      · simpa using h
    simp only [lamU]
    rw [if_neg (by omega)]

theorem lamU_run (sv : Solver) (l : List Int) (x : Int) (a : Nat)
    (hs : a = 0 ∨ l.getD (a - 1) 0 < x) : ∀ d, a + d ≤ l.length →
    (∀ k', a ≤ k' → k' < a + d → x ≤ l.getD k' 0) →
    lamU sv ((l.take (a + d)).reverse) x
      = sumTo (a + d) (fun k' => tL sv k' x) - sumTo a (fun k' => tL sv k' x)
  | 0, h, _ => by
    rw [Nat.add_zero, lamU_start sv l x a (by omega) hs]; omega
  | d + 1, h, hr => by
    have ih := lamU_run sv l x a hs d (by omega) (fun k' h1 h2 => hr k' h1 (by omega))
    rw [← Nat.add_assoc, take_succ_rev l (a + d) (by omega)]
    simp only [lamU, sumTo]
    rw [if_pos (hr (a + d) (by omega) (by omega)), take_rev_length l (a + d) (by omega), ih]
    omega

private theorem lamRj_zero (sv : Solver) (l : List Int) (x : Int) : lamRj sv l x 0 = 0 := by
  cases l <;> rfl

theorem lamRj_run (sv : Solver) (l : List Int) (x : Int) (c : Nat) : ∀ j, c + j ≤ l.length →
    (∀ k', c ≤ k' → k' < c + j → x ≤ l.getD k' 0) →
    lamRj sv ((l.take (c + j)).reverse) x j
      = sumTo (c + j) (fun k' => tR sv k' x) - sumTo c (fun k' => tR sv k' x)
  | 0, _, _ => by
    rw [lamRj_zero]; simp
  | j + 1, h, hr => by
    have ih := lamRj_run sv l x c j (by omega) (fun k' h1 h2 => hr k' h1 (by omega))
    rw [← Nat.add_assoc, take_succ_rev l (c + j) (by omega)]
    simp only [lamRj, sumTo]
    rw [if_pos (hr (c + j) (by omega) (by omega)), take_rev_length l (c + j) (by omega), ih]
    omega

/-! ### the facts about the flushed positions -/

/-- the flushed positions as a running minimum of the recorded ones (the cap `mx` is inactive) -/
structure FlushRel (p q : List Int) : Prop where
  step : ∀ k, k + 1 < p.length → q.getD k 0 = min (p.getD k 0) (q.getD (k + 1) 0)
  last : ∀ k, k + 1 = p.length → q.getD k 0 = p.getD k 0

theorem FlushRel.le {p q : List Int} (h : FlushRel p q) (k : Nat) (hk : k < p.length) :
    q.getD k 0 ≤ p.getD k 0 := by
  by_cases h1 : k + 1 < p.length
  · have := h.step k h1; omega
  · have := h.last k (by omega); omega

theorem FlushRel.mono {p q : List Int} (h : FlushRel p q) (k : Nat) (hk : k + 1 < p.length) :
    q.getD k 0 ≤ q.getD (k + 1) 0 := by
  have := h.step k hk; omega

/-- the recorded position of the source before a run start is below the run -/
theorem FlushRel.start {p q : List Int} (h : FlushRel p q) (a : Nat) (ha : a < p.length)
    (hs : a = 0 ∨ q.getD (a - 1) 0 < q.getD a 0) :
    a = 0 ∨ p.getD (a - 1) 0 < q.getD a 0 := by
  rcases hs with h0 | h1
  · exact Or.inl h0
  · by_cases h0 : a = 0
    · exact Or.inl h0
    · right
      have := h.step (a - 1) (by omega)
      rw [show a - 1 + 1 = a by omega] at this
      omega

/-- the last source of a run sits at its recorded position -/
theorem FlushRel.stop {p q : List Int} (h : FlushRel p q) (b : Nat) (hb : b < p.length)
    (hs : b + 1 = p.length ∨ q.getD b 0 < q.getD (b + 1) 0) : q.getD b 0 = p.getD b 0 := by
  by_cases h1 : b + 1 < p.length
  · have := h.step b h1
    rcases hs with h0 | h0
    · omega
    · omega
  · exact h.last b (by omega)

theorem flushRel (sv : Solver) (pRaw : List Int) (hlen : pRaw.length = sv.u.length)
    (hf : Facts sv pRaw.reverse) :
    FlushRel pRaw (flush (sv.D.getD sv.v.length 0 - sv.S.getD sv.u.length 0) pRaw) := by
  refine ⟨fun k hk => flush_step _ _ k hk, fun k hk => ?_⟩
  rw [flush_last _ _ k hk]
  have h := (facts_at sv pRaw hf k (by omega)).fit
  rw [take_rev_length pRaw k (by omega), hk, hlen] at h
  omega

theorem facts_kkt (sv : Solver) (sd : SwDom sv) (pRaw : List Int) (hlen : pRaw.length = sv.u.length)
    (hf : Facts sv pRaw.reverse) :
    Kkt sv (flush (sv.D.getD sv.v.length 0 - sv.S.getD sv.u.length 0) pRaw) := by
  have _ := sd
  have hr := flushRel sv pRaw hlen hf
  generalize flush (sv.D.getD sv.v.length 0 - sv.S.getD sv.u.length 0) pRaw = q at hr ⊢
  refine ⟨?_, ?_, ?_, ?_⟩
  · -- s1
    intro a k hak hk hs hrun hpos
    have hk' : k < pRaw.length := by omega
    have hst := hr.start a (by omega) hs
    have hge : ∀ k', a ≤ k' → k' ≤ k → q.getD a 0 ≤ pRaw.getD k' 0 := by
      intro k' h1 h2
      have := hr.le k' (by omega)
      rw [hrun k' h1 h2] at this; exact this
    have hF := (facts_at sv pRaw hf k hk').f1 (q.getD a 0) hpos (hge k hak (Nat.le_refl _))
    rw [← take_succ_rev pRaw k hk'] at hF
    have hU := lamU_run sv pRaw (q.getD a 0) a hst (k + 1 - a) (by omega)
      (fun k' h1 h2 => hge k' h1 (by omega))
    rw [show a + (k + 1 - a) = k + 1 by omega] at hU
    rw [hU] at hF
    exact hF
  · -- s2
    intro a ha hs hpos t ht
    have ha' : a < pRaw.length := by omega
    have hst := hr.start a ha' hs
    have hF := (facts_at sv pRaw hf a ha').f2 (q.getD a 0) hpos (hr.le a ha') (by
      intro y hy
      by_cases ha0 : a = 0
      · subst ha0; simp at hy
      rcases hst with h0 | h0
      · exact absurd h0 ha0
      · rw [show a = (a - 1) + 1 by omega, take_succ_rev pRaw (a - 1) (by omega)] at hy
        simp only [List.head?_cons, Option.some.injEq] at hy
        rw [← hy]; exact h0)
    rw [take_rev_length pRaw a (by omega)] at hF
    exact hF t ht
  · -- s3
    intro k b hkb hb hs hrun hroom
    have hb' : b < pRaw.length := by omega
    have hqb := hr.stop b hb' (by rw [hlen]; exact hs)
    have hF := (facts_at sv pRaw hf b hb').f3 (by
      rw [take_rev_length pRaw b (by omega), ← hqb]; exact hroom) (b + 1 - k)
    rw [← take_succ_rev pRaw b hb', ← hqb] at hF
    have hR := lamRj_run sv pRaw (q.getD b 0) k (b + 1 - k) (by omega) (by
      intro k' h1 h2
      have := hr.le k' (by omega)
      rw [hrun k' h1 (by omega)] at this; exact this)
    rw [show k + (b + 1 - k) = b + 1 by omega] at hR
    rw [hR] at hF
    exact hF
  · -- s4
    intro b hb hs hroom t ht htm
    have hb' : b < pRaw.length := by omega
    have hqb := hr.stop b hb' (by rw [hlen]; exact hs)
    have hF := (facts_at sv pRaw hf b hb').f4
    rw [take_rev_length pRaw b (by omega), ← hqb] at hF
    exact hF hroom t ht htm

theorem facts_posDom (sv : Solver) (sd : SwDom sv) (pRaw : List Int) (hlen : pRaw.length = sv.u.length)
    (hf : Facts sv pRaw.reverse) (hslack : sv.S.getD sv.u.length 0 < sv.D.getD sv.v.length 0) :
    PosDom sv (flush (sv.D.getD sv.v.length 0 - sv.S.getD sv.u.length 0) pRaw) := by
  have hr := flushRel sv pRaw hlen hf
  have hl := flush_length (sv.D.getD sv.v.length 0 - sv.S.getD sv.u.length 0) pRaw
  generalize flush (sv.D.getD sv.v.length 0 - sv.S.getD sv.u.length 0) pRaw = q at hr hl ⊢
  have hnn : ∀ d i, i + d + 1 = pRaw.length → 0 ≤ q.getD i 0 := by
    intro d
    induction d with
    | zero =>
      intro i hi
      rw [hr.last i (by omega)]
      exact (facts_at sv pRaw hf i (by omega)).nn
    | succ d ih =>
      intro i hi
      have h1 := ih (i + 1) (by omega)
      have h2 := (facts_at sv pRaw hf i (by omega)).nn
      have h3 := hr.step i (by omega)
      omega
  refine ⟨sd.si, sd.spos, sd.dpos, by omega, ?_, ?_, ?_, hslack⟩
  · intro i hi; exact hr.mono i (by omega)
  · intro i hi; exact hnn (pRaw.length - 1 - i) i (by omega)
  · intro i hi
    have h1 := hr.le i (by omega)
    have h2 := (facts_at sv pRaw hf i (by omega)).fit
    rw [take_rev_length pRaw i (by omega)] at h2
    omega

end ColoVerif.Transp1d
