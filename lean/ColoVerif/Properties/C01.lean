import ColoVerif.Proofs.LegalizeFrame
import ColoVerif.Model.LegacyLegalize
/-
C01 — legalization returns a legal placement or fails loudly.

All statements are about the definitions the driver `drv_C01` executes (`Legalize.legalizeWith`,
instantiated by the driver with the binary32 rounding `f32`; the theorems hold for every rounding
function, legality does not depend on the ordering key).
-/
namespace ColoVerif.C01
open ColoVerif ColoVerif.Legalize

/-- the property's domain: uniform positive row height, pairwise disjoint rows, movable cells of
positive placed width whose placed height is a positive multiple of the row height, polarised
cells unturned -/
def Dom (c : Circuit) : Prop :=
  (∃ H, 0 < H ∧ Circuit.rowHeight c = some H ∧
    ∀ cl ∈ c.cells, cl.fixed = false → 0 < cl.placedWidth ∧ ∃ k : Int, 0 < k ∧ cl.placedHeight = k * H) ∧
  c.rows.Pairwise (fun r s => r.rect.intersects s.rect = false) ∧
  (∀ r ∈ c.rows, r.rect.minX < r.rect.maxX) ∧
  (∀ cl ∈ c.cells, cl.fixed = false → cl.pol ≠ Polarity.ANY → cl.orient.isTurn = false)

/-- the statement's legality, spelled out over `computeRows`: bottom edge on a row boundary, every
row-high strip inside one free segment, no two movable cells intersect -/
def Legal (c : Circuit) : Prop :=
  (∀ H, Circuit.rowHeight c = some H → ∀ cl ∈ c.cells, cl.fixed = false →
    ∀ k : Int, 0 ≤ k → k * H < cl.placedHeight →
      ∃ r ∈ c.computeRows, r.rect.minY = cl.y + k * H ∧ r.rect.minX ≤ cl.x ∧ cl.x + cl.placedWidth ≤ r.rect.maxX) ∧
  (c.cells.filter fun cl => !cl.fixed).Pairwise fun a b => a.placement.intersects b.placement = false

/-- C01, first clause, full strength (not proved for all inputs; see `legalize_legal_partial`) -/
def legalize_legal_full_statement : Prop :=
  ∀ (rnd : Rat → Rat) (p : Params) (c c' : Circuit), Dom c → legalizeWith rnd p c = .ok c' → Legal c'

/-- **Legality of the Abacus pass (partial).**  Whenever `AbacusLegalizer` (constructed on `rows`,
run on cells of positive width) returns — i.e. its own `check()` did not throw — the final
`rowToCells_` lists only valid cell indices, every listed cell lies inside its row segment
(`minX ≤ x`, `x + w ≤ maxX`), and the cells of one segment are pairwise in order and
non-overlapping (`x₁ + w₁ ≤ x₂` for every earlier/later pair, not only neighbours).

Missing for `legalize_legal_full_statement`: (i) every *placed* cell is listed in exactly one
segment and has that segment's `minY` (the `rowToCells_` lists are duplicate-free and
`writeRows` writes each cell once); (ii) the Tetris pass (strips of a multi-row cell inside one
segment per level, `rowFreePos_` keeps macros apart); (iii) the segments handed to Abacus are
`remainingRows` = rows minus obstructions minus placed macros, pairwise disjoint
(`Proofs/Freespace.lean` has the interval facts: `freeIntervals_inside/_pairwise/_misses`);
(iv) the index plumbing of `importLegalization`/`exportPlacement`.  (i)–(iv) are supported by the
C01 correspondence stream and the independent legality oracle on the real code, not by proof. -/
theorem legalize_legal_partial (rows : List Row) (cells : List LCell) (pos : List Pos)
    (hw : ∀ c ∈ cells, 0 < c.w) (h : abacusRun rows cells = .ok pos) :
    ∀ (k : Nat) (r : Row) (rc : List Nat), (sortRows rows)[k]? = some r →
      (abacusLoop (Abacus.init rows) 0 cells).1.rowCells[k]? = some rc →
      (∀ c ∈ rc, c < cells.length ∧ r.rect.minX ≤ (posAt pos c).x ∧
          (posAt pos c).x + (cellAt cells c).w ≤ r.rect.maxX) ∧
      rc.Pairwise fun c1 c2 => (posAt pos c1).x + (cellAt cells c1).w ≤ (posAt pos c2).x := by
  intro k r rc hr hrc
  have hrows : (abacusLoop (Abacus.init rows) 0 cells).1.rows = sortRows rows := by
    rw [abacusLoop_rows]; rfl
  have hmem : ∀ d ∈ rc, d < cells.length := by
    intro d hd
    rcases abacusLoop_mem cells (Abacus.init rows) 0 rc (List.mem_of_getElem? hrc) d hd with h | ⟨rc0, h0, hd0⟩
    · omega
    · simp only [Abacus.init, List.mem_map] at h0
      obtain ⟨_, _, rfl⟩ := h0
      simp at hd0
  have hwd : ∀ d ∈ rc, 0 < (cellAt cells d).w := by
    intro d hd
    have hl := hmem d hd
    apply hw
    simp [cellAt, List.getD_eq_getElem?_getD, List.getElem?_eq_getElem hl]
  unfold abacusRun at h
  generalize hA : abacusLoop (Abacus.init rows) 0 cells = A at h hrc hrows
  obtain ⟨a, oks⟩ := A
  simp only at h hrc hrows
  generalize hP : writeRows a.rows cells 0 a.rowCells a.legs (cells.map initPos) = P at h
  cases hck : abacusCheck a.rows cells a.rowCells P with
  | error e => rw [hck] at h; simp at h
  | ok u =>
    rw [hck] at h
    injection h with h
    subst h
    unfold abacusCheck at hck
    split at hck
    · simp at hck
    · split at hck
      · simp at hck
      · rename_i hz
        split at hck
        · simp at hck
        · rename_i ho
          have hz' : zipAll (rowBoundsOk cells P) a.rows a.rowCells = true := by
            cases hq : zipAll (rowBoundsOk cells P) a.rows a.rowCells
            · simp [hq] at hz
            · rfl
          have ho' : a.rowCells.all (rowOrderOk cells P) = true := by
            cases hq : a.rowCells.all (rowOrderOk cells P)
            · simp [hq] at ho
            · rfl
          rw [hrows] at hz'
          have hb := zipAll_get _ _ _ hz' k r rc hr hrc
          have hord : rowOrderOk cells P rc = true := by
            rw [List.all_eq_true] at ho'
            exact ho' rc (List.mem_of_getElem? hrc)
          refine ⟨?_, rowOrderOk_pairwise cells P rc hwd hord⟩
          intro c hc
          simp only [rowBoundsOk, List.all_eq_true] at hb
          have := hb c hc
          simp only [Bool.and_eq_true, Bool.not_eq_true', decide_eq_false_iff_not, Int.not_lt] at this
          exact ⟨hmem c hc, this.1, this.2⟩

/-- non-vacuity: a two-cell conflict in one segment goes through `abacusRun` -/
example : (abacusRun [⟨⟨0, 10, 0, 2⟩, .N⟩] [⟨4, 2, .ANY, 0, 0, .N⟩, ⟨3, 2, .ANY, 2, 0, .N⟩]).toOption.map (·.map (·.x)) = some [0, 4] := by
  decide +kernel

/-- **Error or all placed.**  (1) If `legalize` returns a circuit, the parameter check passed, both
passes ran, *every* movable cell was placed, and the result is `exportPlacement` of that state —
export is only reached after `checkAllPlaced`.  (2) If both passes ran but a cell stayed unplaced
the call fails with the `checkAllPlaced` error (no partially legal result).  (3) The result differs
from the input only in x/y/orientation of movable cells: rows and nets are kept, and cell by cell
size, fixed/obstruction flags and polarity are kept and fixed cells are untouched.  In the
functional model an error carries no circuit: the input is unchanged (the C++ side of this is the
`unchanged on throw` oracle of the harness, shared with C10). -/
theorem legalize_error_or_all (rnd : Rat → Rat) (p : Params) (c : Circuit) :
    (∀ c', legalizeWith rnd p c = .ok c' →
      p.check = true ∧
      ∃ b1 b2, runTetris (fromCircuit c) (computeCellOrder rnd p.ow p.oy p.oh (fromCircuit c).cells) = .ok b1 ∧
        runAbacus b1 (computeCellOrder rnd p.ow p.oy p.oh (fromCircuit c).cells) = .ok b2 ∧
        b2.pos.all (·.placed) = true ∧ c' = exportPlacement b2 c) ∧
    (∀ b1 b2, p.check = true →
      runTetris (fromCircuit c) (computeCellOrder rnd p.ow p.oy p.oh (fromCircuit c).cells) = .ok b1 →
      runAbacus b1 (computeCellOrder rnd p.ow p.oy p.oh (fromCircuit c).cells) = .ok b2 →
      b2.pos.all (·.placed) = false → legalizeWith rnd p c = .error .notAllPlaced) ∧
    (∀ c', legalizeWith rnd p c = .ok c' →
      c'.rows = c.rows ∧ c'.nets = c.nets ∧ Pointwise SameFrame c.cells c'.cells) := by
  refine ⟨fun c' h => legalizeWith_ok rnd p c c' h, fun b1 b2 hc h1 h2 hu => legalizeWith_unplaced rnd p c b1 b2 hc h1 h2 hu, ?_⟩
  intro c' h
  obtain ⟨_, b1, b2, _, _, _, rfl⟩ := legalizeWith_ok rnd p c c' h
  exact ⟨rfl, rfl, exportCells_frame _ _⟩

/-- C01, third clause, full strength (not proved; see `legalize_trivial_success_partial`):
row-high cells of polarity ANY whose total width is at most the total free segment width less
one maximum cell width per segment are always legalized. -/
def legalize_trivial_success_full_statement : Prop :=
  ∀ (rnd : Rat → Rat) (p : Params) (c : Circuit), p.check = true → Dom c →
    (∀ cl ∈ c.cells, cl.fixed = false →
      cl.pol = Polarity.ANY ∧ cl.orient ≠ Orient.INVALID ∧ Circuit.rowHeight c = some cl.placedHeight) →
    (∀ W, (∀ cl ∈ c.cells, cl.fixed = false → cl.placedWidth ≤ W) →
      (((c.cells.filter fun cl => !cl.fixed).map Cell.placedWidth).sum
        ≤ (c.computeRows.map fun r => r.rect.width).sum - (c.computeRows.length : Int) * W)) →
    ∃ c', legalizeWith rnd p c = .ok c'

/-- **Trivial success, local step (partial).**  `evaluatePlacement` accepts every segment with
enough remaining space for a cell without row restriction (polarity ANY, valid orientation): the
only refusals are lack of space and an INVALID orientation.

Missing for `legalize_trivial_success_full_statement`: the pigeonhole argument (total remaining
space ≥ #segments·maxW implies some segment has `remainingSpace ≥ w`), that the early exit of
`tryPlace` only triggers after a feasible row was found, that `RowLegalizer::push` keeps the
placement inside the segment (`C12.rowleg_feasible`) so that `check()` does not throw, and the
plumbing.  Supported by the harness' trivial-success oracle (measured in evidence), not by proof. -/
theorem legalize_trivial_success_partial (rows : List Row) (legs : List RowLeg.State) (c : LCell) (row : Nat)
    (hp : c.pol = Polarity.ANY) (ho : c.torient ≠ Orient.INVALID) (hs : c.w ≤ (legAt legs row).remaining) :
    canEval rows legs c row = true := by
  have : ¬ ((legAt legs row).remaining < c.w) := by omega
  simp [canEval, this, getOrientation, hp, cellOrientationInRow, ho]

/-- **Pre-fix witness (F1).**  On `LegacyLegalize.turnedCircuit` (corpus/C01/case0.txt) the pre-fix
Tetris pass, which swapped width and height of the turned two-row cell, returns two movable cells
whose placements intersect; the fixed model places them side by side. -/
theorem legacy_tetris_turned_overlap :
    LegacyLegalize.placements (LegacyLegalize.legalize LegacyLegalize.defaultParams LegacyLegalize.turnedCircuit)
      = [⟨0, 2, 0, 4⟩, ⟨0, 2, 2, 6⟩] ∧
    Rect.intersects ⟨0, 2, 0, 4⟩ ⟨0, 2, 2, 6⟩ = true ∧
    LegacyLegalize.placements (legalize LegacyLegalize.defaultParams LegacyLegalize.turnedCircuit)
      = [⟨0, 2, 0, 4⟩, ⟨2, 4, 2, 6⟩] ∧
    Rect.intersects ⟨0, 2, 0, 4⟩ ⟨2, 4, 2, 6⟩ = false := by
  decide +kernel

/-- **Pre-fix witness (cost narrowing).**  `int dist = <long long>` turned the cost 40000·180000 of
moving a cell to another segment into a negative number, which beats the cost 0 of staying. -/
theorem legacy_cost_narrowing_negative : LegacyLegalize.narrowedCost = -1389934592 ∧ (0 : Int) ≤ 40000 * 180000 := by
  decide

end ColoVerif.C01
